/-
  C01GenSqrtLong — `LongOK`: the translated `Dec.Gen.Code.bid_long_sqrt128` (bid_sqrt_macros.rs) returns `⌊√C⌋` or
  `⌊√C⌋ + 1` for every `10^66 ≤ C < 10^68` (`long_ok`).  This was the only hypothesis left open by `C01GenSqrt`, so
      sqrt_spec :  bid128_sqrt x m f = .ok (encoding of (sqrtD (md m) (dOf x)).1 , f ||| flags of sqrtD)
  now holds for every non-NaN operand, every rounding mode and every status word with no hypothesis about the source.

  FINDINGS.  None new: no `C` violates the bound (the margin is about 7 % of the allowed error in the worst binade
  `[2^225, 10^68)`, see below; adversarial search over 600 000 operands near `10^68` reached 0.365 of the allowed 0.5).
  Consequence for finding 1 of `C01GenSqrt` (the mistyped carry `CS.w[0] += 1; if CS.w[0] != 0 { CS.w[1] += 1 }` in the
  directed-rounding tail of bid128_sqrt.rs): it is reached only if `bid_long_sqrt128` returns `⌊√C⌋ − 1` or less, which
  `long_ok` excludes — the line is wrong as written but DEAD.

  THE ARGUMENT.  (1) §1 the word level (`long_words`): given the results of the ten f64 operations and the bit pattern
  `ly = MY·2^(−ey−52)` (`110 ≤ ey ≤ 113`), the routine returns `⌊(⌊S / 2^(ey−13)⌋ + 1)/2⌋` with `S = longS MY ey C`
  (`A0 = MY·C`, `N = MY·A0`, `B = 2^(2ey+104)`, `E = ⌊|N − B| / 2^(2ey−23)⌋` (ceiling if `N < B`), `w = ⌊E/2^64⌋`,
  `S = ⌊A0/2^64⌋ ∓ E·⌊A0/2^192⌋ + (w + ⌊w/2⌋)·w·⌊A0/2^192⌋`); `gen_mul_64x320_to_512` is new.
  (2) §2–5 the float level (`long_float`): `lx` is `C` rounded ONCE (the top two terms; the two low words are absorbed,
  `chain_long`, `rn53_absorb`), so `|lx − C| ≤ (2^-53 + 2^-78)·C`; the square root in absolute form (`fpSqrt_abs`: within
  half an ulp, `2^29` units of the 83-bit integer root), which for an odd binary exponent is `≤ 0.7072·2^-53` relative
  (`root_big`); the reciprocal `≤ 2^-53` (`C01GenSqrt.fpRecip_spec`).  Together `η = ly²·C − 1` has `|η| ≤ 4.42·2^-53` if
  the exponent of `lx` is odd (all `C ≥ 2^225`), and `|η| ≤ 5.001·2^-53` otherwise, where then `C < 2^225 + 2^175`.
  (3) §6–7 the mathematics (`long_math_pos`, `long_math_neg`, over ℚ): `S` is within `(7/2)·|η|·a/2^65 + 2^89` of
  `a·(1 − η/2 + 3η²/8)` (`a = A0/2^64`; the dominant term is the truncation of the second-order coefficient to the top
  word of `E`), which is within `a·|η|^3` of `a/√(1+η) = 2·2^(ey−13)·√C`; with (2) the dominant term is below
  `0.95·2^(ey−13)`, so `(S − P)² ≤ 4P²C ≤ (S + P)²` for `P = 2^(ey−13)` and the rounded quotient is `⌊√C⌋` or `⌊√C⌋+1`.
-/
import DecProofs.Properties.C01GenSqrt
import DecProofs.Properties.C01GenDiv256Corner
set_option maxRecDepth 8000
set_option linter.unusedVariables false
namespace Dec.C01GenSqrtLong

/-! ## 1. The word level: from the float estimate to one natural-number formula -/
section Words
open Dec.Rs Dec.Gen Dec.Gen.Code
open Dec.C12GenNaN Dec.C01GenArith Dec.C01GenMul Dec.C01GenSqrt

/-! Word-level part of `bid_long_sqrt128` (bid_sqrt_macros.rs): `long_words` at the end.  Method as for `short_sqrt128` in
C01GenSqrt §16–19: two suffix copies of the text (`longFromES`, `longFromS`), stepping with `take_call`/`take_pos`. -/

/-- the defaults of the wide word structures are all-zero (unlike `U128`'s) -/
example : (default : U512) = ⟨0,0,0,0,0,0,0,0⟩ ∧ (default : U256) = ⟨0,0,0,0⟩ := by decide

/-- `__mul_64x320_to_512`: the exact product of a word and the five low words of `B` (its words 5–7 are not read), in a
`U512` whose words 6, 7 are 0. -/
theorem gen_mul_64x320_to_512 (a : UInt64) (B : U512) :
    ∃ r, mul_64x320_to_512 a B = .ok r ∧
      r.toNat' = a.toNat * (B.w0.toNat + 2 ^ 64 * B.w1.toNat + 2 ^ 128 * B.w2.toNat + 2 ^ 192 * B.w3.toNat
        + 2 ^ 256 * B.w4.toNat) ∧ r.w6 = 0 ∧ r.w7 = 0 := by
  obtain ⟨p0, h0, e0⟩ := gen_mul_64x64_to_128 a B.w0
  obtain ⟨p1, h1, e1⟩ := gen_mul_64x64_to_128 a B.w1
  obtain ⟨p2, h2, e2⟩ := gen_mul_64x64_to_128 a B.w2
  obtain ⟨p3, h3, e3⟩ := gen_mul_64x64_to_128 a B.w3
  obtain ⟨p4, h4, e4⟩ := gen_mul_64x64_to_128 a B.w4
  obtain ⟨r1, g1, s1, c1⟩ := gen_add_carry_out p1.w0 p0.w1
  obtain ⟨r2, g2, s2, c2⟩ := gen_add_carry_in_out p2.w0 p1.w1 r1.2 c1
  obtain ⟨r3, g3, s3, c3⟩ := gen_add_carry_in_out p3.w0 p2.w1 r2.2 c2
  obtain ⟨r4, g4, s4, c4⟩ := gen_add_carry_in_out p4.w0 p3.w1 r3.2 c3
  refine ⟨⟨p0.w0, r1.1, r2.1, r3.1, r4.1, p4.w1 + r4.2, 0, 0⟩, ?_, ?_, rfl, rfl⟩
  · unfold mul_64x320_to_512
    take_call h0
    take_call h1
    take_call h2
    take_call h3
    take_call h4
    take_call g1
    take_call g2
    take_call g3
    take_call g4
    rfl
  · have hw : (p4.w1 + r4.2).toNat = (p4.w1.toNat + r4.2.toNat) % 2 ^ 64 := UInt64.toNat_add _ _
    have b0 := a.toNat_lt
    have b4 := B.w4.toNat_lt
    have hp4 : p4.toNat' ≤ (2 ^ 64 - 1) * (2 ^ 64 - 1) := by
      rw [e4]; exact Nat.mul_le_mul (by omega) (by omega)
    have key : a.toNat * (B.w0.toNat + 2 ^ 64 * B.w1.toNat + 2 ^ 128 * B.w2.toNat + 2 ^ 192 * B.w3.toNat
        + 2 ^ 256 * B.w4.toNat) = a.toNat * B.w0.toNat + 2 ^ 64 * (a.toNat * B.w1.toNat)
        + 2 ^ 128 * (a.toNat * B.w2.toNat) + 2 ^ 192 * (a.toNat * B.w3.toNat) + 2 ^ 256 * (a.toNat * B.w4.toNat) := by
      ring
    rw [key, ← e0, ← e1, ← e2, ← e3, ← e4]
    simp only [U512.toNat', U128.toNat', UInt64.toNat_zero] at hp4 ⊢
    rw [hw]
    have := p0.w0.toNat_lt; have := p0.w1.toNat_lt
    have := p1.w0.toNat_lt; have := p1.w1.toNat_lt
    have := p2.w0.toNat_lt; have := p2.w1.toNat_lt
    have := p3.w0.toNat_lt; have := p3.w1.toNat_lt
    have := p4.w0.toNat_lt; have := p4.w1.toNat_lt
    have := r4.1.toNat_lt
    omega

/-! ## Two suffixes of the text of `bid_long_sqrt128` -/

/-- the text of `bid_long_sqrt128` from the sign test of the error term on -/
def longFromES (pCS_ : U128) (ARS00_ : U256) (ARS1_ : U128) (ES_ : U128) (ey_ : Int32) : Except String U128 := do
  let mut pCS : U128 := pCS_
  let mut ARS00 : U256 := ARS00_
  let mut AE : U256 := default
  let mut AE2 : U256 := default
  let mut S : U256 := default
  let mut ES : U128 := ES_
  let mut ES2 : U128 := default
  let mut ARS1 : U128 := ARS1_
  let mut ES32 : UInt64 := default
  let mut CY : UInt64 := default
  let mut ey : Int32 := ey_
  let mut k : Int32 := default
  let mut k2 : Int32 := default
  if (decide (((Int64.ofInt (toI ES.w1))) < (0 : Int64))) then
    ES := { ES with w0 := (UInt64.ofInt (toI (-((Int64.ofInt (toI ES.w0)))))) }
    ES := { ES with w1 := (UInt64.ofInt (toI (-((Int64.ofInt (toI ES.w1)))))) }
    if (ES.w0 != (0 : UInt64)) then
      ES := { ES with w1 := (ES.w1 - 1) }
    AE := (← mul_128x128_to_256 ES ARS1)
    let t__1 := (← add_carry_out ARS00.w0 AE.w0)
    S := { S with w0 := t__1.1 }
    CY := t__1.2
    let t__2 := (← add_carry_in_out ARS00.w1 AE.w1 CY)
    S := { S with w1 := t__2.1 }
    CY := t__2.2
    let t__3 := (← add_carry_in_out ARS00.w2 AE.w2 CY)
    S := { S with w2 := t__3.1 }
    CY := t__3.2
    S := { S with w3 := ((ARS00.w3 + AE.w3) + CY) }
  else
    AE := (← mul_128x128_to_256 ES ARS1)
    let t__4 := (← sub_borrow_out ARS00.w0 AE.w0)
    S := { S with w0 := t__4.1 }
    CY := t__4.2
    let t__5 := (← sub_borrow_in_out ARS00.w1 AE.w1 CY)
    S := { S with w1 := t__5.1 }
    CY := t__5.2
    let t__6 := (← sub_borrow_in_out ARS00.w2 AE.w2 CY)
    S := { S with w2 := t__6.1 }
    CY := t__6.2
    S := { S with w3 := ((ARS00.w3 - AE.w3) - CY) }
  ES32 := (ES.w1 + ((ES.w1 >>> 1)))
  ES2 := (← mul_64x64_to_128 ES32 ES.w1)
  AE2 := (← mul_128x128_to_256 ES2 ARS1)
  let t__7 := (← add_carry_out S.w0 AE2.w0)
  S := { S with w0 := t__7.1 }
  CY := t__7.2
  let t__8 := (← add_carry_in_out S.w1 AE2.w1 CY)
  S := { S with w1 := t__8.1 }
  CY := t__8.2
  let t__9 := (← add_carry_in_out S.w2 AE2.w2 CY)
  S := { S with w2 := t__9.1 }
  CY := t__9.2
  S := { S with w3 := ((S.w3 + AE2.w3) + CY) }
  k := ((ey + (0x33 : Int32)) - (0x80 : Int32))
  k2 := ((0x40 : Int32) - k)
  S := { S with w0 := (((S.w1 >>> (UInt64.ofInt (toI k)))) ||| ((S.w2 <<< (UInt64.ofInt (toI k2))))) }
  S := { S with w1 := (((S.w2 >>> (UInt64.ofInt (toI k)))) ||| ((S.w3 <<< (UInt64.ofInt (toI k2))))) }
  S := { S with w0 := (S.w0 + 1) }
  if (S.w0 == (0 : UInt64)) then
    S := { S with w1 := (S.w1 + 1) }
  pCS := { pCS with w0 := (((S.w1 <<< 0x3f)) ||| ((S.w0 >>> 1))) }
  pCS := { pCS with w1 := (S.w1 >>> 1) }
  return pCS

/-- the text of `bid_long_sqrt128` from the second-order term on -/
def longFromS (pCS_ : U128) (S_ : U256) (ARS1_ : U128) (ES_ : U128) (ey_ : Int32) : Except String U128 := do
  let mut pCS : U128 := pCS_
  let mut AE2 : U256 := default
  let mut S : U256 := S_
  let mut ES : U128 := ES_
  let mut ES2 : U128 := default
  let mut ARS1 : U128 := ARS1_
  let mut ES32 : UInt64 := default
  let mut CY : UInt64 := default
  let mut ey : Int32 := ey_
  let mut k : Int32 := default
  let mut k2 : Int32 := default
  ES32 := (ES.w1 + ((ES.w1 >>> 1)))
  ES2 := (← mul_64x64_to_128 ES32 ES.w1)
  AE2 := (← mul_128x128_to_256 ES2 ARS1)
  let t__7 := (← add_carry_out S.w0 AE2.w0)
  S := { S with w0 := t__7.1 }
  CY := t__7.2
  let t__8 := (← add_carry_in_out S.w1 AE2.w1 CY)
  S := { S with w1 := t__8.1 }
  CY := t__8.2
  let t__9 := (← add_carry_in_out S.w2 AE2.w2 CY)
  S := { S with w2 := t__9.1 }
  CY := t__9.2
  S := { S with w3 := ((S.w3 + AE2.w3) + CY) }
  k := ((ey + (0x33 : Int32)) - (0x80 : Int32))
  k2 := ((0x40 : Int32) - k)
  S := { S with w0 := (((S.w1 >>> (UInt64.ofInt (toI k)))) ||| ((S.w2 <<< (UInt64.ofInt (toI k2))))) }
  S := { S with w1 := (((S.w2 >>> (UInt64.ofInt (toI k)))) ||| ((S.w3 <<< (UInt64.ofInt (toI k2))))) }
  S := { S with w0 := (S.w0 + 1) }
  if (S.w0 == (0 : UInt64)) then
    S := { S with w1 := (S.w1 + 1) }
  pCS := { pCS with w0 := (((S.w1 <<< 0x3f)) ||| ((S.w0 >>> 1))) }
  pCS := { pCS with w1 := (S.w1 >>> 1) }
  return pCS

/-- four-word addition as the code does it (three carry steps, the fourth word wrapping) -/
theorem add256_val (X Y : U256) (r1 r2 r3 : UInt64 × UInt64)
    (h1 : r1.1.toNat + 2 ^ 64 * r1.2.toNat = X.w0.toNat + Y.w0.toNat)
    (h2 : r2.1.toNat + 2 ^ 64 * r2.2.toNat = X.w1.toNat + Y.w1.toNat + r1.2.toNat)
    (h3 : r3.1.toNat + 2 ^ 64 * r3.2.toNat = X.w2.toNat + Y.w2.toNat + r2.2.toNat)
    (hlt : X.toNat' + Y.toNat' < 2 ^ 256) :
    (⟨r1.1, r2.1, r3.1, (X.w3 + Y.w3) + r3.2⟩ : U256).toNat' = X.toNat' + Y.toNat' := by
  have x0 := r1.1.toNat_lt; have x1 := r2.1.toNat_lt; have x2 := r3.1.toNat_lt
  have hw : ((X.w3 + Y.w3) + r3.2).toNat = ((X.w3.toNat + Y.w3.toNat) % 2 ^ 64 + r3.2.toNat) % 2 ^ 64 := by
    rw [UInt64.toNat_add, UInt64.toNat_add]
  simp only [Rs.U256.toNat'] at hlt ⊢
  rw [hw]
  omega

/-- four-word subtraction as the code does it -/
theorem sub256_val (X Y : U256) (r1 r2 r3 : UInt64 × UInt64)
    (h1 : r1.1.toNat + Y.w0.toNat = X.w0.toNat + 2 ^ 64 * r1.2.toNat)
    (h2 : r2.1.toNat + Y.w1.toNat + r1.2.toNat = X.w1.toNat + 2 ^ 64 * r2.2.toNat)
    (h3 : r3.1.toNat + Y.w2.toNat + r2.2.toNat = X.w2.toNat + 2 ^ 64 * r3.2.toNat) (c3 : r3.2.toNat ≤ 1)
    (hle : Y.toNat' ≤ X.toNat') :
    (⟨r1.1, r2.1, r3.1, (X.w3 - Y.w3) - r3.2⟩ : U256).toNat' = X.toNat' - Y.toNat' := by
  have x0 := r1.1.toNat_lt; have x1 := r2.1.toNat_lt; have x2 := r3.1.toNat_lt
  have a3 := X.w3.toNat_lt; have b3 := Y.w3.toNat_lt
  have hw : ((X.w3 - Y.w3) - r3.2).toNat = (2 ^ 64 - r3.2.toNat + (2 ^ 64 - Y.w3.toNat + X.w3.toNat) % 2 ^ 64) % 2 ^ 64 := by
    rw [UInt64.toNat_sub, UInt64.toNat_sub]
  simp only [Rs.U256.toNat'] at hle ⊢
  rw [hw]
  have : r3.2.toNat = 0 ∨ r3.2.toNat = 1 := by omega
  rcases this with h | h <;> rw [h] at h3 ⊢ <;> omega

/-- the final halving of the two-word result -/
theorem half128 (X : U128) : (⟨(X.w1 <<< 0x3f) ||| (X.w0 >>> 1), X.w1 >>> 1⟩ : U128).toNat' = X.toNat' / 2 := by
  have e0 := shr_or_word X.w0 X.w1 1 0x3f 1 (by omega) (by omega) rfl rfl
  rw [UInt64.or_comm] at e0
  have e1 : (X.w1 >>> 1).toNat = X.w1.toNat / 2 := by
    rw [UInt64.toNat_shiftRight, show (1 : UInt64).toNat % 64 = 1 from rfl, Nat.shiftRight_eq_div_pow]
  have := X.w0.toNat_lt; have := X.w1.toNat_lt
  simp only [Rs.U128.toNat']
  rw [e0, e1]
  omega

/-- the two words the code cuts out of `S` at bit `ey − 13` -/
theorem final_shift (s0 s1 s2 s3 ey : Nat) (hey1 : 110 ≤ ey) (hey2 : ey ≤ 113) (b0 : s0 < 2 ^ 64) (b1 : s1 < 2 ^ 64)
    (b2 : s2 < 2 ^ 64) (b3 : s3 < 2 ^ 24) :
    ((s1 + 2 ^ 64 * s2) / 2 ^ (ey - 77)) % 2 ^ 64 + 2 ^ 64 * (((s2 + 2 ^ 64 * s3) / 2 ^ (ey - 77)) % 2 ^ 64)
      = (s0 + 2 ^ 64 * s1 + 2 ^ 128 * s2 + 2 ^ 192 * s3) / 2 ^ (ey - 13) := by
  rcases (by omega : ey = 110 ∨ ey = 111 ∨ ey = 112 ∨ ey = 113) with rfl | rfl | rfl | rfl <;>
    simp only [Nat.reduceSub] <;> omega

/-- **from the corrected estimate `S` to the result**: the second-order term, the shift by `ey − 13`, the rounding -/
theorem long_from_s (pCS : U128) (S : U256) (ARS1 ES : U128) (eyw : Int32) (ey : Nat) (hey : eyw.toInt = ey)
    (hey1 : 110 ≤ ey) (hey2 : ey ≤ 113) (hw : ES.w1.toNat < 2 ^ 32)
    (hfit : S.toNat' + (ES.w1.toNat + ES.w1.toNat / 2) * ES.w1.toNat * ARS1.toNat' < 2 ^ 216) :
    ∃ r, longFromS pCS S ARS1 ES eyw = .ok r ∧
      r.toNat' = ((S.toNat' + (ES.w1.toNat + ES.w1.toNat / 2) * ES.w1.toNat * ARS1.toNat') / 2 ^ (ey - 13) + 1) / 2 := by
  have e32 : (ES.w1 + (ES.w1 >>> 1)).toNat = ES.w1.toNat + ES.w1.toNat / 2 := by
    rw [UInt64.toNat_add, UInt64.toNat_shiftRight, show (1 : UInt64).toNat % 64 = 1 from rfl, Nat.shiftRight_eq_div_pow]
    omega
  obtain ⟨ES2, hES2, vES2⟩ := gen_mul_64x64_to_128 (ES.w1 + (ES.w1 >>> 1)) ES.w1
  obtain ⟨AE2, hAE2, vAE2⟩ := gen_mul_128x128_to_256 ES2 ARS1
  rw [vES2, e32] at vAE2
  obtain ⟨r7, g7, s7, c7⟩ := gen_add_carry_out S.w0 AE2.w0
  obtain ⟨r8, g8, s8, c8⟩ := gen_add_carry_in_out S.w1 AE2.w1 r7.2 c7
  obtain ⟨r9, g9, s9, c9⟩ := gen_add_carry_in_out S.w2 AE2.w2 r8.2 c8
  have hS' := add256_val S AE2 r7 r8 r9 s7 s8 s9 (by rw [vAE2]; omega)
  rw [vAE2] at hS'
  generalize hT : S.toNat' + (ES.w1.toNat + ES.w1.toNat / 2) * ES.w1.toNat * ARS1.toNat' = T at *
  have hk0 : (eyw + (0x33 : Int32)).toInt = ey + 51 := by
    rw [Int32.toInt_add, hey, show (0x33 : Int32).toInt = 51 from rfl, bmod32 (by omega) (by omega)]
  have hk : ((eyw + (0x33 : Int32)) - (0x80 : Int32)).toInt = ((ey - 77 : Nat) : Int) := by
    rw [Int32.toInt_sub, hk0, show (0x80 : Int32).toInt = 128 from rfl, bmod32 (by omega) (by omega)]
    omega
  have hk2 : ((0x40 : Int32) - ((eyw + (0x33 : Int32)) - (0x80 : Int32))).toInt = ((64 - (ey - 77) : Nat) : Int) := by
    rw [Int32.toInt_sub, hk, show (0x40 : Int32).toInt = 64 from rfl, bmod32 (by omega) (by omega)]
    omega
  have v0 := shr_or_word r8.1 r9.1 (UInt64.ofInt (toI ((eyw + (0x33 : Int32)) - (0x80 : Int32))))
    (UInt64.ofInt (toI ((0x40 : Int32) - ((eyw + (0x33 : Int32)) - (0x80 : Int32))))) (ey - 77) (by omega) (by omega)
    (by rw [idx_of_i32 _ (by omega), hk]; omega) (by rw [idx_of_i32 _ (by omega), hk2]; omega)
  have v1 := shr_or_word r9.1 ((S.w3 + AE2.w3) + r9.2) (UInt64.ofInt (toI ((eyw + (0x33 : Int32)) - (0x80 : Int32))))
    (UInt64.ofInt (toI ((0x40 : Int32) - ((eyw + (0x33 : Int32)) - (0x80 : Int32))))) (ey - 77) (by omega) (by omega)
    (by rw [idx_of_i32 _ (by omega), hk]; omega) (by rw [idx_of_i32 _ (by omega), hk2]; omega)
  generalize hV0 : (r8.1 >>> UInt64.ofInt (toI ((eyw + (0x33 : Int32)) - (0x80 : Int32)))) |||
    (r9.1 <<< UInt64.ofInt (toI ((0x40 : Int32) - ((eyw + (0x33 : Int32)) - (0x80 : Int32))))) = V0 at v0
  generalize hV1 : (r9.1 >>> UInt64.ofInt (toI ((eyw + (0x33 : Int32)) - (0x80 : Int32)))) |||
    (((S.w3 + AE2.w3) + r9.2) <<< UInt64.ofInt (toI ((0x40 : Int32) - ((eyw + (0x33 : Int32)) - (0x80 : Int32))))) = V1 at v1
  have hQ : (⟨V0, V1⟩ : U128).toNat' = T / 2 ^ (ey - 13) := by
    have b3 : ((S.w3 + AE2.w3) + r9.2).toNat < 2 ^ 24 := by
      have := r7.1.toNat_lt; have := r8.1.toNat_lt; have := r9.1.toNat_lt
      simp only [Rs.U256.toNat'] at hS'
      omega
    have := final_shift r7.1.toNat r8.1.toNat r9.1.toNat ((S.w3 + AE2.w3) + r9.2).toNat ey hey1 hey2 r7.1.toNat_lt
      r8.1.toNat_lt r9.1.toNat_lt b3
    simp only [Rs.U256.toNat'] at hS'
    simp only [Rs.U128.toNat']
    rw [v0, v1, this, hS']
  have hQlt : (⟨V0, V1⟩ : U128).toNat' + 1 < 2 ^ 128 := by
    rw [hQ]
    have : T / 2 ^ (ey - 13) ≤ T / 2 ^ 97 := Nat.div_le_div_left (Nat.pow_le_pow_right (by omega) (by omega)) (by positivity)
    omega
  have hinc := incCS_val ⟨V0, V1⟩ hQlt
  rw [hQ] at hinc
  refine ⟨⟨((incCS ⟨V0, V1⟩).w1 <<< 0x3f) ||| ((incCS ⟨V0, V1⟩).w0 >>> 1), (incCS ⟨V0, V1⟩).w1 >>> 1⟩, ?_, ?_⟩
  · unfold longFromS
    take_call hES2
    take_call hAE2
    take_call g7
    take_call g8
    take_call g9
    head_step
    rw [hV0, hV1]
    by_cases hz : (V0 + 1 == (0 : UInt64)) = true
    · take_pos
      · exact hz
      have : incCS ⟨V0, V1⟩ = ⟨V0 + 1, V1 + 1⟩ := by unfold incCS; rw [if_pos hz]
      rw [this]
      rfl
    · take_neg
      · exact hz
      have : incCS ⟨V0, V1⟩ = ⟨V0 + 1, V1⟩ := by unfold incCS; rw [if_neg hz]
      rw [this]
      rfl
  · rw [half128, hinc]
/-- the word `−w` as the code forms it (through `i64`) -/
abbrev nw (w : UInt64) : UInt64 := UInt64.ofInt (toI (-(Int64.ofInt (toI w))))

/-- its value: `2^64 − w` modulo `2^64` (also for `w = 2^63`, where the `i64` negation wraps) -/
theorem nw_val (w : UInt64) : (nw w).toNat = (2 ^ 64 - w.toNat) % 2 ^ 64 := by
  have hlt := w.toNat_lt
  unfold nw
  rw [toNat_ofInt64']
  show ((-(Int64.ofInt (toI w))).toInt % 18446744073709551616).toNat = _
  rw [Int64.toInt_neg, sg64_eq, Int.bmod_def]
  unfold sg64
  split <;> split <;> omega

/-- the two-word negation of the code: both words negated, the high word decremented unless the low word is 0 -/
def negPair (W0 W1 : UInt64) : U128 := ⟨nw W0, if (nw W0 != (0 : UInt64)) = true then nw W1 - 1 else nw W1⟩

/-- `negPair` is the 128-bit two's-complement negation, for all words -/
theorem negPair_val (W0 W1 : UInt64) :
    (negPair W0 W1).toNat' = (2 ^ 128 - (W0.toNat + 2 ^ 64 * W1.toNat)) % 2 ^ 128 := by
  have h0 := W0.toNat_lt; have h1 := W1.toNat_lt
  have e0 := nw_val W0; have e1 := nw_val W1
  unfold negPair
  by_cases hz : (nw W0 != (0 : UInt64)) = true
  · rw [if_pos hz]
    have hne : (nw W0).toNat ≠ 0 := by
      intro h
      rw [bne_iff_ne] at hz
      exact hz (UInt64.toNat_inj.1 h)
    have e2 : (nw W1 - 1).toNat = (2 ^ 64 - 1 + (nw W1).toNat) % 2 ^ 64 := by
      rw [UInt64.toNat_sub]; rfl
    simp only [Rs.U128.toNat']
    rw [e2, e1, e0]
    rw [e0] at hne
    omega
  · rw [if_neg hz]
    have he : (nw W0).toNat = 0 := by
      rw [bne_iff_ne, ne_eq, not_not] at hz
      rw [hz]; rfl
    simp only [Rs.U128.toNat']
    rw [e1, he]
    rw [e0] at he
    omega

/-- the sign test `(w as i64) < 0` -/
theorem sg64_neg_iff (w : UInt64) : sg64 w < 0 ↔ 2 ^ 63 ≤ w.toNat := by
  have := w.toNat_lt
  unfold sg64; split <;> omega

/-- **the negative branch** of the first-order correction -/
theorem long_es_neg (pCS : U128) (ARS00 : U256) (ARS1 : U128) (W0 W1 : UInt64) (eyw : Int32)
    (hs : 2 ^ 63 ≤ W1.toNat) (hfit : ARS00.toNat' + (negPair W0 W1).toNat' * ARS1.toNat' < 2 ^ 256) :
    ∃ S : U256, S.toNat' = ARS00.toNat' + (negPair W0 W1).toNat' * ARS1.toNat' ∧
      longFromES pCS ARS00 ARS1 ⟨W0, W1⟩ eyw = longFromS pCS S ARS1 (negPair W0 W1) eyw := by
  obtain ⟨AE, hAE, vAE⟩ := gen_mul_128x128_to_256 (negPair W0 W1) ARS1
  obtain ⟨r1, g1, s1, c1⟩ := gen_add_carry_out ARS00.w0 AE.w0
  obtain ⟨r2, g2, s2, c2⟩ := gen_add_carry_in_out ARS00.w1 AE.w1 r1.2 c1
  obtain ⟨r3, g3, s3, c3⟩ := gen_add_carry_in_out ARS00.w2 AE.w2 r2.2 c2
  have hS := add256_val ARS00 AE r1 r2 r3 s1 s2 s3 (by rw [vAE]; exact hfit)
  rw [vAE] at hS
  refine ⟨_, hS, ?_⟩
  unfold longFromES
  take_pos
  · rw [decide_eq_true_eq, Int64.lt_iff_toInt_lt, sg64_eq]; exact (sg64_neg_iff W1).2 hs
  by_cases hz : (nw W0 != (0 : UInt64)) = true
  · have e : negPair W0 W1 = ⟨nw W0, nw W1 - 1⟩ := by unfold negPair; rw [if_pos hz]
    rw [e] at hAE ⊢
    take_pos
    · exact hz
    take_call hAE
    take_call g1
    take_call g2
    take_call g3
    rfl
  · have e : negPair W0 W1 = ⟨nw W0, nw W1⟩ := by unfold negPair; rw [if_neg hz]
    rw [e] at hAE ⊢
    take_neg
    · exact hz
    take_call hAE
    take_call g1
    take_call g2
    take_call g3
    rfl

/-- **the non-negative branch** of the first-order correction -/
theorem long_es_pos (pCS : U128) (ARS00 : U256) (ARS1 : U128) (ES : U128) (eyw : Int32)
    (hs : ES.w1.toNat < 2 ^ 63) (hle : ES.toNat' * ARS1.toNat' ≤ ARS00.toNat') :
    ∃ S : U256, S.toNat' = ARS00.toNat' - ES.toNat' * ARS1.toNat' ∧
      longFromES pCS ARS00 ARS1 ES eyw = longFromS pCS S ARS1 ES eyw := by
  obtain ⟨AE, hAE, vAE⟩ := gen_mul_128x128_to_256 ES ARS1
  obtain ⟨r1, g1, s1, c1⟩ := gen_sub_borrow_out ARS00.w0 AE.w0
  obtain ⟨r2, g2, s2, c2⟩ := gen_sub_borrow_in_out ARS00.w1 AE.w1 r1.2 c1
  obtain ⟨r3, g3, s3, c3⟩ := gen_sub_borrow_in_out ARS00.w2 AE.w2 r2.2 c2
  have hS := sub256_val ARS00 AE r1 r2 r3 s1 s2 s3 c3 (by rw [vAE]; exact hle)
  rw [vAE] at hS
  refine ⟨_, hS, ?_⟩
  unfold longFromES
  take_neg
  · rw [decide_eq_true_eq, Int64.lt_iff_toInt_lt, sg64_eq]
    have := (sg64_neg_iff ES.w1).not.2 (by omega)
    exact this
  take_call hAE
  take_call g1
  take_call g2
  take_call g3
  rfl
/-- the significand and the exponent read off the bits of `ly` (as `my_bits` of C01GenSqrt, for larger `ey`) -/
theorem my_bits' (b : UInt64) (MY ey : Nat) (h1 : 2 ^ 52 ≤ MY) (h2 : MY < 2 ^ 53) (he : ey ≤ 1022)
    (hb : b.toNat = (1022 - ey) * 2 ^ 52 + MY) :
    ((b &&& 0xfffffffffffff) ||| 0x10000000000000).toNat = MY ∧
    (Int32.ofInt (toI ((0x3ff : UInt64) - (b >>> 0x34)))).toInt = ey := by
  constructor
  · rw [UInt64.toNat_or, UInt64.toNat_and, hb]
    have : (0xfffffffffffff : UInt64).toNat = 2 ^ 52 - 1 := rfl
    rw [this, Nat.and_two_pow_sub_one_eq_mod]
    have e1 : ((1022 - ey) * 2 ^ 52 + MY) % 2 ^ 52 = MY - 2 ^ 52 := by omega
    rw [e1, show (0x10000000000000 : UInt64).toNat = 2 ^ 52 from rfl]
    have hlt : MY - 2 ^ 52 < 2 ^ 52 := by omega
    rw [Nat.or_comm]
    have := Nat.two_pow_add_eq_or_of_lt hlt 1
    rw [Nat.mul_one] at this
    rw [← this]; omega
  · have e1 : (b >>> 0x34).toNat = 1023 - ey := by
      rw [UInt64.toNat_shiftRight, hb, show (0x34 : UInt64).toNat % 64 = 52 from rfl, Nat.shiftRight_eq_div_pow]
      omega
    have e2 : ((0x3ff : UInt64) - (b >>> 0x34)).toNat = ey := by
      rw [UInt64.toNat_sub, e1, show (0x3ff : UInt64).toNat = 1023 from rfl]; omega
    show (Int32.ofInt ((((0x3ff : UInt64) - (b >>> 0x34)).toNat : Nat) : Int)).toInt = _
    rw [e2, Int32.toInt_ofInt, show Int32.size = 2 ^ 32 from rfl, bmod32 (by omega) (by omega)]

/-- **from the entry to the error term**: the float chain, the two products, the two words of `ES` -/
theorem long_to_es (CS0 : U128) (C256 : U256) (l128 t1 t2 l2 lx1 l1 lx2 lx3 ls ly : F64U) (MY ey : Nat)
    (h1 : F64U.mul (⟨(0x43f0000000000000 : UInt64)⟩ : F64U) ⟨(0x43f0000000000000 : UInt64)⟩ = .ok l128)
    (h2 : F64U.mul (F64U.ofU64 (UInt64.ofInt (toI C256.w3))) ⟨(0x43f0000000000000 : UInt64)⟩ = .ok t1)
    (h3 : F64U.mul t1 l128 = .ok t2)
    (h4 : F64U.mul (F64U.ofU64 (UInt64.ofInt (toI C256.w2))) l128 = .ok l2)
    (h5 : F64U.add t2 l2 = .ok lx1)
    (h6 : F64U.mul (F64U.ofU64 (UInt64.ofInt (toI C256.w1))) ⟨(0x43f0000000000000 : UInt64)⟩ = .ok l1)
    (h7 : F64U.add lx1 l1 = .ok lx2)
    (h8 : F64U.add lx2 (F64U.ofU64 (UInt64.ofInt (toI C256.w0))) = .ok lx3)
    (h9 : F64U.sqrt lx3 = .ok ls)
    (h10 : F64U.div (F64U.ofU64 1) ls = .ok ly)
    (hbits : ly.bits.toNat = (1022 - ey) * 2 ^ 52 + MY) (hMY1 : 2 ^ 52 ≤ MY) (hMY2 : MY < 2 ^ 53)
    (hey1 : 110 ≤ ey) (hey2 : ey ≤ 113) :
    ∃ (ARS0 ARS : U512) (eyw : Int32) (W0 W1 : UInt64),
      ARS0.toNat' = MY * C256.toNat' ∧ ARS0.w5 = 0 ∧ ARS0.w6 = 0 ∧ ARS0.w7 = 0 ∧
      ARS.toNat' = MY * (MY * C256.toNat') ∧ ARS.w6 = 0 ∧ ARS.w7 = 0 ∧ eyw.toInt = ey ∧
      W0.toNat = ((ARS.w3.toNat + 2 ^ 64 * ARS.w4.toNat) / 2 ^ (2 * ey - 215)) % 2 ^ 64 ∧
      W1.toNat = ((ARS.w4.toNat + 2 ^ 64 * ARS.w5.toNat) / 2 ^ (2 * ey - 216)) % 2 ^ 64 ∧
      bid_long_sqrt128 CS0 C256 = longFromES CS0 ⟨ARS0.w1, ARS0.w2, ARS0.w3, ARS0.w4⟩ ⟨ARS0.w3, ARS0.w4⟩
        ⟨W0, UInt64.ofInt (toI ((Int64.ofInt (toI W1)) >>> 1))⟩ eyw := by
  obtain ⟨hMYw, heyw⟩ := my_bits' ly.bits MY ey hMY1 hMY2 (by omega) hbits
  obtain ⟨ARS0, hARS0, hARS0v, z5, z6, z7⟩ := gen_mul_64x256_to_320
    ((ly.bits &&& 0xfffffffffffff) ||| 0x10000000000000) C256
  obtain ⟨ARS, hARS, hARSv, y6, y7⟩ := gen_mul_64x320_to_512
    ((ly.bits &&& 0xfffffffffffff) ||| 0x10000000000000) ARS0
  rw [hMYw] at hARS0v hARSv
  have hA0 : ARS0.w0.toNat + 2 ^ 64 * ARS0.w1.toNat + 2 ^ 128 * ARS0.w2.toNat + 2 ^ 192 * ARS0.w3.toNat
        + 2 ^ 256 * ARS0.w4.toNat = ARS0.toNat' := by
    simp only [U512.toNat', z5, z6, z7, UInt64.toNat_zero, Nat.mul_zero, Nat.add_zero]
  rw [hA0, hARS0v] at hARSv
  generalize hMd : (ly.bits &&& 0xfffffffffffff) ||| 0x10000000000000 = MYw at *
  generalize hed : Int32.ofInt (toI ((0x3ff : UInt64) - (ly.bits >>> 0x34))) = eyw at *
  have hk0 : ((eyw <<< 1) + (0x68 : Int32)).toInt = 2 * ey + 104 := by
    rw [Int32.toInt_add, i32_shl1 eyw (by omega) (by omega), heyw, show (0x68 : Int32).toInt = 104 from rfl]
    exact bmod32 (by omega) (by omega)
  have hk1 : (((eyw <<< 1) + (0x68 : Int32)) - (0x80 : Int32)).toInt = 2 * ey - 24 := by
    rw [Int32.toInt_sub, hk0, show (0x80 : Int32).toInt = 128 from rfl, bmod32 (by omega) (by omega)]
    omega
  have hk : ((((eyw <<< 1) + (0x68 : Int32)) - (0x80 : Int32)) - (0xc0 : Int32)).toInt = ((2 * ey - 216 : Nat) : Int) := by
    rw [Int32.toInt_sub, hk1, show (0xc0 : Int32).toInt = 192 from rfl, bmod32 (by omega) (by omega)]
    omega
  generalize hkd : (((eyw <<< 1) + (0x68 : Int32)) - (0x80 : Int32)) - (0xc0 : Int32) = kw at hk
  have hk2 : ((0x40 : Int32) - kw).toInt = ((64 - (2 * ey - 216) : Nat) : Int) := by
    rw [Int32.toInt_sub, hk, show (0x40 : Int32).toInt = 64 from rfl, bmod32 (by omega) (by omega)]
    omega
  have hka : (kw + (1 : Int32)).toInt = ((2 * ey - 215 : Nat) : Int) := by
    rw [Int32.toInt_add, hk, show (1 : Int32).toInt = 1 from rfl, bmod32 (by omega) (by omega)]
    omega
  have hkb : (((0x40 : Int32) - kw) - (1 : Int32)).toInt = ((64 - (2 * ey - 215) : Nat) : Int) := by
    rw [Int32.toInt_sub, hk2, show (1 : Int32).toInt = 1 from rfl, bmod32 (by omega) (by omega)]
    omega
  refine ⟨ARS0, ARS, eyw,
    (ARS.w3 >>> UInt64.ofInt (toI (kw + (1 : Int32)))) ||| (ARS.w4 <<< UInt64.ofInt (toI (((0x40 : Int32) - kw) - (1 : Int32)))),
    (ARS.w4 >>> UInt64.ofInt (toI kw)) ||| (ARS.w5 <<< UInt64.ofInt (toI ((0x40 : Int32) - kw))),
    hARS0v, z5, z6, z7, hARSv, y6, y7, heyw, ?_, ?_, ?_⟩
  · exact shr_or_word _ _ _ _ (2 * ey - 215) (by omega) (by omega) (by rw [idx_of_i32 _ (by omega), hka]; omega)
      (by rw [idx_of_i32 _ (by omega), hkb]; omega)
  · exact shr_or_word _ _ _ _ (2 * ey - 216) (by omega) (by omega) (by rw [idx_of_i32 _ (by omega), hk]; omega)
      (by rw [idx_of_i32 _ (by omega), hk2]; omega)
  · unfold bid_long_sqrt128
    take_call h1
    take_call h2
    take_call h3
    take_call h4
    take_call h5
    take_call h6
    take_call h7
    take_call h8
    take_call h9
    take_call h10
    head_step
    rw [hMd, hed]
    take_call hARS0
    take_call hARS
    rw [hkd]
    rfl
/-- the two words of the error term `ES` (after the arithmetic halving of the high one: `w1h`) are the signed quotient
`⌊(N − B)/D⌋`, `B = 2^(2ey+104)`, `D = 2^(2ey−23)`; stated for its magnitude in each of the two cases.  The statement for
one value of `ey` (proved for each of the four values by `omega` on literals, then collected in `es_words`). -/
def EsWords (ey : Nat) : Prop :=
  ∀ (N n0 n1 n2 n3 n4 n5 v0 v1 w1h : Nat),
    n0 < 2 ^ 64 → n1 < 2 ^ 64 → n2 < 2 ^ 64 → n3 < 2 ^ 64 → n4 < 2 ^ 64 → n5 < 2 ^ 64 →
    N = n0 + 2 ^ 64 * n1 + 2 ^ 128 * n2 + 2 ^ 192 * n3 + 2 ^ 256 * n4 + 2 ^ 256 * 2 ^ 64 * n5 →
    2 ^ 40 * N ≤ (2 ^ 40 + 1) * 2 ^ (2 * ey + 104) →
    (2 ^ 40 - 1) * 2 ^ (2 * ey + 104) ≤ 2 ^ 40 * N →
    v0 = ((n3 + 2 ^ 64 * n4) / 2 ^ (2 * ey - 215)) % 2 ^ 64 →
    v1 = ((n4 + 2 ^ 64 * n5) / 2 ^ (2 * ey - 216)) % 2 ^ 64 →
    ((v1 < 2 ^ 63 → w1h = v1 / 2) ∧ (2 ^ 63 ≤ v1 → w1h = 2 ^ 63 + v1 / 2)) →
    (2 ^ (2 * ey + 104) ≤ N → w1h < 2 ^ 63 ∧ v0 + 2 ^ 64 * w1h = (N - 2 ^ (2 * ey + 104)) / 2 ^ (2 * ey - 23)) ∧
    (N < 2 ^ (2 * ey + 104) → 2 ^ 63 ≤ w1h ∧
      2 ^ 128 - (v0 + 2 ^ 64 * w1h) = (2 ^ (2 * ey + 104) - N + 2 ^ (2 * ey - 23) - 1) / 2 ^ (2 * ey - 23))

/-- `EsWords` for `ey = 110` (first shift `k = 4`) -/
theorem es_words_110 : EsWords 110 := by
  intro N n0 n1 n2 n3 n4 n5 v0 v1 w1h b0 b1 b2 b3 b4 _ hN hη1 hη2 hv0 hv1 hw
  simp only [Nat.reduceMul, Nat.reduceAdd, Nat.reduceSub] at *
  omega
/-- `EsWords` for `ey = 111` (`k = 6`) -/
theorem es_words_111 : EsWords 111 := by
  intro N n0 n1 n2 n3 n4 n5 v0 v1 w1h b0 b1 b2 b3 b4 _ hN hη1 hη2 hv0 hv1 hw
  simp only [Nat.reduceMul, Nat.reduceAdd, Nat.reduceSub] at *
  omega
/-- `EsWords` for `ey = 112` (`k = 8`) -/
theorem es_words_112 : EsWords 112 := by
  intro N n0 n1 n2 n3 n4 n5 v0 v1 w1h b0 b1 b2 b3 b4 _ hN hη1 hη2 hv0 hv1 hw
  simp only [Nat.reduceMul, Nat.reduceAdd, Nat.reduceSub] at *
  omega
/-- `EsWords` for `ey = 113` (`k = 10`) -/
theorem es_words_113 : EsWords 113 := by
  intro N n0 n1 n2 n3 n4 n5 v0 v1 w1h b0 b1 b2 b3 b4 _ hN hη1 hη2 hv0 hv1 hw
  simp only [Nat.reduceMul, Nat.reduceAdd, Nat.reduceSub] at *
  omega

/-- `EsWords` for all four exponents that occur -/
theorem es_words (ey : Nat) (hey1 : 110 ≤ ey) (hey2 : ey ≤ 113) : EsWords ey := by
  rcases (by omega : ey = 110 ∨ ey = 111 ∨ ey = 112 ∨ ey = 113) with rfl | rfl | rfl | rfl
  exacts [es_words_110, es_words_111, es_words_112, es_words_113]

/-- the 256-bit integer `S` the routine forms from the float estimate `ly = MY·2^(−ey−52)` of `C^(-1/2)` -/
def longS (MY ey C : Nat) : Nat :=
  let A0 := MY * C
  let N := MY * A0
  let B := 2 ^ (2 * ey + 104)
  let D := 2 ^ (2 * ey - 23)
  let A1 := A0 / 2 ^ 192
  let A00 := A0 / 2 ^ 64
  if B ≤ N then
    let E := (N - B) / D
    let w := E / 2 ^ 64
    A00 - E * A1 + (w + w / 2) * w * A1
  else
    let E := (B - N + D - 1) / D
    let w := E / 2 ^ 64
    A00 + E * A1 + (w + w / 2) * w * A1

/-- `C = 2·10^66` (non-negative error term): `ly` has `MY = 8267501747775390`, `ey = 111`; the routine returns `⌊√C⌋` -/
example : bid_long_sqrt128 ⟨0, 0⟩ ⟨0, 2051801627335604424, 4178011466008277374, 318618382⟩
    = .ok ⟨12987834932751794210, 76664670834168⟩ := by decide +kernel
example : (longS 8267501747775390 111 (2 * 10 ^ 66) / 2 ^ (111 - 13) + 1) / 2
    = 12987834932751794210 + 2 ^ 64 * 76664670834168 := by decide +kernel
example : 8267501747775390 * (8267501747775390 * (2 * 10 ^ 66)) ≥ 2 ^ (2 * 111 + 104) := by decide +kernel
/-- `C = 5·10^66 + 1` (negative error term): `MY = 5228827216478629`, `ey = 111` -/
example : bid_long_sqrt128 ⟨0, 0⟩ ⟨1, 5129504068339011060, 10445028665020693435, 796545955⟩
    = .ok ⟨33396236156213644, 121217487951527⟩ := by decide +kernel
example : (longS 5228827216478629 111 (5 * 10 ^ 66 + 1) / 2 ^ (111 - 13) + 1) / 2
    = 33396236156213644 + 2 ^ 64 * 121217487951527 := by decide +kernel
example : 5228827216478629 * (5228827216478629 * (5 * 10 ^ 66 + 1)) < 2 ^ (2 * 111 + 104) := by decide +kernel

/-- **the word-level part of `bid_long_sqrt128`**: given the results of the ten f64 operations and the bit pattern of
`ly`, the routine returns `⌊(⌊longS / 2^(ey−13)⌋ + 1) / 2⌋` -/
theorem long_words (CS0 : U128) (C256 : U256) (l128 t1 t2 l2 lx1 l1 lx2 lx3 ls ly : F64U) (MY ey : Nat)
    (h1 : F64U.mul (⟨(0x43f0000000000000 : UInt64)⟩ : F64U) ⟨(0x43f0000000000000 : UInt64)⟩ = .ok l128)
    (h2 : F64U.mul (F64U.ofU64 (UInt64.ofInt (toI C256.w3))) ⟨(0x43f0000000000000 : UInt64)⟩ = .ok t1)
    (h3 : F64U.mul t1 l128 = .ok t2)
    (h4 : F64U.mul (F64U.ofU64 (UInt64.ofInt (toI C256.w2))) l128 = .ok l2)
    (h5 : F64U.add t2 l2 = .ok lx1)
    (h6 : F64U.mul (F64U.ofU64 (UInt64.ofInt (toI C256.w1))) ⟨(0x43f0000000000000 : UInt64)⟩ = .ok l1)
    (h7 : F64U.add lx1 l1 = .ok lx2)
    (h8 : F64U.add lx2 (F64U.ofU64 (UInt64.ofInt (toI C256.w0))) = .ok lx3)
    (h9 : F64U.sqrt lx3 = .ok ls)
    (h10 : F64U.div (F64U.ofU64 1) ls = .ok ly)
    (hbits : ly.bits.toNat = (1022 - ey) * 2 ^ 52 + MY) (hMY1 : 2 ^ 52 ≤ MY) (hMY2 : MY < 2 ^ 53)
    (hey1 : 110 ≤ ey) (hey2 : ey ≤ 113)
    (hC1 : 10 ^ 66 ≤ C256.toNat') (hC2 : C256.toNat' < 10 ^ 68)
    (hη1 : 2 ^ 40 * (MY * (MY * C256.toNat')) ≤ (2 ^ 40 + 1) * 2 ^ (2 * ey + 104))
    (hη2 : (2 ^ 40 - 1) * 2 ^ (2 * ey + 104) ≤ 2 ^ 40 * (MY * (MY * C256.toNat'))) :
    ∃ r, bid_long_sqrt128 CS0 C256 = .ok r ∧
      r.toNat' = (longS MY ey C256.toNat' / 2 ^ (ey - 13) + 1) / 2 := by
  obtain ⟨ARS0, ARS, eyw, W0, W1, vA0, z5, z6, z7, vN, y6, y7, heyw, vW0, vW1, hrun⟩ :=
    long_to_es CS0 C256 l128 t1 t2 l2 lx1 l1 lx2 lx3 ls ly MY ey h1 h2 h3 h4 h5 h6 h7 h8 h9 h10 hbits hMY1 hMY2 hey1 hey2
  rw [hrun]
  generalize hC : C256.toNat' = C at *
  -- the size of `A0 = MY·C` and of its parts
  have hA0lo : 2 ^ 52 * 10 ^ 66 ≤ MY * C := Nat.mul_le_mul hMY1 hC1
  have hA0hi : MY * C ≤ 2 ^ 53 * 10 ^ 68 := Nat.mul_le_mul (by omega) (by omega)
  generalize hA0 : MY * C = A0 at *
  have a0 := ARS0.w0.toNat_lt; have a1 := ARS0.w1.toNat_lt; have a2 := ARS0.w2.toNat_lt
  have a3 := ARS0.w3.toNat_lt; have a4 := ARS0.w4.toNat_lt
  have vA1 : (⟨ARS0.w3, ARS0.w4⟩ : U128).toNat' = A0 / 2 ^ 192 := by
    simp only [U512.toNat', z5, z6, z7, UInt64.toNat_zero, Nat.mul_zero, Nat.add_zero] at vA0
    simp only [U128.toNat']; omega
  have vA00 : (⟨ARS0.w1, ARS0.w2, ARS0.w3, ARS0.w4⟩ : U256).toNat' = A0 / 2 ^ 64 := by
    simp only [U512.toNat', z5, z6, z7, UInt64.toNat_zero, Nat.mul_zero, Nat.add_zero] at vA0
    simp only [U256.toNat']; omega
  generalize hARS1 : (⟨ARS0.w3, ARS0.w4⟩ : U128) = ARS1 at *
  generalize hARS00 : (⟨ARS0.w1, ARS0.w2, ARS0.w3, ARS0.w4⟩ : U256) = ARS00 at *
  have hA1 : ARS1.toNat' < 2 ^ 87 := by rw [vA1]; omega
  have hA00lo : 2 ^ 200 ≤ ARS00.toNat' := by rw [vA00]; omega
  have hA00hi : ARS00.toNat' < 2 ^ 215 := by rw [vA00]; omega
  -- the words of `N`
  have vNw : MY * A0 = ARS.w0.toNat + 2 ^ 64 * ARS.w1.toNat + 2 ^ 128 * ARS.w2.toNat + 2 ^ 192 * ARS.w3.toNat
      + 2 ^ 256 * ARS.w4.toNat + 2 ^ 256 * 2 ^ 64 * ARS.w5.toNat := by
    rw [← vN]
    simp only [U512.toNat', y6, y7, UInt64.toNat_zero, Nat.mul_zero, Nat.add_zero]
  -- the halved high word
  have hh : sg64 (UInt64.ofInt (toI ((Int64.ofInt (toI W1)) >>> 1))) = sg64 W1 / 2 := by
    rw [← sg64_eq]; exact (es_halve W1).1
  generalize hW1h : UInt64.ofInt (toI ((Int64.ofInt (toI W1)) >>> 1)) = W1h at *
  have hw : (W1.toNat < 2 ^ 63 → W1h.toNat = W1.toNat / 2) ∧ (2 ^ 63 ≤ W1.toNat → W1h.toNat = 2 ^ 63 + W1.toNat / 2) := by
    have := W1.toNat_lt; have := W1h.toNat_lt
    unfold sg64 at hh
    constructor <;> intro h <;> split at hh <;> (try split at hh) <;> omega
  obtain ⟨cpos, cneg⟩ := es_words ey hey1 hey2 (MY * A0) _ _ _ _ _ _ W0.toNat W1.toNat W1h.toNat ARS.w0.toNat_lt
    ARS.w1.toNat_lt ARS.w2.toNat_lt ARS.w3.toNat_lt ARS.w4.toNat_lt ARS.w5.toNat_lt vNw hη1 hη2 vW0 vW1 hw
  have hW0 := W0.toNat_lt
  unfold longS
  simp only [hA0]
  generalize hN : MY * A0 = N at *
  generalize hA1v : A0 / 2 ^ 192 = A1 at *
  generalize hA00v : A0 / 2 ^ 64 = A00 at *
  have hDB : 2 ^ (2 * ey + 104) = 2 ^ 127 * 2 ^ (2 * ey - 23) := by
    rw [← Nat.pow_add]; congr 1; omega
  have hDpos : 0 < 2 ^ (2 * ey - 23) := Nat.pow_pos (by omega)
  generalize hB : 2 ^ (2 * ey + 104) = B at *
  generalize hD : 2 ^ (2 * ey - 23) = D at *
  by_cases hcase : B ≤ N
  · obtain ⟨hsg, hE⟩ := cpos hcase
    rw [if_pos hcase]
    -- `E ≤ 2^87`
    have hEle : (N - B) / D ≤ 2 ^ 87 := by
      apply Nat.div_le_of_le_mul
      omega
    generalize hEv : (N - B) / D = E at *
    have vES : (⟨W0, W1h⟩ : U128).toNat' = E := hE
    have hprod : E * ARS1.toNat' ≤ 2 ^ 87 * 2 ^ 87 := Nat.mul_le_mul hEle (by omega)
    obtain ⟨S, vS, hstep⟩ := long_es_pos CS0 ARS00 ARS1 ⟨W0, W1h⟩ eyw hsg (by rw [vES]; omega)
    rw [vES] at vS
    have hwv : W1h.toNat = E / 2 ^ 64 := by omega
    have hwle : W1h.toNat ≤ 2 ^ 23 := by omega
    have hsec : (W1h.toNat + W1h.toNat / 2) * W1h.toNat * ARS1.toNat' ≤ 2 ^ 24 * 2 ^ 23 * 2 ^ 87 :=
      Nat.mul_le_mul (Nat.mul_le_mul (by omega) hwle) (by omega)
    obtain ⟨r, hr, vr⟩ := long_from_s CS0 S ARS1 ⟨W0, W1h⟩ eyw ey heyw hey1 hey2 (by show W1h.toNat < _; omega)
      (by show S.toNat' + (W1h.toNat + W1h.toNat / 2) * W1h.toNat * ARS1.toNat' < _; omega)
    refine ⟨r, hstep.trans hr, ?_⟩
    rw [vr, vS, vA1, vA00]
    show ((A00 - E * A1 + (W1h.toNat + W1h.toNat / 2) * W1h.toNat * A1) / _ + 1) / 2 = _
    rw [hwv]
  · obtain ⟨hsg, hE⟩ := cneg (by omega)
    rw [if_neg hcase]
    -- `E ≤ 2^87`
    have hEle : (B - N + D - 1) / D < 2 ^ 87 + 1 := by
      apply Nat.div_lt_of_lt_mul
      omega
    generalize hEv : (B - N + D - 1) / D = E at *
    have vES : (negPair W0 W1h).toNat' = E := by
      rw [negPair_val]; omega
    have hprod : E * ARS1.toNat' ≤ 2 ^ 87 * 2 ^ 87 := Nat.mul_le_mul (by omega) (by omega)
    obtain ⟨S, vS, hstep⟩ := long_es_neg CS0 ARS00 ARS1 W0 W1h eyw hsg (by rw [vES]; omega)
    rw [vES] at vS
    have hwv : (negPair W0 W1h).w1.toNat = E / 2 ^ 64 := by
      have := (negPair W0 W1h).w0.toNat_lt
      simp only [U128.toNat'] at vES
      omega
    generalize hwd : (negPair W0 W1h).w1.toNat = w at *
    have hwle : w ≤ 2 ^ 23 := by omega
    have hsec : (w + w / 2) * w * ARS1.toNat' ≤ 2 ^ 24 * 2 ^ 23 * 2 ^ 87 :=
      Nat.mul_le_mul (Nat.mul_le_mul (by omega) hwle) (by omega)
    obtain ⟨r, hr, vr⟩ := long_from_s CS0 S ARS1 (negPair W0 W1h) eyw ey heyw hey1 hey2 (by rw [hwd]; omega)
      (by rw [hwd]; omega)
    refine ⟨r, hstep.trans hr, ?_⟩
    rw [vr, vS, vA1, vA00, hwd, hwv]

end Words

section Float
open Dec.Rs Dec.Gen.Code Dec.C10GenRem Dec.C01GenDiv256 Dec.C01GenSqrt
open Dec.C11GenLogb (log2_unique log2_mul_pow)

/-! ## 2. The float image of `C256` -/

/-- a small addend disappears: `m·2^k` (53-bit `m`) plus less than half a unit rounds back to `m·2^k` -/
theorem rn53_absorb (m k b : Nat) (h1 : 2 ^ 52 ≤ m) (h2 : m < 2 ^ 53) (hk : 1 ≤ k) (hb : 2 * b < 2 ^ k) :
    rn53 (m * 2 ^ k + b) = m * 2 ^ k := by
  have hp : 0 < 2 ^ k := Nat.pow_pos (by decide)
  have hlog : Nat.log2 (m * 2 ^ k + b) = k + 52 := by
    apply log2_unique
    · rw [Nat.pow_add]
      have : 2 ^ k * 2 ^ 52 ≤ m * 2 ^ k := by rw [Nat.mul_comm]; exact Nat.mul_le_mul_right _ h1
      omega
    · have e : (2 : Nat) ^ (k + 52 + 1) = 2 ^ 53 * 2 ^ k := by rw [← Nat.pow_add]; congr 1; omega
      rw [e]
      have : (m + 1) * 2 ^ k ≤ 2 ^ 53 * 2 ^ k := Nat.mul_le_mul_right _ (by omega)
      have e2 : (m + 1) * 2 ^ k = m * 2 ^ k + 2 ^ k := by ring
      omega
  obtain ⟨sh, q, r, h, hl, hsh1, hpow, hh, hn, hr, hq1, hq2, hcase⟩ := rn53_cases (m * 2 ^ k + b) (by omega)
  have hshk : sh = k := by omega
  subst hshk
  rw [← hpow] at hn hr hcase
  obtain ⟨e1, e2⟩ := divmod_unique _ q r m b (2 ^ sh) hn hr rfl (by omega)
  subst e1 e2
  rcases hcase with ⟨hv, _⟩ | ⟨_, hc⟩
  · exact hv
  · exfalso; omega

example : rn53 (2 ^ 52 * 2 ^ 10 + 511) = 2 ^ 52 * 2 ^ 10 := by decide +kernel

/-- a product with a power of two at the level of `F64U` -/
theorem f_mul_pow (p : F64U) (Vp : Nat) (d : UInt64) (t : Nat)
    (hd : fpDecode 52 11 d.toNat = some (2 ^ 52, (t : Int) - 52)) (ht : t ≤ 200)
    (hp : Rep p.bits.toNat (Vp * 2 ^ 1074)) (hV : Vp < 2 ^ 130) :
    ∃ p', F64U.mul p ⟨d⟩ = .ok p' ∧ Rep p'.bits.toNat (Vp * 2 ^ t * 2 ^ 1074) := by
  obtain ⟨a', h1, h2⟩ := rep_mul_pow p.bits.toNat Vp d.toNat t hd ht hp hV
  obtain ⟨_, _, _, _, hlt'⟩ := rep_decode _ _ h2
  refine ⟨⟨UInt64.ofNat a'⟩, ?_, ?_⟩
  · unfold F64U.mul; rw [h1]; rfl
  · show Rep (UInt64.ofNat a').toNat _
    rw [ofNat_toNat_lt _ hlt']; exact h2

/-- the value of `lx`: the sum of the two high terms rounded once; the two low words are absorbed -/
def lvalS (w3 w2 : Nat) : Nat := rn53 (w3 * 2 ^ 64 + rn53 w2) * 2 ^ 128


example : lvalS (2 ^ 33) 12345 = 2 ^ 225 := by decide +kernel

/-- the normal form of a rounded number -/
theorem rn53_normal (n : Nat) (hl : 52 < Nat.log2 n) :
    ∃ m k, 2 ^ 52 ≤ m ∧ m < 2 ^ 53 ∧ rn53 n = m * 2 ^ k ∧ Nat.log2 n - 52 ≤ k := by
  have h1 : rn53 n = rq53 n * 2 ^ (Nat.log2 n - 52) := by unfold rn53; rw [if_neg (by omega)]
  obtain ⟨a, b⟩ := rq_range n hl
  rcases Nat.lt_or_ge (rq53 n) (2 ^ 53) with h | h
  · exact ⟨rq53 n, _, a, h, h1, le_refl _⟩
  · refine ⟨2 ^ 52, Nat.log2 n - 52 + 1, le_refl _, by norm_num, ?_, by omega⟩
    rw [h1, show rq53 n = 2 ^ 53 from by omega, Nat.pow_succ]; ring

/-- a size bound used for the side conditions of `f_add` (everything stays far below 2^1000) -/
theorem sum_lt (V a : Nat) (hV : V ≤ 2 ^ 118) (ha : a ≤ 2 ^ 128) : V * 2 ^ 128 + a < 2 ^ 1000 := by
  have h := pow_lt_1000 250 (by norm_num)
  have : V * 2 ^ 128 + a < 2 ^ 250 := by omega
  exact lt_trans this h

/-- **the float image of `C256`**: the translated four-term sum never fails and, when the top word has between 27 and
53 bits, its result is `lvalS` — the two high terms rounded once, the two low words absorbed without a trace -/
theorem chain_long (w3 w2 w1 w0 : UInt64) (h3a : 2 ^ 26 ≤ w3.toNat) (h3b : w3.toNat < 2 ^ 53) :
    ∃ t1 t2 l2 lx1 l1 lx2 lx3 : F64U,
      F64U.mul (F64U.ofU64 (UInt64.ofInt (toI w3))) ⟨0x43f0000000000000⟩ = .ok t1 ∧
      F64U.mul t1 ⟨0x47f0000000000000⟩ = .ok t2 ∧
      F64U.mul (F64U.ofU64 (UInt64.ofInt (toI w2))) ⟨0x47f0000000000000⟩ = .ok l2 ∧
      F64U.add t2 l2 = .ok lx1 ∧
      F64U.mul (F64U.ofU64 (UInt64.ofInt (toI w1))) ⟨0x43f0000000000000⟩ = .ok l1 ∧
      F64U.add lx1 l1 = .ok lx2 ∧
      F64U.add lx2 (F64U.ofU64 (UInt64.ofInt (toI w0))) = .ok lx3 ∧
      Rep lx3.bits.toNat (lvalS w3.toNat w2.toNat * 2 ^ 1074) := by
  obtain ⟨t1, ht1, r1⟩ := f_word_mul w3 0x43f0000000000000 64 decode_t64 (by norm_num)
  rw [rn53_small _ h3b] at r1
  obtain ⟨t2, ht2, r2⟩ := f_mul_pow t1 (w3.toNat * 2 ^ 64) 0x47f0000000000000 128 decode_d128 (by norm_num) r1 (by omega)
  obtain ⟨l2, hl2, rl2⟩ := f_word_mul w2 0x47f0000000000000 128 decode_d128 (by norm_num)
  have a2 := rn53_le_pow w2.toNat 64 w2.toNat_lt
  have a1 := rn53_le_pow w1.toNat 64 w1.toNat_lt
  have a0 := rn53_le_pow w0.toNat 64 w0.toNat_lt
  have hbig := pow_lt_1000 250 (by norm_num)
  obtain ⟨lx1, hlx1, rx1⟩ := f_add t2 l2 _ _ r2 rl2 (by omega)
  obtain ⟨Z, hZ⟩ : ∃ Z, Z = w3.toNat * 2 ^ 64 + rn53 w2.toNat := ⟨_, rfl⟩
  have hZ1 : 2 ^ 90 ≤ Z := by omega
  have hZ2 : Z < 2 ^ 118 := by omega
  have e1 : w3.toNat * 2 ^ 64 * 2 ^ 128 + rn53 w2.toNat * 2 ^ 128 = Z * 2 ^ 128 := by rw [hZ]; ring
  rw [e1, rn53_scale Z 128 (by omega)] at rx1
  have hlZ : 90 ≤ Nat.log2 Z := (Nat.le_log2 (by omega)).2 hZ1
  obtain ⟨m, k, m1, m2, hmk, hk⟩ := rn53_normal Z (by omega)
  have hV1 : rn53 Z * 2 ^ 128 = m * 2 ^ (k + 128) := by rw [hmk, Nat.pow_add]; ring
  have hV1lt : rn53 Z * 2 ^ 128 < 2 ^ 250 := by
    have := rn53_le_pow Z 118 hZ2
    calc rn53 Z * 2 ^ 128 ≤ 2 ^ 118 * 2 ^ 128 := Nat.mul_le_mul_right _ this
      _ < 2 ^ 250 := by rw [← Nat.pow_add]; exact Nat.pow_lt_pow_right (by decide) (by norm_num)
  have hpk : 2 ^ 166 ≤ 2 ^ (k + 128) := Nat.pow_le_pow_right (by decide) (by omega)
  obtain ⟨l1, hl1, rl1⟩ := f_word_mul w1 0x43f0000000000000 64 decode_t64 (by norm_num)
  have s1 : rn53 Z * 2 ^ 128 + rn53 w1.toNat * 2 ^ 64 < 2 ^ 1000 := by
    exact sum_lt _ _ (rn53_le_pow Z 118 hZ2) (by clear rx1 rl1 r1 r2 rl2 hmk hV1 hpk hbig; omega)
  obtain ⟨lx2, hlx2, rx2⟩ := f_add lx1 l1 _ _ rx1 rl1 s1
  rw [hV1, rn53_absorb m (k + 128) _ m1 m2 (by omega) (by omega), ← hV1] at rx2
  have r0 := f_word w0
  have s0 : rn53 Z * 2 ^ 128 + rn53 w0.toNat < 2 ^ 1000 := by
    exact sum_lt _ _ (rn53_le_pow Z 118 hZ2) (by clear rx1 rl1 r1 r2 rl2 hmk hV1 hpk hbig; omega)
  obtain ⟨lx3, hlx3, rx3⟩ := f_add lx2 _ _ _ rx2 r0 s0
  rw [hV1, rn53_absorb m (k + 128) _ m1 m2 (by omega) (by omega), ← hV1] at rx3
  refine ⟨t1, t2, l2, lx1, l1, lx2, lx3, ht1, ht2, hl2, hlx1, hl1, hlx2, hlx3, ?_⟩
  unfold lvalS; rw [← hZ]; exact rx3


/-- rounding a 64-bit word moves it by at most 2^10 -/
theorem rn53_word (w : Nat) (hw : w < 2 ^ 64) : rn53 w ≤ w + 2 ^ 10 ∧ w ≤ rn53 w + 2 ^ 10 := by
  by_cases hl : 53 ≤ Nat.log2 w
  · obtain ⟨a, b⟩ := rn53_abs w hl
    have hw0 : w ≠ 0 := by intro h; subst h; simp [Nat.log2] at hl
    have : Nat.log2 w < 64 := (Nat.log2_lt hw0).2 hw
    have : 2 ^ (Nat.log2 w - 53) ≤ 2 ^ 10 := Nat.pow_le_pow_right (by decide) (by omega)
    omega
  · have : rn53 w = w := by unfold rn53; rw [if_pos (by omega)]
    omega

/-- **`lx` against `C`**: the float image is within a relative `2^-53 + 2^-78` of the integer -/
theorem lvalS_bounds (w3 w2 w1 w0 : Nat) (h3a : 2 ^ 26 ≤ w3) (h2 : w2 < 2 ^ 64) (h1 : w1 < 2 ^ 64) (h0 : w0 < 2 ^ 64) :
    2 ^ 79 * lvalS w3 w2 ≤ (2 ^ 79 + 2 ^ 26 + 2) * (w3 * 2 ^ 192 + w2 * 2 ^ 128 + w1 * 2 ^ 64 + w0) ∧
    (2 ^ 79 - 2 ^ 26 - 2) * (w3 * 2 ^ 192 + w2 * 2 ^ 128 + w1 * 2 ^ 64 + w0) ≤ 2 ^ 79 * lvalS w3 w2 := by
  obtain ⟨r1, r2⟩ := rn53_word w2 h2
  unfold lvalS
  generalize rn53 w2 = q2 at *
  obtain ⟨Z, hZ⟩ : ∃ Z, Z = w3 * 2 ^ 64 + q2 := ⟨_, rfl⟩
  rw [← hZ]
  have hZ1 : 2 ^ 90 ≤ Z := by omega
  have hlZ : 90 ≤ Nat.log2 Z := (Nat.le_log2 (by omega)).2 hZ1
  obtain ⟨a, b⟩ := rn53_abs Z (by omega)
  have hself := Nat.log2_self_le (by omega : Z ≠ 0)
  have hT : 2 ^ 53 * 2 ^ (Nat.log2 Z - 53) ≤ Z := by
    rw [← Nat.pow_add, show 53 + (Nat.log2 Z - 53) = Nat.log2 Z from by omega]; exact hself
  generalize 2 ^ (Nat.log2 Z - 53) = T at *
  generalize rn53 Z = R at *
  clear hself hlZ
  constructor <;> omega

/-! ## 3. Rounding and the square root in absolute form -/

/-- **one rounding with or without a sticky bit, absolute form**: the result is within half a unit in the last place of
the binade of `M` (`2^(log2 M − 53)` units `2^v`) of the interval `[M, M+1]·2^v` -/
theorem fpRound_abs (M : Nat) (v : Nat) (st : Bool) (hM : 2 ^ 54 ≤ M) (hv : 1 ≤ v)
    (hlo : -1021 ≤ (v : Int) - 1074 + Nat.log2 M) (hhi : (v : Int) - 1074 + Nat.log2 M ≤ 1020) :
    ∃ c W, fpRound 52 11 M ((v : Int) - 1074) st = some c ∧ Rep c W ∧
      M * 2 ^ v ≤ W + 2 ^ (Nat.log2 M - 53) * 2 ^ v ∧
      W ≤ (M + 1) * 2 ^ v + 2 ^ (Nat.log2 M - 53) * 2 ^ v := by
  obtain ⟨E, hEd⟩ : ∃ E : Int, E = (v : Int) - 1074 := ⟨_, rfl⟩
  have hE : -1073 ≤ E := by omega
  have hvE : (E + 1074).toNat = v := by omega
  rw [← hEd] at hlo hhi ⊢
  rw [← hvE]
  have hM0 : 0 < M := lt_of_lt_of_le (by norm_num) hM
  have hl54 : 54 ≤ Nat.log2 M := (Nat.le_log2 (by omega)).2 hM
  obtain ⟨u, hu⟩ : ∃ u : Nat, (E + 1074).toNat = u + 1 := ⟨(E + 1074).toNat - 1, by omega⟩
  rw [hu]
  have hp : (2 : Nat) ^ (u + 1) = 2 * 2 ^ u := by rw [Nat.pow_succ]; ring
  cases st with
  | false =>
    obtain ⟨c, hc, hr⟩ := fpRound_rep M E hM0 (by omega) (by omega) (by omega)
    rw [hu] at hr
    obtain ⟨a, b⟩ := rn53_abs M (by omega)
    refine ⟨c, _, hc, hr, ?_, ?_⟩
    · calc M * 2 ^ (u + 1) ≤ (rn53 M + 2 ^ (Nat.log2 M - 53)) * 2 ^ (u + 1) := Nat.mul_le_mul_right _ b
        _ = _ := by ring
    · calc rn53 M * 2 ^ (u + 1) ≤ (M + 2 ^ (Nat.log2 M - 53)) * 2 ^ (u + 1) := Nat.mul_le_mul_right _ a
        _ ≤ (M + 1) * 2 ^ (u + 1) + 2 ^ (Nat.log2 M - 53) * 2 ^ (u + 1) := by
          rw [Nat.add_mul, Nat.add_mul]; omega
  | true =>
    have hl := C10GenRem.log2_double_succ M hM0
    obtain ⟨c, hc, hr⟩ := fpRound_rep (2 * M + 1) (E - 1) (by omega) (by rw [hl]; push_cast; omega)
      (by rw [hl]; push_cast; omega) (by omega)
    have hu' : (E - 1 + 1074).toNat = u := by omega
    rw [hu'] at hr
    obtain ⟨a, b⟩ := rn53_abs (2 * M + 1) (by omega)
    rw [hl] at a b
    have e2 : 2 ^ (Nat.log2 M + 1 - 53) = 2 * 2 ^ (Nat.log2 M - 53) := by
      rw [show Nat.log2 M + 1 - 53 = (Nat.log2 M - 53) + 1 from by omega, Nat.pow_succ]; ring
    rw [e2] at a b
    generalize 2 ^ (Nat.log2 M - 53) = T at *
    generalize rn53 (2 * M + 1) = R at *
    refine ⟨c, _, by rw [fpRound_sticky M E hM]; exact hc, hr, ?_, ?_⟩
    · rw [hp]
      calc M * (2 * 2 ^ u) = (2 * M) * 2 ^ u := by ring
        _ ≤ (R + 2 * T) * 2 ^ u := Nat.mul_le_mul_right _ (by omega)
        _ = R * 2 ^ u + T * (2 * 2 ^ u) := by ring
    · rw [hp]
      calc R * 2 ^ u ≤ (2 * M + 2 + 2 * T) * 2 ^ u := Nat.mul_le_mul_right _ (by omega)
        _ = (M + 1) * (2 * 2 ^ u) + T * (2 * 2 ^ u) := by ring

/-- **`fpSqrt` on a normal number, absolute form**: as `fpSqrt_spec`, with the result `W` within `2^29` units `2^u` (half
a unit in the last place of the 83-bit integer root `s`) of `[s, s+1]·2^u`, and the parity of the scaling exposed -/
theorem fpSqrt_abs (K m : Nat) (h1 : 2 ^ 52 ≤ m) (h2 : m < 2 ^ 53) (hK : K ≤ 2045) :
    ∃ c W s u k : Nat, fpSqrt 52 11 (K * 2 ^ 52 + m) = .ok c ∧ Rep c W ∧
      s * 2 ^ u ≤ W + 2 ^ 29 * 2 ^ u ∧ W ≤ (s + 1) * 2 ^ u + 2 ^ 29 * 2 ^ u ∧
      (s * 2 ^ u) * (s * 2 ^ u) ≤ m * 2 ^ K * 2 ^ 1074 ∧
      m * 2 ^ K * 2 ^ 1074 < ((s + 1) * 2 ^ u) * ((s + 1) * 2 ^ u) ∧ 2 ^ 82 ≤ s ∧
      (k = 112 ∨ k = 113) ∧ (K + k) % 2 = 0 ∧ m * 2 ^ k < (s + 1) * (s + 1) := by
  have hd := decode_normal K m h1 h2 hK
  obtain ⟨k, hk, hkv, hK2⟩ := sqrt_parity K
  obtain ⟨r1, r2⟩ := natSqrt_spec (m * 2 ^ k)
  obtain ⟨hn1, hn2⟩ := sig_scaled m k h1 h2 hk
  generalize hs : natSqrt (m * 2 ^ k) = s at r1 r2
  obtain ⟨hs1, hs2⟩ := sqrt_size _ s r1 r2 hn1 hn2
  have hlog : Nat.log2 s = 82 := log2_unique s 82 hs1 hs2
  have hk' : k ≤ 113 ∧ 112 ≤ k := by rcases hk with rfl | rfl <;> omega
  clear hn1 hn2
  obtain ⟨u, hu⟩ : ∃ u : Nat, K + 1074 = k + 2 * u := ⟨(K + 1074 - k) / 2, by clear r1 r2 hs hd; omega⟩
  have hE : ((K : Int) - 1074 - (k : Nat)) / 2 = (u : Int) - 1074 := by clear r1 r2 hs hd; omega
  have hsplit := pow_split m K k u hu
  have hu2 : u ≤ 1600 := by clear r1 r2 hs hd hsplit; omega
  have hu1 : 1 ≤ u := by clear r1 r2 hs hd hsplit; omega
  obtain ⟨c, W, hc, hr, b1, b2⟩ := fpRound_abs s u (s * s != m * 2 ^ k)
    (le_trans (by norm_num) hs1) hu1 (by rw [hlog]; clear r1 r2 hs hd hsplit; omega)
    (by rw [hlog]; clear r1 r2 hs hd hsplit; omega)
  rw [hlog] at b1 b2
  refine ⟨c, W, s, u, k, ?_, hr, b1, b2, ?_, ?_, hs1, hk, hK2, r2⟩
  · exact fpSqrt_of_decode _ m k s c _ _ hd hkv hs hE hc
  · rw [hsplit]
    calc (s * 2 ^ u) * (s * 2 ^ u) = (s * s) * (2 ^ u * 2 ^ u) := by ring
      _ ≤ (m * 2 ^ k) * (2 ^ u * 2 ^ u) := Nat.mul_le_mul_right _ r1
  · rw [hsplit]
    have hpu : 0 < 2 ^ u * 2 ^ u := Nat.mul_pos (Nat.pow_pos (by decide)) (Nat.pow_pos (by decide))
    calc (m * 2 ^ k) * (2 ^ u * 2 ^ u) < ((s + 1) * (s + 1)) * (2 ^ u * 2 ^ u) := Nat.mul_lt_mul_of_pos_right r2 hpu
      _ = ((s + 1) * 2 ^ u) * ((s + 1) * 2 ^ u) := by ring

/-! ## 4. Composing the three roundings -/

/-- the three roundings (`lx`, `√`, `1/·`) together, on rationals, with the square root's error in absolute form:
`H` is half a unit in the last place of the root, at most `κ/10^4 · 2^-53` of it (`κ = 7072`: the root's significand is
at least `√2`; `κ = 10000`: any).  Then `Y²·A` is within `cc/1000 · 2^-53` of `B²` (`cc` = 4420, 5001) -/
theorem recip_sqrt_bounds2 (A L W Y B S S' H Q Q' κ cc : ℚ) (hκ : (κ = 7072 ∧ cc = 4420) ∨ (κ = 10000 ∧ cc = 5001))
    (hA : 0 < A) (hL : 0 < L) (hW : 0 < W) (hY : 0 < Y) (hB : 0 < B) (hS : 0 < S) (hSS : S ≤ S') (hQ : 0 < Q) (hH : 0 ≤ H)
    (n1 : 2 ^ 79 * L ≤ (2 ^ 79 + 2 ^ 26 + 2) * A) (n2 : (2 ^ 79 - 2 ^ 26 - 2) * A ≤ 2 ^ 79 * L)
    (w1 : S ≤ W + H) (w2 : W ≤ S' + H) (hHS : 10 ^ 4 * 2 ^ 53 * H ≤ κ * S)
    (s1 : S * S ≤ L * (B * B)) (s2 : L * (B * B) < S' * S') (s3 : 2 ^ 82 * S' ≤ (2 ^ 82 + 1) * S)
    (y1 : (2 ^ 53 - 1) * Q ≤ 2 ^ 53 * Y) (y2 : 2 ^ 53 * Y ≤ (2 ^ 53 + 1) * Q')
    (q1 : Q * W ≤ B * B) (q2 : B * B < Q' * W) (q3 : 2 ^ 111 * Q' ≤ (2 ^ 111 + 1) * Q) :
    2 ^ 53 * 1000 * (B * B) ≤ 2 ^ 53 * 1000 * (Y * Y * A) + cc * (B * B) ∧
    2 ^ 53 * 1000 * (Y * Y * A) ≤ (2 ^ 53 * 1000 + cc) * (B * B) := by
  have hS' : 0 < S' := by linarith
  have hQ' : 0 < Q' := by nlinarith
  have hBB : 0 < B * B := by positivity
  have hX : 0 < Y * Y * A := by positivity
  have e2l : ((2 ^ 53 - 1) * 2 ^ 111) * (B * B) ≤ (2 ^ 53 * (2 ^ 111 + 1)) * (Y * W) := by nlinarith
  have e2u : (2 ^ 53 * 2 ^ 111) * (Y * W) ≤ ((2 ^ 53 + 1) * (2 ^ 111 + 1)) * (B * B) := by
    have : 2 ^ 53 * 2 ^ 111 * Y ≤ (2 ^ 53 + 1) * (2 ^ 111 + 1) * Q := by nlinarith
    nlinarith
  rcases hκ with ⟨rfl, rfl⟩ | ⟨rfl, rfl⟩
  · constructor
    · have e3 : (2 ^ 135 * 10 ^ 4) * W ≤ (2 ^ 53 * 10 ^ 4 * (2 ^ 82 + 1) + 2 ^ 82 * 7072) * S := by linarith
      have := compose_lower A L W Y (B * B) S _ _ _ _ _ _ hA hL hW hY hBB hS (by norm_num) (by norm_num) (by norm_num)
        (by norm_num) (by norm_num) (by norm_num) e2l e3 s1 n1
      norm_num at this ⊢
      linarith
    · have e3 : ((2 ^ 135 * 10 ^ 4 - 2 ^ 82 * 7072) * 2 ^ 82) * S' ≤ ((2 ^ 82 + 1) * 2 ^ 135 * 10 ^ 4) * W := by linarith
      have := compose_upper A L W Y (B * B) S' _ _ _ _ _ _ hA hL hW hY hBB hS' (by norm_num) (by norm_num) (by norm_num)
        (by norm_num) (by norm_num) (by norm_num) e2u e3 (le_of_lt s2) n2
      norm_num at this ⊢
      linarith
  · constructor
    · have e3 : (2 ^ 135 * 10 ^ 4) * W ≤ (2 ^ 53 * 10 ^ 4 * (2 ^ 82 + 1) + 2 ^ 82 * 10000) * S := by linarith
      have := compose_lower A L W Y (B * B) S _ _ _ _ _ _ hA hL hW hY hBB hS (by norm_num) (by norm_num) (by norm_num)
        (by norm_num) (by norm_num) (by norm_num) e2l e3 s1 n1
      norm_num at this ⊢
      linarith
    · have e3 : ((2 ^ 135 * 10 ^ 4 - 2 ^ 82 * 10000) * 2 ^ 82) * S' ≤ ((2 ^ 82 + 1) * 2 ^ 135 * 10 ^ 4) * W := by linarith
      have := compose_upper A L W Y (B * B) S' _ _ _ _ _ _ hA hL hW hY hBB hS' (by norm_num) (by norm_num) (by norm_num)
        (by norm_num) (by norm_num) (by norm_num) e2u e3 (le_of_lt s2) n2
      norm_num at this ⊢
      linarith


/-- a root with an odd scaling (`k = 113`) has its significand above `√2`: half a unit in its last place is at most
`0.7072 · 2^-53` of it -/
theorem root_big (m s : Nat) (h1 : 2 ^ 52 ≤ m) (r2 : m * 2 ^ 113 < (s + 1) * (s + 1)) :
    10 ^ 4 * 2 ^ 82 ≤ 7072 * s := by
  by_contra hh
  have hs : s + 1 ≤ 6837815721802201214401449 := by omega
  have : (s + 1) * (s + 1) ≤ 6837815721802201214401449 * 6837815721802201214401449 := Nat.mul_le_mul hs hs
  have : 2 ^ 52 * 2 ^ 113 ≤ m * 2 ^ 113 := Nat.mul_le_mul_right _ h1
  omega


/-- `(q+1)/q ≤ 1 + 2^-111` for a quotient of at least 111 bits -/
theorem q3_aux (q : Nat) (h : 2 ^ 111 ≤ q) : 2 ^ 111 * (q + 1) ≤ (2 ^ 111 + 1) * q := by omega

/-! ## 5. The float estimate `ly` -/

/-- the ten `f64` operations of `bid_long_sqrt128` on `10^66 ≤ C < 10^68`, with the result `Y = ly·2^1074` in normal
form and `Y²·C` within `cc/1000 · 2^-53` of `B² = 2^2148`: `cc = 4420` in general, `cc = 5001` only if `C < 2^225 + 2^175` -/
theorem long_float_core (C256 : U256) (hC1 : 10 ^ 66 ≤ C256.toNat') (hC2 : C256.toNat' < 10 ^ 68) :
    ∃ (t1 t2 l2 lx1 l1 lx2 lx3 : F64U) (c c' Y MY k B cc : Nat),
      F64U.mul (F64U.ofU64 (UInt64.ofInt (toI C256.w3))) ⟨0x43f0000000000000⟩ = .ok t1 ∧
      F64U.mul t1 ⟨0x47f0000000000000⟩ = .ok t2 ∧
      F64U.mul (F64U.ofU64 (UInt64.ofInt (toI C256.w2))) ⟨0x47f0000000000000⟩ = .ok l2 ∧
      F64U.add t2 l2 = .ok lx1 ∧
      F64U.mul (F64U.ofU64 (UInt64.ofInt (toI C256.w1))) ⟨0x43f0000000000000⟩ = .ok l1 ∧
      F64U.add lx1 l1 = .ok lx2 ∧
      F64U.add lx2 (F64U.ofU64 (UInt64.ofInt (toI C256.w0))) = .ok lx3 ∧
      F64U.sqrt lx3 = .ok ⟨UInt64.ofNat c⟩ ∧ F64U.div (F64U.ofU64 1) ⟨UInt64.ofNat c⟩ = .ok ⟨UInt64.ofNat c'⟩ ∧
      c' < 2 ^ 64 ∧ 2 ^ 52 ≤ MY ∧ MY < 2 ^ 53 ∧ c' = k * 2 ^ 52 + MY ∧ MY * 2 ^ k = Y ∧ B = 2 ^ 1074 ∧
      (cc = 4420 ∨ (cc = 5001 ∧ C256.toNat' < 2 ^ 225 + 2 ^ 175)) ∧
      2 ^ 53 * 1000 * (B * B) ≤ 2 ^ 53 * 1000 * (Y * Y * C256.toNat') + cc * (B * B) ∧
      2 ^ 53 * 1000 * (Y * Y * C256.toNat') ≤ (2 ^ 53 * 1000 + cc) * (B * B) := by
  have g0 := C256.w0.toNat_lt; have g1 := C256.w1.toNat_lt; have g2 := C256.w2.toNat_lt; have g3 := C256.w3.toNat_lt
  have hCv : C256.w3.toNat * 2 ^ 192 + C256.w2.toNat * 2 ^ 128 + C256.w1.toNat * 2 ^ 64 + C256.w0.toNat = C256.toNat' := by
    unfold Rs.U256.toNat'; omega
  have h3a : 2 ^ 26 ≤ C256.w3.toNat := by omega
  have h3b : C256.w3.toNat < 2 ^ 53 := by omega
  obtain ⟨t1, t2, l2, lx1, l1, lx2, lx3, ht1, ht2, hl2, hlx1, hl1, hlx2, hlx3, hrep⟩ :=
    chain_long C256.w3 C256.w2 C256.w1 C256.w0 h3a h3b
  obtain ⟨nb1, nb2⟩ := lvalS_bounds C256.w3.toNat C256.w2.toNat C256.w1.toNat C256.w0.toNat h3a g2 g1 g0
  rw [hCv] at nb1 nb2
  generalize hLd : lvalS C256.w3.toNat C256.w2.toNat = L at *
  generalize hCd : C256.toNat' = C at *
  have hL0 : 0 < L := by omega
  have hL1 : 2 ^ 218 ≤ L := by omega
  have hL2 : L < 2 ^ 226 := by omega
  obtain ⟨B, hBd⟩ : ∃ B : Nat, B = 2 ^ 1074 := ⟨_, rfl⟩
  have hB0 : 0 < B := by rw [hBd]; exact Nat.pow_pos (by decide)
  rw [← hBd] at hrep
  -- lx is normal
  obtain ⟨m, K, m1, m2, hK, hb, hV⟩ := rep_normal hrep (Nat.mul_pos hL0 hB0)
  -- the square root
  obtain ⟨c, W, s, u, k, hsq, hrW, b1, b2, hs1, hs2, hs82, hk, hpar, hr2⟩ := fpSqrt_abs K m m1 m2 hK
  rw [hV, ← hBd, Nat.mul_assoc L B B] at hs1 hs2
  have hcl := rep_lt hrW
  have hsqrt : F64U.sqrt lx3 = .ok ⟨UInt64.ofNat c⟩ := by
    unfold F64U.sqrt; rw [hb, hsq]; rfl
  have hpu : 0 < 2 ^ u := Nat.pow_pos (by decide)
  obtain ⟨S, hSd⟩ : ∃ S, S = s * 2 ^ u := ⟨_, rfl⟩
  obtain ⟨U, hUd⟩ : ∃ U, U = 2 ^ u := ⟨_, rfl⟩
  have hS' : (s + 1) * 2 ^ u = S + U := by rw [hSd, hUd]; ring
  rw [hS'] at b2 hs2
  rw [← hSd] at b1 hs1
  rw [← hUd] at b1 b2 hpu
  have hSU : 2 ^ 82 * U ≤ S := by rw [hSd, hUd]; exact Nat.mul_le_mul_right _ hs82
  -- the parity: which bound on half an ulp of the root
  obtain ⟨κ, cc, hκ, hκs, hcc⟩ : ∃ κ cc : Nat, ((κ = 7072 ∧ cc = 4420) ∨ (κ = 10000 ∧ cc = 5001)) ∧
      10 ^ 4 * 2 ^ 82 ≤ κ * s ∧ (cc = 4420 ∨ (cc = 5001 ∧ C < 2 ^ 225 + 2 ^ 175)) := by
    rcases hk with rfl | rfl
    · refine ⟨10000, 5001, Or.inr ⟨rfl, rfl⟩, by omega, Or.inr ⟨rfl, ?_⟩⟩
      -- K is even, so L < 2^225
      have hLB : L * B < 2 ^ 226 * B := Nat.mul_lt_mul_of_pos_right hL2 hB0
      have e226 : 2 ^ 226 * B = 2 ^ 1300 := by rw [hBd, ← Nat.pow_add]
      obtain ⟨_, k2⟩ := exp_range m K 0 1300 m1 m2 (by rw [hV]; exact Nat.mul_pos hL0 hB0) (by rw [hV, ← e226]; exact hLB)
      have hK2 : K ≤ 1246 := by omega
      have : m * 2 ^ K < 2 ^ 53 * 2 ^ 1246 :=
        lt_of_lt_of_le (Nat.mul_lt_mul_of_pos_right m2 (Nat.pow_pos (by decide)))
          (Nat.mul_le_mul_left _ (Nat.pow_le_pow_right (by decide) hK2))
      have e225 : 2 ^ 53 * 2 ^ 1246 = 2 ^ 225 * B := by rw [hBd, ← Nat.pow_add, ← Nat.pow_add]
      rw [hV, e225] at this
      have hL225 : L < 2 ^ 225 := Nat.lt_of_mul_lt_mul_right this
      omega
    · exact ⟨7072, 4420, Or.inl ⟨rfl, rfl⟩, root_big m s m1 hr2, Or.inl rfl⟩
  have hHS : 10 ^ 4 * 2 ^ 53 * (2 ^ 29 * U) ≤ κ * S := by
    rw [hSd, hUd]
    calc 10 ^ 4 * 2 ^ 53 * (2 ^ 29 * 2 ^ u) = (10 ^ 4 * 2 ^ 82) * 2 ^ u := by ring
      _ ≤ (κ * s) * 2 ^ u := Nat.mul_le_mul_right _ hκs
      _ = κ * (s * 2 ^ u) := by ring
  have hκ4 : κ ≤ 10 ^ 4 := by rcases hκ with ⟨rfl, _⟩ | ⟨rfl, _⟩ <;> norm_num
  -- the size of the root
  have hBS : B < S + U := by
    by_contra hh
    have : (S + U) * (S + U) ≤ B * B := Nat.mul_le_mul (by omega) (by omega)
    have : B * B ≤ L * (B * B) := Nat.le_mul_of_pos_left _ hL0
    omega
  have hSB : S < 2 ^ 113 * B := by
    by_contra hh
    have h : (2 ^ 113 * B) * (2 ^ 113 * B) ≤ S * S := Nat.mul_le_mul (by omega) (by omega)
    have e : (2 ^ 113 * B) * (2 ^ 113 * B) = 2 ^ 226 * (B * B) := by ring
    have hBB : 0 < B * B := Nat.mul_pos hB0 hB0
    have : L * (B * B) < 2 ^ 226 * (B * B) := Nat.mul_lt_mul_of_pos_right hL2 hBB
    omega
  have hW1 : B ≤ 4 * W := by omega
  have hW2 : W < 2 ^ 115 * B := by omega
  have hW0 : 0 < W := by omega
  have hB4 : B = 4 * 2 ^ 1072 := by rw [hBd, show (1074 : Nat) = 2 + 1072 from rfl, Nat.pow_add]
  have hB115 : 2 ^ 1189 = 2 ^ 115 * B := by rw [hBd, ← Nat.pow_add]
  obtain ⟨m', K', m1', m2', hK', hb', hV'⟩ := rep_normal hrW hW0
  obtain ⟨k1, k2⟩ := exp_range m' K' 1072 1189 m1' m2' (by rw [hV']; omega) (by rw [hV', hB115]; exact hW2)
  -- the reciprocal
  obtain ⟨c', Y, q, v, hdiv, hrY, y1, y2, hq1, hq2, hq111⟩ := fpRecip_spec K' m' m1' m2' (by omega) (by omega)
  rw [hV', ← hBd] at hq1 hq2
  have hcl' := rep_lt hrY
  have hone : (F64U.ofU64 1).bits.toNat = fd 1 := by decide +kernel
  have hfdiv : F64U.div (F64U.ofU64 1) ⟨UInt64.ofNat c⟩ = .ok ⟨UInt64.ofNat c'⟩ := by
    unfold F64U.div
    rw [hone]
    show Except.map _ (fpDiv 52 11 (fd 1) (UInt64.ofNat c).toNat) = _
    rw [C10GenRem.ofNat_toNat_lt c hcl, hb', hdiv]; rfl
  have hq0 : 0 < q * 2 ^ v := Nat.mul_pos (by omega) (Nat.pow_pos (by decide))
  have hY0 : 0 < Y := by omega
  obtain ⟨MY, kk, my1, my2, hkk, hbY, hVY⟩ := rep_normal hrY hY0
  have hC0 : 0 < C := by omega
  have hS0 : 0 < S := by omega
  -- the bounds, over ℚ
  have hbound := recip_sqrt_bounds2 (C : ℚ) L W Y B S ((S + U : Nat) : ℚ) ((2 ^ 29 * U : Nat) : ℚ)
    ((q * 2 ^ v : Nat) : ℚ) (((q + 1) * 2 ^ v : Nat) : ℚ) κ cc
    (by rcases hκ with ⟨rfl, rfl⟩ | ⟨rfl, rfl⟩
        · left; constructor <;> norm_num
        · right; constructor <;> norm_num)
    (by exact_mod_cast hC0) (by exact_mod_cast hL0)
    (by exact_mod_cast hW0) (by exact_mod_cast hY0) (by exact_mod_cast hB0) (by exact_mod_cast hS0)
    (by exact_mod_cast (Nat.le_add_right S U)) (by exact_mod_cast hq0) (by positivity)
    (by exact_mod_cast nb1)
    (by have : 2 ^ 79 * C ≤ 2 ^ 79 * L + (2 ^ 26 + 2) * C := by omega
        have : (2 ^ 79 * C : ℚ) ≤ 2 ^ 79 * L + (2 ^ 26 + 2) * C := by exact_mod_cast this
        linarith)
    (by exact_mod_cast b1) (by exact_mod_cast b2) (by exact_mod_cast hHS)
    (by exact_mod_cast hs1) (by exact_mod_cast hs2)
    (by have : 2 ^ 82 * (S + U) ≤ (2 ^ 82 + 1) * S := by omega
        exact_mod_cast this)
    (by have : 2 ^ 53 * (q * 2 ^ v) ≤ 2 ^ 53 * Y + q * 2 ^ v := by omega
        have : (2 ^ 53 * ((q * 2 ^ v : Nat) : ℚ)) ≤ 2 ^ 53 * Y + ((q * 2 ^ v : Nat) : ℚ) := by exact_mod_cast this
        linarith)
    (by have : (2 ^ 53 * Y : ℚ) ≤ (2 ^ 53 + 1) * (((q + 1) * 2 ^ v : Nat) : ℚ) := by exact_mod_cast y2
        exact this)
    (by exact_mod_cast hq1) (by exact_mod_cast hq2)
    (by have : 2 ^ 111 * ((q + 1) * 2 ^ v) ≤ (2 ^ 111 + 1) * (q * 2 ^ v) := by
          have : 2 ^ 111 * (q + 1) ≤ (2 ^ 111 + 1) * q := q3_aux q hq111
          calc 2 ^ 111 * ((q + 1) * 2 ^ v) = (2 ^ 111 * (q + 1)) * 2 ^ v := by ring
            _ ≤ ((2 ^ 111 + 1) * q) * 2 ^ v := Nat.mul_le_mul_right _ this
            _ = (2 ^ 111 + 1) * (q * 2 ^ v) := by ring
        exact_mod_cast this)
  obtain ⟨hbl, hbu⟩ := hbound
  have hblN : 2 ^ 53 * 1000 * (B * B) ≤ 2 ^ 53 * 1000 * (Y * Y * C) + cc * (B * B) := by exact_mod_cast hbl
  have hbuN : 2 ^ 53 * 1000 * (Y * Y * C) ≤ (2 ^ 53 * 1000 + cc) * (B * B) := by exact_mod_cast hbu
  exact ⟨t1, t2, l2, lx1, l1, lx2, lx3, c, c', Y, MY, kk, B, cc, ht1, ht2, hl2, hlx1, hl1, hlx2, hlx3, hsqrt, hfdiv, hcl',
    my1, my2, hbY, hVY, hBd, hcc, hblN, hbuN⟩


/-- `ly` is below `2^-109`: otherwise `ly²·C` would exceed `1 + 5.001·2^-53` already for `C = 10^66` -/
theorem yu_aux (X P cc : Nat) (hcc : cc ≤ 5001) (hP : 0 < P) (h5 : P * 10 ^ 66 ≤ X)
    (hb : 2 ^ 53 * 1000 * X ≤ (2 ^ 53 * 1000 + cc) * (2 ^ 218 * P)) : False := by
  have : cc * (2 ^ 218 * P) ≤ 5001 * (2 ^ 218 * P) := Nat.mul_le_mul_right _ hcc
  have e : (2 ^ 53 * 1000 + cc) * (2 ^ 218 * P) = 2 ^ 53 * 1000 * (2 ^ 218 * P) + cc * (2 ^ 218 * P) := by ring
  omega

/-- `ly` is at least `2^-113`: otherwise `ly²·C` would stay below `1 − 5.001·2^-53` even for `C = 10^68` -/
theorem yl_aux (X P cc : Nat) (hcc : cc ≤ 5001) (hP : 0 < P) (h5 : X ≤ P * 10 ^ 68)
    (hb : 2 ^ 53 * 1000 * (2 ^ 226 * P) ≤ 2 ^ 53 * 1000 * X + cc * (2 ^ 226 * P)) : False := by
  have : cc * (2 ^ 226 * P) ≤ 5001 * (2 ^ 226 * P) := Nat.mul_le_mul_right _ hcc
  omega

/-- **the float estimate of `bid_long_sqrt128`**: the ten `f64` operations never fail on `10^66 ≤ C < 10^68`, and the
result `ly = MY·2^(−ey−52)` (`2^52 ≤ MY < 2^53`, exponent field `1023 − ey`, `110 ≤ ey ≤ 113`) satisfies
`|ly²·C − 1| ≤ cc/1000 · 2^-53` with `cc = 4420`, or `cc = 5001` and `C < 2^225 + 2^175` -/
theorem long_float (C256 : U256) (hC1 : 10 ^ 66 ≤ C256.toNat') (hC2 : C256.toNat' < 10 ^ 68) :
    ∃ (t1 t2 l2 lx1 l1 lx2 lx3 ls ly : F64U) (MY ey cc : Nat),
      F64U.mul (F64U.ofU64 (UInt64.ofInt (toI C256.w3))) ⟨0x43f0000000000000⟩ = .ok t1 ∧
      F64U.mul t1 ⟨0x47f0000000000000⟩ = .ok t2 ∧
      F64U.mul (F64U.ofU64 (UInt64.ofInt (toI C256.w2))) ⟨0x47f0000000000000⟩ = .ok l2 ∧
      F64U.add t2 l2 = .ok lx1 ∧
      F64U.mul (F64U.ofU64 (UInt64.ofInt (toI C256.w1))) ⟨0x43f0000000000000⟩ = .ok l1 ∧
      F64U.add lx1 l1 = .ok lx2 ∧
      F64U.add lx2 (F64U.ofU64 (UInt64.ofInt (toI C256.w0))) = .ok lx3 ∧
      F64U.sqrt lx3 = .ok ls ∧ F64U.div (F64U.ofU64 1) ls = .ok ly ∧
      2 ^ 52 ≤ MY ∧ MY < 2 ^ 53 ∧ 110 ≤ ey ∧ ey ≤ 113 ∧ ly.bits.toNat = (1022 - ey) * 2 ^ 52 + MY ∧
      (cc = 4420 ∨ (cc = 5001 ∧ C256.toNat' < 2 ^ 225 + 2 ^ 175)) ∧
      2 ^ 53 * 1000 * 2 ^ (2 * ey + 104) ≤ 2 ^ 53 * 1000 * (MY * MY * C256.toNat') + cc * 2 ^ (2 * ey + 104) ∧
      2 ^ 53 * 1000 * (MY * MY * C256.toNat') ≤ (2 ^ 53 * 1000 + cc) * 2 ^ (2 * ey + 104) := by
  obtain ⟨t1, t2, l2, lx1, l1, lx2, lx3, c, c', Y, MY, k, B, cc, ht1, ht2, hl2, hlx1, hl1, hlx2, hlx3, hsqrt, hfdiv, hcl',
    my1, my2, hbY, hVY, hBd, hcc, hblN, hbuN⟩ := long_float_core C256 hC1 hC2
  generalize hCd : C256.toNat' = C at *
  have hcc5 : cc ≤ 5001 := by rcases hcc with rfl | ⟨rfl, _⟩ <;> norm_num
  have hB0 : 0 < B := by rw [hBd]; exact Nat.pow_pos (by decide)
  have hBB0 : 0 < B * B := Nat.mul_pos hB0 hB0
  -- the exponent of ly
  have hYu : Y < 2 ^ 965 := by
    by_contra hh
    have h4 : 2 ^ 965 * 2 ^ 965 ≤ Y * Y := Nat.mul_le_mul (by omega) (by omega)
    have e4 : B * B = 2 ^ 218 * (2 ^ 965 * 2 ^ 965) := by rw [hBd, ← Nat.pow_add, ← Nat.pow_add, ← Nat.pow_add]
    have h5 : (2 ^ 965 * 2 ^ 965) * 10 ^ 66 ≤ Y * Y * C := Nat.mul_le_mul h4 hC1
    have hP : 0 < 2 ^ 965 * 2 ^ 965 := Nat.mul_pos (Nat.pow_pos (by decide)) (Nat.pow_pos (by decide))
    rw [e4] at hbuN
    exact yu_aux _ _ cc hcc5 hP h5 hbuN
  have hYl : 2 ^ 961 ≤ Y := by
    by_contra hh
    have h4 : Y * Y ≤ 2 ^ 961 * 2 ^ 961 := Nat.mul_le_mul (by omega) (by omega)
    have e4 : B * B = 2 ^ 226 * (2 ^ 961 * 2 ^ 961) := by rw [hBd, ← Nat.pow_add, ← Nat.pow_add, ← Nat.pow_add]
    have h5 : Y * Y * C ≤ (2 ^ 961 * 2 ^ 961) * 10 ^ 68 := Nat.mul_le_mul h4 (by omega)
    have hP : 0 < 2 ^ 961 * 2 ^ 961 := Nat.mul_pos (Nat.pow_pos (by decide)) (Nat.pow_pos (by decide))
    rw [e4] at hblN
    exact yl_aux _ _ cc hcc5 hP h5 hblN
  obtain ⟨k1', k2'⟩ := exp_range MY k 961 965 my1 my2 (by rw [hVY]; exact hYl) (by rw [hVY]; exact hYu)
  refine ⟨t1, t2, l2, lx1, l1, lx2, lx3, ⟨UInt64.ofNat c⟩, ⟨UInt64.ofNat c'⟩, MY, 1022 - k, cc, ht1, ht2, hl2, hlx1, hl1,
    hlx2, hlx3, hsqrt, hfdiv, my1, my2, by omega, by omega, ?_, hcc, ?_, ?_⟩
  · show (UInt64.ofNat c').toNat = _
    have : 1022 - (1022 - k) = k := by omega
    rw [C10GenRem.ofNat_toNat_lt c' hcl', hbY, this]
  all_goals
    have ek' : 1074 + 1074 = 2 * (1022 - k) + 104 + (k + k) := by omega
    have eB : B * B = 2 ^ (2 * (1022 - k) + 104) * (2 ^ k * 2 ^ k) := by
      calc B * B = 2 ^ 1074 * 2 ^ 1074 := by rw [← hBd]
        _ = 2 ^ (1074 + 1074) := (Nat.pow_add 2 1074 1074).symm
        _ = 2 ^ (2 * (1022 - k) + 104 + (k + k)) := congrArg (fun x => 2 ^ x) ek'
        _ = 2 ^ (2 * (1022 - k) + 104) * (2 ^ k * 2 ^ k) := by
            rw [Nat.pow_add (2) (2 * (1022 - k) + 104) (k + k), Nat.pow_add 2 k k]
    have eY : Y * Y * C = (MY * MY * C) * (2 ^ k * 2 ^ k) := by rw [← hVY]; ring
    have hkk : 0 < 2 ^ k * 2 ^ k := Nat.mul_pos (Nat.pow_pos (by decide)) (Nat.pow_pos (by decide))
    rw [eB, eY] at hblN hbuN
    apply Nat.le_of_mul_le_mul_right _ hkk
  · calc 2 ^ 53 * 1000 * 2 ^ (2 * (1022 - k) + 104) * (2 ^ k * 2 ^ k)
        = 2 ^ 53 * 1000 * (2 ^ (2 * (1022 - k) + 104) * (2 ^ k * 2 ^ k)) := by ring
      _ ≤ 2 ^ 53 * 1000 * (MY * MY * C * (2 ^ k * 2 ^ k)) + cc * (2 ^ (2 * (1022 - k) + 104) * (2 ^ k * 2 ^ k)) := hblN
      _ = (2 ^ 53 * 1000 * (MY * MY * C) + cc * 2 ^ (2 * (1022 - k) + 104)) * (2 ^ k * 2 ^ k) := by ring
  · calc 2 ^ 53 * 1000 * (MY * MY * C) * (2 ^ k * 2 ^ k) = 2 ^ 53 * 1000 * (MY * MY * C * (2 ^ k * 2 ^ k)) := by ring
      _ ≤ (2 ^ 53 * 1000 + cc) * (2 ^ (2 * (1022 - k) + 104) * (2 ^ k * 2 ^ k)) := hbuN
      _ = (2 ^ 53 * 1000 + cc) * 2 ^ (2 * (1022 - k) + 104) * (2 ^ k * 2 ^ k) := by ring

end Float

section Math
open Dec.Rs Dec.Gen.Code Dec.C01GenSqrt
open Dec.C06GenFromInt (bitsOf ofBits)
open Dec.C12GenNaN
open Dec.C01GenMul (dOf)
open Dec (sqrtD encode)

/-! ## 6. The second-order correction over ℚ -/

/-- the second-order Taylor polynomial of `(1+x)^(-1/2)`: its square times `1+x` is `1` up to `|x|^3` -/
theorem taylor_sq (x x0 : ℚ) (hx0 : 0 ≤ x0) (hx1 : x0 ≤ 1 / 2) (h1 : -x0 ≤ x) (h2 : x ≤ x0) :
    (1 - x / 2 + 3 * x ^ 2 / 8) ^ 2 * (1 + x) ≤ 1 + x0 ^ 3 ∧ 1 - x0 ^ 3 ≤ (1 - x / 2 + 3 * x ^ 2 / 8) ^ 2 * (1 + x) := by
  have e : (1 - x / 2 + 3 * x ^ 2 / 8) ^ 2 * (1 + x) = 1 + x ^ 3 * (5 / 8 - 15 / 64 * x + 9 / 64 * x ^ 2) := by ring
  rw [e]
  have habs : |x| ≤ x0 := abs_le.2 ⟨h1, h2⟩
  have h3 : |x ^ 3| ≤ x0 ^ 3 := by rw [abs_pow]; exact pow_le_pow_left₀ (abs_nonneg x) habs 3
  have hf0 : 0 ≤ 5 / 8 - 15 / 64 * x + 9 / 64 * x ^ 2 := by nlinarith [sq_nonneg x]
  have hx2 : x ^ 2 ≤ 1 / 4 := by nlinarith
  have hf1 : 5 / 8 - 15 / 64 * x + 9 / 64 * x ^ 2 ≤ 1 := by nlinarith
  obtain ⟨g1, g2⟩ := abs_le.1 h3
  have hx03 : 0 ≤ x0 ^ 3 := by positivity
  generalize 5 / 8 - 15 / 64 * x + 9 / 64 * x ^ 2 = f at *
  generalize x ^ 3 = y at *
  generalize x0 ^ 3 = y0 at *
  constructor
  · nlinarith
  · nlinarith

example : (1 - (1 / 4 : ℚ) / 2 + 3 * (1 / 4) ^ 2 / 8) ^ 2 * (1 + 1 / 4) ≤ 1 + (1 / 4) ^ 3 := by norm_num

/-- **from closeness to the Taylor value to the bracket**: if `S` is within `P − c` of `a·p(x)`, where `V2·(1+x) = a²`
and `c` dominates the cubic remainder, then `(S − P)² ≤ V2 ≤ (S + P)²` -/
theorem taylor_close (a x x0 V2 S P c : ℚ) (ha : 0 < a) (hx0 : 0 ≤ x0) (hx1 : x0 ≤ 1 / 8) (h1 : -x0 ≤ x) (h2 : x ≤ x0)
    (hV : V2 * (1 + x) = a ^ 2) (hP : 0 < P) (hc : 0 < c) (hcP : c ≤ P) (ha4 : 4 * P ≤ a)
    (hcx : 4 * a * x0 ^ 3 ≤ c)
    (hlo : a * (1 - x / 2 + 3 * x ^ 2 / 8) - (P - c) ≤ S) (hhi : S ≤ a * (1 - x / 2 + 3 * x ^ 2 / 8) + (P - c)) :
    V2 ≤ (S + P) ^ 2 ∧ P ≤ S ∧ (S - P) ^ 2 ≤ V2 := by
  obtain ⟨t1, t2⟩ := taylor_sq x x0 hx0 (by linarith) h1 h2
  have hx2 : x ^ 2 ≤ 1 / 64 := by
    have a1 : x ^ 2 ≤ x0 ^ 2 := sq_le_sq' h1 h2
    have a2 : x0 ^ 2 ≤ (1 / 8) ^ 2 := pow_le_pow_left₀ hx0 hx1 2
    norm_num at a2; linarith
  have hx2' : 0 ≤ x ^ 2 := sq_nonneg x
  have h1x : 7 / 8 ≤ 1 + x := by linarith
  have h1x' : 1 + x ≤ 9 / 8 := by linarith
  generalize hp : 1 - x / 2 + 3 * x ^ 2 / 8 = p at *
  have hp1 : 7 / 8 ≤ p := by rw [← hp]; linarith
  have hp2 : p ≤ 9 / 8 := by rw [← hp]; linarith
  have hpx : 3 / 4 ≤ p * (1 + x) := by
    have : (7 / 8 : ℚ) * (7 / 8) ≤ p * (1 + x) := mul_le_mul hp1 h1x (by norm_num) (by linarith)
    linarith
  have hx03 : 0 ≤ x0 ^ 3 := by positivity
  generalize x0 ^ 3 = y0 at *
  have hap : 0 < a * p := mul_pos ha (by linarith)
  have hap1 : a * (7 / 8) ≤ a * p := mul_le_mul_of_nonneg_left hp1 ha.le
  have h1x0 : 0 < 1 + x := by linarith
  have hac : 0 ≤ a * c := by positivity
  have hay : a * (4 * a * y0) ≤ a * c := mul_le_mul_of_nonneg_left hcx ha.le
  refine ⟨?_, ?_, ?_⟩
  · -- V2·(1+x) = a² ≤ (S+P)²·(1+x)
    have hu : a * p + c ≤ S + P := by linarith
    have hu2 : (a * p + c) ^ 2 ≤ (S + P) ^ 2 := pow_le_pow_left₀ (by positivity) hu 2
    have key : a ^ 2 ≤ (a * p + c) ^ 2 * (1 + x) := by
      have e : (a * p + c) ^ 2 * (1 + x) = a ^ 2 * (p ^ 2 * (1 + x)) + 2 * a * c * (p * (1 + x)) + c ^ 2 * (1 + x) := by ring
      rw [e]
      have g1 : a ^ 2 * (1 - y0) ≤ a ^ 2 * (p ^ 2 * (1 + x)) := mul_le_mul_of_nonneg_left t2 (by positivity)
      have g2 : 2 * a * c * (3 / 4) ≤ 2 * a * c * (p * (1 + x)) := mul_le_mul_of_nonneg_left hpx (by positivity)
      have g3 : 0 ≤ c ^ 2 * (1 + x) := by positivity
      have g4 : a ^ 2 * (1 - y0) = a ^ 2 - a * (4 * a * y0) / 4 := by ring
      have g5 : 2 * a * c * (3 / 4) = 3 / 2 * (a * c) := by ring
      linarith
    have : V2 * (1 + x) ≤ (S + P) ^ 2 * (1 + x) := by
      rw [hV]; exact le_trans key (mul_le_mul_of_nonneg_right hu2 h1x0.le)
    exact le_of_mul_le_mul_right this h1x0
  · linarith
  · have hS : P ≤ S := by linarith
    have hv0 : 0 ≤ S - P := by linarith
    have hv : S - P ≤ a * p - c := by linarith
    have hv2 : (S - P) ^ 2 ≤ (a * p - c) ^ 2 := pow_le_pow_left₀ hv0 hv 2
    have hcap : c ≤ a * p := by linarith
    have key : (a * p - c) ^ 2 * (1 + x) ≤ a ^ 2 := by
      have e : (a * p - c) ^ 2 * (1 + x) = a ^ 2 * (p ^ 2 * (1 + x)) - (2 * (a * p) * c - c ^ 2) * (1 + x) := by ring
      rw [e]
      have g1 : a ^ 2 * (p ^ 2 * (1 + x)) ≤ a ^ 2 * (1 + y0) := mul_le_mul_of_nonneg_left t1 (by positivity)
      have g2 : c * c ≤ (a * p) * c := mul_le_mul_of_nonneg_right hcap hc.le
      have h3 : (a * p) * c ≤ 2 * (a * p) * c - c ^ 2 := by
        have : c ^ 2 = c * c := by ring
        linarith
      have h4 : a * c * (3 / 4) ≤ (a * p) * c * (1 + x) := by
        have : a * c * (3 / 4) ≤ a * c * (p * (1 + x)) := mul_le_mul_of_nonneg_left hpx hac
        have e2 : (a * p) * c * (1 + x) = a * c * (p * (1 + x)) := by ring
        rw [e2]; exact this
      have h5 : (a * p) * c * (1 + x) ≤ (2 * (a * p) * c - c ^ 2) * (1 + x) := mul_le_mul_of_nonneg_right h3 h1x0.le
      have g4 : a ^ 2 * (1 + y0) = a ^ 2 + a * (4 * a * y0) / 4 := by ring
      linarith
    have : (S - P) ^ 2 * (1 + x) ≤ V2 * (1 + x) := by
      rw [hV]; exact le_trans (mul_le_mul_of_nonneg_right hv2 h1x0.le) key
    exact le_of_mul_le_mul_right this h1x0

/-- the second-order coefficient from the truncated top word: `t = (w + ⌊w/2⌋)·w` against `(3/2)·e²` -/
theorem t_bounds (e w h δ δ' : ℚ) (he : 0 ≤ e) (hw0 : 0 ≤ w) (hδ : 0 ≤ δ) (hh : 0 ≤ h) (hh1 : 2 * h ≤ w) (hh2 : w ≤ 2 * h + 1)
    (hwlo : e ≤ w + 1 + δ) (hwhi : w ≤ e + δ') :
    3 / 2 * e ^ 2 - (7 / 2 + 3 * δ) * e - 1 ≤ (w + h) * w ∧ (w + h) * w ≤ 3 / 2 * (e + δ') ^ 2 ∧ 0 ≤ (w + h) * w := by
  have hh0 : 0 ≤ w + h := by linarith
  refine ⟨?_, ?_, mul_nonneg hh0 hw0⟩
  · have g : 3 / 2 * w ^ 2 - w / 2 ≤ (w + h) * w := by nlinarith
    have : 0 ≤ 3 * e * (1 + δ - (e - w)) := by apply mul_nonneg (by positivity); linarith
    nlinarith [sq_nonneg ((e - w) + 1 / 6)]
  · have : (w + h) * w ≤ 3 / 2 * w ^ 2 := by nlinarith
    have : w ^ 2 ≤ (e + δ') ^ 2 := pow_le_pow_left₀ hw0 hwhi 2
    linarith

/-- the fixed-point sum, nonnegative `η` (`S = A00 − E·A1 + t·A1`) -/
theorem S_close_pos (a α X e δ E A1 A00 w h S : ℚ) (hδ : 0 ≤ δ) (hX : X = e * 2 ^ 64) (hδ1 : δ * 2 ^ 64 = 1)
    (he : 0 ≤ e) (hα : 1 ≤ α) (hE0 : 0 ≤ E) (hw0 : 0 ≤ w)
    (hE1 : E ≤ X) (hE2 : X ≤ E + 1) (hA1a : A1 ≤ α) (hA1b : α ≤ A1 + 1) (hA0a : A00 ≤ a) (hA0b : a ≤ A00 + 1)
    (hw1 : w * 2 ^ 64 ≤ E) (hw2 : E ≤ (w + 1) * 2 ^ 64) (hh : 0 ≤ h) (hh1 : 2 * h ≤ w) (hh2 : w ≤ 2 * h + 1)
    (hS : S = A00 - E * A1 + (w + h) * w * A1) :
    a - X * α + 3 / 2 * e ^ 2 * α - ((7 / 2 + 3 * δ) * e * α + 1 + X + α + 3 / 2 * e ^ 2) ≤ S ∧
    S ≤ a - X * α + 3 / 2 * e ^ 2 * α + (X + α) := by
  have hwlo : e ≤ w + 1 + δ := by nlinarith
  have hwhi : w ≤ e + 0 := by nlinarith
  obtain ⟨tb1, tb2, tb0⟩ := t_bounds e w h δ 0 he hw0 hδ hh hh1 hh2 hwlo hwhi
  rw [add_zero] at tb2
  generalize (w + h) * w = t at *
  have hA10 : 0 ≤ A1 := by linarith
  have hX0 : 0 ≤ X := by rw [hX]; positivity
  constructor
  · have h1 : E * A1 ≤ X * α := mul_le_mul hE1 hA1a hA10 hX0
    have h2 : t * (α - 1) ≤ t * A1 := mul_le_mul_of_nonneg_left (by linarith) tb0
    have h3 : (3 / 2 * e ^ 2 - (7 / 2 + 3 * δ) * e - 1) * (α - 1) ≤ t * (α - 1) :=
      mul_le_mul_of_nonneg_right tb1 (by linarith)
    have h4 : 0 ≤ (7 / 2 + 3 * δ) * e := by positivity
    nlinarith
  · have h1 : E * (α - 1) ≤ E * A1 := mul_le_mul_of_nonneg_left (by linarith) hE0
    have h2 : (X - 1) * (α - 1) ≤ E * (α - 1) := mul_le_mul_of_nonneg_right (by linarith) (by linarith)
    have h3 : t * A1 ≤ 3 / 2 * e ^ 2 * α := mul_le_mul tb2 hA1a hA10 (by positivity)
    nlinarith

/-- the fixed-point sum, negative `η` (`S = A00 + E·A1 + t·A1`) -/
theorem S_close_neg (a α X e δ E A1 A00 w h S : ℚ) (hδ : 0 ≤ δ) (hX : X = e * 2 ^ 64) (hδ1 : δ * 2 ^ 64 = 1)
    (he : 0 ≤ e) (hα : 1 ≤ α) (hE0 : 0 ≤ E) (hw0 : 0 ≤ w)
    (hE1 : X ≤ E) (hE2 : E ≤ X + 1) (hA1a : A1 ≤ α) (hA1b : α ≤ A1 + 1) (hA0a : A00 ≤ a) (hA0b : a ≤ A00 + 1)
    (hw1 : w * 2 ^ 64 ≤ E) (hw2 : E ≤ (w + 1) * 2 ^ 64) (hh : 0 ≤ h) (hh1 : 2 * h ≤ w) (hh2 : w ≤ 2 * h + 1)
    (hS : S = A00 + E * A1 + (w + h) * w * A1) :
    a + X * α + 3 / 2 * e ^ 2 * α - ((7 / 2 + 3 * δ) * e * α + 1 + X + α + 3 / 2 * e ^ 2) ≤ S ∧
    S ≤ a + X * α + 3 / 2 * e ^ 2 * α + (α + 3 / 2 * (2 * e * δ + δ ^ 2) * α) := by
  have hwlo : e ≤ w + 1 + δ := by nlinarith
  have hwhi : w ≤ e + δ := by nlinarith
  obtain ⟨tb1, tb2, tb0⟩ := t_bounds e w h δ δ he hw0 hδ hh hh1 hh2 hwlo hwhi
  generalize (w + h) * w = t at *
  have hA10 : 0 ≤ A1 := by linarith
  have hX0 : 0 ≤ X := by rw [hX]; positivity
  constructor
  · have h1 : X * (α - 1) ≤ E * A1 := mul_le_mul hE1 (by linarith) (by linarith) hE0
    have h2 : t * (α - 1) ≤ t * A1 := mul_le_mul_of_nonneg_left (by linarith) tb0
    have h3 : (3 / 2 * e ^ 2 - (7 / 2 + 3 * δ) * e - 1) * (α - 1) ≤ t * (α - 1) :=
      mul_le_mul_of_nonneg_right tb1 (by linarith)
    have h4 : 0 ≤ (7 / 2 + 3 * δ) * e := by positivity
    nlinarith
  · have h1 : E * A1 ≤ (X + 1) * α := mul_le_mul hE2 hA1a hA10 (by linarith)
    have h3 : t * A1 ≤ 3 / 2 * (e + δ) ^ 2 * α := mul_le_mul tb2 hA1a hA10 (by positivity)
    nlinarith

/-- comparing nonnegative rationals through their squares -/
theorem le_of_sq_le (u v : ℚ) (hv : 0 ≤ v) (h : u ^ 2 ≤ v ^ 2) : u ≤ v := by
  by_contra hh
  have : v < u := lt_of_not_ge hh
  nlinarith

/-- the dominant error term `(7/2)·|η|·a/2^65` is below `0.95·P`, from the bound on `|η|·√C` -/
theorem main_term (a z P C η0 Cmax sg : ℚ) (hz0 : 0 ≤ z) (hzη : z ≤ η0) (hP : 0 < P) (hC0 : 0 ≤ C) (hC : C ≤ Cmax)
    (hsg : sg = 1 ∨ sg = -1) (hz1 : z ≤ 1)
    (hV : 4 * P ^ 2 * C * (1 + sg * z) = a ^ 2) (ha : 0 ≤ a)
    (hnum : (7 / 2 + 3 / 2 ^ 64) ^ 2 * η0 ^ 2 * 4 * Cmax * (1 + η0) ≤ 9025 / 10000 * 2 ^ 130) :
    (7 / 2 + 3 / 2 ^ 64) * (z * 2 ^ 63) * (a / 2 ^ 128) ≤ 95 / 100 * P := by
  apply le_of_sq_le _ _ (by positivity)
  have hη0 : 0 ≤ η0 := le_trans hz0 hzη
  have e : ((7 / 2 + 3 / 2 ^ 64) * (z * 2 ^ 63) * (a / 2 ^ 128)) ^ 2 =
      ((7 / 2 + 3 / 2 ^ 64) ^ 2 * 4 / 2 ^ 130) * (z ^ 2 * (C * (1 + sg * z))) * P ^ 2 := by
    have : ((7 / 2 + 3 / 2 ^ 64) * (z * 2 ^ 63) * (a / 2 ^ 128)) ^ 2
        = (7 / 2 + 3 / 2 ^ 64) ^ 2 * z ^ 2 * (2 ^ 63) ^ 2 / (2 ^ 128) ^ 2 * a ^ 2 := by ring
    rw [this, ← hV]; ring
  rw [e]
  have h1 : z ^ 2 ≤ η0 ^ 2 := pow_le_pow_left₀ hz0 hzη 2
  have h2 : 1 + sg * z ≤ 1 + η0 := by rcases hsg with rfl | rfl <;> linarith
  have h2' : 0 ≤ 1 + sg * z := by rcases hsg with rfl | rfl <;> linarith
  have h3 : C * (1 + sg * z) ≤ Cmax * (1 + η0) := mul_le_mul hC h2 h2' (le_trans hC0 hC)
  have h4 : z ^ 2 * (C * (1 + sg * z)) ≤ η0 ^ 2 * (Cmax * (1 + η0)) :=
    mul_le_mul h1 h3 (mul_nonneg hC0 h2') (by positivity)
  have hK : (0 : ℚ) ≤ (7 / 2 + 3 / 2 ^ 64) ^ 2 * 4 / 2 ^ 130 := by positivity
  have h5 := mul_le_mul_of_nonneg_left h4 hK
  have h6 : ((7 / 2 + 3 / 2 ^ 64) ^ 2 * 4 / 2 ^ 130) * (η0 ^ 2 * (Cmax * (1 + η0))) ≤ 9025 / 10000 := by
    have : ((7 / 2 + 3 / 2 ^ 64) ^ 2 * 4 / 2 ^ 130) * (η0 ^ 2 * (Cmax * (1 + η0)))
        = ((7 / 2 + 3 / 2 ^ 64) ^ 2 * η0 ^ 2 * 4 * Cmax * (1 + η0)) / 2 ^ 130 := by ring
    rw [this, div_le_iff₀ (by positivity)]
    exact hnum
  have hP2 : 0 ≤ P ^ 2 := by positivity
  calc _ ≤ (9025 / 10000) * P ^ 2 := mul_le_mul_of_nonneg_right (le_trans h5 h6) hP2
    _ = (95 / 100 * P) ^ 2 := by ring


/-- **the bracket, `η ≥ 0`** (all quantities rational): `(S − P)² ≤ 4P²C ≤ (S + P)²` -/
theorem bracket_pos (a z P C S E A1 A00 w h η0 Cmax : ℚ)
    (hz0 : 0 ≤ z) (hzη : z ≤ η0) (hη0 : η0 ≤ 1 / 2 ^ 50) (hP1 : 2 ^ 97 ≤ P) (hP2 : P ≤ 2 ^ 100)
    (ha1 : 2 ^ 206 ≤ a) (ha2 : a ≤ 2 ^ 215) (hC0 : 0 ≤ C) (hC : C ≤ Cmax)
    (hV : 4 * P ^ 2 * C * (1 + 1 * z) = a ^ 2)
    (hnum : (7 / 2 + 3 / 2 ^ 64) ^ 2 * η0 ^ 2 * 4 * Cmax * (1 + η0) ≤ 9025 / 10000 * 2 ^ 130)
    (hE0 : 0 ≤ E) (hw0 : 0 ≤ w) (hh : 0 ≤ h)
    (hE1 : E ≤ z * 2 ^ 127) (hE2 : z * 2 ^ 127 ≤ E + 1) (hA1a : A1 ≤ a / 2 ^ 128) (hA1b : a / 2 ^ 128 ≤ A1 + 1)
    (hA0a : A00 ≤ a) (hA0b : a ≤ A00 + 1)
    (hw1 : w * 2 ^ 64 ≤ E) (hw2 : E ≤ (w + 1) * 2 ^ 64) (hh1 : 2 * h ≤ w) (hh2 : w ≤ 2 * h + 1)
    (hS : S = A00 - E * A1 + (w + h) * w * A1) :
    4 * P ^ 2 * C ≤ (S + P) ^ 2 ∧ P ≤ S ∧ (S - P) ^ 2 ≤ 4 * P ^ 2 * C := by
  have hz50 : z ≤ 1 / 2 ^ 50 := le_trans hzη hη0
  have hP0 : 0 < P := by linarith
  have ha0 : 0 < a := by linarith
  obtain ⟨lo, hi⟩ := S_close_pos a (a / 2 ^ 128) (z * 2 ^ 127) (z * 2 ^ 63) (1 / 2 ^ 64) E A1 A00 w h S (by norm_num)
    (by ring) (by norm_num) (by positivity) (by rw [le_div_iff₀ (by norm_num)]; linarith) hE0 hw0 hE1 hE2 hA1a hA1b hA0a hA0b
    hw1 hw2 hh hh1 hh2 hS
  have hm := main_term a z P C η0 Cmax 1 hz0 hzη hP0 hC0 hC (Or.inl rfl) (by linarith) hV ha0.le hnum
  have hid : a - z * 2 ^ 127 * (a / 2 ^ 128) + 3 / 2 * (z * 2 ^ 63) ^ 2 * (a / 2 ^ 128)
      = a * (1 - z / 2 + 3 * z ^ 2 / 8) := by ring
  rw [hid] at lo hi
  have he1 : z * 2 ^ 63 ≤ 2 ^ 13 := by linarith
  have he2 : (z * 2 ^ 63) ^ 2 ≤ (2 ^ 13) ^ 2 := pow_le_pow_left₀ (by positivity) he1 2
  have hα2 : a / 2 ^ 128 ≤ 2 ^ 87 := by rw [div_le_iff₀ (by norm_num)]; linarith
  have hm' : (7 / 2 + 3 * (1 / 2 ^ 64)) * (z * 2 ^ 63) * (a / 2 ^ 128) ≤ 95 / 100 * P := by
    have : (7 / 2 + 3 * (1 / 2 ^ 64) : ℚ) = 7 / 2 + 3 / 2 ^ 64 := by ring
    rw [this]; exact hm
  have hV' : 4 * P ^ 2 * C * (1 + z) = a ^ 2 := by rw [← hV]; ring
  refine taylor_close a z (1 / 2 ^ 50) (4 * P ^ 2 * C) S P (P / 100) ha0 (by norm_num) (by norm_num) (by linarith) hz50
    hV' hP0 (by linarith) (by linarith) (by linarith) ?_ ?_ ?_
  · norm_num; linarith
  · norm_num at he2 ⊢; linarith
  · norm_num at he2 ⊢; linarith

/-- **the bracket, `η < 0`** -/
theorem bracket_neg (a z P C S E A1 A00 w h η0 Cmax : ℚ)
    (hz0 : 0 ≤ z) (hzη : z ≤ η0) (hη0 : η0 ≤ 1 / 2 ^ 50) (hP1 : 2 ^ 97 ≤ P) (hP2 : P ≤ 2 ^ 100)
    (ha1 : 2 ^ 206 ≤ a) (ha2 : a ≤ 2 ^ 215) (hC0 : 0 ≤ C) (hC : C ≤ Cmax)
    (hV : 4 * P ^ 2 * C * (1 + (-1) * z) = a ^ 2)
    (hnum : (7 / 2 + 3 / 2 ^ 64) ^ 2 * η0 ^ 2 * 4 * Cmax * (1 + η0) ≤ 9025 / 10000 * 2 ^ 130)
    (hE0 : 0 ≤ E) (hw0 : 0 ≤ w) (hh : 0 ≤ h)
    (hE1 : z * 2 ^ 127 ≤ E) (hE2 : E ≤ z * 2 ^ 127 + 1) (hA1a : A1 ≤ a / 2 ^ 128) (hA1b : a / 2 ^ 128 ≤ A1 + 1)
    (hA0a : A00 ≤ a) (hA0b : a ≤ A00 + 1)
    (hw1 : w * 2 ^ 64 ≤ E) (hw2 : E ≤ (w + 1) * 2 ^ 64) (hh1 : 2 * h ≤ w) (hh2 : w ≤ 2 * h + 1)
    (hS : S = A00 + E * A1 + (w + h) * w * A1) :
    4 * P ^ 2 * C ≤ (S + P) ^ 2 ∧ P ≤ S ∧ (S - P) ^ 2 ≤ 4 * P ^ 2 * C := by
  have hz50 : z ≤ 1 / 2 ^ 50 := le_trans hzη hη0
  have hP0 : 0 < P := by linarith
  have ha0 : 0 < a := by linarith
  obtain ⟨lo, hi⟩ := S_close_neg a (a / 2 ^ 128) (z * 2 ^ 127) (z * 2 ^ 63) (1 / 2 ^ 64) E A1 A00 w h S (by norm_num)
    (by ring) (by norm_num) (by positivity) (by rw [le_div_iff₀ (by norm_num)]; linarith) hE0 hw0 hE1 hE2 hA1a hA1b hA0a hA0b
    hw1 hw2 hh hh1 hh2 hS
  have hm := main_term a z P C η0 Cmax (-1) hz0 hzη hP0 hC0 hC (Or.inr rfl) (by linarith) hV ha0.le hnum
  have hid : a + z * 2 ^ 127 * (a / 2 ^ 128) + 3 / 2 * (z * 2 ^ 63) ^ 2 * (a / 2 ^ 128)
      = a * (1 - (-z) / 2 + 3 * (-z) ^ 2 / 8) := by ring
  rw [hid] at lo hi
  have he1 : z * 2 ^ 63 ≤ 2 ^ 13 := by linarith
  have he2 : (z * 2 ^ 63) ^ 2 ≤ (2 ^ 13) ^ 2 := pow_le_pow_left₀ (by positivity) he1 2
  have hα2 : a / 2 ^ 128 ≤ 2 ^ 87 := by rw [div_le_iff₀ (by norm_num)]; linarith
  have hα0 : 0 ≤ a / 2 ^ 128 := by positivity
  have hm' : (7 / 2 + 3 * (1 / 2 ^ 64)) * (z * 2 ^ 63) * (a / 2 ^ 128) ≤ 95 / 100 * P := by
    have : (7 / 2 + 3 * (1 / 2 ^ 64) : ℚ) = 7 / 2 + 3 / 2 ^ 64 := by ring
    rw [this]; exact hm
  have hd2 : 3 / 2 * (2 * (z * 2 ^ 63) * (1 / 2 ^ 64) + (1 / 2 ^ 64) ^ 2) * (a / 2 ^ 128) ≤ a / 2 ^ 128 := by
    have : 3 / 2 * (2 * (z * 2 ^ 63) * (1 / 2 ^ 64) + (1 / 2 ^ 64) ^ 2) ≤ (1 : ℚ) := by norm_num; linarith
    calc _ ≤ 1 * (a / 2 ^ 128) := mul_le_mul_of_nonneg_right this hα0
      _ = _ := one_mul _
  have hV' : 4 * P ^ 2 * C * (1 + -z) = a ^ 2 := by rw [← hV]; ring
  refine taylor_close a (-z) (1 / 2 ^ 50) (4 * P ^ 2 * C) S P (P / 100) ha0 (by norm_num) (by norm_num) (by linarith)
    (by linarith [show (0 : ℚ) ≤ 1 / 2 ^ 50 by positivity]) hV' hP0 (by linarith) (by linarith) (by linarith) ?_ ?_ ?_
  · norm_num; linarith
  · norm_num at he2 ⊢; linarith
  · norm_num at he2 ⊢; linarith

/-! ## 7. From the natural numbers to ℚ and back -/


/-- a floor division, over ℚ -/
theorem div_q (n d : Nat) (hd : 0 < d) : ((n / d : Nat) : ℚ) * d ≤ n ∧ (n : ℚ) ≤ (((n / d : Nat) : ℚ) + 1) * d := by
  have h1 := Nat.div_add_mod n d
  have h2 := Nat.mod_lt n hd
  constructor
  · have : n / d * d ≤ n := Nat.div_mul_le_self n d
    exact_mod_cast this
  · have : n ≤ (n / d + 1) * d := by
      rw [Nat.add_mul, Nat.mul_comm (n / d) d]; omega
    exact_mod_cast this

/-- a ceiling division, over ℚ -/
theorem cdiv_q (y d : Nat) (hd : 0 < d) : (y : ℚ) ≤ (((y + d - 1) / d : Nat) : ℚ) * d ∧
    (((y + d - 1) / d : Nat) : ℚ) * d ≤ (y : ℚ) + d := by
  have h1 := Nat.div_add_mod (y + d - 1) d
  have h2 := Nat.mod_lt (y + d - 1) hd
  generalize (y + d - 1) / d = q at *
  generalize (y + d - 1) % d = r at *
  constructor
  · have : y ≤ q * d := by rw [Nat.mul_comm]; omega
    exact_mod_cast this
  · have : q * d ≤ y + d := by rw [Nat.mul_comm]; omega
    exact_mod_cast this

/-- from the rational bracket to the two integer inequalities about `s = ⌊√C⌋` -/
theorem bracket_nat (S P C s : Nat) (hP : 0 < P) (hs1 : s * s ≤ C) (hs2 : C < (s + 1) * (s + 1))
    (h : 4 * (P : ℚ) ^ 2 * C ≤ ((S : ℚ) + P) ^ 2 ∧ (P : ℚ) ≤ S ∧ ((S : ℚ) - P) ^ 2 ≤ 4 * (P : ℚ) ^ 2 * C) :
    2 * s * P ≤ S + P ∧ S < (2 * s + 3) * P := by
  obtain ⟨b1, b2, b3⟩ := h
  have hPq : (0 : ℚ) < P := by exact_mod_cast hP
  have q1 : ((s : ℚ)) * s ≤ C := by exact_mod_cast hs1
  have q2 : (C : ℚ) + 1 ≤ ((s : ℚ) + 1) * (s + 1) := by exact_mod_cast hs2
  constructor
  · have : (2 * (s : ℚ) * P) ≤ (S : ℚ) + P := by
      apply le_of_sq_le _ _ (by positivity)
      have : (2 * (s : ℚ) * P) ^ 2 = 4 * (P : ℚ) ^ 2 * ((s : ℚ) * s) := by ring
      rw [this]
      exact le_trans (mul_le_mul_of_nonneg_left q1 (by positivity)) b1
    exact_mod_cast this
  · have : (S : ℚ) < (2 * (s : ℚ) + 3) * P := by
      by_contra hh
      have hge : (2 * (s : ℚ) + 2) * P ≤ (S : ℚ) - P := by linarith [not_lt.1 hh]
      have : ((2 * (s : ℚ) + 2) * P) ^ 2 ≤ ((S : ℚ) - P) ^ 2 := pow_le_pow_left₀ (by positivity) hge 2
      have e : ((2 * (s : ℚ) + 2) * P) ^ 2 = 4 * (P : ℚ) ^ 2 * (((s : ℚ) + 1) * (s + 1)) := by ring
      rw [e] at this
      have hP2 : (0 : ℚ) < 4 * (P : ℚ) ^ 2 := by positivity
      have : 4 * (P : ℚ) ^ 2 * ((C : ℚ) + 1) ≤ 4 * (P : ℚ) ^ 2 * C :=
        le_trans (mul_le_mul_of_nonneg_left q2 hP2.le) (le_trans this b3)
      nlinarith
    exact_mod_cast this





/-- halving, over ℚ -/
theorem half_q (w : Nat) : 2 * ((w / 2 : Nat) : ℚ) ≤ w ∧ (w : ℚ) ≤ 2 * ((w / 2 : Nat) : ℚ) + 1 := by
  constructor
  · have : 2 * (w / 2) ≤ w := by omega
    exact_mod_cast this
  · have : w ≤ 2 * (w / 2) + 1 := by omega
    exact_mod_cast this

/-- the numeric side conditions of the two regimes -/
theorem regime_num (cc Cmax : Nat) (hccC : (cc = 4420 ∧ Cmax = 10 ^ 68) ∨ (cc = 5001 ∧ Cmax = 2 ^ 225 + 2 ^ 175)) :
    ((cc : ℚ) / (2 ^ 53 * 1000)) ≤ 1 / 2 ^ 50 ∧
    (7 / 2 + 3 / 2 ^ 64) ^ 2 * ((cc : ℚ) / (2 ^ 53 * 1000)) ^ 2 * 4 * (Cmax : ℚ) * (1 + (cc : ℚ) / (2 ^ 53 * 1000))
      ≤ 9025 / 10000 * 2 ^ 130 := by
  rcases hccC with ⟨rfl, rfl⟩ | ⟨rfl, rfl⟩ <;> constructor <;> norm_num

/-- sizes of `a = MY·C/2^64` -/
theorem a_size (MY C : Nat) (my1 : 2 ^ 52 ≤ MY) (my2 : MY < 2 ^ 53) (hC1 : 10 ^ 66 ≤ C) (hC2 : C < 10 ^ 68) :
    (2 : ℚ) ^ 206 ≤ ((MY * C : Nat) : ℚ) / 2 ^ 64 ∧ ((MY * C : Nat) : ℚ) / 2 ^ 64 ≤ 2 ^ 215 := by
  have h1 : 2 ^ 52 * 10 ^ 66 ≤ MY * C := Nat.mul_le_mul my1 hC1
  have h2 : MY * C ≤ 2 ^ 53 * 10 ^ 68 := Nat.mul_le_mul (by omega) (by omega)
  have h1' : 2 ^ 206 * 2 ^ 64 ≤ MY * C := le_trans (by norm_num) h1
  have h2' : MY * C ≤ 2 ^ 215 * 2 ^ 64 := le_trans h2 (by norm_num)
  constructor
  · rw [le_div_iff₀ (by positivity)]; exact_mod_cast h1'
  · rw [div_le_iff₀ (by positivity)]; exact_mod_cast h2'

/-- **the fixed-point mathematics, `η ≥ 0`** -/
theorem long_math_pos (MY C cc P Cmax s : Nat) (my1 : 2 ^ 52 ≤ MY) (my2 : MY < 2 ^ 53)
    (hP1 : 2 ^ 97 ≤ P) (hP2 : P ≤ 2 ^ 100) (hC1 : 10 ^ 66 ≤ C) (hC2 : C < 10 ^ 68)
    (hccC : (cc = 4420 ∧ Cmax = 10 ^ 68) ∨ (cc = 5001 ∧ Cmax = 2 ^ 225 + 2 ^ 175)) (hCm : C ≤ Cmax)
    (hBN : 2 ^ 130 * (P * P) ≤ MY * (MY * C))
    (hhi : 2 ^ 53 * 1000 * (MY * (MY * C)) ≤ (2 ^ 53 * 1000 + cc) * (2 ^ 130 * (P * P)))
    (hs1 : s * s ≤ C) (hs2 : C < (s + 1) * (s + 1)) (E w S : Nat)
    (hE : E = (MY * (MY * C) - 2 ^ 130 * (P * P)) / (8 * (P * P))) (hw : w = E / 2 ^ 64)
    (hS : S = MY * C / 2 ^ 64 - E * (MY * C / 2 ^ 192) + (w + w / 2) * w * (MY * C / 2 ^ 192)) :
    2 * s * P ≤ S + P ∧ S < (2 * s + 3) * P := by
  have hP0 : 0 < P := by omega
  have hPP : 0 < 8 * (P * P) := by positivity
  obtain ⟨num1, num2⟩ := regime_num cc Cmax hccC
  obtain ⟨as1, as2⟩ := a_size MY C my1 my2 hC1 hC2
  obtain ⟨e1, e2⟩ := div_q (MY * (MY * C) - 2 ^ 130 * (P * P)) (8 * (P * P)) hPP
  obtain ⟨f1, f2⟩ := div_q (MY * C) (2 ^ 192) (by positivity)
  obtain ⟨g1, g2⟩ := div_q (MY * C) (2 ^ 64) (by positivity)
  obtain ⟨w1, w2⟩ := div_q E (2 ^ 64) (by positivity)
  obtain ⟨k1, k2⟩ := half_q w
  rw [← hE] at e1 e2
  rw [← hw] at w1 w2
  obtain ⟨A1, hA1⟩ : ∃ A1, A1 = MY * C / 2 ^ 192 := ⟨_, rfl⟩
  obtain ⟨A00, hA00⟩ : ∃ A00, A00 = MY * C / 2 ^ 64 := ⟨_, rfl⟩
  obtain ⟨h, hh⟩ : ∃ h, h = w / 2 := ⟨_, rfl⟩
  rw [← hA1] at f1 f2 hS
  rw [← hA00] at g1 g2 hS
  rw [← hh] at k1 k2 hS
  rw [Nat.cast_sub hBN] at e1 e2
  push_cast at e1 e2 f1 f2 g1 g2 w1 w2 k1 k2 as1 as2
  have hPq : (0 : ℚ) < P := by exact_mod_cast hP0
  have hb0 : (0 : ℚ) < 2 ^ 130 * ((P : ℚ) * P) := by positivity
  have hBNq : (2 : ℚ) ^ 130 * ((P : ℚ) * P) ≤ (MY : ℚ) * (MY * C) := by exact_mod_cast hBN
  have hhiq : (2 : ℚ) ^ 53 * 1000 * ((MY : ℚ) * (MY * C)) ≤ (2 ^ 53 * 1000 + cc) * (2 ^ 130 * ((P : ℚ) * P)) := by
    exact_mod_cast hhi
  obtain ⟨z, hz⟩ : ∃ z : ℚ, z = ((MY : ℚ) * (MY * C) - 2 ^ 130 * ((P : ℚ) * P)) / (2 ^ 130 * ((P : ℚ) * P)) := ⟨_, rfl⟩
  have hzb : z * (2 ^ 130 * ((P : ℚ) * P)) = (MY : ℚ) * (MY * C) - 2 ^ 130 * ((P : ℚ) * P) := by
    rw [hz]; field_simp
  have hz0 : 0 ≤ z := by rw [hz]; apply div_nonneg (by linarith) hb0.le
  have hzη : z ≤ (cc : ℚ) / (2 ^ 53 * 1000) := by
    rw [le_div_iff₀ (by positivity)]
    have : z * (2 ^ 53 * 1000) * (2 ^ 130 * ((P : ℚ) * P)) ≤ (cc : ℚ) * (2 ^ 130 * ((P : ℚ) * P)) := by
      calc z * (2 ^ 53 * 1000) * (2 ^ 130 * ((P : ℚ) * P)) = (2 ^ 53 * 1000) * (z * (2 ^ 130 * ((P : ℚ) * P))) := by ring
        _ = _ := by rw [hzb]
        _ ≤ _ := by linarith
    exact le_of_mul_le_mul_right this hb0
  have hzX : z * 2 ^ 127 * (8 * ((P : ℚ) * P)) = (MY : ℚ) * (MY * C) - 2 ^ 130 * ((P : ℚ) * P) := by
    rw [← hzb]; ring
  have hPP8 : (0 : ℚ) < 8 * ((P : ℚ) * P) := by positivity
  have hV : 4 * (P : ℚ) ^ 2 * C * (1 + 1 * z) = (((MY : ℚ) * C) / 2 ^ 64) ^ 2 := by
    have : (1 + 1 * z) * (2 ^ 130 * ((P : ℚ) * P)) = (MY : ℚ) * (MY * C) := by rw [add_mul, one_mul, one_mul, hzb]; ring
    have h2 : 4 * (P : ℚ) ^ 2 * C * (1 + 1 * z) * (2 ^ 130 * ((P : ℚ) * P))
        = (((MY : ℚ) * C) / 2 ^ 64) ^ 2 * (2 ^ 130 * ((P : ℚ) * P)) := by
      rw [mul_assoc (4 * (P : ℚ) ^ 2 * C), this]; ring
    exact mul_right_cancel₀ hb0.ne' h2
  have hEA : (E : ℚ) * A1 ≤ (A00 : ℚ) := by
    have hE1 : (E : ℚ) ≤ z * 2 ^ 127 := by
      apply le_of_mul_le_mul_right _ hPP8; rw [hzX]; exact e1
    have hz50 : z ≤ 1 / 2 ^ 50 := le_trans hzη num1
    have : (E : ℚ) * A1 ≤ 2 ^ 77 * ((MY : ℚ) * C / 2 ^ 192) :=
      mul_le_mul (by linarith) (by rw [le_div_iff₀ (by positivity)]; exact f1) (by positivity) (by positivity)
    have h3 : (MY : ℚ) * C ≤ ((A00 : ℚ) + 1) * 2 ^ 64 := g2
    have : (2 : ℚ) ^ 77 * ((MY : ℚ) * C / 2 ^ 192) = (MY : ℚ) * C / 2 ^ 115 := by ring
    have h4 : (2 : ℚ) ^ 206 * 2 ^ 64 ≤ (MY : ℚ) * C := by rw [← le_div_iff₀ (by positivity)]; exact as1
    have h5 : (MY : ℚ) * C / 2 ^ 115 ≤ (MY : ℚ) * C / 2 ^ 64 - 1 := by
      rw [div_le_iff₀ (by positivity)]
      have : ((MY : ℚ) * C / 2 ^ 64 - 1) * 2 ^ 115 = (MY : ℚ) * C * 2 ^ 51 - 2 ^ 115 := by ring
      rw [this]; nlinarith
    have h6 : (MY : ℚ) * C / 2 ^ 64 - 1 ≤ A00 := by
      rw [sub_le_iff_le_add, div_le_iff₀ (by positivity)]; exact h3
    linarith
  have hEAn : E * A1 ≤ A00 := by exact_mod_cast hEA
  have hSq : (S : ℚ) = (A00 : ℚ) - E * A1 + ((w : ℚ) + h) * w * A1 := by
    rw [hS]; push_cast [Nat.cast_sub hEAn]; ring
  have hbr := bracket_pos ((MY : ℚ) * C / 2 ^ 64) z P C S E A1 A00 w h ((cc : ℚ) / (2 ^ 53 * 1000)) Cmax
    hz0 hzη num1 (by exact_mod_cast hP1) (by exact_mod_cast hP2) as1 as2 (by positivity) (by exact_mod_cast hCm)
    hV num2 (by positivity) (by positivity) (by positivity)
    (by apply le_of_mul_le_mul_right _ hPP8; rw [hzX]; exact e1)
    (by apply le_of_mul_le_mul_right _ hPP8; rw [hzX]; exact e2)
    (by rw [show (MY : ℚ) * C / 2 ^ 64 / 2 ^ 128 = (MY : ℚ) * C / 2 ^ 192 by ring, le_div_iff₀ (by positivity)]; exact f1)
    (by rw [show (MY : ℚ) * C / 2 ^ 64 / 2 ^ 128 = (MY : ℚ) * C / 2 ^ 192 by ring, div_le_iff₀ (by positivity)]; exact f2)
    (by rw [le_div_iff₀ (by positivity)]; exact g1) (by rw [div_le_iff₀ (by positivity)]; exact g2)
    w1 w2 k1 k2 hSq
  exact bracket_nat S P C s hP0 hs1 hs2 hbr

/-- **the fixed-point mathematics, `η < 0`** -/
theorem long_math_neg (MY C cc P Cmax s : Nat) (my1 : 2 ^ 52 ≤ MY) (my2 : MY < 2 ^ 53)
    (hP1 : 2 ^ 97 ≤ P) (hP2 : P ≤ 2 ^ 100) (hC1 : 10 ^ 66 ≤ C) (hC2 : C < 10 ^ 68)
    (hccC : (cc = 4420 ∧ Cmax = 10 ^ 68) ∨ (cc = 5001 ∧ Cmax = 2 ^ 225 + 2 ^ 175)) (hCm : C ≤ Cmax)
    (hNB : MY * (MY * C) < 2 ^ 130 * (P * P))
    (hlo : 2 ^ 53 * 1000 * (2 ^ 130 * (P * P)) ≤ 2 ^ 53 * 1000 * (MY * (MY * C)) + cc * (2 ^ 130 * (P * P)))
    (hs1 : s * s ≤ C) (hs2 : C < (s + 1) * (s + 1)) (E w S : Nat)
    (hE : E = (2 ^ 130 * (P * P) - MY * (MY * C) + 8 * (P * P) - 1) / (8 * (P * P))) (hw : w = E / 2 ^ 64)
    (hS : S = MY * C / 2 ^ 64 + E * (MY * C / 2 ^ 192) + (w + w / 2) * w * (MY * C / 2 ^ 192)) :
    2 * s * P ≤ S + P ∧ S < (2 * s + 3) * P := by
  have hP0 : 0 < P := by omega
  have hPP : 0 < 8 * (P * P) := by positivity
  obtain ⟨num1, num2⟩ := regime_num cc Cmax hccC
  obtain ⟨as1, as2⟩ := a_size MY C my1 my2 hC1 hC2
  obtain ⟨e1, e2⟩ := cdiv_q (2 ^ 130 * (P * P) - MY * (MY * C)) (8 * (P * P)) hPP
  obtain ⟨f1, f2⟩ := div_q (MY * C) (2 ^ 192) (by positivity)
  obtain ⟨g1, g2⟩ := div_q (MY * C) (2 ^ 64) (by positivity)
  obtain ⟨w1, w2⟩ := div_q E (2 ^ 64) (by positivity)
  obtain ⟨k1, k2⟩ := half_q w
  rw [← hE] at e1 e2
  rw [← hw] at w1 w2
  obtain ⟨A1, hA1⟩ : ∃ A1, A1 = MY * C / 2 ^ 192 := ⟨_, rfl⟩
  obtain ⟨A00, hA00⟩ : ∃ A00, A00 = MY * C / 2 ^ 64 := ⟨_, rfl⟩
  obtain ⟨h, hh⟩ : ∃ h, h = w / 2 := ⟨_, rfl⟩
  rw [← hA1] at f1 f2 hS
  rw [← hA00] at g1 g2 hS
  rw [← hh] at k1 k2 hS
  rw [Nat.cast_sub (le_of_lt hNB)] at e1 e2
  push_cast at e1 e2 f1 f2 g1 g2 w1 w2 k1 k2 as1 as2
  have hPq : (0 : ℚ) < P := by exact_mod_cast hP0
  have hb0 : (0 : ℚ) < 2 ^ 130 * ((P : ℚ) * P) := by positivity
  have hNBq : (MY : ℚ) * (MY * C) ≤ (2 : ℚ) ^ 130 * ((P : ℚ) * P) := by exact_mod_cast (le_of_lt hNB)
  have hloq : (2 : ℚ) ^ 53 * 1000 * (2 ^ 130 * ((P : ℚ) * P)) ≤
      2 ^ 53 * 1000 * ((MY : ℚ) * (MY * C)) + cc * (2 ^ 130 * ((P : ℚ) * P)) := by exact_mod_cast hlo
  obtain ⟨z, hz⟩ : ∃ z : ℚ, z = (2 ^ 130 * ((P : ℚ) * P) - (MY : ℚ) * (MY * C)) / (2 ^ 130 * ((P : ℚ) * P)) := ⟨_, rfl⟩
  have hzb : z * (2 ^ 130 * ((P : ℚ) * P)) = 2 ^ 130 * ((P : ℚ) * P) - (MY : ℚ) * (MY * C) := by
    rw [hz]; field_simp
  have hz0 : 0 ≤ z := by rw [hz]; apply div_nonneg (by linarith) hb0.le
  have hzη : z ≤ (cc : ℚ) / (2 ^ 53 * 1000) := by
    rw [le_div_iff₀ (by positivity)]
    have : z * (2 ^ 53 * 1000) * (2 ^ 130 * ((P : ℚ) * P)) ≤ (cc : ℚ) * (2 ^ 130 * ((P : ℚ) * P)) := by
      calc z * (2 ^ 53 * 1000) * (2 ^ 130 * ((P : ℚ) * P)) = (2 ^ 53 * 1000) * (z * (2 ^ 130 * ((P : ℚ) * P))) := by ring
        _ = _ := by rw [hzb]
        _ ≤ _ := by linarith
    exact le_of_mul_le_mul_right this hb0
  have hzX : z * 2 ^ 127 * (8 * ((P : ℚ) * P)) = 2 ^ 130 * ((P : ℚ) * P) - (MY : ℚ) * (MY * C) := by
    rw [← hzb]; ring
  have hPP8 : (0 : ℚ) < 8 * ((P : ℚ) * P) := by positivity
  have hV : 4 * (P : ℚ) ^ 2 * C * (1 + (-1) * z) = (((MY : ℚ) * C) / 2 ^ 64) ^ 2 := by
    have : (1 + (-1) * z) * (2 ^ 130 * ((P : ℚ) * P)) = (MY : ℚ) * (MY * C) := by
      rw [add_mul, one_mul, mul_assoc, hzb]; ring
    have h2 : 4 * (P : ℚ) ^ 2 * C * (1 + (-1) * z) * (2 ^ 130 * ((P : ℚ) * P))
        = (((MY : ℚ) * C) / 2 ^ 64) ^ 2 * (2 ^ 130 * ((P : ℚ) * P)) := by
      rw [mul_assoc (4 * (P : ℚ) ^ 2 * C), this]; ring
    exact mul_right_cancel₀ hb0.ne' h2
  have hSq : (S : ℚ) = (A00 : ℚ) + E * A1 + ((w : ℚ) + h) * w * A1 := by
    rw [hS]; push_cast; ring
  have hbr := bracket_neg ((MY : ℚ) * C / 2 ^ 64) z P C S E A1 A00 w h ((cc : ℚ) / (2 ^ 53 * 1000)) Cmax
    hz0 hzη num1 (by exact_mod_cast hP1) (by exact_mod_cast hP2) as1 as2 (by positivity) (by exact_mod_cast hCm)
    hV num2 (by positivity) (by positivity) (by positivity)
    (by apply le_of_mul_le_mul_right _ hPP8; rw [hzX]; exact e1)
    (by apply le_of_mul_le_mul_right _ hPP8; rw [add_mul, one_mul, hzX]; exact e2)
    (by rw [show (MY : ℚ) * C / 2 ^ 64 / 2 ^ 128 = (MY : ℚ) * C / 2 ^ 192 by ring, le_div_iff₀ (by positivity)]; exact f1)
    (by rw [show (MY : ℚ) * C / 2 ^ 64 / 2 ^ 128 = (MY : ℚ) * C / 2 ^ 192 by ring, div_le_iff₀ (by positivity)]; exact f2)
    (by rw [le_div_iff₀ (by positivity)]; exact g1) (by rw [div_le_iff₀ (by positivity)]; exact g2)
    w1 w2 k1 k2 hSq
  exact bracket_nat S P C s hP0 hs1 hs2 hbr

/-! ## 8. Assembly: `LongOK`, and the square root without hypotheses -/

/-- the bound on `η` in the cruder form `long_words` asks for (`|η| ≤ 2^-40`) -/
theorem eta40 (N B cc : Nat) (hcc : cc ≤ 5001)
    (hlo : 2 ^ 53 * 1000 * B ≤ 2 ^ 53 * 1000 * N + cc * B) (hhi : 2 ^ 53 * 1000 * N ≤ (2 ^ 53 * 1000 + cc) * B) :
    2 ^ 40 * N ≤ (2 ^ 40 + 1) * B ∧ (2 ^ 40 - 1) * B ≤ 2 ^ 40 * N := by
  have h1 : cc * B ≤ 5001 * B := Nat.mul_le_mul_right _ hcc
  rw [Nat.add_mul] at hhi
  generalize cc * B = T at *
  constructor <;> omega

/-- rounding to nearest of a quotient bracketed around `2s` -/
theorem round_half (S P s : Nat) (hP : 0 < P) (h1 : 2 * s * P ≤ S + P) (h2 : S < (2 * s + 3) * P) :
    (S / P + 1) / 2 = s ∨ (S / P + 1) / 2 = s + 1 := by
  have a := Nat.div_mul_le_self S P
  have b : S < (S / P + 1) * P := by
    rw [Nat.add_mul, Nat.one_mul]; exact Nat.lt_div_mul_add hP
  generalize S / P = q at *
  have c1 : 2 * s * P < (q + 2) * P := by
    have : (q + 2) * P = (q + 1) * P + P := by ring
    omega
  have c2 : q * P < (2 * s + 3) * P := lt_of_le_of_lt a h2
  have d1 := Nat.lt_of_mul_lt_mul_right c1
  have d2 := Nat.lt_of_mul_lt_mul_right c2
  omega

/-- **`LongOK`**: for every `10^66 ≤ C < 10^68` the translated `bid_long_sqrt128` does not fail and returns `⌊√C⌋` or
`⌊√C⌋ + 1` — the one hypothesis `C01GenSqrt` left open.  In particular it never returns `⌊√C⌋ − 1` or less, so the
mistyped carry line of `bid128_sqrt`'s directed-rounding tail (finding 1 of `C01GenSqrt`) is unreachable. -/
theorem long_ok (C : Nat) (hC1 : 10 ^ 66 ≤ C) (hC2 : C < 10 ^ 68) : LongOK C := by
  intro CS0 C256 hCv
  subst hCv
  obtain ⟨t1, t2, l2, lx1, l1, lx2, lx3, ls, ly, MY, ey, cc, ht1, ht2, hl2, hlx1, hl1, hlx2, hlx3, hsq, hdiv, my1, my2,
    hey1, hey2, hbits, hcc, hlo, hhi⟩ := long_float C256 hC1 hC2
  have hcc5 : cc ≤ 5001 := by rcases hcc with rfl | ⟨rfl, _⟩ <;> norm_num
  rw [Nat.mul_assoc MY MY] at hlo hhi
  obtain ⟨hη1, hη2⟩ := eta40 _ _ cc hcc5 hlo hhi
  obtain ⟨r, hr, hrv⟩ := long_words CS0 C256 ⟨0x47f0000000000000⟩ t1 t2 l2 lx1 l1 lx2 lx3 ls ly MY ey
    Dec.C01GenDiv256.d128_eq ht1 ht2 hl2 hlx1 hl1 hlx2 hlx3 hsq hdiv hbits my1 my2 hey1 hey2 hC1 hC2 hη1 hη2
  refine ⟨r, hr, ?_⟩
  rw [hrv]
  generalize C256.toNat' = C at *
  obtain ⟨s1, s2⟩ := isqrt_spec C
  obtain ⟨P, hPd⟩ : ∃ P, P = 2 ^ (ey - 13) := ⟨_, rfl⟩
  have hP1 : 2 ^ 97 ≤ P := by rw [hPd]; exact Nat.pow_le_pow_right (by decide) (by omega)
  have hP2 : P ≤ 2 ^ 100 := by rw [hPd]; exact Nat.pow_le_pow_right (by decide) (by omega)
  have eB : 2 ^ (2 * ey + 104) = 2 ^ 130 * (P * P) := by
    calc 2 ^ (2 * ey + 104) = 2 ^ (130 + ((ey - 13) + (ey - 13))) := congrArg (fun x => 2 ^ x) (by omega)
      _ = 2 ^ 130 * (2 ^ (ey - 13) * 2 ^ (ey - 13)) := by rw [Nat.pow_add, Nat.pow_add]
      _ = 2 ^ 130 * (P * P) := by rw [hPd]
  have eD : 2 ^ (2 * ey - 23) = 8 * (P * P) := by
    calc 2 ^ (2 * ey - 23) = 2 ^ (3 + ((ey - 13) + (ey - 13))) := congrArg (fun x => 2 ^ x) (by omega)
      _ = 2 ^ 3 * (2 ^ (ey - 13) * 2 ^ (ey - 13)) := by rw [Nat.pow_add, Nat.pow_add]
      _ = 8 * (P * P) := by rw [hPd, show (2 : Nat) ^ 3 = 8 from rfl]
  rw [← hPd]
  obtain ⟨Cmax, hccC, hCm⟩ : ∃ Cmax, ((cc = 4420 ∧ Cmax = 10 ^ 68) ∨ (cc = 5001 ∧ Cmax = 2 ^ 225 + 2 ^ 175)) ∧ C ≤ Cmax := by
    rcases hcc with rfl | ⟨rfl, h⟩
    · exact ⟨10 ^ 68, Or.inl ⟨rfl, rfl⟩, by omega⟩
    · exact ⟨2 ^ 225 + 2 ^ 175, Or.inr ⟨rfl, rfl⟩, by omega⟩
  rw [eB] at hlo hhi
  have key : 2 * isqrt C * P ≤ longS MY ey C + P ∧ longS MY ey C < (2 * isqrt C + 3) * P := by
    unfold longS
    simp only []
    rw [eB, eD]
    by_cases hBN : 2 ^ 130 * (P * P) ≤ MY * (MY * C)
    · rw [if_pos hBN]
      exact long_math_pos MY C cc P Cmax (isqrt C) my1 my2 hP1 hP2 hC1 hC2 hccC hCm hBN hhi s1 s2 _ _ _ rfl rfl rfl
    · rw [if_neg hBN]
      exact long_math_neg MY C cc P Cmax (isqrt C) my1 my2 hP1 hP2 hC1 hC2 hccC hCm (by omega) hlo s1 s2 _ _ _ rfl rfl rfl
  exact round_half _ P _ (by omega) key.1 key.2

/-- the theorem on an instance: `C = 2·10^66` -/
example : ∃ r, bid_long_sqrt128 ⟨0, 0⟩ ⟨0, 2051801627335604424, 4178011466008277374, 318618382⟩ = .ok r ∧
    (r.toNat' = isqrt (2 * 10 ^ 66) ∨ r.toNat' = isqrt (2 * 10 ^ 66) + 1) :=
  long_ok (2 * 10 ^ 66) (by norm_num) (by norm_num) ⟨0, 0⟩ _ (by decide +kernel)

/-- `(S/P + 1)/2` for `S = 2·7·P + P − 1`: still `7` -/
example : ((2 * 7 * 1000 + 999) / 1000 + 1) / 2 = 7 := by decide

/-- **`bid128_sqrt` = `sqrtD`, no hypothesis left**: for every operand that is not a NaN (canonical or not), every
rounding mode and every status word, the translated `bid128_sqrt` does not fail, returns the canonical encoding of the
datum `sqrtD` gives and ORs exactly `sqrtD`'s flags into the status word.  (NaN operands: `C12GenNaN.sqrt_nan`.) -/
theorem sqrt_spec (x : U128) (m : RoundingMode) (f : UInt32) (hn : (dOf x).isNaN = false) :
    bid128_sqrt x m f = .ok (ofBits (encode (sqrtD (C13GenPack.md m) (dOf x)).1),
      f ||| UInt32.ofNat (sqrtD (C13GenPack.md m) (dOf x)).2) :=
  sqrt_spec_long_partial x m f hn long_ok

-- √2 to nearest-even and upward (inexact = 0x20), and √(10^34 − 1) (the long root with `C` just below 10^68)
example : bid128_sqrt ⟨2, 0x3040000000000000⟩ .NearestEven 0 = .ok (⟨12987834932751794210, 3458278228537953784⟩, 32) := by
  decide +kernel
example : bid128_sqrt ⟨2, 0x3040000000000000⟩ .Upward 0 = .ok (⟨12987834932751794211, 3458278228537953784⟩, 32) := by
  decide +kernel
example : bid128_sqrt ⟨0x378d8e63ffffffff, 0x30401ed09bead87c⟩ .NearestEven 0
    = .ok (⟨8506400933393978363, 3467344288393421296⟩, 32) := by decide +kernel

end Math

end Dec.C01GenSqrtLong
