/-
  C02GenFmaZ (part P: Case (1''B), the `10^33` branch complete) — see C02GenFmaZ.lean
-/
import DecProofs.Properties.C02GenFmaZN
import DecProofs.Properties.C02GenFmaZO
set_option linter.unusedSimpArgs false
set_option linter.unusedVariables false
namespace Dec.C02GenFmaZ
open Dec Dec.Rs Dec.Gen.Code Dec.C03GenCompare Dec.C02GenCorrection
open Dec.C08GenRoundIntegral (bind_ok' ite_true_bool ite_false_bool i32_add i32_sub i32_neg)
open Dec.C01GenAdd (lt113)

/-! ## 20. Case (1''B), `10^33`: the exact sub-cases, the branch assembled -/


/-- the correction on an exact value above the exponent range (no indicator): the overflow result of the mode -/
theorem corr_exact_ovf (m : RoundingMode) (hm : m ≠ .NearestEven) (e : Int32) (res : U128) (pf : UInt32) (ed : Int) (c : Nat)
    (he : e.toInt = ed) (h1 : 6111 < ed) (h2 : ed < 26590) (hc : sigW res.w1.toNat res.w0.toNat = c) (hlt : c < P34) :
    bid_rounding_correction m false false false false e res pf =
      .ok (ofBits (encode (overflowResult (modeOf m) (negW res.w1.toNat))), pf ||| UInt32.ofNat (fOverflow ||| fInexact)) := by
  rw [correction_eval m false false false false e res pf ed c he (by omega) (by omega) hc hlt (fun _ h => by
    cases m <;> cases negW res.w1.toNat <;> simp [downD] at h)]
  have hu : upD m (negW res.w1.toNat) false false = false := by cases m <;> cases negW res.w1.toNat <;> rfl
  have hd : downD m (negW res.w1.toNat) false false = false := by cases m <;> cases negW res.w1.toNat <;> rfl
  rw [hu, hd]
  simp only [stepC, Bool.false_eq_true, if_false]
  unfold outW outF
  rw [if_pos h1, ovf_word, ovfDatum_model m _ hm, show decide (6111 < ed) = true from by simpa using h1]
  simp only [Bool.or_self, Bool.false_eq_true, if_false, if_true]
  rfl

/-- **Case (1''B), `10^33`, the exact sub-cases**: the packed exact difference through the overflow check, the inexact
test (no indicator) and the last statement -/
theorem exact_tail (pml pmg pil pig : Bool) (m : RoundingMode) (pfpsf : UInt32) (l h z_sign zx : UInt64) (e : Int32)
    (sz : Bool) (c : Nat) (ed : Int) (hP : h.toNat * 2^64 + l.toNat = c) (hc2 : c < P34) (he : e.toInt = ed)
    (h1 : -6176 ≤ ed) (h2 : ed ≤ 12300) (hzx : ed ≤ 6111 → zx.toNat = (ed + 6176).toNat * 2^49)
    (hzs : z_sign.toNat = if sz then 2^63 else 0) :
    z2PowO pml pmg pil pig m pfpsf ⟨l, h ||| (z_sign ||| (zx &&& c_MASK_EXP))⟩ z_sign zx e false false false false
        (minK pml pmg pil pig z_sign) =
      .ok (ofBits (encode (if eMax < ed then (overflowResult (modeOf m) sz, fOverflow ||| fInexact) else (.fin sz c ed, 0)).1),
        false, false, false, false,
        pfpsf ||| UInt32.ofNat (if eMax < ed then (overflowResult (modeOf m) sz, fOverflow ||| fInexact)
          else (Datum.fin sz c ed, (0 : Flags))).2) := by
  have e34 : P34 = 10000000000000000000000000000000000 := rfl
  obtain ⟨f1, f2, f3⟩ := packed_facts l h z_sign zx sz c ed hP (by omega) hzs hzx h1
  rw [z2PowO_eval, gt_emax e ed he]
  by_cases hov : 6111 < ed
  · have hemax : eMax < ed := by unfold eMax; exact hov
    have hd : decide (6111 < ed) = true := by simpa using hov
    simp only [hemax, hd, if_true]
    by_cases hm : m = .NearestEven
    · subst hm
      rw [if_pos (by decide), inf_word z_sign sz hzs]
      have : overflowResult (modeOf .NearestEven) sz = .inf sz := by cases sz <;> rfl
      rw [this, show (c_StatusFlags_BID_INEXACT_EXCEPTION ||| c_StatusFlags_BID_OVERFLOW_EXCEPTION : UInt32) =
        UInt32.ofNat (fOverflow ||| fInexact) from by decide]
    · rw [if_neg (by simpa using hm), corr_exact_ovf m hm e ⟨l, h ||| (z_sign ||| (zx &&& c_MASK_EXP))⟩ pfpsf ed c he hov (lt_of_le_of_lt h2 (by norm_num)) f2 hc2, f1]
      rfl
  · have hemax : ¬ eMax < ed := by unfold eMax; exact hov
    have hd : decide (6111 < ed) = false := by simpa using hov
    simp only [hemax, hd, if_false, Bool.false_eq_true]
    unfold minK z2PowF
    dsimp only
    rw [if_neg (by decide), z2Fin_eq]
    show Except.ok ((⟨l, (h ||| (z_sign ||| (zx &&& c_MASK_EXP))) ||| (z_sign ||| (zx &&& c_MASK_EXP))⟩ : U128), _, _, _, _, _) = _
    rw [or_idem2, f3 (by omega)]
    show Except.ok (_, false, false, false, false, pfpsf) = Except.ok (_, false, false, false, false, pfpsf ||| UInt32.ofNat 0)
    rw [show UInt32.ofNat 0 = 0 from rfl, UInt32.or_zero]

theorem sub_p1 (zx : UInt64) (E : Nat) (hzx : zx.toNat = E * 2^49) (hE : 1 ≤ E) (hE2 : E < 2^15) :
    (zx - c_EXP_P1).toNat = (E - 1) * 2^49 := by
  have hp : c_EXP_P1.toNat = 2^49 := by decide
  rw [UInt64.toNat_sub_of_le _ _ (by rw [UInt64.le_iff_toNat_le, hzx, hp]; exact Nat.le_mul_of_pos_left _ hE), hzx, hp,
    Nat.sub_mul, Nat.one_mul]

open Dec.C02RoundHelpers (Spec) in
/-- **Case (1''B), opposite signs, the padded `z` = `10^33`: complete** -/
theorem z2Pow_spec (pml pmg pil pig : Bool) (m : RoundingMode) (pfpsf : UInt32) (res : U128) (z_sign zx : UInt64) (C4 : U256)
    (q4 e3 : Int32) (R64 : UInt64) (P128 R128 : U128) (P192 R192 : U192) (R256 : U256) (sz : Bool) (c4 : Nat) (E4 ef pref : Int)
    (hC4 : C4.w3.toNat * 2^192 + C4.w2.toNat * 2^128 + C4.w1.toNat * 2^64 + C4.w0.toNat = c4) (h40 : 0 < c4)
    (hq4 : q4.toInt = ndigits c4) (hq468 : ndigits c4 ≤ 68) (hzx : zx.toNat = (ef + 6176).toNat * 2^49)
    (h1 : -6176 ≤ ef) (h2 : ef ≤ 12300) (hE : ef - E4 = ndigits c4) (hzs : z_sign.toNat = if sz then 2^63 else 0) :
    ∃ ml mg il ig : Bool,
      z2Pow pml pmg pil pig m pfpsf res z_sign zx C4 q4 e3 false false false false false (decide (2 * c4 < 10 ^ ndigits c4))
          (decide (2 * c4 = 10 ^ ndigits c4)) (decide (10 ^ ndigits c4 < 2 * c4)) R64 P128 R128 P192 R192 R256
          (fun res z_exp pfpsf ml mg il ig => z2Fin pml pmg pil pig pfpsf res z_sign z_exp ml mg il ig) =
        .ok (ofBits (encode (finish (modeOf m) sz (P33 * 10 ^ ndigits c4 - c4) 1 E4 pref).1), ml, mg, il, ig,
          pfpsf ||| UInt32.ofNat (finish (modeOf m) sz (P33 * 10 ^ ndigits c4 - c4) 1 E4 pref).2) := by
  have hq4p := ndigits_pos h40
  obtain ⟨lo4, hi4⟩ := ndigits_spec h40
  have e33 : P33 = 1000000000000000000000000000000000 := rfl
  have e34 : P34 = 10000000000000000000000000000000000 := rfl
  have he := e3_of_zexp zx ef hzx h1 h2
  rw [z2Pow_eq]
  have hmin : decide (Int32.ofInt (toI ((zx >>> 0x31) - (0x1820 : UInt64))) > c_EXP_MIN_UNBIASED) = decide (-6176 < ef) := by
    rw [decide_eq_decide, gt_iff_lt, Int32.lt_iff_toInt_lt, he]; rfl
  rw [hmin]
  by_cases hem : ef = -6176
  · -- the least exponent
    subst hem
    rw [if_neg (by decide)]
    have hQ : (-6176 - E4).toNat = ndigits c4 := by omega
    have := z2PowM_spec pml pmg pil pig m pfpsf res z_sign zx _ sz c4 E4 pref (by omega) h40 (by rw [hQ]; exact hi4) he
      (by rw [hzx]; rfl) hzs
    rw [hQ] at this
    exact this
  · rw [if_pos (by simpa using (by omega : -6176 < ef))]
    have hzx' : (zx - c_EXP_P1).toNat = (ef - 1 + 6176).toNat * 2^49 := by
      rw [sub_p1 zx (ef + 6176).toNat hzx (by omega) (by omega)]; congr 1; omega
    have he' : (Int32.ofInt (toI ((zx >>> 0x31) - (0x1820 : UInt64))) - 1).toInt = ef - 1 := by
      rw [i32_sub _ _ (by omega) (by decide), he]; rfl
    have hNpow : P33 * 10 ^ ndigits c4 = P34 * 10 ^ (ndigits c4 - 1) := by
      obtain ⟨x, hx⟩ : ∃ x, ndigits c4 = x + 1 := ⟨ndigits c4 - 1, by omega⟩
      rw [hx, Nat.pow_succ, Nat.add_sub_cancel, e33, e34]; generalize 10 ^ x = X; omega
    rw [hNpow]
    by_cases hq1 : ndigits c4 = 1
    · -- one digit: exact
      have d1 : (q4 == 1) = true := by rw [beq_iff_eq, ← Int32.toInt_inj, hq4, hq1]; rfl
      rw [if_pos d1]
      rw [hq1] at hi4
      have hw0 : C4.w0.toNat = c4 := by
        have w0 := C4.w0.toNat_lt; have w1 := C4.w1.toNat_lt; have w2 := C4.w2.toNat_lt; have w3 := C4.w3.toNat_lt
        omega
      have hwords := p34_minus C4.w0 c4 hw0 (by omega)
      have ht := exact_tail pml pmg pil pig m pfpsf _ 0x1ed09bead87c0 z_sign (zx - c_EXP_P1) _ sz (P34 - c4) (ef - 1) hwords
        (by omega) he' (by omega) (by omega) (fun _ => hzx') hzs
      refine ⟨false, false, false, false, ?_⟩
      have hfin := finish_exact34 (modeOf m) sz (P34 - c4) (ef - 1) pref (by rw [e34]; omega) (by rw [e34]; omega)
        (by rw [e34]; interval_cases c4 <;> decide) (by unfold eMin; omega)
      rw [hq1, show (1 : Nat) - 1 = 0 from rfl, Nat.pow_zero, Nat.mul_one, show E4 = ef - 1 by omega, hfin]
      exact ht
    · -- two digits or more: the helper rounds `C4` to one digit
      have d1 : (q4 == 1) = false := by
        rw [beq_eq_false_iff_ne, Ne, ← Int32.toInt_inj, hq4]; show ¬ (ndigits c4 : Int) = 1; omega
      rw [if_neg (by rw [d1]; decide)]
      obtain ⟨r, incr, ml, mg, il, ig, hcode, hs⟩ := z2PowR_spec C4 q4 R64 P128 R128 P192 R192 R256
        (fun R64 incr ml mg il ig =>
          if ((((!ml) && (!mg)) && (!il)) && (!ig)) = true then
            z2PowO pml pmg pil pig m pfpsf
              ⟨(0x378d8e6400000000 : UInt64) - R64,
                (z_sign ||| ((zx - c_EXP_P1) &&& c_MASK_EXP)) ||| (0x1ed09bead87c0 : UInt64)⟩ z_sign (zx - c_EXP_P1)
              (Int32.ofInt (toI ((zx >>> 0x31) - (0x1820 : UInt64))) - 1) ml mg il ig
              (z2PowF (fun res z_exp pfpsf ml mg il ig => z2Fin pml pmg pil pig pfpsf res z_sign z_exp ml mg il ig))
          else
            z2PowC pml pmg pil pig m pfpsf res z_sign zx (Int32.ofInt (toI ((zx >>> 0x31) - (0x1820 : UInt64))))
              ml mg il ig incr R64 fun res z_exp e3 pfpsf ml mg il ig =>
                z2PowO pml pmg pil pig m pfpsf res z_sign z_exp e3 ml mg il ig
                  (z2PowF (fun res z_exp pfpsf ml mg il ig => z2Fin pml pmg pil pig pfpsf res z_sign z_exp ml mg il ig)))
        c4 hC4 h40 hq4 (by omega) hq468
      rw [hcode]
      obtain ⟨pex, pin⟩ := pow_math (modeOf m) sz c4 r.toNat incr ml mg il ig E4 ef pref h40 (by omega) hs (by omega) (by omega)
        (by omega) (by omega)
      by_cases hex : ml = false ∧ mg = false ∧ il = false ∧ ig = false
      · obtain ⟨hr1, hr9, hfin⟩ := pex hex
        obtain ⟨a, b, c, d⟩ := hex
        subst a b c d
        rw [if_pos (by decide)]
        have hwords := p34_minus r r.toNat rfl (by omega)
        have ht := exact_tail pml pmg pil pig m pfpsf _ 0x1ed09bead87c0 z_sign (zx - c_EXP_P1) _ sz (P34 - r.toNat) (ef - 1)
          hwords (by omega) he' (by omega) (by omega) (fun _ => hzx') hzs
        refine ⟨false, false, false, false, ?_⟩
        rw [hfin, UInt64.or_comm]
        exact ht
      · obtain ⟨hdl, hnt, hR1, hR10, hcs1, hx1, hx2, hx3⟩ := pin hex
        have hb : ((((!ml) && (!mg)) && (!il)) && (!ig)) = false := by
          cases ml <;> cases mg <;> cases il <;> cases ig <;> simp at hex ⊢
        rw [if_neg (by rw [hb]; decide)]
        have := z2PowC_spec hdl hnt hR1 hR10 pml pmg pil pig m pfpsf res z_sign zx
          (Int32.ofInt (toI ((zx >>> 0x31) - (0x1820 : UInt64)))) incr r pref rfl (by rw [he]; omega) (by omega) hzs
          (fun h => by obtain ⟨a, b, c⟩ := hx1 h; exact ⟨a, b, c⟩)
          (fun h => by obtain ⟨a, b⟩ := hx2 h; exact ⟨a, b⟩) hx3
        exact ⟨_, _, _, _, this⟩


end Dec.C02GenFmaZ
