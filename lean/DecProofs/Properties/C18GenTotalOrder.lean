/-
  C18 (generated-code level) — the translated `Dec.Gen.Code.bid128_total_order` and `bid128_total_order_mag`
  (bid128_noncomp.rs, as machine-translated in `DecGen/Code.lean`) compute the IEEE 754-2008 §5.10 predicates
  `Dec.totalLe` / `Dec.totalLeMag` of the decoded operands, for ALL pairs of 128-bit patterns (non-canonical
  encodings included), and never panic:

      total_order_spec      bid128_total_order x y     = .ok (totalLe    (decode (bitsOf x)) (decode (bitsOf y)))
      total_order_mag_spec  bid128_total_order_mag x y = .ok (totalLeMag (decode (bitsOf x)) (decode (bitsOf y)))

  Route.  §0–1: the routine is rewritten (`total_order_nan`, `total_order_nonnan`: by `unfold`/`simp`/`rfl`, so a change of
  the translated source breaks them) into a decision tree over named bit-field tests, ending — for finite non-zero
  operands of equal sign — in `magTail`, a verbatim copy of the code's magnitude comparison.  §2: `totalKeyFinLe` in
  natural numbers (`tk_eq'`).  §3: `magTail_spec`, all exponent gaps: equal exponents and gaps decided by the first two
  tests, gaps > 33 (no multiplication), 1..19 (`mul_64x128_to_192` × `BID_TEN2K64`), 20..33 (`mul_128x128_to_256` ×
  `BID_TEN2K128`); the exact-product and table facts about the TRANSLATED helpers are taken from
  `DecProofs/Properties/C03GenCompare.lean` (`scale192`, `scale256`, `eq192`, `eq256`, …).  §4: every bit-field test and
  field against `decode` (`view_nan`, `view_inf`, `view_fin`).  §5–6: the case analysis.  §7: `bid128_total_order_mag`
  is `bid128_total_order` on the operands with bit 127 cleared (`mag_eq`), and clearing bit 127 is `setSign false`
  (`decode_abs`).

  Findings: none — the code agrees with `totalLe`/`totalLeMag` everywhere.  What the code does with the odd encodings,
  all as `decode` reads them: NaN payload = low 110 bits, a field ≥ 10^33 compared as 0, reserved bits 120..110 ignored;
  trailing bits of infinities ignored; finite non-canonical encodings (coefficient field ≥ 10^34, or the
  large-coefficient form, whose exponent the code then takes from bits 124..111) are zeros ordered by sign and exponent.
  One thing that is only right because of the order of the tests: for equal values the code answers
  `(exp_x ≤ exp_y) != sign` — wrong for two identical operands of negative sign — but bitwise-equal operands are answered
  `true` before (hypothesis `hne` of `magTail_spec`).
-/
import DecProofs.Properties.C06GenFromInt
import DecProofs.Properties.C03GenCompare
import DecProofs.Properties.C18

namespace Dec.C18GenTotalOrder
open Dec.Rs Dec.Gen.Code Dec.C06GenFromInt

/-! ## 0. The pieces of the code, named -/

/-- sign test `x.w[1] & MASK_SIGN == MASK_SIGN` -/
def sgnB (x : U128) : Bool := x.w1 &&& c_MASK_SIGN == c_MASK_SIGN
def nanB (x : U128) : Bool := x.w1 &&& c_MASK_NAN == c_MASK_NAN
def snanB (x : U128) : Bool := x.w1 &&& c_MASK_SNAN == c_MASK_SNAN
def infB (x : U128) : Bool := x.w1 &&& c_MASK_INF == c_MASK_INF
def steerB (x : U128) : Bool := x.w1 &&& 6917529027641081856 == 6917529027641081856
/-- payload field (low 110 bits) -/
def pyldU (x : U128) : U128 := ⟨x.w0, x.w1 &&& 70368744177663⟩
/-- `> 10^33 − 1` -/
def bigP (hi lo : UInt64) : Bool :=
  decide (hi > 54210108624275) || hi == 54210108624275 && decide (lo > 4089650035136921599)
/-- payload as the code compares it: field `≥ 10^33` ↦ 0 -/
def pyldC (x : U128) : U128 := if bigP (x.w1 &&& 70368744177663) x.w0 then ⟨0, 0⟩ else pyldU x
/-- coefficient field (low 113 bits), exponent fields of the two forms -/
def sigF (x : U128) : U128 := ⟨x.w0, x.w1 &&& 562949953421311⟩
def expF (x : U128) : Int32 := Int32.ofInt (toI (x.w1 >>> 49 &&& 16383))
def expL (x : U128) : Int32 := Int32.ofInt (toI (x.w1 >>> 47 &&& 16383))
/-- `> 10^34 − 1` -/
def bigC (hi lo : UInt64) : Bool :=
  decide (hi > 542101086242752) || hi == 542101086242752 && decide (lo > 4003012203950112767)
/-- the code's "is zero" test (non-canonical coefficient, large form, or zero field) -/
def zeroB (x : U128) : Bool :=
  bigC (x.w1 &&& 562949953421311) x.w0 && !steerB x || steerB x || x.w1 &&& 562949953421311 == 0 && x.w0 == 0
/-- the exponent used for a zero -/
def expZ (x : U128) : Int32 := if steerB x then expL x else expF x

/-- the magnitude comparison of `bid128_total_order` for finite non-zero operands of equal sign `nx` -/
def magTail (nx : Bool) (ex ey : Int32) (sx sy : U128) : Except String Bool :=
  if (decide (sx.w1 > sy.w1) || sx.w1 == sy.w1 && decide (sx.w0 > sy.w0)) && decide (ex ≥ ey) then .ok nx
  else if (decide (sx.w1 < sy.w1) || sx.w1 == sy.w1 && decide (sx.w0 < sy.w0)) && decide (ex ≤ ey) then .ok (!nx)
  else if decide (ex > ey) then
    if decide (ex - ey > 33) then .ok nx
    else if decide (ex - ey > 19) then do
      let t ← tbl128 Dec.Gen.BID_TEN2K128 (UInt64.ofInt (toI (ex - ey - 20)))
      let v ← mul_128x128_to_256 sx t
      if v.w3 == 0 && v.w2 == 0 && v.w1 == sy.w1 && v.w0 == sy.w0 then .ok (decide (ex ≤ ey) != nx)
      else .ok ((v.w3 == 0 && v.w2 == 0 && (decide (v.w1 < sy.w1) || v.w1 == sy.w1 && decide (v.w0 < sy.w0))) != nx)
    else do
      let t ← tbl64 Dec.Gen.BID_TEN2K64 (UInt64.ofInt (toI (ex - ey)))
      let v ← mul_64x128_to_192 t sx
      if v.w2 == 0 && v.w1 == sy.w1 && v.w0 == sy.w0 then .ok (decide (ex ≤ ey) != nx)
      else .ok ((v.w2 == 0 && (decide (v.w1 < sy.w1) || v.w1 == sy.w1 && decide (v.w0 < sy.w0))) != nx)
  else if decide (ey - ex > 33) then .ok (!nx)
  else if decide (ey - ex > 19) then do
    let t ← tbl128 Dec.Gen.BID_TEN2K128 (UInt64.ofInt (toI (ey - ex - 20)))
    let v ← mul_128x128_to_256 sy t
    if v.w3 == 0 && v.w2 == 0 && v.w1 == sx.w1 && v.w0 == sx.w0 then .ok (decide (ex ≤ ey) != nx)
    else .ok ((v.w3 != 0 || v.w2 != 0 || decide (v.w1 > sx.w1) || v.w1 == sx.w1 && decide (v.w0 > sx.w0)) != nx)
  else do
    let t ← tbl64 Dec.Gen.BID_TEN2K64 (UInt64.ofInt (toI (ey - ex)))
    let v ← mul_64x128_to_192 t sy
    if v.w2 == 0 && v.w1 == sx.w1 && v.w0 == sx.w0 then .ok (decide (ex ≤ ey) != nx)
    else .ok ((v.w2 != 0 || decide (v.w1 > sx.w1) || v.w1 == sx.w1 && decide (v.w0 > sx.w0)) != nx)

/-- the NaN-vs-NaN comparison (same sign): `cmp` is `≥` for negative, `≤` for positive operands -/
def nanTail (x y : U128) (cmp : U128 → U128 → Bool) (other : Bool) : Except String Bool :=
  if !(snanB y != snanB x) then .ok (cmp (pyldC x) (pyldC y)) else .ok other

def ge128b (a b : U128) : Bool := decide (a.w1 > b.w1) || a.w1 == b.w1 && decide (a.w0 ≥ b.w0)
def le128b (a b : U128) : Bool := decide (a.w1 < b.w1) || a.w1 == b.w1 && decide (a.w0 ≤ b.w0)

set_option linter.unusedSimpArgs false in
/-- the translated routine when `x` passes the NaN test: its decision tree, verbatim -/
theorem total_order_nan (x y : U128) (hx : nanB x = true) : bid128_total_order x y =
      if sgnB x then
        if !nanB y || !sgnB y then .ok true else nanTail x y ge128b (snanB y)
      else
        if !nanB y || sgnB y then .ok false else nanTail x y le128b (snanB x) := by
  unfold bid128_total_order
  unfold nanB at hx
  simp only [pure, Except.pure, bne, hx, if_true]
  by_cases hpx : bigP (x.w1 &&& 70368744177663) x.w0 = true <;>
    by_cases hpy : bigP (y.w1 &&& 70368744177663) y.w0 = true <;>
    simp only [hpx, hpy, nanTail, pyldC, if_true, if_false, Bool.false_eq_true] <;>
    simp only [bigP] at hpx hpy <;>
    simp only [hpx, hpy, if_true, if_false, Bool.false_eq_true, sgnB, nanB, snanB, ge128b, le128b, bne, pyldU] <;>
    rfl

set_option linter.unusedSimpArgs false in
/-- the translated routine when `x` fails the NaN test: its decision tree, verbatim, ending in `magTail` -/
theorem total_order_nonnan (x y : U128) (hx : nanB x = false) : bid128_total_order x y =
    if nanB y then .ok (!sgnB y)
    else if x.w1 == y.w1 && x.w0 == y.w0 then .ok true
    else if sgnB x != sgnB y then .ok (sgnB x)
    else if infB x then .ok (if sgnB x then true else infB y)
    else if infB y then .ok (!sgnB y)
    else if zeroB x then
      (if zeroB y then (if expZ x == expZ y then .ok true else .ok (decide (expZ x ≤ expZ y) != sgnB x))
       else .ok (!sgnB y))
    else if zeroB y then .ok (sgnB x)
    else magTail (sgnB x) (expF x) (expF y) (sigF x) (sigF y) := by
  unfold bid128_total_order
  unfold nanB at hx
  simp only [pure, Except.pure, bne, hx, if_false, Bool.false_eq_true]
  by_cases hzx : zeroB x = true <;> by_cases hzy : zeroB y = true <;>
    by_cases hsx : steerB x = true <;> by_cases hsy : steerB y = true <;>
    simp only [hzx, hzy, hsx, hsy, expZ, if_true, if_false, Bool.false_eq_true] <;>
    simp only [zeroB, steerB, bigC] at hzx hzy hsx hsy <;>
    simp only [hzx, hzy, if_true, if_false, Bool.false_eq_true, Bool.and_true, Bool.true_and, Bool.and_false,
      Bool.false_and] <;>
    simp only [hsx, hsy, if_true, if_false, Bool.false_eq_true, Bool.and_true, Bool.true_and, Bool.and_false,
      Bool.false_and, sgnB, nanB, infB, bne, expF, expL, sigF, magTail] <;>
    rfl

/-! ## 2. Spec side in natural numbers -/

/-- `totalKeyFinLe` on biased exponents, in natural numbers -/
def TK (c1 E1 c2 E2 : Nat) : Bool :=
  if E2 ≤ E1 then decide (c1 * 10 ^ (E1 - E2) < c2) || (decide (c1 * 10 ^ (E1 - E2) = c2) && decide (E1 = E2))
  else decide (c1 ≤ c2 * 10 ^ (E2 - E1))

theorem tkf_lt {c1 c2 : Nat} {e1 e2 : Int} (h : cmpFin false c1 e1 false c2 e2 = .lt) :
    totalKeyFinLe c1 e1 c2 e2 = true := by unfold totalKeyFinLe; rw [h]
theorem tkf_gt {c1 c2 : Nat} {e1 e2 : Int} (h : cmpFin false c1 e1 false c2 e2 = .gt) :
    totalKeyFinLe c1 e1 c2 e2 = false := by unfold totalKeyFinLe; rw [h]
theorem tkf_eq {c1 c2 : Nat} {e1 e2 : Int} (h : cmpFin false c1 e1 false c2 e2 = .eq) :
    totalKeyFinLe c1 e1 c2 e2 = decide (e1 ≤ e2) := by unfold totalKeyFinLe; rw [h]

/-- `cmpFin` of two magnitudes on biased exponents `E2 ≤ E1` -/
theorem cmpFin_ge (c1 E1 c2 E2 : Nat) (h : E2 ≤ E1) :
    cmpFin false c1 ((E1 : Int) - 6176) false c2 ((E2 : Int) - 6176)
      = compare ((c1 * 10 ^ (E1 - E2) : Nat) : Int) ((c2 : Nat) : Int) := by
  unfold cmpFin sInt
  simp only [Bool.false_eq_true, if_false]
  have hm : (if (E1 : Int) - 6176 ≤ (E2 : Int) - 6176 then (E1 : Int) - 6176 else (E2 : Int) - 6176) = (E2 : Int) - 6176 := by
    split <;> omega
  have e1 : ((E1 : Int) - 6176 - ((E2 : Int) - 6176)).toNat = E1 - E2 := by omega
  have e2 : ((E2 : Int) - 6176 - ((E2 : Int) - 6176)).toNat = 0 := by omega
  rw [hm, e1, e2, Nat.pow_zero, Nat.mul_one]

theorem cmpFin_le (c1 E1 c2 E2 : Nat) (h : E1 ≤ E2) :
    cmpFin false c1 ((E1 : Int) - 6176) false c2 ((E2 : Int) - 6176)
      = compare ((c1 : Nat) : Int) ((c2 * 10 ^ (E2 - E1) : Nat) : Int) := by
  unfold cmpFin sInt
  simp only [Bool.false_eq_true, if_false]
  have hm : (if (E1 : Int) - 6176 ≤ (E2 : Int) - 6176 then (E1 : Int) - 6176 else (E2 : Int) - 6176) = (E1 : Int) - 6176 := by
    split <;> omega
  have e1 : ((E2 : Int) - 6176 - ((E1 : Int) - 6176)).toNat = E2 - E1 := by omega
  have e2 : ((E1 : Int) - 6176 - ((E1 : Int) - 6176)).toNat = 0 := by omega
  rw [hm, e1, e2, Nat.pow_zero, Nat.mul_one]

theorem tk_eq (c1 E1 c2 E2 : Nat) :
    totalKeyFinLe c1 ((E1 : Int) - 6176) c2 ((E2 : Int) - 6176) = TK c1 E1 c2 E2 := by
  unfold TK
  by_cases h : E2 ≤ E1
  · rw [if_pos h]
    have hc := cmpFin_ge c1 E1 c2 E2 h
    generalize c1 * 10 ^ (E1 - E2) = A at *
    rcases Nat.lt_trichotomy A c2 with h1 | h1 | h1
    · rw [tkf_lt (by rw [hc]; exact Int.compare_eq_lt.2 (by omega))]; simp [h1]
    · rw [tkf_eq (by rw [hc]; exact Int.compare_eq_eq.2 (by omega))]
      subst h1
      rw [decide_eq_false (Nat.lt_irrefl A), decide_eq_true rfl, Bool.false_or, Bool.true_and]
      congr 1; apply propext; omega
    · rw [tkf_gt (by rw [hc]; exact Int.compare_eq_gt.2 (by omega))]
      have h2 : ¬ A < c2 := by omega
      have h3 : ¬ A = c2 := by omega
      simp [h2, h3]
  · rw [if_neg h]
    have hc := cmpFin_le c1 E1 c2 E2 (by omega)
    generalize c2 * 10 ^ (E2 - E1) = B at *
    rcases Nat.lt_trichotomy c1 B with h1 | h1 | h1
    · rw [tkf_lt (by rw [hc]; exact Int.compare_eq_lt.2 (by omega))]; simp; omega
    · rw [tkf_eq (by rw [hc]; exact Int.compare_eq_eq.2 (by omega))]
      rw [decide_eq_true (by omega), decide_eq_true (by omega)]
    · rw [tkf_gt (by rw [hc]; exact Int.compare_eq_gt.2 (by omega))]; simp; omega


/-- symmetric form: both coefficients scaled to the smaller exponent -/
def TK' (c1 E1 c2 E2 : Nat) : Bool :=
  decide (c1 * 10 ^ (E1 - E2) < c2 * 10 ^ (E2 - E1)) ||
    (decide (c1 * 10 ^ (E1 - E2) = c2 * 10 ^ (E2 - E1)) && decide (E1 ≤ E2))

theorem tk_eq' (c1 E1 c2 E2 : Nat) :
    totalKeyFinLe c1 ((E1 : Int) - 6176) c2 ((E2 : Int) - 6176) = TK' c1 E1 c2 E2 := by
  rw [tk_eq]
  unfold TK TK'
  by_cases h : E2 ≤ E1
  · rw [if_pos h, Nat.sub_eq_zero_of_le h, Nat.pow_zero, Nat.mul_one]
    congr 2
    rw [Bool.eq_iff_iff, decide_eq_true_iff, decide_eq_true_iff]; omega
  · rw [if_neg h, Nat.sub_eq_zero_of_le (by omega : E1 ≤ E2), Nat.pow_zero, Nat.mul_one]
    rw [decide_eq_true (by omega : E1 ≤ E2), Bool.and_true, Bool.eq_iff_iff]
    simp only [Bool.or_eq_true, decide_eq_true_eq]
    omega


/-! ## 3. The magnitude comparison -/

open Dec.C03GenCompare (val128 val192 val256)

theorem lt128w (a b c d : UInt64) :
    (decide (a < c) || (a == c && decide (b < d))) = decide (a.toNat * 2^64 + b.toNat < c.toNat * 2^64 + d.toNat) := by
  have := b.toNat_lt; have := d.toNat_lt
  rw [Bool.eq_iff_iff]
  simp only [Bool.or_eq_true, Bool.and_eq_true, decide_eq_true_eq, beq_iff_eq, UInt64.lt_iff_toNat_lt,
    ← UInt64.toNat_inj]
  omega

theorem lt256 (r : U256) (s : U128) :
    (r.w3 == 0 && r.w2 == 0 && (decide (r.w1 < s.w1) || r.w1 == s.w1 && decide (r.w0 < s.w0)))
      = decide (val256 r < val128 s) := by
  have := r.w0.toNat_lt; have := r.w1.toNat_lt; have := s.w0.toNat_lt; have := s.w1.toNat_lt
  rw [Bool.eq_iff_iff, decide_eq_true_iff]
  simp only [Bool.or_eq_true, Bool.and_eq_true, decide_eq_true_eq, beq_iff_eq, UInt64.lt_iff_toNat_lt,
    ← UInt64.toNat_inj, UInt64.toNat_zero, val128, val256]
  omega

theorem lt192 (r : U192) (s : U128) :
    (r.w2 == 0 && (decide (r.w1 < s.w1) || r.w1 == s.w1 && decide (r.w0 < s.w0)))
      = decide (val192 r < val128 s) := by
  have := r.w0.toNat_lt; have := r.w1.toNat_lt; have := s.w0.toNat_lt; have := s.w1.toNat_lt
  rw [Bool.eq_iff_iff, decide_eq_true_iff]
  simp only [Bool.or_eq_true, Bool.and_eq_true, decide_eq_true_eq, beq_iff_eq, UInt64.lt_iff_toNat_lt,
    ← UInt64.toNat_inj, UInt64.toNat_zero, val128, val192]
  omega

theorem gt256w (r : U256) (s : U128) :
    (r.w3 != 0 || r.w2 != 0 || decide (r.w1 > s.w1) || r.w1 == s.w1 && decide (r.w0 > s.w0))
      = decide (val128 s < val256 r) := by
  rw [← Dec.C03GenCompare.gt256', Bool.or_assoc]

theorem gt192w (r : U192) (s : U128) :
    (r.w2 != 0 || decide (r.w1 > s.w1) || r.w1 == s.w1 && decide (r.w0 > s.w0))
      = decide (val128 s < val192 r) := by
  rw [← Dec.C03GenCompare.gt192', Bool.or_assoc]

theorem i32_le (a b : Int32) : decide (a ≤ b) = decide (a.toInt ≤ b.toInt) := by
  rw [Bool.eq_iff_iff, decide_eq_true_iff, decide_eq_true_iff, Int32.le_iff_toInt_le]
theorem i32_lt (a b : Int32) : decide (a < b) = decide (a.toInt < b.toInt) := by
  rw [Bool.eq_iff_iff, decide_eq_true_iff, decide_eq_true_iff, Int32.lt_iff_toInt_lt]

/-- the result the magnitude comparison must deliver, on aligned magnitudes `A B` -/
def wanted (nx : Bool) (A B Ex Ey : Nat) : Bool :=
  if nx then decide (B < A) || (decide (B = A) && decide (Ey ≤ Ex))
  else decide (A < B) || (decide (A = B) && decide (Ex ≤ Ey))

theorem i32_ge (a b : Int32) : decide (a ≥ b) = decide (b.toInt ≤ a.toInt) := i32_le b a
theorem i32_gt (a b : Int32) : decide (a > b) = decide (b.toInt < a.toInt) := i32_lt b a

/-- closing step: a Boolean identity between the code's answer and `wanted`, by cases -/
theorem wanted_gt (nx : Bool) (A B Ex Ey : Nat) (h : B < A) : wanted nx A B Ex Ey = nx := by
  unfold wanted
  cases nx
  · simp only [Bool.false_eq_true, if_false, decide_eq_false (show ¬ A < B by omega), decide_eq_false (show ¬ A = B by omega),
      Bool.false_and, Bool.or_false]
  · simp only [if_true, decide_eq_true h, Bool.true_or]

theorem wanted_lt (nx : Bool) (A B Ex Ey : Nat) (h : A < B) : wanted nx A B Ex Ey = !nx := by
  unfold wanted
  cases nx
  · simp only [Bool.false_eq_true, if_false, decide_eq_true h, Bool.true_or, Bool.not_false]
  · simp only [if_true, decide_eq_false (show ¬ B < A by omega), decide_eq_false (show ¬ B = A by omega),
      Bool.false_and, Bool.or_false, Bool.not_true]

theorem wanted_eq (nx : Bool) (A B Ex Ey : Nat) (h : A = B) (hne : Ex ≠ Ey) :
    wanted nx A B Ex Ey = (decide (Ex ≤ Ey) != nx) := by
  unfold wanted
  subst h
  cases nx
  · simp only [Bool.false_eq_true, if_false, Nat.lt_irrefl, decide_false, decide_true, Bool.false_or, Bool.true_and,
      Bool.bne_false]
  · simp only [if_true, Nat.lt_irrefl, decide_false, decide_true, Bool.false_or, Bool.true_and, Bool.bne_true]
    rw [Bool.eq_iff_iff]; simp only [decide_eq_true_eq, Bool.not_eq_true', decide_eq_false_iff_not]; omega

theorem wanted_ne (nx : Bool) (A B Ex Ey : Nat) (h : A ≠ B) :
    wanted nx A B Ex Ey = (decide (A < B) != nx) := by
  rcases Nat.lt_or_gt_of_ne h with h1 | h1
  · rw [wanted_lt _ _ _ _ _ h1, decide_eq_true h1]; cases nx <;> rfl
  · rw [wanted_gt _ _ _ _ _ h1, decide_eq_false (by omega)]; cases nx <;> rfl

theorem magTail_spec (nx : Bool) (ex ey : Int32) (sx sy : U128) (Ex Ey : Nat)
    (hex : ex.toInt = Ex) (hey : ey.toInt = Ey) (hEx : Ex < 2^14) (hEy : Ey < 2^14)
    (hx0 : 0 < val128 sx) (hx1 : val128 sx < P34) (hy0 : 0 < val128 sy) (hy1 : val128 sy < P34)
    (hne : ¬ (val128 sx = val128 sy ∧ Ex = Ey)) :
    magTail nx ex ey sx sy
      = .ok (wanted nx (val128 sx * 10 ^ (Ex - Ey)) (val128 sy * 10 ^ (Ey - Ex)) Ex Ey) := by
  unfold magTail
  rw [Dec.C03GenCompare.gt128, lt128w]
  have e1 : sx.w1.toNat * 2 ^ 64 + sx.w0.toNat = val128 sx := rfl
  have e2 : sy.w1.toNat * 2 ^ 64 + sy.w0.toNat = val128 sy := rfl
  have d1 : Ex ≤ Ey → (ey - ex).toInt = (Ey : Int) - Ex := fun _ =>
    Dec.C03GenCompare.int32_sub_toInt ex ey Ex Ey hex hey hEx hEy
  have d2 : (ex - ey).toInt = (Ex : Int) - Ey := Dec.C03GenCompare.int32_sub_toInt ey ex Ey Ex hey hex hEy hEx
  have d1' : (ey - ex).toInt = (Ey : Int) - Ex := Dec.C03GenCompare.int32_sub_toInt ex ey Ex Ey hex hey hEx hEy
  simp only [i32_le, i32_lt, hex, hey, Int.ofNat_le, Int.ofNat_lt, e1, e2, d2, d1',
    show (33 : Int32).toInt = 33 from rfl, show (19 : Int32).toInt = 19 from rfl]
  generalize hcx : val128 sx = cx at *
  generalize hcy : val128 sy = cy at *
  by_cases hgt : Ey < Ex
  · -- exponent of x larger
    have hB : cy * 10 ^ (Ey - Ex) = cy := by rw [Nat.sub_eq_zero_of_le (by omega), Nat.pow_zero, Nat.mul_one]
    rw [hB]
    have hA := Dec.C03GenCompare.le_scale cx (Ex - Ey)
    by_cases h1 : cy < cx
    · simp only [h1, decide_true, show Ey ≤ Ex by omega, Bool.and_self, if_true]
      rw [wanted_gt _ _ _ _ _ (by omega)]
    · simp only [h1, decide_false, Bool.false_and, Bool.false_eq_true, if_false, show ¬ Ex ≤ Ey by omega, Bool.and_false,
        hgt, decide_true, if_true]
      have hle : decide (Ex ≤ Ey) = false := decide_eq_false (by omega)
      by_cases h33 : (33 : Int) < (Ex : Int) - Ey
      · rw [if_pos (decide_eq_true h33), wanted_gt _ _ _ _ _ (Dec.C03GenCompare.big_gap cx cy _ hx0 hy1 (by omega))]
      · rw [if_neg (by rw [decide_eq_true_iff]; exact h33)]
        by_cases h19 : (19 : Int) < (Ex : Int) - Ey
        · rw [if_pos (decide_eq_true h19)]
          obtain ⟨t, r, ht, hr, rv⟩ := Dec.C03GenCompare.scale256 (ex - ey) (Ex - Ey) (by rw [d2]; omega) (by omega)
            (by omega) sx
          simp only [ht, hr, bind, Except.bind, Dec.C03GenCompare.eq256, lt256, rv, hcx, hcy]
          by_cases heq : cy = cx * 10 ^ (Ex - Ey)
          · rw [if_pos (decide_eq_true heq), wanted_eq _ _ _ _ _ heq.symm (by omega), hle]
          · rw [if_neg (by rw [decide_eq_true_iff]; exact heq), wanted_ne _ _ _ _ _ (Ne.symm heq)]
        · rw [if_neg (by rw [decide_eq_true_iff]; exact h19)]
          obtain ⟨t, r, ht, hr, rv⟩ := Dec.C03GenCompare.scale192 (ex - ey) (Ex - Ey) (by rw [d2]; omega) (by omega) sx
          simp only [ht, hr, bind, Except.bind, Dec.C03GenCompare.eq192, lt192, rv, hcx, hcy]
          by_cases heq : cy = cx * 10 ^ (Ex - Ey)
          · rw [if_pos (decide_eq_true heq), wanted_eq _ _ _ _ _ heq.symm (by omega), hle]
          · rw [if_neg (by rw [decide_eq_true_iff]; exact heq), wanted_ne _ _ _ _ _ (Ne.symm heq)]
  · -- exponent of x not larger
    have hEle : Ex ≤ Ey := by omega
    have hA : cx * 10 ^ (Ex - Ey) = cx := by rw [Nat.sub_eq_zero_of_le hEle, Nat.pow_zero, Nat.mul_one]
    rw [hA]
    have hB := Dec.C03GenCompare.le_scale cy (Ey - Ex)
    have hle : decide (Ex ≤ Ey) = true := decide_eq_true hEle
    by_cases h1 : cy < cx ∧ Ey ≤ Ex
    · have : Ey - Ex = 0 := by omega
      rw [this, Nat.pow_zero, Nat.mul_one]
      simp only [h1.1, h1.2, decide_true, Bool.and_self, if_true]
      rw [wanted_gt _ _ _ _ _ h1.1]
    · rw [if_neg (by simp only [Bool.and_eq_true, decide_eq_true_eq]; exact h1)]
      by_cases h2 : cx < cy
      · simp only [h2, hEle, decide_true, Bool.and_self, if_true]
        rw [wanted_lt _ _ _ _ _ (by omega)]
      · simp only [h2, decide_false, Bool.false_and, Bool.false_eq_true, if_false, hgt]
        by_cases h33 : (33 : Int) < (Ey : Int) - Ex
        · rw [if_pos (decide_eq_true h33), wanted_lt _ _ _ _ _ (Dec.C03GenCompare.big_gap cy cx _ hy0 hx1 (by omega))]
        · rw [if_neg (by rw [decide_eq_true_iff]; exact h33)]
          by_cases h19 : (19 : Int) < (Ey : Int) - Ex
          · rw [if_pos (decide_eq_true h19)]
            obtain ⟨t, r, ht, hr, rv⟩ := Dec.C03GenCompare.scale256 (ey - ex) (Ey - Ex) (by rw [d1']; omega) (by omega)
              (by omega) sy
            simp only [ht, hr, bind, Except.bind, Dec.C03GenCompare.eq256, gt256w, rv, hcx, hcy]
            by_cases heq : cx = cy * 10 ^ (Ey - Ex)
            · rw [if_pos (decide_eq_true heq), wanted_eq _ _ _ _ _ heq (by omega), hle]
            · rw [if_neg (by rw [decide_eq_true_iff]; exact heq), wanted_ne _ _ _ _ _ heq]
          · rw [if_neg (by rw [decide_eq_true_iff]; exact h19)]
            obtain ⟨t, r, ht, hr, rv⟩ := Dec.C03GenCompare.scale192 (ey - ex) (Ey - Ex) (by rw [d1']; omega) (by omega) sy
            simp only [ht, hr, bind, Except.bind, Dec.C03GenCompare.eq192, gt192w, rv, hcx, hcy]
            by_cases heq : cx = cy * 10 ^ (Ey - Ex)
            · rw [if_pos (decide_eq_true heq), wanted_eq _ _ _ _ _ heq ?_, hle]
              intro hE
              rw [hE, Nat.sub_self, Nat.pow_zero, Nat.mul_one] at heq
              exact hne ⟨heq, hE⟩
            · rw [if_neg (by rw [decide_eq_true_iff]; exact heq), wanted_ne _ _ _ _ _ heq]


/-! ## 4. The bit-field tests and fields, in terms of `decode` -/

theorem sgnB_eq (x : U128) : sgnB x = (decode (bitsOf x)).neg := by
  unfold sgnB
  rw [decode_neg, test_field x.w1 _ _ 1 63 1 (by rfl) (by rfl)]
  have := x.w0.toNat_lt
  rw [Bool.eq_iff_iff, decide_eq_true_iff, beq_iff_eq]
  unfold bitsOf
  omega

theorem nanB_eq (x : U128) : nanB x = (decode (bitsOf x)).isNaN := nan_test_decode x
theorem snanB_eq (x : U128) : snanB x = (decode (bitsOf x)).isSNaN := snan_test_decode x
theorem infB_eq (x : U128) : infB x = decide (bitsOf x / 2^123 % 16 = 15) := test_special x
theorem steerB_eq (x : U128) : steerB x = decide (bitsOf x / 2^123 % 16 / 4 = 3) := test_steering x

theorem val_pyldU (x : U128) : val128 (pyldU x) = bitsOf x % 2^110 := by
  have := x.w0.toNat_lt
  unfold val128 pyldU bitsOf
  simp only []
  rw [and_low _ _ 46 (by rfl)]
  omega

theorem val_sigF (x : U128) : val128 (sigF x) = bitsOf x % 2^113 := by
  have := x.w0.toNat_lt
  unfold val128 sigF bitsOf
  simp only []
  rw [and_low _ _ 49 (by rfl)]
  omega

theorem bigP_eq (x : U128) : bigP (x.w1 &&& 70368744177663) x.w0 = decide (P33 ≤ bitsOf x % 2^110) := by
  unfold bigP
  rw [Dec.C03GenCompare.gt128, ← val_pyldU]
  unfold val128 pyldU P33
  simp only []
  rw [show (54210108624275 : UInt64).toNat = 54210108624275 from rfl,
    show (4089650035136921599 : UInt64).toNat = 4089650035136921599 from rfl]
  congr 1

theorem bigC_eq (x : U128) : bigC (x.w1 &&& 562949953421311) x.w0 = decide (P34 ≤ bitsOf x % 2^113) := by
  unfold bigC
  rw [Dec.C03GenCompare.gt128, ← val_sigF]
  unfold val128 sigF P34
  simp only []
  rw [show (542101086242752 : UInt64).toNat = 542101086242752 from rfl,
    show (4003012203950112767 : UInt64).toNat = 4003012203950112767 from rfl]
  congr 1

theorem zeroField_eq (x : U128) : (x.w1 &&& 562949953421311 == 0 && x.w0 == 0) = decide (bitsOf x % 2^113 = 0) := by
  rw [Dec.C03GenCompare.zero128, ← val_sigF]
  rfl

/-- the payload the code compares is the payload of the decoded NaN -/
theorem view_nan {x : U128} {s g : Bool} {p : Nat} (h : decode (bitsOf x) = .nan s g p) : val128 (pyldC x) = p := by
  rcases decode_cases (bitsOf x) with ⟨h1, h2⟩ | ⟨h1, h2⟩ | ⟨h1, h2⟩ | ⟨h1, h2⟩
  · rw [decode_inf _ h1 h2] at h; cases h
  · rw [decode_nan _ h1 h2] at h
    injection h with _ _ hp
    unfold pyldC
    rw [bigP_eq, ← hp]
    by_cases hb : P33 ≤ bitsOf x % 2^110
    · rw [if_pos (decide_eq_true hb), if_neg (by omega)]; rfl
    · rw [if_neg (by rw [decide_eq_true_iff]; exact hb), if_pos (by omega), val_pyldU]
  · rw [decode_large _ h1 h2] at h; cases h
  · rw [decode_small _ h1 h2] at h; cases h

theorem expF_toInt (x : U128) : (expF x).toInt = ((bitsOf x / 2^113 % 2^14 : Nat) : Int) := by
  unfold expF
  simp only [toI]
  rw [field14 _ _ (by decide), show (49 : UInt64).toNat = 49 from rfl, exp_small]
  have : bitsOf x / 2^113 % 2^14 < 2^14 := Nat.mod_lt _ (by decide)
  exact Int32.toInt_ofInt_of_le (by omega) (by omega)

theorem expL_toInt (x : U128) : (expL x).toInt = ((bitsOf x / 2^111 % 2^14 : Nat) : Int) := by
  unfold expL
  simp only [toI]
  rw [field14 _ _ (by decide), show (47 : UInt64).toNat = 47 from rfl, exp_large]
  have : bitsOf x / 2^111 % 2^14 < 2^14 := Nat.mod_lt _ (by decide)
  exact Int32.toInt_ofInt_of_le (by omega) (by omega)

/-- what the code extracts from a finite operand, against its decoded datum `±c·10^e` -/
theorem view_fin {x : U128} {s : Bool} {c : Nat} {e : Int} (h : decode (bitsOf x) = .fin s c e) :
    infB x = false ∧ zeroB x = decide (c = 0) ∧ c < P34 ∧ ∃ E : Nat, E < 2^14 ∧ e = (E : Int) - 6176 ∧
      (c = 0 → (expZ x).toInt = E) ∧
      (c ≠ 0 → (expF x).toInt = E ∧ val128 (sigF x) = c ∧ bitsOf x = signBit s + E * 2^113 + c) := by
  rcases decode_cases (bitsOf x) with ⟨h1, h2⟩ | ⟨h1, h2⟩ | ⟨h1, h2⟩ | ⟨h1, h2⟩
  · rw [decode_inf _ h1 h2] at h; cases h
  · rw [decode_nan _ h1 h2] at h; cases h
  · rw [decode_large _ h1 h2] at h
    injection h with hs hc he
    refine ⟨by rw [infB_eq]; exact decide_eq_false h1, ?_, by rw [← hc]; decide, bitsOf x / 2^111 % 2^14,
      Nat.mod_lt _ (by decide), he.symm, ?_, fun hne => absurd hc.symm hne⟩
    · unfold zeroB
      rw [steerB_eq, decide_eq_true h2, ← hc]; simp
    · intro _
      unfold expZ
      rw [steerB_eq, decide_eq_true h2, if_pos rfl, expL_toInt]
  · rw [decode_small _ h1 h2] at h
    injection h with hs hc he
    have hst : steerB x = false := by rw [steerB_eq]; exact decide_eq_false h2
    have hz : zeroB x = decide (c = 0) := by
      unfold zeroB
      rw [hst, bigC_eq, zeroField_eq, ← hc, Bool.not_false, Bool.and_true, Bool.or_false, Bool.eq_iff_iff]
      simp only [Bool.or_eq_true, decide_eq_true_eq]
      by_cases hb : bitsOf x % 2^113 < P34
      · rw [if_pos hb]; omega
      · rw [if_neg hb]; omega
    refine ⟨by rw [infB_eq]; exact decide_eq_false h1, hz, ?_, bitsOf x / 2^113 % 2^14,
      Nat.mod_lt _ (by decide), he.symm, ?_, ?_⟩
    · rw [← hc]; split
      · assumption
      · decide
    · intro _
      unfold expZ
      rw [hst, if_neg (by decide), expF_toInt]
    · intro hne
      have hb : bitsOf x % 2^113 < P34 := by
        by_cases hb : bitsOf x % 2^113 < P34
        · exact hb
        · rw [if_neg hb] at hc; exact absurd hc.symm hne
      rw [if_pos hb] at hc
      refine ⟨expF_toInt x, by rw [val_sigF, hc], ?_⟩
      have hlt := bitsOf_lt x
      rw [← hs, ← hc, signBit_beq]
      generalize bitsOf x = b at *
      omega


/-! ## 5. Part (1): NaN operands -/

theorem ge128b_eq (a b : U128) : ge128b a b = decide (val128 b ≤ val128 a) := by
  unfold ge128b; rw [ge128]; rfl

theorem le128b_eq (a b : U128) : le128b a b = decide (val128 a ≤ val128 b) := by
  unfold le128b val128
  have := a.w0.toNat_lt; have := b.w0.toNat_lt
  rw [Bool.eq_iff_iff]
  simp only [Bool.or_eq_true, Bool.and_eq_true, decide_eq_true_eq, beq_iff_eq, UInt64.lt_iff_toNat_lt,
    UInt64.le_iff_toNat_le, ← UInt64.toNat_inj]
  omega

/-- `x` a NaN: every branch (sign, NaN-ness of `y`, signalling-ness, payloads as `decode` reads them) -/
theorem spec_xnan (x y : U128) {s g : Bool} {p : Nat} (hdx : decode (bitsOf x) = .nan s g p) :
    bid128_total_order x y = .ok (totalLe (.nan s g p) (decode (bitsOf y))) := by
  have hn : nanB x = true := by rw [nanB_eq, hdx]; rfl
  have hs : sgnB x = s := by rw [sgnB_eq, hdx]; rfl
  have hg : snanB x = g := by rw [snanB_eq, hdx]; rfl
  have hp := view_nan hdx
  rw [total_order_nan x y hn, hs, nanB_eq y, sgnB_eq y]
  unfold nanTail
  rw [hg, snanB_eq y, ge128b_eq, le128b_eq, hp]
  cases hdy : decode (bitsOf y) with
  | fin s' c e => cases s <;> cases s' <;> rfl
  | inf s' => cases s <;> cases s' <;> rfl
  | nan s' g' p' =>
    rw [view_nan hdy]
    cases s <;> cases s' <;> cases g <;> cases g' <;> rfl


/-! ## 6. Parts (1)–(4): `x` not a NaN -/

theorem beq_words (x y : U128) : (x.w1 == y.w1 && x.w0 == y.w0) = decide (x = y) := by
  rw [Bool.eq_iff_iff, decide_eq_true_iff, Bool.and_eq_true, beq_iff_eq, beq_iff_eq]
  constructor
  · intro ⟨h1, h0⟩; cases x; cases y; simp_all
  · intro h; rw [h]; exact ⟨rfl, rfl⟩

theorem i32_beq (a b : Int32) : (a == b) = decide (a.toInt = b.toInt) := by
  rw [Bool.eq_iff_iff, beq_iff_eq, decide_eq_true_iff, Int32.toInt_inj]

/-- totalLe on two finite data of the same sign, on biased exponents -/
theorem totalLe_fin_same (s : Bool) (c1 E1 c2 E2 : Nat) :
    totalLe (.fin s c1 ((E1 : Int) - 6176)) (.fin s c2 ((E2 : Int) - 6176))
      = wanted s (c1 * 10 ^ (E1 - E2)) (c2 * 10 ^ (E2 - E1)) E1 E2 := by
  cases s
  · show totalKeyFinLe _ _ _ _ = _
    rw [tk_eq']; rfl
  · show totalKeyFinLe _ _ _ _ = _
    rw [tk_eq']; rfl

/-- `x` not a NaN, `y` a NaN -/
theorem spec_ynan (x y : U128) (hx : (decode (bitsOf x)).isNaN = false) {s' g' : Bool} {p' : Nat}
    (hdy : decode (bitsOf y) = .nan s' g' p') :
    bid128_total_order x y = .ok (totalLe (decode (bitsOf x)) (.nan s' g' p')) := by
  rw [total_order_nonnan x y (by rw [nanB_eq, hx]), nanB_eq y, hdy,
    if_pos (show (Datum.nan s' g' p').isNaN = true from rfl), sgnB_eq y, hdy]
  cases hdx : decode (bitsOf x) with
  | nan s g p => rw [hdx] at hx; exact Bool.noConfusion hx
  | inf s => cases s <;> cases s' <;> rfl
  | fin s c e => cases s <;> cases s' <;> rfl

theorem view_inf {x : U128} {s : Bool} (hdx : decode (bitsOf x) = .inf s) : infB x = true := by
  rw [infB_eq]
  rcases decode_cases (bitsOf x) with ⟨h1, h2⟩ | ⟨h1, h2⟩ | ⟨h1, h2⟩ | ⟨h1, h2⟩
  · exact decide_eq_true h1
  · exact decide_eq_true h1
  · rw [decode_large _ h1 h2] at hdx; cases hdx
  · rw [decode_small _ h1 h2] at hdx; cases hdx

/-- neither a NaN, at least one infinite -/
theorem spec_inf (x y : U128) (hx : (decode (bitsOf x)).isNaN = false) (hy : (decode (bitsOf y)).isNaN = false)
    (hi : (decode (bitsOf x)).isInf = true ∨ (decode (bitsOf y)).isInf = true) :
    bid128_total_order x y = .ok (totalLe (decode (bitsOf x)) (decode (bitsOf y))) := by
  rw [total_order_nonnan x y (by rw [nanB_eq, hx]), nanB_eq y, hy, if_neg (by decide), beq_words]
  by_cases hxy : x = y
  · rw [if_pos (decide_eq_true hxy), hxy, C18.refl]
  · rw [if_neg (by rw [decide_eq_true_iff]; exact hxy), sgnB_eq x, sgnB_eq y]
    cases hdx : decode (bitsOf x) with
    | nan s g p => rw [hdx] at hx; exact Bool.noConfusion hx
    | inf s =>
      rw [view_inf hdx]
      cases hdy : decode (bitsOf y) with
      | nan s' g' p' => rw [hdy] at hy; exact Bool.noConfusion hy
      | inf s' => rw [view_inf hdy]; cases s <;> cases s' <;> rfl
      | fin s' c' e' => rw [(view_fin hdy).1]; cases s <;> cases s' <;> rfl
    | fin s c e =>
      rw [(view_fin hdx).1]
      cases hdy : decode (bitsOf y) with
      | nan s' g' p' => rw [hdy] at hy; exact Bool.noConfusion hy
      | inf s' => rw [view_inf hdy]; cases s <;> cases s' <;> rfl
      | fin s' c' e' => rw [hdx, hdy] at hi; rcases hi with h | h <;> exact Bool.noConfusion h


/-- both finite -/
theorem spec_fin (x y : U128) {s s' : Bool} {c c' : Nat} {e e' : Int}
    (hdx : decode (bitsOf x) = .fin s c e) (hdy : decode (bitsOf y) = .fin s' c' e') :
    bid128_total_order x y = .ok (totalLe (.fin s c e) (.fin s' c' e')) := by
  rw [total_order_nonnan x y (by rw [nanB_eq, hdx]; rfl), nanB_eq y, hdy,
    if_neg (show ¬ (Datum.fin s' c' e').isNaN = true from Bool.false_ne_true), beq_words]
  by_cases hxy : x = y
  · have : Datum.fin s c e = .fin s' c' e' := by rw [← hdx, ← hdy, hxy]
    rw [if_pos (decide_eq_true hxy), this, C18.refl]
  · rw [if_neg (by rw [decide_eq_true_iff]; exact hxy), sgnB_eq x, sgnB_eq y, hdx, hdy]
    show (if (s != s') = true then _ else _) = _
    by_cases hss : s = s'
    · subst hss
      rw [if_neg (by simp)]
      obtain ⟨hix, hzx, hcx, E, hE, he, hz0, hnz⟩ := view_fin hdx
      obtain ⟨hiy, hzy, hcy, E', hE', he', hz0', hnz'⟩ := view_fin hdy
      subst he he'
      rw [hix, hiy, hzx, hzy, totalLe_fin_same]
      simp only [Bool.false_eq_true, if_false]
      simp only [neg_fin]
      by_cases hc : c = 0
      · subst hc
        rw [if_pos (decide_eq_true rfl)]
        have hex := hz0 rfl
        by_cases hc' : c' = 0
        · subst hc'
          rw [if_pos (decide_eq_true rfl), i32_beq, i32_le, hex, hz0' rfl]
          simp only [Nat.zero_mul, Int.ofNat_le, Int.natCast_inj]
          by_cases hEE : E = E'
          · subst hEE
            rw [if_pos (decide_eq_true rfl)]
            cases s <;> simp [wanted]
          · rw [if_neg (by rw [decide_eq_true_iff]; exact hEE), wanted_eq _ _ _ _ _ rfl hEE]
        · rw [if_neg (by rw [decide_eq_true_iff]; exact hc'), Nat.zero_mul,
            wanted_lt _ _ _ _ _ (Nat.mul_pos (Nat.pos_of_ne_zero hc') (Nat.pow_pos (by decide)))]
      · rw [if_neg (by rw [decide_eq_true_iff]; exact hc)]
        obtain ⟨hex, hsx, hbx⟩ := hnz hc
        by_cases hc' : c' = 0
        · subst hc'
          rw [if_pos (decide_eq_true rfl), Nat.zero_mul,
            wanted_gt _ _ _ _ _ (Nat.mul_pos (Nat.pos_of_ne_zero hc) (Nat.pow_pos (by decide)))]
        · rw [if_neg (by rw [decide_eq_true_iff]; exact hc')]
          obtain ⟨hey, hsy, hby⟩ := hnz' hc'
          rw [magTail_spec s _ _ _ _ E E' hex hey hE hE' (by omega) (by omega) (by omega) (by omega) ?_, hsx, hsy]
          rw [hsx, hsy]
          rintro ⟨h1, h2⟩
          apply hxy
          rw [← ofBits_bitsOf x, ← ofBits_bitsOf y, hbx, hby, h1, h2]
    · rw [if_pos (by cases s <;> cases s' <;> simp_all)]
      cases s <;> cases s' <;> first | rfl | exact absurd rfl hss


/-- **`bid128_total_order`**: for ALL pairs of 128-bit patterns (non-canonical encodings included) the routine returns
(never panics) the IEEE 754-2008 §5.10 `totalOrder` predicate of the decoded operands, `Dec.totalLe`. -/
theorem total_order_spec (x y : U128) :
    bid128_total_order x y = .ok (totalLe (decode (bitsOf x)) (decode (bitsOf y))) := by
  cases hdx : decode (bitsOf x) with
  | nan s g p => exact spec_xnan x y hdx
  | inf s =>
    cases hdy : decode (bitsOf y) with
    | nan s' g' p' => rw [← hdx]; exact spec_ynan x y (by rw [hdx]; rfl) hdy
    | inf s' => rw [← hdx, ← hdy]; exact spec_inf x y (by rw [hdx]; rfl) (by rw [hdy]; rfl) (Or.inl (by rw [hdx]; rfl))
    | fin s' c' e' =>
      rw [← hdx, ← hdy]; exact spec_inf x y (by rw [hdx]; rfl) (by rw [hdy]; rfl) (Or.inl (by rw [hdx]; rfl))
  | fin s c e =>
    cases hdy : decode (bitsOf y) with
    | nan s' g' p' => rw [← hdx]; exact spec_ynan x y (by rw [hdx]; rfl) hdy
    | inf s' => rw [← hdx, ← hdy]; exact spec_inf x y (by rw [hdx]; rfl) (by rw [hdy]; rfl) (Or.inr (by rw [hdy]; rfl))
    | fin s' c' e' => exact spec_fin x y hdx hdy


/-! ## 7. `bid128_total_order_mag` -/

/-- the operand with its sign bit cleared, as `bid128_total_order_mag` does first -/
def absU (x : U128) : U128 := ⟨x.w0, x.w1 &&& 0x7fffffffffffffff⟩

set_option linter.unusedSimpArgs false in
/-- `bid128_total_order_mag` when `|x|` passes the NaN test -/
theorem mag_nan (x y : U128) (hx : nanB (absU x) = true) : bid128_total_order_mag x y =
      if !nanB (absU y) then .ok false else nanTail (absU x) (absU y) le128b (snanB (absU x)) := by
  unfold bid128_total_order_mag
  unfold nanB absU at hx
  simp only [] at hx
  simp only [pure, Except.pure, bne, hx, if_true]
  by_cases hpx : bigP (x.w1 &&& 9223372036854775807 &&& 70368744177663) x.w0 = true <;>
    by_cases hpy : bigP (y.w1 &&& 9223372036854775807 &&& 70368744177663) y.w0 = true <;>
    simp only [nanTail, pyldC, absU, hpx, hpy, if_true, if_false, Bool.false_eq_true] <;>
    simp only [bigP] at hpx hpy <;>
    simp only [hpx, hpy, if_true, if_false, Bool.false_eq_true, sgnB, nanB, snanB, ge128b, le128b, bne, pyldU] <;>
    rfl


/-- the magnitude comparison of `bid128_total_order_mag` for finite non-zero operands (its equal-value branches return
constants where `bid128_total_order` recomputes `exp_x ≤ exp_y`) -/
def magTailM (ex ey : Int32) (sx sy : U128) : Except String Bool :=
  if (decide (sx.w1 > sy.w1) || sx.w1 == sy.w1 && decide (sx.w0 > sy.w0)) && decide (ex ≥ ey) then .ok false
  else if (decide (sx.w1 < sy.w1) || sx.w1 == sy.w1 && decide (sx.w0 < sy.w0)) && decide (ex ≤ ey) then .ok true
  else if decide (ex > ey) then
    if decide (ex - ey > 33) then .ok false
    else if decide (ex - ey > 19) then do
      let t ← tbl128 Dec.Gen.BID_TEN2K128 (UInt64.ofInt (toI (ex - ey - 20)))
      let v ← mul_128x128_to_256 sx t
      if v.w3 == 0 && v.w2 == 0 && v.w1 == sy.w1 && v.w0 == sy.w0 then .ok false
      else .ok (v.w3 == 0 && v.w2 == 0 && (decide (v.w1 < sy.w1) || v.w1 == sy.w1 && decide (v.w0 < sy.w0)))
    else do
      let t ← tbl64 Dec.Gen.BID_TEN2K64 (UInt64.ofInt (toI (ex - ey)))
      let v ← mul_64x128_to_192 t sx
      if v.w2 == 0 && v.w1 == sy.w1 && v.w0 == sy.w0 then .ok false
      else .ok (v.w2 == 0 && (decide (v.w1 < sy.w1) || v.w1 == sy.w1 && decide (v.w0 < sy.w0)))
  else if decide (ey - ex > 33) then .ok true
  else if decide (ey - ex > 19) then do
    let t ← tbl128 Dec.Gen.BID_TEN2K128 (UInt64.ofInt (toI (ey - ex - 20)))
    let v ← mul_128x128_to_256 sy t
    if v.w3 == 0 && v.w2 == 0 && v.w1 == sx.w1 && v.w0 == sx.w0 then .ok true
    else .ok (v.w3 != 0 || v.w2 != 0 || decide (v.w1 > sx.w1) || v.w1 == sx.w1 && decide (v.w0 > sx.w0))
  else do
    let t ← tbl64 Dec.Gen.BID_TEN2K64 (UInt64.ofInt (toI (ey - ex)))
    let v ← mul_64x128_to_192 t sy
    if v.w2 == 0 && v.w1 == sx.w1 && v.w0 == sx.w0 then .ok true
    else .ok (v.w2 != 0 || decide (v.w1 > sx.w1) || v.w1 == sx.w1 && decide (v.w0 > sx.w0))

theorem magTailM_eq (ex ey : Int32) (sx sy : U128) : magTailM ex ey sx sy = magTail false ex ey sx sy := by
  unfold magTailM magTail
  by_cases h : ex > ey
  · have hle : decide (ex ≤ ey) = false := by
      rw [decide_eq_false_iff_not, Int32.le_iff_toInt_le]
      rw [gt_iff_lt, Int32.lt_iff_toInt_lt] at h; omega
    simp only [h, hle, decide_true, if_true, Bool.bne_false, Bool.not_false, Bool.and_false, Bool.false_eq_true, if_false]
  · have hle : decide (ex ≤ ey) = true := by
      rw [decide_eq_true_iff, Int32.le_iff_toInt_le]
      rw [gt_iff_lt, Int32.lt_iff_toInt_lt] at h; omega
    simp only [h, hle, decide_false, Bool.false_eq_true, if_false, Bool.bne_false, Bool.not_false, Bool.and_true]

set_option linter.unusedSimpArgs false in
/-- `bid128_total_order_mag` when `|x|` fails the NaN test, ending in `magTailM` -/
theorem mag_nonnan (x y : U128) (hx : nanB (absU x) = false) : bid128_total_order_mag x y =
    if nanB (absU y) then .ok true
    else if (absU x).w1 == (absU y).w1 && (absU x).w0 == (absU y).w0 then .ok true
    else if infB (absU x) then .ok (infB (absU y))
    else if infB (absU y) then .ok true
    else if zeroB (absU x) then
      (if zeroB (absU y) then
         (if expZ (absU x) == expZ (absU y) then .ok true else .ok (decide (expZ (absU x) ≤ expZ (absU y))))
       else .ok true)
    else if zeroB (absU y) then .ok false
    else magTailM (expF (absU x)) (expF (absU y)) (sigF (absU x)) (sigF (absU y)) := by
  unfold bid128_total_order_mag
  unfold nanB absU at hx
  simp only [] at hx
  simp only [pure, Except.pure, bne, hx, if_false, Bool.false_eq_true]
  by_cases hzx : (bigC (x.w1 &&& 9223372036854775807 &&& 562949953421311) x.w0 &&
        !(x.w1 &&& 9223372036854775807 &&& 6917529027641081856 == 6917529027641081856) ||
      x.w1 &&& 9223372036854775807 &&& 6917529027641081856 == 6917529027641081856 ||
      x.w1 &&& 9223372036854775807 &&& 562949953421311 == 0 && x.w0 == 0) = true <;>
  by_cases hzy : (bigC (y.w1 &&& 9223372036854775807 &&& 562949953421311) y.w0 &&
        !(y.w1 &&& 9223372036854775807 &&& 6917529027641081856 == 6917529027641081856) ||
      y.w1 &&& 9223372036854775807 &&& 6917529027641081856 == 6917529027641081856 ||
      y.w1 &&& 9223372036854775807 &&& 562949953421311 == 0 && y.w0 == 0) = true <;>
  by_cases hsx : (x.w1 &&& 9223372036854775807 &&& 6917529027641081856 == 6917529027641081856) = true <;>
  by_cases hsy : (y.w1 &&& 9223372036854775807 &&& 6917529027641081856 == 6917529027641081856) = true <;>
    simp only [zeroB, steerB, expZ, absU, hzx, hzy, if_true, if_false, Bool.false_eq_true] <;>
    simp only [bigC] at hzx hzy <;>
    simp only [hzx, hzy, if_true, if_false, Bool.false_eq_true, Bool.and_true, Bool.true_and, Bool.and_false,
      Bool.false_and] <;>
    simp only [hsx, hsy, if_true, if_false, Bool.false_eq_true, Bool.and_true, Bool.true_and, Bool.and_false,
      Bool.false_and, sgnB, nanB, infB, bne, expF, expL, sigF, magTailM] <;>
    rfl


theorem bitsOf_abs (x : U128) : bitsOf (absU x) = bitsOf x % 2^127 := by
  have := x.w0.toNat_lt
  have := x.w1.toNat_lt
  unfold bitsOf absU
  simp only []
  rw [and_low _ _ 63 (by rfl)]
  omega

theorem sgnB_abs (x : U128) : sgnB (absU x) = false := by
  rw [sgnB_eq, decode_neg, bitsOf_abs, beq_eq_false_iff_ne]
  omega

/-- clearing bit 127 of a pattern clears the sign of the decoded datum and changes nothing else -/
theorem decode_mod (b : Nat) (_hb : b < 2^128) : decode (b % 2^127) = (decode b).setSign false := by
  have f1 : b % 2^127 / 2^123 % 16 = b / 2^123 % 16 := by omega
  have f2 : b % 2^127 / 2^122 % 2 = b / 2^122 % 2 := by omega
  have f3 : b % 2^127 / 2^127 % 2 = 0 := by omega
  have f4 : b % 2^127 / 2^121 % 2 = b / 2^121 % 2 := by omega
  have f5 : b % 2^127 % 2^110 = b % 2^110 := by omega
  have f6 : b % 2^127 / 2^111 % 2^14 = b / 2^111 % 2^14 := by omega
  have f7 : b % 2^127 / 2^113 % 2^14 = b / 2^113 % 2^14 := by omega
  have f8 : b % 2^127 % 2^113 = b % 2^113 := by omega
  rcases decode_cases b with ⟨h1, h2⟩ | ⟨h1, h2⟩ | ⟨h1, h2⟩ | ⟨h1, h2⟩
  · rw [decode_inf b h1 h2, decode_inf _ (by rw [f1]; exact h1) (by rw [f2]; exact h2), f3]; rfl
  · rw [decode_nan b h1 h2, decode_nan _ (by rw [f1]; exact h1) (by rw [f2]; exact h2), f3, f4, f5]; rfl
  · rw [decode_large b h1 h2, decode_large _ (by rw [f1]; exact h1) (by rw [f1]; exact h2), f3, f6]; rfl
  · rw [decode_small b h1 h2, decode_small _ (by rw [f1]; exact h1) (by rw [f1]; exact h2), f3, f7, f8]; rfl

theorem decode_abs (x : U128) : decode (bitsOf (absU x)) = (decode (bitsOf x)).setSign false := by
  rw [bitsOf_abs, decode_mod _ (bitsOf_lt x)]

/-- `bid128_total_order_mag` is `bid128_total_order` on the operands with their sign bits cleared -/
theorem mag_eq (x y : U128) : bid128_total_order_mag x y = bid128_total_order (absU x) (absU y) := by
  by_cases hn : nanB (absU x) = true
  · rw [mag_nan x y hn, total_order_nan _ _ hn, sgnB_abs, sgnB_abs]
    simp only [Bool.false_eq_true, if_false, Bool.or_false]
  · have hn' : nanB (absU x) = false := by simpa using hn
    rw [mag_nonnan x y hn', total_order_nonnan _ _ hn', sgnB_abs, sgnB_abs, magTailM_eq]
    simp only [Bool.not_false, bne_self_eq_false, Bool.false_eq_true, if_false, Bool.bne_false]

/-- **`bid128_total_order_mag`**: for ALL pairs of 128-bit patterns the routine returns (never panics) `totalOrderMag`,
the total order of the magnitudes of the decoded operands, `Dec.totalLeMag`. -/
theorem total_order_mag_spec (x y : U128) :
    bid128_total_order_mag x y = .ok (totalLeMag (decode (bitsOf x)) (decode (bitsOf y))) := by
  rw [mag_eq, total_order_spec, decode_abs, decode_abs, ← C18.mag_is_abs]


/-! ## 8. Examples (the translated routines evaluated by the kernel, and the theorems instantiated) -/

-- −qNaN(7) ≤ −qNaN(5) (larger payload first among negatives), −qNaN ≤ −sNaN, +sNaN ≤ +qNaN
example : bid128_total_order ⟨7, 0xfc00000000000000⟩ ⟨5, 0xfc00000000000000⟩ = .ok true := by decide +kernel
example : bid128_total_order ⟨5, 0xfc00000000000000⟩ ⟨7, 0xfc00000000000000⟩ = .ok false := by decide +kernel
example : bid128_total_order ⟨5, 0xfc00000000000000⟩ ⟨5, 0xfe00000000000000⟩ = .ok true := by decide +kernel
example : bid128_total_order ⟨9, 0x7e00000000000000⟩ ⟨0, 0x7c00000000000000⟩ = .ok true := by decide +kernel
-- a payload field ≥ 10^33 reads as 0, reserved bits 120..110 are ignored: qNaN(field 2^110−1) ≤ qNaN(1)
example : bid128_total_order ⟨0xffffffffffffffff, 0x7c003fffffffffff⟩ ⟨1, 0x7dffc00000000000⟩ = .ok true := by
  decide +kernel
example : decode (bitsOf ⟨0xffffffffffffffff, 0x7c003fffffffffff⟩) = .nan false false 0 ∧
    decode (bitsOf ⟨1, 0x7dffc00000000000⟩) = .nan false false 1 := by decide +kernel
-- zeros: −0E+5 ≤ −0E−3 ≤ +0E−3 ≤ +0E+5; a non-canonical coefficient is a zero: +(10^34)E0 ≤ +0E+1
example : bid128_total_order ⟨0, 0xb04a000000000000⟩ ⟨0, 0xb03a000000000000⟩ = .ok true := by decide +kernel
example : bid128_total_order ⟨0, 0x303a000000000000⟩ ⟨0, 0xb03a000000000000⟩ = .ok false := by decide +kernel
example : bid128_total_order ⟨0x378d8e6400000000, 0x3041ed09bead87c0⟩ ⟨0, 0x3042000000000000⟩ = .ok true := by
  decide +kernel
-- the large-coefficient form (a zero whose exponent sits in bits 124..111) against an ordinary zero
example : bid128_total_order ⟨5, 0x6000800000000000⟩ ⟨0, 0x0002000000000000⟩ = .ok true := by decide +kernel
-- same value, different exponents: 10E0 ≤ 1E+1 but not conversely; reversed for negatives (gap 1: 64×128 product)
example : bid128_total_order ⟨10, 0x3040000000000000⟩ ⟨1, 0x3042000000000000⟩ = .ok true := by decide +kernel
example : bid128_total_order ⟨1, 0x3042000000000000⟩ ⟨10, 0x3040000000000000⟩ = .ok false := by decide +kernel
example : bid128_total_order ⟨1, 0xb042000000000000⟩ ⟨10, 0xb040000000000000⟩ = .ok true := by decide +kernel
-- gap 25 (128×128 product): 1E+25 against 10^25 + 1
example : bid128_total_order ⟨1, 0x3072000000000000⟩ ⟨0x161401484a000001, 0x3040000000084595⟩ = .ok true := by
  decide +kernel
example : bid128_total_order ⟨0x161401484a000001, 0x3040000000084595⟩ ⟨1, 0x3072000000000000⟩ = .ok false := by
  decide +kernel
-- … and against 10^25 itself (same value: the smaller exponent first)
example : bid128_total_order ⟨0x161401484a000000, 0x3040000000084595⟩ ⟨1, 0x3072000000000000⟩ = .ok true := by
  decide +kernel
example : bid128_total_order ⟨1, 0x3072000000000000⟩ ⟨0x161401484a000000, 0x3040000000084595⟩ = .ok false := by
  decide +kernel
-- gap 40 (> 33, no multiplication)
example : bid128_total_order ⟨1, 0x3090000000000000⟩ ⟨0xffffffffffffffff, 0x3040ffffffffffff⟩ = .ok false := by
  decide +kernel
-- magnitudes: |−3| ≤ |+3| and |+3| ≤ |−3|; |−Inf| is not ≤ |5|; |sNaN| ≤ |−qNaN|
example : bid128_total_order_mag ⟨3, 0xb040000000000000⟩ ⟨3, 0x3040000000000000⟩ = .ok true := by decide +kernel
example : bid128_total_order_mag ⟨3, 0x3040000000000000⟩ ⟨3, 0xb040000000000000⟩ = .ok true := by decide +kernel
example : bid128_total_order_mag ⟨0, 0xf800000000000000⟩ ⟨5, 0x3040000000000000⟩ = .ok false := by decide +kernel
example : bid128_total_order_mag ⟨0, 0x7e00000000000000⟩ ⟨0, 0xfc00000000000000⟩ = .ok true := by decide +kernel
-- the theorems on concrete inputs
example : bid128_total_order ⟨10, 0x3040000000000000⟩ ⟨1, 0x3042000000000000⟩
    = .ok (totalLe (decode (bitsOf ⟨10, 0x3040000000000000⟩)) (decode (bitsOf ⟨1, 0x3042000000000000⟩))) :=
  total_order_spec _ _
example : totalLe (decode (bitsOf ⟨10, 0x3040000000000000⟩)) (decode (bitsOf ⟨1, 0x3042000000000000⟩)) = true := by
  decide +kernel
example : bid128_total_order_mag ⟨3, 0xb040000000000000⟩ ⟨0, 0xf800000000000000⟩
    = .ok (totalLeMag (decode (bitsOf ⟨3, 0xb040000000000000⟩)) (decode (bitsOf ⟨0, 0xf800000000000000⟩))) :=
  total_order_mag_spec _ _

end Dec.C18GenTotalOrder
