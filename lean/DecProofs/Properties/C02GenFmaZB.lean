/-
  C02GenFmaZ (part B: scaling of z) — see C02GenFmaZ.lean
-/
import DecProofs.Properties.C02GenFmaZA
set_option linter.unusedSimpArgs false
set_option linter.unusedVariables false
namespace Dec.C02GenFmaZ
open Dec Dec.Rs Dec.Gen.Code Dec.C03GenCompare Dec.C02GenCorrection
open Dec.C01GenAdd (idx_i32 i32_le_lit ten2k128_get19 pow_lt_of_digits assemble' exp_after encode_at lt113)
open Dec.C13GenNoncomp (bmod32 val256)
open Dec.C08GenRoundIntegral (bind_ok' ite_true_bool ite_false_bool i32_add i32_sub i32_neg)

/-! ## 2. Word-level ingredients -/

/-- **`C3 · 10^S`** as the code obtains it, in whichever of its three multiplication paths: the table entry and the product
exist (no index out of range) and the product is exact -/
theorem pad_facts (q sc : Int32) (C : U128) (c Q S : Nat) (hC : C.w1.toNat * 2^64 + C.w0.toNat = c)
    (hq : q.toInt = Q) (hsc : sc.toInt = S) (hQ : Q = ndigits c) (hc0 : 0 < c) (hS1 : 1 ≤ S) (hfit : Q + S ≤ 34) :
    (decide (q ≤ 19) = decide (Q ≤ 19)) ∧ (decide (sc ≤ 19) = decide (S ≤ 19)) ∧
    (Q ≤ 19 → S ≤ 19 → ∃ v r, tbl64 Dec.Gen.BID_TEN2K64 (UInt64.ofInt (toI sc)) = .ok v ∧
        mul_64x64_to_128MACH C.w0 v = .ok r ∧ r.w1.toNat * 2^64 + r.w0.toNat = c * 10 ^ S) ∧
    (Q ≤ 19 → 19 < S → ∃ v r, tbl128 Dec.Gen.BID_TEN2K128 (UInt64.ofInt (toI (sc - 20))) = .ok v ∧
        mul_128x64_to_128 C.w0 v = .ok r ∧ r.w1.toNat * 2^64 + r.w0.toNat = c * 10 ^ S) ∧
    (19 < Q → ∃ v r, tbl64 Dec.Gen.BID_TEN2K64 (UInt64.ofInt (toI sc)) = .ok v ∧
        mul_128x64_to_128 v C = .ok r ∧ r.w1.toNat * 2^64 + r.w0.toNat = c * 10 ^ S) := by
  have hl := C.w0.toNat_lt
  have hlt := pow_lt_of_digits hQ hfit
  have hQ1 : 1 ≤ Q := by rw [hQ]; exact ndigits_pos hc0
  have sw : ∀ r : U128, r.toNat' = r.w0.toNat + 2^64 * r.w1.toNat := fun r => rfl
  refine ⟨by rw [i32_le_lit, hq, decide_eq_decide]; show (Q : Int) ≤ 19 ↔ _; omega,
    by rw [i32_le_lit, hsc, decide_eq_decide]; show (S : Int) ≤ 19 ↔ _; omega, ?_, ?_, ?_⟩
  · intro c1 c2
    have hCs : c < 10^19 := by
      have : c < 10^Q := by rw [hQ]; exact lt_pow_ndigits c
      exact lt_of_lt_of_le this (Nat.pow_le_pow_right (by decide) c1)
    have hlC : C.w0.toNat = c := by have : (10:Nat)^19 < 2^64 := by decide
                                    omega
    obtain ⟨v, hv, hv10⟩ := Dec.C13GenNoncomp.ten2k64_get S (by omega)
    obtain ⟨r, hr, hrv⟩ := C01GenArith.gen_mul_64x64_to_128MACH C.w0 v
    refine ⟨v, r, by rw [idx_i32 sc S hsc, hv], hr, ?_⟩
    rw [sw, hlC, hv10] at hrv
    rw [← hrv, Nat.add_comm, Nat.mul_comm]
  · intro c1 c2
    have hCs : c < 10^19 := by
      have : c < 10^Q := by rw [hQ]; exact lt_pow_ndigits c
      exact lt_of_lt_of_le this (Nat.pow_le_pow_right (by decide) c1)
    have hlC : C.w0.toNat = c := by have : (10:Nat)^19 < 2^64 := by decide
                                    omega
    have hs20 : (sc - 20).toInt = ((S - 20 : Nat) : Int) := by
      rw [Int32.toInt_sub, hsc, show (20 : Int32).toInt = 20 from rfl, bmod32 _ (by omega) (by omega)]
      omega
    obtain ⟨v, hv, hv10⟩ := ten2k128_get19 (S - 20) (by omega)
    obtain ⟨r, hr, hrv⟩ := C01GenArith.gen_mul_128x64_to_128_exact C.w0 v (by
      rw [hv10, hlC, show S - 20 + 20 = S from by omega]
      exact lt_trans hlt (by decide))
    refine ⟨v, r, by rw [idx_i32 (sc - 20) (S - 20) hs20, hv], hr, ?_⟩
    rw [sw, hv10, hlC, show S - 20 + 20 = S from by omega] at hrv
    rw [← hrv, Nat.add_comm, Nat.mul_comm]
  · intro c1
    obtain ⟨v, hv, hv10⟩ := Dec.C13GenNoncomp.ten2k64_get S (by omega)
    obtain ⟨r, hr, hrv⟩ := C01GenArith.gen_mul_128x64_to_128_exact v C (by
      rw [hv10, sw, show C.w0.toNat + 2^64 * C.w1.toNat = c from by omega, Nat.mul_comm]
      exact lt_trans hlt (by decide))
    refine ⟨v, r, by rw [idx_i32 sc S hsc, hv], hr, ?_⟩
    rw [sw, hv10, sw, show C.w0.toNat + 2^64 * C.w1.toNat = c from by omega] at hrv
    rw [Nat.mul_comm c, ← hrv, Nat.add_comm, Nat.mul_comm]


theorem mask_exp_id (w : UInt64) (E : Nat) (hw : w.toNat = E * 2^49) (hE : E < 2^14) : w &&& c_MASK_EXP = w := by
  apply UInt64.toNat_inj.1
  rw [Dec.C01GenAdd.exp_field, hw]
  omega

/-- the exponent word after `S` zeros were appended (the exponent word of a product may exceed 14 bits) -/
theorem exp_after' (ea : UInt64) (sc : Int32) (A S : Nat) (ha : ea.toNat = A * 2^49) (hs : sc.toInt = S) (hSA : S ≤ A)
    (hA : A < 2^15) : (ea - (UInt64.ofInt (toI sc)) <<< 49).toNat = (A - S) * 2^49 := by
  have e : ((UInt64.ofInt (toI sc)) <<< 49).toNat = S * 2^49 := by
    rw [idx_i32 sc S hs, Dec.C01GenAdd.shl49, UInt64.toNat_ofNat', Nat.mod_eq_of_lt (by omega)]
    omega
  rw [UInt64.toNat_sub_of_le _ _ (by rw [UInt64.le_iff_toNat_le, e, ha]; exact Nat.mul_le_mul_right _ hSA), e, ha,
    Nat.sub_mul]

/-- sign word, exponent word and a coefficient below `2^113` packed by `|`: the canonical encoding -/
theorem asm (l h sw ew : UInt64) (s : Bool) (M E : Nat) (hP : h.toNat * 2^64 + l.toNat = M) (hM : M < 2^113)
    (hsw : sw.toNat = if s then 2^63 else 0) (hew : ew.toNat = E * 2^49) (hE : E < 2^14) :
    (⟨l, h ||| (sw ||| ew)⟩ : U128) = ofBits (encode (.fin s M ((E : Int) - 6176))) := by
  rw [encode_at, ← UInt64.or_assoc]
  exact assemble' l h sw ew s M E hP hM hsw hew hE

theorem beq_zero_i32 (a : Int32) (n : Nat) (h : a.toInt = n) : (a == 0) = decide (n = 0) := by
  rw [Bool.eq_iff_iff, beq_iff_eq, decide_eq_true_eq, ← Int32.toInt_inj, h]
  show (n : Int) = 0 ↔ _
  omega

/-- Cases (1')/(1''A), `q3 < 34`: `res` := `C3·10^scale` packed with sign and lowered exponent, underflow if fewer than 34 digits (the translated text) -/
def z1SW {α : Type} (pfpsf_ : UInt32) (res_ : U128) (z_sign_ : UInt64) (z_exp_ : UInt64) (C3_ : U128) (q3_ : Int32) (e3_ : Int32) (scale_ : Int32) (p34_ : Int32) (k : Int32 → U128 → UInt64 → Int32 → UInt32 → Except String α) : Except String α := do
  let mut pfpsf : UInt32 := pfpsf_
  let mut res : U128 := res_
  let mut z_sign : UInt64 := z_sign_
  let mut z_exp : UInt64 := z_exp_
  let mut C3 : U128 := C3_
  let mut q3 : Int32 := q3_
  let mut e3 : Int32 := e3_
  let mut scale : Int32 := scale_
  let mut p34 : Int32 := p34_
  if (scale == (0 : Int32)) then
    res := { res with w1 := C3.w1 }
    res := { res with w0 := C3.w0 }
  else
    if (decide (q3 ≤ (0x13 : Int32))) then
      res := (← (if (decide (scale ≤ (0x13 : Int32))) then (do pure (← mul_64x64_to_128MACH C3.w0 (← tbl64 Dec.Gen.BID_TEN2K64 (UInt64.ofInt (toI scale))))) else (do pure (← mul_128x64_to_128 C3.w0 (← tbl128 Dec.Gen.BID_TEN2K128 (UInt64.ofInt (toI ((scale - (0x14 : Int32))))))))))
    else
      res := (← mul_128x64_to_128 (← tbl64 Dec.Gen.BID_TEN2K64 (UInt64.ofInt (toI scale))) C3)
  z_exp := (z_exp - (((UInt64.ofInt (toI scale))) <<< 0x31))
  e3 := (e3 - scale)
  res := { res with w1 := (res.w1 ||| (z_sign ||| ((z_exp &&& c_MASK_EXP)))) }
  if (decide ((scale + q3) < p34)) then
    pfpsf := (pfpsf ||| c_StatusFlags_BID_UNDERFLOW_EXCEPTION)
  k scale res z_exp e3 pfpsf

theorem z1Scale_eq {α : Type} (pfpsf : UInt32) (res : U128) (z_sign z_exp : UInt64) (C3 : U128) (q3 e3 scale ind p34 : Int32)
    (k : Int32 → U128 → UInt64 → Int32 → UInt32 → Except String α) :
    z1Scale pfpsf res z_sign z_exp C3 q3 e3 scale ind p34 k =
      if decide (q3 < p34) = true then
        (if decide (e3 + 0x1820 < p34 - q3) = true then z1SW pfpsf res z_sign z_exp C3 q3 e3 (e3 + 0x1820) p34 k
         else z1SW pfpsf res z_sign z_exp C3 q3 e3 (p34 - q3) p34 k)
      else k 0 ⟨C3.w0, (z_sign ||| (UInt64.ofInt (toI (e3 + 0x1820)) <<< 0x31)) ||| C3.w1⟩ z_exp e3 pfpsf := by
  rfl


/-- **the scaling of z** (`q3 < 34`): for `S ≤ 34 − q3` zeros to append, `S ≤ e3 + 6176`, the code's `res` is the canonical
encoding of `± c3·10^S · 10^(E3 − S)`, the exponent variables are lowered by `S`, underflow is raised iff fewer than 34
digits result. -/
theorem z1SW_spec {α : Type} (pfpsf : UInt32) (res : U128) (z_sign z_exp : UInt64) (C3 : U128) (q3 e3 sc p34 : Int32)
    (k : Int32 → U128 → UInt64 → Int32 → UInt32 → Except String α) (c3 S : Nat) (E3 : Int) (sz : Bool)
    (hC3 : C3.w1.toNat * 2^64 + C3.w0.toNat = c3) (hc0 : 0 < c3) (hq3 : q3.toInt = ndigits c3)
    (he3 : e3.toInt = E3) (hE1 : -6176 ≤ E3) (hE2 : E3 ≤ 12222)
    (hze : z_exp.toNat = (E3 + 6176).toNat * 2^49) (hzs : z_sign.toNat = if sz then 2^63 else 0) (hp : p34 = 34)
    (hsc : sc.toInt = S) (hS1 : ndigits c3 + S ≤ 34) (hS2 : (S : Int) ≤ E3 + 6176) (hfit : E3 - S ≤ 6111) :
    z1SW pfpsf res z_sign z_exp C3 q3 e3 sc p34 k =
      k sc (ofBits (encode (.fin sz (c3 * 10 ^ S) (E3 - S)))) (z_exp - (UInt64.ofInt (toI sc)) <<< 49) (e3 - sc)
        (if ndigits c3 + S < 34 then pfpsf ||| c_StatusFlags_BID_UNDERFLOW_EXCEPTION else pfpsf) ∧
      (z_exp - (UInt64.ofInt (toI sc)) <<< 49).toNat = (E3 - S + 6176).toNat * 2^49 ∧ (e3 - sc).toInt = E3 - S := by
  have hQ34 : ndigits c3 ≤ 34 := by omega
  have hze' := exp_after' z_exp sc (E3 + 6176).toNat S hze hsc (by omega) (by omega)
  have hzt : (z_exp - (UInt64.ofInt (toI sc)) <<< 49).toNat = (E3 - S + 6176).toNat * 2^49 := by
    rw [hze']; congr 1; omega
  have he' : (e3 - sc).toInt = E3 - S := by rw [i32_sub _ _ (by omega) (by omega), he3, hsc]
  refine ⟨?_, hzt, he'⟩
  have hlt := pow_lt_of_digits (C := c3) (Q := ndigits c3) (S := S) rfl hS1
  have hmask := mask_exp_id _ (E3 - S + 6176).toNat hzt (by omega)
  have hund : decide (sc + q3 < p34) = decide (ndigits c3 + S < 34) := by
    rw [decide_eq_decide, hp, Int32.lt_iff_toInt_lt, i32_add _ _ (by omega) (by omega), hsc, hq3]
    show (S : Int) + (ndigits c3 : Int) < 34 ↔ _
    omega
  have hword : ∀ r : U128, r.w1.toNat * 2^64 + r.w0.toNat = c3 * 10 ^ S →
      (⟨r.w0, r.w1 ||| (z_sign ||| (z_exp - (UInt64.ofInt (toI sc)) <<< 49))⟩ : U128)
        = ofBits (encode (.fin sz (c3 * 10 ^ S) (E3 - S))) := by
    intro r hr
    have := asm r.w0 r.w1 z_sign (z_exp - (UInt64.ofInt (toI sc)) <<< 49) sz (c3 * 10 ^ S) (E3 - S + 6176).toNat hr
      (lt113 hlt) hzs hzt (by omega)
    rw [this, show (((E3 - S + 6176).toNat : Nat) : Int) - 6176 = E3 - S by omega]
  have hfl : ∀ w : U128, (if decide (ndigits c3 + S < 34) = true then
        k sc w (z_exp - (UInt64.ofInt (toI sc)) <<< 49) (e3 - sc) (pfpsf ||| c_StatusFlags_BID_UNDERFLOW_EXCEPTION)
      else k sc w (z_exp - (UInt64.ofInt (toI sc)) <<< 49) (e3 - sc) pfpsf) =
      k sc w (z_exp - (UInt64.ofInt (toI sc)) <<< 49) (e3 - sc)
        (if ndigits c3 + S < 34 then pfpsf ||| c_StatusFlags_BID_UNDERFLOW_EXCEPTION else pfpsf) := by
    intro w; by_cases h : ndigits c3 + S < 34 <;> simp only [h, decide_true, decide_false, if_true, if_false, Bool.false_eq_true]
  by_cases hS0 : S = 0
  · have hz : (sc == 0) = true := by rw [beq_zero_i32 sc S hsc]; simpa using hS0
    simp only [z1SW, bind, pure, Except.pure, bind_ok', hz, if_true, hund, hmask]
    rw [hfl, hword ⟨C3.w0, C3.w1⟩ (by rw [hS0]; simpa using hC3)]
  · have hz : ¬ (sc == 0) = true := by rw [beq_zero_i32 sc S hsc]; simpa using hS0
    obtain ⟨d1, d2, f1, f2, f3⟩ := pad_facts q3 sc C3 c3 (ndigits c3) S hC3 hq3 hsc rfl hc0 (by omega) hS1
    by_cases c1 : ndigits c3 ≤ 19
    · by_cases c2 : S ≤ 19
      · obtain ⟨v, r, hv, hr, hrv⟩ := f1 c1 c2
        simp only [z1SW, bind, pure, Except.pure, bind_ok', hz, if_false, if_true, hund, hmask, d1, d2, c1, c2, decide_true,
          hv, hr, Bool.false_eq_true]
        rw [hfl, hword r hrv]
      · obtain ⟨v, r, hv, hr, hrv⟩ := f2 c1 (by omega)
        simp only [z1SW, bind, pure, Except.pure, bind_ok', hz, if_false, if_true, hund, hmask, d1, d2, c1, c2, decide_true,
          decide_false, hv, hr, Bool.false_eq_true]
        rw [hfl, hword r hrv]
    · obtain ⟨v, r, hv, hr, hrv⟩ := f3 (by omega)
      simp only [z1SW, bind, pure, Except.pure, bind_ok', hz, if_false, if_true, hund, hmask, d1, d2, c1, decide_true,
        decide_false, hv, hr, Bool.false_eq_true]
      rw [hfl, hword r hrv]


/-- the number of zeros the code appends to z: as many as 34 digits and the least exponent allow -/
def scaleOf (Q3 : Nat) (E3 : Int) : Nat :=
  if Q3 < 34 then (if E3 + 6176 < 34 - (Q3 : Int) then (E3 + 6176).toNat else 34 - Q3) else 0

theorem scaleOf_le (Q3 : Nat) (E3 : Int) (hQ : Q3 ≤ 34) (hE : -6176 ≤ E3) :
    Q3 + scaleOf Q3 E3 ≤ 34 ∧ (scaleOf Q3 E3 : Int) ≤ E3 + 6176 ∧
    (Q3 + scaleOf Q3 E3 = 34 ∨ E3 - scaleOf Q3 E3 = -6176) := by
  unfold scaleOf; split
  · split <;> omega
  · omega

theorem expw_of_i32 (e : Int32) (E : Int) (he : e.toInt = E) (h1 : -6176 ≤ E) (h2 : E ≤ 6200) :
    ((UInt64.ofInt (toI (e + 0x1820))) <<< 0x31).toNat = (E + 6176).toNat * 2^49 := by
  have h : (e + 0x1820).toInt = ((E + 6176).toNat : Int) := by
    rw [i32_add _ _ (by omega) (by decide), he]; show E + 6176 = _; omega
  rw [idx_i32 _ _ h, Dec.C01GenAdd.shl49, UInt64.toNat_ofNat', Nat.mod_eq_of_lt (by omega)]
  omega

/-- **`res` := z scaled** (all of Cases (1')/(1''A)): with `S = scaleOf q3 E3` -/
theorem z1Scale_spec {α : Type} (pfpsf : UInt32) (res : U128) (z_sign z_exp : UInt64) (C3 : U128) (q3 e3 scale ind p34 : Int32)
    (k : Int32 → U128 → UInt64 → Int32 → UInt32 → Except String α) (c3 : Nat) (E3 : Int) (sz : Bool)
    (hC3 : C3.w1.toNat * 2^64 + C3.w0.toNat = c3) (hc0 : 0 < c3) (hc34 : c3 < 10 ^ 34) (hq3 : q3.toInt = ndigits c3)
    (he3 : e3.toInt = E3) (hE1 : -6176 ≤ E3) (hE2 : E3 ≤ 12222) (hfit : (ndigits c3 : Int) + E3 ≤ 6145)
    (hze : z_exp.toNat = (E3 + 6176).toNat * 2^49) (hzs : z_sign.toNat = if sz then 2^63 else 0) (hp : p34 = 34) :
    ∃ (sc' : Int32) (zx' : UInt64) (e3' : Int32),
      z1Scale pfpsf res z_sign z_exp C3 q3 e3 scale ind p34 k =
        k sc' (ofBits (encode (.fin sz (c3 * 10 ^ scaleOf (ndigits c3) E3) (E3 - scaleOf (ndigits c3) E3)))) zx' e3'
          (if ndigits c3 + scaleOf (ndigits c3) E3 < 34 then pfpsf ||| c_StatusFlags_BID_UNDERFLOW_EXCEPTION else pfpsf) ∧
      sc'.toInt = scaleOf (ndigits c3) E3 ∧ zx'.toNat = (E3 - scaleOf (ndigits c3) E3 + 6176).toNat * 2^49 ∧
      e3'.toInt = E3 - scaleOf (ndigits c3) E3 := by
  have hQ34 : ndigits c3 ≤ 34 := Dec.C08GenRoundIntegral.ndigits_le_34 c3 (by rw [P34_eq]; exact hc34)
  rw [z1Scale_eq]
  by_cases hq : ndigits c3 < 34
  · have hd : decide (q3 < p34) = true := by
      rw [decide_eq_true_eq, hp, Int32.lt_iff_toInt_lt, hq3]; show (ndigits c3 : Int) < 34; omega
    rw [if_pos hd]
    have hind : (e3 + 0x1820).toInt = E3 + 6176 := by rw [i32_add _ _ (by omega) (by decide), he3]; rfl
    have hpq : (p34 - q3).toInt = 34 - (ndigits c3 : Int) := by
      rw [hp, i32_sub _ _ (by decide) (by omega), hq3]; rfl
    by_cases hm : E3 + 6176 < 34 - (ndigits c3 : Int)
    · have hS : scaleOf (ndigits c3) E3 = (E3 + 6176).toNat := by unfold scaleOf; rw [if_pos hq, if_pos hm]
      rw [if_pos (by rw [decide_eq_true_eq, Int32.lt_iff_toInt_lt, hind, hpq]; exact hm), hS]
      obtain ⟨h1, h2, h3⟩ := z1SW_spec pfpsf res z_sign z_exp C3 q3 e3 (e3 + 0x1820) p34 k c3 (E3 + 6176).toNat E3 sz hC3 hc0 hq3
        he3 hE1 hE2 hze hzs hp (by rw [hind]; omega) (by omega) (by omega) (by omega)
      exact ⟨_, _, _, h1, by rw [hind]; omega, h2, h3⟩
    · have hS : scaleOf (ndigits c3) E3 = 34 - ndigits c3 := by unfold scaleOf; rw [if_pos hq, if_neg hm]
      rw [if_neg (by rw [decide_eq_true_eq, Int32.lt_iff_toInt_lt, hind, hpq]; exact hm), hS]
      obtain ⟨h1, h2, h3⟩ := z1SW_spec pfpsf res z_sign z_exp C3 q3 e3 (p34 - q3) p34 k c3 (34 - ndigits c3) E3 sz hC3 hc0 hq3
        he3 hE1 hE2 hze hzs hp (by rw [hpq]; omega) (by omega) (by omega) (by omega)
      exact ⟨_, _, _, h1, by rw [hpq]; omega, h2, h3⟩
  · have hd : ¬ decide (q3 < p34) = true := by
      rw [decide_eq_true_eq, hp, Int32.lt_iff_toInt_lt, hq3]; show ¬ (ndigits c3 : Int) < 34; omega
    have hS : scaleOf (ndigits c3) E3 = 0 := by unfold scaleOf; rw [if_neg hq]
    rw [if_neg hd, hS]
    refine ⟨0, z_exp, e3, ?_, rfl, by simpa using hze, by simpa using he3⟩
    rw [if_neg (by omega)]
    congr 1
    have hw := expw_of_i32 e3 E3 he3 hE1 (by omega)
    have := asm C3.w0 C3.w1 z_sign ((UInt64.ofInt (toI (e3 + 0x1820))) <<< 0x31) sz c3 (E3 + 6176).toNat hC3 (lt113 hc34) hzs hw
      (by omega)
    rw [UInt64.or_comm, this]
    simp only [Nat.pow_zero, Nat.mul_one, Nat.cast_zero, Int.sub_zero]
    rw [show (((E3 + 6176).toNat : Nat) : Int) - 6176 = E3 by omega]


end Dec.C02GenFmaZ
