/-
  C19 — BID and DPD encodings convert into each other without changing the datum.
-/
import DecModel.Ops

namespace Dec.C19

/-- Table 3.3 ∘ Table 3.4 is the identity on all 1000 three-digit groups (whole table, by the kernel) -/
theorem declet_roundtrip : ∀ v : Fin 1000, declDec (declEnc v.val) = v.val := by decide +kernel

/-- every one of the 1024 declet patterns (the 24 redundant ones included) decodes to a value below 1000 -/
theorem declet_total : ∀ w : Fin 1024, declDec w.val < 1000 := by decide +kernel

/-- re-encoding any of the 1024 patterns gives the canonical declet of the same three digits -/
theorem declet_canonical : ∀ w : Fin 1024, declDec (declEnc (declDec w.val)) = declDec w.val := by decide +kernel

/-- encoded declets fit 10 bits -/
theorem declEnc_lt : ∀ v : Fin 1000, declEnc v.val < 1024 := by decide +kernel

theorem declDec_declEnc (v : Nat) (h : v < 1000) : declDec (declEnc v) = v := declet_roundtrip ⟨v, h⟩
theorem declEnc_lt' (v : Nat) (h : v < 1000) : declEnc v < 1024 := declEnc_lt ⟨v, h⟩

/-- `k` declets carry the low `3k` digits exactly -/
theorem undeclets_declets (k n : Nat) : undeclets k (declets k n) = n % 1000 ^ k := by
  induction k generalizing n with
  | zero => simp [undeclets, Nat.mod_one]
  | succ k ih =>
    have h1 : n % 1000 < 1000 := Nat.mod_lt _ (by decide)
    have h2 := declEnc_lt' (n % 1000) h1
    simp only [undeclets, declets]
    rw [Nat.add_mul_mod_self_left, Nat.mod_eq_of_lt h2, declDec_declEnc _ h1]
    rw [Nat.add_mul_div_left _ _ (by decide : 0 < 1024), Nat.div_eq_of_lt h2, Nat.zero_add, ih]
    rw [Nat.pow_succ, Nat.mul_comm (1000 ^ k) 1000, Nat.mod_mul]

end Dec.C19
