/-
  C04 (scanner level) — `DecModel/Scan.lean` is a code-shaped model of the text scanner of
  `bid128_from_string` with every `unwrap`, index and byte slice that could panic made explicit.
  Here: none of them can fire, for any text whatsoever; on the texts of the strict grammar the scanner
  reads exactly the literal `parseLiteral` returns (leading integer zeros dropped); the special spellings.
-/
import DecModel.Scan
import DecProofs.Core.DigitStr
import DecProofs.Properties.C04Grammar

namespace Dec.C04Scan

/-! ### UTF-8 and byte slicing -/

theorem utf8_append (a b : List Nat) : utf8 (a ++ b) = utf8 a ++ utf8 b := by
  induction a with
  | nil => rfl
  | cons c t ih => simp only [List.cons_append, utf8, ih, List.append_assoc]

/-- the encoding of a code point is not empty and does not begin with a continuation byte -/
theorem utf8CP_head (c : Nat) : ∃ b t, utf8CP c = b :: t ∧ isContByte b = false := by
  have key : ∀ b : Nat, (b < 128 ∨ 192 ≤ b) → isContByte b = false := by
    intro b hb
    unfold isContByte
    rw [Bool.and_eq_false_iff]
    simp only [decide_eq_false_iff_not]
    omega
  unfold utf8CP
  split
  · exact ⟨_, _, rfl, key _ (by omega)⟩
  · split
    · exact ⟨_, _, rfl, key _ (by omega)⟩
    · split
      · exact ⟨_, _, rfl, key _ (by omega)⟩
      · exact ⟨_, _, rfl, key _ (by omega)⟩

/-- an ASCII text is its own encoding -/
theorem utf8_ascii (a : List Nat) (h : ∀ c ∈ a, c < 128) : utf8 a = a := by
  induction a with
  | nil => rfl
  | cons c t ih =>
    have hc : c < 128 := h c (by simp)
    have ht := ih (fun x hx => h x (by simp [hx]))
    simp [utf8, utf8CP, hc, ht]

/-- a text whose encoding has only ASCII bytes is an ASCII text -/
theorem ascii_of_utf8 (a : List Nat) (h : ∀ b ∈ utf8 a, b < 128) : ∀ c ∈ a, c < 128 := by
  induction a with
  | nil => simp
  | cons c t ih =>
    intro x hx
    rcases List.mem_cons.1 hx with rfl | hx
    · by_cases hc : x < 128
      · exact hc
      · exfalso
        have h1 : ∀ b ∈ utf8CP x, b < 128 := fun b hb => h b (by simp [utf8, hb])
        unfold utf8CP at h1
        simp only [show ¬ x < 0x80 from hc, if_false] at h1
        split at h1
        · have := h1 _ (List.mem_cons_self ..); omega
        · split at h1
          · have := h1 _ (List.mem_cons_self ..); omega
          · have := h1 _ (List.mem_cons_self ..); omega
    · exact ih (fun b hb => h b (by simp [utf8, hb])) x hx

/-- the end of the encoding of a prefix of the text is a character boundary -/
theorem boundary_prefix (a b : List Nat) : isCharBoundary (utf8 (a ++ b)) (utf8 a).length = true := by
  rw [utf8_append]
  rcases b with _ | ⟨c, t⟩
  · simp [isCharBoundary, utf8]
  · obtain ⟨x, r, hx, hc⟩ := utf8CP_head c
    have : (utf8 a ++ utf8 (c :: t))[(utf8 a).length]? = some x := by
      simp [utf8, hx]
    simp [isCharBoundary, this, hc]

/-- slicing at the end of the encoding of a prefix succeeds and gives the encoding of the rest -/
theorem sliceFrom_prefix (a b : List Nat) : sliceFrom (utf8 (a ++ b)) (utf8 a).length = some (utf8 b) := by
  unfold sliceFrom
  rw [boundary_prefix, if_pos rfl, utf8_append]
  simp

theorem blank_lt (c : Nat) (h : isBlankCP c = true) : c < 128 := by
  simp [isBlankCP] at h; omega

theorem takeWhile_blank_ascii (s : List Nat) : ∀ c ∈ s.takeWhile isBlankCP, c < 128 := by
  intro c hc
  induction s with
  | nil => simp at hc
  | cons x t ih =>
    rw [List.takeWhile_cons] at hc
    split at hc
    · rcases List.mem_cons.1 hc with rfl | h
      · exact blank_lt _ (by assumption)
      · exact ih h
    · simp at hc

/-- **line 261**: `&str[ps..]` is the encoding of the text after the blanks -/
theorem slice_ps (s : List Nat) :
    sliceFrom (utf8 s) (s.takeWhile isBlankCP).length = some (utf8 (s.dropWhile isBlankCP)) := by
  have h := sliceFrom_prefix (s.takeWhile isBlankCP) (s.dropWhile isBlankCP)
  rw [List.takeWhile_append_dropWhile, utf8_ascii _ (takeWhile_blank_ascii s)] at h
  exact h

/-- **line 276**: `&str[ps + 1..]` when the character at `ps` is ASCII -/
theorem slice_ps1 (s : List Nat) (c : Nat) (t : List Nat) (hs : s.dropWhile isBlankCP = c :: t) (hc : c < 128) :
    sliceFrom (utf8 s) ((s.takeWhile isBlankCP).length + 1) = some (utf8 t) := by
  have h := sliceFrom_prefix (s.takeWhile isBlankCP ++ [c]) t
  have h1 : s.takeWhile isBlankCP ++ [c] ++ t = s := by
    rw [List.append_assoc, List.singleton_append, ← hs, List.takeWhile_append_dropWhile]
  have h2 : utf8 (s.takeWhile isBlankCP ++ [c]) = s.takeWhile isBlankCP ++ [c] := by
    apply utf8_ascii
    intro x hx
    rcases List.mem_append.1 hx with hx | hx
    · exact takeWhile_blank_ascii s x hx
    · simp at hx; omega
  rw [h1, h2] at h
  simpa using h

/-- the first-character test of line 260 lets only ASCII through -/
theorem first_char_ascii (c : Nat) (h : ¬ (c != 46 && c != 45 && c != 43 && aboveNine c) = true) : c < 128 := by
  simp only [aboveNine, Bool.and_eq_true, bne_iff_ne, ne_eq, decide_eq_true_eq] at h
  omega

/-! ### No panic site can fire -/

/-- the outcome is not a panic -/
def NoPanic (o : ScanOutcome) : Prop := ∀ site, o ≠ .panic site

theorem scanSpecial_np (s : List Nat) : NoPanic (scanSpecial s (s.takeWhile isBlankCP).length) := by
  intro site
  unfold scanSpecial
  rw [slice_ps]
  simp only
  split
  · simp
  · split <;> simp

/-- the digit loops never index `buffer` out of range -/
theorem collectDigits_ok (r : List Nat) : ∀ n buf st, ∃ a, collectDigits r n buf st = .ok a := by
  induction r with
  | nil => intro n buf st; exact ⟨_, rfl⟩
  | cons c t ih =>
    intro n buf st
    unfold collectDigits
    split
    · exact ⟨_, rfl⟩
    · split
      · rename_i hn
        have : bufSet buf n c = some (buf ++ [c]) := by simp [bufSet]; omega
        simp only [this]
        exact ih _ _ _
      · split
        · rename_i hn
          have : bufSet buf n c = some (buf ++ [c]) := by simp [bufSet, hn]
          simp only [this]
          exact ih _ _ _
        · exact ih _ _ _

/-- `reDigit` answers `Some` exactly for the ten digits, with the character itself -/
theorem reDigit_eq (ch : Nat) : reDigit ch = if isDigitB ch then some ch else none := by
  unfold reDigit isDigitB
  by_cases h : 48 ≤ ch
  · by_cases h2 : ch ≤ 57
    · have : ch - 48 < 10 := by omega
      simp [h, h2, this]
    · have : ¬ ch - 48 < 10 := by omega
      simp [h, h2, this]
  · simp [h]

/-- the exponent loop never unwraps a `None` -/
theorem expLoop_ok (r : List Nat) : ∀ i acc, ∃ e, expLoop r i acc = .ok e := by
  induction r with
  | nil => intro i acc; exact ⟨_, rfl⟩
  | cons ch t ih =>
    intro i acc
    unfold expLoop
    rw [reDigit_eq]
    by_cases hd : isDigitB ch = true
    · simp only [hd, if_true, toDigit10]
      split
      · exact ih _ _
      · exact ⟨_, rfl⟩
    · simp only [hd]
      exact ⟨_, rfl⟩

/-- after the test of line 456 and the sign, the text is not at its end -/
theorem expSign_cons (r1 : List Nat) (h : expHeadBad r1 = false) : ∃ d0 r3, (expSign r1).2 = d0 :: r3 := by
  rcases r1 with _ | ⟨d, r2⟩
  · simp [expHeadBad] at h
  · unfold expSign
    by_cases h45 : d = 45
    · subst h45
      rcases r2 with _ | ⟨d0, r3⟩
      · simp [expHeadBad, isDigitB] at h
      · exact ⟨d0, r3, by simp⟩
    · by_cases h43 : d = 43
      · subst h43
        rcases r2 with _ | ⟨d0, r3⟩
        · simp [expHeadBad, isDigitB] at h
        · exact ⟨d0, r3, by simp⟩
      · exact ⟨d, r2, by simp [h45, h43]⟩

/-- line 474: after the test of line 456 there is a character to unwrap -/
theorem scanExp_ok (r : List Nat) : ∃ v, scanExp r = .ok v := by
  unfold scanExp
  split
  · exact ⟨_, rfl⟩
  · rename_i c r1
    split
    · exact ⟨_, rfl⟩
    · split
      · exact ⟨_, rfl⟩
      · rename_i hbad
        obtain ⟨d0, r3, h⟩ := expSign_cons r1 (by simpa using hbad)
        rw [h]
        unfold expDigits
        obtain ⟨e, he⟩ := expLoop_ok
          (if ((d0 : Int) - 48 == 0) = true then List.dropWhile (· == 48) r3 else r3) 1 ((d0 : Int) - 48)
        simp only [he]
        exact ⟨_, rfl⟩

theorem finishScan_np (neg : Bool) (nb : Nat) (buf : Bytes) (st : Bool) (z : Nat) (r : List Nat) :
    NoPanic (finishScan neg nb buf st z r) := by
  intro site
  unfold finishScan
  obtain ⟨v, hv⟩ := scanExp_ok r
  rw [hv]
  rcases v with _ | e <;> simp

theorem scanDigits_np (neg : Bool) (r : List Nat) (rdx : Bool) (z : Nat) : NoPanic (scanDigits neg r rdx z) := by
  intro site
  unfold scanDigits
  obtain ⟨a, ha⟩ := collectDigits_ok r 0 [] false
  split
  · rw [ha]
    simp only
    split
    · obtain ⟨b, hb⟩ := collectDigits_ok a.rest.tail a.n a.buf a.sticky
      rw [hb]
      exact finishScan_np _ _ _ _ _ _ site
    · exact finishScan_np _ _ _ _ _ _ site
  · rw [ha]
    exact finishScan_np _ _ _ _ _ _ site

/-- what the zero loop returns is not a panic: the unclamped subtraction of line 344 is only reached while no
point has been seen, and then `right_radix_leading_zeros` is still 0 -/
theorem zeroLoop_np (neg : Bool) (r : List Nat) (rdx : Bool) (z : Nat) (h : rdx = false → z = 0)
    (o : ScanOutcome) (ho : zeroLoop neg r rdx z = .done o) : NoPanic o := by
  fun_induction zeroLoop neg r rdx z generalizing o
  case case1 => cases ho
  case case2 => cases ho
  case case3 => cases ho; intro site hs; cases hs
  case case4 => cases ho
  case case5 => cases ho; intro site hs; cases hs
  case case6 c d t2 rdx z hc z' hd hr ht hz =>
    exfalso
    have hr' : rdx = false := by simpa using hr
    have := h hr'
    apply hz
    simp [z', hr', this]
  case case7 ih => exact ih (by simp) o ho
  case case8 => cases ho; intro site hs; cases hs
  case case9 c d t2 rdx z hc z' hd ih =>
    refine ih (fun hr => ?_) o ho
    simp [z', hr, h hr]

theorem scanBody_np (neg : Bool) (r : List Nat) : NoPanic (scanBody neg r) := by
  unfold scanBody
  split
  · exact scanDigits_np _ _ _ _
  · rename_i c t
    split
    · intro site hs; cases hs
    · simp only
      split
      · rename_i o ho
        exact zeroLoop_np neg _ _ 0 (fun _ => rfl) o ho
      · exact scanDigits_np _ _ _ _

theorem scanSigned_np (s : List Nat) (c : Nat) (t : List Nat) (hs : s.dropWhile isBlankCP = c :: t)
    (hc : c < 128) : NoPanic (scanSigned s (s.takeWhile isBlankCP).length c t) := by
  unfold scanSigned
  rw [slice_ps1 s c t hs hc]
  simp only
  split
  · intro site
    split
    · simp
    · split <;> simp
  · split
    · intro site; split <;> simp
    · exact scanBody_np _ _

theorem scanCP_np (s : List Nat) : NoPanic (scanCP s) := by
  unfold scanCP
  split
  · intro site hs; cases hs
  · simp only
    split
    · exact scanSpecial_np s
    · rename_i c t hs
      split
      · exact scanSpecial_np s
      · rename_i hc
        exact scanSigned_np s c t hs (first_char_ascii c hc)

/-- **No panic.**  For every text — any length, any characters, well-formed or not — none of the places where
`bid128_from_string` unwraps an `Option`, indexes `buffer`, or slices the text by bytes can fire: the model
`scanText`, in which each of those places is an explicit `.panic` outcome, never returns one.  (The loops are
structural recursions on the text, so the scan also terminates.) -/
theorem scan_never_panics : ∀ (s : List Char) (site : String), scanText s ≠ .panic site :=
  fun s => scanCP_np (s.map Char.toNat)

end Dec.C04Scan
