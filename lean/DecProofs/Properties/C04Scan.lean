/-
  C04 (scanner level) — `DecModel/Scan.lean` is a code-shaped model of the text scanner of
  `bid128_from_string` with every `unwrap`, index and byte slice that could panic made explicit.
  Here: none of them can fire, for any text whatsoever; on the texts of the strict grammar the scanner
  reads exactly the literal `parseLiteral` returns (leading integer zeros dropped); the special spellings.
-/
import DecModel.Scan
import DecProofs.Core.DigitStr
import DecProofs.Properties.C04Grammar

namespace Dec.C04Scan

/-! ### UTF-8 and byte slicing -/

theorem utf8_append (a b : List Nat) : utf8 (a ++ b) = utf8 a ++ utf8 b := by
  induction a with
  | nil => rfl
  | cons c t ih => simp only [List.cons_append, utf8, ih, List.append_assoc]

/-- the encoding of a code point is not empty and does not begin with a continuation byte -/
theorem utf8CP_head (c : Nat) : ∃ b t, utf8CP c = b :: t ∧ isContByte b = false := by
  have key : ∀ b : Nat, (b < 128 ∨ 192 ≤ b) → isContByte b = false := by
    intro b hb
    unfold isContByte
    rw [Bool.and_eq_false_iff]
    simp only [decide_eq_false_iff_not]
    omega
  unfold utf8CP
  split
  · exact ⟨_, _, rfl, key _ (by omega)⟩
  · split
    · exact ⟨_, _, rfl, key _ (by omega)⟩
    · split
      · exact ⟨_, _, rfl, key _ (by omega)⟩
      · exact ⟨_, _, rfl, key _ (by omega)⟩

/-- an ASCII text is its own encoding -/
theorem utf8_ascii (a : List Nat) (h : ∀ c ∈ a, c < 128) : utf8 a = a := by
  induction a with
  | nil => rfl
  | cons c t ih =>
    have hc : c < 128 := h c (by simp)
    have ht := ih (fun x hx => h x (by simp [hx]))
    simp [utf8, utf8CP, hc, ht]

/-- a text whose encoding has only ASCII bytes is an ASCII text -/
theorem ascii_of_utf8 (a : List Nat) (h : ∀ b ∈ utf8 a, b < 128) : ∀ c ∈ a, c < 128 := by
  induction a with
  | nil => simp
  | cons c t ih =>
    intro x hx
    rcases List.mem_cons.1 hx with rfl | hx
    · by_cases hc : x < 128
      · exact hc
      · exfalso
        have h1 : ∀ b ∈ utf8CP x, b < 128 := fun b hb => h b (by simp [utf8, hb])
        unfold utf8CP at h1
        simp only [show ¬ x < 0x80 from hc, if_false] at h1
        split at h1
        · have := h1 _ (List.mem_cons_self ..); omega
        · split at h1
          · have := h1 _ (List.mem_cons_self ..); omega
          · have := h1 _ (List.mem_cons_self ..); omega
    · exact ih (fun b hb => h b (by simp [utf8, hb])) x hx

/-- the end of the encoding of a prefix of the text is a character boundary -/
theorem boundary_prefix (a b : List Nat) : isCharBoundary (utf8 (a ++ b)) (utf8 a).length = true := by
  rw [utf8_append]
  rcases b with _ | ⟨c, t⟩
  · simp [isCharBoundary, utf8]
  · obtain ⟨x, r, hx, hc⟩ := utf8CP_head c
    have : (utf8 a ++ utf8 (c :: t))[(utf8 a).length]? = some x := by
      simp [utf8, hx]
    simp [isCharBoundary, this, hc]

/-- slicing at the end of the encoding of a prefix succeeds and gives the encoding of the rest -/
theorem sliceFrom_prefix (a b : List Nat) : sliceFrom (utf8 (a ++ b)) (utf8 a).length = some (utf8 b) := by
  unfold sliceFrom
  rw [boundary_prefix, if_pos rfl, utf8_append]
  simp

theorem blank_lt (c : Nat) (h : isBlankCP c = true) : c < 128 := by
  simp [isBlankCP] at h; omega

theorem takeWhile_blank_ascii (s : List Nat) : ∀ c ∈ s.takeWhile isBlankCP, c < 128 := by
  intro c hc
  induction s with
  | nil => simp at hc
  | cons x t ih =>
    rw [List.takeWhile_cons] at hc
    split at hc
    · rcases List.mem_cons.1 hc with rfl | h
      · exact blank_lt _ (by assumption)
      · exact ih h
    · simp at hc

/-- **line 261**: `&str[ps..]` is the encoding of the text after the blanks -/
theorem slice_ps (s : List Nat) :
    sliceFrom (utf8 s) (s.takeWhile isBlankCP).length = some (utf8 (s.dropWhile isBlankCP)) := by
  have h := sliceFrom_prefix (s.takeWhile isBlankCP) (s.dropWhile isBlankCP)
  rw [List.takeWhile_append_dropWhile, utf8_ascii _ (takeWhile_blank_ascii s)] at h
  exact h

/-- **line 276**: `&str[ps + 1..]` when the character at `ps` is ASCII -/
theorem slice_ps1 (s : List Nat) (c : Nat) (t : List Nat) (hs : s.dropWhile isBlankCP = c :: t) (hc : c < 128) :
    sliceFrom (utf8 s) ((s.takeWhile isBlankCP).length + 1) = some (utf8 t) := by
  have h := sliceFrom_prefix (s.takeWhile isBlankCP ++ [c]) t
  have h1 : s.takeWhile isBlankCP ++ [c] ++ t = s := by
    rw [List.append_assoc, List.singleton_append, ← hs, List.takeWhile_append_dropWhile]
  have h2 : utf8 (s.takeWhile isBlankCP ++ [c]) = s.takeWhile isBlankCP ++ [c] := by
    apply utf8_ascii
    intro x hx
    rcases List.mem_append.1 hx with hx | hx
    · exact takeWhile_blank_ascii s x hx
    · simp at hx; omega
  rw [h1, h2] at h
  simpa using h

/-- the first-character test of line 260 lets only ASCII through -/
theorem first_char_ascii (c : Nat) (h : ¬ (c != 46 && c != 45 && c != 43 && aboveNine c) = true) : c < 128 := by
  simp only [aboveNine, Bool.and_eq_true, bne_iff_ne, ne_eq, decide_eq_true_eq] at h
  omega

/-! ### No panic site can fire -/

/-- the outcome is not a panic -/
def NoPanic (o : ScanOutcome) : Prop := ∀ site, o ≠ .panic site

theorem scanSpecial_np (s : List Nat) : NoPanic (scanSpecial s (s.takeWhile isBlankCP).length) := by
  intro site
  unfold scanSpecial
  rw [slice_ps]
  simp only
  split
  · simp
  · split <;> simp

/-- the digit loops never index `buffer` out of range -/
theorem collectDigits_ok (r : List Nat) : ∀ n buf st, ∃ a, collectDigits r n buf st = .ok a := by
  induction r with
  | nil => intro n buf st; exact ⟨_, rfl⟩
  | cons c t ih =>
    intro n buf st
    unfold collectDigits
    split
    · exact ⟨_, rfl⟩
    · split
      · rename_i hn
        have : bufSet buf n c = some (buf ++ [c]) := by simp [bufSet]; omega
        simp only [this]
        exact ih _ _ _
      · split
        · rename_i hn
          have : bufSet buf n c = some (buf ++ [c]) := by simp [bufSet, hn]
          simp only [this]
          exact ih _ _ _
        · exact ih _ _ _

/-- `reDigit` answers `Some` exactly for the ten digits, with the character itself -/
theorem reDigit_eq (ch : Nat) : reDigit ch = if isDigitB ch then some ch else none := by
  unfold reDigit isDigitB
  by_cases h : 48 ≤ ch
  · by_cases h2 : ch ≤ 57
    · have : ch - 48 < 10 := by omega
      simp [h, h2, this]
    · have : ¬ ch - 48 < 10 := by omega
      simp [h, h2, this]
  · simp [h]

/-- the exponent loop never unwraps a `None` -/
theorem expLoop_ok (r : List Nat) : ∀ i acc, ∃ e, expLoop r i acc = .ok e := by
  induction r with
  | nil => intro i acc; exact ⟨_, rfl⟩
  | cons ch t ih =>
    intro i acc
    unfold expLoop
    rw [reDigit_eq]
    by_cases hd : isDigitB ch = true
    · simp only [hd, if_true, toDigit10]
      split
      · exact ih _ _
      · exact ⟨_, rfl⟩
    · simp only [hd]
      exact ⟨_, rfl⟩

/-- after the test of line 456 and the sign, the text is not at its end -/
theorem expSign_cons (r1 : List Nat) (h : expHeadBad r1 = false) : ∃ d0 r3, (expSign r1).2 = d0 :: r3 := by
  rcases r1 with _ | ⟨d, r2⟩
  · simp [expHeadBad] at h
  · unfold expSign
    by_cases h45 : d = 45
    · subst h45
      rcases r2 with _ | ⟨d0, r3⟩
      · simp [expHeadBad, isDigitB] at h
      · exact ⟨d0, r3, by simp⟩
    · by_cases h43 : d = 43
      · subst h43
        rcases r2 with _ | ⟨d0, r3⟩
        · simp [expHeadBad, isDigitB] at h
        · exact ⟨d0, r3, by simp⟩
      · exact ⟨d, r2, by simp [h45, h43]⟩

/-- line 474: after the test of line 456 there is a character to unwrap -/
theorem scanExp_ok (r : List Nat) : ∃ v, scanExp r = .ok v := by
  unfold scanExp
  split
  · exact ⟨_, rfl⟩
  · rename_i c r1
    split
    · exact ⟨_, rfl⟩
    · split
      · exact ⟨_, rfl⟩
      · rename_i hbad
        obtain ⟨d0, r3, h⟩ := expSign_cons r1 (by simpa using hbad)
        rw [h]
        unfold expDigits
        obtain ⟨e, he⟩ := expLoop_ok
          (if ((d0 : Int) - 48 == 0) = true then List.dropWhile (· == 48) r3 else r3) 1 ((d0 : Int) - 48)
        simp only [he]
        exact ⟨_, rfl⟩

theorem finishScan_np (neg : Bool) (nb : Nat) (buf : Bytes) (st : Bool) (z : Nat) (r : List Nat) :
    NoPanic (finishScan neg nb buf st z r) := by
  intro site
  unfold finishScan
  obtain ⟨v, hv⟩ := scanExp_ok r
  rw [hv]
  rcases v with _ | e <;> simp

theorem scanDigits_np (neg : Bool) (r : List Nat) (rdx : Bool) (z : Nat) : NoPanic (scanDigits neg r rdx z) := by
  intro site
  unfold scanDigits
  obtain ⟨a, ha⟩ := collectDigits_ok r 0 [] false
  split
  · rw [ha]
    simp only
    split
    · obtain ⟨b, hb⟩ := collectDigits_ok a.rest.tail a.n a.buf a.sticky
      rw [hb]
      exact finishScan_np _ _ _ _ _ _ site
    · exact finishScan_np _ _ _ _ _ _ site
  · rw [ha]
    exact finishScan_np _ _ _ _ _ _ site

/-- what the zero loop returns is not a panic: the unclamped subtraction of line 344 is only reached while no
point has been seen, and then `right_radix_leading_zeros` is still 0 -/
theorem zeroLoop_np (neg : Bool) (r : List Nat) (rdx : Bool) (z : Nat) (h : rdx = false → z = 0)
    (o : ScanOutcome) (ho : zeroLoop neg r rdx z = .done o) : NoPanic o := by
  fun_induction zeroLoop neg r rdx z generalizing o
  case case1 => cases ho
  case case2 => cases ho
  case case3 => cases ho; intro site hs; cases hs
  case case4 => cases ho
  case case5 => cases ho; intro site hs; cases hs
  case case6 c d t2 rdx z hc z' hd hr ht hz =>
    exfalso
    have hr' : rdx = false := by simpa using hr
    have := h hr'
    apply hz
    simp [z', hr', this]
  case case7 ih => exact ih (by simp) o ho
  case case8 => cases ho; intro site hs; cases hs
  case case9 c d t2 rdx z hc z' hd ih =>
    refine ih (fun hr => ?_) o ho
    simp [z', hr, h hr]

theorem scanBody_np (neg : Bool) (r : List Nat) : NoPanic (scanBody neg r) := by
  unfold scanBody
  split
  · exact scanDigits_np _ _ _ _
  · rename_i c t
    split
    · intro site hs; cases hs
    · simp only
      split
      · rename_i o ho
        exact zeroLoop_np neg _ _ 0 (fun _ => rfl) o ho
      · exact scanDigits_np _ _ _ _

theorem scanSigned_np (s : List Nat) (c : Nat) (t : List Nat) (hs : s.dropWhile isBlankCP = c :: t)
    (hc : c < 128) : NoPanic (scanSigned s (s.takeWhile isBlankCP).length c t) := by
  unfold scanSigned
  rw [slice_ps1 s c t hs hc]
  simp only
  split
  · intro site
    split
    · simp
    · split <;> simp
  · split
    · intro site; split <;> simp
    · exact scanBody_np _ _

theorem scanCP_np (s : List Nat) : NoPanic (scanCP s) := by
  unfold scanCP
  split
  · intro site hs; cases hs
  · simp only
    split
    · exact scanSpecial_np s
    · rename_i c t hs
      split
      · exact scanSpecial_np s
      · rename_i hc
        exact scanSigned_np s c t hs (first_char_ascii c hc)

/-- **No panic.**  For every text — any length, any characters, well-formed or not — none of the places where
`bid128_from_string` unwraps an `Option`, indexes `buffer`, or slices the text by bytes can fire: the model
`scanText`, in which each of those places is an explicit `.panic` outcome, never returns one.  (The loops are
structural recursions on the text, so the scan also terminates.) -/
theorem scan_never_panics : ∀ (s : List Char) (site : String), scanText s ≠ .panic site :=
  fun s => scanCP_np (s.map Char.toNat)

/-! ### Agreement with the strict grammar: the pieces -/

open C04Grammar in
/-- a digit string is a run of zeros followed by its significant part -/
theorem zeros_split (ds : Bytes) :
    ∃ k, ds = List.replicate k 48 ++ ds.dropWhile (· == 48) ∧
      k + (ds.dropWhile (· == 48)).length = ds.length := by
  induction ds with
  | nil => exact ⟨0, rfl, rfl⟩
  | cons b t ih =>
    rw [List.dropWhile_cons]
    split
    · rename_i hb
      have : b = 48 := by simpa using hb
      subst this
      obtain ⟨k, hk, hl⟩ := ih
      refine ⟨k + 1, ?_, ?_⟩
      · rw [List.replicate_succ, List.cons_append, ← hk]
      · simp only [List.length_cons]; omega
    · exact ⟨0, rfl, by simp⟩

/-- the significant part does not begin with a zero -/
theorem dropZeros_head (ds : Bytes) : (ds.dropWhile (· == 48)).head? ≠ some 48 := by
  induction ds with
  | nil => simp
  | cons b t ih =>
    rw [List.dropWhile_cons]
    split
    · exact ih
    · rename_i hb
      simpa using hb

theorem dropZeros_digits (ds : Bytes) (h : ∀ b ∈ ds, isDigitB b = true) :
    ∀ b ∈ ds.dropWhile (· == 48), isDigitB b = true :=
  fun b hb => h b (List.Sublist.mem hb (List.dropWhile_sublist _))

/-- the zero loop stops at once at a character that is not `0` -/
theorem zeroLoop_nonzero (neg : Bool) (d : Nat) (t : List Nat) (rdx : Bool) (z : Nat) (hd : d ≠ 48) :
    zeroLoop neg (d :: t) rdx z = .cont (d :: t) rdx z := by
  cases t <;> simp [zeroLoop, hd]

theorem zeroLoop_head (neg : Bool) (r : List Nat) (rdx : Bool) (z : Nat) (h : r.head? ≠ some 48) :
    zeroLoop neg r rdx z = .cont r rdx z := by
  rcases r with _ | ⟨d, t⟩
  · rfl
  · exact zeroLoop_nonzero neg d t rdx z (by simpa using h)

/-- what the zero loop does once the last `0` of a run has been passed (`z'` = the count so far) -/
def afterZeros (neg : Bool) (rest : List Nat) (rdx : Bool) (z' : Nat) : ZeroSkip :=
  match rest with
  | [] => .done (.zero neg (-((min z' 6176 : Nat) : Int)))
  | d :: t2 =>
    if d == 46 then
      if !rdx then
        if t2.isEmpty then
          if z' ≤ 6176 then .done (.zero neg (-(z' : Int)))
          else .done (.panic "line 344: u64 subtraction below zero")
        else zeroLoop neg t2 true z'
      else .done (.nan neg)
    else .cont (d :: t2) rdx z'

/-- the zero loop on a run of `k + 1` zeros followed by something else -/
theorem zeroLoop_zeros (neg : Bool) (rest : List Nat) (h : rest.head? ≠ some 48) (k : Nat) :
    ∀ rdx z, zeroLoop neg (List.replicate (k + 1) 48 ++ rest) rdx z =
      afterZeros neg rest rdx (if rdx then z + (k + 1) else z) := by
  induction k with
  | zero =>
    intro rdx z
    rcases rest with _ | ⟨d, t2⟩
    · simp [zeroLoop, afterZeros]
    · have hd : d ≠ 48 := by simpa using h
      simp only [List.replicate_one, List.singleton_append, Nat.zero_add]
      rw [zeroLoop]
      simp only [bne_self_eq_false, Bool.false_eq_true, if_false, afterZeros]
      rw [zeroLoop_nonzero neg d t2 _ _ hd]
  | succ k ih =>
    intro rdx z
    rw [List.replicate_succ, List.cons_append]
    generalize hq : List.replicate (k + 1) 48 ++ rest = q
    have hq' : ∃ q', q = 48 :: q' := ⟨List.replicate k 48 ++ rest, by rw [← hq, List.replicate_succ]; rfl⟩
    obtain ⟨q', rfl⟩ := hq'
    rw [zeroLoop]
    simp only [bne_self_eq_false, Bool.false_eq_true, if_false, show ((48 : Nat) == 46) = false from rfl]
    rw [← hq, ih]
    cases rdx
    · simp
    · simp only [if_true]
      rw [show z + 1 + (k + 1) = z + (k + 1 + 1) by omega]

/-- a digit loop on a run of digits that fits into `buffer` stores all of them -/
theorem collectDigits_run (ds : Bytes) (hds : ∀ b ∈ ds, isDigitB b = true) (rest : List Nat)
    (hr : ∀ b, rest.head? = some b → isDigitB b = false) :
    ∀ n buf st, n + ds.length ≤ 100 →
      collectDigits (ds ++ rest) n buf st = .ok ⟨rest, n + ds.length, buf ++ ds, st⟩ := by
  induction ds with
  | nil =>
    intro n buf st _
    rcases rest with _ | ⟨c, t⟩
    · simp [collectDigits]
    · have := hr c rfl
      simp [collectDigits, this]
  | cons d t ih =>
    intro n buf st hn
    have hd : isDigitB d = true := hds d (by simp)
    have hn' : n < 100 := by simp only [List.length_cons] at hn; omega
    have ih' := ih (fun b hb => hds b (by simp [hb])) (n + 1) (buf ++ [d]) st
      (by simp only [List.length_cons] at hn; omega)
    rw [List.cons_append, collectDigits]
    simp only [hd, Bool.not_true, Bool.false_eq_true, if_false, bufSet, hn', if_true]
    have e1 : n + 1 + t.length = n + (d :: t).length := by simp only [List.length_cons]; omega
    have e2 : buf ++ [d] ++ t = buf ++ d :: t := by simp
    split <;> rw [ih', e1, e2]

/-- the exponent loop on a run of at most `7 − i` digits reads all of them -/
theorem expLoop_run (ds : Bytes) (hds : ∀ b ∈ ds, isDigitB b = true) :
    ∀ (i : Nat) (acc : Int), i + ds.length ≤ 7 →
      expLoop ds i acc = .ok (acc * 10 ^ ds.length + (digitsVal ds : Int)) := by
  induction ds with
  | nil => intro i acc _; simp [expLoop, digitsVal]
  | cons d t ih =>
    intro i acc hi
    have hd : isDigitB d = true := hds d (by simp)
    have hi' : i < 7 := by simp only [List.length_cons] at hi; omega
    have hd9 : d - 48 ≤ 9 := by
      simp only [isDigitB, Bool.and_eq_true, decide_eq_true_eq] at hd; omega
    rw [expLoop, reDigit_eq]
    simp only [hd, if_true, toDigit10, hd9, hi', decide_true, Bool.and_self]
    rw [ih (fun b hb => hds b (by simp [hb])) (i + 1) _ (by simp only [List.length_cons] at hi; omega)]
    rw [digitsVal_cons, List.length_cons]
    congr 1
    push_cast
    grind

/-- a digit string that does not begin with `0` denotes at least `10^(length − 1)` -/
theorem digitsVal_ge (d : Nat) (t : Bytes) (hd : isDigitB d = true) (h0 : d ≠ 48) :
    10 ^ t.length ≤ digitsVal (d :: t) := by
  rw [digitsVal_cons]
  have h1 : 1 ≤ d - 48 := by
    simp only [isDigitB, Bool.and_eq_true, decide_eq_true_eq] at hd; omega
  exact Nat.le_trans (Nat.le_mul_of_pos_left _ h1) (Nat.le_add_right _ _)

/-- a digit string without leading zero whose value is below `10^6` has at most 6 digits -/
theorem length_le_six (ds : Bytes) (hds : ∀ b ∈ ds, isDigitB b = true) (h0 : ds.head? ≠ some 48)
    (hv : digitsVal ds < 1000000) : ds.length ≤ 6 := by
  rcases ds with _ | ⟨d, t⟩
  · simp
  · have hge := digitsVal_ge d t (hds d (by simp)) (by simpa using h0)
    by_cases ht : t.length ≤ 5
    · simp only [List.length_cons]; omega
    · exfalso
      have : 10 ^ 6 ≤ 10 ^ t.length := Nat.pow_le_pow_right (by decide) (by omega)
      omega

open C04Grammar

/-- **The exponent part.**  On the exponent part of a well-formed text (`E`/`e`, optional sign, digits) the scanner
reads the signed value of the digits — provided that value is below `10^6`: the code reads one digit, skips zeros if
that digit was `0`, and then reads at most six more digits, ignoring whatever follows. -/
theorem scanExp_expBytes (x : Option ExpShape) (hx : expWF x)
    (hv : ∀ y, x = some y → digitsVal y.digits < 1000000) :
    scanExp (expBytes x) = .ok (some (expVal x)) := by
  rcases x with _ | ⟨up, sg, ds⟩
  · rfl
  · obtain ⟨hne, hds⟩ : ds ≠ [] ∧ ∀ b ∈ ds, isDigitB b = true := hx
    have hv' : digitsVal ds < 1000000 := hv _ rfl
    rcases ds with _ | ⟨d0, r3⟩
    · exact absurd rfl hne
    · have hd0 : isDigitB d0 = true := hds d0 (by simp)
      have hr3 : ∀ b ∈ r3, isDigitB b = true := fun b hb => hds b (by simp [hb])
      have hd0' : 48 ≤ d0 ∧ d0 ≤ 57 := by
        simpa only [isDigitB, Bool.and_eq_true, decide_eq_true_eq] using hd0
      have hbad : expHeadBad (signBytes sg ++ d0 :: r3) = false := by
        rcases sg with _ | _ | _ <;> simp [signBytes, expHeadBad, hd0]
      have hsign : expSign (signBytes sg ++ d0 :: r3) = (sg == some true, d0 :: r3) := by
        rcases sg with _ | _ | _
        · have h45 : d0 ≠ 45 := by omega
          have h43 : d0 ≠ 43 := by omega
          simp [signBytes, expSign, h45, h43]
        · simp [signBytes, expSign]
        · simp [signBytes, expSign]
      have hE : ((if up then 69 else 101 : Nat) != 101 && (if up then 69 else 101 : Nat) != 69) = false := by
        cases up <;> decide
      have key : expLoop (if ((d0 : Int) - 48 == 0) = true then r3.dropWhile (· == 48) else r3) 1 ((d0 : Int) - 48) =
          .ok ((digitsVal (d0 :: r3) : Nat) : Int) := by
        by_cases h48 : d0 = 48
        · subst h48
          have hr4 := dropZeros_digits r3 hr3
          have hval : digitsVal (r3.dropWhile (· == 48)) = digitsVal (48 :: r3) := by
            rw [digitsVal_dropZeros, digitsVal_cons]; simp
          have hlen := length_le_six _ hr4 (dropZeros_head r3) (by rw [hval]; exact hv')
          simp only [show (((48 : Nat) : Int) - 48 == 0) = true from by decide, if_true]
          rw [expLoop_run _ hr4 1 _ (by omega), hval]
          simp
        · have hne0 : ((d0 : Int) - 48 == 0) = false := by
            rw [beq_eq_false_iff_ne]; omega
          simp only [hne0, Bool.false_eq_true, if_false]
          have hge := digitsVal_ge d0 r3 hd0 h48
          have hlen : r3.length ≤ 5 := by
            by_cases ht : r3.length ≤ 5
            · exact ht
            · exfalso
              have : 10 ^ 6 ≤ 10 ^ r3.length := Nat.pow_le_pow_right (by decide) (by omega)
              omega
          rw [expLoop_run r3 hr3 1 _ (by omega), digitsVal_cons]
          have hc : ((d0 - 48 : Nat) : Int) = (d0 : Int) - 48 := by omega
          push_cast
          rw [hc]
      simp only [expBytes, ExpShape.bytes, scanExp, hE, hbad, hsign, Bool.false_eq_true, if_false, expDigits, key,
        expVal, ExpShape.val]

/-! ### Agreement with the strict grammar: the digit phases -/

/-- what is known about the text `E` that follows the digits: the exponent scan succeeds with value `e`, and `E`
is empty or begins with the exponent letter -/
structure ExpTail (E : Bytes) (e : Int) : Prop where
  scan : scanExp E = .ok (some e)
  head : ∀ b, E.head? = some b → b = 69 ∨ b = 101

theorem ExpTail.nondigit {E : Bytes} {e : Int} (h : ExpTail E e) : ∀ b, E.head? = some b → isDigitB b = false := by
  intro b hb
  rcases h.head b hb with rfl | rfl <;> decide

theorem ExpTail.ne48 {E : Bytes} {e : Int} (h : ExpTail E e) : E.head? ≠ some 48 := by
  intro hb
  rcases h.head 48 hb with h | h <;> cases h

theorem expTail_of_shape (x : Option ExpShape) (hx : expWF x)
    (hv : ∀ y, x = some y → digitsVal y.digits < 1000000) : ExpTail (expBytes x) (expVal x) := by
  refine ⟨scanExp_expBytes x hx hv, ?_⟩
  rcases x with _ | ⟨up, sg, ds⟩
  · simp [expBytes]
  · intro b hb
    cases up <;> simp [expBytes, ExpShape.bytes] at hb <;> omega

/-- the rest of `scanBody` after the zero loop -/
def resume (neg : Bool) : ZeroSkip → ScanOutcome
  | .done o => o
  | .cont r rdx z => scanDigits neg r rdx z

theorem scanBody_cons (neg : Bool) (c : Nat) (t : List Nat) (h : (c != 46 && aboveNine c) = false) :
    scanBody neg (c :: t) = resume neg (zeroLoop neg (if c == 46 then t else c :: t) (c == 46) 0) := by
  unfold scanBody
  simp only [h, Bool.false_eq_true, if_false]
  cases zeroLoop neg (if (c == 46) = true then t else c :: t) (c == 46) 0 <;> rfl

theorem finishScan_tail (neg : Bool) (nb : Nat) (buf : Bytes) (st : Bool) (z : Nat) {E : Bytes} {e : Int}
    (hE : ExpTail E e) :
    finishScan neg nb buf st z E =
      .number { neg := neg, intDigits := buf.take nb, fracDigits := List.replicate z 48 ++ buf.drop nb,
                exp := e + ((nb - (buf.take nb).length : Nat) : Int) } st := by
  unfold finishScan
  rw [hE.scan]

/-- digits after a point that was met while skipping zeros: `z` skipped zeros, then at most 100 digits -/
theorem scanDigits_frac (neg : Bool) (fp' : Bytes) (hfp : ∀ b ∈ fp', isDigitB b = true) (hlen : fp'.length ≤ 100)
    {E : Bytes} {e : Int} (hE : ExpTail E e) (z : Nat) :
    scanDigits neg (fp' ++ E) true z =
      .number { neg := neg, intDigits := [], fracDigits := List.replicate z 48 ++ fp', exp := e } false := by
  unfold scanDigits
  simp only [Bool.not_true, Bool.false_eq_true, if_false]
  rw [collectDigits_run fp' hfp E hE.nondigit 0 [] false (by omega)]
  simp only
  rw [finishScan_tail neg 0 _ false z hE]
  simp

/-- digits before the point, the optional point and the digits after it: at most 100 digits in all -/
theorem scanDigits_int (neg : Bool) (ip' fp : Bytes) (point : Bool) (hip : ∀ b ∈ ip', isDigitB b = true)
    (hfp : ∀ b ∈ fp, isDigitB b = true) (hpt : point = false → fp = []) (hlen : ip'.length + fp.length ≤ 100)
    {E : Bytes} {e : Int} (hE : ExpTail E e) :
    scanDigits neg (ip' ++ ((if point then 46 :: fp else []) ++ E)) false 0 =
      .number { neg := neg, intDigits := ip', fracDigits := fp, exp := e } false := by
  unfold scanDigits
  simp only [Bool.not_false, if_true]
  cases point
  · have hfp0 : fp = [] := hpt rfl
    subst hfp0
    simp only [Bool.false_eq_true, if_false, List.nil_append]
    rw [collectDigits_run ip' hip E hE.nondigit 0 [] false (by simpa using hlen)]
    have h46 : (E.head? == some 46) = false := by
      rcases E with _ | ⟨b, t⟩
      · rfl
      · rcases hE.head b rfl with rfl | rfl <;> rfl
    simp only [h46, Bool.false_eq_true, if_false]
    rw [finishScan_tail neg _ _ false 0 hE]
    simp
  · simp only [if_true, List.cons_append]
    rw [collectDigits_run ip' hip (46 :: (fp ++ E)) (by intro b hb; cases hb; rfl) 0 [] false (by omega)]
    simp only [List.head?_cons, beq_self_eq_true, if_true, List.tail_cons]
    rw [collectDigits_run fp hfp E hE.nondigit _ _ false (by omega)]
    simp only
    rw [finishScan_tail neg _ _ false 0 hE]
    simp

/-- **After the point** (the point has been passed and no non-zero digit seen yet): zeros are counted, then the
digits are read.  All zeros and nothing after them: the early return of line 359. -/
theorem frac_phase (neg : Bool) (fp : Bytes) (hfp : ∀ b ∈ fp, isDigitB b = true)
    (hlen : (fp.dropWhile (· == 48)).length ≤ 100) {E : Bytes} {e : Int} (hE : ExpTail E e) :
    resume neg (zeroLoop neg (fp ++ E) true 0) =
      if fp ≠ [] ∧ fp.dropWhile (· == 48) = [] ∧ E = [] then .zero neg (-((min fp.length 6176 : Nat) : Int))
      else .number { neg := neg, intDigits := [], fracDigits := fp, exp := e } false := by
  obtain ⟨k, hk, hkl⟩ := zeros_split fp
  have hd' := dropZeros_digits fp hfp
  have hh' := dropZeros_head fp
  generalize fp.dropWhile (· == 48) = fp' at hk hkl hd' hh' hlen ⊢
  have hrest : (fp' ++ E).head? ≠ some 48 := by
    rcases fp' with _ | ⟨d, t⟩
    · simpa using hE.ne48
    · simpa using hh'
  -- the loop ends at `fp' ++ E` with `k` zeros counted, unless everything was a zero and the text ends
  by_cases hz : fp ≠ [] ∧ fp' = [] ∧ E = []
  · obtain ⟨h1, h2, h3⟩ := hz
    subst h2 h3
    rw [if_pos ⟨h1, rfl, rfl⟩]
    obtain ⟨k', rfl⟩ : ∃ k', k = k' + 1 := by
      rcases k with _ | k'
      · exfalso; apply h1; rw [hk]; rfl
      · exact ⟨k', rfl⟩
    rw [hk, List.append_assoc, zeroLoop_zeros neg _ (by simp) k' true 0]
    simp [afterZeros, resume]
  · rw [if_neg hz]
    have hloop : zeroLoop neg (fp ++ E) true 0 = .cont (fp' ++ E) true k := by
      rw [hk, List.append_assoc]
      rcases k with _ | k'
      · simp only [List.replicate_zero, List.nil_append]
        exact zeroLoop_head neg _ true 0 hrest
      · rw [zeroLoop_zeros neg _ hrest k' true 0]
        simp only [if_true, Nat.zero_add]
        -- the character after the zeros is a digit, or the exponent letter
        rcases hfe : fp' ++ E with _ | ⟨d, t2⟩
        · exfalso
          have h1 : fp' = [] := by
            rcases fp' with _ | _
            · rfl
            · simp at hfe
          have h2 : E = [] := by subst h1; simpa using hfe
          exact hz ⟨by rw [hk]; simp, h1, h2⟩
        · have hd46 : d ≠ 46 := by
            rcases fp' with _ | ⟨d1, t1⟩
            · have : E.head? = some d := by simp at hfe; rw [hfe]; rfl
              rcases hE.head d this with rfl | rfl <;> decide
            · have : d1 = d := by simp at hfe; exact hfe.1
              subst this
              have := hd' d1 (by simp)
              intro h; subst h; simp [isDigitB] at this
          simp [afterZeros, hd46]
    rw [hloop]
    simp only [resume]
    rw [scanDigits_frac neg fp' hd' hlen hE k, ← hk]

/-- **Digits before the point come first**: leading zeros are skipped (not counted), a point met while skipping
switches to counting; otherwise the digits are read.  All zeros and nothing after them: the early returns of lines
344 and 359. -/
theorem int_phase (neg : Bool) (ip fp : Bytes) (point : Bool) (hip : ∀ b ∈ ip, isDigitB b = true)
    (hfp : ∀ b ∈ fp, isDigitB b = true) (hpt : point = false → fp = []) (hne : ip ≠ [])
    (hlen : ((ip ++ fp).dropWhile (· == 48)).length ≤ 100) {E : Bytes} {e : Int} (hE : ExpTail E e) :
    resume neg (zeroLoop neg (ip ++ ((if point then 46 :: fp else []) ++ E)) false 0) =
      if (ip ++ fp).dropWhile (· == 48) = [] ∧ E = [] then .zero neg (-((min fp.length 6176 : Nat) : Int))
      else .number { neg := neg, intDigits := ip.dropWhile (· == 48), fracDigits := fp, exp := e } false := by
  obtain ⟨k, hk, hkl⟩ := zeros_split ip
  have hd' := dropZeros_digits ip hip
  have hh' := dropZeros_head ip
  rw [List.dropWhile_append] at hlen ⊢
  generalize ip.dropWhile (· == 48) = ip' at hk hkl hd' hh' hlen ⊢
  rcases ip' with _ | ⟨d, t⟩
  · -- the integer digits are all zeros
    simp only [List.isEmpty_nil, if_true] at hlen ⊢
    obtain ⟨k', rfl⟩ : ∃ k', k = k' + 1 := by
      rcases k with _ | k'
      · exfalso; apply hne; rw [hk]; rfl
      · exact ⟨k', rfl⟩
    have hR : ((if point then 46 :: fp else []) ++ E).head? ≠ some 48 := by
      cases point
      · simpa using hE.ne48
      · simp
    rw [hk, List.append_nil, zeroLoop_zeros neg _ hR k' false 0]
    simp only [Bool.false_eq_true, if_false]
    cases point
    · have hfp0 : fp = [] := hpt rfl
      subst hfp0
      simp only [Bool.false_eq_true, if_false, List.nil_append, List.dropWhile_nil, true_and, List.length_nil]
      rcases hEe : E with _ | ⟨b, E'⟩
      · simp [afterZeros, resume]
      · have hb46 : b ≠ 46 := by
          rcases hE.head b (by rw [hEe]; rfl) with rfl | rfl <;> decide
        have := scanDigits_int neg [] [] false (by simp) (by simp) (fun _ => rfl) (by simp) hE
        simp only [Bool.false_eq_true, if_false, List.nil_append, hEe] at this
        simp [afterZeros, hb46, resume, this]
    · simp only [if_true, List.cons_append]
      by_cases hemp : (fp ++ E).isEmpty = true
      · have h1 : fp = [] ∧ E = [] := by simpa using hemp
        obtain ⟨rfl, rfl⟩ := h1
        simp [afterZeros, resume]
      · have hfr := frac_phase neg fp hfp hlen hE
        have hne' : ¬ (fp = [] ∧ E = []) := by simpa using hemp
        simp only [afterZeros, beq_self_eq_true, if_true, Bool.not_false, hemp, Bool.false_eq_true, if_false]
        rw [hfr]
        by_cases hc : List.dropWhile (· == 48) fp = [] ∧ E = []
        · have hfpne : fp ≠ [] := fun h => hne' ⟨h, hc.2⟩
          rw [if_pos ⟨hfpne, hc.1, hc.2⟩, if_pos hc]
        · have hc' : ¬ (fp ≠ [] ∧ List.dropWhile (· == 48) fp = [] ∧ E = []) := fun h => hc ⟨h.2.1, h.2.2⟩
          rw [if_neg hc', if_neg hc]
  · -- there is a non-zero integer digit `d`
    have hd48 : d ≠ 48 := by simpa using hh'
    have hd46 : d ≠ 46 := by
      have := hd' d (by simp)
      intro h; subst h; simp [isDigitB] at this
    simp only [List.isEmpty_cons, Bool.false_eq_true, if_false] at hlen ⊢
    have hloop : zeroLoop neg (ip ++ ((if point then 46 :: fp else []) ++ E)) false 0 =
        .cont (d :: t ++ ((if point then 46 :: fp else []) ++ E)) false 0 := by
      rw [hk, List.append_assoc]
      rcases k with _ | k'
      · simp only [List.replicate_zero, List.nil_append]
        exact zeroLoop_head neg _ false 0 (by simpa using hd48)
      · rw [zeroLoop_zeros neg _ (by simpa using hd48) k' false 0]
        simp [afterZeros, hd46]
    rw [hloop]
    simp only [resume]
    rw [scanDigits_int neg (d :: t) fp point hd' hfp hpt (by simp only [List.length_append] at hlen; exact hlen) hE]
    simp

/-- the scanner on the text after the sign of a well-formed literal -/
theorem scanBody_body (neg : Bool) (ip fp : Bytes) (point : Bool) (hip : ∀ b ∈ ip, isDigitB b = true)
    (hfp : ∀ b ∈ fp, isDigitB b = true) (hpt : point = false → fp = []) (hne : ip ≠ [] ∨ fp ≠ [])
    (hlen : ((ip ++ fp).dropWhile (· == 48)).length ≤ 100) {E : Bytes} {e : Int} (hE : ExpTail E e) :
    scanBody neg (ip ++ ((if point then 46 :: fp else []) ++ E)) =
      if (ip ++ fp).dropWhile (· == 48) = [] ∧ E = [] then .zero neg (-((min fp.length 6176 : Nat) : Int))
      else .number { neg := neg, intDigits := ip.dropWhile (· == 48), fracDigits := fp, exp := e } false := by
  rcases ip with _ | ⟨d, t⟩
  · have hfpne : fp ≠ [] := by
      rcases hne with h | h
      · exact absurd rfl h
      · exact h
    have hp : point = true := by
      cases point
      · exact absurd (hpt rfl) hfpne
      · rfl
    subst hp
    simp only [List.nil_append, if_true, List.cons_append, List.dropWhile_nil] at hlen ⊢
    rw [scanBody_cons neg 46 _ (by decide)]
    simp only [beq_self_eq_true, if_true]
    rw [frac_phase neg fp hfp hlen hE]
    by_cases hc : List.dropWhile (· == 48) fp = [] ∧ E = []
    · rw [if_pos ⟨hfpne, hc.1, hc.2⟩, if_pos hc]
    · have hc' : ¬ (fp ≠ [] ∧ List.dropWhile (· == 48) fp = [] ∧ E = []) := fun h => hc ⟨h.2.1, h.2.2⟩
      rw [if_neg hc', if_neg hc]
  · have hd : isDigitB d = true := hip d (by simp)
    have hd' : 48 ≤ d ∧ d ≤ 57 := by simpa only [isDigitB, Bool.and_eq_true, decide_eq_true_eq] using hd
    have h1 : (d != 46 && aboveNine d) = false := by
      have : aboveNine d = false := by simp [aboveNine]; omega
      simp [this]
    have h2 : (d == 46) = false := by rw [beq_eq_false_iff_ne]; omega
    rw [List.cons_append, scanBody_cons neg d _ h1]
    simp only [h2, Bool.false_eq_true, if_false]
    exact int_phase neg (d :: t) fp point hip hfp hpt (by simp) hlen hE

/-- the first character is a sign, a point or a digit: lines 276–307 -/
theorem scanCP_cons (c : Nat) (t : List Nat) (hc : c = 43 ∨ c = 45 ∨ c = 46 ∨ isDigitB c = true) :
    scanCP (c :: t) =
      if isInfText (utf8 t) then (if c == 43 then .inf false else if c == 45 then .inf true else .nan false)
      else if (c == 43 || c == 45) && hasSnanPrefix (utf8 t) then (if c == 45 then .snan true else .snan false)
      else scanBody (c == 45) (if c == 45 || c == 43 then t else c :: t) := by
  have hrange : c = 43 ∨ c = 45 ∨ c = 46 ∨ (48 ≤ c ∧ c ≤ 57) := by
    simpa only [isDigitB, Bool.and_eq_true, decide_eq_true_eq] using hc
  have hblank : isBlankCP c = false := by
    unfold isBlankCP
    rw [Bool.or_eq_false_iff, beq_eq_false_iff_ne, beq_eq_false_iff_ne]
    omega
  have hfirst : (c != 46 && c != 45 && c != 43 && aboveNine c) = false := by
    by_cases h1 : c = 46
    · simp [h1]
    · by_cases h2 : c = 45
      · simp [h2]
      · by_cases h3 : c = 43
        · simp [h3]
        · have : aboveNine c = false := by simp [aboveNine]; omega
          simp [this]
  have hs : (c :: t).dropWhile isBlankCP = c :: t := by simp [hblank]
  have hsl := slice_ps1 (c :: t) c t hs (by omega)
  unfold scanCP
  simp only [List.isEmpty_cons, Bool.false_eq_true, if_false, hs, hfirst]
  unfold scanSigned
  rw [hsl]

/-- a text that begins with a character of the literal alphabet is none of the special spellings -/
theorem not_special (t : Bytes) (h : ∀ b, t.head? = some b → lowerB b ≠ 105 ∧ lowerB b ≠ 115) :
    isInfText t = false ∧ hasSnanPrefix t = false := by
  rcases t with _ | ⟨b, t'⟩
  · decide
  · obtain ⟨h1, h2⟩ := h b rfl
    refine ⟨?_, ?_⟩
    · simp [isInfText, eqIgnoreCase, lInf, lInfinity, h1]
    · unfold hasSnanPrefix getRange
      split
      · simp [eqIgnoreCase, lSnan, h2]
      · rfl

theorem litByte_lower (b : Nat) (h : b = 43 ∨ b = 45 ∨ b = 46 ∨ b = 69 ∨ b = 101 ∨ isDigitB b = true) :
    lowerB b ≠ 105 ∧ lowerB b ≠ 115 := by
  simp only [isDigitB, Bool.and_eq_true, decide_eq_true_eq] at h
  unfold lowerB
  split
  · rename_i hb; simp only [Bool.and_eq_true, decide_eq_true_eq] at hb; omega
  · omega

/-! ### Agreement with the strict grammar: the theorem -/

/-- the text contains the exponent letter -/
def hasExpLetter (b : Bytes) : Bool := b.any (fun x => x == 69 || x == 101)

theorem hasExpLetter_render (sh : Shape) (hwf : sh.WF) : hasExpLetter sh.render = sh.exp.isSome := by
  obtain ⟨sg, ip, point, fp, x⟩ := sh
  obtain ⟨hip, hfp, _, _, _⟩ := hwf
  simp only at hip hfp
  have hdig : ∀ ds : Bytes, (∀ b ∈ ds, isDigitB b = true) → ds.any (fun x => x == 69 || x == 101) = false := by
    intro ds hds
    rw [List.any_eq_false]
    intro b hb
    have := hds b hb
    simp only [isDigitB, Bool.and_eq_true, decide_eq_true_eq] at this
    simp only [Bool.or_eq_true, beq_iff_eq, not_or]
    omega
  have hsg : (signBytes sg).any (fun x => x == 69 || x == 101) = false := by
    rcases sg with _ | _ | _ <;> decide
  have hpt : (if point then 46 :: fp else []).any (fun x => x == 69 || x == 101) = false := by
    cases point
    · rfl
    · simp only [if_true, List.any_cons, hdig fp hfp]; decide
  simp only [hasExpLetter, Shape.render, List.any_append, hsg, hdig ip hip, hpt, Bool.false_or]
  rcases x with _ | ⟨up, esg, ds⟩
  · rfl
  · cases up <;> simp [expBytes, ExpShape.bytes]

/-- a digit string denotes 0 exactly when it consists of zeros -/
theorem digitsVal_eq_zero_iff (ds : Bytes) (hds : ∀ b ∈ ds, isDigitB b = true) :
    digitsVal ds = 0 ↔ ds.dropWhile (· == 48) = [] := by
  constructor
  · intro h
    rcases hq : ds.dropWhile (· == 48) with _ | ⟨d, t⟩
    · rfl
    · exfalso
      have hd : isDigitB d = true := dropZeros_digits ds hds d (by rw [hq]; simp)
      have h48 : d ≠ 48 := by
        have := dropZeros_head ds
        rw [hq] at this
        simpa using this
      have hge := digitsVal_ge d t hd h48
      rw [← hq, digitsVal_dropZeros, h] at hge
      have : 0 < 10 ^ t.length := Nat.pow_pos (by decide)
      omega
  · intro h
    rw [← digitsVal_dropZeros, h]
    rfl

/-- the scanner on a well-formed literal text, by its parts -/
theorem scanCP_render (sh : Shape) (hwf : sh.WF) (hlen : sh.literal.sigDigits.length ≤ 100)
    (hv : ∀ y, sh.exp = some y → digitsVal y.digits < 1000000) :
    scanCP sh.render =
      if sh.literal.sigDigits = [] ∧ sh.exp = none then
        .zero (sh.sign == some true) (-((min sh.fp.length 6176 : Nat) : Int))
      else .number { sh.literal with intDigits := sh.ip.dropWhile (· == 48) } false := by
  have hall := literal_bytes sh.render sh.literal (parse_render sh hwf)
  obtain ⟨sg, ip, point, fp, x⟩ := sh
  obtain ⟨hip, hfp, hne, hpt, hx⟩ := hwf
  simp only at hip hfp hne hpt hx hv
  simp only [Shape.literal, Literal.sigDigits] at hlen ⊢
  have hE := expTail_of_shape x hx hv
  have hbody := scanBody_body (sg == some true) ip fp point hip hfp hpt hne hlen hE
  have hEx : expBytes x = [] ↔ x = none := by
    rcases x with _ | y
    · simp [expBytes]
    · simp [expBytes, ExpShape.bytes]
  simp only [hEx] at hbody
  simp only [Shape.render] at hall ⊢
  generalize hb : ip ++ ((if point then 46 :: fp else []) ++ expBytes x) = body at hall hbody ⊢
  -- the text after the sign begins with a digit or the point
  obtain ⟨b0, bt, hb0, hbt⟩ : ∃ b0 bt, body = b0 :: bt ∧ (b0 = 46 ∨ isDigitB b0 = true) := by
    rcases ip with _ | ⟨d, t⟩
    · have hp : point = true := by
        cases point
        · rcases hne with h | h
          · exact absurd rfl h
          · exact absurd (hpt rfl) h
        · rfl
      subst hp
      exact ⟨46, _, by rw [← hb]; rfl, Or.inl rfl⟩
    · exact ⟨d, _, by rw [← hb]; rfl, Or.inr (hip d (by simp))⟩
  have hascii : ∀ (u : Bytes), (∀ b ∈ u, b ∈ signBytes sg ++ body) → utf8 u = u := by
    intro u hu
    apply utf8_ascii
    intro b hbu
    have := hall b (hu b hbu)
    simp only [isDigitB, Bool.and_eq_true, decide_eq_true_eq] at this
    omega
  have hhead : ∀ (u : Bytes), (∀ b ∈ u, b ∈ signBytes sg ++ body) →
      ∀ b, u.head? = some b → lowerB b ≠ 105 ∧ lowerB b ≠ 115 := by
    intro u hu b hbu
    exact litByte_lower b (hall b (hu b (List.mem_of_mem_head? hbu)))
  have hb0' : b0 ≠ 45 ∧ b0 ≠ 43 := by
    rcases hbt with h | h
    · subst h; decide
    · simp only [isDigitB, Bool.and_eq_true, decide_eq_true_eq] at h; omega
  rcases sg with _ | sgn
  · -- no sign
    simp only [signBytes, List.nil_append] at hascii hhead ⊢
    subst hb0
    have hsub : ∀ b ∈ bt, b ∈ b0 :: bt := fun b hb => List.mem_cons_of_mem _ hb
    rw [scanCP_cons b0 bt (by rcases hbt with h | h <;> simp [h]), hascii bt hsub,
      (not_special bt (hhead bt hsub)).1, (not_special bt (hhead bt hsub)).2]
    have h45 : (b0 == 45) = false := by rw [beq_eq_false_iff_ne]; exact hb0'.1
    have h43 : (b0 == 43) = false := by rw [beq_eq_false_iff_ne]; exact hb0'.2
    simp only [Bool.false_eq_true, if_false, h45, h43, Bool.or_self]
    exact hbody
  · -- a sign
    have hsb : signBytes (some sgn) = [if sgn then 45 else 43] := by cases sgn <;> rfl
    rw [hsb] at hascii hhead ⊢
    simp only [List.singleton_append] at hascii hhead ⊢
    have hsub : ∀ b ∈ body, b ∈ (if sgn then 45 else 43) :: body := fun b hb => List.mem_cons_of_mem _ hb
    rw [scanCP_cons _ body (by cases sgn <;> simp), hascii body hsub,
      (not_special body (hhead body hsub)).1, (not_special body (hhead body hsub)).2]
    cases sgn <;> simpa using hbody

/-- the UTF-8 bytes of a text given as a list of characters -/
def textBytes (s : List Char) : Bytes := utf8 (s.map Char.toNat)

/-- **Agreement with the strict grammar.**  Let the text be a well-formed literal `l` (strict grammar
`parseLiteral` on its UTF-8 bytes) with at most 100 significant digits and an exponent below `10^6` in magnitude.
Then the code reads exactly this literal, with the leading zeros of the integer part dropped: same sign, same
fraction digits, same exponent, no sticky flag — except when every digit is `0` and there is no exponent part: then the
zero-skipping loop returns a zero at once, with exponent `−(number of fraction digits)`, not below −6176.

(Beyond the hypotheses: the code stores only 100 digits, and reads the first exponent digit, skips zeros only if that
digit was `0`, then reads at most six more digits.) -/
theorem scan_agrees_strict (s : List Char) (l : Literal) (h : parseLiteral (textBytes s) = some l)
    (hd : l.sigDigits.length ≤ 100) (he : l.exp.natAbs < 1000000) :
    scanText s =
      if l.coeff = 0 ∧ hasExpLetter (textBytes s) = false then .zero l.neg (max l.exp10 (-6176))
      else .number { l with intDigits := l.intDigits.dropWhile (· == 48) } false := by
  obtain ⟨sh, hwf, hr, hl⟩ := parse_sound _ l h
  have hasc : ∀ b ∈ textBytes s, b < 128 := by
    intro b hb
    have := literal_bytes _ l h b hb
    simp only [isDigitB, Bool.and_eq_true, decide_eq_true_eq] at this
    omega
  have hcp : s.map Char.toNat = sh.render := by
    rw [hr]; exact (utf8_ascii _ (ascii_of_utf8 _ hasc)).symm
  subst hl
  have hv : ∀ y, sh.exp = some y → digitsVal y.digits < 1000000 := by
    intro y hy
    simp only [Shape.literal, hy, expVal, ExpShape.val] at he
    split at he <;> omega
  have hcond : (sh.literal.sigDigits = [] ∧ sh.exp = none) ↔
      (sh.literal.coeff = 0 ∧ hasExpLetter (textBytes s) = false) := by
    have h1 : sh.literal.sigDigits = [] ↔ sh.literal.coeff = 0 := by
      unfold Literal.sigDigits Literal.coeff
      refine (digitsVal_eq_zero_iff _ ?_).symm
      intro b hb
      rcases List.mem_append.1 hb with hb | hb
      · exact hwf.1 b hb
      · exact hwf.2.1 b hb
    have h2 : sh.exp = none ↔ hasExpLetter (textBytes s) = false := by
      rw [← hr, hasExpLetter_render sh hwf]
      cases sh.exp <;> simp
    rw [h1, h2]
  unfold scanText
  rw [hcp, scanCP_render sh hwf hd hv]
  by_cases hc : sh.literal.sigDigits = [] ∧ sh.exp = none
  · rw [if_pos hc, if_pos (hcond.1 hc)]
    have : sh.literal.exp10 = -(sh.fp.length : Int) := by
      simp [Literal.exp10, Shape.literal, hc.2, expVal]
    rw [this]
    congr 1
    omega
  · rw [if_neg hc, if_neg (fun h => hc (hcond.2 h))]
    rfl

/-- **What the numeric phase is given is the value of the literal** (non-zero literals): the code goes on to the
numeric phase with the sign, the coefficient and the exponent of the literal. -/
theorem scan_agrees_value (s : List Char) (l : Literal) (h : parseLiteral (textBytes s) = some l)
    (hd : l.sigDigits.length ≤ 100) (he : l.exp.natAbs < 1000000) (hc : l.coeff ≠ 0) :
    ∃ l', scanText s = .number l' false ∧ l'.neg = l.neg ∧ l'.coeff = l.coeff ∧ l'.exp10 = l.exp10 := by
  refine ⟨{ l with intDigits := l.intDigits.dropWhile (· == 48) }, ?_, rfl, ?_, rfl⟩
  · rw [scan_agrees_strict s l h hd he, if_neg (fun h => hc h.1)]
  · simp only [Literal.coeff, digitsVal_append, digitsVal_dropZeros]

/-- **Zero literals**: either the early return — a zero with the sign of the literal and its exponent, not below
−6176 — or the numeric phase is entered with coefficient 0 and the exponent of the literal (and returns a zero with
that exponent clamped into range). -/
theorem scan_agrees_zero (s : List Char) (l : Literal) (h : parseLiteral (textBytes s) = some l)
    (hd : l.sigDigits.length ≤ 100) (he : l.exp.natAbs < 1000000) (hc : l.coeff = 0) :
    scanText s = .zero l.neg (max l.exp10 (-6176)) ∨
      ∃ l', scanText s = .number l' false ∧ l'.neg = l.neg ∧ l'.coeff = 0 ∧ l'.exp10 = l.exp10 := by
  rw [scan_agrees_strict s l h hd he]
  by_cases hx : hasExpLetter (textBytes s) = false
  · exact Or.inl (by rw [if_pos ⟨hc, hx⟩])
  · refine Or.inr ⟨{ l with intDigits := l.intDigits.dropWhile (· == 48) }, by rw [if_neg (fun h => hx h.2)], rfl,
      ?_, rfl⟩
    rw [← hc]
    simp only [Literal.coeff, digitsVal_append, digitsVal_dropZeros]

/-! ### The special spellings -/

theorem lowerB_ge (b : Nat) : b ≤ lowerB b := by
  unfold lowerB; split <;> omega

/-- a text that matches an ASCII word ignoring case is ASCII -/
theorem eqIgnoreCase_ascii (t lower : Bytes) (hl : ∀ b ∈ lower, b < 128) (h : eqIgnoreCase t lower = true) :
    ∀ b ∈ t, b < 128 := by
  intro b hb
  have hm : t.map lowerB = lower := by simpa [eqIgnoreCase] using h
  have : lowerB b ∈ lower := by rw [← hm]; exact List.mem_map_of_mem hb
  have := hl _ this
  have := lowerB_ge b
  omega

theorem isInfText_ascii (t : Bytes) (h : isInfText t = true) : ∀ b ∈ t, b < 128 := by
  unfold isInfText at h
  rcases Bool.or_eq_true _ _ ▸ h with h | h
  · exact eqIgnoreCase_ascii t lInf (by decide) h
  · exact eqIgnoreCase_ascii t lInfinity (by decide) h

/-- the first character is above `'9'`: lines 261–273 -/
theorem scanCP_letter (c : Nat) (t : List Nat) (hc : 57 < c) :
    scanCP (c :: t) =
      if isInfText (utf8 (c :: t)) then .inf false
      else if hasSnanPrefix (utf8 (c :: t)) then .snan false else .nan false := by
  have hblank : isBlankCP c = false := by
    unfold isBlankCP
    rw [Bool.or_eq_false_iff, beq_eq_false_iff_ne, beq_eq_false_iff_ne]
    omega
  have hfirst : (c != 46 && c != 45 && c != 43 && aboveNine c) = true := by
    have h1 : c ≠ 46 := by omega
    have h2 : c ≠ 45 := by omega
    have h3 : c ≠ 43 := by omega
    have : aboveNine c = true := by simp [aboveNine]; omega
    simp [h1, h2, h3, this]
  have hs : (c :: t).dropWhile isBlankCP = c :: t := by simp [hblank]
  have hsl := slice_ps (c :: t)
  rw [hs] at hsl
  unfold scanCP
  simp only [List.isEmpty_cons, Bool.false_eq_true, if_false, hs, hfirst, if_true]
  unfold scanSpecial
  rw [hsl]

theorem lowerB_eq (x v : Nat) (hv : 97 ≤ v ∧ v ≤ 122) (h : lowerB x = v) : x = v - 32 ∨ x = v := by
  unfold lowerB at h
  split at h
  · omega
  · omega

/-- **`inf`, `infinity`** in any mixture of cases, alone or after a sign: the infinity of that sign. -/
theorem scanCP_inf (t : List Nat) (h : isInfText t = true) :
    scanCP t = .inf false ∧ scanCP (43 :: t) = .inf false ∧ scanCP (45 :: t) = .inf true := by
  have hu : utf8 t = t := utf8_ascii t (isInfText_ascii t h)
  refine ⟨?_, ?_, ?_⟩
  · rcases t with _ | ⟨c, t'⟩
    · exact absurd h (by decide)
    · have hc : 57 < c := by
        have : lowerB c = 105 := by
          unfold isInfText at h
          rcases Bool.or_eq_true _ _ ▸ h with h | h <;>
            · simp only [eqIgnoreCase, List.map_cons, lInf, lInfinity, beq_iff_eq, List.cons.injEq] at h
              exact h.1
        rcases lowerB_eq c 105 (by omega) this with h | h <;> omega
      rw [scanCP_letter c t' hc, hu, h]
      rfl
  · rw [scanCP_cons 43 t (Or.inl rfl), hu, h]; rfl
  · rw [scanCP_cons 45 t (Or.inr (Or.inl rfl)), hu, h]; rfl

/-- **`snan`** in any mixture of cases, followed by anything at all (ASCII or not), alone or after a sign: the
signalling NaN of that sign. -/
theorem scanCP_snan (p rest : List Nat) (h : eqIgnoreCase p lSnan = true) :
    scanCP (p ++ rest) = .snan false ∧ scanCP (43 :: (p ++ rest)) = .snan false ∧
      scanCP (45 :: (p ++ rest)) = .snan true := by
  have hm : p.map lowerB = lSnan := by simpa [eqIgnoreCase] using h
  have hp : utf8 p = p := utf8_ascii p (eqIgnoreCase_ascii p lSnan (by decide) h)
  have hlen : p.length = 4 := by
    have := congrArg List.length hm
    simpa [lSnan] using this
  have hu : utf8 (p ++ rest) = p ++ utf8 rest := by rw [utf8_append, hp]
  obtain ⟨c, p', rfl⟩ : ∃ c p', p = c :: p' := by
    rcases p with _ | ⟨c, p'⟩
    · simp at hlen
    · exact ⟨c, p', rfl⟩
  have hc : lowerB c = 115 := by
    simp only [List.map_cons, lSnan, List.cons.injEq] at hm
    exact hm.1
  have hinf : isInfText (c :: p' ++ utf8 rest) = false := by
    simp [isInfText, eqIgnoreCase, lInf, lInfinity, hc]
  have hsn : hasSnanPrefix (c :: p' ++ utf8 rest) = true := by
    have hb := boundary_prefix (c :: p') rest
    rw [hu, hp, hlen] at hb
    have htake : List.take 4 (c :: p' ++ utf8 rest) = c :: p' := by
      rw [← hlen]; exact List.take_left
    have h0 : isCharBoundary (c :: p' ++ utf8 rest) 0 = true := by simp [isCharBoundary]
    unfold hasSnanPrefix getRange
    simp only [hb, h0, Bool.and_self, Nat.zero_le, decide_true, if_true, List.drop_zero, htake, Option.any_some, h]
  have hc57 : 57 < c := by
    rcases lowerB_eq c 115 (by omega) hc with h | h <;> omega
  refine ⟨?_, ?_, ?_⟩
  · rw [List.cons_append, scanCP_letter c _ hc57, ← List.cons_append, hu, hinf, hsn]; rfl
  · rw [scanCP_cons 43 _ (Or.inl rfl), hu, hinf, hsn]; rfl
  · rw [scanCP_cons 45 _ (Or.inr (Or.inl rfl)), hu, hinf, hsn]; rfl

/-- **`nan`** in any mixture of cases, alone or after a sign: the quiet NaN of that sign. -/
theorem scanCP_nan (t : List Nat) (h : eqIgnoreCase t lNan = true) :
    scanCP t = .nan false ∧ scanCP (43 :: t) = .nan false ∧ scanCP (45 :: t) = .nan true := by
  have hm : t.map lowerB = lNan := by simpa [eqIgnoreCase] using h
  rcases t with _ | ⟨a, _ | ⟨b, _ | ⟨c, _ | _⟩⟩⟩ <;> simp [lNan] at hm
  obtain ⟨ha, hb, hc⟩ := hm
  rcases lowerB_eq a 110 (by omega) ha with rfl | rfl <;>
  rcases lowerB_eq b 97 (by omega) hb with rfl | rfl <;>
  rcases lowerB_eq c 110 (by omega) hc with rfl | rfl <;> decide

/-! ### The special spellings, on texts -/

/-- **`inf` / `infinity`**, any case, optional sign. -/
theorem scan_inf (s : List Char) (h : isInfText (s.map Char.toNat) = true) :
    scanText s = .inf false ∧ scanText ('+' :: s) = .inf false ∧ scanText ('-' :: s) = .inf true :=
  scanCP_inf _ h

/-- **`nan`**, any case, optional sign. -/
theorem scan_nan (s : List Char) (h : eqIgnoreCase (s.map Char.toNat) lNan = true) :
    scanText s = .nan false ∧ scanText ('+' :: s) = .nan false ∧ scanText ('-' :: s) = .nan true :=
  scanCP_nan _ h

/-- **`snan`**, any case, optional sign, *whatever follows* (`snanxyz`, `-SNaNñ`): only the first four bytes are
looked at. -/
theorem scan_snan (p rest : List Char) (h : eqIgnoreCase (p.map Char.toNat) lSnan = true) :
    scanText (p ++ rest) = .snan false ∧ scanText ('+' :: (p ++ rest)) = .snan false ∧
      scanText ('-' :: (p ++ rest)) = .snan true := by
  have := scanCP_snan (p.map Char.toNat) (rest.map Char.toNat) h
  simp only [scanText, List.map_cons, List.map_append]
  exact this

example : isInfText (['i', 'N', 'f', 'I', 'n', 'i', 'T', 'y'].map Char.toNat) = true := by decide
example : eqIgnoreCase (['N', 'a', 'n'].map Char.toNat) lNan = true := by decide
example : eqIgnoreCase (['s', 'N', 'A', 'n'].map Char.toNat) lSnan = true := by decide

example : scanText ['i', 'n', 'f'] = .inf false := by decide
example : scanText ['-', 'I', 'N', 'F'] = .inf true := by decide
example : scanText ['+', 'I', 'n', 'f', 'i', 'n', 'i', 't', 'y'] = .inf false := by decide
example : scanText ['-', 'i', 'n', 'f', 'i', 'n', 'i', 't', 'y'] = .inf true := by decide
example : scanText ['N', 'a', 'N'] = .nan false := by decide
example : scanText ['-', 'n', 'a', 'n'] = .nan true := by decide
example : scanText ['s', 'N', 'a', 'N'] = .snan false := by decide
example : scanText ['-', 'S', 'N', 'A', 'N'] = .snan true := by decide
example : scanText ['+', 's', 'n', 'a', 'n'] = .snan false := by decide

/-! ### What the code does on tricky texts

Each line was also run through the real function (`convert_from_decimal_character`): same result. -/

-- an exponent letter without digits: quiet NaN (these used to panic)
example : scanText ['1', 'E'] = .nan false := by decide
example : scanText ['1', 'E', '+'] = .nan false := by decide
-- multi-byte characters where the code slices by bytes (`ñ` is two bytes): no panic, quiet NaN
example : scanText ['n', 'a', 'n', 'ñ'] = .nan false := by decide
example : scanText ['+', 'a', 'a', 'a', 'ñ'] = .nan false := by decide      -- `get(0..4)` is inside `ñ`
example : scanText ['s', 'n', 'a', '€'] = .nan false := by decide
example : scanText ['-', 's', 'N', 'a', 'N', 'ñ'] = .snan true := by decide
-- whatever follows a complete exponent is ignored
example : scanText ['1', 'e', '5', 'x'] = .number ⟨false, [49], [], 5⟩ false := by decide
-- but something else than `e` after the digits is a NaN — and a positive one
example : scanText ['-', '1', 'x'] = .nan false := by decide
-- no digits at all: a zero
example : scanText ['.'] = .number ⟨false, [], [], 0⟩ false := by decide
example : scanText ['+'] = .number ⟨false, [], [], 0⟩ false := by decide
example : scanText ['+', '.'] = .number ⟨false, [], [], 0⟩ false := by decide
example : scanText ['.', 'e', '5'] = .number ⟨false, [], [], 5⟩ false := by decide
-- leading blanks are skipped
example : scanText [' ', ' ', '7'] = .number ⟨false, [55], [], 0⟩ false := by decide
example : scanText [' ', '\t', '-', '1', '2'] = .number ⟨true, [49, 50], [], 0⟩ false := by decide
example : scanText [' '] = .nan false := by decide
example : scanText [] = .nan false := by decide
-- zeros: the early returns
example : scanText ['0', '.', '0', '0', '0'] = .zero false (-3) := by decide
example : scanText ['0', '0', '.'] = .zero false 0 := by decide
example : scanText ['-', '0', '.', '0', '0'] = .zero true (-2) := by decide
-- a zero with an exponent part goes on to the numeric phase, with no digits
example : scanText ['0', 'e', '5'] = .number ⟨false, [], [], 5⟩ false := by decide
example : scanText ['0', '.', '0', '0', 'e', '5'] = .number ⟨false, [], [48, 48], 5⟩ false := by decide
-- two points, two signs
example : scanText ['1', '.', '.', '2'] = .nan false := by decide
example : scanText ['0', '.', '0', '.'] = .nan false := by decide
example : scanText ['-', '0', '.', '0', '.'] = .nan true := by decide
example : scanText ['-', '-', '1'] = .nan false := by decide
-- characters below `'0'` pass the first test (signed comparison) and fail later — as a positive NaN
example : scanText ['!'] = .nan false := by decide
example : scanText ['-', '!'] = .nan false := by decide
example : scanText ['-', 'x'] = .nan true := by decide
-- `inf` is looked for after ANY first character that passes the first test, `snan` only after a sign
example : scanText ['1', 's', 'n', 'a', 'n'] = .nan false := by decide
example : scanText ['.', 's', 'n', 'a', 'n'] = .nan false := by decide
example : scanText ['1', 'i', 'n', 'f'] = .nan false := by decide
-- leading zeros of the integer part are dropped, those after the point are counted
example : scanText ['0', '0', '.', '0', '5', '0', '0', 'e', '-', '0', '3'] =
    .number ⟨false, [], [48, 53, 48, 48], -3⟩ false := by decide
-- at most seven exponent digits are read (six after a leading zero)
example : scanText ['1', 'e', '1', '2', '3', '4', '5', '6', '7', '8'] = .number ⟨false, [49], [], 1234567⟩ false := by
  decide
example : scanText ['1', 'e', '0', '1', '2', '3', '4', '5', '6', '7'] = .number ⟨false, [49], [], 123456⟩ false := by
  decide
-- 101 digits: 100 are stored, the exponent makes up for the dropped one, the sticky flag is set
example : scanText (List.replicate 101 '1') = .number ⟨false, List.replicate 100 49, [], 1⟩ true := by
  decide +kernel
-- more than 6176 fraction zeros: exponent −6176
example : scanText ('.' :: List.replicate 6177 '0') = .zero false (-6176) := by decide +kernel

/-! ### The panic sites are live: what each guard prevents

`scan_never_panics` is not vacuous: each modelled operation does fail on the inputs the code's guards exclude. -/

-- `&range[0..4]` on `aaañ` (index 4 is inside `ñ`): not a character boundary — the code uses `get(0..4)`
example : getRange (utf8 (['a', 'a', 'a', 'ñ'].map Char.toNat)) 0 4 = none := by decide
example : sliceFrom (utf8 (['a', 'a', 'a', 'ñ'].map Char.toNat)) 4 = none := by decide
-- `&str[1..]` when the first character is `ñ`: line 276 is only reached for a first character `≤ '9'`
example : sliceFrom (utf8 (['ñ', '1'].map Char.toNat)) 1 = none := by decide
-- slicing beyond the end
example : sliceFrom (utf8 (['1'].map Char.toNat)) 2 = none := by decide
-- `c.unwrap()` of line 474 at the end of the text (`1E`, `1E+`): excluded by the test of line 456
example : ∃ site, expDigits false [] = .error site := ⟨_, rfl⟩
example : expHeadBad [] = true ∧ expHeadBad [43] = true := by decide
-- `buffer[100]`
example : bufSet (List.replicate 100 49) 100 49 = none := by decide
-- the digit loops do run past 100 digits without storing
example : (match collectDigits (List.replicate 150 49) 0 [] false with
    | .ok a => decide (a = ⟨[], 150, List.replicate 100 49, true⟩)
    | .error _ => false) = true := by
  decide +kernel

/-! ### The limits of the agreement theorem are the code's

The agreement theorem below cannot drop its exponent hypothesis: `1e12345678` is a well-formed literal with exponent
12345678, and the code reads 1234567 (the `1e12345678` example above).  Nor the digit hypothesis: 101 digits are
truncated (the `List.replicate 101 '1'` example above). -/
example : (parseLiteral (textBytes ['1', 'e', '1', '2', '3', '4', '5', '6', '7', '8'])).map (·.exp) = some 12345678 := by
  decide

/-! ### The hypotheses of the agreement theorems are satisfiable -/

/-- `-012.50E+3`: a well-formed literal; the scanner reads it with the leading `0` dropped -/
example :
    parseLiteral (textBytes ['-', '0', '1', '2', '.', '5', '0', 'E', '+', '3']) =
        some ⟨true, [48, 49, 50], [53, 48], 3⟩ ∧
      (⟨true, [48, 49, 50], [53, 48], 3⟩ : Literal).sigDigits.length ≤ 100 ∧
      (⟨true, [48, 49, 50], [53, 48], 3⟩ : Literal).exp.natAbs < 1000000 ∧
      (⟨true, [48, 49, 50], [53, 48], 3⟩ : Literal).coeff ≠ 0 ∧
      scanText ['-', '0', '1', '2', '.', '5', '0', 'E', '+', '3'] = .number ⟨true, [49, 50], [53, 48], 3⟩ false := by
  decide

/-- `-0.00`: a zero literal without exponent part, the early return -/
example :
    parseLiteral (textBytes ['-', '0', '.', '0', '0']) = some ⟨true, [48], [48, 48], 0⟩ ∧
      (⟨true, [48], [48, 48], 0⟩ : Literal).coeff = 0 ∧ hasExpLetter (textBytes ['-', '0', '.', '0', '0']) = false ∧
      scanText ['-', '0', '.', '0', '0'] = .zero true (max (⟨true, [48], [48, 48], 0⟩ : Literal).exp10 (-6176)) := by
  decide

/-- `0e5`: a zero literal with an exponent part goes on to the numeric phase -/
example :
    parseLiteral (textBytes ['0', 'e', '5']) = some ⟨false, [48], [], 5⟩ ∧
      (⟨false, [48], [], 5⟩ : Literal).coeff = 0 ∧ hasExpLetter (textBytes ['0', 'e', '5']) = true ∧
      scanText ['0', 'e', '5'] = .number ⟨false, [], [], 5⟩ false := by
  decide

end Dec.C04Scan
