import DecProofs.Properties.C02GenFmaZB
set_option linter.unusedSimpArgs false
set_option linter.unusedVariables false
set_option linter.unusedTactic false
set_option linter.unreachableTactic false
set_option linter.unnecessarySeqFocus false
namespace Dec.C02GenFmaZ
open Dec Dec.Rs Dec.Gen.Code Dec.C03GenCompare Dec.C02GenCorrection
open Dec.C08GenRoundIntegral (bind_ok' ite_true_bool ite_false_bool i32_add i32_sub i32_neg)

/-! ## 3. The mathematics of "z dominates" -/

/-- same signs, the product below half a unit of `z`'s last place: nearest is `c`, the value lies just above -/
theorem deliv_add (s : Bool) (c c4 : Nat) (E4 ef : Int) (hE : E4 ≤ ef) (hef1 : -6176 ≤ ef) (hef2 : ef ≤ 20000)
    (h0 : 0 < c4) (hsm : 2 * c4 < 10 ^ (ef - E4).toNat) (hc : c < 10 ^ 34) (hl : ef = eMin ∨ 10 ^ 33 ≤ c) :
    Deliv s (c * 10 ^ (ef - E4).toNat + c4) E4 ef c true false false false := by
  have hD : 0 < 10 ^ (ef - E4).toNat := Nat.pow_pos (by decide)
  obtain ⟨D, hDd⟩ : ∃ D, D = 10 ^ (ef - E4).toNat := ⟨_, rfl⟩
  rw [← hDd] at hD hsm ⊢
  have e3 : ∀ a : Nat, 2 * a * D = 2 * (a * D) := fun a => Nat.mul_assoc _ _ _
  have hmod : (c * D + c4) % D = c4 := by rw [Nat.mul_comm, Nat.mul_add_mod, Nat.mod_eq_of_lt (by omega)]
  have h34 : (c + 1) * D ≤ 10 ^ 34 * D := Nat.mul_le_mul_right D (by omega)
  rw [Nat.add_mul, Nat.one_mul] at h34
  refine ⟨hE, hef1, hef2, ?_, ?_, ?_, ?_, ?_, by rw [P34_eq]; omega, ?_, ?_, by rw [← hDd, hmod]; omega, by rw [← hDd]; omega, ?_⟩
  all_goals rw [← hDd]
  · simp only [RoundedInt, e3]; omega
  · simp <;> omega
  · simp <;> omega
  · simp <;> omega
  · simp <;> omega
  · intro h; rw [P34_eq] at h; omega
  · intro h; omega
  · rcases hl with h | h
    · exact Or.inl h
    · right; have := Nat.mul_le_mul_right D h; omega

/-- opposite signs, the same: nearest is `c`, the value lies just below — unless `c = 10^33` above the least exponent -/
theorem deliv_sub (s : Bool) (c c4 : Nat) (E4 ef : Int) (hE : E4 ≤ ef) (hef1 : -6176 ≤ ef) (hef2 : ef ≤ 20000)
    (h0 : 0 < c4) (hsm : 2 * c4 < 10 ^ (ef - E4).toNat) (hc0 : 0 < c) (hc : c < 10 ^ 34)
    (hl : ef = eMin ∨ 10 ^ 33 < c) :
    Deliv s (c * 10 ^ (ef - E4).toNat - c4) E4 ef c false true false false := by
  have hD : 0 < 10 ^ (ef - E4).toNat := Nat.pow_pos (by decide)
  obtain ⟨D, hDd⟩ : ∃ D, D = 10 ^ (ef - E4).toNat := ⟨_, rfl⟩
  rw [← hDd] at hD hsm ⊢
  have e3 : ∀ a : Nat, 2 * a * D = 2 * (a * D) := fun a => Nat.mul_assoc _ _ _
  have hcD : D ≤ c * D := Nat.le_mul_of_pos_left D hc0
  have hmod : (c * D - c4) % D = D - c4 := by
    have : c * D - c4 = (c - 1) * D + (D - c4) := by
      rw [Nat.sub_mul, Nat.one_mul]; omega
    rw [this, Nat.mul_comm, Nat.mul_add_mod, Nat.mod_eq_of_lt (by omega)]
  have h34 : c * D ≤ 10 ^ 34 * D := Nat.mul_le_mul_right D (by omega)
  refine ⟨hE, hef1, hef2, ?_, ?_, ?_, ?_, ?_, by rw [P34_eq]; omega, ?_, ?_, by rw [← hDd, hmod]; omega, by rw [← hDd]; omega, ?_⟩
  all_goals rw [← hDd]
  · simp only [RoundedInt, e3]; omega
  · simp <;> omega
  · simp <;> omega
  · simp <;> omega
  · simp <;> omega
  · intro h; omega
  · intro _ h
    rcases hl with h' | h'
    · unfold eMin at h'; exact h'
    · rw [P33_eq] at h; omega
  · rcases hl with h | h
    · exact Or.inl h
    · right
      have : (10 ^ 33 + 1) * D ≤ c * D := Nat.mul_le_mul_right D h
      rw [Nat.add_mul, Nat.one_mul] at this; omega

/-- opposite signs, `c = 10^33` above the least exponent, the product below a twentieth of a unit: one exponent lower the
value is just below `10^34`, whose nearest-even rounding carries (`deliver` hands `10^33` with the exponent raised again) -/
theorem deliv_sub_pow (s : Bool) (c4 : Nat) (E4 ef : Int) (hE : E4 ≤ ef - 1) (hef1 : -6176 < ef) (hef2 : ef ≤ 20000)
    (h0 : 0 < c4) (hsm : 2 * c4 < 10 ^ (ef - 1 - E4).toNat) :
    Deliv s (P34 * 10 ^ (ef - 1 - E4).toNat - c4) E4 (ef - 1) P34 false true false false := by
  have hD : 0 < 10 ^ (ef - 1 - E4).toNat := Nat.pow_pos (by decide)
  obtain ⟨D, hDd⟩ : ∃ D, D = 10 ^ (ef - 1 - E4).toNat := ⟨_, rfl⟩
  rw [← hDd] at hD hsm ⊢
  have e3 : ∀ a : Nat, 2 * a * D = 2 * (a * D) := fun a => Nat.mul_assoc _ _ _
  have e34 : P34 = 10 ^ 34 := P34_eq
  have hcD : D ≤ P34 * D := Nat.le_mul_of_pos_left D (by decide)
  have hmod : (P34 * D - c4) % D = D - c4 := by
    have : P34 * D - c4 = (P34 - 1) * D + (D - c4) := by
      rw [Nat.sub_mul, Nat.one_mul]; omega
    rw [this, Nat.mul_comm, Nat.mul_add_mod, Nat.mod_eq_of_lt (by omega)]
  have h33 : 10 ^ 33 * D + D ≤ P34 * D := by
    have : (10 ^ 33 + 1) * D ≤ P34 * D := Nat.mul_le_mul_right D (by rw [e34]; decide)
    rw [Nat.add_mul, Nat.one_mul] at this; exact this
  refine ⟨hE, by omega, by omega, ?_, ?_, ?_, ?_, ?_, le_refl _, ?_, ?_, by rw [← hDd, hmod]; omega, by rw [← hDd, ← e34]; omega, ?_⟩
  all_goals rw [← hDd]
  · simp only [RoundedInt, e3]
    refine ⟨by omega, fun _ => by decide⟩
  · simp <;> omega
  · simp <;> omega
  · simp <;> omega
  · simp <;> omega
  · intro _; omega
  · intro _ h; exact absurd h (by decide)
  · right; omega


/-- the exponents of Cases (1')/(1''A)/(1''B): with `S` zeros appended to z (`ef = E3 − S`) and `g = delta − q3 − S ≥ 0` the
gap between the last digit of the scaled z and the first digit of the product, `10^(ef − E4) = 10^q4 · 10^g` -/
theorem gap_pow (c3 c4 S : Nat) (E3 E4 : Int) (g : Nat)
    (hg : (g : Int) = (ndigits c3 : Int) + E3 - ndigits c4 - E4 - ndigits c3 - S) :
    E4 ≤ E3 - S ∧ 10 ^ (E3 - S - E4).toNat = 10 ^ ndigits c4 * 10 ^ g ∧
    c3 * 10 ^ S * 10 ^ (E3 - S - E4).toNat = c3 * 10 ^ (E3 - E4).toNat := by
  refine ⟨by omega, ?_, ?_⟩
  · rw [← Nat.pow_add]; congr 1; omega
  · rw [Nat.mul_assoc, ← Nat.pow_add]; congr 2; omega

/-- `addFin` when the second term dominates: one `finish` on the exact sum / difference, with the sign of the second term -/
theorem addFin_dom (mode : Mode) (sp sz : Bool) (c4 c3 : Nat) (E4 E3 pref : Int) (hE : E4 ≤ E3)
    (hdom : c4 < c3 * 10 ^ (E3 - E4).toNat) :
    addFin mode sp c4 E4 sz c3 E3 pref =
      finish mode sz (if sp = sz then c3 * 10 ^ (E3 - E4).toNat + c4 else c3 * 10 ^ (E3 - E4).toNat - c4) 1 E4 pref := by
  unfold addFin
  simp only [hE, if_true, Int.sub_self, Int.toNat_zero, Nat.pow_zero, Nat.mul_one]
  generalize c3 * 10 ^ (E3 - E4).toNat = A at *
  cases sp <;> cases sz <;> simp only [sInt, Bool.false_eq_true, if_false, if_true, reduceCtorEq]
  · rw [if_neg (by omega)]
    have h1 : decide ((c4 : Int) + (A : Int) < 0) = false := by simp; omega
    have h2 : ((c4 : Int) + (A : Int)).natAbs = A + c4 := by omega
    rw [h1, h2]
  · rw [if_neg (by omega)]
    have h1 : decide ((c4 : Int) + -(A : Int) < 0) = true := by simp; omega
    have h2 : ((c4 : Int) + -(A : Int)).natAbs = A - c4 := by omega
    rw [h1, h2]
  · rw [if_neg (by omega)]
    have h1 : decide (-(c4 : Int) + (A : Int) < 0) = false := by simp; omega
    have h2 : (-(c4 : Int) + (A : Int)).natAbs = A - c4 := by omega
    rw [h1, h2]
  · rw [if_neg (by omega)]
    have h1 : decide (-(c4 : Int) + -(A : Int) < 0) = true := by simp; omega
    have h2 : (-(c4 : Int) + -(A : Int)).natAbs = A + c4 := by omega
    rw [h1, h2]


/-- opposite signs, `c = 10^33` above the least exponent, the product exactly half a unit of the lower decade: a tie
between `10^34 − 1` and `10^34`, nearest-even takes `10^34` -/
theorem deliv_sub_pow_tie (s : Bool) (c4 : Nat) (E4 ef : Int) (hE : E4 ≤ ef - 1) (hef1 : -6176 < ef) (hef2 : ef ≤ 20000)
    (h0 : 0 < c4) (hsm : 2 * c4 = 10 ^ (ef - 1 - E4).toNat) :
    Deliv s (P34 * 10 ^ (ef - 1 - E4).toNat - c4) E4 (ef - 1) P34 false false true false := by
  have hD : 0 < 10 ^ (ef - 1 - E4).toNat := Nat.pow_pos (by decide)
  obtain ⟨D, hDd⟩ : ∃ D, D = 10 ^ (ef - 1 - E4).toNat := ⟨_, rfl⟩
  rw [← hDd] at hD hsm ⊢
  have e3 : ∀ a : Nat, 2 * a * D = 2 * (a * D) := fun a => Nat.mul_assoc _ _ _
  have e34 : P34 = 10 ^ 34 := P34_eq
  have hcD : D ≤ P34 * D := Nat.le_mul_of_pos_left D (by decide)
  have hmod : (P34 * D - c4) % D = D - c4 := by
    have : P34 * D - c4 = (P34 - 1) * D + (D - c4) := by
      rw [Nat.sub_mul, Nat.one_mul]; omega
    rw [this, Nat.mul_comm, Nat.mul_add_mod, Nat.mod_eq_of_lt (by omega)]
  have h33 : 10 ^ 33 * D + D ≤ P34 * D := by
    have : (10 ^ 33 + 1) * D ≤ P34 * D := Nat.mul_le_mul_right D (by rw [e34]; decide)
    rw [Nat.add_mul, Nat.one_mul] at this; exact this
  refine ⟨hE, by omega, by omega, ?_, ?_, ?_, ?_, ?_, le_refl _, ?_, ?_, by rw [← hDd, hmod]; omega, by rw [← hDd, ← e34]; omega, ?_⟩
  all_goals rw [← hDd]
  · simp only [RoundedInt, e3]
    refine ⟨by omega, fun _ => by decide⟩
  · simp <;> omega
  · simp <;> omega
  · simp <;> omega
  · simp <;> omega
  · intro _; omega
  · intro _ h; exact absurd h (by decide)
  · right; omega

/-- opposite signs, `c = 10^33` above the least exponent, the product above half a unit of the lower decade: one exponent
lower the nearest is `10^34 − 1`, the value lies above it -/
theorem deliv_sub_pow_hi (s : Bool) (c4 : Nat) (E4 ef : Int) (hE : E4 ≤ ef - 1) (hef1 : -6176 < ef) (hef2 : ef ≤ 20000)
    (hsm : 10 ^ (ef - 1 - E4).toNat < 2 * c4) (hlt : c4 < 10 ^ (ef - 1 - E4).toNat) :
    Deliv s (P34 * 10 ^ (ef - 1 - E4).toNat - c4) E4 (ef - 1) (P34 - 1) true false false false := by
  have hD : 0 < 10 ^ (ef - 1 - E4).toNat := Nat.pow_pos (by decide)
  obtain ⟨D, hDd⟩ : ∃ D, D = 10 ^ (ef - 1 - E4).toNat := ⟨_, rfl⟩
  rw [← hDd] at hD hsm hlt ⊢
  have e3 : ∀ a : Nat, 2 * a * D = 2 * (a * D) := fun a => Nat.mul_assoc _ _ _
  have e34 : P34 = 10 ^ 34 := P34_eq
  have hcD : D ≤ P34 * D := Nat.le_mul_of_pos_left D (by decide)
  have hm1 : (P34 - 1) * D = P34 * D - D := by rw [Nat.sub_mul, Nat.one_mul]
  have hmod : (P34 * D - c4) % D = D - c4 := by
    have : P34 * D - c4 = (P34 - 1) * D + (D - c4) := by
      rw [Nat.sub_mul, Nat.one_mul]; omega
    rw [this, Nat.mul_comm, Nat.mul_add_mod, Nat.mod_eq_of_lt (by omega)]
  have h33 : 10 ^ 33 * D + D ≤ P34 * D := by
    have : (10 ^ 33 + 1) * D ≤ P34 * D := Nat.mul_le_mul_right D (by rw [e34]; decide)
    rw [Nat.add_mul, Nat.one_mul] at this; exact this
  refine ⟨hE, by omega, by omega, ?_, ?_, ?_, ?_, ?_, by omega, ?_, ?_, by rw [← hDd, hmod]; omega, by rw [← hDd, ← e34]; omega, ?_⟩
  all_goals rw [← hDd]
  · simp only [RoundedInt, e3, hm1]
    refine ⟨by omega, fun _ => by omega⟩
  · rw [hm1]; simp <;> omega
  · rw [hm1]; simp <;> omega
  · rw [hm1]; simp <;> omega
  · rw [hm1]; simp <;> omega
  · intro h; exact absurd h (by decide)
  · intro h; rw [hm1] at h; omega
  · right; omega

/-! ## 4. The tail: tininess test and correction -/

theorem enc_words (s : Bool) (c : Nat) (e : Int) (hc : c < 2^113) (h1 : -6176 ≤ e) (h2 : e + 6176 < 2^14) :
    (ofBits (encode (.fin s c e))).w0.toNat = c % 2^64 ∧
    (ofBits (encode (.fin s c e))).w1.toNat = (if s then 2^63 else 0) + (e + 6176).toNat * 2^49 + c / 2^64 := by
  rw [Dec.C17GenNext.ofBits_w0, Dec.C17GenNext.ofBits_w1]
  obtain ⟨E, hE⟩ : ∃ E : Nat, (e + 6176).toNat = E := ⟨_, rfl⟩
  have hE2 : E < 2^14 := by omega
  simp only [encode, signBit, hE]
  cases s <;> simp only [if_true, if_false, Bool.false_eq_true] <;> omega

theorem enc_neg (s : Bool) (c : Nat) (e : Int) (hc : c < 2^113) (h1 : -6176 ≤ e) (h2 : e + 6176 < 2^14) :
    negW (ofBits (encode (.fin s c e))).w1.toNat = s := by
  rw [(enc_words s c e hc h1 h2).2]
  obtain ⟨E, hE⟩ : ∃ E : Nat, (e + 6176).toNat = E := ⟨_, rfl⟩
  have hE2 : E < 2^14 := by omega
  rw [hE]; unfold negW
  cases s <;> simp only [if_true, if_false, Bool.false_eq_true, decide_eq_true_eq, decide_eq_false_iff_not] <;> omega

theorem enc_sig (s : Bool) (c : Nat) (e : Int) (hc : c < 2^113) (h1 : -6176 ≤ e) (h2 : e + 6176 < 2^14) :
    sigW (ofBits (encode (.fin s c e))).w1.toNat (ofBits (encode (.fin s c e))).w0.toNat = c := by
  rw [(enc_words s c e hc h1 h2).2, (enc_words s c e hc h1 h2).1]
  obtain ⟨E, hE⟩ : ∃ E : Nat, (e + 6176).toNat = E := ⟨_, rfl⟩
  have hE2 : E < 2^14 := by omega
  rw [hE]; unfold sigW
  cases s <;> simp only [if_true, if_false, Bool.false_eq_true] <;> omega

/-- the two-word test "coefficient = 10^33" -/
theorem p33_test (res : U128) :
    ((res.w1 &&& c_MASK_COEFF) == (0x314dc6448d93 : UInt64) && res.w0 == (0x38c15b0a00000000 : UInt64)) =
      decide (sigW res.w1.toNat res.w0.toNat = 10^33) := by
  rw [← coeff_words, Bool.eq_iff_iff, Bool.and_eq_true, beq_iff_eq, beq_iff_eq, decide_eq_true_eq, ← UInt64.toNat_inj,
    ← UInt64.toNat_inj]
  have := res.w0.toNat_lt
  show _ = 0x314dc6448d93 ∧ _ = 0x38c15b0a00000000 ↔ _
  omega

/-- the tininess test of the tail of Cases (1')/(1''A) -/
abbrev tinyTest (res : U128) (z_sign p_sign : UInt64) (q3 e3 scale p34 : Int32) : Bool :=
  ((((e3 == c_EXP_MIN_UNBIASED) && (decide (((q3 + scale)) < p34)))) || ((((((e3 == c_EXP_MIN_UNBIASED) && (((q3 + scale)) == p34)) && (((res.w1 &&& c_MASK_COEFF)) == (0x314dc6448d93 : UInt64))) && (res.w0 == (0x38c15b0a00000000 : UInt64))) && (z_sign != p_sign))))

theorem flags_rne (pf : UInt32) (t : Prop) [Decidable t] (hpf : pf ||| 0x20 = pf) :
    (if t then pf ||| c_StatusFlags_BID_UNDERFLOW_EXCEPTION else pf) =
      pf ||| UInt32.ofNat (if t then fUnderflow ||| fInexact else fInexact) := by
  by_cases h : t
  · rw [if_pos h, if_pos h]
    rw [show UInt32.ofNat (fUnderflow ||| fInexact) = 0x20 ||| c_StatusFlags_BID_UNDERFLOW_EXCEPTION from by decide,
      ← UInt32.or_assoc, hpf]
  · rw [if_neg h, if_neg h]; exact hpf.symm

theorem flags_corr (pf : UInt32) (t : Prop) [Decidable t] (uf ov : Bool) (h1 : uf = true → t) (h2 : ov = true → ¬ t) :
    outF true uf ov (if t then pf ||| c_StatusFlags_BID_UNDERFLOW_EXCEPTION else pf) =
      pf ||| UInt32.ofNat (if ov = true then fOverflow ||| fInexact else if t then fUnderflow ||| fInexact else fInexact) := by
  by_cases h : t
  · have : ov = false := by cases ov; rfl; exact absurd h (h2 rfl)
    subst this
    rw [if_pos h, if_neg (by decide), if_pos h]
    cases uf <;> simp only [outF, if_true, if_false, Bool.false_eq_true, UInt32.or_assoc] <;> congr 1
  · have : uf = false := by cases uf; rfl; exact absurd (h1 rfl) h
    subst this
    rw [if_neg h, if_neg h]
    cases ov <;> simp only [outF, if_true, if_false, Bool.false_eq_true, UInt32.or_assoc] <;> congr 1

/-- The tail of Cases (1')/(1''A): the tininess test, then `bid_rounding_correction` unless rounding to nearest-even:
from the nearest-even rounding `cf` at exponent `ef` with its indicators (`Deliv`) to the one correct rounding. -/
theorem z1Tail_spec {s : Bool} {N : Nat} {E4 ef : Int} {cf : Nat} {L G ML MG : Bool} (h : Deliv s N E4 ef cf L G ML MG)
    (pml pmg pil pig : Bool) (m : RoundingMode) (pf : UInt32) (z_sign p_sign : UInt64) (q3 e3 scale p34 : Int32) (pref : Int)
    (he : e3.toInt = (deliver cf ef).2) (hmax : (deliver cf ef).2 ≤ 6111) (hpf : pf ||| 0x20 = pf)
    (ht : tinyTest (ofBits (encode (.fin s (deliver cf ef).1 (deliver cf ef).2))) z_sign p_sign q3 e3 scale p34 =
      decide (N < 10 ^ 33 * 10 ^ (ef - E4).toNat)) :
    z1Tail pml pmg pil pig m pf (ofBits (encode (.fin s (deliver cf ef).1 (deliver cf ef).2))) z_sign p_sign q3 e3 scale p34
        ML MG L G =
      .ok (ofBits (encode (finish (modeOf m) s N 1 E4 pref).1), ML, MG, L, G,
        pf ||| UInt32.ofNat (finish (modeOf m) s N 1 E4 pref).2) ∧
    (N < 10 ^ 33 * 10 ^ (ef - E4).toNat → (finish (modeOf m) s N 1 E4 pref).2 = fUnderflow ||| fInexact) ∧
    ((finish (modeOf m) s N 1 E4 pref).2 = fOverflow ||| fInexact ∨ (finish (modeOf m) s N 1 E4 pref).2 = fUnderflow ||| fInexact ∨
      (finish (modeOf m) s N 1 E4 pref).2 = fInexact) := by
  have hd1 : (deliver cf ef).1 < 2^113 := by
    have := h.hcf
    unfold deliver; split
    · show P33 < _; decide
    · show cf < _
      have e34 : P34 = 10000000000000000000000000000000000 := rfl
      omega
  have hd2 : -6176 ≤ (deliver cf ef).2 := by
    have := h.hef1
    unfold deliver; split
    · show _ ≤ ef + 1; omega
    · exact this
  have ht' := ht; unfold tinyTest at ht'
  simp only [z1Tail, bind, pure, Except.pure, bind_ok', ht']
  by_cases hm : m = .NearestEven
  · subst hm
    simp only [bne_self_eq_false, Bool.false_eq_true, if_false]
    have hn := h.nearest pref
    rw [if_neg (by unfold eMax; omega)] at hn
    show _ = Except.ok (ofBits (encode (finish .rne s N 1 E4 pref).1), ML, MG, L, G,
        pf ||| UInt32.ofNat (finish .rne s N 1 E4 pref).2) ∧ (_ → (finish .rne s N 1 E4 pref).2 = _) ∧
        ((finish .rne s N 1 E4 pref).2 = _ ∨ (finish .rne s N 1 E4 pref).2 = _ ∨ (finish .rne s N 1 E4 pref).2 = _)
    rw [hn]
    refine ⟨?_, fun ht => if_pos ht, ?_⟩
    · show _ = Except.ok (_, ML, MG, L, G, pf ||| UInt32.ofNat (if _ then _ else _))
      rw [← flags_rne pf _ hpf]
      simp only [decide_eq_true_eq]
      split <;> rfl
    · show (if _ then _ else _) = _ ∨ (if _ then _ else _) = _ ∨ (if _ then _ else _) = _
      split
      · exact Or.inr (Or.inl rfl)
      · exact Or.inr (Or.inr rfl)
  · have hm' : (m != RoundingMode.NearestEven) = true := by simpa using hm
    simp only [hm', if_true, decide_eq_true_eq]
    obtain ⟨uf, ov, hcode, hfl, huf, hov⟩ := h.corrected m hm e3 (ofBits (encode (.fin s (deliver cf ef).1 (deliver cf ef).2)))
      (if N < 10 ^ 33 * 10 ^ (ef - E4).toNat then pf ||| c_StatusFlags_BID_UNDERFLOW_EXCEPTION else pf) pref
      (enc_neg _ _ _ hd1 hd2 (by omega)) (enc_sig _ _ _ hd1 hd2 (by omega)) he
    rw [hfl]
    refine ⟨?_, fun ht => ?_, ?_⟩
    · rw [← flags_corr pf _ uf ov huf hov]
      split
      · rename_i htn
        rw [if_pos htn] at hcode
        rw [hcode]; rfl
      · rename_i htn
        rw [if_neg htn] at hcode
        rw [hcode]; rfl
    · have : ov = false := by cases ov; rfl; exact absurd ht (hov rfl)
      rw [this, if_neg (by decide), if_pos ht]
    · cases ov
      · rw [if_neg (by decide)]
        split
        · exact Or.inr (Or.inl rfl)
        · exact Or.inr (Or.inr rfl)
      · exact Or.inl rfl

/-- the ordinary branch of the gap segment: the product only leaves an inexact indicator -/
theorem z1Gap_plain {α : Type} (pfpsf : UInt32) (res : U128) (z_sign p_sign z_exp : UInt64) (C3 : U128) (C4 : U256)
    (q3 q4 e3 scale delta : Int32) (incr : Bool) (R64 : UInt64) (P128 R128 : U128) (P192 R192 : U192) (R256 : U256)
    (k : Bool → Bool → Bool → Bool → U128 → Int32 → UInt32 → Except String α)
    (h : ¬ ((p_sign != z_sign) && (delta == q3 + scale + 1)) = true) :
    z1Gap pfpsf res z_sign p_sign z_exp C3 C4 q3 q4 e3 scale delta false false false false incr R64 P128 R128 P192 R192 R256 k =
      k false false (p_sign == z_sign) (!(p_sign == z_sign)) res e3 (pfpsf ||| c_StatusFlags_BID_INEXACT_EXCEPTION) := by
  simp only [z1Gap, bind, pure, Except.pure, bind_ok', h, if_false, Bool.false_eq_true]
  by_cases hs : (p_sign == z_sign) = true
  · simp only [hs, if_true, Bool.not_true]
  · simp only [hs, if_false, Bool.false_eq_true, Bool.not_false]


/-- outside round-to-nearest-even the correction treats "inexact, above the delivered value's lower midpoint" and
"midpoint below the delivered even value" alike (both: the exact magnitude is below the delivered one) -/
theorem correction_swap (m : RoundingMode) (e : Int32) (res : U128) (f : UInt32) :
    bid_rounding_correction m false false true false e res f = bid_rounding_correction m false true false false e res f := by
  simp only [correction_shape, upB_eq, downB_eq]
  have : downD m (negW res.w1.toNat) false true = downD m (negW res.w1.toNat) true false := by
    cases m <;> cases negW res.w1.toNat <;> rfl
  rw [this]; rfl

/-- the tail with other indicators that the correction cannot tell apart: same result, the indicators handed back as given -/
theorem z1Tail_congr (pml pmg pil pig : Bool) (m : RoundingMode) (pf : UInt32) (res : U128) (z_sign p_sign : UInt64)
    (q3 e3 scale p34 : Int32) (ML MG L G ML' MG' L' G' : Bool)
    (hsw : ∀ f, bid_rounding_correction m L' G' ML' MG' e3 res f = bid_rounding_correction m L G ML MG e3 res f) :
    z1Tail pml pmg pil pig m pf res z_sign p_sign q3 e3 scale p34 ML' MG' L' G' =
      (z1Tail pml pmg pil pig m pf res z_sign p_sign q3 e3 scale p34 ML MG L G).map
        fun t => (t.1, ML', MG', L', G', t.2.2.2.2.2) := by
  simp only [z1Tail, bind, pure, Except.pure, bind_ok', hsw]
  split <;> split <;> first | rfl | (generalize bid_rounding_correction m L G ML MG e3 res _ = x; cases x <;> rfl)

end Dec.C02GenFmaZ
