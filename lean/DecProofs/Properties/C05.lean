/-
  C05 — formatting is exact and parse(format x) returns x bit for bit.
  (Shape of the text and the special values here; the digit-level round trip is in
  `DecProofs.Properties.C05RoundTrip`.)
-/
import DecModel.Ops

namespace Dec.C05

/-- infinities and NaNs print as signed Inf, NaN or SNaN -/
theorem format_specials (up : Bool) (p : Nat) :
    format up (.inf false) = ([43, 73, 110, 102] : Bytes) ∧ format up (.inf true) = ([45, 73, 110, 102] : Bytes) ∧
    format up (.nan false false p) = ([43, 78, 97, 78] : Bytes) ∧ format up (.nan true false p) = ([45, 78, 97, 78] : Bytes) ∧
    format up (.nan false true p) = ([43, 83, 78, 97, 78] : Bytes) ∧ format up (.nan true true p) = ([45, 83, 78, 97, 78] : Bytes) := by
  refine ⟨?_, ?_, ?_, ?_, ?_, ?_⟩ <;> simp [format] <;> decide

/-- a finite value prints as: sign, the coefficient's digits, `E` (`e` for LowerExp), the sign of the
exponent, the digits of its magnitude -/
theorem format_finite (up s : Bool) (c : Nat) (e : Int) :
    format up (.fin s c e) =
      (if s then 45 else 43) :: digitBytes c ++ [if up then 69 else 101] ++ [if e < 0 then 45 else 43] ++ digitBytes e.natAbs := rfl

/-- parsing the special texts gives back the special values (sign and signalling-ness) -/
theorem parse_format_specials :
    (classifyText (format true (.inf false)) matches .inf false) ∧
    (classifyText (format true (.inf true)) matches .inf true) ∧
    (classifyText (format true (.nan false false 0)) matches .qnan false) ∧
    (classifyText (format true (.nan true false 0)) matches .qnan true) ∧
    (classifyText (format true (.nan false true 0)) matches .snan false) ∧
    (classifyText (format true (.nan true true 0)) matches .snan true) := by
  decide

/-- concrete instances of the round trip through the strict grammar -/
example : (parseLiteral (format true (.fin true 1234 (-6176)))).map (fun l => (l.neg, l.coeff, l.exp10)) = some (true, 1234, -6176) := by decide
example : (parseLiteral (format false (.fin false 0 6111))).map (fun l => (l.neg, l.coeff, l.exp10)) = some (false, 0, 6111) := by decide
example : format true (.fin false 10 (-1)) = ([43, 49, 48, 69, 45, 49] : Bytes) := by decide

end Dec.C05
