/-
  C15 (generated-code level) — "no public operation panics for any operand bits, mode, integer or string", as a statement about the
  translated source: for every dispatched method of `Dec.Gen.Api.run` (123) and `Dec.Gen.Api2.run2` (4) whose routine has a
  complete specification, the method returns `some (.ok _)` — the routine never returns `.error`, i.e. never panics (no table index
  out of range, no loop-fuel exhaustion, no failed cast) — for ALL argument patterns (non-canonical encodings included), rounding
  modes and status words; the integer argument of `ldexp` / `scaleb` / `scalebln` is ANY integer (the dispatch casts it).

  * `ok_<method>` — one corollary per method (118 unconditional), lifted from the `<method>_spec` theorems of SourceLevel /
    SourceLevel2 / SourceLevel3, `C10GenFmodRem.api_fmod / api_remainder`, `C01GenDivClosed.api_division` (division is closed),
    `SourceLevel3.square_root_of_LongOK` with `C01GenSqrtLong.long_ok` (the square root is closed),
    or directly from the routine-level specifications (`frexp`, `quantum`, `ldexp`, `scaleb`, `scalebln`, `hash`).
  * `total : ∀ p ∈ totalMethods, ∀ m f args, p.2.Args args → IsOk (run p.1 m f args)` — the master theorem over the explicit list
    `totalMethods` (method, argument shape); `totalMethods.length = 118`.
  * `notYetTotal` — the explicit complement (5 methods) with the reason, and the conditional versions under named hypotheses:
      addition, subtraction, fdim   `C01GenAddLoop.AddRounding` (the `Remaining` region of `bid128_add`: the rounding loop) —
                                    `ok_addition`, `ok_subtraction`, `ok_fdim`; unconditional parts: `ok_addition_proved`,
                                    `ok_subtraction_proved` (operands in the `Proved` region), `ok_fdim_partial`;
      multiplication, fused_multiply_add   `FmaOk` (the fma blocks: `bid128_fma` returns `.ok` on all operands) — `ok_fused_multiply_add`,
                                    `ok_multiplication`; unconditional parts: `ok_multiplication_zero`, `ok_fma_nan`;
    `total_all : AddRounding → FmaOk → ∀ p ∈ allMethods, …` (all 123), `covered_split` (the two lists are exactly the
    dispatched methods, 118 + 5 = 123, none twice).
  * `ok2_*`, `total2` — the four `run2` methods (`convert_from_f32/f64`, `from_f32/f64`), any `bits : Nat`, mode, status word
    (C07GenBinConv `binary64_to_bid128_isOk`, `binary32_to_bid128_isOk`).
  * trait glue (`eq ne lt le gt ge partial_cmp hash`: C20GenGlue via SourceLevel) is part of `totalMethods`.
  * arguments of a wrong shape (or an unknown method name) make `run` answer `none` — not a panic of the source but "no such call".

  About C14 (`C14GenHistory.api_frame_*`, `C14GenFrame`): the frame theorems are EQUATIONS between results,
  `run op mode (f ||| g) args = (run op mode g args).map (orInto f)`; they hold also when the routine fails (an error maps to the same
  error) and therefore do NOT give totality — totality needs the specifications used here.
-/
import DecProofs.Properties.SourceLevel
import DecProofs.Properties.SourceLevel2
import DecProofs.Properties.SourceLevel3
import DecProofs.Properties.C10GenFmodRem
import DecProofs.Properties.C01GenDivClosed
import DecProofs.Properties.C07GenBinConv
import DecProofs.Properties.C01GenSqrtLong

set_option linter.unusedVariables false

namespace Dec.C15GenTotal
open Dec Dec.Rs Dec.Gen.Code Dec.Gen.Api

/-- the method returned normally -/
def IsOk {α : Type} (o : Option (Except String α)) : Prop := ∃ r, o = some (.ok r)

/-! ## 1. One corollary per method -/

theorem ok_encode_decimal (m : RoundingMode) (f : UInt32) (x : U128) : IsOk (run "encode_decimal" m f [.d x]) :=
  ⟨_, Dec.SourceLevel.encode_decimal_spec m f x⟩
theorem ok_decode_decimal (m : RoundingMode) (f : UInt32) (x : U128) : IsOk (run "decode_decimal" m f [.d x]) :=
  ⟨_, Dec.SourceLevel.decode_decimal_spec m f x⟩
theorem ok_abs (m : RoundingMode) (f : UInt32) (x : U128) : IsOk (run "abs" m f [.d x]) := by
  obtain ⟨r, h, -⟩ := (Dec.SourceLevel.abs_negate_spec m f x).1; exact ⟨_, h⟩
theorem ok_class (m : RoundingMode) (f : UInt32) (x : U128) : IsOk (run "class" m f [.d x]) :=
  ⟨_, (Dec.SourceLevel.predicates_spec m f x).2.2.2.2.2.2.2.2⟩
theorem ok_is_finite (m : RoundingMode) (f : UInt32) (x : U128) : IsOk (run "is_finite" m f [.d x]) :=
  ⟨_, (Dec.SourceLevel.predicates_spec m f x).2.2.2.1⟩
theorem ok_is_infinite (m : RoundingMode) (f : UInt32) (x : U128) : IsOk (run "is_infinite" m f [.d x]) :=
  ⟨_, (Dec.SourceLevel.predicates_spec m f x).2.2.1⟩
theorem ok_is_nan (m : RoundingMode) (f : UInt32) (x : U128) : IsOk (run "is_nan" m f [.d x]) :=
  ⟨_, (Dec.SourceLevel.predicates_spec m f x).1⟩
theorem ok_is_normal (m : RoundingMode) (f : UInt32) (x : U128) : IsOk (run "is_normal" m f [.d x]) :=
  ⟨_, (Dec.SourceLevel.predicates_spec m f x).2.2.2.2.2.1⟩
theorem ok_is_signaling (m : RoundingMode) (f : UInt32) (x : U128) : IsOk (run "is_signaling" m f [.d x]) :=
  ⟨_, (Dec.SourceLevel.predicates_spec m f x).2.1⟩
theorem ok_is_sign_minus (m : RoundingMode) (f : UInt32) (x : U128) : IsOk (run "is_sign_minus" m f [.d x]) :=
  ⟨_, (Dec.SourceLevel.predicates_spec m f x).2.2.2.2.2.2.2.1⟩
theorem ok_is_subnormal (m : RoundingMode) (f : UInt32) (x : U128) : IsOk (run "is_subnormal" m f [.d x]) :=
  ⟨_, (Dec.SourceLevel.predicates_spec m f x).2.2.2.2.2.2.1⟩
theorem ok_is_zero (m : RoundingMode) (f : UInt32) (x : U128) : IsOk (run "is_zero" m f [.d x]) :=
  ⟨_, (Dec.SourceLevel.predicates_spec m f x).2.2.2.2.1⟩
theorem ok_negate (m : RoundingMode) (f : UInt32) (x : U128) : IsOk (run "negate" m f [.d x]) := by
  obtain ⟨r, h, -⟩ := (Dec.SourceLevel.abs_negate_spec m f x).2; exact ⟨_, h⟩
theorem ok_same_quantum (m : RoundingMode) (f : UInt32) (x y : U128) : IsOk (run "same_quantum" m f [.d x, .d y]) :=
  ⟨_, Dec.SourceLevel.same_quantum_spec m f x y⟩
theorem ok_total_order (m : RoundingMode) (f : UInt32) (x y : U128) : IsOk (run "total_order" m f [.d x, .d y]) :=
  ⟨_, Dec.SourceLevel.total_order_spec m f x y⟩
theorem ok_total_order_mag (m : RoundingMode) (f : UInt32) (x y : U128) : IsOk (run "total_order_mag" m f [.d x, .d y]) :=
  ⟨_, Dec.SourceLevel.total_order_mag_spec m f x y⟩
theorem ok_fmod (m : RoundingMode) (f : UInt32) (x y : U128) : IsOk (run "fmod" m f [.d x, .d y]) :=
  ⟨_, Dec.C10GenFmodRem.api_fmod m f x y⟩
theorem ok_frexp (m : RoundingMode) (f : UInt32) (x : U128) : IsOk (run "frexp" m f [.d x]) := by
  show IsOk (some ((bid128_frexp x).map _))
  rw [Dec.C09GenQuantize.frexp_spec]; exact ⟨_, rfl⟩
theorem ok_ldexp (m : RoundingMode) (f : UInt32) (x : U128) (n : Int) : IsOk (run "ldexp" m f [.d x, .i n]) := by
  show IsOk (some ((bid128_ldexp x (Int32.ofInt n) m f).map _))
  rw [Dec.C11GenScale.ldexp_spec]; exact ⟨_, rfl⟩
theorem ok_llquantexp (m : RoundingMode) (f : UInt32) (x : U128) : IsOk (run "llquantexp" m f [.d x]) := by
  cases hd : Dec.SourceLevel.dOf x with
  | fin s c e => exact ⟨_, (Dec.SourceLevel.llquantexp_spec m f x).1 s c e hd⟩
  | inf s => exact ⟨_, (Dec.SourceLevel.llquantexp_spec m f x).2 (by rw [hd]; rfl)⟩
  | nan s g p => exact ⟨_, (Dec.SourceLevel.llquantexp_spec m f x).2 (by rw [hd]; rfl)⟩
theorem ok_logb (m : RoundingMode) (f : UInt32) (x : U128) : IsOk (run "logb" m f [.d x]) :=
  ⟨_, Dec.SourceLevel3.logb_spec m f x⟩
theorem ok_lrint (m : RoundingMode) (f : UInt32) (x : U128) : IsOk (run "lrint" m f [.d x]) := by
  rw [(Dec.SourceLevel.c_style_conversions m f x).2.2.2]
  cases m
  · exact ⟨_, Dec.SourceLevel2.convert_to_i64_exact_ties_to_even_spec _ f x⟩
  · exact ⟨_, Dec.SourceLevel2.convert_to_i64_exact_toward_negative_spec _ f x⟩
  · exact ⟨_, Dec.SourceLevel2.convert_to_i64_exact_toward_positive_spec _ f x⟩
  · exact ⟨_, Dec.SourceLevel2.convert_to_i64_exact_toward_zero_spec _ f x⟩
  · exact ⟨_, Dec.SourceLevel2.convert_to_i64_exact_ties_to_away_spec _ f x⟩
theorem ok_llrint (m : RoundingMode) (f : UInt32) (x : U128) : IsOk (run "llrint" m f [.d x]) := by
  rw [(Dec.SourceLevel.c_style_conversions m f x).2.2.1]; exact ok_lrint m f x
theorem ok_lround (m : RoundingMode) (f : UInt32) (x : U128) : IsOk (run "lround" m f [.d x]) := by
  rw [(Dec.SourceLevel.c_style_conversions m f x).1]; exact ⟨_, Dec.SourceLevel2.convert_to_i64_ties_to_away_spec m f x⟩
theorem ok_llround (m : RoundingMode) (f : UInt32) (x : U128) : IsOk (run "llround" m f [.d x]) := by
  rw [(Dec.SourceLevel.c_style_conversions m f x).2.1]; exact ⟨_, Dec.SourceLevel2.convert_to_i64_ties_to_away_spec m f x⟩
theorem ok_log_b (m : RoundingMode) (f : UInt32) (x : U128) : IsOk (run "log_b" m f [.d x]) :=
  ⟨_, Dec.SourceLevel2.log_b_spec m f x⟩
theorem ok_max_num (m : RoundingMode) (f : UInt32) (x y : U128) : IsOk (run "max_num" m f [.d x, .d y]) :=
  ⟨_, Dec.SourceLevel.max_num_spec m f x y⟩
theorem ok_max_num_mag (m : RoundingMode) (f : UInt32) (x y : U128) : IsOk (run "max_num_mag" m f [.d x, .d y]) :=
  ⟨_, Dec.SourceLevel.max_num_mag_spec m f x y⟩
theorem ok_min_num (m : RoundingMode) (f : UInt32) (x y : U128) : IsOk (run "min_num" m f [.d x, .d y]) :=
  ⟨_, Dec.SourceLevel.min_num_spec m f x y⟩
theorem ok_min_num_mag (m : RoundingMode) (f : UInt32) (x y : U128) : IsOk (run "min_num_mag" m f [.d x, .d y]) :=
  ⟨_, Dec.SourceLevel.min_num_mag_spec m f x y⟩
theorem ok_modf (m : RoundingMode) (f : UInt32) (x : U128) : IsOk (run "modf" m f [.d x]) :=
  ⟨_, Dec.SourceLevel2.modf_spec m f x⟩
theorem ok_nearbyint (m : RoundingMode) (f : UInt32) (x : U128) : IsOk (run "nearbyint" m f [.d x]) :=
  ⟨_, Dec.SourceLevel3.nearbyint_spec m f x⟩
theorem ok_next_after (m : RoundingMode) (f : UInt32) (x y : U128) : IsOk (run "next_after" m f [.d x, .d y]) := by
  obtain ⟨r, h, -⟩ := Dec.SourceLevel.next_after_spec m f x y; exact ⟨_, h⟩
theorem ok_next_down (m : RoundingMode) (f : UInt32) (x : U128) : IsOk (run "next_down" m f [.d x]) := by
  obtain ⟨r, h, -⟩ := Dec.SourceLevel.next_down_spec m f x; exact ⟨_, h⟩
theorem ok_next_toward (m : RoundingMode) (f : UInt32) (x y : U128) : IsOk (run "next_toward" m f [.d x, .d y]) := by
  obtain ⟨r, -, h, -⟩ := Dec.SourceLevel.next_after_spec m f x y; exact ⟨_, h⟩
theorem ok_next_up (m : RoundingMode) (f : UInt32) (x : U128) : IsOk (run "next_up" m f [.d x]) := by
  obtain ⟨r, h, -⟩ := Dec.SourceLevel.next_up_spec m f x; exact ⟨_, h⟩
theorem ok_quantexp (m : RoundingMode) (f : UInt32) (x : U128) : IsOk (run "quantexp" m f [.d x]) := by
  cases hd : Dec.SourceLevel.dOf x with
  | fin s c e => exact ⟨_, (Dec.SourceLevel.quantexp_spec m f x).1 s c e hd⟩
  | inf s => exact ⟨_, (Dec.SourceLevel.quantexp_spec m f x).2 (by rw [hd]; rfl)⟩
  | nan s g p => exact ⟨_, (Dec.SourceLevel.quantexp_spec m f x).2 (by rw [hd]; rfl)⟩
theorem ok_quantize (m : RoundingMode) (f : UInt32) (x y : U128) : IsOk (run "quantize" m f [.d x, .d y]) :=
  ⟨_, Dec.SourceLevel3.quantize_spec m f x y⟩
theorem ok_quantum (m : RoundingMode) (f : UInt32) (x : U128) : IsOk (run "quantum" m f [.d x]) := by
  show IsOk (some ((bid128_quantum x).map _))
  rw [Dec.C06GenFromInt.quantum_spec]; exact ⟨_, rfl⟩
theorem ok_scaleb (m : RoundingMode) (f : UInt32) (x : U128) (n : Int) : IsOk (run "scaleb" m f [.d x, .i n]) := by
  show IsOk (some ((bid128_scalbn x (Int32.ofInt n) m f).map _))
  rw [Dec.C11GenScale.scalbn_spec]; exact ⟨_, rfl⟩
theorem ok_scalebln (m : RoundingMode) (f : UInt32) (x : U128) (n : Int) : IsOk (run "scalebln" m f [.d x, .i n]) := by
  show IsOk (some ((bid128_scalbln x (Int64.ofInt n) m f).map _))
  rw [Dec.C11GenScale.scalbln_spec]; exact ⟨_, rfl⟩
theorem ok_convert_to_i32_ties_to_even (m : RoundingMode) (f : UInt32) (x : U128) : IsOk (run "convert_to_i32_ties_to_even" m f [.d x]) :=
  ⟨_, Dec.SourceLevel2.convert_to_i32_ties_to_even_spec m f x⟩
theorem ok_convert_to_i32_exact_ties_to_even (m : RoundingMode) (f : UInt32) (x : U128) : IsOk (run "convert_to_i32_exact_ties_to_even" m f [.d x]) :=
  ⟨_, Dec.SourceLevel2.convert_to_i32_exact_ties_to_even_spec m f x⟩
theorem ok_convert_to_i32_toward_negative (m : RoundingMode) (f : UInt32) (x : U128) : IsOk (run "convert_to_i32_toward_negative" m f [.d x]) :=
  ⟨_, Dec.SourceLevel2.convert_to_i32_toward_negative_spec m f x⟩
theorem ok_convert_to_i32_exact_toward_negative (m : RoundingMode) (f : UInt32) (x : U128) : IsOk (run "convert_to_i32_exact_toward_negative" m f [.d x]) :=
  ⟨_, Dec.SourceLevel2.convert_to_i32_exact_toward_negative_spec m f x⟩
theorem ok_convert_to_i32_toward_positive (m : RoundingMode) (f : UInt32) (x : U128) : IsOk (run "convert_to_i32_toward_positive" m f [.d x]) :=
  ⟨_, Dec.SourceLevel2.convert_to_i32_toward_positive_spec m f x⟩
theorem ok_convert_to_i32_exact_toward_positive (m : RoundingMode) (f : UInt32) (x : U128) : IsOk (run "convert_to_i32_exact_toward_positive" m f [.d x]) :=
  ⟨_, Dec.SourceLevel2.convert_to_i32_exact_toward_positive_spec m f x⟩
theorem ok_convert_to_i32_toward_zero (m : RoundingMode) (f : UInt32) (x : U128) : IsOk (run "convert_to_i32_toward_zero" m f [.d x]) :=
  ⟨_, Dec.SourceLevel2.convert_to_i32_toward_zero_spec m f x⟩
theorem ok_convert_to_i32_exact_toward_zero (m : RoundingMode) (f : UInt32) (x : U128) : IsOk (run "convert_to_i32_exact_toward_zero" m f [.d x]) :=
  ⟨_, Dec.SourceLevel2.convert_to_i32_exact_toward_zero_spec m f x⟩
theorem ok_convert_to_i32_ties_to_away (m : RoundingMode) (f : UInt32) (x : U128) : IsOk (run "convert_to_i32_ties_to_away" m f [.d x]) :=
  ⟨_, Dec.SourceLevel2.convert_to_i32_ties_to_away_spec m f x⟩
theorem ok_convert_to_i32_exact_ties_to_away (m : RoundingMode) (f : UInt32) (x : U128) : IsOk (run "convert_to_i32_exact_ties_to_away" m f [.d x]) :=
  ⟨_, Dec.SourceLevel2.convert_to_i32_exact_ties_to_away_spec m f x⟩
theorem ok_convert_to_i64_toward_positive (m : RoundingMode) (f : UInt32) (x : U128) : IsOk (run "convert_to_i64_toward_positive" m f [.d x]) :=
  ⟨_, Dec.SourceLevel2.convert_to_i64_toward_positive_spec m f x⟩
theorem ok_convert_to_i64_toward_negative (m : RoundingMode) (f : UInt32) (x : U128) : IsOk (run "convert_to_i64_toward_negative" m f [.d x]) :=
  ⟨_, Dec.SourceLevel2.convert_to_i64_toward_negative_spec m f x⟩
theorem ok_convert_to_i64_toward_zero (m : RoundingMode) (f : UInt32) (x : U128) : IsOk (run "convert_to_i64_toward_zero" m f [.d x]) :=
  ⟨_, Dec.SourceLevel2.convert_to_i64_toward_zero_spec m f x⟩
theorem ok_convert_to_i64_ties_to_even (m : RoundingMode) (f : UInt32) (x : U128) : IsOk (run "convert_to_i64_ties_to_even" m f [.d x]) :=
  ⟨_, Dec.SourceLevel2.convert_to_i64_ties_to_even_spec m f x⟩
theorem ok_convert_to_i64_ties_to_away (m : RoundingMode) (f : UInt32) (x : U128) : IsOk (run "convert_to_i64_ties_to_away" m f [.d x]) :=
  ⟨_, Dec.SourceLevel2.convert_to_i64_ties_to_away_spec m f x⟩
theorem ok_convert_to_i64_exact_toward_positive (m : RoundingMode) (f : UInt32) (x : U128) : IsOk (run "convert_to_i64_exact_toward_positive" m f [.d x]) :=
  ⟨_, Dec.SourceLevel2.convert_to_i64_exact_toward_positive_spec m f x⟩
theorem ok_convert_to_i64_exact_toward_negative (m : RoundingMode) (f : UInt32) (x : U128) : IsOk (run "convert_to_i64_exact_toward_negative" m f [.d x]) :=
  ⟨_, Dec.SourceLevel2.convert_to_i64_exact_toward_negative_spec m f x⟩
theorem ok_convert_to_i64_exact_toward_zero (m : RoundingMode) (f : UInt32) (x : U128) : IsOk (run "convert_to_i64_exact_toward_zero" m f [.d x]) :=
  ⟨_, Dec.SourceLevel2.convert_to_i64_exact_toward_zero_spec m f x⟩
theorem ok_convert_to_i64_exact_ties_to_even (m : RoundingMode) (f : UInt32) (x : U128) : IsOk (run "convert_to_i64_exact_ties_to_even" m f [.d x]) :=
  ⟨_, Dec.SourceLevel2.convert_to_i64_exact_ties_to_even_spec m f x⟩
theorem ok_convert_to_i64_exact_ties_to_away (m : RoundingMode) (f : UInt32) (x : U128) : IsOk (run "convert_to_i64_exact_ties_to_away" m f [.d x]) :=
  ⟨_, Dec.SourceLevel2.convert_to_i64_exact_ties_to_away_spec m f x⟩
theorem ok_convert_to_u32_toward_positive (m : RoundingMode) (f : UInt32) (x : U128) : IsOk (run "convert_to_u32_toward_positive" m f [.d x]) :=
  ⟨_, Dec.SourceLevel2.convert_to_u32_toward_positive_spec m f x⟩
theorem ok_convert_to_u32_toward_negative (m : RoundingMode) (f : UInt32) (x : U128) : IsOk (run "convert_to_u32_toward_negative" m f [.d x]) :=
  ⟨_, Dec.SourceLevel2.convert_to_u32_toward_negative_spec m f x⟩
theorem ok_convert_to_u32_toward_zero (m : RoundingMode) (f : UInt32) (x : U128) : IsOk (run "convert_to_u32_toward_zero" m f [.d x]) :=
  ⟨_, Dec.SourceLevel2.convert_to_u32_toward_zero_spec m f x⟩
theorem ok_convert_to_u32_ties_to_even (m : RoundingMode) (f : UInt32) (x : U128) : IsOk (run "convert_to_u32_ties_to_even" m f [.d x]) :=
  ⟨_, Dec.SourceLevel2.convert_to_u32_ties_to_even_spec m f x⟩
theorem ok_convert_to_u32_ties_to_away (m : RoundingMode) (f : UInt32) (x : U128) : IsOk (run "convert_to_u32_ties_to_away" m f [.d x]) :=
  ⟨_, Dec.SourceLevel2.convert_to_u32_ties_to_away_spec m f x⟩
theorem ok_convert_to_u32_exact_toward_positive (m : RoundingMode) (f : UInt32) (x : U128) : IsOk (run "convert_to_u32_exact_toward_positive" m f [.d x]) :=
  ⟨_, Dec.SourceLevel2.convert_to_u32_exact_toward_positive_spec m f x⟩
theorem ok_convert_to_u32_exact_toward_negative (m : RoundingMode) (f : UInt32) (x : U128) : IsOk (run "convert_to_u32_exact_toward_negative" m f [.d x]) :=
  ⟨_, Dec.SourceLevel2.convert_to_u32_exact_toward_negative_spec m f x⟩
theorem ok_convert_to_u32_exact_toward_zero (m : RoundingMode) (f : UInt32) (x : U128) : IsOk (run "convert_to_u32_exact_toward_zero" m f [.d x]) :=
  ⟨_, Dec.SourceLevel2.convert_to_u32_exact_toward_zero_spec m f x⟩
theorem ok_convert_to_u32_exact_ties_to_even (m : RoundingMode) (f : UInt32) (x : U128) : IsOk (run "convert_to_u32_exact_ties_to_even" m f [.d x]) :=
  ⟨_, Dec.SourceLevel2.convert_to_u32_exact_ties_to_even_spec m f x⟩
theorem ok_convert_to_u32_exact_ties_to_away (m : RoundingMode) (f : UInt32) (x : U128) : IsOk (run "convert_to_u32_exact_ties_to_away" m f [.d x]) :=
  ⟨_, Dec.SourceLevel2.convert_to_u32_exact_ties_to_away_spec m f x⟩
theorem ok_convert_to_u64_toward_positive (m : RoundingMode) (f : UInt32) (x : U128) : IsOk (run "convert_to_u64_toward_positive" m f [.d x]) :=
  ⟨_, Dec.SourceLevel2.convert_to_u64_toward_positive_spec m f x⟩
theorem ok_convert_to_u64_toward_negative (m : RoundingMode) (f : UInt32) (x : U128) : IsOk (run "convert_to_u64_toward_negative" m f [.d x]) :=
  ⟨_, Dec.SourceLevel2.convert_to_u64_toward_negative_spec m f x⟩
theorem ok_convert_to_u64_toward_zero (m : RoundingMode) (f : UInt32) (x : U128) : IsOk (run "convert_to_u64_toward_zero" m f [.d x]) :=
  ⟨_, Dec.SourceLevel2.convert_to_u64_toward_zero_spec m f x⟩
theorem ok_convert_to_u64_ties_to_even (m : RoundingMode) (f : UInt32) (x : U128) : IsOk (run "convert_to_u64_ties_to_even" m f [.d x]) :=
  ⟨_, Dec.SourceLevel2.convert_to_u64_ties_to_even_spec m f x⟩
theorem ok_convert_to_u64_ties_to_away (m : RoundingMode) (f : UInt32) (x : U128) : IsOk (run "convert_to_u64_ties_to_away" m f [.d x]) :=
  ⟨_, Dec.SourceLevel2.convert_to_u64_ties_to_away_spec m f x⟩
theorem ok_convert_to_u64_exact_toward_positive (m : RoundingMode) (f : UInt32) (x : U128) : IsOk (run "convert_to_u64_exact_toward_positive" m f [.d x]) :=
  ⟨_, Dec.SourceLevel2.convert_to_u64_exact_toward_positive_spec m f x⟩
theorem ok_convert_to_u64_exact_toward_negative (m : RoundingMode) (f : UInt32) (x : U128) : IsOk (run "convert_to_u64_exact_toward_negative" m f [.d x]) :=
  ⟨_, Dec.SourceLevel2.convert_to_u64_exact_toward_negative_spec m f x⟩
theorem ok_convert_to_u64_exact_toward_zero (m : RoundingMode) (f : UInt32) (x : U128) : IsOk (run "convert_to_u64_exact_toward_zero" m f [.d x]) :=
  ⟨_, Dec.SourceLevel2.convert_to_u64_exact_toward_zero_spec m f x⟩
theorem ok_convert_to_u64_exact_ties_to_even (m : RoundingMode) (f : UInt32) (x : U128) : IsOk (run "convert_to_u64_exact_ties_to_even" m f [.d x]) :=
  ⟨_, Dec.SourceLevel2.convert_to_u64_exact_ties_to_even_spec m f x⟩
theorem ok_convert_to_u64_exact_ties_to_away (m : RoundingMode) (f : UInt32) (x : U128) : IsOk (run "convert_to_u64_exact_ties_to_away" m f [.d x]) :=
  ⟨_, Dec.SourceLevel2.convert_to_u64_exact_ties_to_away_spec m f x⟩
theorem ok_division (m : RoundingMode) (f : UInt32) (x y : U128) : IsOk (run "division" m f [.d x, .d y]) :=
  ⟨_, Dec.C01GenDivClosed.api_division m f x y⟩
theorem ok_remainder (m : RoundingMode) (f : UInt32) (x y : U128) : IsOk (run "remainder" m f [.d x, .d y]) :=
  ⟨_, Dec.C10GenFmodRem.api_remainder m f x y⟩
theorem ok_compare_quiet_equal (m : RoundingMode) (f : UInt32) (x y : U128) : IsOk (run "compare_quiet_equal" m f [.d x, .d y]) := by
  obtain ⟨b, h, -⟩ := Dec.SourceLevel.compare_quiet_equal_spec m f x y; exact ⟨_, h⟩
theorem ok_compare_quiet_greater (m : RoundingMode) (f : UInt32) (x y : U128) : IsOk (run "compare_quiet_greater" m f [.d x, .d y]) := by
  obtain ⟨b, h, -⟩ := Dec.SourceLevel.compare_quiet_greater_spec m f x y; exact ⟨_, h⟩
theorem ok_compare_quiet_unordered (m : RoundingMode) (f : UInt32) (x y : U128) : IsOk (run "compare_quiet_unordered" m f [.d x, .d y]) := by
  obtain ⟨b, h, -⟩ := Dec.SourceLevel.compare_quiet_unordered_spec m f x y; exact ⟨_, h⟩
theorem ok_compare_quiet_ordered (m : RoundingMode) (f : UInt32) (x y : U128) : IsOk (run "compare_quiet_ordered" m f [.d x, .d y]) := by
  obtain ⟨b, h, -⟩ := Dec.SourceLevel.compare_quiet_ordered_spec m f x y; exact ⟨_, h⟩
theorem ok_compare_quiet_greater_equal (m : RoundingMode) (f : UInt32) (x y : U128) : IsOk (run "compare_quiet_greater_equal" m f [.d x, .d y]) := by
  obtain ⟨b, h, -⟩ := Dec.SourceLevel.compare_quiet_greater_equal_spec m f x y; exact ⟨_, h⟩
theorem ok_compare_quiet_greater_unordered (m : RoundingMode) (f : UInt32) (x y : U128) : IsOk (run "compare_quiet_greater_unordered" m f [.d x, .d y]) := by
  obtain ⟨b, h, -⟩ := Dec.SourceLevel.compare_quiet_greater_unordered_spec m f x y; exact ⟨_, h⟩
theorem ok_compare_quiet_less (m : RoundingMode) (f : UInt32) (x y : U128) : IsOk (run "compare_quiet_less" m f [.d x, .d y]) := by
  obtain ⟨b, h, -⟩ := Dec.SourceLevel.compare_quiet_less_spec m f x y; exact ⟨_, h⟩
theorem ok_compare_quiet_less_equal (m : RoundingMode) (f : UInt32) (x y : U128) : IsOk (run "compare_quiet_less_equal" m f [.d x, .d y]) := by
  obtain ⟨b, h, -⟩ := Dec.SourceLevel.compare_quiet_less_equal_spec m f x y; exact ⟨_, h⟩
theorem ok_compare_quiet_less_unordered (m : RoundingMode) (f : UInt32) (x y : U128) : IsOk (run "compare_quiet_less_unordered" m f [.d x, .d y]) := by
  obtain ⟨b, h, -⟩ := Dec.SourceLevel.compare_quiet_less_unordered_spec m f x y; exact ⟨_, h⟩
theorem ok_compare_quiet_not_equal (m : RoundingMode) (f : UInt32) (x y : U128) : IsOk (run "compare_quiet_not_equal" m f [.d x, .d y]) := by
  obtain ⟨b, h, -⟩ := Dec.SourceLevel.compare_quiet_not_equal_spec m f x y; exact ⟨_, h⟩
theorem ok_compare_quiet_not_greater (m : RoundingMode) (f : UInt32) (x y : U128) : IsOk (run "compare_quiet_not_greater" m f [.d x, .d y]) := by
  obtain ⟨b, h, -⟩ := Dec.SourceLevel.compare_quiet_not_greater_spec m f x y; exact ⟨_, h⟩
theorem ok_compare_quiet_not_less (m : RoundingMode) (f : UInt32) (x y : U128) : IsOk (run "compare_quiet_not_less" m f [.d x, .d y]) := by
  obtain ⟨b, h, -⟩ := Dec.SourceLevel.compare_quiet_not_less_spec m f x y; exact ⟨_, h⟩
theorem ok_compare_signaling_greater (m : RoundingMode) (f : UInt32) (x y : U128) : IsOk (run "compare_signaling_greater" m f [.d x, .d y]) := by
  obtain ⟨b, h, -⟩ := Dec.SourceLevel.compare_signaling_greater_spec m f x y; exact ⟨_, h⟩
theorem ok_compare_signaling_greater_equal (m : RoundingMode) (f : UInt32) (x y : U128) : IsOk (run "compare_signaling_greater_equal" m f [.d x, .d y]) := by
  obtain ⟨b, h, -⟩ := Dec.SourceLevel.compare_signaling_greater_equal_spec m f x y; exact ⟨_, h⟩
theorem ok_compare_signaling_greater_unordered (m : RoundingMode) (f : UInt32) (x y : U128) : IsOk (run "compare_signaling_greater_unordered" m f [.d x, .d y]) := by
  obtain ⟨b, h, -⟩ := Dec.SourceLevel.compare_signaling_greater_unordered_spec m f x y; exact ⟨_, h⟩
theorem ok_compare_signaling_less (m : RoundingMode) (f : UInt32) (x y : U128) : IsOk (run "compare_signaling_less" m f [.d x, .d y]) := by
  obtain ⟨b, h, -⟩ := Dec.SourceLevel.compare_signaling_less_spec m f x y; exact ⟨_, h⟩
theorem ok_compare_signaling_less_equal (m : RoundingMode) (f : UInt32) (x y : U128) : IsOk (run "compare_signaling_less_equal" m f [.d x, .d y]) := by
  obtain ⟨b, h, -⟩ := Dec.SourceLevel.compare_signaling_less_equal_spec m f x y; exact ⟨_, h⟩
theorem ok_compare_signaling_less_unordered (m : RoundingMode) (f : UInt32) (x y : U128) : IsOk (run "compare_signaling_less_unordered" m f [.d x, .d y]) := by
  obtain ⟨b, h, -⟩ := Dec.SourceLevel.compare_signaling_less_unordered_spec m f x y; exact ⟨_, h⟩
theorem ok_compare_signaling_not_greater (m : RoundingMode) (f : UInt32) (x y : U128) : IsOk (run "compare_signaling_not_greater" m f [.d x, .d y]) := by
  obtain ⟨b, h, -⟩ := Dec.SourceLevel.compare_signaling_not_greater_spec m f x y; exact ⟨_, h⟩
theorem ok_compare_signaling_not_less (m : RoundingMode) (f : UInt32) (x y : U128) : IsOk (run "compare_signaling_not_less" m f [.d x, .d y]) := by
  obtain ⟨b, h, -⟩ := Dec.SourceLevel.compare_signaling_not_less_spec m f x y; exact ⟨_, h⟩
theorem ok_round_to_integral_exact (m : RoundingMode) (f : UInt32) (x : U128) : IsOk (run "round_to_integral_exact" m f [.d x]) :=
  ⟨_, Dec.SourceLevel3.round_to_integral_exact_spec m f x⟩
theorem ok_round_to_integral_ties_to_away (m : RoundingMode) (f : UInt32) (x : U128) : IsOk (run "round_to_integral_ties_to_away" m f [.d x]) :=
  ⟨_, Dec.SourceLevel3.round_to_integral_ties_to_away_spec m f x⟩
theorem ok_round_to_integral_ties_to_even (m : RoundingMode) (f : UInt32) (x : U128) : IsOk (run "round_to_integral_ties_to_even" m f [.d x]) :=
  ⟨_, Dec.SourceLevel3.round_to_integral_ties_to_even_spec m f x⟩
theorem ok_round_to_integral_ties_toward_negative (m : RoundingMode) (f : UInt32) (x : U128) : IsOk (run "round_to_integral_ties_toward_negative" m f [.d x]) :=
  ⟨_, Dec.SourceLevel3.round_to_integral_ties_toward_negative_spec m f x⟩
theorem ok_round_to_integral_ties_toward_positive (m : RoundingMode) (f : UInt32) (x : U128) : IsOk (run "round_to_integral_ties_toward_positive" m f [.d x]) :=
  ⟨_, Dec.SourceLevel3.round_to_integral_ties_toward_positive_spec m f x⟩
theorem ok_round_to_integral_ties_toward_zero (m : RoundingMode) (f : UInt32) (x : U128) : IsOk (run "round_to_integral_ties_toward_zero" m f [.d x]) :=
  ⟨_, Dec.SourceLevel3.round_to_integral_ties_toward_zero_spec m f x⟩
theorem ok_eq (m : RoundingMode) (f : UInt32) (x y : U128) : IsOk (run "eq" m f [.d x, .d y]) :=
  ⟨_, Dec.SourceLevel.eq_spec m f x y⟩
theorem ok_lt (m : RoundingMode) (f : UInt32) (x y : U128) : IsOk (run "lt" m f [.d x, .d y]) :=
  ⟨_, Dec.SourceLevel.lt_spec m f x y⟩
theorem ok_le (m : RoundingMode) (f : UInt32) (x y : U128) : IsOk (run "le" m f [.d x, .d y]) :=
  ⟨_, Dec.SourceLevel.le_spec m f x y⟩
theorem ok_gt (m : RoundingMode) (f : UInt32) (x y : U128) : IsOk (run "gt" m f [.d x, .d y]) :=
  ⟨_, Dec.SourceLevel.gt_spec m f x y⟩
theorem ok_ge (m : RoundingMode) (f : UInt32) (x y : U128) : IsOk (run "ge" m f [.d x, .d y]) :=
  ⟨_, Dec.SourceLevel.ge_spec m f x y⟩
theorem ok_partial_cmp (m : RoundingMode) (f : UInt32) (x y : U128) : IsOk (run "partial_cmp" m f [.d x, .d y]) :=
  ⟨_, Dec.SourceLevel.partial_cmp_spec m f x y⟩
theorem ok_ne (m : RoundingMode) (f : UInt32) (x y : U128) : IsOk (run "ne" m f [.d x, .d y]) :=
  ⟨_, Dec.SourceLevel.ne_spec m f x y⟩
theorem ok_hash (m : RoundingMode) (f : UInt32) (x : U128) : IsOk (run "hash" m f [.d x]) := by
  rw [Dec.SourceLevel.run_hash, Dec.C20GenGlue.d128_hash_spec]; exact ⟨_, rfl⟩

/-- square root: `C01GenSqrtLong.long_ok` discharges the hypothesis of `SourceLevel3.square_root_of_LongOK` -/
theorem ok_square_root (m : RoundingMode) (f : UInt32) (x : U128) : IsOk (run "square_root" m f [.d x]) :=
  ⟨_, Dec.SourceLevel3.square_root_of_LongOK (fun C h1 h2 => Dec.C01GenSqrtLong.long_ok C h1 h2) m f x⟩

/-! ## 2. The master theorem -/

/-- the shapes of argument lists: one, two or three decimals, or a decimal and an integer -/
inductive Shape | d1 | d2 | d3 | di
  deriving DecidableEq, Repr

def Shape.Args : Shape → List AVal → Prop
  | .d1, l => ∃ a, l = [.d a]
  | .d2, l => ∃ a b, l = [.d a, .d b]
  | .d3, l => ∃ a b c, l = [.d a, .d b, .d c]
  | .di, l => ∃ a n, l = [.d a, .i n]

/-- `op` never fails on arguments of shape `sh` -/
def TotalAt (p : String × Shape) : Prop :=
  ∀ (m : RoundingMode) (f : UInt32) (args : List AVal), p.2.Args args → IsOk (run p.1 m f args)

theorem lift1 {op : String} (h : ∀ m f x, IsOk (run op m f [.d x])) : TotalAt (op, .d1) := by
  rintro m f args ⟨a, rfl⟩; exact h m f a
theorem lift2 {op : String} (h : ∀ m f x y, IsOk (run op m f [.d x, .d y])) : TotalAt (op, .d2) := by
  rintro m f args ⟨a, b, rfl⟩; exact h m f a b
theorem lift3 {op : String} (h : ∀ m f x y z, IsOk (run op m f [.d x, .d y, .d z])) : TotalAt (op, .d3) := by
  rintro m f args ⟨a, b, c, rfl⟩; exact h m f a b c
theorem liftI {op : String} (h : ∀ m f x n, IsOk (run op m f [.d x, .i n])) : TotalAt (op, .di) := by
  rintro m f args ⟨a, n, rfl⟩; exact h m f a n

/-- the methods proved total, with their argument shapes -/
def totalMethods : List (String × Shape) := [
  ("encode_decimal", .d1),
  ("decode_decimal", .d1),
  ("abs", .d1),
  ("class", .d1),
  ("is_finite", .d1),
  ("is_infinite", .d1),
  ("is_nan", .d1),
  ("is_normal", .d1),
  ("is_signaling", .d1),
  ("is_sign_minus", .d1),
  ("is_subnormal", .d1),
  ("is_zero", .d1),
  ("negate", .d1),
  ("same_quantum", .d2),
  ("total_order", .d2),
  ("total_order_mag", .d2),
  ("fmod", .d2),
  ("frexp", .d1),
  ("ldexp", .di),
  ("llquantexp", .d1),
  ("logb", .d1),
  ("lrint", .d1),
  ("llrint", .d1),
  ("lround", .d1),
  ("llround", .d1),
  ("log_b", .d1),
  ("max_num", .d2),
  ("max_num_mag", .d2),
  ("min_num", .d2),
  ("min_num_mag", .d2),
  ("modf", .d1),
  ("nearbyint", .d1),
  ("next_after", .d2),
  ("next_down", .d1),
  ("next_toward", .d2),
  ("next_up", .d1),
  ("quantexp", .d1),
  ("quantize", .d2),
  ("quantum", .d1),
  ("scaleb", .di),
  ("scalebln", .di),
  ("convert_to_i32_ties_to_even", .d1),
  ("convert_to_i32_exact_ties_to_even", .d1),
  ("convert_to_i32_toward_negative", .d1),
  ("convert_to_i32_exact_toward_negative", .d1),
  ("convert_to_i32_toward_positive", .d1),
  ("convert_to_i32_exact_toward_positive", .d1),
  ("convert_to_i32_toward_zero", .d1),
  ("convert_to_i32_exact_toward_zero", .d1),
  ("convert_to_i32_ties_to_away", .d1),
  ("convert_to_i32_exact_ties_to_away", .d1),
  ("convert_to_i64_toward_positive", .d1),
  ("convert_to_i64_toward_negative", .d1),
  ("convert_to_i64_toward_zero", .d1),
  ("convert_to_i64_ties_to_even", .d1),
  ("convert_to_i64_ties_to_away", .d1),
  ("convert_to_i64_exact_toward_positive", .d1),
  ("convert_to_i64_exact_toward_negative", .d1),
  ("convert_to_i64_exact_toward_zero", .d1),
  ("convert_to_i64_exact_ties_to_even", .d1),
  ("convert_to_i64_exact_ties_to_away", .d1),
  ("convert_to_u32_toward_positive", .d1),
  ("convert_to_u32_toward_negative", .d1),
  ("convert_to_u32_toward_zero", .d1),
  ("convert_to_u32_ties_to_even", .d1),
  ("convert_to_u32_ties_to_away", .d1),
  ("convert_to_u32_exact_toward_positive", .d1),
  ("convert_to_u32_exact_toward_negative", .d1),
  ("convert_to_u32_exact_toward_zero", .d1),
  ("convert_to_u32_exact_ties_to_even", .d1),
  ("convert_to_u32_exact_ties_to_away", .d1),
  ("convert_to_u64_toward_positive", .d1),
  ("convert_to_u64_toward_negative", .d1),
  ("convert_to_u64_toward_zero", .d1),
  ("convert_to_u64_ties_to_even", .d1),
  ("convert_to_u64_ties_to_away", .d1),
  ("convert_to_u64_exact_toward_positive", .d1),
  ("convert_to_u64_exact_toward_negative", .d1),
  ("convert_to_u64_exact_toward_zero", .d1),
  ("convert_to_u64_exact_ties_to_even", .d1),
  ("convert_to_u64_exact_ties_to_away", .d1),
  ("division", .d2),
  ("remainder", .d2),
  ("compare_quiet_equal", .d2),
  ("compare_quiet_greater", .d2),
  ("compare_quiet_unordered", .d2),
  ("compare_quiet_ordered", .d2),
  ("compare_quiet_greater_equal", .d2),
  ("compare_quiet_greater_unordered", .d2),
  ("compare_quiet_less", .d2),
  ("compare_quiet_less_equal", .d2),
  ("compare_quiet_less_unordered", .d2),
  ("compare_quiet_not_equal", .d2),
  ("compare_quiet_not_greater", .d2),
  ("compare_quiet_not_less", .d2),
  ("compare_signaling_greater", .d2),
  ("compare_signaling_greater_equal", .d2),
  ("compare_signaling_greater_unordered", .d2),
  ("compare_signaling_less", .d2),
  ("compare_signaling_less_equal", .d2),
  ("compare_signaling_less_unordered", .d2),
  ("compare_signaling_not_greater", .d2),
  ("compare_signaling_not_less", .d2),
  ("round_to_integral_exact", .d1),
  ("round_to_integral_ties_to_away", .d1),
  ("round_to_integral_ties_to_even", .d1),
  ("round_to_integral_ties_toward_negative", .d1),
  ("round_to_integral_ties_toward_positive", .d1),
  ("round_to_integral_ties_toward_zero", .d1),
  ("eq", .d2),
  ("lt", .d2),
  ("le", .d2),
  ("gt", .d2),
  ("ge", .d2),
  ("partial_cmp", .d2),
  ("ne", .d2),
  ("hash", .d1),
  ("square_root", .d1)
]

set_option maxRecDepth 100000 in
/-- **C15 at the level of the translated source**: none of the 118 listed public methods panics, whatever the operand bits, the
integer argument, the rounding mode and the status word -/
theorem total : ∀ p ∈ totalMethods, TotalAt p := by
  intro p hp
  simp only [totalMethods, List.mem_cons, List.not_mem_nil, or_false] at hp
  rcases hp with rfl | rfl | rfl | rfl | rfl | rfl | rfl | rfl | rfl | rfl | rfl | rfl | rfl | rfl | rfl | rfl | rfl | rfl | rfl | rfl | rfl | rfl | rfl | rfl | rfl | rfl | rfl | rfl | rfl | rfl | rfl | rfl | rfl | rfl | rfl | rfl | rfl | rfl | rfl | rfl | rfl | rfl | rfl | rfl | rfl | rfl | rfl | rfl | rfl | rfl | rfl | rfl | rfl | rfl | rfl | rfl | rfl | rfl | rfl | rfl | rfl | rfl | rfl | rfl | rfl | rfl | rfl | rfl | rfl | rfl | rfl | rfl | rfl | rfl | rfl | rfl | rfl | rfl | rfl | rfl | rfl | rfl | rfl | rfl | rfl | rfl | rfl | rfl | rfl | rfl | rfl | rfl | rfl | rfl | rfl | rfl | rfl | rfl | rfl | rfl | rfl | rfl | rfl | rfl | rfl | rfl | rfl | rfl | rfl | rfl | rfl | rfl | rfl | rfl | rfl | rfl | rfl | rfl
  · exact lift1 (fun m f => ok_encode_decimal m f)
  · exact lift1 (fun m f => ok_decode_decimal m f)
  · exact lift1 (fun m f => ok_abs m f)
  · exact lift1 (fun m f => ok_class m f)
  · exact lift1 (fun m f => ok_is_finite m f)
  · exact lift1 (fun m f => ok_is_infinite m f)
  · exact lift1 (fun m f => ok_is_nan m f)
  · exact lift1 (fun m f => ok_is_normal m f)
  · exact lift1 (fun m f => ok_is_signaling m f)
  · exact lift1 (fun m f => ok_is_sign_minus m f)
  · exact lift1 (fun m f => ok_is_subnormal m f)
  · exact lift1 (fun m f => ok_is_zero m f)
  · exact lift1 (fun m f => ok_negate m f)
  · exact lift2 (fun m f => ok_same_quantum m f)
  · exact lift2 (fun m f => ok_total_order m f)
  · exact lift2 (fun m f => ok_total_order_mag m f)
  · exact lift2 (fun m f => ok_fmod m f)
  · exact lift1 (fun m f => ok_frexp m f)
  · exact liftI (fun m f => ok_ldexp m f)
  · exact lift1 (fun m f => ok_llquantexp m f)
  · exact lift1 (fun m f => ok_logb m f)
  · exact lift1 (fun m f => ok_lrint m f)
  · exact lift1 (fun m f => ok_llrint m f)
  · exact lift1 (fun m f => ok_lround m f)
  · exact lift1 (fun m f => ok_llround m f)
  · exact lift1 (fun m f => ok_log_b m f)
  · exact lift2 (fun m f => ok_max_num m f)
  · exact lift2 (fun m f => ok_max_num_mag m f)
  · exact lift2 (fun m f => ok_min_num m f)
  · exact lift2 (fun m f => ok_min_num_mag m f)
  · exact lift1 (fun m f => ok_modf m f)
  · exact lift1 (fun m f => ok_nearbyint m f)
  · exact lift2 (fun m f => ok_next_after m f)
  · exact lift1 (fun m f => ok_next_down m f)
  · exact lift2 (fun m f => ok_next_toward m f)
  · exact lift1 (fun m f => ok_next_up m f)
  · exact lift1 (fun m f => ok_quantexp m f)
  · exact lift2 (fun m f => ok_quantize m f)
  · exact lift1 (fun m f => ok_quantum m f)
  · exact liftI (fun m f => ok_scaleb m f)
  · exact liftI (fun m f => ok_scalebln m f)
  · exact lift1 (fun m f => ok_convert_to_i32_ties_to_even m f)
  · exact lift1 (fun m f => ok_convert_to_i32_exact_ties_to_even m f)
  · exact lift1 (fun m f => ok_convert_to_i32_toward_negative m f)
  · exact lift1 (fun m f => ok_convert_to_i32_exact_toward_negative m f)
  · exact lift1 (fun m f => ok_convert_to_i32_toward_positive m f)
  · exact lift1 (fun m f => ok_convert_to_i32_exact_toward_positive m f)
  · exact lift1 (fun m f => ok_convert_to_i32_toward_zero m f)
  · exact lift1 (fun m f => ok_convert_to_i32_exact_toward_zero m f)
  · exact lift1 (fun m f => ok_convert_to_i32_ties_to_away m f)
  · exact lift1 (fun m f => ok_convert_to_i32_exact_ties_to_away m f)
  · exact lift1 (fun m f => ok_convert_to_i64_toward_positive m f)
  · exact lift1 (fun m f => ok_convert_to_i64_toward_negative m f)
  · exact lift1 (fun m f => ok_convert_to_i64_toward_zero m f)
  · exact lift1 (fun m f => ok_convert_to_i64_ties_to_even m f)
  · exact lift1 (fun m f => ok_convert_to_i64_ties_to_away m f)
  · exact lift1 (fun m f => ok_convert_to_i64_exact_toward_positive m f)
  · exact lift1 (fun m f => ok_convert_to_i64_exact_toward_negative m f)
  · exact lift1 (fun m f => ok_convert_to_i64_exact_toward_zero m f)
  · exact lift1 (fun m f => ok_convert_to_i64_exact_ties_to_even m f)
  · exact lift1 (fun m f => ok_convert_to_i64_exact_ties_to_away m f)
  · exact lift1 (fun m f => ok_convert_to_u32_toward_positive m f)
  · exact lift1 (fun m f => ok_convert_to_u32_toward_negative m f)
  · exact lift1 (fun m f => ok_convert_to_u32_toward_zero m f)
  · exact lift1 (fun m f => ok_convert_to_u32_ties_to_even m f)
  · exact lift1 (fun m f => ok_convert_to_u32_ties_to_away m f)
  · exact lift1 (fun m f => ok_convert_to_u32_exact_toward_positive m f)
  · exact lift1 (fun m f => ok_convert_to_u32_exact_toward_negative m f)
  · exact lift1 (fun m f => ok_convert_to_u32_exact_toward_zero m f)
  · exact lift1 (fun m f => ok_convert_to_u32_exact_ties_to_even m f)
  · exact lift1 (fun m f => ok_convert_to_u32_exact_ties_to_away m f)
  · exact lift1 (fun m f => ok_convert_to_u64_toward_positive m f)
  · exact lift1 (fun m f => ok_convert_to_u64_toward_negative m f)
  · exact lift1 (fun m f => ok_convert_to_u64_toward_zero m f)
  · exact lift1 (fun m f => ok_convert_to_u64_ties_to_even m f)
  · exact lift1 (fun m f => ok_convert_to_u64_ties_to_away m f)
  · exact lift1 (fun m f => ok_convert_to_u64_exact_toward_positive m f)
  · exact lift1 (fun m f => ok_convert_to_u64_exact_toward_negative m f)
  · exact lift1 (fun m f => ok_convert_to_u64_exact_toward_zero m f)
  · exact lift1 (fun m f => ok_convert_to_u64_exact_ties_to_even m f)
  · exact lift1 (fun m f => ok_convert_to_u64_exact_ties_to_away m f)
  · exact lift2 (fun m f => ok_division m f)
  · exact lift2 (fun m f => ok_remainder m f)
  · exact lift2 (fun m f => ok_compare_quiet_equal m f)
  · exact lift2 (fun m f => ok_compare_quiet_greater m f)
  · exact lift2 (fun m f => ok_compare_quiet_unordered m f)
  · exact lift2 (fun m f => ok_compare_quiet_ordered m f)
  · exact lift2 (fun m f => ok_compare_quiet_greater_equal m f)
  · exact lift2 (fun m f => ok_compare_quiet_greater_unordered m f)
  · exact lift2 (fun m f => ok_compare_quiet_less m f)
  · exact lift2 (fun m f => ok_compare_quiet_less_equal m f)
  · exact lift2 (fun m f => ok_compare_quiet_less_unordered m f)
  · exact lift2 (fun m f => ok_compare_quiet_not_equal m f)
  · exact lift2 (fun m f => ok_compare_quiet_not_greater m f)
  · exact lift2 (fun m f => ok_compare_quiet_not_less m f)
  · exact lift2 (fun m f => ok_compare_signaling_greater m f)
  · exact lift2 (fun m f => ok_compare_signaling_greater_equal m f)
  · exact lift2 (fun m f => ok_compare_signaling_greater_unordered m f)
  · exact lift2 (fun m f => ok_compare_signaling_less m f)
  · exact lift2 (fun m f => ok_compare_signaling_less_equal m f)
  · exact lift2 (fun m f => ok_compare_signaling_less_unordered m f)
  · exact lift2 (fun m f => ok_compare_signaling_not_greater m f)
  · exact lift2 (fun m f => ok_compare_signaling_not_less m f)
  · exact lift1 (fun m f => ok_round_to_integral_exact m f)
  · exact lift1 (fun m f => ok_round_to_integral_ties_to_away m f)
  · exact lift1 (fun m f => ok_round_to_integral_ties_to_even m f)
  · exact lift1 (fun m f => ok_round_to_integral_ties_toward_negative m f)
  · exact lift1 (fun m f => ok_round_to_integral_ties_toward_positive m f)
  · exact lift1 (fun m f => ok_round_to_integral_ties_toward_zero m f)
  · exact lift2 (fun m f => ok_eq m f)
  · exact lift2 (fun m f => ok_lt m f)
  · exact lift2 (fun m f => ok_le m f)
  · exact lift2 (fun m f => ok_gt m f)
  · exact lift2 (fun m f => ok_ge m f)
  · exact lift2 (fun m f => ok_partial_cmp m f)
  · exact lift2 (fun m f => ok_ne m f)
  · exact lift1 (fun m f => ok_hash m f)
  · exact lift1 (fun m f => ok_square_root m f)

/-! ## 3. The five methods whose routine is not yet completely specified: conditional totality -/

open Dec.C01GenAddLoop (AddRounding Proved)

/-- named hypothesis for the fma blocks: `bid128_fma` returns normally on all operands -/
def FmaOk : Prop := ∀ (x y z : U128) (m : RoundingMode) (f : UInt32), ∃ v, bid128_fma x y z m f = .ok v

theorem ok_addition (H : AddRounding) (m : RoundingMode) (f : UInt32) (x y : U128) : IsOk (run "addition" m f [.d x, .d y]) := by
  show IsOk (some ((bid128_add x y m f).map _))
  rw [Dec.C01GenAddLoop.bid128_add_spec_partial' H]; exact ⟨_, rfl⟩
theorem ok_subtraction (H : AddRounding) (m : RoundingMode) (f : UInt32) (x y : U128) :
    IsOk (run "subtraction" m f [.d x, .d y]) := by
  show IsOk (some ((bid128_sub x y m f).map _))
  rw [Dec.C01GenAddLoop.bid128_sub_spec_partial' H]; exact ⟨_, rfl⟩
theorem ok_fdim (H : AddRounding) (m : RoundingMode) (f : UInt32) (x y : U128) : IsOk (run "fdim" m f [.d x, .d y]) :=
  ⟨_, Dec.SourceLevel3.fdim_of_AddRounding H m f x y⟩
/-- unconditional on the proved region of `bid128_add` -/
theorem ok_addition_proved (m : RoundingMode) (f : UInt32) (x y : U128)
    (h : Proved (Dec.C01GenAddLoop.dOf x) (Dec.C01GenAddLoop.dOf y)) : IsOk (run "addition" m f [.d x, .d y]) :=
  ⟨_, Dec.C01GenAddLoop.api_addition_partial m f x y h⟩
theorem ok_subtraction_proved (m : RoundingMode) (f : UInt32) (x y : U128)
    (h : Proved (Dec.C01GenAddLoop.dOf x) (Dec.C01GenAddLoop.dOf y).negate) : IsOk (run "subtraction" m f [.d x, .d y]) :=
  ⟨_, Dec.C01GenAddLoop.api_subtraction_partial m f x y h⟩
theorem ok_fdim_partial (m : RoundingMode) (f : UInt32) (x y : U128)
    (h : cmpD (Dec.SourceLevel3.dOf x) (Dec.SourceLevel3.dOf y) = some .gt →
      Proved (Dec.SourceLevel3.dOf x) (Dec.SourceLevel3.dOf y).negate) : IsOk (run "fdim" m f [.d x, .d y]) :=
  ⟨_, Dec.SourceLevel3.fdim_partial m f x y h⟩

theorem ok_fused_multiply_add (H : FmaOk) (m : RoundingMode) (f : UInt32) (x y z : U128) :
    IsOk (run "fused_multiply_add" m f [.d x, .d y, .d z]) := by
  show IsOk (some ((bid128_fma x y z m f).map _))
  obtain ⟨v, hv⟩ := H x y z m f
  rw [hv]; exact ⟨_, rfl⟩
theorem ok_fma_nan (m : RoundingMode) (f : UInt32) (x y z : U128)
    (h : ((Dec.SourceLevel.dOf x).isNaN || (Dec.SourceLevel.dOf y).isNaN || (Dec.SourceLevel.dOf z).isNaN) = true) :
    IsOk (run "fused_multiply_add" m f [.d x, .d y, .d z]) := by
  obtain ⟨r, g, -, h1⟩ := Dec.SourceLevel.fma_nan m f x y z h; exact ⟨_, h1⟩
theorem ok_multiplication_zero (m : RoundingMode) (f : UInt32) (x y : U128) (s1 s2 : Bool) (c1 c2 : Nat) (e1 e2 : Int)
    (hx : Dec.SourceLevel3.dOf x = .fin s1 c1 e1) (hy : Dec.SourceLevel3.dOf y = .fin s2 c2 e2) (hz : c1 = 0 ∨ c2 = 0) :
    IsOk (run "multiplication" m f [.d x, .d y]) :=
  ⟨_, (Dec.SourceLevel3.multiplication_zero m f x y s1 s2 c1 c2 e1 e2 hx hy hz).1⟩
theorem ok_multiplication (H : FmaOk) (m : RoundingMode) (f : UInt32) (x y : U128) :
    IsOk (run "multiplication" m f [.d x, .d y]) := by
  by_cases h : (Dec.SourceLevel3.dOf x).isFin = true ∧ (Dec.SourceLevel3.dOf y).isFin = true ∧
      ((Dec.SourceLevel3.dOf x).isZero = true ∨ (Dec.SourceLevel3.dOf y).isZero = true)
  · obtain ⟨fx, fy, hz⟩ := h
    cases hx : Dec.SourceLevel3.dOf x with
    | fin s1 c1 e1 =>
      cases hy : Dec.SourceLevel3.dOf y with
      | fin s2 c2 e2 =>
        rw [hx, hy] at hz
        refine ok_multiplication_zero m f x y s1 s2 c1 c2 e1 e2 hx hy ?_
        rcases hz with h0 | h0
        · left; simpa [Datum.isZero] using h0
        · right; simpa [Datum.isZero] using h0
      | inf s => rw [hy] at fy; exact Bool.noConfusion fy
      | nan s g p => rw [hy] at fy; exact Bool.noConfusion fy
    | inf s => rw [hx] at fx; exact Bool.noConfusion fx
    | nan s g p => rw [hx] at fx; exact Bool.noConfusion fx
  · rw [Dec.SourceLevel3.multiplication_is_fma m f x y h]
    exact ok_fused_multiply_add H m f y x _

/-! ## 4. The methods taking a binary float (`Api2.run2`) -/

open Dec.Gen.Api2 in
theorem ok2_convert_from_f64 (md : RoundingMode) (f : UInt32) (bits : Nat) : IsOk (run2 "convert_from_f64" md f bits) := by
  obtain ⟨m, rfl⟩ := Dec.C07GenBinConv.rmode_surj md
  obtain ⟨v, hv⟩ := Dec.C07GenBinConv.binary64_to_bid128_isOk m (UInt64.ofNat bits) f
  exact ⟨v, congrArg some hv⟩
open Dec.Gen.Api2 in
theorem ok2_convert_from_f32 (md : RoundingMode) (f : UInt32) (bits : Nat) : IsOk (run2 "convert_from_f32" md f bits) := by
  obtain ⟨m, rfl⟩ := Dec.C07GenBinConv.rmode_surj md
  obtain ⟨v, hv⟩ := Dec.C07GenBinConv.binary32_to_bid128_isOk m (UInt32.ofNat bits) f
  exact ⟨v, congrArg some hv⟩
open Dec.Gen.Api2 in
theorem ok2_from_f64 (md : RoundingMode) (f : UInt32) (bits : Nat) : IsOk (run2 "from_f64" md f bits) := by
  obtain ⟨v, hv⟩ := Dec.C07GenBinConv.binary64_to_bid128_isOk .rne (UInt64.ofNat bits) 0
  show IsOk (some ((Dec.Gen.Code2.binary64_to_bid128 ⟨UInt64.ofNat bits⟩ defaultMode 0).map _))
  rw [show defaultMode = HkGen.rmode .rne from rfl, hv]; exact ⟨_, rfl⟩
open Dec.Gen.Api2 in
theorem ok2_from_f32 (md : RoundingMode) (f : UInt32) (bits : Nat) : IsOk (run2 "from_f32" md f bits) := by
  obtain ⟨v, hv⟩ := Dec.C07GenBinConv.binary32_to_bid128_isOk .rne (UInt32.ofNat bits) 0
  show IsOk (some ((Dec.Gen.Code2.binary32_to_bid128 ⟨UInt32.ofNat bits⟩ defaultMode 0).map _))
  rw [show defaultMode = HkGen.rmode .rne from rfl, hv]; exact ⟨_, rfl⟩

open Dec.Gen.Api2 in
/-- **the four `run2` methods never panic**, for any bit pattern (any natural number: the dispatch truncates it), mode and status word -/
theorem total2 : ∀ op ∈ Dec.Gen.Api2.covered.map Prod.fst, ∀ (md : RoundingMode) (f : UInt32) (bits : Nat),
    IsOk (run2 op md f bits) := by
  intro op hop
  simp only [Dec.Gen.Api2.covered, List.map, List.mem_cons, List.not_mem_nil, or_false] at hop
  rcases hop with rfl | rfl | rfl | rfl
  · exact ok2_convert_from_f32
  · exact ok2_convert_from_f64
  · exact ok2_from_f32
  · exact ok2_from_f64
/-! ## 5. The complement, and all 123 methods under the two named hypotheses -/

/-- the dispatched methods NOT in `totalMethods`, with the reason (the named hypothesis under which they are total) -/
def notYetTotal : List (String × Shape × String) := [
  ("addition", .d2, "AddRounding: the `Remaining` region of bid128_add (rounding loop 34 − q_L < delta < 34, power-of-ten sub-case of delta = 34)"),
  ("subtraction", .d2, "AddRounding: bid128_sub is bid128_add on the negated second operand"),
  ("fdim", .d2, "AddRounding: needed only for x > y with x − y in the `Remaining` region"),
  ("multiplication", .d2, "FmaOk: = fused_multiply_add (y, x, +0E+6111) unless a zero among two numbers"),
  ("fused_multiply_add", .d3, "FmaOk: the fma blocks (C02GenFma*: in progress); NaN operands unconditional")
]

def allMethods : List (String × Shape) := totalMethods ++ notYetTotal.map (fun p => (p.1, p.2.1))

/-- **all 123 dispatched methods never panic**, given the two named hypotheses about the routines still open -/
theorem total_all (Ha : AddRounding) (Hf : FmaOk) : ∀ p ∈ allMethods, TotalAt p := by
  intro p hp
  rcases List.mem_append.1 hp with h | h
  · exact total p h
  · simp only [notYetTotal, List.map, List.mem_cons, List.not_mem_nil, or_false] at h
    rcases h with rfl | rfl | rfl | rfl | rfl
    · exact lift2 (fun m f => ok_addition Ha m f)
    · exact lift2 (fun m f => ok_subtraction Ha m f)
    · exact lift2 (fun m f => ok_fdim Ha m f)
    · exact lift2 (fun m f => ok_multiplication Hf m f)
    · exact lift3 (fun m f => ok_fused_multiply_add Hf m f)

/-- the two lists are exactly the dispatched methods of `Api.run` (`Api.covered`): 118 + 5 = 123, no method twice -/
theorem covered_split :
    totalMethods.length = 118 ∧ notYetTotal.length = 5 ∧ Dec.Gen.Api.covered.length = 123 ∧
    (allMethods.map Prod.fst).Nodup ∧
    (Dec.Gen.Api.covered.map Prod.fst).all (fun n => (allMethods.map Prod.fst).contains n) = true ∧
    (allMethods.map Prod.fst).all (fun n => (Dec.Gen.Api.covered.map Prod.fst).contains n) = true := by
  refine ⟨by decide, by decide, by decide, by decide +kernel, by decide +kernel, by decide +kernel⟩

/-! ## 6. One example per group -/

example (x : U128) : IsOk (run "is_normal" .Upward 0x3f [.d x]) := ok_is_normal _ _ x
example (x y : U128) : IsOk (run "compare_signaling_less" .NearestEven 0 [.d x, .d y]) := ok_compare_signaling_less _ _ x y
example (x : U128) (n : Int) : IsOk (run "scalebln" .TowardZero 0 [.d x, .i n]) := ok_scalebln _ _ x n
example (x : U128) : IsOk (run "convert_to_u64_exact_ties_to_away" .NearestEven 0 [.d x]) :=
  total ("convert_to_u64_exact_ties_to_away", .d1) (by decide) _ _ _ ⟨x, rfl⟩
example (x y : U128) (f : UInt32) : IsOk (run "division" .Downward f [.d x, .d y]) := ok_division _ f x y
example (x y : U128) : IsOk (run "partial_cmp" .NearestEven 0 [.d x, .d y]) := ok_partial_cmp _ _ x y
example (x : U128) : IsOk (run "hash" .NearestEven 0 [.d x]) := ok_hash _ _ x
example (bits : Nat) (f : UInt32) : IsOk (Dec.Gen.Api2.run2 "from_f32" .Upward f bits) := ok2_from_f32 _ f bits
example (H : AddRounding) (x y : U128) : IsOk (run "fdim" .NearestEven 0 [.d x, .d y]) := ok_fdim H _ _ x y
-- a concrete evaluation: the result is an `.ok`
example : run "quantum" .NearestEven 0 [.d ⟨5, 0x3042000000000000⟩] = some (.ok ([.d ⟨1, 0x3042000000000000⟩], 0)) := by decide +kernel

end Dec.C15GenTotal
