/-
  C02GenFmaZ0Tiny — the `tinyK` stage of the `z = 0` path of `bid128_ext_fma` (literal def in C02GenFmaFront.lean; bid128_fma.rs
  lines 466–610 of the routine).  This is the whole subnormal range of multiplication: D4 and D13–D15 lived in this stage.

  HEADLINE.  `tinyK_spec`: after the first stage (`round1K`: the exact product `N·10^E` untouched if it has at most 34 digits, else
  rounded to 34 digits by a digit-removal helper, `C02RoundHelpers.Spec`), if the result is tiny (`q4 + e4 < −6142`) `tinyK`
  returns the canonical encoding of

        finish mode sign N 1 E (min E e3)

  (ONE rounding of the exact product — at the least exponent after a second rounding and the repair of the double rounding, or,
  when it is exact and its exponent in range, moved towards the preferred exponent) and `(pf ||| flags) ||| save`, in every
  rounding mode.  `tinyK_skip`: otherwise `tinyK … k = k`.

  PLAN.  §1 `tinyK` cut into literal pieces (`tinyK_shape` by `rfl`).  §2 tail and repair evaluated; `tzTail_spec` (tail delivers
  `finish`, on the number-level lemmas `PreTail` / `tail_math` of C02GenFmaLow).  §3 the underflow branch: the three arms (helper,
  comparison with the midpoint, zero) all compute `rne c1 x` with its `specInd` indicators; `two_step` of C02GenFmaLow then makes
  second rounding + repair ONE rounding (`tzUF_spec`).  §4 tiny but in range: scaling to the preferred exponent
  (`finish_exact_pref`, `tzInRange_spec`).  §5 `tinyK_skip`, `tinyK_spec`.  §6 examples.
-/
import DecProofs.Properties.C02GenFmaFront
import DecProofs.Properties.C02GenFmaLow
import DecProofs.Properties.C02GenFmaSwap

set_option linter.unusedSimpArgs false
set_option linter.unusedVariables false
set_option linter.unnecessarySeqFocus false

namespace Dec.C02GenFmaZ0Tiny
open Dec.Rs Dec.Gen.Code
open Dec.C02GenFmaFront (tinyK)
open Dec.RH (Ind)
open Dec.C02RoundHelpers (Spec rne rne_eq rne_rounded specInd)
open Dec.C02GenCorrection (pow_split ofBits deliver stepC corrOf modeOf upD downD corrI outF outW ovfDatum)
open Dec.C03GenCompare (sigW negW coeff_hi)
open Dec.C02GenFmaLow

/-! ## 1. `tinyK` cut into pieces (literal text) -/

/-- lines 160–173 of `tinyK`: the flags, sign and exponent packed, the correction for the other modes, the return -/
def tzTail (rnd_mode : RoundingMode) (p_sign : UInt64) (save_fpsf : UInt32) (res_ : U128) (e4 : Int32)
    (is_midpoint_lt_even is_midpoint_gt_even is_inexact_lt_midpoint is_inexact_gt_midpoint : Bool) (pfpsf_ : UInt32) : Except String (U128 × Bool × Bool × Bool × Bool × UInt32) := do
  let mut ptr_is_midpoint_lt_even : Bool := false
  let mut ptr_is_midpoint_gt_even : Bool := false
  let mut ptr_is_inexact_lt_midpoint : Bool := false
  let mut ptr_is_inexact_gt_midpoint : Bool := false
  let mut pfpsf : UInt32 := pfpsf_
  let mut res : U128 := res_
  if (((is_inexact_lt_midpoint || is_inexact_gt_midpoint) || is_midpoint_lt_even) || is_midpoint_gt_even) then
    pfpsf := (pfpsf ||| c_StatusFlags_BID_INEXACT_EXCEPTION)
    pfpsf := (pfpsf ||| c_StatusFlags_BID_UNDERFLOW_EXCEPTION)
  res := { res with w1 := (res.w1 ||| (p_sign ||| ((((UInt64.ofInt (toI ((e4 + (0x1820 : Int32)))))) <<< 0x31)))) }
  if (rnd_mode != RoundingMode.NearestEven) then
    let t__17 ← bid_rounding_correction rnd_mode is_inexact_lt_midpoint is_inexact_gt_midpoint is_midpoint_lt_even is_midpoint_gt_even e4 res pfpsf
    res := t__17.1
    pfpsf := t__17.2
  pfpsf := (pfpsf ||| save_fpsf)
  ptr_is_midpoint_lt_even := is_midpoint_lt_even
  ptr_is_midpoint_gt_even := is_midpoint_gt_even
  ptr_is_inexact_lt_midpoint := is_inexact_lt_midpoint
  ptr_is_inexact_gt_midpoint := is_inexact_gt_midpoint
  return (res, ptr_is_midpoint_lt_even, ptr_is_midpoint_gt_even, ptr_is_inexact_lt_midpoint, ptr_is_inexact_gt_midpoint, pfpsf)

/-- lines 110–142 of `tinyK`: the repair of coefficient and indicators after the second rounding -/
def tzRepair (rnd_mode : RoundingMode) (p_sign : UInt64) (save_fpsf : UInt32) (res_ : U128) (e4 : Int32)
    (is_midpoint_lt_even0 is_midpoint_gt_even0 is_inexact_lt_midpoint0 is_inexact_gt_midpoint0 : Bool)
    (is_midpoint_lt_even_ is_midpoint_gt_even_ is_inexact_lt_midpoint_ is_inexact_gt_midpoint_ : Bool) (pfpsf : UInt32) : Except String (U128 × Bool × Bool × Bool × Bool × UInt32) := do
  let mut res : U128 := res_
  let mut is_midpoint_lt_even : Bool := is_midpoint_lt_even_
  let mut is_midpoint_gt_even : Bool := is_midpoint_gt_even_
  let mut is_inexact_lt_midpoint : Bool := is_inexact_lt_midpoint_
  let mut is_inexact_gt_midpoint : Bool := is_inexact_gt_midpoint_
  if (((is_inexact_gt_midpoint0 || is_midpoint_lt_even0)) && is_midpoint_lt_even) then
    res := { res with w0 := (res.w0 - 1) }
    if (res.w0 == (0xffffffffffffffff : UInt64)) then
      res := { res with w1 := (res.w1 - 1) }
    is_midpoint_lt_even := false
    is_inexact_lt_midpoint := true
  else
    if (((is_inexact_lt_midpoint0 || is_midpoint_gt_even0)) && is_midpoint_gt_even) then
      res := { res with w0 := (res.w0 + 1) }
      if (res.w0 == (0 : UInt64)) then
        res := { res with w1 := (res.w1 + 1) }
      is_midpoint_gt_even := false
      is_inexact_gt_midpoint := true
    else
      if ((((!is_midpoint_lt_even) && (!is_midpoint_gt_even)) && (!is_inexact_lt_midpoint)) && (!is_inexact_gt_midpoint)) then
        if (is_inexact_gt_midpoint0 || is_midpoint_lt_even0) then
          is_inexact_gt_midpoint := true
        if (is_inexact_lt_midpoint0 || is_midpoint_gt_even0) then
          is_inexact_lt_midpoint := true
      else
        if (is_midpoint_gt_even && ((is_inexact_gt_midpoint0 || is_midpoint_lt_even0))) then
          is_inexact_lt_midpoint := true
          is_inexact_gt_midpoint := false
          is_midpoint_lt_even := false
          is_midpoint_gt_even := false
        else
          if (is_midpoint_lt_even && ((is_inexact_lt_midpoint0 || is_midpoint_gt_even0))) then
            is_inexact_lt_midpoint := false
            is_inexact_gt_midpoint := true
            is_midpoint_lt_even := false
            is_midpoint_gt_even := false
          else
            pure ()
  tzTail rnd_mode p_sign save_fpsf res e4 is_midpoint_lt_even is_midpoint_gt_even is_inexact_lt_midpoint is_inexact_gt_midpoint pfpsf

/-- lines 43–71 of `tinyK`: fewer digits are chopped than there are — a digit-removal helper (a carry is kept as `10^(q4−x0)`
at the same exponent) -/
def tzRound (rnd_mode : RoundingMode) (p_sign : UInt64) (save_fpsf : UInt32) (res_ : U128) (e4_ q4 x0 : Int32) (incr_exp_ : Bool)
    (P128_ : U128) (is_midpoint_lt_even0 is_midpoint_gt_even0 is_inexact_lt_midpoint0 is_inexact_gt_midpoint0 : Bool)
    (pfpsf : UInt32) : Except String (U128 × Bool × Bool × Bool × Bool × UInt32) := do
  let mut res : U128 := res_
  let mut e4 : Int32 := e4_
  let mut is_midpoint_lt_even : Bool := false
  let mut is_midpoint_gt_even : Bool := false
  let mut is_inexact_lt_midpoint : Bool := false
  let mut is_inexact_gt_midpoint : Bool := false
  let mut incr_exp : Bool := incr_exp_
  let mut R64 : UInt64 := default
  let mut P128 : U128 := P128_
  if (decide (q4 ≤ (0x12 : Int32))) then
    let t__12 ← bid_round64_2_18 q4 x0 res.w0 incr_exp is_midpoint_lt_even is_midpoint_gt_even is_inexact_lt_midpoint is_inexact_gt_midpoint
    incr_exp := t__12.2.1
    is_midpoint_lt_even := t__12.2.2.1
    is_midpoint_gt_even := t__12.2.2.2.1
    is_inexact_lt_midpoint := t__12.2.2.2.2.1
    is_inexact_gt_midpoint := t__12.2.2.2.2.2
    R64 := t__12.1
    if incr_exp then
      R64 := (← tbl64 Dec.Gen.BID_TEN2K64 (UInt64.ofInt (toI ((q4 - x0)))))
    res := { res with w0 := R64 }
  else
    P128 := { P128 with w1 := res.w1 }
    P128 := { P128 with w0 := res.w0 }
    let t__13 ← bid_round128_19_38 q4 x0 P128 incr_exp is_midpoint_lt_even is_midpoint_gt_even is_inexact_lt_midpoint is_inexact_gt_midpoint
    incr_exp := t__13.2.1
    is_midpoint_lt_even := t__13.2.2.1
    is_midpoint_gt_even := t__13.2.2.2.1
    is_inexact_lt_midpoint := t__13.2.2.2.2.1
    is_inexact_gt_midpoint := t__13.2.2.2.2.2
    res := t__13.1
    if incr_exp then
      if (decide ((q4 - x0) ≤ (0x13 : Int32))) then
        res := { res with w0 := (← tbl64 Dec.Gen.BID_TEN2K64 (UInt64.ofInt (toI ((q4 - x0))))) }
      else
        res := { res with w0 := (← tbl128 Dec.Gen.BID_TEN2K128 (UInt64.ofInt (toI (((q4 - x0) - (0x14 : Int32)))))).w0 }
        res := { res with w1 := (← tbl128 Dec.Gen.BID_TEN2K128 (UInt64.ofInt (toI (((q4 - x0) - (0x14 : Int32)))))).w1 }
  e4 := (e4 + x0)
  tzRepair rnd_mode p_sign save_fpsf res e4 is_midpoint_lt_even0 is_midpoint_gt_even0 is_inexact_lt_midpoint0 is_inexact_gt_midpoint0 is_midpoint_lt_even is_midpoint_gt_even is_inexact_lt_midpoint is_inexact_gt_midpoint pfpsf

/-- lines 74–104 of `tinyK`: exactly the digits are chopped — 0 or 1 by the comparison with half a unit -/
def tzEq (rnd_mode : RoundingMode) (p_sign : UInt64) (save_fpsf : UInt32) (res_ : U128) (q4 : Int32)
    (is_midpoint_lt_even0 is_midpoint_gt_even0 is_inexact_lt_midpoint0 is_inexact_gt_midpoint0 : Bool)
    (pfpsf : UInt32) : Except String (U128 × Bool × Bool × Bool × Bool × UInt32) := do
  let mut res : U128 := res_
  let mut e4 : Int32 := default
  let mut is_midpoint_lt_even : Bool := false
  let mut is_midpoint_gt_even : Bool := false
  let mut is_inexact_lt_midpoint : Bool := false
  let mut is_inexact_gt_midpoint : Bool := false
  let mut lt_half_ulp : Bool := false
  let mut eq_half_ulp : Bool := false
  if (decide (q4 ≤ (0x13 : Int32))) then
    let t__14 : UInt64 := (← tbl64 Dec.Gen.BID_MIDPOINT64 (UInt64.ofInt (toI ((q4 - (1 : Int32))))))
    if (let value := t__14; (decide (res.w0 < value))) then
      let mut value_15 : UInt64 := t__14
      lt_half_ulp := true
      is_inexact_lt_midpoint := true
    else
      if (let value := t__14; (res.w0 == value)) then
        let mut value_16 : UInt64 := t__14
        eq_half_ulp := true
        is_midpoint_gt_even := true
      else
        is_inexact_gt_midpoint := true
  else
    if (← (if (decide (res.w1 < (← tbl128 Dec.Gen.BID_MIDPOINT128 (UInt64.ofInt (toI ((q4 - (0x14 : Int32)))))).w1)) then pure true else (do pure ((← (if (res.w1 == (← tbl128 Dec.Gen.BID_MIDPOINT128 (UInt64.ofInt (toI ((q4 - (0x14 : Int32)))))).w1) then (do pure (decide (res.w0 < (← tbl128 Dec.Gen.BID_MIDPOINT128 (UInt64.ofInt (toI ((q4 - (0x14 : Int32)))))).w0))) else pure false)))))) then
      lt_half_ulp := true
      is_inexact_lt_midpoint := true
    else
      if (← (if (res.w1 == (← tbl128 Dec.Gen.BID_MIDPOINT128 (UInt64.ofInt (toI ((q4 - (0x14 : Int32)))))).w1) then (do pure (res.w0 == (← tbl128 Dec.Gen.BID_MIDPOINT128 (UInt64.ofInt (toI ((q4 - (0x14 : Int32)))))).w0)) else pure false)) then
        eq_half_ulp := true
        is_midpoint_gt_even := true
      else
        is_inexact_gt_midpoint := true
  if (lt_half_ulp || eq_half_ulp) then
    res := { res with w1 := (0 : UInt64) }
    res := { res with w0 := (0 : UInt64) }
  else
    res := { res with w1 := (0 : UInt64) }
    res := { res with w0 := (1 : UInt64) }
  e4 := c_EXP_MIN_UNBIASED
  tzRepair rnd_mode p_sign save_fpsf res e4 is_midpoint_lt_even0 is_midpoint_gt_even0 is_inexact_lt_midpoint0 is_inexact_gt_midpoint0 is_midpoint_lt_even is_midpoint_gt_even is_inexact_lt_midpoint is_inexact_gt_midpoint pfpsf

/-- lines 149–159 of `tinyK`: the coefficient times `10^scale` (three multiplication routes), the exponent lowered -/
def tzMul (rnd_mode : RoundingMode) (p_sign : UInt64) (save_fpsf : UInt32) (res_ : U128) (e4_ q4 scale : Int32)
    (is_midpoint_lt_even is_midpoint_gt_even is_inexact_lt_midpoint is_inexact_gt_midpoint : Bool) (pfpsf : UInt32) : Except String (U128 × Bool × Bool × Bool × Bool × UInt32) := do
  let mut res : U128 := res_
  let mut e4 : Int32 := e4_
  if (scale == (0 : Int32)) then
    pure ()
  else
    if (decide (q4 ≤ (0x13 : Int32))) then
      if (decide (scale ≤ (0x13 : Int32))) then
        res := (← mul_64x64_to_128MACH res.w0 (← tbl64 Dec.Gen.BID_TEN2K64 (UInt64.ofInt (toI scale))))
      else
        res := (← mul_128x64_to_128 res.w0 (← tbl128 Dec.Gen.BID_TEN2K128 (UInt64.ofInt (toI ((scale - (0x14 : Int32)))))))
    else
      res := (← mul_128x64_to_128 (← tbl64 Dec.Gen.BID_TEN2K64 (UInt64.ofInt (toI scale))) res)
  e4 := (e4 - scale)
  tzTail rnd_mode p_sign save_fpsf res e4 is_midpoint_lt_even is_midpoint_gt_even is_inexact_lt_midpoint is_inexact_gt_midpoint pfpsf

/-- lines 144–159 of `tinyK`: tiny but at an exponent in range (an exact product): towards the preferred exponent `e3`, by
`scale = min (34 − q4) (e4 − e3)` digits -/
def tzScale (rnd_mode : RoundingMode) (p_sign : UInt64) (save_fpsf : UInt32) (res : U128) (e4 q4 e3 : Int32)
    (is_midpoint_lt_even is_midpoint_gt_even is_inexact_lt_midpoint is_inexact_gt_midpoint : Bool) (pfpsf : UInt32) : Except String (U128 × Bool × Bool × Bool × Bool × UInt32) :=
  if (decide (e3 < e4)) then
    if (decide ((e4 - e3) < (c_P34 - q4))) then
      tzMul rnd_mode p_sign save_fpsf res e4 q4 (e4 - e3) is_midpoint_lt_even is_midpoint_gt_even is_inexact_lt_midpoint is_inexact_gt_midpoint pfpsf
    else
      tzMul rnd_mode p_sign save_fpsf res e4 q4 (c_P34 - q4) is_midpoint_lt_even is_midpoint_gt_even is_inexact_lt_midpoint is_inexact_gt_midpoint pfpsf
  else
    tzTail rnd_mode p_sign save_fpsf res e4 is_midpoint_lt_even is_midpoint_gt_even is_inexact_lt_midpoint is_inexact_gt_midpoint pfpsf

/-- `tinyK`, as the composition of the pieces -/
def tzMain (res_ : U128) (e4_ q4 e3 : Int32) (pfpsf_ save_fpsf : UInt32) (p_sign : UInt64) (rnd_mode : RoundingMode)
    (incr_exp_ is_midpoint_lt_even_ is_midpoint_gt_even_ is_inexact_lt_midpoint_ is_inexact_gt_midpoint_ : Bool) (P128_ : U128)
    (k : Except String (U128 × Bool × Bool × Bool × Bool × UInt32)) : Except String (U128 × Bool × Bool × Bool × Bool × UInt32) :=
  if (decide ((q4 + e4_) < (c_EXP_MIN_UNBIASED + c_P34))) then
    if (decide (e4_ < c_EXP_MIN_UNBIASED)) then
      if (decide ((c_EXP_MIN_UNBIASED - e4_) < q4)) then
        tzRound rnd_mode p_sign save_fpsf res_ e4_ q4 (c_EXP_MIN_UNBIASED - e4_) incr_exp_ P128_ is_midpoint_lt_even_ is_midpoint_gt_even_ is_inexact_lt_midpoint_ is_inexact_gt_midpoint_ pfpsf_
      else
        if ((c_EXP_MIN_UNBIASED - e4_) == q4) then
          tzEq rnd_mode p_sign save_fpsf res_ q4 is_midpoint_lt_even_ is_midpoint_gt_even_ is_inexact_lt_midpoint_ is_inexact_gt_midpoint_ pfpsf_
        else
          tzRepair rnd_mode p_sign save_fpsf ⟨(0 : UInt64), (0 : UInt64)⟩ c_EXP_MIN_UNBIASED is_midpoint_lt_even_ is_midpoint_gt_even_ is_inexact_lt_midpoint_ is_inexact_gt_midpoint_ false false true false pfpsf_
    else
      tzScale rnd_mode p_sign save_fpsf res_ e4_ q4 e3 is_midpoint_lt_even_ is_midpoint_gt_even_ is_inexact_lt_midpoint_ is_inexact_gt_midpoint_ pfpsf_
  else k

theorem tinyK_shape (res : U128) (e4 q4 e3 : Int32) (pf save : UInt32) (p_sign : UInt64) (m : RoundingMode)
    (incr ML MG L G : Bool) (P128 : U128) (k : Except String (U128 × Bool × Bool × Bool × Bool × UInt32)) :
    tinyK res e4 q4 e3 pf save p_sign m incr ML MG L G P128 k = tzMain res e4 q4 e3 pf save p_sign m incr ML MG L G P128 k := by
  rfl


/-! ## 2. The pieces evaluated -/

theorem tzTail_rn (p_sign : UInt64) (save : UInt32) (res : U128) (e : Int32) (ML MG L G : Bool) (pf : UInt32) :
    tzTail .NearestEven p_sign save res e ML MG L G pf =
      .ok (⟨res.w0, res.w1 ||| (p_sign ||| ((UInt64.ofInt (toI (e + (0x1820 : Int32)))) <<< 0x31))⟩, ML, MG, L, G,
           tailFlags pf (((L || G) || ML) || MG) true ||| save) := by
  unfold tzTail tailFlags
  cases ML <;> cases MG <;> cases L <;> cases G <;> rfl

theorem tzTail_dir (m : RoundingMode) (hm : m ≠ .NearestEven) (p_sign : UInt64) (save : UInt32) (res : U128) (e : Int32)
    (ML MG L G : Bool) (pf : UInt32) :
    tzTail m p_sign save res e ML MG L G pf =
      (bid_rounding_correction m L G ML MG e
          ⟨res.w0, res.w1 ||| (p_sign ||| ((UInt64.ofInt (toI (e + (0x1820 : Int32)))) <<< 0x31))⟩
          (tailFlags pf (((L || G) || ML) || MG) true)).bind fun t => .ok (t.1, ML, MG, L, G, t.2 ||| save) := by
  unfold tzTail tailFlags
  have hb : (m != RoundingMode.NearestEven) = true := by simpa using hm
  simp only [hb, if_true]
  cases ML <;> cases MG <;> cases L <;> cases G <;>
    (simp only [Bool.or_false, Bool.or_true, Bool.or_self, if_true, if_false, Bool.false_eq_true]
     cases bid_rounding_correction m _ _ _ _ e _ _ with
     | error e => rfl
     | ok t => rfl)

theorem tzRepair_eval (m : RoundingMode) (p_sign : UInt64) (save : UInt32) (e : Int32) (res : U128)
    (ML0 MG0 L0 G0 ML2 MG2 L2 G2 : Bool) (f : UInt32) :
    tzRepair m p_sign save res e ML0 MG0 L0 G0 ML2 MG2 L2 G2 f =
      tzTail m p_sign save (combineW (G0 || ML0) (L0 || MG0) ⟨ML2, MG2, L2, G2⟩ res).1 e
        (combineW (G0 || ML0) (L0 || MG0) ⟨ML2, MG2, L2, G2⟩ res).2.midLtEven
        (combineW (G0 || ML0) (L0 || MG0) ⟨ML2, MG2, L2, G2⟩ res).2.midGtEven
        (combineW (G0 || ML0) (L0 || MG0) ⟨ML2, MG2, L2, G2⟩ res).2.inexLtMid
        (combineW (G0 || ML0) (L0 || MG0) ⟨ML2, MG2, L2, G2⟩ res).2.inexGtMid f := by
  cases ML0 <;> cases MG0 <;> cases L0 <;> cases G0 <;> cases ML2 <;> cases MG2 <;> cases L2 <;> cases G2 <;>
    first
    | (simp only [tzRepair, combineW, decW, incW, Bool.or_false, Bool.or_true, Bool.and_true, Bool.true_and,
           Bool.and_false, Bool.false_and, if_true, if_false, Bool.false_eq_true, Bool.or_self, Bool.and_self,
           Bool.not_true, Bool.not_false, bind, Except.bind, pure, Except.pure]; done)
    | (by_cases hc : (res.w0 - 1 == (0xffffffffffffffff : UInt64)) = true
       · simp only [tzRepair, combineW, decW, incW, hc, Bool.or_false, Bool.or_true, Bool.and_true, Bool.true_and,
           Bool.and_false, Bool.false_and, if_true, if_false, Bool.false_eq_true, Bool.or_self, Bool.and_self,
           Bool.not_true, Bool.not_false, bind, Except.bind, pure, Except.pure]
       · simp only [tzRepair, combineW, decW, incW, hc, Bool.or_false, Bool.or_true, Bool.and_true, Bool.true_and,
           Bool.and_false, Bool.false_and, if_true, if_false, Bool.false_eq_true, Bool.or_self, Bool.and_self,
           Bool.not_true, Bool.not_false, bind, Except.bind, pure, Except.pure])
    | (by_cases hc : (res.w0 + 1 == (0 : UInt64)) = true
       · simp only [tzRepair, combineW, decW, incW, hc, Bool.or_false, Bool.or_true, Bool.and_true, Bool.true_and,
           Bool.and_false, Bool.false_and, if_true, if_false, Bool.false_eq_true, Bool.or_self, Bool.and_self,
           Bool.not_true, Bool.not_false, bind, Except.bind, pure, Except.pure]
       · simp only [tzRepair, combineW, decW, incW, hc, Bool.or_false, Bool.or_true, Bool.and_true, Bool.true_and,
           Bool.and_false, Bool.false_and, if_true, if_false, Bool.false_eq_true, Bool.or_self, Bool.and_self,
           Bool.not_true, Bool.not_false, bind, Except.bind, pure, Except.pure])


theorem flags_dir' (f : UInt32) (any uf ov T : Bool) (h1 : uf = true → T = true ∧ any = true)
    (h2 : any = true → T = true) (h3 : ov = true → T = false) :
    outF any uf ov (tailFlags f any true) = f ||| UInt32.ofNat (specF any T ov) := by
  cases any <;> cases uf <;> cases ov <;> cases T <;>
    first
    | (exact absurd (h1 rfl).1 (by decide))
    | (exact absurd (h1 rfl).2 (by decide))
    | (exact absurd (h2 rfl) (by decide))
    | (exact absurd (h3 rfl) (by decide))
    | (simp only [tailFlags, outF, specF, if_true, if_false, Bool.false_eq_true, UInt32.or_assoc]
       first | rfl | (exact (UInt32.or_zero (a := f)).symm) | (congr 1; done))

theorem toNat'_bits (res : U128) : Dec.C06GenFromInt.bitsOf res = res.toNat' := by
  unfold Dec.C06GenFromInt.bitsOf U128.toNat'; ring

/-- **the tail of `tinyK` delivers `finish`** (as `aarTail_spec`, for a tiny result: the bare coefficient in `res`) -/
theorem tzTail_spec (m : RoundingMode) (s : Bool) (N : Nat) (hN : 0 < N) (E : Int) (k cf : Nat) (i : Ind)
    (h : PreTail s N E k cf i) (e : Int32) (he : e.toInt = (deliver cf (E + k)).2) (hE : E + k ≤ 10000)
    (hrn : (deliver cf (E + k)).2 ≤ 6111) (res : U128) (hres : res.toNat' = (deliver cf (E + k)).1)
    (htiny : anyI i = true → N < 10 ^ (k + 33)) (pf save : UInt32) :
    tzTail m (Dec.C02GenFmaSwap.sgnW s) save res e i.midLtEven i.midGtEven i.inexLtMid i.inexGtMid pf =
      .ok (ofBits (encode (finish (modeOf m) s N 1 E E).1), i.midLtEven, i.midGtEven, i.inexLtMid, i.inexGtMid,
           (pf ||| UInt32.ofNat (finish (modeOf m) s N 1 E E).2) ||| save) := by
  have hMax : eMax = 6111 := rfl
  have h34 : P34 < 2 ^ 113 := by decide
  obtain ⟨hfin, t1, t2, t3, t4, t5, t6⟩ := tail_math m s N hN E k cf i h _ _ rfl rfl
  generalize hc : (deliver cf (E + k)).1 = c at *
  generalize heI : (deliver cf (E + k)).2 = eI at *
  have hS : (if s = true then 1 else 0) ≤ 1 := by cases s <;> simp
  have h0 := res.w0.toNat_lt
  have hw : res.w1.toNat * 2 ^ 64 + res.w0.toNat = c := by rw [← hres]; unfold U128.toNat'; ring
  have hxe := Dec.C02GenCorrection.expField e eI he t2 (by omega)
  have hword : (⟨res.w0, res.w1 ||| (Dec.C02GenFmaSwap.sgnW s ||| ((UInt64.ofInt (toI (e + (0x1820 : Int32)))) <<< 0x31))⟩ : U128) =
      ofBits ((if s = true then 1 else 0) * 2 ^ 127 + (eI + 6176).toNat * 2 ^ 113 + c) := by
    rw [UInt64.or_comm]
    exact Dec.C17GenNext.pack_bits (Dec.C02GenFmaSwap.sgnW s) _ res.w1 res.w0 (if s = true then 1 else 0) (eI + 6176).toNat c
      (by cases s <;> rfl) hS hxe (by omega) hw (by omega)
  obtain ⟨w1, w2⟩ := word_fields (if s = true then 1 else 0) (eI + 6176).toNat c hS (by omega) (by omega)
  have w1' : negW (ofBits ((if s = true then 1 else 0) * 2 ^ 127 + (eI + 6176).toNat * 2 ^ 113 + c)).w1.toNat = s := by
    rw [w1]; cases s <;> simp
  have hany : (((i.inexLtMid || i.inexGtMid) || i.midLtEven) || i.midGtEven) = anyI i := rfl
  by_cases hm : m = .NearestEven
  · subst hm
    rw [tzTail_rn, hword, hany]
    rw [show upD .NearestEven s i.inexLtMid i.midGtEven = false from rfl,
      show downD .NearestEven s i.inexGtMid i.midLtEven = false from rfl, stepC_none] at hfin
    simp only [] at hfin
    rw [if_neg (by omega)] at hfin
    rw [hfin, encode_fin]
    simp only []
    have hflag : tailFlags pf (anyI i) true = pf ||| UInt32.ofNat
        (if anyI i = false then 0 else if N < 10 ^ (k + 33) then fUnderflow ||| fInexact else fInexact) := by
      unfold tailFlags
      by_cases ha : anyI i = true
      · rw [ha]
        simp only [if_true, Bool.true_eq_false, if_false]
        rw [if_pos (htiny ha), UInt32.or_assoc]; rfl
      · have ha' : anyI i = false := by simpa using ha
        rw [ha']
        simp only [Bool.false_eq_true, if_false, if_true]
        exact (UInt32.or_zero (a := pf)).symm
    rw [hflag]
  · rw [tzTail_dir m hm, hword, hany]
    have hev := Dec.C02GenCorrection.correction_eval m i.inexLtMid i.inexGtMid i.midLtEven i.midGtEven e _
      (tailFlags pf (anyI i) true) eI c he t2 (by omega) w2 t1 (by rw [w1']; exact fun a b => t4 a b)
    rw [w1', Dec.C02GenCorrection.outW_eq, w1'] at hev
    rw [hev]
    simp only [Except.bind]
    generalize hst : stepC (upD m s i.inexLtMid i.midGtEven) (downD m s i.inexGtMid i.midLtEven) c eI = st at *
    rw [hfin]
    have hfl := flags_dir' pf (anyI i) st.2.2 (decide (6111 < st.2.1)) (decide (N < 10 ^ (k + 33)))
      (fun hu => ⟨by simpa using (t5 hu).1, (t5 hu).2⟩) (fun ha => by simpa using htiny ha)
      (fun ho => by
        have := t6 (by rw [hMax]; simpa using ho)
        simpa using this)
    rw [show (i.inexLtMid || i.inexGtMid || i.midLtEven || i.midGtEven) = anyI i from rfl, hfl]
    by_cases hov : 6111 < st.2.1
    · rw [if_pos hov, if_pos (by rw [hMax]; exact hov), Dec.C02GenCorrection.ovfDatum_model m s hm]
      simp only [specF, decide_eq_true hov, if_true]
      rfl
    · rw [if_neg hov, if_neg (by rw [hMax]; exact hov)]
      have hsp : specF (anyI i) (decide (N < 10 ^ (k + 33))) (decide (6111 < st.2.1)) =
          (if anyI i = false then 0 else if N < 10 ^ (k + 33) then fUnderflow ||| fInexact else fInexact) := by
        simp only [specF, decide_eq_false hov, Bool.false_eq_true, if_false]
        by_cases ha : anyI i = false
        · rw [if_pos ha, if_pos ha]
        · rw [if_neg ha, if_neg ha]
          by_cases hT : N < 10 ^ (k + 33)
          · rw [decide_eq_true hT, if_pos hT]; rfl
          · rw [decide_eq_false hT, if_neg hT]; rfl
      rw [hsp]


/-! ## 3. The underflow branch -/

theorem bare_word (w0 w1 : UInt64) (c : Nat) (h : w1.toNat * 2 ^ 64 + w0.toNat = c) : (⟨w0, w1⟩ : U128) = ofBits c :=
  Dec.C06GenFromInt.eq_ofBits h

/-- when the rounding carried, `rne` is the power of ten -/
theorem spec_carry {q x C cs : Nat} {incr : Bool} {fl : Ind} (sp : Spec q x C cs incr fl) (hq : x + 1 ≤ q) :
    (incr = true → rne C x = 10 ^ (q - x) ∧ cs = 10 ^ (q - x - 1)) ∧ (incr = false → rne C x = cs) := by
  have h1 := sp.cstar_eq
  have h2 := sp.incr_iff
  constructor
  · intro hi
    have := h2.1 hi
    rw [if_pos this] at h1
    exact ⟨this, h1⟩
  · intro hi
    have : ¬ rne C x = 10 ^ (q - x) := fun h => by rw [h2.2 h] at hi; exact Bool.noConfusion hi
    rw [if_neg this] at h1
    exact h1.symm

theorem tzRound_eval (m : RoundingMode) (p_sign : UInt64) (save : UInt32) (res : U128) (c1 : Nat) (hres : res.toNat' = c1)
    (q4 x0 : Int32) (q4n x2 : Nat) (hq : q4.toInt = q4n) (hx0 : x0.toInt = x2) (hx1 : 1 ≤ x2) (hx2 : x2 + 1 ≤ q4n)
    (h34 : q4n ≤ 34) (hc1 : c1 < 10 ^ q4n) (e4 : Int32) (incr : Bool) (P128 : U128) (ML0 MG0 L0 G0 : Bool) (pf : UInt32) :
    tzRound m p_sign save res e4 q4 x0 incr P128 ML0 MG0 L0 G0 pf =
      tzRepair m p_sign save (ofBits (rne c1 x2)) (e4 + x0) ML0 MG0 L0 G0
        (specInd (c1 / 10 ^ x2) (c1 % 10 ^ x2) (10 ^ x2 / 2)).midLtEven
        (specInd (c1 / 10 ^ x2) (c1 % 10 ^ x2) (10 ^ x2 / 2)).midGtEven
        (specInd (c1 / 10 ^ x2) (c1 % 10 ^ x2) (10 ^ x2 / 2)).inexLtMid
        (specInd (c1 / 10 ^ x2) (c1 % 10 ^ x2) (10 ^ x2 / 2)).inexGtMid pf := by
  have hi := i32_eq_ofNat q4 q4n hq
  have hx := i32_eq_ofNat x0 x2 hx0
  have hsub : (q4 - x0).toInt = ((q4n - x2 : Nat) : Int) := i32_sub q4 q4n x2 hq x0 hx0 (by omega)
  have hidx := idx_of (q4 - x0) (q4n - x2) hsub
  have hw0 := res.w0.toNat_lt
  have hrl := rne_lt c1 x2 q4n hx1 hc1 h34
  unfold U128.toNat' at hres
  unfold tzRound
  by_cases h18 : q4n ≤ 18
  · have hd : decide (q4 ≤ (0x12 : Int32)) = true := by
      rw [i32_le, hq, decide_eq_true_eq, show (0x12 : Int32).toInt = 18 from rfl]; omega
    have hp18 : c1 < 10 ^ 18 := lt_of_lt_of_le hc1 (Nat.pow_le_pow_right (by decide) h18)
    have h1864 : (10 : Nat) ^ 18 < 2 ^ 64 := by norm_num
    have hhi : res.w1.toNat = 0 := by omega
    have hhi' : res.w1 = 0 := by rw [← UInt64.toNat_inj, hhi]; rfl
    have hlo : res.w0.toNat = c1 := by omega
    obtain ⟨cs, incr2, lt, gt, ilt, igt, hcall, sp⟩ := Dec.C02GenRound.bid_round64_2_18_spec q4n x2 res.w0 (by omega) h18 hx1 hx2
      (by rw [hlo]; exact hc1)
    rw [← hi, ← hx] at hcall
    rw [hlo] at sp
    have hfl := spec_ind sp
    obtain ⟨hcy, hnc⟩ := spec_carry sp hx2
    simp only [hd, if_true, round64_incr, hcall, bind, Except.bind, pure, Except.pure]
    rw [← hfl]
    cases incr2
    · simp only [Bool.false_eq_true, if_false]
      rw [bare_word cs res.w1 (rne c1 x2) (by rw [hhi, hnc rfl]; simp)]
    · simp only [if_true, hidx, ten2k64_get (q4n - x2) (by omega)]
      rw [bare_word _ res.w1 (rne c1 x2) (by rw [hhi, (hcy rfl).1, ofNat_pow_toNat _ (by omega)]; simp)]
  · have hd : decide (q4 ≤ (0x12 : Int32)) = false := by
      rw [i32_le, hq, decide_eq_false_iff_not, show (0x12 : Int32).toInt = 18 from rfl]; omega
    have hv1 : Dec.C02GenRound.v128 ⟨res.w0, res.w1⟩ = c1 := by
      show res.w0.toNat + 2 ^ 64 * res.w1.toNat = c1
      exact hres
    obtain ⟨cs, incr2, lt, gt, ilt, igt, hcall, sp⟩ := Dec.C02GenRound.bid_round128_19_38_spec q4n x2
      ⟨res.w0, res.w1⟩ (by omega) (by omega) hx1 hx2 (by rw [hv1]; exact hc1)
    rw [← hi, ← hx] at hcall
    rw [hv1] at sp
    have hfl := spec_ind sp
    obtain ⟨hcy, hnc⟩ := spec_carry sp hx2
    simp only [hd, if_false, Bool.false_eq_true, round128_incr, hcall, bind, Except.bind, pure, Except.pure]
    rw [← hfl]
    have c0 := cs.w0.toNat_lt
    unfold Dec.C02GenRound.v128 at hcy hnc
    cases incr2
    · simp only [Bool.false_eq_true, if_false]
      rw [show cs = ofBits (rne c1 x2) from Dec.C06GenFromInt.eq_ofBits (by unfold Dec.C06GenFromInt.bitsOf; rw [hnc rfl]; ring)]
    · simp only [if_true]
      obtain ⟨hr, hcsv⟩ := hcy rfl
      by_cases h19 : q4n - x2 ≤ 19
      · have hd2 : decide ((q4 - x0) ≤ (0x13 : Int32)) = true := by
          rw [i32_le, hsub, decide_eq_true_eq, show (0x13 : Int32).toInt = 19 from rfl]; omega
        simp only [hd2, if_true, hidx, ten2k64_get (q4n - x2) (by omega)]
        have hcs1 : cs.w1.toNat = 0 := by
          have : (10 : Nat) ^ (q4n - x2 - 1) ≤ 10 ^ 18 := Nat.pow_le_pow_right (by decide) (by omega)
          have : (10 : Nat) ^ 18 < 2 ^ 64 := by norm_num
          omega
        rw [bare_word _ cs.w1 (rne c1 x2) (by rw [hcs1, hr, ofNat_pow_toNat _ (by omega)]; simp)]
      · have hd2 : decide ((q4 - x0) ≤ (0x13 : Int32)) = false := by
          rw [i32_le, hsub, decide_eq_false_iff_not, show (0x13 : Int32).toInt = 19 from rfl]; omega
        have hsub2 : ((q4 - x0) - (0x14 : Int32)).toInt = ((q4n - x2 - 20 : Nat) : Int) :=
          i32_sub (q4 - x0) (q4n - x2) 20 hsub 0x14 rfl (by omega)
        have hidx2 := idx_of ((q4 - x0) - (0x14 : Int32)) (q4n - x2 - 20) hsub2
        simp only [hd2, if_false, Bool.false_eq_true, hidx2, ten2k128_get (q4n - x2 - 20) (by omega)]
        have hp : (10 : Nat) ^ (q4n - x2 - 20 + 20) < 2 ^ 128 :=
          lt_of_le_of_lt (Nat.pow_le_pow_right (by decide) (by omega : q4n - x2 - 20 + 20 ≤ 38)) (by norm_num)
        have hmk := mk128_val _ hp
        unfold U128.toNat' at hmk
        rw [bare_word _ _ (rne c1 x2) (by rw [hr, show q4n - x2 = q4n - x2 - 20 + 20 by omega, ← hmk, show q4n - x2 - 20 + 20 - 20 = q4n - x2 - 20 by omega]; ring)]


/-- all `q` digits are chopped: 0 or 1 by the comparison with half a unit (before the repair) -/
def eqOut (c1 half : Nat) : Nat × Ind :=
  if c1 < half then (0, ⟨false, false, true, false⟩)
  else if c1 = half then (0, ⟨false, true, false, false⟩) else (1, ⟨false, false, false, true⟩)

theorem tzEq_eval (m : RoundingMode) (p_sign : UInt64) (save : UInt32) (res : U128) (c1 : Nat) (hres : res.toNat' = c1)
    (q4 : Int32) (q4n : Nat) (hq : q4.toInt = q4n) (h1 : 1 ≤ q4n) (h34 : q4n ≤ 34) (hc1 : c1 < 10 ^ q4n)
    (ML0 MG0 L0 G0 : Bool) (pf : UInt32) :
    tzEq m p_sign save res q4 ML0 MG0 L0 G0 pf =
      tzRepair m p_sign save (ofBits (eqOut c1 (5 * 10 ^ (q4n - 1))).1) c_EXP_MIN_UNBIASED ML0 MG0 L0 G0
        (eqOut c1 (5 * 10 ^ (q4n - 1))).2.midLtEven (eqOut c1 (5 * 10 ^ (q4n - 1))).2.midGtEven
        (eqOut c1 (5 * 10 ^ (q4n - 1))).2.inexLtMid (eqOut c1 (5 * 10 ^ (q4n - 1))).2.inexGtMid pf := by
  have hw0 := res.w0.toNat_lt
  have p0 : (⟨0, 0⟩ : U128) = ofBits 0 := rfl
  have p1 : (⟨1, 0⟩ : U128) = ofBits 1 := rfl
  unfold U128.toNat' at hres
  unfold tzEq eqOut
  by_cases h19 : q4n ≤ 19
  · have hd : decide (q4 ≤ (0x13 : Int32)) = true := by
      rw [i32_le, hq, decide_eq_true_eq, show (0x13 : Int32).toInt = 19 from rfl]; omega
    have hidx := idx_of (q4 - 1) (q4n - 1) (i32_sub q4 q4n 1 hq 1 rfl h1)
    have hp : 5 * 10 ^ (q4n - 1) < 2 ^ 64 := by
      have : 10 ^ (q4n - 1) ≤ 10 ^ 18 := Nat.pow_le_pow_right (by decide) (by omega)
      have : (5 : Nat) * 10 ^ 18 < 2 ^ 64 := by norm_num
      omega
    have hp19 : c1 < 10 ^ 19 := lt_of_lt_of_le hc1 (Nat.pow_le_pow_right (by decide) h19)
    have hlo : res.w0.toNat = c1 := by
      have : (10 : Nat) ^ 19 < 2 ^ 64 := by norm_num
      omega
    have hv : (UInt64.ofNat (5 * 10 ^ (q4n - 1))).toNat = 5 * 10 ^ (q4n - 1) := by
      rw [UInt64.toNat_ofNat', Nat.mod_eq_of_lt hp]
    simp only [hd, if_true, hidx, mid64_get (q4n - 1) (by omega), bind, Except.bind, pure, Except.pure]
    generalize 5 * 10 ^ (q4n - 1) = half at *
    by_cases a : c1 < half
    · have a' : res.w0 < UInt64.ofNat half := by rw [UInt64.lt_iff_toNat_lt, hv, hlo]; exact a
      simp only [a, a', decide_true, if_true, Bool.true_or, p0]
    · have a' : ¬ res.w0 < UInt64.ofNat half := by rw [UInt64.lt_iff_toNat_lt, hv, hlo]; exact a
      simp only [a, a', decide_false, Bool.false_eq_true, if_false]
      by_cases b : c1 = half
      · have b' : (res.w0 == UInt64.ofNat half) = true := by rw [beq_iff_eq, ← UInt64.toNat_inj, hv, hlo]; exact b
        simp only [b, b', if_true, Bool.or_true, p0]
      · have b' : (res.w0 == UInt64.ofNat half) = false := by
          rw [beq_eq_false_iff_ne, ne_eq, ← UInt64.toNat_inj, hv, hlo]; exact b
        simp only [b, b', Bool.false_eq_true, if_false, Bool.or_self, p1]
  · have hd : decide (q4 ≤ (0x13 : Int32)) = false := by
      rw [i32_le, hq, decide_eq_false_iff_not, show (0x13 : Int32).toInt = 19 from rfl]; omega
    have hidx := idx_of (q4 - 0x14) (q4n - 20) (i32_sub q4 q4n 20 hq 0x14 rfl (by omega))
    have hp : 5 * 10 ^ (q4n - 1) < 2 ^ 128 := by
      have : 10 ^ (q4n - 1) ≤ 10 ^ 33 := Nat.pow_le_pow_right (by decide) (by omega)
      have : (5 : Nat) * 10 ^ 33 < 2 ^ 128 := by norm_num
      omega
    have hexp : q4n - 20 + 19 = q4n - 1 := by omega
    have hmv := mk128_val _ hp
    have hm0 := (mk128 (5 * 10 ^ (q4n - 1))).w0.toNat_lt
    unfold U128.toNat' at hmv
    simp only [hd, if_false, Bool.false_eq_true, hidx, mid128_get (q4n - 20) (by omega), hexp, bind, Except.bind, pure,
      Except.pure]
    generalize 5 * 10 ^ (q4n - 1) = half at *
    generalize mk128 half = M at *
    generalize res.w1 = hiW at *
    by_cases a : c1 < half
    · rw [if_pos a]
      have t : (if decide (hiW < M.w1) = true then (Except.ok true : Except String Bool)
          else if (hiW == M.w1) = true then Except.ok (decide (res.w0 < M.w0)) else Except.ok false) = Except.ok true := by
        by_cases a1 : hiW < M.w1
        · simp only [a1, decide_true, if_true]
        · simp only [a1, decide_false, Bool.false_eq_true, if_false]
          rw [UInt64.lt_iff_toNat_lt] at a1
          have a2 : (hiW == M.w1) = true := by rw [beq_iff_eq, ← UInt64.toNat_inj]; omega
          have a3 : res.w0 < M.w0 := by
            rw [beq_iff_eq, ← UInt64.toNat_inj] at a2; rw [UInt64.lt_iff_toNat_lt]; omega
          simp only [a2, if_true, a3, decide_true]
      rw [t]
      simp only [if_true, Bool.true_or, p0]
    · rw [if_neg a]
      have t : (if decide (hiW < M.w1) = true then (Except.ok true : Except String Bool)
          else if (hiW == M.w1) = true then Except.ok (decide (res.w0 < M.w0)) else Except.ok false) = Except.ok false := by
        by_cases a1 : hiW < M.w1
        · rw [UInt64.lt_iff_toNat_lt] at a1; omega
        · simp only [a1, decide_false, Bool.false_eq_true, if_false]
          rw [UInt64.lt_iff_toNat_lt] at a1
          by_cases a2 : (hiW == M.w1) = true
          · have a3 : ¬ res.w0 < M.w0 := by
              rw [beq_iff_eq, ← UInt64.toNat_inj] at a2; rw [UInt64.lt_iff_toNat_lt]; omega
            simp only [a2, if_true, a3, decide_false]
          · simp only [a2, Bool.false_eq_true, if_false]
      rw [t]
      simp only [Bool.false_eq_true, if_false]
      by_cases b : c1 = half
      · rw [if_pos b]
        have t2 : (if (hiW == M.w1) = true then (Except.ok (res.w0 == M.w0) : Except String Bool) else Except.ok false)
            = Except.ok true := by
          have b1 : (hiW == M.w1) = true := by rw [beq_iff_eq, ← UInt64.toNat_inj]; omega
          have b2 : (res.w0 == M.w0) = true := by
            rw [beq_iff_eq, ← UInt64.toNat_inj] at b1 ⊢; omega
          simp only [b1, if_true, b2]
        rw [t2]
        simp only [if_true, Bool.or_true, p0]
      · rw [if_neg b]
        have t2 : (if (hiW == M.w1) = true then (Except.ok (res.w0 == M.w0) : Except String Bool) else Except.ok false)
            = Except.ok false := by
          by_cases b1 : (hiW == M.w1) = true
          · have b2 : (res.w0 == M.w0) = false := by
              rw [beq_iff_eq, ← UInt64.toNat_inj] at b1
              rw [beq_eq_false_iff_ne, ne_eq, ← UInt64.toNat_inj]; omega
            simp only [b1, if_true, b2]
          · simp only [b1, Bool.false_eq_true, if_false]
        rw [t2]
        simp only [Bool.false_eq_true, if_false, Bool.or_self, p1]


/-- chopping at least all the digits of `c1`: quotient 0, remainder `c1` -/
theorem rne_small (c1 x : Nat) (hx : 1 ≤ x) (hc : c1 < 10 ^ x) :
    rne c1 x = (if c1 ≤ 10 ^ x / 2 then 0 else 1) ∧
    specInd (c1 / 10 ^ x) (c1 % 10 ^ x) (10 ^ x / 2) =
      ⟨false, decide (c1 = 10 ^ x / 2), decide (0 < c1 ∧ c1 < 10 ^ x / 2), decide (10 ^ x / 2 < c1)⟩ := by
  have hr := rne_eq c1 x hx
  rw [Nat.div_eq_of_lt hc, Nat.mod_eq_of_lt hc] at hr ⊢
  constructor
  · rw [hr]
    by_cases a : c1 < 10 ^ x / 2
    · rw [if_pos a, if_pos (by omega)]
    · rw [if_neg a]
      by_cases b : 10 ^ x / 2 < c1
      · rw [if_pos b, if_neg (by omega)]
      · rw [if_neg b, if_pos (by decide), if_pos (by omega)]
  · simp only [specInd, Ind.mk.injEq]
    refine ⟨?_, ?_, trivial, trivial⟩
    · rw [decide_eq_false_iff_not]; intro h; exact absurd h.2 (by decide)
    · rw [decide_eq_decide]; exact ⟨fun h => h.1, fun h => ⟨h, trivial⟩⟩

theorem eqOut_eq (c1 q : Nat) (hq : 1 ≤ q) (h0 : 0 < c1) (hc : c1 < 10 ^ q) :
    eqOut c1 (5 * 10 ^ (q - 1)) = (rne c1 q, specInd (c1 / 10 ^ q) (c1 % 10 ^ q) (10 ^ q / 2)) := by
  obtain ⟨r1, r2⟩ := rne_small c1 q hq hc
  have hh : 10 ^ q / 2 = 5 * 10 ^ (q - 1) := by
    obtain ⟨y, rfl⟩ : ∃ y, q = y + 1 := ⟨q - 1, by omega⟩
    rw [Nat.pow_succ, show y + 1 - 1 = y by omega]; omega
  rw [r1, r2, hh]
  unfold eqOut
  generalize 5 * 10 ^ (q - 1) = half
  by_cases a : c1 < half
  · rw [if_pos a, if_pos (by omega)]
    simp only [Prod.mk.injEq, Ind.mk.injEq, true_and]
    refine ⟨?_, ?_, ?_⟩ <;> (symm; first | (rw [decide_eq_false_iff_not]; omega) | (rw [decide_eq_true_eq]; omega))
  · rw [if_neg a]
    by_cases b : c1 = half
    · rw [if_pos b, if_pos (by omega)]
      simp only [Prod.mk.injEq, Ind.mk.injEq, true_and]
      refine ⟨?_, ?_, ?_⟩ <;> (symm; first | (rw [decide_eq_false_iff_not]; omega) | (rw [decide_eq_true_eq]; omega))
    · rw [if_neg b, if_neg (by omega)]
      simp only [Prod.mk.injEq, Ind.mk.injEq, true_and]
      refine ⟨?_, ?_, ?_⟩ <;> (symm; first | (rw [decide_eq_false_iff_not]; omega) | (rw [decide_eq_true_eq]; omega))

theorem zeroOut_eq (c1 q x : Nat) (hqx : q < x) (h0 : 0 < c1) (hc : c1 < 10 ^ q) :
    ((0 : Nat), (⟨false, false, true, false⟩ : Ind)) = (rne c1 x, specInd (c1 / 10 ^ x) (c1 % 10 ^ x) (10 ^ x / 2)) := by
  obtain ⟨y, rfl⟩ : ∃ y, x = y + 1 := ⟨x - 1, by omega⟩
  have hp : 10 ^ q ≤ 10 ^ y := Nat.pow_le_pow_right (by decide) (by omega)
  have hs : 10 ^ (y + 1) = 10 * 10 ^ y := by rw [Nat.pow_succ]; ring
  obtain ⟨r1, r2⟩ := rne_small c1 (y + 1) (by omega) (by omega)
  rw [r1, r2, if_pos (by omega)]
  simp only [Prod.mk.injEq, Ind.mk.injEq, true_and]
  refine ⟨?_, ?_, ?_⟩ <;> (symm; first | (rw [decide_eq_false_iff_not]; omega) | (rw [decide_eq_true_eq]; omega))


/-- **the underflow branch of `tinyK` delivers `finish`.**  The first stage left the coefficient `c1 > 0` (`< 10^q4n`, `q4n ≤ 34`)
at the exponent `E + kd` below the least one, within half a unit of the exact magnitude `N·10^E`, the indicators saying on which
side.  Whatever arm is taken (helper, comparison with the midpoint, zero), the result is `finish (mode) sign N 1 E E`. -/
theorem tzUF_spec (m : RoundingMode) (s : Bool) (N : Nat) (hN : 0 < N) (E : Int) (kd c1 q4n : Nat)
    (hcl : 2 * N ≤ 2 * (c1 * 10 ^ kd) + 10 ^ kd ∧ 2 * (c1 * 10 ^ kd) ≤ 2 * N + 10 ^ kd)
    (ML0 MG0 L0 G0 : Bool) (hup : (G0 || ML0) = decide (N < c1 * 10 ^ kd)) (hdn : (L0 || MG0) = decide (c1 * 10 ^ kd < N))
    (hc0 : 0 < c1) (hc1 : c1 < 10 ^ q4n) (hq1 : 1 ≤ q4n) (h34 : q4n ≤ 34)
    (res : U128) (hres : res.toNat' = c1) (e4 q4 e3 : Int32) (he4 : e4.toInt = E + kd) (hq : q4.toInt = q4n)
    (he : E + kd < -6176) (helo : -1000000000 ≤ E + kd) (pf save : UInt32) (incr : Bool) (P128 : U128)
    (k : Except String (U128 × Bool × Bool × Bool × Bool × UInt32)) :
    ∃ i : Ind,
      tzMain res e4 q4 e3 pf save (Dec.C02GenFmaSwap.sgnW s) m incr ML0 MG0 L0 G0 P128 k =
        .ok (ofBits (encode (finish (modeOf m) s N 1 E E).1), i.midLtEven, i.midGtEven, i.inexLtMid, i.inexGtMid,
             (pf ||| UInt32.ofNat (finish (modeOf m) s N 1 E E).2) ||| save) := by
  obtain ⟨x2, hx2⟩ : ∃ x2 : Nat, (x2 : Int) = -6176 - (E + kd) := ⟨(-6176 - (E + kd)).toNat, by omega⟩
  have hx1 : 1 ≤ x2 := by clear * - hx2 he; omega
  have hMin : eMin = -6176 := rfl
  have hmin : c_EXP_MIN_UNBIASED.toInt = -6176 := by decide
  have hx0 : (c_EXP_MIN_UNBIASED - e4).toInt = x2 := by
    rw [Int32.toInt_sub, hmin, he4, bmod32 _ (by clear * - helo he; omega) (by clear * - helo he; omega)]
    clear * - hx2; omega
  have hesum : e4 + (c_EXP_MIN_UNBIASED - e4) = c_EXP_MIN_UNBIASED := by
    rw [← Int32.toInt_inj, Int32.toInt_add, hx0, he4, hmin, bmod32 _ (by clear * - hx2; omega) (by clear * - hx2; omega)]
    clear * - hx2; omega
  -- the tests
  have ct : decide ((q4 + e4) < (c_EXP_MIN_UNBIASED + c_P34)) = true := by
    rw [i32_lt, decide_eq_true_eq, show (c_EXP_MIN_UNBIASED + c_P34).toInt = -6142 from by decide, Int32.toInt_add, hq, he4,
      bmod32 _ (by clear * - helo he h34; omega) (by clear * - helo he h34; omega)]
    clear * - he h34; omega
  have ce : decide (e4 < c_EXP_MIN_UNBIASED) = true := by
    rw [i32_lt, decide_eq_true_eq, hmin, he4]; exact he
  have c1' : decide ((c_EXP_MIN_UNBIASED - e4) < q4) = decide (x2 < q4n) := by
    rw [i32_lt, hx0, hq, decide_eq_decide]; clear * -; omega
  have c2' : ((c_EXP_MIN_UNBIASED - e4) == q4) = decide (x2 = q4n) := i32_beq_nat _ q4 x2 q4n hx0 hq
  -- the three arms give the same thing
  have harm : tzMain res e4 q4 e3 pf save (Dec.C02GenFmaSwap.sgnW s) m incr ML0 MG0 L0 G0 P128 k =
      tzRepair m (Dec.C02GenFmaSwap.sgnW s) save (ofBits (rne c1 x2)) c_EXP_MIN_UNBIASED ML0 MG0 L0 G0
        (specInd (c1 / 10 ^ x2) (c1 % 10 ^ x2) (10 ^ x2 / 2)).midLtEven
        (specInd (c1 / 10 ^ x2) (c1 % 10 ^ x2) (10 ^ x2 / 2)).midGtEven
        (specInd (c1 / 10 ^ x2) (c1 % 10 ^ x2) (10 ^ x2 / 2)).inexLtMid
        (specInd (c1 / 10 ^ x2) (c1 % 10 ^ x2) (10 ^ x2 / 2)).inexGtMid pf := by
    unfold tzMain
    rw [ct, ce, c1', c2']
    clear ct ce c1' c2'
    simp only [if_true]
    by_cases a : x2 < q4n
    · simp only [a, decide_true, if_true]
      rw [tzRound_eval m (Dec.C02GenFmaSwap.sgnW s) save res c1 hres q4 (c_EXP_MIN_UNBIASED - e4) q4n x2 hq hx0 hx1 (by clear * - a; omega) h34 hc1, hesum]
    · simp only [a, decide_false, Bool.false_eq_true, if_false]
      by_cases b : x2 = q4n
      · simp only [b, decide_true, if_true]
        rw [tzEq_eval m _ save res c1 hres q4 q4n hq hq1 h34 hc1, eqOut_eq c1 q4n hq1 hc0 hc1]
      · simp only [b, decide_false, Bool.false_eq_true, if_false]
        have hz := zeroOut_eq c1 q4n x2 (by clear * - a b; omega) hc0 hc1
        rw [← (Prod.mk.inj hz).1, ← (Prod.mk.inj hz).2]
        rfl
  rw [harm, tzRepair_eval]
  clear harm ct ce c1' c2' hesum hx0
  have hD : 0 < 10 ^ kd := Nat.pow_pos (by decide)
  have hrl : rne c1 x2 < 10 ^ 34 := rne_lt c1 x2 q4n hx1 hc1 h34
  have hc2 : rne c1 x2 + 1 < 2 ^ 113 := lt_of_le_of_lt (Nat.succ_le_of_lt hrl) (by norm_num)
  have hcw := combineW_ofBits (G0 || ML0) (L0 || MG0) (specInd (c1 / 10 ^ x2) (c1 % 10 ^ x2) (10 ^ x2 / 2)) 0 (rne c1 x2)
    (by omega) hc2 (fun hh => ml_pos c1 x2 hx1 (by revert hh; cases (G0 || ML0) <;> simp))
  rw [Nat.zero_mul, Nat.zero_add, Nat.zero_add] at hcw
  rw [show (⟨(specInd (c1 / 10 ^ x2) (c1 % 10 ^ x2) (10 ^ x2 / 2)).midLtEven, (specInd (c1 / 10 ^ x2) (c1 % 10 ^ x2) (10 ^ x2 / 2)).midGtEven,
      (specInd (c1 / 10 ^ x2) (c1 % 10 ^ x2) (10 ^ x2 / 2)).inexLtMid, (specInd (c1 / 10 ^ x2) (c1 % 10 ^ x2) (10 ^ x2 / 2)).inexGtMid⟩ : Ind) =
      specInd (c1 / 10 ^ x2) (c1 % 10 ^ x2) (10 ^ x2 / 2) from rfl, hcw]
  simp only []
  obtain ⟨z1, z2⟩ := two_step s N (10 ^ kd) c1 x2 hD hx1 hcl _ _ hup hdn
  rw [← Nat.pow_add] at z1 z2
  generalize combine (G0 || ML0) (L0 || MG0) (specInd (c1 / 10 ^ x2) (c1 % 10 ^ x2) (10 ^ x2 / 2)) (rne c1 x2) = st at *
  have h33 : N < 10 ^ (kd + x2 + 33) := by
    have h1 : (c1 + 1) * 10 ^ kd ≤ 10 ^ q4n * 10 ^ kd := Nat.mul_le_mul_right _ (by omega)
    rw [Nat.add_mul, Nat.one_mul, ← Nat.pow_add] at h1
    have h2 : (10 : Nat) ^ (q4n + kd) ≤ 10 ^ (kd + x2 + 33) := Nat.pow_le_pow_right (by decide) (by omega)
    omega
  have hEk : E + ((kd + x2 : Nat) : Int) = -6176 := by clear * - hx2; push_cast; omega
  have hpt : PreTail s N E (kd + x2) st.1 st.2 :=
    pretail_of_pos s N E (kd + x2) st.1 st.2 z1 z2 (Or.inr (Or.inl ⟨by omega, by rw [hEk]; rfl, h33⟩))
  have hcf := cf_le_of_tiny s N _ _ hpt.rne h33
  have hdel : deliver st.1 (E + ((kd + x2 : Nat) : Int)) = (st.1, -6176) := by
    unfold deliver
    rw [if_neg (by rw [Dec.C13PackHelpers.P34_eq']; omega), hEk]
  have hb : (ofBits st.1).toNat' = st.1 := by
    rw [← toNat'_bits, Dec.C06GenFromInt.bitsOf_ofBits (lt_of_le_of_lt hcf (by norm_num))]
  have := tzTail_spec m s N hN E (kd + x2) st.1 st.2 hpt c_EXP_MIN_UNBIASED (by rw [hdel]; exact hmin) (by rw [hEk]; decide)
    (by rw [hdel]; show (-6176 : Int) ≤ 6111; decide) (ofBits st.1) (by rw [hdel]; exact hb) (fun _ => h33) pf save
  exact ⟨st.2, this⟩


/-! ## 4. Tiny but in range: the preferred exponent -/

theorem word_of_val (r : U128) (c : Nat) (h : r.toNat' = c) : r = ofBits c :=
  Dec.C06GenFromInt.eq_ofBits (by rw [toNat'_bits, h])

theorem tzMul_eval (m : RoundingMode) (p_sign : UInt64) (save : UInt32) (res : U128) (N : Nat) (hres : res.toNat' = N)
    (q4 scale : Int32) (q4n sc : Nat) (hq : q4.toInt = q4n) (hsc : scale.toInt = sc) (hN : N < 10 ^ q4n)
    (hfit : q4n + sc ≤ 34) (e4 : Int32) (ML MG L G : Bool) (pf : UInt32) :
    tzMul m p_sign save res e4 q4 scale ML MG L G pf =
      tzTail m p_sign save (ofBits (N * 10 ^ sc)) (e4 - scale) ML MG L G pf := by
  have hprod : N * 10 ^ sc < 10 ^ 34 :=
    lt_of_lt_of_le (Nat.mul_lt_mul_of_pos_right hN (Nat.pow_pos (by decide)))
      (by rw [← Nat.pow_add]; exact Nat.pow_le_pow_right (by decide) hfit)
  have h128 : (10 : Nat) ^ 34 < 2 ^ 128 := by norm_num
  have hw0 := res.w0.toNat_lt
  unfold tzMul
  by_cases h0 : sc = 0
  · have c0 : (scale == (0 : Int32)) = true := by rw [i32_beq0, hsc, h0]; rfl
    simp only [c0, if_true]
    rw [h0, Nat.pow_zero, Nat.mul_one, ← word_of_val res N hres]
  have c0 : (scale == (0 : Int32)) = false := by rw [i32_beq0, hsc, decide_eq_false_iff_not]; omega
  have hidx := idx_of scale sc hsc
  by_cases h19 : q4n ≤ 19
  · have cq : decide (q4 ≤ (0x13 : Int32)) = true := by
      rw [i32_le, hq, decide_eq_true_eq, show (0x13 : Int32).toInt = 19 from rfl]; omega
    have hlo : res.w0.toNat = N := by
      have : N < 10 ^ 19 := lt_of_lt_of_le hN (Nat.pow_le_pow_right (by decide) h19)
      have : (10 : Nat) ^ 19 < 2 ^ 64 := by norm_num
      unfold U128.toNat' at hres
      omega
    by_cases hs19 : sc ≤ 19
    · have cs : decide (scale ≤ (0x13 : Int32)) = true := by
        rw [i32_le, hsc, decide_eq_true_eq, show (0x13 : Int32).toInt = 19 from rfl]; omega
      obtain ⟨r, hcall, hval⟩ := Dec.C01GenArith.gen_mul_64x64_to_128MACH res.w0 (UInt64.ofNat (10 ^ sc))
      rw [hlo, ofNat_pow_toNat sc (by omega)] at hval
      simp only [c0, cq, cs, Bool.false_eq_true, if_false, if_true, hidx, ten2k64_get sc (by omega)]
      rw [ok_bind, hcall, ok_bind, word_of_val r _ hval]
    · have cs : decide (scale ≤ (0x13 : Int32)) = false := by
        rw [i32_le, hsc, decide_eq_false_iff_not, show (0x13 : Int32).toInt = 19 from rfl]; omega
      have hi2 : UInt64.ofInt (toI (scale - (0x14 : Int32))) = UInt64.ofNat (sc - 20) :=
        idx_of _ _ (i32_sub scale sc 20 hsc 0x14 rfl (by omega))
      obtain ⟨r, hcall, hval⟩ := Dec.C01GenArith.gen_mul_128x64_to_128 res.w0 (mk128 (10 ^ (sc - 20 + 20)))
      rw [hlo, mk128_val _ (lt_of_le_of_lt (Nat.pow_le_pow_right (by decide) (by omega : sc - 20 + 20 ≤ 38)) (by norm_num)),
        show sc - 20 + 20 = sc by omega, Nat.mod_eq_of_lt (by omega)] at hval
      simp only [c0, cq, cs, Bool.false_eq_true, if_false, if_true, hi2, ten2k128_get (sc - 20) (by omega)]
      rw [ok_bind, hcall, ok_bind, word_of_val r _ hval]
  · have cq : decide (q4 ≤ (0x13 : Int32)) = false := by
      rw [i32_le, hq, decide_eq_false_iff_not, show (0x13 : Int32).toInt = 19 from rfl]; omega
    obtain ⟨r, hcall, hval⟩ := Dec.C01GenArith.gen_mul_128x64_to_128 (UInt64.ofNat (10 ^ sc)) res
    rw [hres, ofNat_pow_toNat sc (by omega), Nat.mul_comm, Nat.mod_eq_of_lt (by omega)] at hval
    simp only [c0, cq, Bool.false_eq_true, if_false, if_true, hidx, ten2k64_get sc (by omega)]
    rw [ok_bind, hcall, ok_bind, word_of_val r _ hval]


/-- the scaling amount: none if the preferred exponent is not below, else as far as 34 digits and the preferred exponent allow -/
def prefScale (q4n : Nat) (E e3I : Int) : Nat := if e3I < E then min (34 - q4n) (E - e3I).toNat else 0

theorem tzScale_eval (m : RoundingMode) (p_sign : UInt64) (save : UInt32) (res : U128) (N : Nat) (hres : res.toNat' = N)
    (e4 q4 e3 : Int32) (q4n : Nat) (E e3I : Int) (hq : q4.toInt = q4n) (he4 : e4.toInt = E) (he3 : e3.toInt = e3I)
    (hN : N < 10 ^ q4n) (h34 : q4n ≤ 34) (hE : -100000 ≤ E ∧ E ≤ 100000) (he3b : -100000 ≤ e3I ∧ e3I ≤ 100000)
    (ML MG L G : Bool) (pf : UInt32) :
    ∃ e' : Int32, e'.toInt = E - (prefScale q4n E e3I : Nat) ∧
      tzScale m p_sign save res e4 q4 e3 ML MG L G pf =
        tzTail m p_sign save (ofBits (N * 10 ^ prefScale q4n E e3I)) e' ML MG L G pf := by
  unfold tzScale prefScale
  have h1 : decide (e3 < e4) = decide (e3I < E) := by rw [i32_lt, he3, he4]
  have hd : (e4 - e3).toInt = E - e3I := by
    rw [Int32.toInt_sub, he4, he3, bmod32 _ (by omega) (by omega)]
  have hs : (c_P34 - q4).toInt = ((34 - q4n : Nat) : Int) := by
    rw [Int32.toInt_sub, hq, show c_P34.toInt = 34 from rfl, bmod32 _ (by omega) (by omega)]; omega
  have h2 : decide ((e4 - e3) < (c_P34 - q4)) = decide (E - e3I < ((34 - q4n : Nat) : Int)) := by rw [i32_lt, hd, hs]
  rw [h1, h2]
  by_cases a : e3I < E
  · simp only [a, decide_true, if_true]
    by_cases b : E - e3I < ((34 - q4n : Nat) : Int)
    · simp only [b, decide_true, if_true]
      have hm : min (34 - q4n) (E - e3I).toNat = (E - e3I).toNat := Nat.min_eq_right (by omega)
      rw [hm]
      refine ⟨e4 - (e4 - e3), ?_, ?_⟩
      · rw [Int32.toInt_sub, he4, hd, bmod32 _ (by omega) (by omega)]; omega
      · exact tzMul_eval m p_sign save res N hres q4 (e4 - e3) q4n (E - e3I).toNat hq (by rw [hd]; omega) hN (by omega) e4
          ML MG L G pf
    · simp only [b, decide_false, Bool.false_eq_true, if_false]
      have hm : min (34 - q4n) (E - e3I).toNat = 34 - q4n := Nat.min_eq_left (by omega)
      rw [hm]
      refine ⟨e4 - (c_P34 - q4), ?_, ?_⟩
      · rw [Int32.toInt_sub, he4, hs, bmod32 _ (by omega) (by omega)]
      · exact tzMul_eval m p_sign save res N hres q4 (c_P34 - q4) q4n (34 - q4n) hq hs hN (by omega) e4 ML MG L G pf
  · simp only [a, decide_false, Bool.false_eq_true, if_false]
    refine ⟨e4, by rw [he4]; simp, ?_⟩
    rw [Nat.pow_zero, Nat.mul_one, ← word_of_val res N hres]


/-- **an exactly representable value is delivered at the exponent of its cohort closest to the preferred one**: `N` (`q ≤ 34`
digits) at an exponent `E` in range, preferred exponent `min E e3` -/
theorem finish_exact_pref (mode : Mode) (s : Bool) (N q : Nat) (hN : 0 < N) (hlo : 10 ^ (q - 1) ≤ N) (hhi : N < 10 ^ q)
    (hq1 : 1 ≤ q) (hq : q ≤ 34) (E e3I : Int) (hE : eMin ≤ E) (hE' : E ≤ eMax) (he3 : eMin ≤ e3I) :
    finish mode s N 1 E (if E ≤ e3I then E else e3I) =
      (.fin s (N * 10 ^ prefScale q E e3I) (E - (prefScale q E e3I : Nat)), 0) := by
  obtain ⟨sc, hsc⟩ : ∃ sc, prefScale q E e3I = sc := ⟨_, rfl⟩
  rw [hsc]
  have hMin : eMin = -6176 := rfl
  have hMax : eMax = 6111 := rfl
  have hscle : sc ≤ 34 - q := by
    rw [← hsc]; unfold prefScale; split
    · exact Nat.min_le_left _ _
    · omega
  have hscE : (sc : Int) ≤ E - (if E ≤ e3I then E else e3I) := by
    rw [← hsc]; unfold prefScale
    by_cases a : e3I < E
    · rw [if_pos a, if_neg (by omega)]
      have := Nat.min_le_right (34 - q) (E - e3I).toNat
      omega
    · rw [if_neg a, if_pos (by omega)]; simp
  have hM : N * 10 ^ sc < 10 ^ 34 :=
    lt_of_lt_of_le (Nat.mul_lt_mul_of_pos_right hhi (Nat.pow_pos (by decide)))
      (by rw [← Nat.pow_add]; exact Nat.pow_le_pow_right (by decide) (by omega))
  have hrep : Representable (N * 10 ^ sc) (E - sc) := by
    refine ⟨by rw [Dec.C13PackHelpers.P34_eq']; exact hM, ?_, by omega⟩
    split at hscE <;> omega
  have hval : fval false (N * 10 ^ sc) (E - sc) = (N : ℚ) / ((1 : Nat) : ℚ) * (10 : ℚ) ^ E := by
    rw [fval_false, zpow_sub₀ Dec.ten_ne, zpow_natCast]
    have : ((10 : ℚ) ^ sc) ≠ 0 := by positivity
    push_cast
    field_simp
  rw [finish_eq_iff mode s N 1 E _ hN (by norm_num)]
  left
  refine ⟨⟨_, _, hrep, hval⟩, _, _, rfl, hval, hrep, fun m' x' hr' hv' => ?_⟩
  -- either we sit on the preferred exponent, or no member has a smaller exponent
  by_cases hp : E - (sc : Int) = (if E ≤ e3I then E else e3I)
  · rw [hp, sub_self, abs_zero]; exact abs_nonneg _
  · have hsc34 : sc = 34 - q := by
      rw [← hsc] at hp ⊢; unfold prefScale at hp ⊢
      by_cases a : e3I < E
      · rw [if_pos a, if_neg (by omega)] at hp
        rw [if_pos a]
        rcases Nat.le_total (34 - q) (E - e3I).toNat with h | h
        · exact Nat.min_eq_left h
        · rw [Nat.min_eq_right h] at hp; omega
      · rw [if_neg a, if_pos (by omega)] at hp; simp at hp
    have hge : E - (sc : Int) ≤ x' := by
      by_contra hlt
      have hx'E : x' ≤ E := by omega
      have hv'' : (N : ℚ) * (10 : ℚ) ^ E = (m' : ℚ) * (10 : ℚ) ^ x' := by
        rw [fval_false] at hv'; rw [hv']; simp
      have := member_int hx'E hv''
      have hm' : m' = N * 10 ^ (E - x').toNat := by exact_mod_cast this
      have h35 : 35 - q ≤ (E - x').toNat := by omega
      have : 10 ^ (q - 1) * 10 ^ (35 - q) ≤ N * 10 ^ (E - x').toNat :=
        Nat.mul_le_mul hlo (Nat.pow_le_pow_right (by decide) h35)
      rw [← Nat.pow_add, show q - 1 + (35 - q) = 34 by omega] at this
      have := hr'.1
      rw [Dec.C13PackHelpers.P34_eq'] at this
      omega
    rw [abs_of_nonneg (by omega), abs_of_nonneg (by omega)]
    omega


/-- below the least exponent the preferred exponent does not matter (any one not above `E`) -/
theorem finish_pref_low (mode : Mode) (s : Bool) (N : Nat) (hN : 0 < N) (E p : Int) (hE : E ≤ eMin) (hp : p ≤ E) :
    finish mode s N 1 E p = finish mode s N 1 E E := by
  rw [finish_eq_iff mode s N 1 E p hN (by norm_num)]
  have hs := finish_spec_strict mode s N 1 E E hN (by norm_num)
  rcases hs with ⟨hm, m, xr, ho, hv, hrep, hclose⟩ | h | h
  · left
    refine ⟨hm, m, xr, ho, hv, hrep, fun m' x' hr' hv' => ?_⟩
    have h1 := hrep.2.1
    have h2 := hr'.2.1
    have hcl := hclose m' x' hr' hv'
    rw [abs_of_nonneg (by omega), abs_of_nonneg (by omega)] at hcl
    rw [abs_of_nonneg (by omega), abs_of_nonneg (by omega)]
    omega
  · exact Or.inr (Or.inl h)
  · exact Or.inr (Or.inr h)


/-- **tiny but at an exponent in range** (the product is exact, `q4n ≤ 34` digits): `tinyK` moves it towards the preferred
exponent and returns `finish … N 1 E (min E e3)`, no flags -/
theorem tzInRange_spec (m : RoundingMode) (s : Bool) (N q4n : Nat) (hN : 0 < N) (hlo : 10 ^ (q4n - 1) ≤ N) (hhi : N < 10 ^ q4n)
    (hq1 : 1 ≤ q4n) (h34 : q4n ≤ 34) (E e3I : Int) (hE : -6176 ≤ E) (htiny : (q4n : Int) + E < -6142)
    (he3 : -6176 ≤ e3I) (he3' : e3I ≤ 6111) (res : U128) (hres : res.toNat' = N) (e4 q4 e3 : Int32) (he4 : e4.toInt = E)
    (hq : q4.toInt = q4n) (he3w : e3.toInt = e3I) (pf save : UInt32) (incr : Bool) (P128 : U128)
    (k : Except String (U128 × Bool × Bool × Bool × Bool × UInt32)) :
    tzMain res e4 q4 e3 pf save (Dec.C02GenFmaSwap.sgnW s) m incr false false false false P128 k =
      .ok (ofBits (encode (finish (modeOf m) s N 1 E (if E ≤ e3I then E else e3I)).1), false, false, false, false,
           (pf ||| UInt32.ofNat (finish (modeOf m) s N 1 E (if E ≤ e3I then E else e3I)).2) ||| save) := by
  have hMin : eMin = -6176 := rfl
  have hMax : eMax = 6111 := rfl
  have hmin : c_EXP_MIN_UNBIASED.toInt = -6176 := by decide
  have ct : decide ((q4 + e4) < (c_EXP_MIN_UNBIASED + c_P34)) = true := by
    rw [i32_lt, decide_eq_true_eq, show (c_EXP_MIN_UNBIASED + c_P34).toInt = -6142 from by decide, Int32.toInt_add, hq, he4,
      bmod32 _ (by clear * - hE htiny h34; omega) (by clear * - hE htiny h34; omega)]
    exact htiny
  have ce : decide (e4 < c_EXP_MIN_UNBIASED) = false := by
    rw [i32_lt, decide_eq_false_iff_not, hmin, he4]; clear * - hE; omega
  unfold tzMain
  rw [ct, ce]
  clear ct ce
  simp only [if_true, Bool.false_eq_true, if_false]
  obtain ⟨e', he', hcall⟩ := tzScale_eval m (Dec.C02GenFmaSwap.sgnW s) save res N hres e4 q4 e3 q4n E e3I hq he4 he3w hhi h34
    (by clear * - hE htiny; omega) (by clear * - he3 he3'; omega) false false false false pf
  rw [hcall]
  obtain ⟨sc, hsc⟩ : ∃ sc, prefScale q4n E e3I = sc := ⟨_, rfl⟩
  rw [hsc] at he' hcall ⊢
  have hfin := finish_exact_pref (modeOf m) s N q4n hN hlo hhi hq1 h34 E e3I (by rw [hMin]; exact hE)
    (by rw [hMax]; clear * - htiny; omega) (by rw [hMin]; exact he3)
  rw [hsc] at hfin
  have hscle : sc ≤ 34 - q4n := by
    rw [← hsc]; unfold prefScale; split
    · exact Nat.min_le_left _ _
    · omega
  have hscE : -6176 ≤ E - (sc : Int) := by
    rw [← hsc]; unfold prefScale
    by_cases a : e3I < E
    · rw [if_pos a]
      have := Nat.min_le_right (34 - q4n) (E - e3I).toNat
      clear * - this a he3; omega
    · rw [if_neg a]; clear * - hE; simp; omega
  have hM : N * 10 ^ sc < 10 ^ 34 :=
    lt_of_lt_of_le (Nat.mul_lt_mul_of_pos_right hhi (Nat.pow_pos (by decide)))
      (by rw [← Nat.pow_add]; exact Nat.pow_le_pow_right (by decide) (by omega))
  have hM0 : 0 < N * 10 ^ sc := Nat.mul_pos hN (Nat.pow_pos (by decide))
  have hE'max : E - (sc : Int) ≤ 6111 := by clear * - htiny; omega
  have hpt : PreTail s (N * 10 ^ sc) (E - sc) 0 (N * 10 ^ sc) ⟨false, false, false, false⟩ :=
    pretail_of_pos s _ _ 0 _ _ (by have := RoundedInt_exact .rne s (N * 10 ^ sc) (10 ^ 0) (by decide); simpa using this)
      (posInd_exact _) (Or.inl ⟨rfl, hM, by rw [hMin]; exact hscE, by rw [hMax]; exact hE'max⟩)
  have hdel : deliver (N * 10 ^ sc) (E - (sc : Int) + ((0 : Nat) : Int)) = (N * 10 ^ sc, E - sc) := by
    unfold deliver; rw [if_neg (by rw [Dec.C13PackHelpers.P34_eq']; omega)]; simp
  have hb : (ofBits (N * 10 ^ sc)).toNat' = N * 10 ^ sc := by
    rw [← toNat'_bits, Dec.C06GenFromInt.bitsOf_ofBits (lt_trans hM (by norm_num))]
  have htl := tzTail_spec m s (N * 10 ^ sc) hM0 (E - sc) 0 (N * 10 ^ sc) _ hpt e' (by rw [hdel]; exact he')
    (by clear * - hE'max; simp; omega) (by rw [hdel]; exact hE'max) (ofBits (N * 10 ^ sc)) (by rw [hdel]; exact hb)
    (fun h => absurd h (by decide)) pf save
  -- the scaled value, preferred exponent its own, is delivered as it is
  have hfin2 := finish_exact_pref (modeOf m) s (N * 10 ^ sc) (q4n + sc) hM0
    (by
      have : 10 ^ (q4n - 1) * 10 ^ sc ≤ N * 10 ^ sc := Nat.mul_le_mul_right _ hlo
      rwa [← Nat.pow_add, show q4n - 1 + sc = q4n + sc - 1 by omega] at this)
    (by rw [Nat.pow_add]; exact Nat.mul_lt_mul_of_pos_right hhi (Nat.pow_pos (by decide)))
    (by omega) (by omega) (E - sc) (E - sc) (by rw [hMin]; exact hscE) (by rw [hMax]; exact hE'max) (by rw [hMin]; exact hscE)
  rw [if_pos (le_refl _), show prefScale (q4n + sc) (E - (sc : Int)) (E - (sc : Int)) = 0 from by
    unfold prefScale; rw [if_neg (lt_irrefl _)], Nat.pow_zero, Nat.mul_one, Nat.cast_zero, sub_zero] at hfin2
  rw [hfin2] at htl
  rw [hfin]
  exact htl


/-! ## 5. `tinyK` -/

open Dec.C02GenFmaFront (tinyK)

/-- **not tiny: `tinyK` does nothing** (the test is `q4 + e4 < −6176 + 34`) -/
theorem tinyK_skip (res : U128) (e4 q4 e3 : Int32) (pf save : UInt32) (p_sign : UInt64) (m : RoundingMode)
    (incr ML MG L G : Bool) (P128 : U128) (k : Except String (U128 × Bool × Bool × Bool × Bool × UInt32))
    (hb1 : -1000000000 ≤ e4.toInt ∧ e4.toInt ≤ 1000000000) (hb2 : 0 ≤ q4.toInt ∧ q4.toInt ≤ 1000)
    (h : ¬ (q4.toInt + e4.toInt < -6142)) :
    tinyK res e4 q4 e3 pf save p_sign m incr ML MG L G P128 k = k := by
  rw [tinyK_shape]
  unfold tzMain
  have ct : decide ((q4 + e4) < (c_EXP_MIN_UNBIASED + c_P34)) = false := by
    rw [i32_lt, decide_eq_false_iff_not, show (c_EXP_MIN_UNBIASED + c_P34).toInt = -6142 from by decide, Int32.toInt_add,
      bmod32 _ (by omega) (by omega)]
    exact h
  rw [ct]
  rfl

/-- **`tinyK` — the tiny results of the `z = 0` path (all of the subnormal range of multiplication).**
The exact magnitude of the product is `N·10^E`; the first stage (`round1K`) has either left it untouched (`N` has `q4n ≤ 34`
digits) or rounded it to 34 digits with a digit-removal helper (`Spec`; `incr`: the rounding carried).  If the result is tiny
(`q4n + e4 < −6142`), `tinyK` returns the canonical encoding of

      finish mode sign N 1 E (min E e3)

— ONE rounding of the exact product, at the least exponent if it is below it (second rounding + the repair of the double rounding),
else exact and moved towards the preferred exponent — and its flags or-ed into the status word, for every rounding mode. -/
theorem tinyK_spec (m : RoundingMode) (s : Bool) (N : Nat) (hN : 0 < N) (E e3I : Int)
    (hE : -1000000 ≤ E) (he3 : -6176 ≤ e3I) (he3' : e3I ≤ 6111)
    (c1 q4n kd : Nat) (incr : Bool) (i0 : Ind)
    (hst : (kd = 0 ∧ c1 = N ∧ q4n = ndigits N ∧ q4n ≤ 34 ∧ incr = false ∧ i0 = ⟨false, false, false, false⟩)
         ∨ (∃ x, 1 ≤ x ∧ 10 ^ (x + 33) ≤ N ∧ N < 10 ^ (x + 34) ∧ q4n = 34 ∧ kd = x + (if incr = true then 1 else 0) ∧
                 Spec (x + 34) x N c1 incr i0))
    (res : U128) (hres : res.toNat' = c1) (e4 q4 e3 : Int32) (he4 : e4.toInt = E + kd) (hq4 : q4.toInt = q4n)
    (he3w : e3.toInt = e3I) (htiny : (q4n : Int) + (E + kd) < -6142)
    (pf save : UInt32) (P128 : U128) (k : Except String (U128 × Bool × Bool × Bool × Bool × UInt32)) :
    ∃ i : Ind,
      tinyK res e4 q4 e3 pf save (Dec.C02GenFmaSwap.sgnW s) m incr i0.midLtEven i0.midGtEven i0.inexLtMid i0.inexGtMid P128 k =
        .ok (ofBits (encode (finish (modeOf m) s N 1 E (if E ≤ e3I then E else e3I)).1),
             i.midLtEven, i.midGtEven, i.inexLtMid, i.inexGtMid,
             (pf ||| UInt32.ofNat (finish (modeOf m) s N 1 E (if E ≤ e3I then E else e3I)).2) ||| save) := by
  have hMin : eMin = -6176 := rfl
  rw [tinyK_shape]
  rcases hst with ⟨hkd, hc, hqn, h34, hinc, hi0⟩ | ⟨x, hx1, hlo, hhi, hq34, hkd, sp⟩
  · subst hkd hc hi0
    rw [Nat.cast_zero, Int.add_zero] at he4 htiny
    have hnd1 : 1 ≤ q4n := by rw [hqn]; exact ndigits_pos hN
    have hlt : c1 < 10 ^ q4n := by rw [hqn]; exact (ndigits_le_iff hN).1 (le_refl _)
    have hge : 10 ^ (q4n - 1) ≤ c1 := ((ndigits_eq_iff hN hnd1).1 hqn.symm).1
    by_cases hlow : E < -6176
    · obtain ⟨i, hi⟩ := tzUF_spec m s c1 hN E 0 c1 q4n (by simp) false false false false (by simp) (by simp) hN hlt hnd1 h34
        res hres e4 q4 e3 (by rw [Nat.cast_zero, Int.add_zero]; exact he4) hq4 (by rw [Nat.cast_zero, Int.add_zero]; exact hlow)
        (by rw [Nat.cast_zero, Int.add_zero]; clear * - hE; omega) pf save incr P128 k
      rw [finish_pref_low (modeOf m) s c1 hN E _ (by rw [hMin]; clear * - hlow; omega) (by split <;> omega)]
      exact ⟨i, hi⟩
    · exact ⟨⟨false, false, false, false⟩,
        tzInRange_spec m s c1 q4n hN hge hlt hnd1 h34 E e3I (by clear * - hlow; omega) htiny he3 he3' res hres e4 q4 e3 he4 hq4
          he3w pf save incr P128 k⟩
  · obtain ⟨k1, k2, k3, k4, k5, k6, k7, k8⟩ := spec_facts s N x c1 incr i0 sp hx1 hlo hhi (E + x)
    rw [← hkd] at k7
    have hD : 0 < 10 ^ x := Nat.pow_pos (by decide)
    have hpk : 10 ^ x ≤ 10 ^ kd := Nat.pow_le_pow_right (by decide) (by rw [hkd]; omega)
    have hcl := k1.1
    rw [Nat.mul_assoc, ← k7] at hcl
    have hlow : E + kd < -6176 := by rw [hq34] at htiny; clear * - htiny; omega
    obtain ⟨i, hi⟩ := tzUF_spec m s N hN E kd c1 q4n ⟨by omega, by omega⟩ i0.midLtEven i0.midGtEven i0.inexLtMid i0.inexGtMid
      (by rw [k2]; simp only [posInd]; rw [← k7, Bool.eq_iff_iff]; simp only [Bool.or_eq_true, decide_eq_true_eq]; omega)
      (by rw [k2]; simp only [posInd]; rw [← k7, Bool.eq_iff_iff]; simp only [Bool.or_eq_true, decide_eq_true_eq]; omega)
      (by omega) (by rw [hq34, ← Dec.C13PackHelpers.P34_eq']; exact k6) (by omega) (by omega) res hres e4 q4 e3 he4 hq4 hlow
      (by clear * - hE; omega) pf save incr P128 k
    rw [finish_pref_low (modeOf m) s N hN E _ (by rw [hMin]; clear * - hlow; omega) (by split <;> omega)]
    exact ⟨i, hi⟩


/-! ## 6. Examples -/

-- `eqOut` / `rne_small`: all digits chopped
example : eqOut 50 (5 * 10 ^ (2 - 1)) = (0, ⟨false, true, false, false⟩) := by decide
example : eqOut 51 (5 * 10 ^ (2 - 1)) = (1, ⟨false, false, false, true⟩) := by decide
-- `prefScale`: 2 digits at exponent −6170, preferred −6176: six zeros are appended; at most `34 − q` of them
example : prefScale 2 (-6170) (-6176) = 6 := by decide
example : prefScale 30 (-6170) (-6176) = 4 := by decide
example : prefScale 2 (-6170) 0 = 0 := by decide
-- `finish_exact_pref`
example : finish .rup false 12 1 (-6170) (-6176) = (.fin false 12000000 (-6176), 0) := by decide +kernel

/-! `tinyK` itself (`tinyK_spec`, `tinyK_skip`) -/

-- 123456·10^−6178: two digits are chopped, 1235·10^−6176, inexact + underflow
example : (tinyK ⟨123456, 0⟩ (-6178) 6 0 0 0 0 .NearestEven false false false false false default (.error "k")).toOption =
    some (⟨1235, 0⟩, false, false, false, true, 0x30) := by decide +kernel
-- the first rounding left 5·10^33 at −6210 — exactly half of the least quantum — having rounded DOWN: the value is above the
-- half, the result is 1·10^−6176 (the repair of the double rounding; the status word 4 saved at entry is or-ed back)
example : (tinyK ⟨0x1bc6c73200000000, 0xf684df56c3e0⟩ (-6210) 34 0 0 4 0 .NearestEven false false false true false default
    (.error "k")).toOption = some (⟨1, 0⟩, false, false, false, true, 0x34) := by decide +kernel
-- ... having rounded UP: the value is below the half, the result is 0
example : (tinyK ⟨0x1bc6c73200000000, 0xf684df56c3e0⟩ (-6210) 34 0 0 4 0 .NearestEven false false false false true default
    (.error "k")).toOption = some (⟨0, 0⟩, false, false, true, false, 0x34) := by decide +kernel
-- −5·10^−6177 is exactly half a quantum: −0 to nearest-even, −1·10^−6176 rounding down
example : (tinyK ⟨5, 0⟩ (-6177) 1 0 0 0 0x8000000000000000 .NearestEven false false false false false default (.error "k")).toOption =
    some (⟨0, 0x8000000000000000⟩, false, true, false, false, 0x30) := by decide +kernel
example : (tinyK ⟨5, 0⟩ (-6177) 1 0 0 0 0x8000000000000000 .Downward false false false false false default (.error "k")).toOption =
    some (⟨1, 0x8000000000000000⟩, false, true, false, false, 0x30) := by decide +kernel
-- tiny but in range, exact: moved to the preferred exponent, no flag
example : (tinyK ⟨12, 0⟩ (-6170) 2 (-6176) 0 1 0 .Upward false false false false false default (.error "k")).toOption =
    some (⟨12000000, 0⟩, false, false, false, false, 1) := by decide +kernel
-- not tiny: the continuation
example : tinyK ⟨12, 0⟩ (-6100) 2 (-6176) 0 1 0 .Upward false false false false false default (.error "k") = .error "k" := by
  decide +kernel

end Dec.C02GenFmaZ0Tiny
