import DecGen.Api
import DecProofs.Properties.SourceLevel4
import DecProofs.Properties.C01GenAddSpec

/-!
  SourceLevel5 — answers to the independent audit (/verif/AUDIT.md §2) at the level of the public API of the source
  (`Dec.Gen.Api.run "<method>" mode flags args`), after the last named hypothesis was discharged
  (`C01GenAddSpec.loopRestRounding`, `AllClosed.lean`).  Every theorem here is hypothesis-free and holds for every 128-bit
  pattern (non-canonical ones included), every incoming status word and rounding mode.

    §1 (audit 2.1)  `addition_spec`, `subtraction_spec`, `fdim_spec`, `addition_property`, `subtraction_property`: the
                    `…_of_LoopRest` theorems of SourceLevel4 with the hypothesis discharged (the same statements as
                    `C01GenAddSpec.api_addition` / `api_subtraction` / `addition_property` / `subtraction_property`, `AllClosed.api_fdim`).
    §2 (audit 2.3, item 4)  C13's "every result produced by a computational operation is canonical" for the arithmetic, ALL
                    operands: `addition_canonical`, `subtraction_canonical`, `multiplication_canonical`, `division_canonical`,
                    `fdim_canonical`, `square_root_canonical`, `fused_multiply_add_canonical` — from the well-formedness of the
                    datum-level definitions on operands that are not NaNs (`addD_WF`, `subD_WF`, `mulD_WF`, `divD_WF`,
                    `sqrtD_WF`, `fmaD_WF`: infinite and zero operands, `∞·0`, `x/0`, … included) and the canonical quiet NaN of the
                    NaN rule (`canon_qnan`, `canon_pick2`, `canon_fmaPick`).
    §3 (audit item 7)  the relations between the operations, about the source: `fma_one_is_addition` (C02 "when y is one it
                    agrees with addition": equal result word and status word unless BOTH `x` and `z` are NaNs — then the two
                    methods propagate different ones, both allowed), `subtraction_is_addition` (all operands: the subtrahend's
                    sign bit flipped, a NaN subtrahend passed unchanged), `subtraction_is_addition_of_negate`,
                    `multiplication_is_fma` (outside the zero-factor case; there the two differ in the sign of zero).

  No `sorry`; axioms: the three standard ones.

  FINAL TABLE — all 123 dispatched methods → the theorem(s) stating the method's property about `Api.run` (file.name).
  NO HYPOTHESES remain.  For ALL 123: C14 / C15 about the source is `C14GenHistory.api_frame`, `runHistory_frame`,
  `runHistory_flags`, `api_silent` (the status word) and `AllClosed.total_all` (returns normally: all 123 methods).

  encode_decimal                             SourceLevel.encode_decimal_spec, encode_decimal_datum, decode_encode_decimal, encode_decode_decimal
  decode_decimal                             SourceLevel.decode_decimal_spec, decode_decimal_datum, decode_encode_decimal, encode_decode_decimal
  abs                                        SourceLevel.abs_negate_spec
  class                                      SourceLevel.predicates_spec, class_consistent
  is_finite                                  SourceLevel.predicates_spec, class_consistent
  is_infinite                                SourceLevel.predicates_spec, class_consistent, noncanonical_treated
  is_nan                                     SourceLevel.predicates_spec, class_consistent
  is_normal                                  SourceLevel.predicates_spec, class_consistent, is_normal_iff
  is_signaling                               SourceLevel.predicates_spec, class_consistent
  is_sign_minus                              SourceLevel.predicates_spec, class_consistent
  is_subnormal                               SourceLevel.predicates_spec, class_consistent
  is_zero                                    SourceLevel.predicates_spec, class_consistent, noncanonical_treated
  negate                                     SourceLevel.abs_negate_spec
  same_quantum                               SourceLevel.same_quantum_spec, same_quantum_finite
  total_order                                SourceLevel.total_order_spec, total_order_refl, total_order_trans, total_order_total, total_order_antisymm, total_order_chain, total_order_cohort, total_order_nans
  total_order_mag                            SourceLevel.total_order_mag_spec
  fdim                                       AllClosed.api_fdim; SourceLevel5.fdim_spec, fdim_canonical; SourceLevel3.fdim_le
  fused_multiply_add                         SourceLevel4.fused_multiply_add_spec, fused_multiply_add_property, fused_multiply_add_specials; SourceLevel5.fused_multiply_add_canonical, fma_one_is_addition; C02GenFmaAssembly3.api_fused_multiply_add, fma_property, fma_zero_property; NaN: SourceLevel.fma_nan
  fmod                                       C10GenFmodRem.api_fmod, fmod_property, invalid_property, yinf_property, far_property, fmod_accepted; NaN: SourceLevel.binary_nan
  frexp                                      SourceLevel.frexp_spec
  ldexp                                      SourceLevel.ldexp_spec, frame_scale
  llquantexp                                 SourceLevel.llquantexp_spec
  logb                                       SourceLevel3.logb_spec, logb_cases; NaN: SourceLevel.unary_nan
  lrint                                      SourceLevel.c_style_conversions
  llrint                                     SourceLevel.c_style_conversions
  lround                                     SourceLevel.c_style_conversions
  llround                                    SourceLevel.c_style_conversions
  log_b                                      SourceLevel2.log_b_spec, log_b_cases
  max_num                                    SourceLevel.max_num_spec, minmax_numbers, minmax_expected
  max_num_mag                                SourceLevel.max_num_mag_spec, minmax_numbers, minmax_expected
  min_num                                    SourceLevel.min_num_spec, minmax_numbers, minmax_expected
  min_num_mag                                SourceLevel.min_num_mag_spec, minmax_numbers, minmax_expected
  modf                                       SourceLevel2.modf_spec, modf_property, modf_specials, modf_accepted
  nearbyint                                  SourceLevel3.nearbyint_spec (+ ri_meaning, ri_result); NaN: SourceLevel.unary_nan
  next_after                                 SourceLevel.next_after_spec, next_accepted, binary_nan
  next_down                                  SourceLevel.next_down_spec, next_down_next_up, next_accepted, unary_nan
  next_toward                                SourceLevel.next_after_spec, next_accepted, binary_nan
  next_up                                    SourceLevel.next_up_spec, next_up_least, next_up_boundaries, next_down_next_up, next_accepted, unary_nan
  quantexp                                   SourceLevel.quantexp_spec
  quantize                                   SourceLevel3.quantize_spec, quantize_property, quantize_result; SourceLevel.quantize_special, quantize_infinities, quantize_one_infinity, binary_nan
  quantum                                    SourceLevel.quantum_spec
  scaleb                                     SourceLevel.scaleb_spec, scaleb_in_range, scaleb_specials, frame_scale
  scalebln                                   SourceLevel.scalebln_spec, frame_scale
  square_root                                SourceLevel4.square_root_spec, square_root_property; SourceLevel5.square_root_canonical; SourceLevel3.square_root_specials, square_root_exact; NaN: SourceLevel.unary_nan
  convert_to_i32_ties_to_even                SourceLevel2.convert_to_i32_ties_to_even_spec, convert_all, conv_meaning
  convert_to_i32_exact_ties_to_even          SourceLevel2.convert_to_i32_exact_ties_to_even_spec, convert_all, conv_meaning
  convert_to_i32_toward_negative             SourceLevel2.convert_to_i32_toward_negative_spec, convert_all, conv_meaning
  convert_to_i32_exact_toward_negative       SourceLevel2.convert_to_i32_exact_toward_negative_spec, convert_all, conv_meaning
  convert_to_i32_toward_positive             SourceLevel2.convert_to_i32_toward_positive_spec, convert_all, conv_meaning
  convert_to_i32_exact_toward_positive       SourceLevel2.convert_to_i32_exact_toward_positive_spec, convert_all, conv_meaning
  convert_to_i32_toward_zero                 SourceLevel2.convert_to_i32_toward_zero_spec, convert_all, conv_meaning
  convert_to_i32_exact_toward_zero           SourceLevel2.convert_to_i32_exact_toward_zero_spec, convert_all, conv_meaning
  convert_to_i32_ties_to_away                SourceLevel2.convert_to_i32_ties_to_away_spec, convert_all, conv_meaning
  convert_to_i32_exact_ties_to_away          SourceLevel2.convert_to_i32_exact_ties_to_away_spec, convert_all, conv_meaning
  convert_to_i64_toward_positive             SourceLevel2.convert_to_i64_toward_positive_spec, convert_all, conv_meaning
  convert_to_i64_toward_negative             SourceLevel2.convert_to_i64_toward_negative_spec, convert_all, conv_meaning
  convert_to_i64_toward_zero                 SourceLevel2.convert_to_i64_toward_zero_spec, convert_all, conv_meaning
  convert_to_i64_ties_to_even                SourceLevel2.convert_to_i64_ties_to_even_spec, convert_all, conv_meaning
  convert_to_i64_ties_to_away                SourceLevel2.convert_to_i64_ties_to_away_spec, convert_all, conv_meaning; SourceLevel.c_style_conversions
  convert_to_i64_exact_toward_positive       SourceLevel2.convert_to_i64_exact_toward_positive_spec, convert_all, conv_meaning; SourceLevel.c_style_conversions
  convert_to_i64_exact_toward_negative       SourceLevel2.convert_to_i64_exact_toward_negative_spec, convert_all, conv_meaning; SourceLevel.c_style_conversions
  convert_to_i64_exact_toward_zero           SourceLevel2.convert_to_i64_exact_toward_zero_spec, convert_all, conv_meaning; SourceLevel.c_style_conversions
  convert_to_i64_exact_ties_to_even          SourceLevel2.convert_to_i64_exact_ties_to_even_spec, convert_all, conv_meaning; SourceLevel.c_style_conversions
  convert_to_i64_exact_ties_to_away          SourceLevel2.convert_to_i64_exact_ties_to_away_spec, convert_all, conv_meaning; SourceLevel.c_style_conversions
  convert_to_u32_toward_positive             SourceLevel2.convert_to_u32_toward_positive_spec, convert_all, conv_meaning
  convert_to_u32_toward_negative             SourceLevel2.convert_to_u32_toward_negative_spec, convert_all, conv_meaning
  convert_to_u32_toward_zero                 SourceLevel2.convert_to_u32_toward_zero_spec, convert_all, conv_meaning
  convert_to_u32_ties_to_even                SourceLevel2.convert_to_u32_ties_to_even_spec, convert_all, conv_meaning
  convert_to_u32_ties_to_away                SourceLevel2.convert_to_u32_ties_to_away_spec, convert_all, conv_meaning
  convert_to_u32_exact_toward_positive       SourceLevel2.convert_to_u32_exact_toward_positive_spec, convert_all, conv_meaning
  convert_to_u32_exact_toward_negative       SourceLevel2.convert_to_u32_exact_toward_negative_spec, convert_all, conv_meaning
  convert_to_u32_exact_toward_zero           SourceLevel2.convert_to_u32_exact_toward_zero_spec, convert_all, conv_meaning
  convert_to_u32_exact_ties_to_even          SourceLevel2.convert_to_u32_exact_ties_to_even_spec, convert_all, conv_meaning
  convert_to_u32_exact_ties_to_away          SourceLevel2.convert_to_u32_exact_ties_to_away_spec, convert_all, conv_meaning
  convert_to_u64_toward_positive             SourceLevel2.convert_to_u64_toward_positive_spec, convert_all, conv_meaning
  convert_to_u64_toward_negative             SourceLevel2.convert_to_u64_toward_negative_spec, convert_all, conv_meaning
  convert_to_u64_toward_zero                 SourceLevel2.convert_to_u64_toward_zero_spec, convert_all, conv_meaning
  convert_to_u64_ties_to_even                SourceLevel2.convert_to_u64_ties_to_even_spec, convert_all, conv_meaning
  convert_to_u64_ties_to_away                SourceLevel2.convert_to_u64_ties_to_away_spec, convert_all, conv_meaning
  convert_to_u64_exact_toward_positive       SourceLevel2.convert_to_u64_exact_toward_positive_spec, convert_all, conv_meaning
  convert_to_u64_exact_toward_negative       SourceLevel2.convert_to_u64_exact_toward_negative_spec, convert_all, conv_meaning
  convert_to_u64_exact_toward_zero           SourceLevel2.convert_to_u64_exact_toward_zero_spec, convert_all, conv_meaning
  convert_to_u64_exact_ties_to_even          SourceLevel2.convert_to_u64_exact_ties_to_even_spec, convert_all, conv_meaning
  convert_to_u64_exact_ties_to_away          SourceLevel2.convert_to_u64_exact_ties_to_away_spec, convert_all, conv_meaning
  addition                                   C01GenAddSpec.api_addition, addition_property; SourceLevel5.addition_spec, addition_property, addition_canonical; NaN: SourceLevel.binary_nan
  division                                   SourceLevel4.division_spec; SourceLevel5.division_canonical; C01GenDivClosed.api_division, quotient_property; C01GenDivFinal.exact_property, div_by_zero_property, invalid_property, inf_property, zero_property, nan_property; NaN: SourceLevel.binary_nan
  multiplication                             SourceLevel4.multiplication_spec, multiplication_property, multiplication_zero_property; SourceLevel5.multiplication_canonical, multiplication_is_fma; C02GenFmaAssembly3.api_multiplication, product_property; NaN: SourceLevel.binary_nan
  remainder                                  C10GenFmodRem.api_remainder, remainder_property, invalid_property, yinf_property, far_property, rem_accepted; NaN: SourceLevel.binary_nan
  subtraction                                C01GenAddSpec.api_subtraction, subtraction_property; SourceLevel5.subtraction_spec, subtraction_property, subtraction_canonical, subtraction_is_addition, subtraction_is_addition_of_negate; NaN: SourceLevel.binary_nan
  compare_quiet_equal                        SourceLevel.compare_quiet_equal_spec, compare_exactly_one, compare_by_value, compare_nan_operand
  compare_quiet_greater                      SourceLevel.compare_quiet_greater_spec, compare_exactly_one, compare_by_value, compare_nan_operand
  compare_quiet_unordered                    SourceLevel.compare_quiet_unordered_spec, compare_exactly_one, compare_nan_operand
  compare_quiet_ordered                      SourceLevel.compare_quiet_ordered_spec
  compare_quiet_greater_equal                SourceLevel.compare_quiet_greater_equal_spec, compare_by_value
  compare_quiet_greater_unordered            SourceLevel.compare_quiet_greater_unordered_spec
  compare_quiet_less                         SourceLevel.compare_quiet_less_spec, compare_exactly_one, compare_by_value, compare_nan_operand
  compare_quiet_less_equal                   SourceLevel.compare_quiet_less_equal_spec, compare_by_value
  compare_quiet_less_unordered               SourceLevel.compare_quiet_less_unordered_spec
  compare_quiet_not_equal                    SourceLevel.compare_quiet_not_equal_spec, compare_by_value, compare_nan_operand
  compare_quiet_not_greater                  SourceLevel.compare_quiet_not_greater_spec
  compare_quiet_not_less                     SourceLevel.compare_quiet_not_less_spec
  compare_signaling_greater                  SourceLevel.compare_signaling_greater_spec, compare_by_value
  compare_signaling_greater_equal            SourceLevel.compare_signaling_greater_equal_spec
  compare_signaling_greater_unordered        SourceLevel.compare_signaling_greater_unordered_spec
  compare_signaling_less                     SourceLevel.compare_signaling_less_spec, compare_by_value
  compare_signaling_less_equal               SourceLevel.compare_signaling_less_equal_spec
  compare_signaling_less_unordered           SourceLevel.compare_signaling_less_unordered_spec
  compare_signaling_not_greater              SourceLevel.compare_signaling_not_greater_spec
  compare_signaling_not_less                 SourceLevel.compare_signaling_not_less_spec
  round_to_integral_exact                    SourceLevel3.round_to_integral_exact_spec (+ ri_meaning, ri_result); NaN: SourceLevel.unary_nan
  round_to_integral_ties_to_away             SourceLevel3.round_to_integral_ties_to_away_spec (+ ri_meaning, ri_result); NaN: SourceLevel.unary_nan
  round_to_integral_ties_to_even             SourceLevel3.round_to_integral_ties_to_even_spec (+ ri_meaning, ri_result); NaN: SourceLevel.unary_nan
  round_to_integral_ties_toward_negative     SourceLevel3.round_to_integral_ties_toward_negative_spec (+ ri_meaning, ri_result); NaN: SourceLevel.unary_nan
  round_to_integral_ties_toward_positive     SourceLevel3.round_to_integral_ties_toward_positive_spec (+ ri_meaning, ri_result); NaN: SourceLevel.unary_nan
  round_to_integral_ties_toward_zero         SourceLevel3.round_to_integral_ties_toward_zero_spec (+ ri_meaning, ri_result); NaN: SourceLevel.unary_nan
  eq                                         SourceLevel.eq_spec, eq_refl, eq_symm, eq_trans, eq_by_value, eq_nan, partial_cmp_agrees, hash_eq_iff_eq
  lt                                         SourceLevel.lt_spec, partial_cmp_agrees, lt_trans
  le                                         SourceLevel.le_spec, le_trans
  gt                                         SourceLevel.gt_spec, partial_cmp_agrees
  ge                                         SourceLevel.ge_spec
  partial_cmp                                SourceLevel.partial_cmp_spec, partial_cmp_agrees, partial_cmp_swap
  ne                                         SourceLevel.ne_spec
  hash                                       SourceLevel.hash_eq_iff_eq
-/
set_option linter.unusedTactic false
set_option linter.unreachableTactic false

namespace Dec.SourceLevel5
open Dec.Rs Dec.Gen.Code Dec.Gen.Api Dec
open Dec.C06GenFromInt (ofBits bitsOf_ofBits)
open Dec.C12GenNaN
open Dec.C01GenAddLoop (binSpec negY)
open Dec.SourceLevel4 (fmaSpec)
open Dec.SourceLevel3 (sqrtSpec)

abbrev bitsOf (x : U128) : Nat := Dec.C06GenFromInt.bitsOf x
abbrev dOf (x : U128) : Datum := decode (bitsOf x)
abbrev md := Dec.C13GenPack.md

/-! ## 1. `addition`, `subtraction`, `fdim`: hypothesis-free -/

/-- **C01, `addition`, ALL operands, no hypothesis** (`C01GenAddSpec.loopRestRounding` discharges the last named hypothesis) -/
theorem addition_spec (m : RoundingMode) (f : UInt32) (x y : U128) :
    run "addition" m f [.d x, .d y]
      = some (.ok ([.d (binSpec (addD (md m)) x y f).1], (binSpec (addD (md m)) x y f).2)) :=
  Dec.SourceLevel4.addition_of_LoopRest Dec.C01GenAddSpec.loopRestRounding m f x y

/-- **C01, `subtraction`, ALL operands, no hypothesis** -/
theorem subtraction_spec (m : RoundingMode) (f : UInt32) (x y : U128) :
    run "subtraction" m f [.d x, .d y]
      = some (.ok ([.d (binSpec (subD (md m)) x y f).1], (binSpec (subD (md m)) x y f).2)) :=
  Dec.SourceLevel4.subtraction_of_LoopRest Dec.C01GenAddSpec.loopRestRounding m f x y

/-- **`fdim`, ALL operands, no hypothesis**: the NaN rule; `+0E+0` and an untouched status word when not `x > y`; `x − y`
rounded once when `x > y` -/
theorem fdim_spec (m : RoundingMode) (f : UInt32) (x y : U128) :
    run "fdim" m f [.d x, .d y] = some (.ok ([.d (binSpec (fdimD (md m)) x y f).1], (binSpec (fdimD (md m)) x y f).2)) :=
  Dec.SourceLevel4.fdim_of_LoopRest Dec.C01GenAddSpec.loopRestRounding m f x y

/-- C01, addition, the property sentence for ALL finite operands, no hypothesis: canonical result; exact sum zero: the zero at
`min e₁ e₂` with the IEEE sign, no flag; otherwise THE strict correct delivery (`FinishSpecStrict`) of the exact sum — the value
itself at the cohort exponent closest to `min e₁ e₂` without a flag, else rounded once in the mode at the least exponent
(inexact; underflow iff tiny; the mode's overflow result) — datum and flags -/
theorem addition_property (m : RoundingMode) (f : UInt32) (x y : U128) (s1 s2 : Bool)
    (c1 c2 : Nat) (e1 e2 : Int) (hx : dOf x = .fin s1 c1 e1) (hy : dOf y = .fin s2 c2 e2) :
    ∃ r g, run "addition" m f [.d x, .d y] = some (.ok ([.d r], g)) ∧ isCanonical (bitsOf r) = true ∧
      (fval s1 c1 e1 + fval s2 c2 e2 = 0 → dOf r = zeroAt (zeroSumSign (md m) s1 s2) (min e1 e2) ∧ g = f) ∧
      (fval s1 c1 e1 + fval s2 c2 e2 ≠ 0 → ∃ out : Datum × Flags,
        FinishSpecStrict (md m) (decide (fval s1 c1 e1 + fval s2 c2 e2 < 0)) |fval s1 c1 e1 + fval s2 c2 e2| (min e1 e2) out ∧
        dOf r = out.1 ∧ g = f ||| UInt32.ofNat out.2) :=
  Dec.SourceLevel4.addition_property_of_LoopRest Dec.C01GenAddSpec.loopRestRounding m f x y s1 s2 c1 c2 e1 e2 hx hy

/-- C01, subtraction, likewise for the exact difference -/
theorem subtraction_property (m : RoundingMode) (f : UInt32) (x y : U128) (s1 s2 : Bool)
    (c1 c2 : Nat) (e1 e2 : Int) (hx : dOf x = .fin s1 c1 e1) (hy : dOf y = .fin s2 c2 e2) :
    ∃ r g, run "subtraction" m f [.d x, .d y] = some (.ok ([.d r], g)) ∧ isCanonical (bitsOf r) = true ∧
      (fval s1 c1 e1 - fval s2 c2 e2 = 0 → dOf r = zeroAt (zeroSumSign (md m) s1 (!s2)) (min e1 e2) ∧ g = f) ∧
      (fval s1 c1 e1 - fval s2 c2 e2 ≠ 0 → ∃ out : Datum × Flags,
        FinishSpecStrict (md m) (decide (fval s1 c1 e1 - fval s2 c2 e2 < 0)) |fval s1 c1 e1 - fval s2 c2 e2| (min e1 e2) out ∧
        dOf r = out.1 ∧ g = f ||| UInt32.ofNat out.2) :=
  Dec.SourceLevel4.subtraction_property_of_LoopRest Dec.C01GenAddSpec.loopRestRounding m f x y s1 s2 c1 c2 e1 e2 hx hy

/-! ## 2. Audit item 4 — the results of the arithmetic are canonical, for ALL operands (C13's last sentence) -/

theorem dnan_WF : defaultNaN.WF := by show (0 : Nat) < P33; decide
theorem inv_WF : invalidResult.1.WF := dnan_WF

/-- `addD` of well-formed operands that are not NaNs is well-formed -/
theorem addD_WF (mode : Mode) {a b : Datum} (na : a.isNaN = false) (nb : b.isNaN = false) : (addD mode a b).1.WF := by
  cases a with
  | nan _ _ _ => exact Bool.noConfusion na
  | inf s1 =>
    cases b with
    | nan _ _ _ => exact Bool.noConfusion nb
    | inf s2 => show (if s1 == s2 then (Datum.inf s1, 0) else invalidResult).1.WF; split <;> first | trivial | exact inv_WF
    | fin _ _ _ => trivial
  | fin s1 c1 e1 =>
    cases b with
    | nan _ _ _ => exact Bool.noConfusion nb
    | inf s2 => trivial
    | fin s2 c2 e2 => exact Dec.C01GenAddLoop.addFin_WF _ _ _ _ _ _ _ _

theorem negate_nan (d : Datum) : d.negate.isNaN = d.isNaN := by cases d <;> rfl

theorem subD_WF (mode : Mode) {a b : Datum} (na : a.isNaN = false) (nb : b.isNaN = false) : (subD mode a b).1.WF :=
  addD_WF mode na (by rw [negate_nan]; exact nb)

theorem mulD_WF (mode : Mode) {a b : Datum} (na : a.isNaN = false) (nb : b.isNaN = false) : (mulD mode a b).1.WF := by
  cases a with
  | nan _ _ _ => exact Bool.noConfusion na
  | inf s1 =>
    cases b with
    | nan _ _ _ => exact Bool.noConfusion nb
    | inf s2 => trivial
    | fin s2 c2 e2 => show (if c2 = 0 then invalidResult else (Datum.inf (s1 != s2), 0)).1.WF; split <;> first | trivial | exact inv_WF
  | fin s1 c1 e1 =>
    cases b with
    | nan _ _ _ => exact Bool.noConfusion nb
    | inf s2 => show (if c1 = 0 then invalidResult else (Datum.inf (s1 != s2), 0)).1.WF; split <;> first | trivial | exact inv_WF
    | fin s2 c2 e2 => exact Dec.SourceLevel4.mulD_WF mode s1 s2 c1 c2 e1 e2

theorem divD_WF (mode : Mode) {a b : Datum} (na : a.isNaN = false) (nb : b.isNaN = false) : (divD mode a b).1.WF := by
  cases a with
  | nan _ _ _ => exact Bool.noConfusion na
  | inf s1 =>
    cases b with
    | nan _ _ _ => exact Bool.noConfusion nb
    | inf s2 => exact inv_WF
    | fin s2 c2 e2 => trivial
  | fin s1 c1 e1 =>
    cases b with
    | nan _ _ _ => exact Bool.noConfusion nb
    | inf s2 => exact ⟨by decide, by decide, by decide⟩
    | fin s2 c2 e2 =>
      show (if c2 = 0 then (if c1 = 0 then invalidResult else (Datum.inf (s1 != s2), fDivZero))
        else if c1 = 0 then (zeroAt (s1 != s2) (e1 - e2), 0) else finish mode (s1 != s2) c1 c2 (e1 - e2) (e1 - e2)).1.WF
      by_cases h2 : c2 = 0
      · rw [if_pos h2]; split <;> first | trivial | exact inv_WF
      · rw [if_neg h2]
        by_cases h1 : c1 = 0
        · rw [if_pos h1]; exact Dec.C01GenAddLoop.zeroAt_WF _ _
        · rw [if_neg h1]; exact finish_wf _ _ _ _ _ _ (Nat.pos_of_ne_zero h1) (Nat.pos_of_ne_zero h2)

theorem sqrtD_WF (mode : Mode) {a : Datum} (na : a.isNaN = false) : (sqrtD mode a).1.WF := by
  cases a with
  | nan _ _ _ => exact Bool.noConfusion na
  | inf s => show (if s then invalidResult else (Datum.inf false, 0)).1.WF; split <;> first | trivial | exact inv_WF
  | fin s c e =>
    by_cases hc : c = 0
    · subst hc
      have : sqrtD mode (.fin s 0 e) = (zeroAt s (halfFloor e), 0) := by simp [sqrtD]
      rw [this]; exact Dec.C01GenAddLoop.zeroAt_WF _ _
    · cases s
      · exact Dec.SourceLevel4.sqrtD_pos_WF mode c e hc
      · have : sqrtD mode (.fin true c e) = invalidResult := by simp [sqrtD, hc]
        rw [this]; exact inv_WF

theorem fmaD_WF (mode : Mode) {a b c : Datum} (na : a.isNaN = false) (nb : b.isNaN = false) (nc : c.isNaN = false) :
    (fmaD mode false a b c).1.WF := by
  have key : ∀ (x y z : Datum), (match mulD mode x y with
      | (.inf sp, _) => (match z with
          | .inf s3 => if sp == s3 then (Datum.inf sp, 0) else invalidResult
          | _ => (Datum.inf sp, 0))
      | _ => invalidResult).1.WF := by
    intro x y z
    split
    · split
      · split <;> first | trivial | exact inv_WF
      · trivial
    · exact inv_WF
  cases a with
  | nan _ _ _ => exact Bool.noConfusion na
  | inf s1 => exact key _ _ _
  | fin s1 c1 e1 =>
    cases b with
    | nan _ _ _ => exact Bool.noConfusion nb
    | inf s2 => exact key _ _ _
    | fin s2 c2 e2 =>
      cases c with
      | nan _ _ _ => exact Bool.noConfusion nc
      | inf s3 => trivial
      | fin s3 c3 e3 => exact Dec.C01GenAddLoop.addFin_WF _ _ _ _ _ _ _ _


theorem canon_enc {d : Datum} (w : d.WF) : isCanonical (bitsOf (ofBits (encode d))) = true :=
  (Dec.SourceLevel3.result_datum w).2

theorem canon_qnan (x : U128) : isCanonical (bitsOf (qnanU x)) = true := by
  rw [show bitsOf (qnanU x) = encode (quietNaN (decode (Dec.C06GenFromInt.bitsOf x))) from bitsOf_qnanU x]
  exact isCanonical_encode (quietNaN_WF (decode_WF _))

theorem canon_pick2 (x y : U128) : isCanonical (bitsOf (pick2 x y)) = true := by
  unfold pick2; split <;> exact canon_qnan _

theorem canon_fmaPick (x y z : U128) : isCanonical (bitsOf (fmaPick x y z)) = true := by
  unfold fmaPick; split
  · exact canon_qnan _
  · split <;> exact canon_qnan _

/-- the result word of a binary arithmetic method is canonical whenever the datum-level definition is well-formed on operands
that are not NaNs (the NaN rule's result is the canonical quiet NaN) -/
theorem binSpec_canonical (D : Datum → Datum → Datum × Flags) (x y : U128) (f : UInt32)
    (hD : (dOf x).isNaN = false → (dOf y).isNaN = false → (D (dOf x) (dOf y)).1.WF) :
    isCanonical (bitsOf (binSpec D x y f).1) = true := by
  unfold binSpec
  rw [show Dec.C01GenAddLoop.dOf x = dOf x from rfl, show Dec.C01GenAddLoop.dOf y = dOf y from rfl]
  by_cases hn : ((dOf x).isNaN || (dOf y).isNaN) = true
  · rw [if_pos hn]; exact canon_pick2 x y
  · rw [if_neg hn]
    simp only [Bool.or_eq_true, not_or, Bool.not_eq_true] at hn
    exact canon_enc (hD hn.1 hn.2)

theorem binSpec_same (D : Datum → Datum → Datum × Flags) (x y : U128) (f : UInt32) :
    Dec.C10GenFmodRem.binSpec D x y f = binSpec D x y f := rfl

/-- **C13 for `addition`**: for every pair of patterns, mode and status word the result word is canonical -/
theorem addition_canonical (m : RoundingMode) (f : UInt32) (x y : U128) :
    ∃ r g, run "addition" m f [.d x, .d y] = some (.ok ([.d r], g)) ∧ isCanonical (bitsOf r) = true :=
  ⟨_, _, addition_spec m f x y, binSpec_canonical _ x y f (fun hx hy => addD_WF (md m) hx hy)⟩

/-- **C13 for `subtraction`** -/
theorem subtraction_canonical (m : RoundingMode) (f : UInt32) (x y : U128) :
    ∃ r g, run "subtraction" m f [.d x, .d y] = some (.ok ([.d r], g)) ∧ isCanonical (bitsOf r) = true :=
  ⟨_, _, subtraction_spec m f x y, binSpec_canonical _ x y f (fun hx hy => subD_WF (md m) hx hy)⟩

/-- **C13 for `multiplication`** -/
theorem multiplication_canonical (m : RoundingMode) (f : UInt32) (x y : U128) :
    ∃ r g, run "multiplication" m f [.d x, .d y] = some (.ok ([.d r], g)) ∧ isCanonical (bitsOf r) = true :=
  ⟨_, _, Dec.SourceLevel4.multiplication_spec m f x y, binSpec_canonical _ x y f (fun hx hy => mulD_WF (md m) hx hy)⟩

/-- **C13 for `division`** -/
theorem division_canonical (m : RoundingMode) (f : UInt32) (x y : U128) :
    ∃ r g, run "division" m f [.d x, .d y] = some (.ok ([.d r], g)) ∧ isCanonical (bitsOf r) = true := by
  refine ⟨_, _, Dec.SourceLevel4.division_spec m f x y, ?_⟩
  rw [binSpec_same]
  exact binSpec_canonical _ x y f (fun hx hy => divD_WF (md m) hx hy)

/-- **C13 for `fdim`** -/
theorem fdim_canonical (m : RoundingMode) (f : UInt32) (x y : U128) :
    ∃ r g, run "fdim" m f [.d x, .d y] = some (.ok ([.d r], g)) ∧ isCanonical (bitsOf r) = true := by
  refine ⟨_, _, fdim_spec m f x y, binSpec_canonical _ x y f (fun hx hy => ?_)⟩
  unfold fdimD
  split
  · exact subD_WF (md m) hx hy
  · exact ⟨by decide, by decide, by decide⟩

/-- **C13 for `square_root`** -/
theorem square_root_canonical (m : RoundingMode) (f : UInt32) (x : U128) :
    ∃ r g, run "square_root" m f [.d x] = some (.ok ([.d r], g)) ∧ isCanonical (bitsOf r) = true := by
  refine ⟨_, _, Dec.SourceLevel4.square_root_spec m f x, ?_⟩
  unfold sqrtSpec
  rw [show Dec.SourceLevel3.dOf x = dOf x from rfl]
  by_cases hn : (dOf x).isNaN = true
  · rw [if_pos hn]; exact canon_qnan x
  · rw [if_neg hn]; exact canon_enc (sqrtD_WF (md m) (by simpa using hn))

/-- **C13 for `fused_multiply_add`** -/
theorem fused_multiply_add_canonical (m : RoundingMode) (f : UInt32) (x y z : U128) :
    ∃ r g, run "fused_multiply_add" m f [.d x, .d y, .d z] = some (.ok ([.d r], g)) ∧ isCanonical (bitsOf r) = true := by
  refine ⟨_, _, Dec.SourceLevel4.fused_multiply_add_spec m f x y z, ?_⟩
  unfold fmaSpec
  rw [show Dec.SourceLevel4.dOf x = dOf x from rfl, show Dec.SourceLevel4.dOf y = dOf y from rfl,
    show Dec.SourceLevel4.dOf z = dOf z from rfl]
  by_cases hn : ((dOf x).isNaN || (dOf y).isNaN || (dOf z).isNaN) = true
  · rw [if_pos hn]; exact canon_fmaPick x y z
  · rw [if_neg hn]
    simp only [Bool.or_eq_true, not_or, Bool.not_eq_true] at hn
    exact canon_enc (fmaD_WF (md m) hn.1.1 hn.1.2 hn.2)

/-! ## 3. Audit item 7 — the relations between the operations, about the source -/

/-- the pattern of `1` (`+1E+0`) -/
def one : U128 := ⟨1, 0x3040000000000000⟩

theorem dOf_one : dOf one = .fin false 1 0 := by decide +kernel

/-- the model: with `y = 1` the fused multiply-add is the addition, on all data that are not NaNs (infinities included) -/
theorem fmaD_one (mode : Mode) (a c : Datum) (na : a.isNaN = false) (nc : c.isNaN = false) :
    fmaD mode false a (.fin false 1 0) c = addD mode a c := by
  cases a with
  | nan _ _ _ => exact Bool.noConfusion na
  | inf s1 =>
    cases c with
    | nan _ _ _ => exact Bool.noConfusion nc
    | inf s3 => cases s1 <;> cases s3 <;> rfl
    | fin s3 c3 e3 => cases s1 <;> rfl
  | fin s1 c1 e1 =>
    cases c with
    | nan _ _ _ => exact Bool.noConfusion nc
    | inf s3 => rfl
    | fin s3 c3 e3 => simp [fmaD, addD]

/-- the same with any pattern `o` of `+1E+0` -/
theorem fma_one_is_addition' (m : RoundingMode) (f : UInt32) (x o z : U128) (h1 : dOf o = .fin false 1 0)
    (h : ¬ ((dOf x).isNaN = true ∧ (dOf z).isNaN = true)) :
    run "fused_multiply_add" m f [.d x, .d o, .d z] = run "addition" m f [.d x, .d z] := by
  rw [Dec.SourceLevel4.fused_multiply_add_spec, addition_spec]
  have ho : (dOf o).isNaN = false := by rw [h1]; rfl
  have hos : (dOf o).isSNaN = false := by rw [h1]; rfl
  unfold fmaSpec binSpec fmaPick pick2 nanFlags
  rw [show Dec.SourceLevel4.dOf x = dOf x from rfl, show Dec.SourceLevel4.dOf o = dOf o from rfl,
    show Dec.SourceLevel4.dOf z = dOf z from rfl, show Dec.C01GenAddLoop.dOf x = dOf x from rfl,
    show Dec.C01GenAddLoop.dOf z = dOf z from rfl,
    show decode (Dec.C06GenFromInt.bitsOf o) = dOf o from rfl, show decode (Dec.C06GenFromInt.bitsOf z) = dOf z from rfl,
    show decode (Dec.C06GenFromInt.bitsOf x) = dOf x from rfl]
  generalize hdx : dOf x = dx at *
  generalize hdz : dOf z = dz at *
  generalize hdo : dOf o = d1 at *
  simp only [List.any_cons, List.any_nil, Bool.or_false, ho, hos, Bool.false_eq_true, if_false]
  cases hx : dx.isNaN <;> cases hz : dz.isNaN
  · simp only [Bool.or_false, Bool.false_eq_true, if_false]
    rw [h1, fmaD_one (md m) _ _ hx hz]
  · simp only [Bool.or_true, Bool.false_or, if_true, Bool.false_eq_true, if_false]
  · simp only [Bool.or_false, Bool.false_or, if_true, Bool.false_eq_true, if_false]
  · exact absurd ⟨hx, hz⟩ h

/-- C02: "when y is one it agrees with addition" — about the source: `fused_multiply_add (x, 1, z)` and `addition (x, z)` return
the same result word and the same status word, in every mode and from every status word, for ALL patterns `x`, `z` that are not
BOTH NaNs.  (If both are NaNs the two methods propagate different ones — the fused operation looks at `z` before `x`, the
addition at `x` first — with the same flags; example below.  The property allows either: "one of its NaN operands".) -/
theorem fma_one_is_addition (m : RoundingMode) (f : UInt32) (x z : U128)
    (h : ¬ ((dOf x).isNaN = true ∧ (dOf z).isNaN = true)) :
    run "fused_multiply_add" m f [.d x, .d one, .d z] = run "addition" m f [.d x, .d z] :=
  fma_one_is_addition' m f x one z dOf_one h

/-- C01: "subtraction is addition of the negation" — about the source, ALL operands: `subtraction (x, y)` IS `addition (x, y')`
with `y'` = `y` with its sign bit flipped, unless `y` is a NaN, which is passed unchanged (so `x − NaN` keeps the NaN's sign) -/
theorem subtraction_is_addition (m : RoundingMode) (f : UInt32) (x y : U128) :
    run "subtraction" m f [.d x, .d y] = run "addition" m f [.d x, .d (negY y)] := by
  show some ((bid128_sub x y m f).map _) = some ((bid128_add x (negY y) m f).map _)
  rw [Dec.C06GenFromInt.sub_eq]
  rfl

/-- … and for `y` not a NaN that `y'` is what the method `negate` returns -/
theorem subtraction_is_addition_of_negate (m : RoundingMode) (f : UInt32) (x y : U128) (hy : (dOf y).isNaN = false) :
    ∃ ny, run "negate" m f [.d y] = some (.ok ([.d ny], f)) ∧
      run "subtraction" m f [.d x, .d y] = run "addition" m f [.d x, .d ny] := by
  refine ⟨negY y, ?_, subtraction_is_addition m f x y⟩
  show some ((bid128_negate y).map _) = _
  rw [Dec.C13GenNoncomp.negate_spec]
  unfold negY
  rw [show Dec.C01GenAddLoop.dOf y = dOf y from rfl, hy]
  rfl

/-- C01 / C02: "multiplication is the fused multiply-add with a zero addend" — about the source: outside the zero-factor case
`multiplication (x, y)` IS `fused_multiply_add (y, x, +0E+6111)`.  (With a zero factor the two differ in the sign of zero:
`(−0)·5 = −0` but `(−0)·5 + (+0) = +0`; example below.) -/
theorem multiplication_is_fma (m : RoundingMode) (f : UInt32) (x y : U128)
    (h : ¬ ((dOf x).isFin = true ∧ (dOf y).isFin = true ∧ ((dOf x).isZero = true ∨ (dOf y).isZero = true))) :
    run "multiplication" m f [.d x, .d y] = run "fused_multiply_add" m f [.d y, .d x, .d ⟨0, 0x5ffe000000000000⟩] :=
  Dec.SourceLevel3.multiplication_is_fma m f x y h

/-! ## 4. Examples -/

-- a non-canonical operand (coefficient field ≥ 10^34: read as +0E+1) + 5: the canonical 5E+0; and the result is canonical by theorem
example : run "addition" .NearestEven 0 [.d ⟨0xffffffffffffffff, 0x3043ffffffffffff⟩, .d ⟨5, 0x3040000000000000⟩]
    = some (.ok ([.d ⟨5, 0x3040000000000000⟩], 0)) := by decide +kernel
example (m : RoundingMode) (f : UInt32) : ∃ r g,
    run "addition" m f [.d ⟨0xffffffffffffffff, 0x3043ffffffffffff⟩, .d ⟨5, 0x3040000000000000⟩] = some (.ok ([.d r], g)) ∧
    isCanonical (bitsOf r) = true := addition_canonical m f _ _
example (m : RoundingMode) (f : UInt32) (x y z : U128) : ∃ r g,
    run "fused_multiply_add" m f [.d x, .d y, .d z] = some (.ok ([.d r], g)) ∧ isCanonical (bitsOf r) = true :=
  fused_multiply_add_canonical m f x y z
example : isCanonical (bitsOf ⟨0xffffffffffffffff, 0x3043ffffffffffff⟩) = false := by decide +kernel
-- 7.5·1 + (−7.5) toward −∞ and 7.5 + (−7.5) toward −∞: both −0E−1, status word 8 untouched
example : run "fused_multiply_add" .Downward 8 [.d ⟨75, 0x303e000000000000⟩, .d one, .d ⟨75, 0xb03e000000000000⟩]
    = some (.ok ([.d ⟨0, 0xb03e000000000000⟩], 8)) := by decide +kernel
example : run "addition" .Downward 8 [.d ⟨75, 0x303e000000000000⟩, .d ⟨75, 0xb03e000000000000⟩]
    = some (.ok ([.d ⟨0, 0xb03e000000000000⟩], 8)) := by decide +kernel
example (m : RoundingMode) (f : UInt32) :
    run "fused_multiply_add" m f [.d ⟨75, 0x303e000000000000⟩, .d one, .d ⟨75, 0xb03e000000000000⟩]
      = run "addition" m f [.d ⟨75, 0x303e000000000000⟩, .d ⟨75, 0xb03e000000000000⟩] :=
  fma_one_is_addition m f _ _ (by decide +kernel)
-- both NaNs: NaN(1)·1 + (−NaN(2)) propagates z's NaN, NaN(1) + (−NaN(2)) propagates x's — the excluded case
example : run "fused_multiply_add" .NearestEven 0 [.d ⟨1, 0x7c00000000000000⟩, .d one, .d ⟨2, 0xfc00000000000000⟩]
    = some (.ok ([.d ⟨2, 0xfc00000000000000⟩], 0)) := by decide +kernel
example : run "addition" .NearestEven 0 [.d ⟨1, 0x7c00000000000000⟩, .d ⟨2, 0xfc00000000000000⟩]
    = some (.ok ([.d ⟨1, 0x7c00000000000000⟩], 0)) := by decide +kernel
-- 1 − (−NaN(7)): the NaN keeps its sign (it is not negated); negate 3 = −3
example : run "subtraction" .NearestEven 0 [.d ⟨1, 0x3040000000000000⟩, .d ⟨7, 0xfc00000000000000⟩]
    = some (.ok ([.d ⟨7, 0xfc00000000000000⟩], 0)) := by decide +kernel
example : run "negate" .NearestEven 0 [.d ⟨3, 0x3040000000000000⟩] = some (.ok ([.d ⟨3, 0xb040000000000000⟩], 0)) := by
  decide +kernel
example (m : RoundingMode) (f : UInt32) (x : U128) : ∃ ny, run "negate" m f [.d ⟨3, 0x3040000000000000⟩] = some (.ok ([.d ny], f)) ∧
    run "subtraction" m f [.d x, .d ⟨3, 0x3040000000000000⟩] = run "addition" m f [.d x, .d ny] :=
  subtraction_is_addition_of_negate m f x _ (by decide +kernel)
-- (−0)·5 = −0, but 5·(−0) + (+0E+6111) = +0: why the zero-factor case is excluded from `multiplication_is_fma`
example : run "multiplication" .NearestEven 0 [.d ⟨0, 0xb040000000000000⟩, .d ⟨5, 0x3040000000000000⟩]
    = some (.ok ([.d ⟨0, 0xb040000000000000⟩], 0)) := by decide +kernel
example : run "fused_multiply_add" .NearestEven 0 [.d ⟨5, 0x3040000000000000⟩, .d ⟨0, 0xb040000000000000⟩,
    .d ⟨0, 0x5ffe000000000000⟩] = some (.ok ([.d ⟨0, 0x3040000000000000⟩], 0)) := by decide +kernel
-- the model's well-formedness on the corner cases the audit names
example : (divD .rne (.fin false 1 0) (.fin true 0 5)).1 = .inf true ∧ (mulD .rne (.inf false) (.fin true 0 0)) = invalidResult ∧
    (sqrtD .rne (.fin true 4 0)) = invalidResult := by decide

end Dec.SourceLevel5
