/-
  C01 (generated-code level) — `bid128_add` as machine-translated in `DecGen/Code.lean` (`Dec.Gen.Code.bid128_add`, ~1270
  lines of `do` notation) against the specification-level model `Dec.addD` / `Dec.addFin` / `Dec.finish`, case by case.

  Every case theorem has the form
      bid128_add x y m f = .ok (ofBits (encode (addD (md m) (decode (bitsOf x)) (decode (bitsOf y))).1),
                                f ||| UInt32.ofNat (addD …).2)
  for ALL patterns in its case, every rounding mode, every incoming status word (so: no panic, canonical result, flags OR-ed).

  Cases proved (hypotheses in terms of the decoded operands):
    add_nan            (imported, C12GenNaN)  some operand a NaN
    add_inf            an infinite operand, no NaN: Inf+Inf same sign, Inf−Inf (invalid, default NaN), Inf+finite
    add_zero_zero      0 + 0, canonical zeros and non-canonical encodings (which the code replaces by zeros): smaller
                       exponent; negative iff both negative, or signs differ and the mode is Downward
    add_zero_left      0 + y, y ≠ 0: y if its exponent is not above the zero's, else y with min (gap, 34 − q) zeros appended
    add_zero_right     x + 0: the mirror image
    add_exact          two non-zero numbers in the code's exact branch `0 ≤ delta ≤ P34 − 1 − q2` (`ExactCond`): the exact
                       sum / difference at the smaller exponent, the zero difference with the mode's sign
    add_fits           two non-zero numbers, `FitsCond`: the aligned coefficient of the operand with the larger exponent has
                       at most 34 digits and (same signs) the sum stays below 10^34 — the branches `delta < 0`,
                       `0 ≤ delta ≤ 33 − q2`, `delta = 34 − q2` wherever the code does not round (`fits_of_exact`: contains
                       `ExactCond`)
    add_aligned        two non-zero numbers, `AlignedCond`: the aligned coefficient of the operand with the larger exponent has
                       at most 34 digits — the branches `delta < 0`, `0 ≤ delta ≤ 33 − q2`, `delta = 34 − q2` COMPLETELY: in
                       addition to `add_fits` the same-sign sums in [10^34, 2·10^34), which the code rounds to 34 digits by
                       the reciprocal `ten2m1 = (2^128 + 1024)/10` (`rndTail`, the same source text in both branches;
                       `rndTail_spec`: it is `finish` for all five modes — this is the place of the former defect D1 —,
                       inexact iff the digit removed is not 0, overflow exits by mode and sign)
    add_far            two non-zero numbers, `FarCond`: `delta ≥ P34 + 1`, the operand of the smaller exponent is below a tenth
                       of a unit of the 34th digit of the other: that one padded to 34 digits, its last digit moved by one
                       unit or not by mode and signs (`farOut`), with the cases around a power of ten (`10^34 → 10^33`,
                       `10^33 − 1 → 10^34 − 1`, the half-unit test below `10^33` for `delta = 35`) and the overflow exit;
                       always inexact (`farTail` = the source text, `farTail_spec`, `finish_long` / `finish_far_*` on the
                       model side, `padFarK_ok` the padding)
    add_cases_covered  the union (`Covered`), `not_covered_iff` its complement: two non-zero numbers with
                       `34 − q2 < delta ≤ 34` — the rounding loop with `BID_TEN2MK128` and the branch `delta = 34` (half-unit
                       comparisons) — nothing is claimed there.
  Findings: none on the covered region (the code agrees with `addD` everywhere there).  Two harmless oddities of the source
  are visible in the proofs: in `0 + y` / `x + 0` with nothing to append (`scale = 0`) the code still ORs sign and exponent
  words into the copied operand (no change, `or_and_absorb`); in the branch `delta < 0` the "difference came out negative"
  code assigns `x_sign` and then assembles the result with `y_sign` — dead code (|C2| > |C1·10^scale| there), not reached.

  Method.  The routine is never normalised.  `head_step` / `take_pos` / `take_neg` (C12GenNaN) step through it; new here:
    sym_exec     symbolic execution of a region of the `do` block up to its join point: `bind`s whose first argument is
                 (or is proved by a hypothesis to be) `.ok v` are run, tests decided by a hypothesis are taken, and the
                 remaining `if`s whose branches end in the same join point are MERGED: `if c then jp a else jp b` becomes
                 `jp (if c then a else b)` (proof terms generic in the join point and in the arguments, so the kernel never
                 compares two copies of the rest of the routine);
    sym_exec!    the same, running through the join points too (for a region that ends the routine);
    gen_args     replaces arguments of the join point at the head by variables `v` with `hv : v = …`.
  So the nine ways of unpacking two operands, the digit counts (`BID_NR_DIGITS` through the exponent of a double, inline in
  `bid128_add`: `digits_row`), the operand swap … are each ONE path, and the arithmetic is done on small terms:
  `fin_view` (what the unpacked words are), `padK_ok` / `alignK_ok` (the multiplications by powers of ten),
  `exactRes_spec` (two-word add / subtract / negate, result assembly), `finish_exact` (the universal rounding step on a
  member of the format, via `finish_eq_iff`), `addFin_exact`; for the rounded sums `prod_words` (the two halves of
  `(S+5)·ten2m1`), `midT_eq` … `p2Of_spec`, `ind_ok` (what the midpoint / inexact indicators mean), `adjust_ok` (the
  correction by rounding mode is `roundInt`), `fin3_spec` (overflow exits), `finish_35` (`finish` on 35 digits, computed).
  Dead code seen on the way: in `rndTail` the "rounding overflow to 10^34" and "borrow to 10^33 − 1" corrections cannot
  happen (the quotient is in [10^33, 2·10^33]).
-/
import Lean.Elab.Tactic
import DecProofs.Properties.C12GenNaN
import DecProofs.Properties.C13GenPack
import DecProofs.Properties.C13GenNoncomp
import DecProofs.Properties.C01GenArith
import DecProofs.Core.FinishUnique
import Mathlib.Tactic.IntervalCases

namespace Dec.C01GenAdd
open Dec.Rs Dec.Gen.Code Dec.C06GenFromInt Dec.C12GenNaN
open Dec.C13GenPack (md)
set_option linter.unusedVariables false
set_option linter.unusedTactic false
set_option linter.unreachableTactic false
set_option linter.unusedSectionVars false

theorem ite_congr_branches {β : Sort u} (c : Prop) [Decidable c] {t t' e e' : β} (ht : t = t') (he : e = e') :
    (if c then t else e) = (if c then t' else e') := by subst ht; subst he; rfl

namespace Sym
open Lean Meta Elab Tactic

/-- zeta-reduce the leading `have`/`let`s of a term (no β, nothing else) -/
partial def zetaHead (e : Expr) : Expr :=
  match e with
  | .mdata _ b => zetaHead b
  | .letE _ _ v b _ => zetaHead (b.instantiate1 v)
  | e' => e'

def mkEqTrans' (u : Level) (ty a b c p q : Expr) : Expr := mkApp6 (.const ``Eq.trans [u]) ty a b c p q
def mkEqRefl' (u : Level) (ty a : Expr) : Expr := mkApp2 (.const ``Eq.refl [u]) ty a

/-- is `a` visibly `Except.ok v` (or `pure v`), or is there a hypothesis `a = Except.ok v`?  returns `v` and a proof of
`a = Except.ok v` -/
def findOk (a : Expr) : MetaM (Option (Expr × Expr)) := do
  match a.getAppFn, a.getAppArgs with
  | .const ``Except.ok _, #[ε, α, v] => return some (v, mkEqRefl' (.succ .zero) (mkApp2 (.const ``Except [.zero, .zero]) ε α) a)
  | .const ``Pure.pure _, #[m, _, α, v] => return some (v, mkEqRefl' (.succ .zero) (mkApp m α) a)
  | _, _ =>
    for d in ← getLCtx do
      if d.isImplementationDetail then continue
      let t ← instantiateMVars d.type
      let some (_, lhs, rhs) := t.eq? | continue
      unless rhs.isAppOfArity ``Except.ok 3 do continue
      if lhs == a then return some (rhs.appArg!, d.toExpr)
      if lhs.getAppFn == a.getAppFn && lhs.getAppNumArgs == a.getAppNumArgs then
        if ← withReducible (isDefEq lhs a) then return some (rhs.appArg!, d.toExpr)
    return none

/-- is the test `c` (or its negation) among the hypotheses? -/
def findDecided (c : Expr) : MetaM (Option (Bool × Expr)) := do
  let nc := mkNot c
  for d in ← getLCtx do
    if d.isImplementationDetail then continue
    let t ← instantiateMVars d.type
    if t == c then return some (true, d.toExpr)
    if t == nc then return some (false, d.toExpr)
  return none

/-- Symbolic execution of a region of a translated `do` block, up to its join point.  `e : ty`.  Steps: leading `have`s
(ζ), `bind a k` with `a` visibly or provably `.ok v` (`k v`, β), `if c then t else e` (both branches executed; if they end in
the same continuation `F` — a join point λ, `pure`, `Except.ok` — applied to arguments, the test is pushed into the
arguments: `F (if c then a₁ else b₁) …`).  Returns the new term and a proof of `e = new` (`none`: definitionally equal). -/
partial def symExec (deep : Bool) (u : Level) (ty : Expr) (e0 : Expr) : MetaM (Expr × Option Expr) := do
  let e := zetaHead e0
  if deep && e.getAppFn.isLambda && e.getAppNumArgs > 0 then
    return ← symExec deep u ty e.headBeta
  if deep && e.getAppFn.isFVar then
    if let some v ← e.getAppFn.fvarId!.getValue? then
      return ← symExec deep u ty (mkAppN v e.getAppArgs).headBeta
  match e.getAppFn, e.getAppArgs with
  | .const ``ite [_], #[α, c, inst, t, el] =>
    -- a test decided by a hypothesis
    if let some (pos, h) ← findDecided c then
      let br := if pos then t else el
      let p1 := mkAppN (.const (if pos then ``if_pos else ``if_neg) [u]) #[c, inst, h, α, t, el]
      let (r, p2?) ← symExec deep u ty br
      let p := match p2? with
        | none => p1
        | some p2 => mkEqTrans' u α e br r p1 p2
      return (r, some p)
    let (t', pt?) ← symExec deep u ty t
    let (el', pel?) ← symExec deep u ty el
    let refl (x : Expr) : Expr := mkEqRefl' u α x
    let eA := mkApp5 (.const ``ite [u]) α c inst t' el'
    let pA? : Option Expr :=
      if pt?.isNone && pel?.isNone then none
      else some (mkAppN (.const ``ite_congr_branches [u]) #[α, c, inst, t, t', el, el', pt?.getD (refl t), pel?.getD (refl el)])
    let f := t'.getAppFn
    let as := t'.getAppArgs
    let bs := el'.getAppArgs
    let okHead := f.isLambda || f.isConstOf ``Pure.pure || f.isConstOf ``Except.ok
    if okHead && as.size == bs.size && as.size > 0 && f == el'.getAppFn then
      let dTy := mkApp (.const ``Decidable []) c
      let mut tys := #[]
      for i in [0:as.size] do
        if as[i]! == bs[i]! then tys := tys.push none
        else
          let aty ← inferType as[i]!
          let v ← getLevel aty
          tys := tys.push (some (aty, v))
      let fTy ← inferType f
      let mkRf (f : Expr) (d : Expr) (as bs : Array Expr) : Expr := Id.run do
        let mut args := #[]
        for i in [0:as.size] do
          match tys[i]! with
          | none => args := args.push as[i]!
          | some (aty, v) => args := args.push (mkApp5 (.const ``ite [v]) aty c d as[i]! bs[i]!)
        return mkAppN f args
      let r := mkRf f inst as bs
      -- the generic statement, with the continuation and the differing arguments as variables
      let rec mkVars (i : Nat) (as' bs' vars vals : Array Expr) (k : Array Expr → Array Expr → Array Expr → Array Expr → MetaM Expr) :
          MetaM Expr := do
        if i < as.size then
          match tys[i]! with
          | none => mkVars (i+1) (as'.push as[i]!) (bs'.push bs[i]!) vars vals k
          | some (aty, _) =>
            withLocalDeclD `a aty fun a => withLocalDeclD `b aty fun b =>
              mkVars (i+1) (as'.push a) (bs'.push b) (vars.push a |>.push b) (vals.push as[i]! |>.push bs[i]!) k
        else k as' bs' vars vals
      let pB ← withLocalDeclD `F fTy fun F => mkVars 0 #[] #[] #[] #[] fun as' bs' vars vals => do
        let tF := mkAppN F as'
        let eF := mkAppN F bs'
        let motive ← withLocalDeclD `d dTy fun d => do
          let lhsd := mkApp5 (.const ``ite [u]) α c d tF eF
          mkLambdaFVars #[d] (mkApp3 (.const ``Eq [u]) α lhsd (mkRf F d as' bs'))
        let mF := Expr.lam `h (mkNot c) (refl eF) .default
        let mT := Expr.lam `h c (refl tF) .default
        let pF := mkAppN (.const ``Decidable.casesOn [Level.zero]) #[c, motive, inst, mF, mT]
        return mkAppN (mkApp (← mkLambdaFVars (#[F] ++ vars) pF) f) vals
      let p := match pA? with
        | none => pB
        | some pA => mkEqTrans' u α e eA r pA pB
      return (r, some p)
    else
      return (eA, pA?)
  | .const ``Bind.bind _, #[m, _, α, β, a, k] =>
    let (a', pa?) ← symExec deep u (mkApp m α) a
    let some (v, h) ← findOk a' | return (e, none)
    let aTy := mkApp m α
    let hTot := match pa? with
      | none => h
      | some pa => mkEqTrans' u aTy a a' (mkApp3 (.const ``Except.ok [.zero, .zero]) (m.appArg!) α v) pa h
    let e1 := k.beta #[v]
    let p1 := mkAppN (.const ``bind_ok_step []) #[α, β, a, v, hTot, k]
    let (e2, p2?) ← symExec deep u ty e1
    let p := match p2? with
      | none => p1
      | some p2 => mkEqTrans' u ty e e1 e2 p1 p2
    return (e2, some p)
  | _, _ => return (e, none)

/-- run `symExec` on the left-hand side of the goal -/
def symExecTac (deep : Bool) : TacticM Unit := withMainContext do
  let g ← getMainGoal
  let t := (← instantiateMVars (← g.getType)).consumeMData
  let some (ty, lhs, rhs) := t.eq? | throwError "sym_exec: not an equation"
  let u ← getLevel ty
  let (lhs', p?) ← symExec deep u ty lhs
  match p? with
  | none =>
    let g' ← g.replaceTargetDefEq (mkApp3 (.const ``Eq [u]) ty lhs' rhs)
    replaceMainGoal [g']
  | some p =>
    let rest ← mkFreshExprSyntheticOpaqueMVar (mkApp3 (.const ``Eq [u]) ty lhs' rhs) `rest
    g.assign (mkEqTrans' u ty lhs lhs' rhs p rest)
    replaceMainGoal [rest.mvarId!]

/-- symbolic execution up to the next join point -/
elab "sym_exec" : tactic => symExecTac false
/-- symbolic execution through the join points as well (for a region that ends the routine) -/
elab "sym_exec!" : tactic => symExecTac true

/-- the left-hand side is `F a₁ … aₙ`: replace the arguments named (not `_`) by fresh variables `v` with `hv : v = aᵢ` -/
elab "gen_args" ns:(ppSpace colGt binderIdent)* : tactic => do
  for i in [0:ns.size] do
    match ns[i]! with
    | `(binderIdent| $n:ident) =>
      let g ← getMainGoal
      let g'' ← g.withContext do
        let t := (← instantiateMVars (← g.getType)).consumeMData
        let some (ty, lhs, rhs) := t.eq? | throwError "gen_args: not an equation"
        let u ← getLevel ty
        let f := lhs.getAppFn
        let as := lhs.getAppArgs
        if i ≥ as.size then throwError "gen_args: only {as.size} arguments"
        let a := as[i]!
        let aTy ← inferType a
        let v ← getLevel aTy
        let name := n.getId
        let hname := Name.mkSimple ("h" ++ name.toString)
        -- ∀ x, x = a → F … x … = rhs
        let newTy ← withLocalDeclD name aTy fun x => do
          let eqn := mkApp3 (.const ``Eq [v]) aTy x a
          let body := mkApp3 (.const ``Eq [u]) ty (mkAppN f (as.set! i x)) rhs
          mkForallFVars #[x] (← mkArrow eqn body)
        let g' ← mkFreshExprSyntheticOpaqueMVar newTy
        g.assign (mkApp2 g' a (mkEqRefl' v aTy a))
        let (_, g'') ← g'.mvarId!.introN 2 [name, hname]
        pure g''
      replaceMainGoal [g'']
    | _ => pure ()

/-- print the arguments of the application on the left-hand side (not its head) -/
elab "show_args" : tactic => withMainContext do
  let g ← getMainGoal
  let t := (← instantiateMVars (← g.getType)).consumeMData
  let some (_, lhs, _) := t.eq? | throwError "show_args: not an equation"
  let f := lhs.getAppFn
  let hd : String := if f.isLambda then "λ" else if f.isConst then f.constName!.toString else "?"
  logInfo m!"head {hd}, args {lhs.getAppArgs}"

/-- print a bounded prefix of the goal's left-hand side -/
elab "show_head " n:num : tactic => withMainContext do
  let g ← getMainGoal
  let t := (← instantiateMVars (← g.getType)).consumeMData
  let some (_, lhs, _) := t.eq? | throwError "show_head: not an equation"
  let s := toString (← withOptions (fun o => (o.set `pp.deepTerms.threshold (8:Nat)).set `pp.deepTerms false) (ppExpr lhs))
  logInfo m!"{(s.take n.getNat)}"

end Sym

open Sym

/-! ## 1. Infinite operands -/

theorem isInf_iff (b : Nat) : (decode b).isInf = decide (b / 2^123 % 16 = 15 ∧ b / 2^122 % 2 = 0) := by
  rcases decode_cases b with ⟨h1, h2⟩ | ⟨h1, h2⟩ | ⟨h1, h2⟩ | ⟨h1, h2⟩
  · rw [decode_inf _ h1 h2]; exact (decide_eq_true ⟨h1, h2⟩).symm
  · rw [decode_nan _ h1 h2]; exact (decide_eq_false (by omega)).symm
  · rw [decode_large _ h1 h2]; exact (decide_eq_false (by omega)).symm
  · rw [decode_small _ h1 h2]; exact (decide_eq_false (by omega)).symm

theorem inf_c (x : U128) : (x.w1 &&& c_MASK_ANY_INF == c_MASK_INF) = (decode (bitsOf x)).isInf := by
  rw [test_anyinf, isInf_iff]

/-- an infinite datum is `.inf` of its sign -/
theorem inf_eq {d : Datum} (h : d.isInf = true) : d = .inf d.neg := by
  cases d <;> first | rfl | exact Bool.noConfusion h

theorem special_iff (x : U128) :
    (x.w1 &&& c_MASK_SPECIAL == c_MASK_SPECIAL) = ((decode (bitsOf x)).isInf || (decode (bitsOf x)).isNaN) := by
  rw [test_special, isInf_iff, isNaN_iff, Bool.eq_iff_iff]
  simp only [Bool.or_eq_true, decide_eq_true_eq]
  omega

/-- the infinity the code assembles from the sign word of an operand: `sign | MASK_INF`, low word 0 -/
theorem inf_pattern (x : U128) :
    (⟨0, x.w1 &&& c_MASK_SIGN ||| c_MASK_INF⟩ : U128) = ofBits (encode (.inf (decode (bitsOf x)).neg)) := by
  apply eq_ofBits
  have hs := sign_word x
  unfold bitsOf at *
  show ((x.w1 &&& 0x8000000000000000 ||| 0x7800000000000000 : UInt64)).toNat * 2^64 + (0 : UInt64).toNat = _
  rw [UInt64.toNat_or, hs, UInt64.toNat_zero, show (0x7800000000000000 : UInt64).toNat = 0x7800000000000000 from rfl]
  cases (decode (x.w1.toNat * 2^64 + x.w0.toNat)).neg
  · simp only [Bool.false_eq_true, if_false, encode, signBit]; decide
  · simp only [if_true, encode, signBit]; decide

theorem sign_eq_test (x y : U128) :
    (x.w1 &&& c_MASK_SIGN == y.w1 &&& c_MASK_SIGN) = ((decode (bitsOf x)).neg == (decode (bitsOf y)).neg) := by
  have hx := sign_word x
  have hy := sign_word y
  rw [Bool.eq_iff_iff, beq_iff_eq, beq_iff_eq, ← UInt64.toNat_inj]
  show (x.w1 &&& 0x8000000000000000).toNat = (y.w1 &&& 0x8000000000000000).toNat ↔ _
  rw [hx, hy]
  cases (decode (bitsOf x)).neg <;> cases (decode (bitsOf y)).neg <;> simp

theorem or_zero32 (f : UInt32) : f ||| UInt32.ofNat 0 = f := by
  show f ||| 0 = f
  exact UInt32.or_zero

/-- the front of `bid128_add` when some operand is special and none is a NaN: the four exits, at the level of the code's
own tests -/
theorem code_inf_inf_same (x y : U128) (m : RoundingMode) (f : UInt32)
    (hsp : ((x.w1 &&& c_MASK_SPECIAL == c_MASK_SPECIAL) || (y.w1 &&& c_MASK_SPECIAL == c_MASK_SPECIAL)) = true)
    (hx : ¬ (x.w1 &&& c_MASK_NAN == c_MASK_NAN) = true) (hy : ¬ (y.w1 &&& c_MASK_NAN == c_MASK_NAN) = true)
    (hxi : (x.w1 &&& c_MASK_ANY_INF == c_MASK_INF) = true) (hyi : (y.w1 &&& c_MASK_ANY_INF == c_MASK_INF) = true)
    (hs : (x.w1 &&& c_MASK_SIGN == y.w1 &&& c_MASK_SIGN) = true) :
    bid128_add x y m f = .ok (⟨0, x.w1 &&& c_MASK_SIGN ||| c_MASK_INF⟩, f) := by
  unfold bid128_add
  take_pos
  · exact hsp
  take_neg
  · exact hx
  take_neg
  · exact hy
  take_pos
  · exact hxi
  take_pos
  · exact hyi
  take_pos
  · exact hs
  rfl

theorem code_inf_inf_opp (x y : U128) (m : RoundingMode) (f : UInt32)
    (hsp : ((x.w1 &&& c_MASK_SPECIAL == c_MASK_SPECIAL) || (y.w1 &&& c_MASK_SPECIAL == c_MASK_SPECIAL)) = true)
    (hx : ¬ (x.w1 &&& c_MASK_NAN == c_MASK_NAN) = true) (hy : ¬ (y.w1 &&& c_MASK_NAN == c_MASK_NAN) = true)
    (hxi : (x.w1 &&& c_MASK_ANY_INF == c_MASK_INF) = true) (hyi : (y.w1 &&& c_MASK_ANY_INF == c_MASK_INF) = true)
    (hs : ¬ (x.w1 &&& c_MASK_SIGN == y.w1 &&& c_MASK_SIGN) = true) :
    bid128_add x y m f = .ok (⟨0, 0x7c00000000000000⟩, f ||| 1) := by
  unfold bid128_add
  take_pos
  · exact hsp
  take_neg
  · exact hx
  take_neg
  · exact hy
  take_pos
  · exact hxi
  take_pos
  · exact hyi
  take_neg
  · exact hs
  rfl

theorem code_inf_fin (x y : U128) (m : RoundingMode) (f : UInt32)
    (hsp : ((x.w1 &&& c_MASK_SPECIAL == c_MASK_SPECIAL) || (y.w1 &&& c_MASK_SPECIAL == c_MASK_SPECIAL)) = true)
    (hx : ¬ (x.w1 &&& c_MASK_NAN == c_MASK_NAN) = true) (hy : ¬ (y.w1 &&& c_MASK_NAN == c_MASK_NAN) = true)
    (hxi : (x.w1 &&& c_MASK_ANY_INF == c_MASK_INF) = true) (hyi : ¬ (y.w1 &&& c_MASK_ANY_INF == c_MASK_INF) = true) :
    bid128_add x y m f = .ok (⟨0, x.w1 &&& c_MASK_SIGN ||| c_MASK_INF⟩, f) := by
  unfold bid128_add
  take_pos
  · exact hsp
  take_neg
  · exact hx
  take_neg
  · exact hy
  take_pos
  · exact hxi
  take_neg
  · exact hyi
  rfl

theorem code_fin_inf (x y : U128) (m : RoundingMode) (f : UInt32)
    (hsp : ((x.w1 &&& c_MASK_SPECIAL == c_MASK_SPECIAL) || (y.w1 &&& c_MASK_SPECIAL == c_MASK_SPECIAL)) = true)
    (hx : ¬ (x.w1 &&& c_MASK_NAN == c_MASK_NAN) = true) (hy : ¬ (y.w1 &&& c_MASK_NAN == c_MASK_NAN) = true)
    (hxi : ¬ (x.w1 &&& c_MASK_ANY_INF == c_MASK_INF) = true) :
    bid128_add x y m f = .ok (⟨0, y.w1 &&& c_MASK_SIGN ||| c_MASK_INF⟩, f) := by
  unfold bid128_add
  take_pos
  · exact hsp
  take_neg
  · exact hx
  take_neg
  · exact hy
  take_neg
  · exact hxi
  rfl

theorem addD_inf_inf (mode : Mode) (a b : Bool) :
    addD mode (.inf a) (.inf b) = if a == b then (.inf a, 0) else invalidResult := rfl
theorem addD_inf_left (mode : Mode) (a : Bool) (d : Datum) (hn : d.isNaN = false) (hi : d.isInf = false) :
    addD mode (.inf a) d = (.inf a, 0) := by
  cases d with
  | fin s c e => rfl
  | inf s => exact Bool.noConfusion hi
  | nan s g p => exact Bool.noConfusion hn
theorem addD_inf_right (mode : Mode) (a : Bool) (d : Datum) (hn : d.isNaN = false) (hi : d.isInf = false) :
    addD mode d (.inf a) = (.inf a, 0) := by
  cases d with
  | fin s c e => rfl
  | inf s => exact Bool.noConfusion hi
  | nan s g p => exact Bool.noConfusion hn

theorem not_true_eq_false' {b : Bool} (h : ¬ b = true) : b = false := by cases b <;> simp_all

/-- **`bid128_add`, an infinite operand** (no NaN): `Inf + Inf` of one sign and `Inf + finite` give that infinity, no flag;
`Inf + (−Inf)` gives the default NaN with invalid. -/
theorem add_inf (x y : U128) (m : RoundingMode) (f : UInt32)
    (hx : (decode (bitsOf x)).isNaN = false) (hy : (decode (bitsOf y)).isNaN = false)
    (hi : (decode (bitsOf x)).isInf = true ∨ (decode (bitsOf y)).isInf = true) :
    bid128_add x y m f =
      .ok (ofBits (encode (addD (md m) (decode (bitsOf x)) (decode (bitsOf y))).1),
           f ||| UInt32.ofNat (addD (md m) (decode (bitsOf x)) (decode (bitsOf y))).2) := by
  have hsp : ((x.w1 &&& c_MASK_SPECIAL == c_MASK_SPECIAL) || (y.w1 &&& c_MASK_SPECIAL == c_MASK_SPECIAL)) = true := by
    rw [special_iff, special_iff, hx, hy]
    rcases hi with h | h <;> rw [h] <;> simp
  have hxn : ¬ (x.w1 &&& c_MASK_NAN == c_MASK_NAN) = true := by rw [nan_c x, hx]; decide
  have hyn : ¬ (y.w1 &&& c_MASK_NAN == c_MASK_NAN) = true := by rw [nan_c y, hy]; decide
  by_cases hxi : (decode (bitsOf x)).isInf = true
  · by_cases hyi : (decode (bitsOf y)).isInf = true
    · have hR : addD (md m) (decode (bitsOf x)) (decode (bitsOf y)) =
          if (decode (bitsOf x)).neg == (decode (bitsOf y)).neg then (.inf (decode (bitsOf x)).neg, 0) else invalidResult := by
        conv_lhs => rw [inf_eq hxi, inf_eq hyi]
        exact addD_inf_inf _ _ _
      rw [hR]
      by_cases hs : ((decode (bitsOf x)).neg == (decode (bitsOf y)).neg) = true
      · rw [code_inf_inf_same x y m f hsp hxn hyn ((inf_c x).trans hxi) ((inf_c y).trans hyi)
          ((sign_eq_test x y).trans hs), inf_pattern x, if_pos hs, or_zero32]
      · rw [code_inf_inf_opp x y m f hsp hxn hyn ((inf_c x).trans hxi) ((inf_c y).trans hyi)
          (by rw [sign_eq_test x y]; exact hs), if_neg hs]
        rfl
    · have hR : addD (md m) (decode (bitsOf x)) (decode (bitsOf y)) = (.inf (decode (bitsOf x)).neg, 0) := by
        conv_lhs => rw [inf_eq hxi]
        exact addD_inf_left _ _ _ hy (not_true_eq_false' hyi)
      rw [hR, code_inf_fin x y m f hsp hxn hyn ((inf_c x).trans hxi) (by rw [inf_c y]; exact hyi), inf_pattern x,
        or_zero32]
  · have hyi : (decode (bitsOf y)).isInf = true := by
      rcases hi with h | h
      · exact absurd h hxi
      · exact h
    have hR : addD (md m) (decode (bitsOf x)) (decode (bitsOf y)) = (.inf (decode (bitsOf y)).neg, 0) := by
      conv_lhs => rw [inf_eq hyi]
      exact addD_inf_right _ _ _ hx (not_true_eq_false' hxi)
    rw [hR, code_fin_inf x y m f hsp hxn hyn (by rw [inf_c x]; exact hxi), inf_pattern y, or_zero32]

-- +Inf + (−Inf): invalid, the default NaN; +Inf + 5E0 = +Inf (the incoming status word is kept)
example : bid128_add ⟨0, 0x7800000000000000⟩ ⟨0, 0xf800000000000000⟩ .NearestEven 0x20
    = .ok (⟨0, 0x7c00000000000000⟩, 0x21) := by
  rw [add_inf _ _ _ _ (by decide +kernel) (by decide +kernel) (Or.inl (by decide +kernel))]
  decide +kernel
example : bid128_add ⟨0, 0x7800000000000000⟩ ⟨5, 0x3040000000000000⟩ .Upward 0x20
    = .ok (⟨0, 0x7800000000000000⟩, 0x20) := by
  rw [add_inf _ _ _ _ (by decide +kernel) (by decide +kernel) (Or.inl (by decide +kernel))]
  decide +kernel

/-! ## 2. Finite operands as the code unpacks them -/

open Dec.C13GenNoncomp (decodeW decodeW_cases)

/-- the exponent word the code unpacks (biased exponent, still at bit 49): from bits 47.. for the steering-bit form -/
def uE (w : U128) : UInt64 :=
  if (w.w1 &&& 6917529027641081856 == 6917529027641081856) = true then w.w1 <<< 2 &&& c_MASK_EXP else w.w1 &&& c_MASK_EXP
/-- the high coefficient word the code unpacks: 0 for the non-canonical encodings (steering bits, field ≥ 10^34) -/
def uH (w : U128) : UInt64 :=
  if (w.w1 &&& 6917529027641081856 == 6917529027641081856) = true then 0
  else
    if (decide (w.w1 &&& c_MASK_COEFF > 542101086242752) ||
        w.w1 &&& c_MASK_COEFF == 542101086242752 && decide (w.w0 > 4003012203950112767)) = true then 0
    else w.w1 &&& c_MASK_COEFF
/-- the low coefficient word the code unpacks -/
def uL (w : U128) : UInt64 :=
  if (w.w1 &&& 6917529027641081856 == 6917529027641081856) = true then 0
  else
    if (decide (w.w1 &&& c_MASK_COEFF > 542101086242752) ||
        w.w1 &&& c_MASK_COEFF == 542101086242752 && decide (w.w0 > 4003012203950112767)) = true then 0
    else w.w0

theorem tB_eq (w : U128) :
    (decide (w.w1 &&& c_MASK_COEFF > 542101086242752) ||
        w.w1 &&& c_MASK_COEFF == 542101086242752 && decide (w.w0 > 4003012203950112767))
      = decide (P34 ≤ w.w1.toNat % 2^49 * 2^64 + w.w0.toNat) := by
  rw [C13GenNoncomp.gt128, show c_MASK_COEFF = (0x1ffffffffffff : UInt64) from rfl, C13GenNoncomp.coeff_hi,
    show (542101086242752 : UInt64).toNat = 542101086242752 from rfl,
    show (4003012203950112767 : UInt64).toNat = 4003012203950112767 from rfl]
  unfold P34
  congr 1

theorem shl2_exp (w : UInt64) : ((w <<< 2) &&& c_MASK_EXP).toNat = (w.toNat / 2^47 % 2^14) * 2^49 := by
  rw [C13GenNoncomp.toNat_and_field _ c_MASK_EXP 14 49 (by decide), UInt64.toNat_shiftLeft,
    show (2 : UInt64).toNat % 64 = 2 from by decide, Nat.shiftLeft_eq]
  have := w.toNat_lt
  omega
theorem exp_field (w : UInt64) : (w &&& c_MASK_EXP).toNat = (w.toNat / 2^49 % 2^14) * 2^49 :=
  C13GenNoncomp.toNat_and_field _ c_MASK_EXP 14 49 (by decide)

/-- **a finite operand as `bid128_add` unpacks it**: the two coefficient words hold the datum's coefficient (0 for the
non-canonical encodings), the exponent word its biased exponent at bit 49, the sign word its sign; a non-zero coefficient
means the pattern is the canonical encoding of the datum -/
theorem fin_view (x : U128) {s : Bool} {c : Nat} {e : Int} (hD : decode (bitsOf x) = .fin s c e) :
    ¬ (x.w1 &&& c_MASK_SPECIAL == c_MASK_SPECIAL) = true ∧
    (uH x).toNat * 2^64 + (uL x).toNat = c ∧ c < P34 ∧
    (uE x).toNat = (e + 6176).toNat * 2^49 ∧ -6176 ≤ e ∧ e ≤ 6111 ∧
    (x.w1 &&& c_MASK_SIGN).toNat = (if s then 2^63 else 0) ∧
    (c ≠ 0 → bitsOf x = encode (.fin s c e)) := by
  have hwf := decode_WF (bitsOf x)
  have hsgn : (x.w1 &&& c_MASK_SIGN).toNat = (x.w1.toNat / 2^63 % 2^1) * 2^63 :=
    C13GenNoncomp.toNat_and_field _ c_MASK_SIGN 1 63 (by decide)
  have hl := x.w0.toNat_lt
  have hh := x.w1.toNat_lt
  have hsp : (x.w1 &&& c_MASK_SPECIAL == c_MASK_SPECIAL) = decide (x.w1.toNat / 2^59 % 16 = 15) :=
    C13GenNoncomp.inf_test x.w1
  have hW : decode (bitsOf x) = decodeW x.w1.toNat x.w0.toNat := C13GenNoncomp.decode_bitsOf x
  rw [hW] at hD hwf
  have hts := C13GenNoncomp.steer_test x.w1
  have htb := tB_eq x
  rcases decodeW_cases x.w1.toNat x.w0.toNat with ⟨h1, h2, hd⟩ | ⟨h1, h2, h3, hd⟩ | ⟨h1, h2, h3, hd⟩ | ⟨h1, h2, hd⟩ |
    ⟨h1, h2, h3, hd⟩ | ⟨h1, h2, h3, hd⟩ <;> rw [hd] at hD hwf <;> cases hD
  · -- steering bits 11
    have ts : (x.w1 &&& 6917529027641081856 == 6917529027641081856) = true := by rw [hts]; simpa using h2
    obtain ⟨w1, w2, w3⟩ := hwf
    simp only [eMin, eMax] at w2 w3
    refine ⟨by rw [hsp]; simpa using h1, ?_, w1, ?_, w2, w3, ?_, fun h => absurd rfl h⟩
    · rw [uH, uL, if_pos ts, if_pos ts]; rfl
    · rw [uE, if_pos ts, shl2_exp]; omega
    · rw [hsgn]
      by_cases hb : x.w1.toNat / 2^63 % 2 = 1
      · rw [if_pos (by simpa using hb)]; omega
      · rw [if_neg (by simpa using hb)]; omega
  · -- canonical
    have ts : ¬ (x.w1 &&& 6917529027641081856 == 6917529027641081856) = true := by rw [hts]; simpa using h2
    have tb : ¬ (decide (x.w1 &&& c_MASK_COEFF > 542101086242752) ||
        x.w1 &&& c_MASK_COEFF == 542101086242752 && decide (x.w0 > 4003012203950112767)) = true := by
      rw [htb]; simp only [decide_eq_true_eq]; omega
    obtain ⟨w1, w2, w3⟩ := hwf
    simp only [eMin, eMax] at w2 w3
    refine ⟨by rw [hsp]; simpa using h1, ?_, w1, ?_, w2, w3, ?_, fun _ => ?_⟩
    · rw [uH, uL, if_neg ts, if_neg ts, if_neg tb, if_neg tb, show c_MASK_COEFF = (0x1ffffffffffff : UInt64) from rfl,
        C13GenNoncomp.coeff_hi]
    · rw [uE, if_neg ts, exp_field]; omega
    · rw [hsgn]
      by_cases hb : x.w1.toNat / 2^63 % 2 = 1
      · rw [if_pos (by simpa using hb)]; omega
      · rw [if_neg (by simpa using hb)]; omega
    · show x.w1.toNat * 2^64 + x.w0.toNat = signBit _ + _ * 2^113 + _
      unfold signBit
      by_cases hb : x.w1.toNat / 2^63 % 2 = 1
      · rw [if_pos (by simpa using hb)]; omega
      · rw [if_neg (by simpa using hb)]; omega
  · -- coefficient field ≥ 10^34
    have ts : ¬ (x.w1 &&& 6917529027641081856 == 6917529027641081856) = true := by rw [hts]; simpa using h2
    have tb : (decide (x.w1 &&& c_MASK_COEFF > 542101086242752) ||
        x.w1 &&& c_MASK_COEFF == 542101086242752 && decide (x.w0 > 4003012203950112767)) = true := by
      rw [htb]; simp only [decide_eq_true_eq]; omega
    obtain ⟨w1, w2, w3⟩ := hwf
    simp only [eMin, eMax] at w2 w3
    refine ⟨by rw [hsp]; simpa using h1, ?_, w1, ?_, w2, w3, ?_, fun h => absurd rfl h⟩
    · rw [uH, uL, if_neg ts, if_neg ts, if_pos tb, if_pos tb]; rfl
    · rw [uE, if_neg ts, exp_field]; omega
    · rw [hsgn]
      by_cases hb : x.w1.toNat / 2^63 % 2 = 1
      · rw [if_pos (by simpa using hb)]; omega
      · rw [if_neg (by simpa using hb)]; omega

/-- a datum that is neither a NaN nor an infinity is finite -/
theorem fin_of (d : Datum) (hn : d.isNaN = false) (hi : d.isInf = false) : ∃ s c e, d = .fin s c e := by
  cases d with
  | fin s c e => exact ⟨s, c, e, rfl⟩
  | inf s => exact Bool.noConfusion hi
  | nan s g p => exact Bool.noConfusion hn

/-! ### the rounding step on an exactly representable sum -/

/-- **the universal rounding step on a value that is a member of the format**: with `N = M·10^(X−m)`, `M < 10^34`, `X` in
range, and `X` the exponent closest to the preferred `m` from above (`X = m`, or `M` cannot be padded: `10·M ≥ 10^34`),
`finish` delivers `M·10^X` without a flag -/
theorem finish_exact (mode : Mode) (neg : Bool) (N : Nat) (m : Int) (hN : 0 < N) (M : Nat) (X : Int) (hX : m ≤ X)
    (hval : M * 10 ^ (X - m).toNat = N) (hrep : Representable M X) (hclose : X = m ∨ P34 ≤ M * 10) :
    finish mode neg N 1 m m = (.fin neg M X, 0) := by
  rw [finish_eq_iff mode neg N 1 m m hN (by norm_num)]
  left
  have ten_ne : (10 : ℚ) ≠ 0 := by norm_num
  have hv : fval false M X = (N : ℚ) / ((1 : Nat) : ℚ) * (10 : ℚ) ^ m := by
    rw [fval_false, ← hval]
    push_cast
    rw [div_one, mul_assoc, ← zpow_natCast, ← zpow_add₀ ten_ne]
    congr 2
    omega
  refine ⟨⟨M, X, hrep, hv⟩, M, X, rfl, hv, hrep, ?_⟩
  intro m' x' hr' hv'
  rcases hclose with h | h
  · rw [h, sub_self, abs_zero]; exact abs_nonneg _
  · by_cases hx : X ≤ x'
    · rw [abs_of_nonneg (by omega), abs_of_nonneg (by omega)]; omega
    · exfalso
      rw [← hv, fval_false, fval_false] at hv'
      have hk : X = x' + ((X - x').toNat : Int) := by omega
      rw [hk, zpow_add₀ ten_ne, zpow_natCast] at hv'
      have h10 : (10 : ℚ) ^ x' ≠ 0 := zpow_ne_zero _ ten_ne
      have e1 : (m' : ℚ) = (M : ℚ) * (10 : ℚ) ^ (X - x').toNat := by
        have : (m' : ℚ) * (10 : ℚ) ^ x' = ((M : ℚ) * (10 : ℚ) ^ (X - x').toNat) * (10 : ℚ) ^ x' := by rw [hv']; ring
        exact mul_right_cancel₀ h10 this
      have e2 : m' = M * 10 ^ (X - x').toNat := by exact_mod_cast e1
      obtain ⟨k, hk'⟩ : ∃ k, (X - x').toNat = k + 1 := ⟨(X - x').toNat - 1, by omega⟩
      rw [hk', Nat.pow_succ] at e2
      have : M * 10 ≤ m' := by
        rw [e2, Nat.mul_comm (10 ^ k) 10, ← Nat.mul_assoc]
        exact Nat.le_mul_of_pos_right _ (Nat.pow_pos (by decide))
      have := hr'.1
      omega

/-! ## 3. Zero operands -/

set_option hygiene false in
/-- the two operands unpacked: steps over the special-operand block and the two unpacking blocks of `bid128_add`, leaving
the six unpacked words as variables `xe xh xl ye yh yl` with `hxe : xe = uE x` … -/
macro "add_unpack " hsp:term : tactic => `(tactic| (
  unfold bid128_add
  take_neg
  · exact $hsp
  head_step
  sym_exec
  gen_args _ xe xh xl
  head_step
  sym_exec
  gen_args _ ye yh yl
  replace hxe : xe = uE x := hxe
  replace hxh : xh = uH x := hxh
  replace hxl : xl = uL x := hxl
  replace hye : ye = uE y := hye
  replace hyh : yh = uH y := hyh
  replace hyl : yl = uL y := hyl
  head_step))

/-- the high word of the zero the code returns for `0 + 0`: the smaller exponent word, and the sign bit if both operands
are negative, or if they differ in sign and the mode is `Downward` -/
def zzW (x y : U128) (m : RoundingMode) : UInt64 :=
  if (x.w1 &&& c_MASK_SIGN != 0 && y.w1 &&& c_MASK_SIGN != 0) = true then
    (if decide (uE x < uE y) = true then uE x else uE y) ||| x.w1 &&& c_MASK_SIGN
  else if (m == RoundingMode.Downward && x.w1 &&& c_MASK_SIGN != y.w1 &&& c_MASK_SIGN) = true then
    (if decide (uE x < uE y) = true then uE x else uE y) ||| 9223372036854775808
  else (if decide (uE x < uE y) = true then uE x else uE y)

theorem code_zero_zero (x y : U128) (m : RoundingMode) (f : UInt32)
    (hsp : ¬ ((x.w1 &&& c_MASK_SPECIAL == c_MASK_SPECIAL) || (y.w1 &&& c_MASK_SPECIAL == c_MASK_SPECIAL)) = true)
    (hx0 : (uH x == 0 && uL x == 0) = true) (hy0 : (uH y == 0 && uL y == 0) = true) :
    bid128_add x y m f = .ok (⟨0, zzW x y m⟩, f) := by
  add_unpack hsp
  take_pos
  · rw [hxh, hxl]; exact hx0
  take_pos
  · rw [hyh, hyl]; exact hy0
  head_step
  sym_exec
  head_step
  subst hxe hye
  unfold zzW
  refine congrArg Except.ok (congrArg (fun w => ((⟨0, w⟩ : U128), f)) ?_)
  split
  · rfl
  · split <;> rfl

theorem addD_fin_fin (mode : Mode) (s1 : Bool) (c1 : Nat) (e1 : Int) (s2 : Bool) (c2 : Nat) (e2 : Int) :
    addD mode (.fin s1 c1 e1) (.fin s2 c2 e2) = addFin mode s1 c1 e1 s2 c2 e2 (if e1 ≤ e2 then e1 else e2) := rfl

theorem addFin_zero_zero (mode : Mode) (s1 s2 : Bool) (e1 e2 pref : Int) :
    addFin mode s1 0 e1 s2 0 e2 pref = (zeroAt (zeroSumSign mode s1 s2) pref, 0) := by
  unfold addFin sInt
  simp

theorem sign_word_eq (x : U128) {s : Bool} (h : (x.w1 &&& c_MASK_SIGN).toNat = (if s then 2^63 else 0)) :
    x.w1 &&& c_MASK_SIGN = if s then 0x8000000000000000 else 0 := by
  rw [← UInt64.toNat_inj, h]
  cases s <;> rfl

theorem min_word (a b : UInt64) : (if decide (a < b) = true then a else b).toNat = min a.toNat b.toNat := by
  by_cases h : a < b
  · rw [if_pos (by simpa using h)]; rw [UInt64.lt_iff_toNat_lt] at h; omega
  · rw [if_neg (by simpa using h)]; rw [UInt64.lt_iff_toNat_lt] at h; omega

theorem or_sign (a : UInt64) (h : a.toNat < 2^63) : (a ||| 9223372036854775808).toNat = 2^63 + a.toNat := by
  rw [UInt64.toNat_or, show (9223372036854775808 : UInt64).toNat = 2^63 * 1 from rfl, Nat.or_comm,
    ← Nat.two_pow_add_eq_or_of_lt h, Nat.mul_one]

theorem zzW_toNat (x y : U128) (m : RoundingMode) (s1 s2 : Bool) (E1 E2 : Nat)
    (hE1 : (uE x).toNat = E1 * 2^49) (hE2 : (uE y).toNat = E2 * 2^49) (h1 : E1 < 2^14) (h2 : E2 < 2^14)
    (hs1 : (x.w1 &&& c_MASK_SIGN).toNat = (if s1 then 2^63 else 0))
    (hs2 : (y.w1 &&& c_MASK_SIGN).toNat = (if s2 then 2^63 else 0)) :
    (zzW x y m).toNat = (if zeroSumSign (md m) s1 s2 then 2^63 else 0) + (min E1 E2) * 2^49 := by
  have hm := min_word (uE x) (uE y)
  rw [hE1, hE2] at hm
  have hlt : (if decide (uE x < uE y) = true then uE x else uE y).toNat < 2^63 := by rw [hm]; omega
  have ho := or_sign _ hlt
  unfold zzW
  rw [sign_word_eq x hs1, sign_word_eq y hs2]
  generalize (if decide (uE x < uE y) = true then uE x else uE y) = W at *
  have e0 : W.toNat = 0 + min E1 E2 * 2^49 := by rw [hm]; omega
  have e1 : (W ||| 9223372036854775808).toNat = 2^63 + min E1 E2 * 2^49 := by rw [ho, hm]; omega
  cases s1 <;> cases s2 <;> cases m <;> first | exact e0 | exact e1

theorem not_special2 {x y : U128} (hx : ¬ (x.w1 &&& c_MASK_SPECIAL == c_MASK_SPECIAL) = true)
    (hy : ¬ (y.w1 &&& c_MASK_SPECIAL == c_MASK_SPECIAL) = true) :
    ¬ ((x.w1 &&& c_MASK_SPECIAL == c_MASK_SPECIAL) || (y.w1 &&& c_MASK_SPECIAL == c_MASK_SPECIAL)) = true := by
  rw [Bool.or_eq_true]; exact fun h => h.elim hx hy

theorem zero_words {h l : UInt64} (hc : h.toNat * 2^64 + l.toNat = 0) : (h == 0 && l == 0) = true := by
  rw [C13GenNoncomp.zero128]; exact decide_eq_true hc

theorem encode_fin (b : Bool) (c : Nat) (e : Int) : encode (.fin b c e) = signBit b + (e + 6176).toNat * 2^113 + c := rfl

theorem enc_arith1 (T : Nat) : (2^63 + T * 2^49) * 2^64 + 0 = 2^127 + T * 2^113 + 0 := by omega
theorem enc_arith0 (T : Nat) : (0 + T * 2^49) * 2^64 + 0 = 0 + T * 2^113 + 0 := by omega

theorem clamp_id {t : Int} (h1 : -6176 ≤ t) (h2 : t ≤ 6111) : clampInt eMin eMax t = t := by
  unfold clampInt eMin eMax
  rw [if_neg (by omega), if_neg (by omega)]

/-- **`bid128_add`, zero + zero** (canonical zeros and the non-canonical encodings, which the code replaces by zeros): the
zero of the smaller exponent, negative iff both are negative, or the signs differ and the mode is `Downward`; no flag -/
theorem add_zero_zero (x y : U128) (m : RoundingMode) (f : UInt32) {s1 s2 : Bool} {e1 e2 : Int}
    (hx : decode (bitsOf x) = .fin s1 0 e1) (hy : decode (bitsOf y) = .fin s2 0 e2) :
    bid128_add x y m f =
      .ok (ofBits (encode (addD (md m) (decode (bitsOf x)) (decode (bitsOf y))).1),
           f ||| UInt32.ofNat (addD (md m) (decode (bitsOf x)) (decode (bitsOf y))).2) := by
  obtain ⟨hx1, hxc, -, hxe, hxlo, hxhi, hxs, -⟩ := fin_view x hx
  obtain ⟨hy1, hyc, -, hye, hylo, hyhi, hys, -⟩ := fin_view y hy
  rw [code_zero_zero x y m f (not_special2 hx1 hy1) (zero_words hxc) (zero_words hyc), hx, hy, addD_fin_fin,
    addFin_zero_zero]
  show Except.ok _ = Except.ok (ofBits (encode (zeroAt _ _)), f ||| UInt32.ofNat 0)
  rw [or_zero32]
  refine congrArg Except.ok (congrArg (fun r => (r, f)) (eq_ofBits ?_))
  show (zzW x y m).toNat * 2^64 + (0 : UInt64).toNat = _
  rw [zzW_toNat x y m s1 s2 _ _ hxe hye (by omega) (by omega) hxs hys]
  unfold zeroAt
  have hc : clampInt eMin eMax (if e1 ≤ e2 then e1 else e2) = (if e1 ≤ e2 then e1 else e2) :=
    clamp_id (by split <;> omega) (by split <;> omega)
  have hmin : min (e1 + 6176).toNat (e2 + 6176).toNat = ((if e1 ≤ e2 then e1 else e2) + 6176).toNat := by split <;> omega
  rw [encode_fin, hc, hmin, UInt64.toNat_zero]
  unfold signBit
  generalize ((if e1 ≤ e2 then e1 else e2) + 6176).toNat = T
  cases zeroSumSign (md m) s1 s2
  · exact enc_arith0 T
  · exact enc_arith1 T

example : bid128_add ⟨0, 0xb040000000000000⟩ ⟨0, 0x303e000000000000⟩ .Downward 0 = .ok (⟨0, 0xb03e000000000000⟩, 0) := by
  rw [add_zero_zero (s1 := true) (e1 := 0) (s2 := false) (e2 := -1) _ _ _ _ (by decide +kernel) (by decide +kernel)]
  decide +kernel

/-! ## 4. The digit count (`BID_NR_DIGITS` through the exponent field of a double), as `bid128_add` writes it inline -/

open Dec.C13GenNoncomp (float_exp u64_ofInt_nat u32_ofInt_nat toI_u64 toI_u32 toI_i32 bmod32 log2_shift log2_hi shr32
  tblDD_nr nr_q nr_bound i32_of_small)

/-- the exponent field of `v as f64`, minus the bias, is the bit length − 1 of `v` -/
theorem exp_bits (v : UInt64) (h0 : 0 < v.toNat) (h53 : v.toNat < 2^53) :
    (((UInt32.ofInt (toI ((F64U.ofU64 (UInt64.ofInt (toI v))).bits >>> 52))) &&& 2047) - 1023).toNat = v.toNat.log2 := by
  obtain ⟨f1, f2⟩ := float_exp v.toNat h0 h53
  have hl : v.toNat.log2 < 53 := (Nat.log2_lt (by omega)).2 h53
  have e1 : (UInt64.ofInt (toI v)) = v := by rw [toI_u64, u64_ofInt_nat, UInt64.ofNat_toNat]
  have e2 : ((F64U.ofU64 v).bits >>> 52).toNat = v.toNat.log2 + 1023 := by
    rw [UInt64.toNat_shiftRight, F64U.ofU64, UInt64.toNat_ofNat', Nat.mod_eq_of_lt (by omega),
      show (52 : UInt64).toNat % 64 = 52 from by decide, Nat.shiftRight_eq_div_pow, f1]
  rw [e1, UInt32.toNat_sub, UInt32.toNat_and, toI_u64, u32_ofInt_nat, UInt32.toNat_ofNat', e2,
    show (2047 : UInt32).toNat = 2^11 - 1 from by decide, Nat.and_two_pow_sub_one_eq_mod,
    show (1023 : UInt32).toNat = 1023 from by decide]
  omega

theorem idx_of_u32 (a : UInt32) (h : a.toNat < 2^31) : UInt64.ofInt (toI (Int32.ofInt (toI a))) = UInt64.ofNat a.toNat := by
  rw [toI_i32, toI_u32, Int32.toInt_ofInt_of_le (by omega) (by omega), u64_ofInt_nat]

theorem nb_idx0 (v : UInt64) (h0 : 0 < v.toNat) (h53 : v.toNat < 2^53) :
    UInt64.ofInt (toI (Int32.ofInt (toI (((UInt32.ofInt (toI ((F64U.ofU64 (UInt64.ofInt (toI v))).bits >>> 52))) &&& 2047) - 1023))))
      = UInt64.ofNat v.toNat.log2 := by
  have hl : v.toNat.log2 < 53 := (Nat.log2_lt (by omega)).2 h53
  have e := exp_bits v h0 h53
  rw [idx_of_u32 _ (by omega), e]

theorem nb_idxK (v : UInt64) (K : UInt32) (h0 : 0 < v.toNat) (h53 : v.toNat < 2^53) (hK : K.toNat ≤ 64) :
    UInt64.ofInt (toI (Int32.ofInt (toI (K + (((UInt32.ofInt (toI ((F64U.ofU64 (UInt64.ofInt (toI v))).bits >>> 52))) &&& 2047) - 1023)))))
      = UInt64.ofNat (K.toNat + v.toNat.log2) := by
  have hl : v.toNat.log2 < 53 := (Nat.log2_lt (by omega)).2 h53
  have e := exp_bits v h0 h53
  have e3 : (K + (((UInt32.ofInt (toI ((F64U.ofU64 (UInt64.ofInt (toI v))).bits >>> 52))) &&& 2047) - 1023)).toNat
      = K.toNat + v.toNat.log2 := by
    rw [UInt32.toNat_add, e]; omega
  rw [idx_of_u32 _ (by omega), e3]

/-- the bit length − 1 of the coefficient `h·2^64 + l` as the code computes it (three cases by size) -/
def nbOf (h l : UInt64) : Int32 :=
  if (h == 0) = true then
    if decide (l ≥ 9007199254740992) = true then
      Int32.ofInt
        (toI ((32 : UInt32) + ((UInt32.ofInt (toI ((F64U.ofU64 (UInt64.ofInt (toI (l >>> 32)))).bits >>> 52)) &&& 2047) - 1023)))
    else Int32.ofInt (toI ((UInt32.ofInt (toI ((F64U.ofU64 (UInt64.ofInt (toI l))).bits >>> 52)) &&& 2047) - 1023))
  else
    Int32.ofInt (toI ((64 : UInt32) + ((UInt32.ofInt (toI ((F64U.ofU64 (UInt64.ofInt (toI h))).bits >>> 52)) &&& 2047) - 1023)))

theorem nbOf_idx (h l : UInt64) (hC0 : 0 < h.toNat * 2^64 + l.toNat) (hh : h.toNat < 2^49) :
    UInt64.ofInt (toI (nbOf h l)) = UInt64.ofNat (h.toNat * 2^64 + l.toNat).log2 := by
  have hl := l.toNat_lt
  unfold nbOf
  by_cases c5 : h.toNat = 0
  · rw [if_pos (by rw [C13GenNoncomp.u64_beq_zero]; simpa using c5)]
    by_cases c6 : 2^53 ≤ l.toNat
    · rw [if_pos (by rw [C13GenNoncomp.u64_ge]; simpa using c6),
        nb_idxK _ 32 (by rw [shr32]; omega) (by rw [shr32]; omega) (by decide)]
      rw [shr32, show UInt32.toNat 32 = 32 from by decide, log2_shift _ c6, c5]
      simp only [Nat.zero_mul, Nat.zero_add]
    · rw [if_neg (by rw [C13GenNoncomp.u64_ge]; simpa using c6), nb_idx0 _ (by omega) (by omega), c5]
      simp only [Nat.zero_mul, Nat.zero_add]
  · rw [if_neg (by rw [C13GenNoncomp.u64_beq_zero]; simpa using c5),
      nb_idxK _ 64 (by omega) (by omega) (by decide)]
    rw [show UInt32.toNat 64 = 64 from by decide, log2_hi _ _ c5 hl]

/-- the digit count the code derives from a row `(D, THI, TLO, D1)` of `BID_NR_DIGITS` -/
def qOf (D D1 : UInt32) (THI TLO h l : UInt64) : Int32 :=
  if (Int32.ofInt (toI D) == 0) = true then
    if (if decide (h > THI) = true then true
        else if (h == THI) = true then decide (l ≥ TLO) else false) = true then Int32.ofInt (toI D1) + 1
    else Int32.ofInt (toI D1)
  else Int32.ofInt (toI D)

theorem thr_test (h l THI TLO : UInt64) :
    (if decide (h > THI) = true then true else if (h == THI) = true then decide (l ≥ TLO) else false)
      = decide (THI.toNat * 2^64 + TLO.toNat ≤ h.toNat * 2^64 + l.toNat) := by
  have := l.toNat_lt; have := TLO.toNat_lt
  by_cases h1 : h > THI
  · rw [if_pos (by simpa using h1)]
    rw [gt_iff_lt, UInt64.lt_iff_toNat_lt] at h1
    exact (decide_eq_true (by omega)).symm
  · rw [if_neg (by simpa using h1)]
    rw [gt_iff_lt, UInt64.lt_iff_toNat_lt] at h1
    by_cases h2 : h = THI
    · subst h2
      rw [if_pos (by simp), decide_eq_decide, ge_iff_le, UInt64.le_iff_toNat_le]
      omega
    · rw [if_neg (by simpa using h2)]
      rw [← UInt64.toNat_inj] at h2
      exact (decide_eq_false (by omega)).symm

/-- **digit count**: for a non-zero coefficient `C = h·2^64 + l` below 2^113 the table access succeeds and the count the
code derives from the row is the number of decimal digits of `C` -/
theorem digits_row (h l : UInt64) (hC0 : 0 < h.toNat * 2^64 + l.toNat) (hh : h.toNat < 2^49) :
    ∃ (D D1 : UInt32) (THI TLO : UInt64),
      tblDD Dec.Gen.BID_NR_DIGITS (UInt64.ofInt (toI (nbOf h l))) = .ok ⟨D, THI, TLO, D1⟩ ∧
      (qOf D D1 THI TLO h l).toInt = (ndigits (h.toNat * 2^64 + l.toNat) : Int) := by
  have hl := l.toNat_lt
  have hC : h.toNat * 2^64 + l.toNat < 2^113 := by omega
  have hL : (h.toNat * 2^64 + l.toNat).log2 < 113 := (Nat.log2_lt (by omega)).2 hC
  refine ⟨_, _, _, _, by rw [nbOf_idx h l hC0 hh]; exact tblDD_nr _ hL, ?_⟩
  have := nr_q _ hC0 hC
  rw [← this]
  unfold qOf
  rw [thr_test]
  congr 1
  by_cases h0 : Int32.ofInt (toI (UInt32.ofNat (Dec.Gen.BID_NR_DIGITS.getD ((h.toNat * 2^64 + l.toNat).log2 * 4 + 0) 0))) = 0
  · rw [if_pos (by simpa using h0), if_pos h0]
    by_cases h1 : (UInt64.ofNat (Dec.Gen.BID_NR_DIGITS.getD ((h.toNat * 2^64 + l.toNat).log2 * 4 + 1) 0)).toNat * 2^64
            + (UInt64.ofNat (Dec.Gen.BID_NR_DIGITS.getD ((h.toNat * 2^64 + l.toNat).log2 * 4 + 2) 0)).toNat ≤ h.toNat * 2^64 + l.toNat
    · rw [if_pos (by simpa using h1), if_pos h1]
    · rw [if_neg (by simpa using h1), if_neg h1]
  · rw [if_neg (by simpa using h0), if_neg h0]

/-! ## 5. One zero operand: the code level -/

/-- the number of zeros the code appends to the non-zero operand: the exponent gap, at most `34 − q` -/
def scOf (q : Int32) (ea eb : UInt64) : Int32 :=
  if decide (Int32.ofInt (toI ((ea - eb) >>> 49)) < c_P34 - q) = true then Int32.ofInt (toI ((ea - eb) >>> 49)) else c_P34 - q

/-- the padding multiplication `C · 10^sc` as the code selects it by the sizes of `C` (`q` digits) and `sc`, followed by
`K` -/
def padK {β : Type} (q sc : Int32) (h l : UInt64) (K : U128 → Except String β) : Except String β :=
  if decide (q ≤ 19) = true then
    (if decide (sc ≤ 19) = true then (do
        let t ← tbl64 Dec.Gen.BID_TEN2K64 (UInt64.ofInt (toI sc))
        mul_64x64_to_128MACH l t)
      else (do
        let t ← tbl128 Dec.Gen.BID_TEN2K128 (UInt64.ofInt (toI (sc - 20)))
        mul_128x64_to_128 l t)) >>= K
  else (do
    let t ← tbl64 Dec.Gen.BID_TEN2K64 (UInt64.ofInt (toI sc))
    let P ← mul_128x64_to_128 t ⟨l, h⟩
    K P)

/-- what the code returns for a zero plus the non-zero `w` (unpacked `e h l`, `q` digits, `sc` zeros to append) -/
def padRes (q sc : Int32) (w : U128) (e h l : UInt64) (f : UInt32) : Except String (U128 × UInt32) :=
  if (sc == 0) = true then .ok (⟨w.w0, (w.w1 ||| w.w1 &&& c_MASK_SIGN) ||| (e - (UInt64.ofInt (toI sc)) <<< 49)⟩, f)
  else padK q sc h l (fun P => .ok (⟨P.w0, (P.w1 ||| w.w1 &&& c_MASK_SIGN) ||| (e - (UInt64.ofInt (toI sc)) <<< 49)⟩, f))

theorem code_zero_y_asis (x y : U128) (m : RoundingMode) (f : UInt32)
    (hsp : ¬ ((x.w1 &&& c_MASK_SPECIAL == c_MASK_SPECIAL) || (y.w1 &&& c_MASK_SPECIAL == c_MASK_SPECIAL)) = true)
    (hx0 : (uH x == 0 && uL x == 0) = true) (hy0 : ¬ (uH y == 0 && uL y == 0) = true)
    (hle : decide (uE y ≤ uE x) = true) :
    bid128_add x y m f = .ok (y, f) := by
  add_unpack hsp
  take_pos
  · rw [hxh, hxl]; exact hx0
  take_neg
  · rw [hyh, hyl]; exact hy0
  take_pos
  · rw [hxe, hye]; exact hle
  rfl

theorem code_x_zero_asis (x y : U128) (m : RoundingMode) (f : UInt32)
    (hsp : ¬ ((x.w1 &&& c_MASK_SPECIAL == c_MASK_SPECIAL) || (y.w1 &&& c_MASK_SPECIAL == c_MASK_SPECIAL)) = true)
    (hx0 : ¬ (uH x == 0 && uL x == 0) = true) (hy0 : (uH y == 0 && uL y == 0) = true)
    (hle : decide (uE x ≤ uE y) = true) :
    bid128_add x y m f = .ok (x, f) := by
  add_unpack hsp
  take_neg
  · rw [hxh, hxl]; exact hx0
  take_pos
  · rw [hyh, hyl]; exact hy0
  take_pos
  · rw [hxe, hye]; exact hle
  rfl

theorem bind_congr_right {α β : Type} (a : Except String α) {k k' : α → Except String β} (h : ∀ v, k v = k' v) :
    (a >>= k) = (a >>= k') := by
  cases a <;> simp [bind, Except.bind, h]

theorem code_zero_y_pad (x y : U128) (m : RoundingMode) (f : UInt32)
    (hsp : ¬ ((x.w1 &&& c_MASK_SPECIAL == c_MASK_SPECIAL) || (y.w1 &&& c_MASK_SPECIAL == c_MASK_SPECIAL)) = true)
    (hx0 : (uH x == 0 && uL x == 0) = true) (hy0 : ¬ (uH y == 0 && uL y == 0) = true)
    (hle : ¬ decide (uE y ≤ uE x) = true) (D D1 : UInt32) (THI TLO : UInt64)
    (hT : tblDD Dec.Gen.BID_NR_DIGITS (UInt64.ofInt (toI (nbOf (uH y) (uL y)))) = .ok ⟨D, THI, TLO, D1⟩) :
    bid128_add x y m f =
      padRes (qOf D D1 THI TLO (uH y) (uL y)) (scOf (qOf D D1 THI TLO (uH y) (uL y)) (uE y) (uE x)) y (uE y) (uH y) (uL y) f := by
  add_unpack hsp
  take_pos
  · rw [hxh, hxl]; exact hx0
  take_neg
  · rw [hyh, hyl]; exact hy0
  take_neg
  · rw [hxe, hye]; exact hle
  subst hxe hxh hxl hye hyh hyl
  head_step
  sym_exec
  gen_args _ _ nb
  replace hnb : nb = nbOf (uH y) (uL y) := hnb
  rw [← hnb] at hT
  head_step
  sym_exec
  gen_args _ q2
  replace hq2 : q2 = qOf D D1 THI TLO (uH y) (uL y) := hq2
  head_step
  sym_exec
  gen_args _ sc
  replace hsc : sc = scOf q2 (uE y) (uE x) := hsc
  head_step
  rw [← hq2, ← hsc]
  unfold padRes
  by_cases h0 : (sc == 0) = true
  · take_pos
    · exact h0
    rw [if_pos h0]
    rfl
  take_neg
  · exact h0
  rw [if_neg h0]
  unfold padK
  by_cases h1 : decide (q2 ≤ 19) = true
  · take_pos
    · exact h1
    rw [if_pos h1]
    refine bind_congr_right _ (fun P => ?_)
    rfl
  · take_neg
    · exact h1
    rw [if_neg h1]
    refine bind_congr_right _ (fun t => ?_)
    refine bind_congr_right _ (fun P => ?_)
    rfl

theorem code_x_zero_pad (x y : U128) (m : RoundingMode) (f : UInt32)
    (hsp : ¬ ((x.w1 &&& c_MASK_SPECIAL == c_MASK_SPECIAL) || (y.w1 &&& c_MASK_SPECIAL == c_MASK_SPECIAL)) = true)
    (hx0 : ¬ (uH x == 0 && uL x == 0) = true) (hy0 : (uH y == 0 && uL y == 0) = true)
    (hle : ¬ decide (uE x ≤ uE y) = true) (D D1 : UInt32) (THI TLO : UInt64)
    (hT : tblDD Dec.Gen.BID_NR_DIGITS (UInt64.ofInt (toI (nbOf (uH x) (uL x)))) = .ok ⟨D, THI, TLO, D1⟩) :
    bid128_add x y m f =
      padRes (qOf D D1 THI TLO (uH x) (uL x)) (scOf (qOf D D1 THI TLO (uH x) (uL x)) (uE x) (uE y)) x (uE x) (uH x) (uL x) f := by
  add_unpack hsp
  take_neg
  · rw [hxh, hxl]; exact hx0
  take_pos
  · rw [hyh, hyl]; exact hy0
  take_neg
  · rw [hxe, hye]; exact hle
  subst hxe hxh hxl hye hyh hyl
  head_step
  sym_exec
  gen_args _ _ nb
  replace hnb : nb = nbOf (uH x) (uL x) := hnb
  rw [← hnb] at hT
  head_step
  sym_exec
  gen_args _ q2
  replace hq2 : q2 = qOf D D1 THI TLO (uH x) (uL x) := hq2
  head_step
  sym_exec
  gen_args _ sc
  replace hsc : sc = scOf q2 (uE x) (uE y) := hsc
  head_step
  rw [← hq2, ← hsc]
  unfold padRes
  by_cases h0 : (sc == 0) = true
  · take_pos
    · exact h0
    rw [if_pos h0]
    rfl
  take_neg
  · exact h0
  rw [if_neg h0]
  unfold padK
  by_cases h1 : decide (q2 ≤ 19) = true
  · take_pos
    · exact h1
    rw [if_pos h1]
    refine bind_congr_right _ (fun P => ?_)
    rfl
  · take_neg
    · exact h1
    rw [if_neg h1]
    refine bind_congr_right _ (fun t => ?_)
    refine bind_congr_right _ (fun P => ?_)
    rfl

/-! ## 6. The padding multiplication -/

open Dec.C13GenNoncomp (u64_ofInt_nat toI_i32 bmod32 ten2k64_get)

theorem ten2k128_all19 : (List.range 19).all (fun j =>
    match tbl128 Dec.Gen.BID_TEN2K128 (UInt64.ofNat j) with
    | .ok v => decide (v.toNat' = 10^(j+20))
    | .error _ => false) = true := by
  decide +kernel

theorem ten2k128_get19 (j : Nat) (hj : j < 19) :
    ∃ v, tbl128 Dec.Gen.BID_TEN2K128 (UInt64.ofNat j) = .ok v ∧ v.toNat' = 10^(j+20) := by
  have h := List.all_eq_true.1 ten2k128_all19 j (List.mem_range.2 hj)
  cases ht : tbl128 Dec.Gen.BID_TEN2K128 (UInt64.ofNat j) with
  | error e => rw [ht] at h; exact absurd h (by simp)
  | ok v => rw [ht] at h; exact ⟨v, rfl, by simpa using h⟩

theorem idx_i32 (a : Int32) (n : Nat) (h : a.toInt = n) : UInt64.ofInt (toI a) = UInt64.ofNat n := by
  rw [toI_i32, h, u64_ofInt_nat]

theorem i32_le_lit (a : Int32) (n : Int32) : decide (a ≤ n) = decide (a.toInt ≤ n.toInt) := by
  rw [decide_eq_decide, Int32.le_iff_toInt_le]

theorem bind_ok {α β : Type} (v : α) (k : α → Except String β) : ((Except.ok v : Except String α) >>= k) = k v := rfl

theorem pow_lt_of_digits {C Q S : Nat} (hQ : Q = ndigits C) (hfit : Q + S ≤ 34) : C * 10^S < 10^34 := by
  have h1 : C < 10^Q := by rw [hQ]; exact lt_pow_ndigits C
  calc C * 10^S < 10^Q * 10^S := Nat.mul_lt_mul_of_pos_right h1 (Nat.pow_pos (by decide))
    _ = 10^(Q+S) := (Nat.pow_add _ _ _).symm
    _ ≤ 10^34 := Nat.pow_le_pow_right (by decide) hfit

/-- **the padding multiplication**: for a `Q`-digit coefficient `C` and `1 ≤ S ≤ 34 − Q` zeros to append, whichever of
the three multiplication paths the code selects returns `C·10^S` (no table access panics) -/
theorem padK_ok {β : Type} (q sc : Int32) (h l : UInt64) (C Q S : Nat) (hC : h.toNat * 2^64 + l.toNat = C)
    (hq : q.toInt = Q) (hsc : sc.toInt = S) (hQ : Q = ndigits C) (hC0 : 0 < C) (hS1 : 1 ≤ S) (hfit : Q + S ≤ 34) :
    ∃ P : U128, P.toNat' = C * 10^S ∧ ∀ K : U128 → Except String β, padK q sc h l K = K P := by
  have hl := l.toNat_lt
  have hlt := pow_lt_of_digits hQ hfit
  have hQ1 : 1 ≤ Q := by rw [hQ]; exact ndigits_pos hC0
  by_cases c1 : Q ≤ 19
  · have hq19 : decide (q ≤ 19) = true := by
      rw [i32_le_lit, hq]; exact decide_eq_true (by simpa using c1)
    have hCs : C < 10^19 := by
      have : C < 10^Q := by rw [hQ]; exact lt_pow_ndigits C
      exact lt_of_lt_of_le this (Nat.pow_le_pow_right (by decide) c1)
    have hh0 : h.toNat = 0 := by
      have : (10:Nat)^19 < 2^64 := by decide
      omega
    have hlC : l.toNat = C := by omega
    by_cases c2 : S ≤ 19
    · have hs19 : decide (sc ≤ 19) = true := by
        rw [i32_le_lit, hsc]; exact decide_eq_true (by simpa using c2)
      obtain ⟨v, hv, hv10⟩ := ten2k64_get S (by omega)
      obtain ⟨r, hr, hrv⟩ := C01GenArith.gen_mul_64x64_to_128MACH l v
      refine ⟨r, by rw [hrv, hlC, hv10], fun K => ?_⟩
      unfold padK
      rw [if_pos hq19, if_pos hs19, idx_i32 sc S hsc, hv, bind_ok, hr, bind_ok]
    · have hs19 : ¬ decide (sc ≤ 19) = true := by
        rw [i32_le_lit, hsc]; simpa using c2
      have hs20 : (sc - 20).toInt = ((S - 20 : Nat) : Int) := by
        rw [Int32.toInt_sub, hsc, show (20 : Int32).toInt = 20 from by decide, bmod32 _ (by omega) (by omega)]
        omega
      obtain ⟨v, hv, hv10⟩ := ten2k128_get19 (S - 20) (by omega)
      obtain ⟨r, hr, hrv⟩ := C01GenArith.gen_mul_128x64_to_128_exact l v (by
        rw [hv10, hlC, show S - 20 + 20 = S from by omega]
        exact lt_trans hlt (by decide))
      refine ⟨r, by rw [hrv, hlC, hv10, show S - 20 + 20 = S from by omega], fun K => ?_⟩
      unfold padK
      rw [if_pos hq19, if_neg hs19, idx_i32 (sc - 20) (S - 20) hs20, hv, bind_ok, hr, bind_ok]
  · have hq19 : ¬ decide (q ≤ 19) = true := by
      rw [i32_le_lit, hq]; simpa using c1
    obtain ⟨v, hv, hv10⟩ := ten2k64_get S (by omega)
    obtain ⟨r, hr, hrv⟩ := C01GenArith.gen_mul_128x64_to_128_exact v ⟨l, h⟩ (by
      rw [hv10]
      show 10^S * (l.toNat + 2^64 * h.toNat) < 2^128
      rw [show l.toNat + 2^64 * h.toNat = C from by omega, Nat.mul_comm]
      exact lt_trans hlt (by decide))
    refine ⟨r, ?_, fun K => ?_⟩
    · rw [hrv, hv10]
      show 10^S * (l.toNat + 2^64 * h.toNat) = _
      rw [show l.toNat + 2^64 * h.toNat = C from by omega, Nat.mul_comm]
    · unfold padK
      rw [if_neg hq19, idx_i32 sc S hsc, hv, bind_ok, hr, bind_ok]

/-! ## 7. One zero operand: the result is `addD`'s -/

open Dec.C13GenNoncomp (u64_ofInt_nat toI_i32 toI_u64 bmod32)

theorem or_and_absorb (w a : UInt64) : w ||| (w &&& a) = w := by
  rw [← UInt64.toBitVec_inj]
  show w.toBitVec ||| w.toBitVec &&& a.toBitVec = w.toBitVec
  ext i hi
  simp only [BitVec.getElem_or, BitVec.getElem_and]
  cases w.toBitVec[i] <;> simp

theorem addFin_zero_left (mode : Mode) (s1 : Bool) (e1 : Int) (s2 : Bool) (c2 : Nat) (e2 pref : Int) (hc2 : 0 < c2) :
    addFin mode s1 0 e1 s2 c2 e2 pref =
      finish mode s2 (c2 * 10 ^ (e2 - (if e1 ≤ e2 then e1 else e2)).toNat) 1 (if e1 ≤ e2 then e1 else e2) pref := by
  have hp : 0 < c2 * 10 ^ (e2 - (if e1 ≤ e2 then e1 else e2)).toNat := Nat.mul_pos hc2 (Nat.pow_pos (by decide))
  unfold addFin sInt
  simp only [Nat.zero_mul, Nat.cast_zero, neg_zero, ite_self, zero_add]
  generalize c2 * 10 ^ (e2 - (if e1 ≤ e2 then e1 else e2)).toNat = N at *
  cases s2
  · simp only [Bool.false_eq_true, if_false]
    rw [if_neg (by omega)]
    congr 1
  · simp only [if_true]
    rw [if_neg (by omega)]
    congr 1 <;> first | exact decide_eq_true (by omega) | omega

/-- a non-zero unpacked coefficient: the operand is not of the steering-bit form -/
theorem uE_canon (x : U128) (h : ¬ (uH x == 0 && uL x == 0) = true) : uE x = x.w1 &&& c_MASK_EXP := by
  unfold uE
  by_cases ts : (x.w1 &&& 6917529027641081856 == 6917529027641081856) = true
  · exfalso; apply h
    unfold uH uL
    rw [if_pos ts, if_pos ts]; rfl
  · rw [if_neg ts]

theorem le_word (ea eb : UInt64) (A B : Nat) (ha : ea.toNat = A * 2^49) (hb : eb.toNat = B * 2^49) :
    decide (ea ≤ eb) = decide (A ≤ B) := by
  rw [decide_eq_decide, UInt64.le_iff_toNat_le, ha, hb]; omega

theorem shr49 (a : UInt64) : (a >>> 49).toNat = a.toNat / 2^49 := by
  rw [UInt64.toNat_shiftRight, show (49 : UInt64).toNat % 64 = 49 from by decide, Nat.shiftRight_eq_div_pow]
theorem shl49 (a : UInt64) : (a <<< 49).toNat = a.toNat * 2^49 % 2^64 := by
  rw [UInt64.toNat_shiftLeft, show (49 : UInt64).toNat % 64 = 49 from by decide, Nat.shiftLeft_eq]

/-- the exponent gap as the code computes it from the two exponent words -/
theorem gap_word (ea eb : UInt64) (A B : Nat) (ha : ea.toNat = A * 2^49) (hb : eb.toNat = B * 2^49) (hAB : B ≤ A)
    (hA : A < 2^14) : (Int32.ofInt (toI ((ea - eb) >>> 49))).toInt = ((A - B : Nat) : Int) := by
  have e : ((ea - eb) >>> 49).toNat = A - B := by
    rw [shr49, UInt64.toNat_sub_of_le _ _ (by rw [UInt64.le_iff_toNat_le, ha, hb]; omega), ha, hb]
    omega
  rw [toI_u64, e, Int32.toInt_ofInt_of_le (by omega) (by omega)]

theorem i32_lt (a b : Int32) : decide (a < b) = decide (a.toInt < b.toInt) := by
  rw [decide_eq_decide, Int32.lt_iff_toInt_lt]

/-- the number of zeros appended: `min (gap, 34 − Q)` -/
theorem scOf_toInt (q : Int32) (ea eb : UInt64) (Q A B : Nat) (hq : q.toInt = Q) (hQ : Q ≤ 34)
    (ha : ea.toNat = A * 2^49) (hb : eb.toNat = B * 2^49) (hAB : B ≤ A) (hA : A < 2^14) :
    (scOf q ea eb).toInt = ((min (A - B) (34 - Q) : Nat) : Int) := by
  have hg := gap_word ea eb A B ha hb hAB hA
  have hp : (c_P34 - q).toInt = ((34 - Q : Nat) : Int) := by
    rw [Int32.toInt_sub, hq, show c_P34.toInt = 34 from by decide, bmod32 _ (by omega) (by omega)]
    omega
  unfold scOf
  rw [i32_lt, hg, hp]
  by_cases h : ((A - B : Nat) : Int) < ((34 - Q : Nat) : Int)
  · rw [if_pos (by simpa using h), hg]; omega
  · rw [if_neg (by simpa using h), hp]; omega

/-- the exponent word after `S` zeros were appended -/
theorem exp_after (ea : UInt64) (sc : Int32) (A S : Nat) (ha : ea.toNat = A * 2^49) (hs : sc.toInt = S) (hSA : S ≤ A)
    (hA : A < 2^14) : (ea - (UInt64.ofInt (toI sc)) <<< 49).toNat = (A - S) * 2^49 := by
  have e : ((UInt64.ofInt (toI sc)) <<< 49).toNat = S * 2^49 := by
    rw [idx_i32 sc S hs, shl49, UInt64.toNat_ofNat', Nat.mod_eq_of_lt (by omega)]
    omega
  rw [UInt64.toNat_sub_of_le _ _ (by rw [UInt64.le_iff_toNat_le, e, ha]; exact Nat.mul_le_mul_right _ hSA), e, ha,
    Nat.sub_mul]

theorem or_disj (i a b : Nat) (hb : b < 2^i) : 2^i * a ||| b = 2^i * a + b := (Nat.two_pow_add_eq_or_of_lt hb a).symm

/-- **assembling a finite result**: coefficient words `P` (below 2^113), sign word, exponent word -/
theorem assemble (P : U128) (sw ew : UInt64) (s : Bool) (M E : Nat) (hP : P.toNat' = M) (hM : M < 2^113)
    (hsw : sw.toNat = if s then 2^63 else 0) (hew : ew.toNat = E * 2^49) (hE : E < 2^14) :
    (⟨P.w0, (P.w1 ||| sw) ||| ew⟩ : U128) = ofBits (signBit s + E * 2^113 + M) := by
  apply eq_ofBits
  have h0 := P.w0.toNat_lt
  have hp : P.w1.toNat < 2^49 := by
    unfold Rs.U128.toNat' at hP; omega
  obtain ⟨a, ha, hsa, hsb⟩ : ∃ a : Nat, a ≤ 1 ∧ sw.toNat = 2^63 * a ∧ signBit s = 2^127 * a := by
    cases s
    · exact ⟨0, by omega, by rw [hsw]; rfl, rfl⟩
    · exact ⟨1, by omega, by rw [hsw]; rfl, rfl⟩
  have e1 : ((P.w1 ||| sw) ||| ew).toNat = 2^63 * a + E * 2^49 + P.w1.toNat := by
    rw [UInt64.toNat_or, UInt64.toNat_or, hsa, hew, Nat.or_comm P.w1.toNat, Nat.or_assoc, Nat.or_comm P.w1.toNat,
      ← Nat.or_assoc, or_disj 63 a (E * 2^49) (by omega),
      show 2^63 * a + E * 2^49 = 2^49 * (2^14 * a + E) from by omega, or_disj 49 _ _ hp]
  show ((P.w1 ||| sw) ||| ew).toNat * 2^64 + P.w0.toNat = _
  rw [e1, hsb]
  unfold Rs.U128.toNat' at hP
  omega

theorem addFin_zero_right (mode : Mode) (s1 : Bool) (c1 : Nat) (e1 : Int) (s2 : Bool) (e2 pref : Int) (hc1 : 0 < c1) :
    addFin mode s1 c1 e1 s2 0 e2 pref =
      finish mode s1 (c1 * 10 ^ (e1 - (if e1 ≤ e2 then e1 else e2)).toNat) 1 (if e1 ≤ e2 then e1 else e2) pref := by
  have hp : 0 < c1 * 10 ^ (e1 - (if e1 ≤ e2 then e1 else e2)).toNat := Nat.mul_pos hc1 (Nat.pow_pos (by decide))
  unfold addFin sInt
  simp only [Nat.zero_mul, Nat.cast_zero, neg_zero, ite_self, add_zero]
  generalize c1 * 10 ^ (e1 - (if e1 ≤ e2 then e1 else e2)).toNat = N at *
  cases s1
  · simp only [Bool.false_eq_true, if_false]
    rw [if_neg (by omega)]
    congr 1
  · simp only [if_true]
    rw [if_neg (by omega)]
    congr 1 <;> first | exact decide_eq_true (by omega) | omega

/-- a representable value at its own exponent, which is the preferred one: delivered as is -/
theorem finish_asis (mode : Mode) (s : Bool) (c : Nat) (e : Int) (hc0 : 0 < c) (hc : c < P34) (h1 : -6176 ≤ e)
    (h2 : e ≤ 6111) : finish mode s (c * 10 ^ (e - e).toNat) 1 e e = (.fin s c e, 0) := by
  rw [Int.sub_self, Int.toNat_zero, Nat.pow_zero, Nat.mul_one]
  exact finish_exact mode s c e hc0 c e (le_refl _) (by rw [Int.sub_self, Int.toNat_zero, Nat.pow_zero, Nat.mul_one])
    ⟨hc, h1, h2⟩ (Or.inl rfl)

/-- **a value whose exponent is above the preferred one `eb`**: zeros are appended, as many as the gap, at most up to 34
digits -/
theorem finish_pad (mode : Mode) (s : Bool) (c : Nat) (e eb : Int) (hc0 : 0 < c) (hc : c < P34) (hlt : eb < e)
    (he : e ≤ 6111) (heb : -6176 ≤ eb) (S : Nat) (hS : S = min (e - eb).toNat (34 - ndigits c)) :
    finish mode s (c * 10 ^ (e - eb).toNat) 1 eb eb = (.fin s (c * 10 ^ S) (e - S), 0) := by
  have hQ1 := ndigits_pos hc0
  have hQ34 : ndigits c ≤ 34 := (ndigits_le_iff hc0).2 (by simpa [P34] using hc)
  have hfit : ndigits c + S ≤ 34 := by omega
  have hM := pow_lt_of_digits (C := c) rfl hfit
  refine finish_exact mode s _ eb (Nat.mul_pos hc0 (Nat.pow_pos (by decide))) (c * 10 ^ S) (e - S) (by omega) ?_
    ⟨by simpa [P34] using hM, by unfold eMin; omega, by unfold eMax; omega⟩ ?_
  · rw [Nat.mul_assoc, ← Nat.pow_add]
    congr 2
    omega
  · by_cases h : S = (e - eb).toNat
    · left; omega
    · right
      have hS' : S = 34 - ndigits c := by omega
      have hlo := (ndigits_spec hc0).1
      have : 10 ^ 33 ≤ c * 10 ^ S := by
        calc 10 ^ 33 = 10 ^ (ndigits c - 1) * 10 ^ S := by rw [← Nat.pow_add]; congr 1; omega
          _ ≤ c * 10 ^ S := Nat.mul_le_mul_right _ hlo
      unfold P34
      omega

theorem P34_lt : P34 < 2^113 := by decide

/-- **the code's result for zero + non-zero `w`, other exponent below `w`'s** is `w` with `S` zeros appended -/
theorem padRes_spec (w : U128) (f : UInt32) {s : Bool} {c : Nat} {e : Int} (hw : decode (bitsOf w) = .fin s c e)
    (hc : c ≠ 0) (eo : UInt64) (B : Nat) (hB : eo.toNat = B * 2^49) (hlt : B < (e + 6176).toNat)
    (D D1 : UInt32) (THI TLO : UInt64) (hq : (qOf D D1 THI TLO (uH w) (uL w)).toInt = (ndigits c : Int))
    (S : Nat) (hS : S = min ((e + 6176).toNat - B) (34 - ndigits c)) :
    padRes (qOf D D1 THI TLO (uH w) (uL w)) (scOf (qOf D D1 THI TLO (uH w) (uL w)) (uE w) eo) w (uE w) (uH w) (uL w) f
      = .ok (ofBits (encode (.fin s (c * 10 ^ S) (e - S))), f) := by
  obtain ⟨-, hwc, hcP, hwe, hlo, hhi, hws, henc⟩ := fin_view w hw
  have hc0 : 0 < c := Nat.pos_of_ne_zero hc
  have hQ1 := ndigits_pos hc0
  have hQ34 : ndigits c ≤ 34 := (ndigits_le_iff hc0).2 (by simpa [P34] using hcP)
  have hA : (e + 6176).toNat < 2^14 := by omega
  have hsc := scOf_toInt _ (uE w) eo (ndigits c) _ B hq hQ34 hwe hB (le_of_lt hlt) hA
  rw [← hS] at hsc
  have hnz : ¬ (uH w == 0 && uL w == 0) = true := by
    rw [C13GenNoncomp.zero128, hwc]; simpa using hc
  unfold padRes
  generalize qOf D D1 THI TLO (uH w) (uL w) = q at *
  generalize scOf q (uE w) eo = sc at *
  by_cases h0 : (sc == 0) = true
  · have hz : sc = 0 := by simpa using h0
    have hS0 : S = 0 := by
      rw [hz] at hsc
      have : (0 : Int32).toInt = 0 := by decide
      omega
    rw [if_pos h0, hz, show (UInt64.ofInt (toI (0 : Int32))) <<< 49 = 0 from by decide, UInt64.sub_zero,
      uE_canon w hnz, or_and_absorb, or_and_absorb, hS0, Nat.pow_zero, Nat.mul_one]
    show Except.ok (w, f) = _
    rw [show e - ((0 : Nat) : Int) = e from by simp, ← henc hc, ofBits_bitsOf]
  · have hS1 : 1 ≤ S := by
      by_contra hcon
      have : S = 0 := by omega
      rw [this] at hsc
      apply h0
      have : sc = 0 := by rw [← Int32.toInt_inj, hsc]; decide
      rw [this]; decide
    have hfit : ndigits c + S ≤ 34 := by omega
    obtain ⟨P, hP, hK⟩ := padK_ok (β := U128 × UInt32) q sc (uH w) (uL w) c (ndigits c) S hwc hq hsc rfl hc0 hS1 hfit
    have hM := pow_lt_of_digits (C := c) rfl hfit
    rw [if_neg h0, hK]
    have hSA : S ≤ (e + 6176).toNat := by omega
    rw [assemble P (w.w1 &&& c_MASK_SIGN) _ s (c * 10 ^ S) ((e + 6176).toNat - S) hP
      (lt_trans hM (by decide)) hws (exp_after (uE w) sc _ S hwe hsc hSA hA) (by omega), encode_fin,
      show (e - (S : Int) + 6176).toNat = (e + 6176).toNat - S from by omega]

theorem nonzero_words {h l : UInt64} {c : Nat} (hc : h.toNat * 2^64 + l.toNat = c) (h0 : c ≠ 0) :
    ¬ (h == 0 && l == 0) = true := by
  rw [C13GenNoncomp.zero128, hc]; simpa using h0

theorem hi_lt {h l : UInt64} {c : Nat} (hc : h.toNat * 2^64 + l.toNat = c) (hP : c < P34) : h.toNat < 2^49 := by
  have := P34_lt; omega

/-- **`bid128_add`, 0 + y** (`x` a zero — canonical or a non-canonical encoding —, `y` a non-zero number): `y` itself if
its exponent is not above the zero's, else `y` with zeros appended down to the zero's exponent, as far as 34 digits allow;
no flag -/
theorem add_zero_left (x y : U128) (m : RoundingMode) (f : UInt32) {s1 s2 : Bool} {c2 : Nat} {e1 e2 : Int}
    (hx : decode (bitsOf x) = .fin s1 0 e1) (hy : decode (bitsOf y) = .fin s2 c2 e2) (hc2 : c2 ≠ 0) :
    bid128_add x y m f =
      .ok (ofBits (encode (addD (md m) (decode (bitsOf x)) (decode (bitsOf y))).1),
           f ||| UInt32.ofNat (addD (md m) (decode (bitsOf x)) (decode (bitsOf y))).2) := by
  obtain ⟨hx1, hxc, -, hxe, hxlo, hxhi, hxs, -⟩ := fin_view x hx
  obtain ⟨hy1, hyc, hyP, hye, hylo, hyhi, hys, hyenc⟩ := fin_view y hy
  have hc0 : 0 < c2 := Nat.pos_of_ne_zero hc2
  have hsp := not_special2 hx1 hy1
  have hx0 := zero_words hxc
  have hy0 := nonzero_words hyc hc2
  rw [hx, hy, addD_fin_fin, addFin_zero_left _ _ _ _ _ _ _ hc0]
  by_cases hle : e2 ≤ e1
  · have hm : (if e1 ≤ e2 then e1 else e2) = e2 := by split <;> omega
    rw [hm, finish_asis _ _ _ _ hc0 hyP hylo hyhi,
      code_zero_y_asis x y m f hsp hx0 hy0 (by rw [le_word _ _ _ _ hye hxe]; exact decide_eq_true (by omega))]
    show Except.ok _ = Except.ok (_, f ||| UInt32.ofNat 0)
    rw [or_zero32, ← hyenc hc2, ofBits_bitsOf]
  · have hm : (if e1 ≤ e2 then e1 else e2) = e1 := by split <;> omega
    obtain ⟨D, D1, THI, TLO, hT, hq⟩ := digits_row (uH y) (uL y) (by rw [hyc]; exact hc0) (hi_lt hyc hyP)
    rw [hyc] at hq
    rw [hm, finish_pad _ _ _ _ _ hc0 hyP (by omega) hyhi hxlo _ rfl,
      code_zero_y_pad x y m f hsp hx0 hy0 (by rw [le_word _ _ _ _ hye hxe]; exact fun h => hle (by have := of_decide_eq_true h; omega)) D D1 THI TLO hT,
      padRes_spec y f hy hc2 (uE x) _ hxe (by omega) D D1 THI TLO hq _ rfl]
    show Except.ok _ = Except.ok (_, f ||| UInt32.ofNat 0)
    rw [or_zero32, show (e2 + 6176).toNat - (e1 + 6176).toNat = (e2 - e1).toNat from by omega]

/-- **`bid128_add`, x + 0**: the mirror image -/
theorem add_zero_right (x y : U128) (m : RoundingMode) (f : UInt32) {s1 s2 : Bool} {c1 : Nat} {e1 e2 : Int}
    (hx : decode (bitsOf x) = .fin s1 c1 e1) (hy : decode (bitsOf y) = .fin s2 0 e2) (hc1 : c1 ≠ 0) :
    bid128_add x y m f =
      .ok (ofBits (encode (addD (md m) (decode (bitsOf x)) (decode (bitsOf y))).1),
           f ||| UInt32.ofNat (addD (md m) (decode (bitsOf x)) (decode (bitsOf y))).2) := by
  obtain ⟨hx1, hxc, hxP, hxe, hxlo, hxhi, hxs, hxenc⟩ := fin_view x hx
  obtain ⟨hy1, hyc, -, hye, hylo, hyhi, hys, -⟩ := fin_view y hy
  have hc0 : 0 < c1 := Nat.pos_of_ne_zero hc1
  have hsp := not_special2 hx1 hy1
  have hx0 := nonzero_words hxc hc1
  have hy0 := zero_words hyc
  rw [hx, hy, addD_fin_fin, addFin_zero_right _ _ _ _ _ _ _ hc0]
  by_cases hle : e1 ≤ e2
  · have hm : (if e1 ≤ e2 then e1 else e2) = e1 := by split <;> omega
    rw [hm, finish_asis _ _ _ _ hc0 hxP hxlo hxhi,
      code_x_zero_asis x y m f hsp hx0 hy0 (by rw [le_word _ _ _ _ hxe hye]; exact decide_eq_true (by omega))]
    show Except.ok _ = Except.ok (_, f ||| UInt32.ofNat 0)
    rw [or_zero32, ← hxenc hc1, ofBits_bitsOf]
  · have hm : (if e1 ≤ e2 then e1 else e2) = e2 := by split <;> omega
    obtain ⟨D, D1, THI, TLO, hT, hq⟩ := digits_row (uH x) (uL x) (by rw [hxc]; exact hc0) (hi_lt hxc hxP)
    rw [hxc] at hq
    rw [hm, finish_pad _ _ _ _ _ hc0 hxP (by omega) hxhi hylo _ rfl,
      code_x_zero_pad x y m f hsp hx0 hy0 (by rw [le_word _ _ _ _ hxe hye]; exact fun h => hle (by have := of_decide_eq_true h; omega)) D D1 THI TLO hT,
      padRes_spec x f hx hc1 (uE y) _ hye (by omega) D D1 THI TLO hq _ rfl]
    show Except.ok _ = Except.ok (_, f ||| UInt32.ofNat 0)
    rw [or_zero32, show (e1 + 6176).toNat - (e2 + 6176).toNat = (e1 - e2).toNat from by omega]

-- 0E-10 + 5E+30: 33 zeros fit, exponent 30 − 33 = −3 (one digit, gap 40)
example : bid128_add ⟨0, 0x302c000000000000⟩ ⟨5, 0x307c000000000000⟩ .NearestEven 0
    = .ok (ofBits (encode (.fin false (5 * 10^33) (-3))), 0) := by
  rw [add_zero_left (s1 := false) (e1 := -10) (s2 := false) (c2 := 5) (e2 := 30) _ _ _ _ (by decide +kernel)
    (by decide +kernel) (by decide)]
  decide +kernel

/-! ## 8. Two non-zero operands, the exact branch `0 ≤ delta ≤ 33 − q2`: the code level -/

/-- `delta = q1 + e1 − q2 − e2` as the code computes it from the digit counts and the exponent words -/
@[reducible] def deltaOf (q1 q2 : Int32) (ea eb : UInt64) : Int32 :=
  q1 + Int32.ofInt (toI (ea >>> 49)) - q2 - Int32.ofInt (toI (eb >>> 49))
/-- the alignment shift `scale = delta − q1 + q2` (= e1 − e2) -/
@[reducible] def scA (q1 q2 : Int32) (ea eb : UInt64) : Int32 := deltaOf q1 q2 ea eb - q1 + q2

/-- the alignment multiplication `C1 · 10^scale` as the code selects it, followed by `K C1 C1_hi C1_lo` -/
def alignK {β : Type} (q1 sc : Int32) (ah al : UInt64) (K : U128 → UInt64 → UInt64 → Except String β) : Except String β :=
  if decide (sc ≥ 20) = true then (do
    let t ← tbl128 Dec.Gen.BID_TEN2K128 (UInt64.ofInt (toI (sc - 20)))
    let C1 ← mul_128x64_to_128 al t
    K C1 C1.w1 C1.w0)
  else if decide (sc ≥ 1) = true then
    (if decide (q1 ≤ 19) = true then (do
      let t ← tbl64 Dec.Gen.BID_TEN2K64 (UInt64.ofInt (toI sc))
      let C1 ← mul_64x64_to_128MACH al t
      K C1 C1.w1 C1.w0)
    else (do
      let t ← tbl64 Dec.Gen.BID_TEN2K64 (UInt64.ofInt (toI sc))
      let C1 ← mul_128x64_to_128 t ⟨al, ah⟩
      K C1 C1.w1 C1.w0))
  else K ⟨al, (default : U128).w1⟩ ah al

/-- **what the exact branch computes** from the aligned first coefficient `(hi, lo)` (`w0` its low word as kept in `C1`),
the second coefficient `(bh, bl)`, the sign words and the exponent words: the sum with the common sign, or the difference
with the sign of the larger, at the second operand's exponent; a zero difference gets the sign `−` only in `Downward` -/
def exactRes (sa sb ea eb w0 hi lo bh bl : UInt64) (m : RoundingMode) : U128 :=
  if (sa == sb) = true then
    ⟨UInt64.ofInt (toI ((toI lo).toNat + (toI bl).toNat)),
      sa ||| eb ||| (if decide (UInt64.ofInt (toI ((toI lo).toNat + (toI bl).toNat)) < w0) = true
        then UInt64.ofInt (toI ((toI hi).toNat + (toI bh).toNat)) + 1
        else UInt64.ofInt (toI ((toI hi).toNat + (toI bh).toNat)))⟩
  else
    if (lo - bl == 0 && (if decide (lo - bl > w0) = true then hi - bh - 1 else hi - bh) == 0) = true then
      ⟨0, if (m == RoundingMode.Downward) = true then (if decide (ea < eb) = true then ea else eb) ||| 9223372036854775808
          else (if decide (ea < eb) = true then ea else eb)⟩
    else if decide ((if decide (lo - bl > w0) = true then hi - bh - 1 else hi - bh) ≥ 9223372036854775808) = true then
      ⟨~~~(lo - bl) + 1,
        sb ||| eb ||| (if (~~~(lo - bl) + 1 == 0) = true
          then ~~~(if decide (lo - bl > w0) = true then hi - bh - 1 else hi - bh) + 1
          else ~~~(if decide (lo - bl > w0) = true then hi - bh - 1 else hi - bh))⟩
    else ⟨lo - bl, sa ||| eb ||| (if decide (lo - bl > w0) = true then hi - bh - 1 else hi - bh)⟩

/-- close `pure (tree of tests) = .ok (exactRes …, f)` -/
macro "tree_tac" : tactic => `(tactic| (
  unfold exactRes
  refine congrArg Except.ok ?_
  repeat' split
  all_goals rfl))

/-- the operands in the order the code works with: `a` has the larger exponent word (`x` on a tie) -/
def Ordered (x y a b : U128) : Prop :=
  (a = x ∧ b = y ∧ ¬ decide (uE x < uE y) = true) ∨ (a = y ∧ b = x ∧ decide (uE x < uE y) = true)

theorem code_exact (x y a b : U128) (m : RoundingMode) (f : UInt32)
    (hsp : ¬ ((x.w1 &&& c_MASK_SPECIAL == c_MASK_SPECIAL) || (y.w1 &&& c_MASK_SPECIAL == c_MASK_SPECIAL)) = true)
    (hx0 : ¬ (uH x == 0 && uL x == 0) = true) (hy0 : ¬ (uH y == 0 && uL y == 0) = true)
    (hab : Ordered x y a b)
    (D D1 : UInt32) (THI TLO : UInt64) (D' D1' : UInt32) (THI' TLO' : UInt64)
    (hTa : tblDD Dec.Gen.BID_NR_DIGITS (UInt64.ofInt (toI (nbOf (uH a) (uL a)))) = .ok ⟨D, THI, TLO, D1⟩)
    (hTb : tblDD Dec.Gen.BID_NR_DIGITS (UInt64.ofInt (toI (nbOf (uH b) (uL b)))) = .ok ⟨D', THI', TLO', D1'⟩)
    (hd1 : ¬ decide (deltaOf (qOf D D1 THI TLO (uH a) (uL a)) (qOf D' D1' THI' TLO' (uH b) (uL b)) (uE a) (uE b) ≥ c_P34) = true)
    (hd2 : decide (deltaOf (qOf D D1 THI TLO (uH a) (uL a)) (qOf D' D1' THI' TLO' (uH b) (uL b)) (uE a) (uE b) ≥ 0) = true)
    (hd3 : decide (deltaOf (qOf D D1 THI TLO (uH a) (uL a)) (qOf D' D1' THI' TLO' (uH b) (uL b)) (uE a) (uE b)
      ≤ c_P34 - 1 - qOf D' D1' THI' TLO' (uH b) (uL b)) = true) :
    bid128_add x y m f =
      alignK (qOf D D1 THI TLO (uH a) (uL a))
        (scA (qOf D D1 THI TLO (uH a) (uL a)) (qOf D' D1' THI' TLO' (uH b) (uL b)) (uE a) (uE b)) (uH a) (uL a)
        (fun C1 hi lo => .ok (exactRes (a.w1 &&& c_MASK_SIGN) (b.w1 &&& c_MASK_SIGN) (uE a) (uE b) C1.w0 hi lo
          (uH b) (uL b) m, f)) := by
  add_unpack hsp
  take_neg
  · rw [hxh, hxl]; exact hx0
  take_neg
  · rw [hyh, hyl]; exact hy0
  head_step
  sym_exec
  gen_args _ sa sb _ ea eb _ ah bh _ al bl
  have hv : sa = a.w1 &&& c_MASK_SIGN ∧ sb = b.w1 &&& c_MASK_SIGN ∧ ea = uE a ∧ eb = uE b ∧ ah = uH a ∧ bh = uH b ∧
      al = uL a ∧ bl = uL b := by
    rw [hsa, hsb, hea, heb, hah, hbh, hal, hbl, hxe, hye, hxh, hyh, hxl, hyl]
    rcases hab with ⟨rfl, rfl, hc⟩ | ⟨rfl, rfl, hc⟩
    · simp only [if_neg hc, and_self]
    · simp only [if_pos hc, and_self]
  clear hsa hsb hea heb hah hbh hal hbl
  obtain ⟨hsa, hsb, hea, heb, hah, hbh, hal, hbl⟩ := hv
  head_step
  sym_exec
  gen_args _ _ nb1
  replace hnb1 : nb1 = nbOf (uH a) (uL a) := by rw [hnb1, hah, hal]; rfl
  rw [← hnb1] at hTa
  head_step
  sym_exec
  gen_args _ q1
  replace hq1 : q1 = qOf D D1 THI TLO (uH a) (uL a) := by rw [hq1, hah, hal]; rfl
  head_step
  sym_exec
  gen_args _ _ nb2
  replace hnb2 : nb2 = nbOf (uH b) (uL b) := by rw [hnb2, hbh, hbl]; rfl
  rw [← hnb2] at hTb
  head_step
  sym_exec
  gen_args _ q2
  replace hq2 : q2 = qOf D' D1' THI' TLO' (uH b) (uL b) := by rw [hq2, hbh, hbl]; rfl
  head_step
  take_neg
  · rw [hq1, hq2, hea, heb]; exact hd1
  take_pos
  · rw [hq1, hq2, hea, heb]; exact hd2
  take_pos
  · rw [hq1, hq2, hea, heb]; exact hd3
  subst hsa hsb hea heb hah hbh hal hbl hq1 hq2
  extract_lets -underBinder +onlyGivenNames scale J
  have key : ∀ (C1 : U128) (hi lo : UInt64), J () hi lo C1 =
      Except.ok (exactRes (a.w1 &&& c_MASK_SIGN) (b.w1 &&& c_MASK_SIGN) (uE a) (uE b) C1.w0 hi lo (uH b) (uL b) m, f) := by
    intro C1 hi lo
    sym_exec!
    tree_tac
  unfold alignK
  by_cases h1 : decide (scA (qOf D D1 THI TLO (uH a) (uL a)) (qOf D' D1' THI' TLO' (uH b) (uL b)) (uE a) (uE b) ≥ 20) = true
  · take_pos
    · exact h1
    rw [if_pos h1]
    refine bind_congr_right _ (fun t => ?_)
    refine bind_congr_right _ (fun C1 => ?_)
    exact key _ _ _
  take_neg
  · exact h1
  rw [if_neg h1]
  by_cases h2 : decide (scA (qOf D D1 THI TLO (uH a) (uL a)) (qOf D' D1' THI' TLO' (uH b) (uL b)) (uE a) (uE b) ≥ 1) = true
  · take_pos
    · exact h2
    rw [if_pos h2]
    by_cases h3 : decide (qOf D D1 THI TLO (uH a) (uL a) ≤ 19) = true
    · take_pos
      · exact h3
      rw [if_pos h3]
      refine bind_congr_right _ (fun t => ?_)
      refine bind_congr_right _ (fun C1 => ?_)
      exact key _ _ _
    · take_neg
      · exact h3
      rw [if_neg h3]
      head_step
      refine bind_congr_right _ (fun t => ?_)
      refine bind_congr_right _ (fun C1 => ?_)
      exact key _ _ _
  · take_neg
    · exact h2
    rw [if_neg h2]
    exact key _ _ _

/-! ## 9. The exact branch: arithmetic of the code's words -/

open Dec.C13GenNoncomp (u64_ofInt_nat toI_i32 toI_u64 bmod32 ten2k64_get)

theorem expw_i32 (ea : UInt64) (EA : Nat) (hea : ea.toNat = EA * 2^49) (hEA : EA < 2^14) :
    (Int32.ofInt (toI (ea >>> 49))).toInt = (EA : Int) := by
  have e : (ea >>> 49).toNat = EA := by rw [shr49, hea]; omega
  rw [toI_u64, e, Int32.toInt_ofInt_of_le (by omega) (by omega)]

/-- `delta` is `q1 + e1 − q2 − e2` (no wrap-around) -/
theorem delta_toInt (q1 q2 : Int32) (ea eb : UInt64) (Q1 Q2 EA EB : Nat) (hq1 : q1.toInt = Q1) (hq2 : q2.toInt = Q2)
    (hQ1 : Q1 ≤ 34) (hQ2 : Q2 ≤ 34) (hea : ea.toNat = EA * 2^49) (heb : eb.toNat = EB * 2^49) (hEA : EA < 2^14)
    (hEB : EB < 2^14) : (deltaOf q1 q2 ea eb).toInt = (Q1 : Int) + EA - Q2 - EB := by
  unfold deltaOf
  rw [Int32.toInt_sub, Int32.toInt_sub, Int32.toInt_add, expw_i32 ea EA hea hEA, expw_i32 eb EB heb hEB, hq1, hq2,
    bmod32 ((Q1 : Int) + EA) (by omega) (by omega), bmod32 ((Q1 : Int) + EA - Q2) (by omega) (by omega),
    bmod32 _ (by omega) (by omega)]

/-- `scale = delta − q1 + q2` is the exponent difference -/
theorem scA_toInt (q1 q2 : Int32) (ea eb : UInt64) (Q1 Q2 EA EB : Nat) (hq1 : q1.toInt = Q1) (hq2 : q2.toInt = Q2)
    (hQ1 : Q1 ≤ 34) (hQ2 : Q2 ≤ 34) (hea : ea.toNat = EA * 2^49) (heb : eb.toNat = EB * 2^49) (hEA : EA < 2^14)
    (hEB : EB < 2^14) : (scA q1 q2 ea eb).toInt = (EA : Int) - EB := by
  have hd := delta_toInt q1 q2 ea eb Q1 Q2 EA EB hq1 hq2 hQ1 hQ2 hea heb hEA hEB
  unfold scA
  rw [Int32.toInt_add, Int32.toInt_sub, hd, hq1, hq2, bmod32 ((Q1 : Int) + EA - Q2 - EB - Q1) (by omega) (by omega),
    bmod32 _ (by omega) (by omega)]
  omega

theorem words_swap (r : U128) (V : Nat) (e : r.toNat' = V) : r.w1.toNat * 2^64 + r.w0.toNat = V := by
  unfold Rs.U128.toNat' at e; omega

theorem i32_ge (a b : Int32) : decide (a ≥ b) = decide (b.toInt ≤ a.toInt) := by
  rw [decide_eq_decide, ge_iff_le, Int32.le_iff_toInt_le]

/-- **the alignment multiplication**: for a `Q`-digit `C` and a shift `S` with `Q + S ≤ 34`, whichever path the code
selects continues with the two words of `C·10^S` (and `C1.w0` the low word) -/
theorem alignK_ok {β : Type} (q1 sc : Int32) (ah al : UInt64) (C Q S : Nat) (hC : ah.toNat * 2^64 + al.toNat = C)
    (hq : q1.toInt = Q) (hsc : sc.toInt = S) (hQ : Q = ndigits C) (hC0 : 0 < C) (hfit : Q + S ≤ 34) :
    ∃ (P : U128) (hi lo : UInt64), P.w0 = lo ∧ hi.toNat * 2^64 + lo.toNat = C * 10^S ∧
      ∀ K : U128 → UInt64 → UInt64 → Except String β, alignK q1 sc ah al K = K P hi lo := by
  have hl := al.toNat_lt
  have hlt := pow_lt_of_digits hQ hfit
  have hQ1 : 1 ≤ Q := by rw [hQ]; exact ndigits_pos hC0
  have h20 : (20 : Int32).toInt = 20 := by decide
  have h1 : (1 : Int32).toInt = 1 := by decide
  by_cases c0 : 20 ≤ S
  · -- S ≥ 20: C fits one word
    have hs20 : decide (sc ≥ 20) = true := by rw [i32_ge, hsc, h20]; exact decide_eq_true (by omega)
    have hCs : C < 10^19 := by
      have : C < 10^Q := by rw [hQ]; exact lt_pow_ndigits C
      exact lt_of_lt_of_le this (Nat.pow_le_pow_right (by decide) (by omega))
    have hh0 : ah.toNat = 0 := by
      have : (10:Nat)^19 < 2^64 := by decide
      omega
    have hlC : al.toNat = C := by omega
    have hs' : (sc - 20).toInt = ((S - 20 : Nat) : Int) := by
      rw [Int32.toInt_sub, hsc, h20, bmod32 _ (by omega) (by omega)]; omega
    obtain ⟨v, hv, hv10⟩ := ten2k128_get19 (S - 20) (by omega)
    obtain ⟨r, hr, hrv⟩ := C01GenArith.gen_mul_128x64_to_128_exact al v (by
      rw [hv10, hlC, show S - 20 + 20 = S from by omega]
      exact lt_trans hlt (by decide))
    refine ⟨r, r.w1, r.w0, rfl, ?_, fun K => ?_⟩
    · have e : r.toNat' = C * 10^S := by rw [hrv, hv10, hlC, show S - 20 + 20 = S from by omega]
      exact words_swap _ _ e
    · unfold alignK
      rw [if_pos hs20, idx_i32 (sc - 20) (S - 20) hs', hv, bind_ok, hr, bind_ok]
  · have hs20 : ¬ decide (sc ≥ 20) = true := by rw [i32_ge, hsc, h20]; simpa using c0
    by_cases c1 : 1 ≤ S
    · have hs1 : decide (sc ≥ 1) = true := by rw [i32_ge, hsc, h1]; exact decide_eq_true (by omega)
      obtain ⟨v, hv, hv10⟩ := ten2k64_get S (by omega)
      by_cases c2 : Q ≤ 19
      · have hq19 : decide (q1 ≤ 19) = true := by
          rw [i32_le_lit, hq]; exact decide_eq_true (by simpa using c2)
        have hCs : C < 10^19 := by
          have : C < 10^Q := by rw [hQ]; exact lt_pow_ndigits C
          exact lt_of_lt_of_le this (Nat.pow_le_pow_right (by decide) c2)
        have hh0 : ah.toNat = 0 := by
          have : (10:Nat)^19 < 2^64 := by decide
          omega
        have hlC : al.toNat = C := by omega
        obtain ⟨r, hr, hrv⟩ := C01GenArith.gen_mul_64x64_to_128MACH al v
        refine ⟨r, r.w1, r.w0, rfl, ?_, fun K => ?_⟩
        · have e : r.toNat' = C * 10^S := by rw [hrv, hv10, hlC]
          exact words_swap _ _ e
        · unfold alignK
          rw [if_neg hs20, if_pos hs1, if_pos hq19, idx_i32 sc S hsc, hv, bind_ok, hr, bind_ok]
      · have hq19 : ¬ decide (q1 ≤ 19) = true := by
          rw [i32_le_lit, hq]; simpa using c2
        obtain ⟨r, hr, hrv⟩ := C01GenArith.gen_mul_128x64_to_128_exact v ⟨al, ah⟩ (by
          rw [hv10]
          show 10^S * (al.toNat + 2^64 * ah.toNat) < 2^128
          rw [show al.toNat + 2^64 * ah.toNat = C from by omega, Nat.mul_comm]
          exact lt_trans hlt (by decide))
        refine ⟨r, r.w1, r.w0, rfl, ?_, fun K => ?_⟩
        · have e : r.toNat' = C * 10^S := by
            rw [hrv, hv10]
            show 10^S * (al.toNat + 2^64 * ah.toNat) = _
            rw [show al.toNat + 2^64 * ah.toNat = C from by omega, Nat.mul_comm]
          exact words_swap _ _ e
        · unfold alignK
          rw [if_neg hs20, if_pos hs1, if_neg hq19, idx_i32 sc S hsc, hv, bind_ok, hr, bind_ok]
    · have hs1 : ¬ decide (sc ≥ 1) = true := by rw [i32_ge, hsc, h1]; simpa using c1
      have hS0 : S = 0 := by omega
      refine ⟨⟨al, (default : U128).w1⟩, ah, al, rfl, by rw [hS0, Nat.pow_zero, Nat.mul_one]; exact hC, fun K => ?_⟩
      unfold alignK
      rw [if_neg hs20, if_neg hs1]

/-! ### 128-bit add / subtract / negate on two words -/

theorem add_lo (lo bl : UInt64) : (UInt64.ofInt (toI ((toI lo).toNat + (toI bl).toNat))).toNat = (lo.toNat + bl.toNat) % 2^64 := by
  rw [toI_u64, toI_u64, Int.toNat_natCast, Int.toNat_natCast]
  show (UInt64.ofInt ((lo.toNat + bl.toNat : Nat) : Int)).toNat = _
  rw [u64_ofInt_nat, UInt64.toNat_ofNat']

/-- the same-sign path: the two result words hold `A + B` -/
theorem add128_words (hi lo bh bl : UInt64) (hfit : hi.toNat * 2^64 + lo.toNat + (bh.toNat * 2^64 + bl.toNat) < 2^128) :
    (if decide (UInt64.ofInt (toI ((toI lo).toNat + (toI bl).toNat)) < lo) = true
        then UInt64.ofInt (toI ((toI hi).toNat + (toI bh).toNat)) + 1
        else UInt64.ofInt (toI ((toI hi).toNat + (toI bh).toNat))).toNat * 2^64
      + (UInt64.ofInt (toI ((toI lo).toNat + (toI bl).toNat))).toNat
      = hi.toNat * 2^64 + lo.toNat + (bh.toNat * 2^64 + bl.toNat) := by
  have h1 := lo.toNat_lt; have h2 := bl.toNat_lt; have h3 := hi.toNat_lt; have h4 := bh.toNat_lt
  have el := add_lo lo bl
  have eh := add_lo hi bh
  by_cases c : UInt64.ofInt (toI ((toI lo).toNat + (toI bl).toNat)) < lo
  · rw [if_pos (by simpa using c), UInt64.toNat_add, eh, el]
    rw [UInt64.lt_iff_toNat_lt, el] at c
    rw [show (1 : UInt64).toNat = 1 from rfl]
    omega
  · rw [if_neg (by simpa using c), eh, el]
    rw [UInt64.lt_iff_toNat_lt, el] at c
    omega

/-- the opposite-sign path: the two words hold `A − B` modulo 2^128 -/
theorem sub128_words (hi lo bh bl : UInt64) :
    (if decide (lo - bl > lo) = true then hi - bh - 1 else hi - bh).toNat * 2^64 + (lo - bl).toNat
      = (hi.toNat * 2^64 + lo.toNat + 2^128 - (bh.toNat * 2^64 + bl.toNat)) % 2^128 := by
  have h1 := lo.toNat_lt; have h2 := bl.toNat_lt; have h3 := hi.toNat_lt; have h4 := bh.toNat_lt
  have el : (lo - bl).toNat = (lo.toNat + 2^64 - bl.toNat) % 2^64 := by
    rw [UInt64.toNat_sub]; omega
  have eh : (hi - bh).toNat = (hi.toNat + 2^64 - bh.toNat) % 2^64 := by
    rw [UInt64.toNat_sub]; omega
  by_cases c : lo - bl > lo
  · rw [if_pos (by simpa using c), UInt64.toNat_sub, eh, el]
    rw [gt_iff_lt, UInt64.lt_iff_toNat_lt, el] at c
    rw [show (1 : UInt64).toNat = 1 from rfl]
    omega
  · rw [if_neg (by simpa using c), eh, el]
    rw [gt_iff_lt, UInt64.lt_iff_toNat_lt, el] at c
    omega

/-- two's-complement negation of two words -/
theorem neg128_words (h l : UInt64) :
    (if (~~~l + 1 == 0) = true then ~~~h + 1 else ~~~h).toNat * 2^64 + (~~~l + 1).toNat
      = (2^128 - (h.toNat * 2^64 + l.toNat)) % 2^128 := by
  have h1 := l.toNat_lt; have h3 := h.toNat_lt
  have hsz : UInt64.size = 2^64 := rfl
  have el : (~~~l + 1).toNat = (2^64 - 1 - l.toNat + 1) % 2^64 := by
    rw [UInt64.toNat_add, UInt64.toNat_not]; rfl
  by_cases c : ~~~l + 1 = 0
  · rw [if_pos (by simpa using c), UInt64.toNat_add, UInt64.toNat_not, el]
    rw [← UInt64.toNat_inj, el] at c
    rw [show (1 : UInt64).toNat = 1 from rfl]
    rw [show (0 : UInt64).toNat = 0 from rfl] at c
    omega
  · rw [if_neg (by simpa using c), UInt64.toNat_not, el]
    rw [← UInt64.toNat_inj, el] at c
    rw [show (0 : UInt64).toNat = 0 from rfl] at c
    omega

/-! ## 10. The exact branch: the assembled result -/

theorem word_of_sign (w : UInt64) (s : Bool) (h : w.toNat = if s then 2^63 else 0) :
    w = if s then 9223372036854775808 else 0 := by
  rw [← UInt64.toNat_inj, h]
  cases s <;> rfl

theorem or3 (s e h : UInt64) : s ||| e ||| h = (h ||| s) ||| e := by
  rw [UInt64.or_comm (s ||| e) h, UInt64.or_assoc]

theorem zero128' (a b : UInt64) : (b == 0 && a == 0) = decide (a.toNat * 2^64 + b.toNat = 0) := by
  rw [Bool.and_comm]; exact C13GenNoncomp.zero128 a b

theorem words_toNat' (l h : UInt64) : (⟨l, h⟩ : U128).toNat' = h.toNat * 2^64 + l.toNat := by
  show l.toNat + 2^64 * h.toNat = _; omega

theorem enc_arith0' (T : Nat) : T * 2^49 * 2^64 + 0 = 0 + T * 2^113 + 0 := by omega
theorem enc_arith1' (T : Nat) : (2^63 + T * 2^49) * 2^64 + 0 = 2^127 + T * 2^113 + 0 := by omega

theorem expw_lt {E : Nat} (h : E < 2^14) : E * 2^49 < 2^63 := by omega

/-- `assemble` with the two coefficient words given separately -/
theorem assemble' (l h sw ew : UInt64) (s : Bool) (M E : Nat) (hP : h.toNat * 2^64 + l.toNat = M) (hM : M < 2^113)
    (hsw : sw.toNat = if s then 2^63 else 0) (hew : ew.toNat = E * 2^49) (hE : E < 2^14) :
    (⟨l, (h ||| sw) ||| ew⟩ : U128) = ofBits (signBit s + E * 2^113 + M) :=
  assemble ⟨l, h⟩ sw ew s M E (by rw [words_toNat']; exact hP) hM hsw hew hE

/-- the datum the exact branch stands for: `A`, `B` the aligned magnitudes, `E` the common biased exponent -/
def exactDatum (mode : Mode) (sA sB : Bool) (A B E : Nat) : Datum :=
  if sA = sB then .fin sA (A + B) ((E : Int) - 6176)
  else if A = B then .fin (mode == .rdn) 0 ((E : Int) - 6176)
  else if B < A then .fin sA (A - B) ((E : Int) - 6176)
  else .fin sB (B - A) ((E : Int) - 6176)

theorem encode_at (s : Bool) (M E : Nat) : encode (.fin s M ((E : Int) - 6176)) = signBit s + E * 2^113 + M := by
  rw [encode_fin, show ((E : Int) - 6176 + 6176).toNat = E from by omega]

theorem lt113 {n : Nat} (h : n < 10^34) : n < 2^113 := lt_trans h (by decide)

/-- **the exact branch delivers the exact sum**: `±(A + B)` for equal signs; for opposite signs `0` (negative only in
`Downward`) or `|A − B|` with the sign of the larger, all at the second operand's exponent -/
theorem exactRes_spec (m : RoundingMode) (sa sb ea eb hi lo bh bl : UInt64) (sA sB : Bool) (A B EA EB : Nat)
    (hsa : sa.toNat = if sA then 2^63 else 0) (hsb : sb.toNat = if sB then 2^63 else 0)
    (hea : ea.toNat = EA * 2^49) (heb : eb.toNat = EB * 2^49) (hE : EB ≤ EA) (hEA : EA < 2^14)
    (hA : hi.toNat * 2^64 + lo.toNat = A) (hB : bh.toNat * 2^64 + bl.toNat = B) (hA34 : A < 10^34) (hB34 : B < 10^34)
    (hAB : sA = sB → A + B < 10^34) :
    exactRes sa sb ea eb lo hi lo bh bl m = ofBits (encode (exactDatum (md m) sA sB A B EB)) := by
  have hEB : EB < 2^14 := by omega
  have hsig : (sa == sb) = decide (sA = sB) := by
    rw [word_of_sign sa sA hsa, word_of_sign sb sB hsb]
    cases sA <;> cases sB <;> rfl
  unfold exactRes exactDatum
  by_cases hs : sA = sB
  · rw [if_pos (by rw [hsig]; exact decide_eq_true hs), if_pos hs, or3, encode_at]
    have hAB := hAB hs
    have hw := add128_words hi lo bh bl (by rw [hA, hB]; exact lt_trans hAB (by decide))
    rw [hA, hB] at hw
    exact assemble' _ _ sa eb sA (A + B) EB hw (lt113 hAB) hsa heb hEB
  · rw [if_neg (by rw [hsig]; simpa using hs), if_neg hs]
    have hw := sub128_words hi lo bh bl
    rw [hA, hB] at hw
    rw [zero128', hw]
    by_cases h0 : A = B
    · have hz : (A + 2^128 - B) % 2^128 = 0 := by omega
      rw [if_pos (by rw [hz]; rfl), if_pos h0, encode_at]
      apply eq_ofBits
      have hnlt : ¬ ea < eb := by
        rw [UInt64.lt_iff_toNat_lt, hea, heb]; exact Nat.not_lt.2 (Nat.mul_le_mul_right _ hE)
      have hmin : (if decide (ea < eb) = true then ea else eb) = eb := if_neg (by simpa using hnlt)
      rw [hmin]
      have ho := or_sign eb (by rw [heb]; exact expw_lt hEB)
      cases m
      case Downward =>
        show (eb ||| 9223372036854775808).toNat * 2^64 + 0 = 2^127 + EB * 2^113 + 0
        rw [ho, heb]; exact enc_arith1' EB
      all_goals
        show eb.toNat * 2^64 + 0 = 0 + EB * 2^113 + 0
        rw [heb]; exact enc_arith0' EB
    · have hnz : ¬ (A + 2^128 - B) % 2^128 = 0 := by omega
      rw [if_neg (by simpa using hnz), if_neg h0]
      have hge : decide ((if decide (lo - bl > lo) = true then hi - bh - 1 else hi - bh) ≥ 9223372036854775808)
          = decide (A < B) := by
        rw [decide_eq_decide, ge_iff_le, UInt64.le_iff_toNat_le, show (9223372036854775808 : UInt64).toNat = 2^63 from rfl]
        have := (lo - bl).toNat_lt
        generalize (if decide (lo - bl > lo) = true then hi - bh - 1 else hi - bh).toNat = H at hw
        omega
      rw [hge]
      by_cases hlt : A < B
      · rw [if_pos (show decide (A < B) = true by simpa using hlt), if_neg (show ¬ B < A by omega), or3, encode_at]
        have hn := neg128_words (if decide (lo - bl > lo) = true then hi - bh - 1 else hi - bh) (lo - bl)
        rw [hw] at hn
        exact assemble' _ _ sb eb sB (B - A) EB (by rw [hn]; omega) (lt113 (by omega)) hsb heb hEB
      · rw [if_neg (show ¬ decide (A < B) = true by simpa using hlt), if_pos (show B < A by omega), or3, encode_at]
        exact assemble' _ _ sa eb sA (A - B) EB (by rw [hw]; omega) (lt113 (by omega)) hsa heb hEB

/-! ## 11. The exact branch is `addD` -/

theorem finish_at (mode : Mode) (s : Bool) (N : Nat) (e : Int) (hN0 : 0 < N) (hN : N < 10^34) (h1 : -6176 ≤ e)
    (h2 : e ≤ 6111) : finish mode s N 1 e e = (.fin s N e, 0) :=
  finish_exact mode s N e hN0 N e (le_refl _) (by rw [Int.sub_self, Int.toNat_zero, Nat.pow_zero, Nat.mul_one])
    ⟨by simpa [P34] using hN, h1, h2⟩ (Or.inl rfl)

/-- **the model on an exactly representable sum at the smaller exponent** -/
theorem addFin_exact (mode : Mode) (sA : Bool) (cA : Nat) (eA : Int) (sB : Bool) (cB : Nat) (eB : Int) (hle : eB ≤ eA)
    (hcA : 0 < cA) (A : Nat) (hA : A = cA * 10 ^ (eA - eB).toNat) (hA34 : A < 10^34) (hB34 : cB < 10^34)
    (hAB : sA = sB → A + cB < 10^34) (h1 : -6176 ≤ eB)
    (h2 : eB ≤ 6111) :
    addFin mode sA cA eA sB cB eB (if eA ≤ eB then eA else eB) = (exactDatum mode sA sB A cB (eB + 6176).toNat, 0) := by
  have hm : (if eA ≤ eB then eA else eB) = eB := by split <;> omega
  have hE : (((eB + 6176).toNat : Nat) : Int) - 6176 = eB := by omega
  have hA0 : 0 < A := by rw [hA]; exact Nat.mul_pos hcA (Nat.pow_pos (by decide))
  have hdec : ∀ (p : Prop) [Decidable p] (b : Bool), (decide p = b) → decide p = b := fun _ _ _ h => h
  have hz : ∀ b : Bool, zeroAt b eB = .fin b 0 eB := fun b => by unfold zeroAt; rw [clamp_id h1 h2]
  rw [hm]
  unfold addFin exactDatum
  simp only [hm, hE, Int.sub_self, Int.toNat_zero, Nat.pow_zero, Nat.mul_one, ← hA]
  cases sA <;> cases sB <;> simp only [sInt, Bool.false_eq_true, if_false, if_true, reduceCtorEq]
  · rw [if_neg (show ¬ ((A : Int) + cB = 0) by omega), hdec _ false (by simp; omega),
      show ((A : Int) + cB).natAbs = A + cB from by omega]
    exact finish_at mode false (A + cB) eB (by omega) (hAB rfl) h1 h2
  · by_cases h : A = cB
    · rw [if_pos (show (A : Int) + -cB = 0 by omega), if_pos h, hz]; rfl
    · rw [if_neg (show ¬ ((A : Int) + -cB = 0) by omega), if_neg h]
      by_cases h' : cB < A
      · rw [if_pos h', hdec _ false (by simp; omega), show ((A : Int) + -cB).natAbs = A - cB from by omega]
        exact finish_at mode false (A - cB) eB (by omega) (by omega) h1 h2
      · rw [if_neg h', hdec _ true (by simp; omega), show ((A : Int) + -cB).natAbs = cB - A from by omega]
        exact finish_at mode true (cB - A) eB (by omega) (by omega) h1 h2
  · by_cases h : A = cB
    · rw [if_pos (show -(A : Int) + cB = 0 by omega), if_pos h, hz]; rfl
    · rw [if_neg (show ¬ (-(A : Int) + cB = 0) by omega), if_neg h]
      by_cases h' : cB < A
      · rw [if_pos h', hdec _ true (by simp; omega), show (-(A : Int) + cB).natAbs = A - cB from by omega]
        exact finish_at mode true (A - cB) eB (by omega) (by omega) h1 h2
      · rw [if_neg h', hdec _ false (by simp; omega), show (-(A : Int) + cB).natAbs = cB - A from by omega]
        exact finish_at mode false (cB - A) eB (by omega) (by omega) h1 h2
  · rw [if_neg (show ¬ (-(A : Int) + -cB = 0) by omega), hdec _ true (by simp; omega),
      show (-(A : Int) + -cB).natAbs = A + cB from by omega]
    exact finish_at mode true (A + cB) eB (by omega) (hAB rfl) h1 h2

theorem zeroSumSign_comm (mode : Mode) (s1 s2 : Bool) : zeroSumSign mode s1 s2 = zeroSumSign mode s2 s1 := by
  cases s1 <;> cases s2 <;> rfl

/-- the model's sum of two finite numbers does not depend on the order of the operands -/
theorem addFin_comm (mode : Mode) (s1 : Bool) (c1 : Nat) (e1 : Int) (s2 : Bool) (c2 : Nat) (e2 : Int) :
    addFin mode s1 c1 e1 s2 c2 e2 (if e1 ≤ e2 then e1 else e2) = addFin mode s2 c2 e2 s1 c1 e1 (if e2 ≤ e1 then e2 else e1) := by
  have hm : (if e1 ≤ e2 then e1 else e2) = (if e2 ≤ e1 then e2 else e1) := by split <;> split <;> omega
  unfold addFin
  simp only [hm, zeroSumSign_comm mode s1 s2, Int.add_comm (sInt s1 _) (sInt s2 _)]

theorem i32_le (a b : Int32) : decide (a ≤ b) = decide (a.toInt ≤ b.toInt) := by
  rw [decide_eq_decide, Int32.le_iff_toInt_le]

/-- **the exact branch, operands in the code's order** (`a` the one with the larger exponent word): if
`q_b + e_b ≤ q_a + e_a ≤ 33 + e_b` the code returns the model's sum -/
theorem add_exact_core (x y a b : U128) (m : RoundingMode) (f : UInt32) (hab : Ordered x y a b)
    {sA sB : Bool} {cA cB : Nat} {eA eB : Int}
    (ha : decode (bitsOf a) = .fin sA cA eA) (hb : decode (bitsOf b) = .fin sB cB eB) (hcA : cA ≠ 0) (hcB : cB ≠ 0)
    (hd2 : (ndigits cB : Int) + eB ≤ ndigits cA + eA) (hd3 : (ndigits cA : Int) + eA - eB ≤ 33) :
    bid128_add x y m f =
      .ok (ofBits (encode (addFin (md m) sA cA eA sB cB eB (if eA ≤ eB then eA else eB)).1),
           f ||| UInt32.ofNat (addFin (md m) sA cA eA sB cB eB (if eA ≤ eB then eA else eB)).2) := by
  obtain ⟨ha1, hac, haP, hae, halo, hahi, has, -⟩ := fin_view a ha
  obtain ⟨hb1, hbc, hbP, hbe, hblo, hbhi, hbs, -⟩ := fin_view b hb
  have hcA0 : 0 < cA := Nat.pos_of_ne_zero hcA
  have hcB0 : 0 < cB := Nat.pos_of_ne_zero hcB
  have ha0 := nonzero_words hac hcA
  have hb0 := nonzero_words hbc hcB
  -- the order of the exponents
  have hEle : (eB + 6176).toNat ≤ (eA + 6176).toNat := by
    have hle : uE b ≤ uE a := by
      rcases hab with ⟨rfl, rfl, hc⟩ | ⟨rfl, rfl, hc⟩
      · exact UInt64.not_lt.1 (by simpa using hc)
      · exact UInt64.le_of_lt (by simpa using hc)
    rw [UInt64.le_iff_toNat_le, hae, hbe] at hle
    omega
  have hle : eB ≤ eA := by omega
  have hsp : ¬ ((x.w1 &&& c_MASK_SPECIAL == c_MASK_SPECIAL) || (y.w1 &&& c_MASK_SPECIAL == c_MASK_SPECIAL)) = true := by
    rcases hab with ⟨rfl, rfl, -⟩ | ⟨rfl, rfl, -⟩
    · exact not_special2 ha1 hb1
    · exact not_special2 hb1 ha1
  have hx0 : ¬ (uH x == 0 && uL x == 0) = true := by
    rcases hab with ⟨rfl, rfl, -⟩ | ⟨rfl, rfl, -⟩
    · exact ha0
    · exact hb0
  have hy0 : ¬ (uH y == 0 && uL y == 0) = true := by
    rcases hab with ⟨rfl, rfl, -⟩ | ⟨rfl, rfl, -⟩
    · exact hb0
    · exact ha0
  -- digit counts
  obtain ⟨D, D1, THI, TLO, hTa, hqa⟩ := digits_row (uH a) (uL a) (by rw [hac]; exact hcA0) (hi_lt hac haP)
  obtain ⟨D', D1', THI', TLO', hTb, hqb⟩ := digits_row (uH b) (uL b) (by rw [hbc]; exact hcB0) (hi_lt hbc hbP)
  rw [hac] at hqa
  rw [hbc] at hqb
  have hQA1 := ndigits_pos hcA0
  have hQB1 := ndigits_pos hcB0
  have hQA : ndigits cA ≤ 34 := (ndigits_le_iff hcA0).2 (by simpa [P34] using haP)
  have hQB : ndigits cB ≤ 34 := (ndigits_le_iff hcB0).2 (by simpa [P34] using hbP)
  have hEA : (eA + 6176).toNat < 2^14 := by omega
  have hEB : (eB + 6176).toNat < 2^14 := by omega
  have hdl := delta_toInt _ _ (uE a) (uE b) _ _ _ _ hqa hqb hQA hQB hae hbe hEA hEB
  have hsc := scA_toInt _ _ (uE a) (uE b) _ _ _ _ hqa hqb hQA hQB hae hbe hEA hEB
  have h34 : c_P34.toInt = 34 := by decide
  have h33 : (c_P34 - 1 - qOf D' D1' THI' TLO' (uH b) (uL b)).toInt = 33 - (ndigits cB : Int) := by
    rw [Int32.toInt_sub, Int32.toInt_sub, hqb, h34, show (1 : Int32).toInt = 1 from by decide,
      C13GenNoncomp.bmod32 (34 - 1) (by omega) (by omega), C13GenNoncomp.bmod32 _ (by omega) (by omega)]
    omega
  rw [code_exact x y a b m f hsp hx0 hy0 hab D D1 THI TLO D' D1' THI' TLO' hTa hTb
    (by rw [i32_ge, hdl, h34]; simp only [decide_eq_true_eq]; omega)
    (by rw [i32_ge, hdl, show (0 : Int32).toInt = 0 from by decide]; exact decide_eq_true (by omega))
    (by rw [i32_le, hdl, h33]; exact decide_eq_true (by omega))]
  -- the alignment
  have hS : (scA (qOf D D1 THI TLO (uH a) (uL a)) (qOf D' D1' THI' TLO' (uH b) (uL b)) (uE a) (uE b)).toInt
      = (((eA - eB).toNat : Nat) : Int) := by rw [hsc]; omega
  obtain ⟨P, hi, lo, hP0, hval, hK⟩ := alignK_ok (β := U128 × UInt32) _ _ (uH a) (uL a) cA (ndigits cA) (eA - eB).toNat
    hac hqa hS rfl hcA0 (by omega)
  rw [hK, hP0]
  have hlt := pow_lt_of_digits (C := cA) (Q := ndigits cA) (S := (eA - eB).toNat) rfl (by omega)
  have hBlt : cB < 10^33 := by
    have : ndigits cB ≤ 33 := by omega
    exact (ndigits_le_iff hcB0).1 this
  have hAlt : cA * 10 ^ (eA - eB).toNat < 10^33 := by
    have h1 : cA < 10 ^ ndigits cA := lt_pow_ndigits cA
    calc cA * 10 ^ (eA - eB).toNat < 10 ^ ndigits cA * 10 ^ (eA - eB).toNat :=
          Nat.mul_lt_mul_of_pos_right h1 (Nat.pow_pos (by decide))
      _ = 10 ^ (ndigits cA + (eA - eB).toNat) := (Nat.pow_add _ _ _).symm
      _ ≤ 10 ^ 33 := Nat.pow_le_pow_right (by decide) (by omega)
  have hsum : cA * 10 ^ (eA - eB).toNat + cB < 10^34 := by
    have : (10:Nat)^33 + 10^33 < 10^34 := by decide
    omega
  rw [exactRes_spec m _ _ (uE a) (uE b) hi lo (uH b) (uL b) sA sB _ cB _ _ has hbs hae hbe hEle hEA hval hbc
      (by omega) (by omega) (fun _ => hsum),
    addFin_exact (md m) sA cA eA sB cB eB hle hcA0 _ rfl (by omega) (by omega) (fun _ => hsum) hblo hbhi]
  show Except.ok _ = Except.ok (_, f ||| UInt32.ofNat 0)
  rw [or_zero32]

/-- the hypothesis of the exact branch in terms of the decoded operands: with `H` the operand of the larger exponent (`x`
on a tie) and `L` the other one, `q_L + e_L ≤ q_H + e_H ≤ 33 + e_L` (`q` the number of decimal digits of the coefficient):
the code's `0 ≤ delta ≤ P34 − 1 − q2`.  Then `C_H·10^(e_H − e_L)` has at most 33 digits, `C_L` as well, and the sum or
difference fits in 34 digits at the exponent `e_L`. -/
def ExactCond (c1 : Nat) (e1 : Int) (c2 : Nat) (e2 : Int) : Prop :=
  if e2 ≤ e1 then (ndigits c2 : Int) + e2 ≤ ndigits c1 + e1 ∧ (ndigits c1 : Int) + e1 - e2 ≤ 33
  else (ndigits c1 : Int) + e1 ≤ ndigits c2 + e2 ∧ (ndigits c2 : Int) + e2 - e1 ≤ 33

instance (c1 : Nat) (e1 : Int) (c2 : Nat) (e2 : Int) : Decidable (ExactCond c1 e1 c2 e2) := by
  unfold ExactCond; infer_instance

/-- **`bid128_add`, two non-zero numbers, the exact branch** (`0 ≤ delta ≤ 33 − q2` after the operands are ordered by
exponent): the exact sum / difference at the smaller exponent — same sign: `C_H·10^gap + C_L`; opposite signs:
`|C_H·10^gap − C_L|` with the sign of the larger, or the zero of the smaller exponent (negative only in `Downward`) —
which is `addD`; no flag. -/
theorem add_exact (x y : U128) (m : RoundingMode) (f : UInt32) {s1 s2 : Bool} {c1 c2 : Nat} {e1 e2 : Int}
    (hx : decode (bitsOf x) = .fin s1 c1 e1) (hy : decode (bitsOf y) = .fin s2 c2 e2) (hc1 : c1 ≠ 0) (hc2 : c2 ≠ 0)
    (h : ExactCond c1 e1 c2 e2) :
    bid128_add x y m f =
      .ok (ofBits (encode (addD (md m) (decode (bitsOf x)) (decode (bitsOf y))).1),
           f ||| UInt32.ofNat (addD (md m) (decode (bitsOf x)) (decode (bitsOf y))).2) := by
  obtain ⟨-, -, -, hxe, hxlo, hxhi, -, -⟩ := fin_view x hx
  obtain ⟨-, -, -, hye, hylo, hyhi, -, -⟩ := fin_view y hy
  rw [hx, hy, addD_fin_fin]
  unfold ExactCond at h
  by_cases hle : e2 ≤ e1
  · rw [if_pos hle] at h
    have hab : Ordered x y x y := Or.inl ⟨rfl, rfl, by
      rw [decide_eq_true_eq, UInt64.lt_iff_toNat_lt, hxe, hye]; omega⟩
    exact add_exact_core x y x y m f hab hx hy hc1 hc2 h.1 h.2
  · rw [if_neg hle] at h
    have hab : Ordered x y y x := Or.inr ⟨rfl, rfl, by
      rw [decide_eq_true_eq, UInt64.lt_iff_toNat_lt, hxe, hye]; omega⟩
    rw [addFin_comm]
    exact add_exact_core x y y x m f hab hy hx hc2 hc1 h.1 h.2

-- 123E+2 + (−45E0): H = x, gap 2, delta = 3 + 2 − 2 − 0 = 3: 12300 − 45 = 12255E0
example : bid128_add ⟨123, 0x3044000000000000⟩ ⟨45, 0xb040000000000000⟩ .NearestEven 0
    = .ok (ofBits (encode (.fin false 12255 0)), 0) := by
  rw [add_exact (s1 := false) (c1 := 123) (e1 := 2) (s2 := true) (c2 := 45) (e2 := 0) _ _ _ _ (by decide +kernel)
    (by decide +kernel) (by decide) (by decide) (by decide +kernel)]
  decide +kernel
-- 5E0 + (−5E+3) in Downward: the operands are swapped (H = y): 5 − 5000 = −4995E0
example : bid128_add ⟨5, 0x3040000000000000⟩ ⟨5, 0xb046000000000000⟩ .Downward 0
    = .ok (ofBits (encode (.fin true 4995 0)), 0) := by
  rw [add_exact (s1 := false) (c1 := 5) (e1 := 0) (s2 := true) (c2 := 5) (e2 := 3) _ _ _ _ (by decide +kernel)
    (by decide +kernel) (by decide) (by decide) (by decide +kernel)]
  decide +kernel
-- 7E+1 + (−70E0) in Downward: exact zero, negative
example : bid128_add ⟨7, 0x3042000000000000⟩ ⟨70, 0xb040000000000000⟩ .Downward 0
    = .ok (ofBits (encode (.fin true 0 0)), 0) := by
  rw [add_exact (s1 := false) (c1 := 7) (e1 := 1) (s2 := true) (c2 := 70) (e2 := 0) _ _ _ _ (by decide +kernel)
    (by decide +kernel) (by decide) (by decide) (by decide +kernel)]
  decide +kernel

/-! ## 13. The branches `delta = 34 − q2` and `delta < 0` where no rounding is needed: the code level -/

set_option hygiene false in
/-- from the start of `bid128_add` (two non-zero numbers, ordered as `a`, `b`) to the test `delta ≥ P34`: unpacking, swap,
the two digit counts; leaves `sa sb ea eb ah bh al bl q1 q2` with their equations -/
macro "add_front" : tactic => `(tactic| (
  add_unpack hsp
  take_neg
  · rw [hxh, hxl]; exact hx0
  take_neg
  · rw [hyh, hyl]; exact hy0
  head_step
  sym_exec
  gen_args _ sa sb _ ea eb _ ah bh _ al bl
  have hv : sa = a.w1 &&& c_MASK_SIGN ∧ sb = b.w1 &&& c_MASK_SIGN ∧ ea = uE a ∧ eb = uE b ∧ ah = uH a ∧ bh = uH b ∧
      al = uL a ∧ bl = uL b := by
    rw [hsa, hsb, hea, heb, hah, hbh, hal, hbl, hxe, hye, hxh, hyh, hxl, hyl]
    rcases hab with ⟨rfl, rfl, hc⟩ | ⟨rfl, rfl, hc⟩
    · simp only [if_neg hc, and_self]
    · simp only [if_pos hc, and_self]
  clear hsa hsb hea heb hah hbh hal hbl
  obtain ⟨hsa, hsb, hea, heb, hah, hbh, hal, hbl⟩ := hv
  head_step
  sym_exec
  gen_args _ _ nb1
  replace hnb1 : nb1 = nbOf (uH a) (uL a) := by rw [hnb1, hah, hal]; rfl
  rw [← hnb1] at hTa
  head_step
  sym_exec
  gen_args _ q1
  replace hq1 : q1 = qOf D D1 THI TLO (uH a) (uL a) := by rw [hq1, hah, hal]; rfl
  head_step
  sym_exec
  gen_args _ _ nb2
  replace hnb2 : nb2 = nbOf (uH b) (uL b) := by rw [hnb2, hbh, hbl]; rfl
  rw [← hnb2] at hTb
  head_step
  sym_exec
  gen_args _ q2
  replace hq2 : q2 = qOf D' D1' THI' TLO' (uH b) (uL b) := by rw [hq2, hbh, hbl]; rfl
  head_step))

set_option hygiene false in
/-- the alignment block of the branches `delta = 34 − q2` and `delta < 0` (join point `J`, one argument `C1`) is
`alignK … (fun _ hi lo => J () ⟨lo, hi⟩)` -/
macro "align_block" : tactic => `(tactic| (unfold alignK; rfl))

/-- the code's test "the sum reached 10^34" on the two result words -/
def bigTest (h l : UInt64) : Bool :=
  decide (h > 542101086242752) || (h == 542101086242752 && decide (l ≥ 4003012203950112768))

/-- the high word of a two-word sum / difference as these branches compute it (wrapping word operations, carry / borrow
from the low words) -/
def sumHi (hi lo bh bl : UInt64) : UInt64 := if decide (lo + bl < lo) = true then hi + bh + 1 else hi + bh
def diffHi (hi lo bh bl : UInt64) : UInt64 := if decide (bl - lo > bl) = true then bh - hi - 1 else bh - hi

theorem code_eqB_same (x y a b : U128) (m : RoundingMode) (f : UInt32)
    (hsp : ¬ ((x.w1 &&& c_MASK_SPECIAL == c_MASK_SPECIAL) || (y.w1 &&& c_MASK_SPECIAL == c_MASK_SPECIAL)) = true)
    (hx0 : ¬ (uH x == 0 && uL x == 0) = true) (hy0 : ¬ (uH y == 0 && uL y == 0) = true)
    (hab : Ordered x y a b)
    (D D1 : UInt32) (THI TLO : UInt64) (D' D1' : UInt32) (THI' TLO' : UInt64)
    (hTa : tblDD Dec.Gen.BID_NR_DIGITS (UInt64.ofInt (toI (nbOf (uH a) (uL a)))) = .ok ⟨D, THI, TLO, D1⟩)
    (hTb : tblDD Dec.Gen.BID_NR_DIGITS (UInt64.ofInt (toI (nbOf (uH b) (uL b)))) = .ok ⟨D', THI', TLO', D1'⟩)
    (hd1 : ¬ decide (deltaOf (qOf D D1 THI TLO (uH a) (uL a)) (qOf D' D1' THI' TLO' (uH b) (uL b)) (uE a) (uE b) ≥ c_P34) = true)
    (hd2 : decide (deltaOf (qOf D D1 THI TLO (uH a) (uL a)) (qOf D' D1' THI' TLO' (uH b) (uL b)) (uE a) (uE b) ≥ 0) = true)
    (hd3 : ¬ decide (deltaOf (qOf D D1 THI TLO (uH a) (uL a)) (qOf D' D1' THI' TLO' (uH b) (uL b)) (uE a) (uE b)
      ≤ c_P34 - 1 - qOf D' D1' THI' TLO' (uH b) (uL b)) = true)
    (hd4 : (deltaOf (qOf D D1 THI TLO (uH a) (uL a)) (qOf D' D1' THI' TLO' (uH b) (uL b)) (uE a) (uE b)
      == c_P34 - qOf D' D1' THI' TLO' (uH b) (uL b)) = true)
    (P : U128) (hi lo : UInt64)
    (hK : ∀ K : U128 → UInt64 → UInt64 → Except String (U128 × UInt32),
      alignK (qOf D D1 THI TLO (uH a) (uL a))
        (scA (qOf D D1 THI TLO (uH a) (uL a)) (qOf D' D1' THI' TLO' (uH b) (uL b)) (uE a) (uE b)) (uH a) (uL a) K = K P hi lo)
    (hs : (a.w1 &&& c_MASK_SIGN == b.w1 &&& c_MASK_SIGN) = true)
    (hbig : ¬ bigTest (sumHi hi lo (uH b) (uL b)) (lo + uL b) = true) :
    bid128_add x y m f =
      .ok (⟨lo + uL b, a.w1 &&& c_MASK_SIGN ||| uE b ||| sumHi hi lo (uH b) (uL b)⟩, f) := by
  add_front
  take_neg
  · rw [hq1, hq2, hea, heb]; exact hd1
  take_pos
  · rw [hq1, hq2, hea, heb]; exact hd2
  take_neg
  · rw [hq1, hq2, hea, heb]; exact hd3
  take_pos
  · rw [hq1, hq2, hea, heb]; exact hd4
  subst hsa hsb hea heb hah hbh hal hbl hq1 hq2
  extract_lets -underBinder +onlyGivenNames scale J
  refine Eq.trans (b := alignK (qOf D D1 THI TLO (uH a) (uL a))
    (scA (qOf D D1 THI TLO (uH a) (uL a)) (qOf D' D1' THI' TLO' (uH b) (uL b)) (uE a) (uE b)) (uH a) (uL a)
    (fun _ hi lo => J () ⟨lo, hi⟩)) ?_ ?_
  · align_block
  rw [hK]
  unfold J
  head_step
  take_pos
  · exact hs
  head_step
  sym_exec
  gen_args _ hi2
  replace hhi2 : hi2 = sumHi hi lo (uH b) (uL b) := hhi2
  head_step
  take_neg
  · rw [hhi2]; exact hbig
  sym_exec!
  rw [hhi2]
  rfl

theorem code_eqB_opp (x y a b : U128) (m : RoundingMode) (f : UInt32)
    (hsp : ¬ ((x.w1 &&& c_MASK_SPECIAL == c_MASK_SPECIAL) || (y.w1 &&& c_MASK_SPECIAL == c_MASK_SPECIAL)) = true)
    (hx0 : ¬ (uH x == 0 && uL x == 0) = true) (hy0 : ¬ (uH y == 0 && uL y == 0) = true)
    (hab : Ordered x y a b)
    (D D1 : UInt32) (THI TLO : UInt64) (D' D1' : UInt32) (THI' TLO' : UInt64)
    (hTa : tblDD Dec.Gen.BID_NR_DIGITS (UInt64.ofInt (toI (nbOf (uH a) (uL a)))) = .ok ⟨D, THI, TLO, D1⟩)
    (hTb : tblDD Dec.Gen.BID_NR_DIGITS (UInt64.ofInt (toI (nbOf (uH b) (uL b)))) = .ok ⟨D', THI', TLO', D1'⟩)
    (hd1 : ¬ decide (deltaOf (qOf D D1 THI TLO (uH a) (uL a)) (qOf D' D1' THI' TLO' (uH b) (uL b)) (uE a) (uE b) ≥ c_P34) = true)
    (hd2 : decide (deltaOf (qOf D D1 THI TLO (uH a) (uL a)) (qOf D' D1' THI' TLO' (uH b) (uL b)) (uE a) (uE b) ≥ 0) = true)
    (hd3 : ¬ decide (deltaOf (qOf D D1 THI TLO (uH a) (uL a)) (qOf D' D1' THI' TLO' (uH b) (uL b)) (uE a) (uE b)
      ≤ c_P34 - 1 - qOf D' D1' THI' TLO' (uH b) (uL b)) = true)
    (hd4 : (deltaOf (qOf D D1 THI TLO (uH a) (uL a)) (qOf D' D1' THI' TLO' (uH b) (uL b)) (uE a) (uE b)
      == c_P34 - qOf D' D1' THI' TLO' (uH b) (uL b)) = true)
    (P : U128) (hi lo : UInt64)
    (hK : ∀ K : U128 → UInt64 → UInt64 → Except String (U128 × UInt32),
      alignK (qOf D D1 THI TLO (uH a) (uL a))
        (scA (qOf D D1 THI TLO (uH a) (uL a)) (qOf D' D1' THI' TLO' (uH b) (uL b)) (uE a) (uE b)) (uH a) (uL a) K = K P hi lo)
    (hs : ¬ (a.w1 &&& c_MASK_SIGN == b.w1 &&& c_MASK_SIGN) = true) :
    bid128_add x y m f =
      .ok (exactRes (a.w1 &&& c_MASK_SIGN) (b.w1 &&& c_MASK_SIGN) (uE a) (uE b) lo hi lo (uH b) (uL b) m, f) := by
  add_front
  take_neg
  · rw [hq1, hq2, hea, heb]; exact hd1
  take_pos
  · rw [hq1, hq2, hea, heb]; exact hd2
  take_neg
  · rw [hq1, hq2, hea, heb]; exact hd3
  take_pos
  · rw [hq1, hq2, hea, heb]; exact hd4
  subst hsa hsb hea heb hah hbh hal hbl hq1 hq2
  extract_lets -underBinder +onlyGivenNames scale J
  refine Eq.trans (b := alignK (qOf D D1 THI TLO (uH a) (uL a))
    (scA (qOf D D1 THI TLO (uH a) (uL a)) (qOf D' D1' THI' TLO' (uH b) (uL b)) (uE a) (uE b)) (uH a) (uL a)
    (fun _ hi lo => J () ⟨lo, hi⟩)) ?_ ?_
  · align_block
  rw [hK]
  unfold J
  head_step
  take_neg
  · exact hs
  sym_exec!
  unfold exactRes
  rw [if_neg hs]
  refine congrArg Except.ok ?_
  repeat' split
  all_goals rfl

theorem code_eqC_same (x y a b : U128) (m : RoundingMode) (f : UInt32)
    (hsp : ¬ ((x.w1 &&& c_MASK_SPECIAL == c_MASK_SPECIAL) || (y.w1 &&& c_MASK_SPECIAL == c_MASK_SPECIAL)) = true)
    (hx0 : ¬ (uH x == 0 && uL x == 0) = true) (hy0 : ¬ (uH y == 0 && uL y == 0) = true)
    (hab : Ordered x y a b)
    (D D1 : UInt32) (THI TLO : UInt64) (D' D1' : UInt32) (THI' TLO' : UInt64)
    (hTa : tblDD Dec.Gen.BID_NR_DIGITS (UInt64.ofInt (toI (nbOf (uH a) (uL a)))) = .ok ⟨D, THI, TLO, D1⟩)
    (hTb : tblDD Dec.Gen.BID_NR_DIGITS (UInt64.ofInt (toI (nbOf (uH b) (uL b)))) = .ok ⟨D', THI', TLO', D1'⟩)
    (hd1 : ¬ decide (deltaOf (qOf D D1 THI TLO (uH a) (uL a)) (qOf D' D1' THI' TLO' (uH b) (uL b)) (uE a) (uE b) ≥ c_P34) = true)
    (hd2 : ¬ decide (deltaOf (qOf D D1 THI TLO (uH a) (uL a)) (qOf D' D1' THI' TLO' (uH b) (uL b)) (uE a) (uE b) ≥ 0) = true)
    (P : U128) (hi lo : UInt64)
    (hK : ∀ K : U128 → UInt64 → UInt64 → Except String (U128 × UInt32),
      alignK (qOf D D1 THI TLO (uH a) (uL a))
        (scA (qOf D D1 THI TLO (uH a) (uL a)) (qOf D' D1' THI' TLO' (uH b) (uL b)) (uE a) (uE b)) (uH a) (uL a) K = K P hi lo)
    (hs : (a.w1 &&& c_MASK_SIGN == b.w1 &&& c_MASK_SIGN) = true)
    (hbig : ¬ bigTest (sumHi hi lo (uH b) (uL b)) (lo + uL b) = true) :
    bid128_add x y m f =
      .ok (⟨lo + uL b, a.w1 &&& c_MASK_SIGN ||| uE b ||| sumHi hi lo (uH b) (uL b)⟩, f) := by
  add_front
  take_neg
  · rw [hq1, hq2, hea, heb]; exact hd1
  take_neg
  · rw [hq1, hq2, hea, heb]; exact hd2
  subst hsa hsb hea heb hah hbh hal hbl hq1 hq2
  extract_lets -underBinder +onlyGivenNames scale J
  refine Eq.trans (b := alignK (qOf D D1 THI TLO (uH a) (uL a))
    (scA (qOf D D1 THI TLO (uH a) (uL a)) (qOf D' D1' THI' TLO' (uH b) (uL b)) (uE a) (uE b)) (uH a) (uL a)
    (fun _ hi lo => J () ⟨lo, hi⟩)) ?_ ?_
  · align_block
  rw [hK]
  unfold J
  head_step
  take_pos
  · exact hs
  head_step
  sym_exec
  gen_args _ hi2
  replace hhi2 : hi2 = sumHi hi lo (uH b) (uL b) := hhi2
  head_step
  take_neg
  · rw [hhi2]; exact hbig
  sym_exec!
  rw [hhi2]
  rfl

theorem code_eqC_opp (x y a b : U128) (m : RoundingMode) (f : UInt32)
    (hsp : ¬ ((x.w1 &&& c_MASK_SPECIAL == c_MASK_SPECIAL) || (y.w1 &&& c_MASK_SPECIAL == c_MASK_SPECIAL)) = true)
    (hx0 : ¬ (uH x == 0 && uL x == 0) = true) (hy0 : ¬ (uH y == 0 && uL y == 0) = true)
    (hab : Ordered x y a b)
    (D D1 : UInt32) (THI TLO : UInt64) (D' D1' : UInt32) (THI' TLO' : UInt64)
    (hTa : tblDD Dec.Gen.BID_NR_DIGITS (UInt64.ofInt (toI (nbOf (uH a) (uL a)))) = .ok ⟨D, THI, TLO, D1⟩)
    (hTb : tblDD Dec.Gen.BID_NR_DIGITS (UInt64.ofInt (toI (nbOf (uH b) (uL b)))) = .ok ⟨D', THI', TLO', D1'⟩)
    (hd1 : ¬ decide (deltaOf (qOf D D1 THI TLO (uH a) (uL a)) (qOf D' D1' THI' TLO' (uH b) (uL b)) (uE a) (uE b) ≥ c_P34) = true)
    (hd2 : ¬ decide (deltaOf (qOf D D1 THI TLO (uH a) (uL a)) (qOf D' D1' THI' TLO' (uH b) (uL b)) (uE a) (uE b) ≥ 0) = true)
    (P : U128) (hi lo : UInt64)
    (hK : ∀ K : U128 → UInt64 → UInt64 → Except String (U128 × UInt32),
      alignK (qOf D D1 THI TLO (uH a) (uL a))
        (scA (qOf D D1 THI TLO (uH a) (uL a)) (qOf D' D1' THI' TLO' (uH b) (uL b)) (uE a) (uE b)) (uH a) (uL a) K = K P hi lo)
    (hs : ¬ (a.w1 &&& c_MASK_SIGN == b.w1 &&& c_MASK_SIGN) = true)
    (hpos : ¬ decide (diffHi hi lo (uH b) (uL b) ≥ 9223372036854775808) = true)
    (hnz : ¬ (uL b - lo == 0 && diffHi hi lo (uH b) (uL b) == 0) = true) :
    bid128_add x y m f =
      .ok (⟨uL b - lo, b.w1 &&& c_MASK_SIGN ||| uE b ||| diffHi hi lo (uH b) (uL b)⟩, f) := by
  add_front
  take_neg
  · rw [hq1, hq2, hea, heb]; exact hd1
  take_neg
  · rw [hq1, hq2, hea, heb]; exact hd2
  subst hsa hsb hea heb hah hbh hal hbl hq1 hq2
  extract_lets -underBinder +onlyGivenNames scale J
  refine Eq.trans (b := alignK (qOf D D1 THI TLO (uH a) (uL a))
    (scA (qOf D D1 THI TLO (uH a) (uL a)) (qOf D' D1' THI' TLO' (uH b) (uL b)) (uE a) (uE b)) (uH a) (uL a)
    (fun _ hi lo => J () ⟨lo, hi⟩)) ?_ ?_
  · align_block
  rw [hK]
  unfold J
  head_step
  take_neg
  · exact hs
  head_step
  sym_exec
  gen_args _ hi2
  replace hhi2 : hi2 = diffHi hi lo (uH b) (uL b) := hhi2
  head_step
  take_neg
  · rw [hhi2]; exact hpos
  head_step
  take_neg
  · rw [hhi2]; exact hnz
  sym_exec!
  rw [hhi2]
  rfl

/-! ## 14. The branches `delta = 34 − q2` and `delta < 0` without rounding are `addD` -/

theorem bigTest_eq (h l : UInt64) : bigTest h l = decide (10^34 ≤ h.toNat * 2^64 + l.toNat) := by
  unfold bigTest
  rw [ge128, show (542101086242752 : UInt64).toNat * 2^64 + (4003012203950112768 : UInt64).toNat = 10^34 from by decide]

/-- the same-sign path of these branches (wrapping word additions): the two words hold `A + B` -/
theorem sum_words (hi lo bh bl : UInt64) (hfit : hi.toNat * 2^64 + lo.toNat + (bh.toNat * 2^64 + bl.toNat) < 2^128) :
    (sumHi hi lo bh bl).toNat * 2^64 + (lo + bl).toNat = hi.toNat * 2^64 + lo.toNat + (bh.toNat * 2^64 + bl.toNat) := by
  have h1 := lo.toNat_lt; have h2 := bl.toNat_lt; have h3 := hi.toNat_lt; have h4 := bh.toNat_lt
  unfold sumHi
  by_cases c : lo + bl < lo
  · rw [if_pos (by simpa using c), UInt64.toNat_add, UInt64.toNat_add, UInt64.toNat_add]
    rw [UInt64.lt_iff_toNat_lt, UInt64.toNat_add] at c
    rw [show (1 : UInt64).toNat = 1 from rfl]
    omega
  · rw [if_neg (by simpa using c), UInt64.toNat_add, UInt64.toNat_add]
    rw [UInt64.lt_iff_toNat_lt, UInt64.toNat_add] at c
    omega

/-- the opposite-sign path of the branch `delta < 0`: `B − A` modulo 2^128 -/
theorem diff_words (hi lo bh bl : UInt64) :
    (diffHi hi lo bh bl).toNat * 2^64 + (bl - lo).toNat
      = (bh.toNat * 2^64 + bl.toNat + 2^128 - (hi.toNat * 2^64 + lo.toNat)) % 2^128 :=
  sub128_words bh bl hi lo

theorem beq_i32 (a b : Int32) (h : a.toInt = b.toInt) : (a == b) = true := by
  rw [beq_iff_eq, ← Int32.toInt_inj]; exact h

/-- **the aligned coefficient fits 34 digits and so does the sum** (operands in the code's order): the branches
`delta < 0`, `0 ≤ delta ≤ 33 − q2` and `delta = 34 − q2`, on the part where the code does not round -/
theorem add_fits_core (x y a b : U128) (m : RoundingMode) (f : UInt32) (hab : Ordered x y a b)
    {sA sB : Bool} {cA cB : Nat} {eA eB : Int}
    (ha : decode (bitsOf a) = .fin sA cA eA) (hb : decode (bitsOf b) = .fin sB cB eB) (hcA : cA ≠ 0) (hcB : cB ≠ 0)
    (hfitA : (ndigits cA : Int) + eA - eB ≤ 34)
    (hsum : sA = sB → cA * 10 ^ (eA - eB).toNat + cB < 10^34) :
    bid128_add x y m f =
      .ok (ofBits (encode (addFin (md m) sA cA eA sB cB eB (if eA ≤ eB then eA else eB)).1),
           f ||| UInt32.ofNat (addFin (md m) sA cA eA sB cB eB (if eA ≤ eB then eA else eB)).2) := by
  -- the exact branch proper
  by_cases hA : (ndigits cB : Int) + eB ≤ ndigits cA + eA ∧ (ndigits cA : Int) + eA - eB ≤ 33
  · exact add_exact_core x y a b m f hab ha hb hcA hcB hA.1 hA.2
  obtain ⟨ha1, hac, haP, hae, halo, hahi, has, -⟩ := fin_view a ha
  obtain ⟨hb1, hbc, hbP, hbe, hblo, hbhi, hbs, -⟩ := fin_view b hb
  have hcA0 : 0 < cA := Nat.pos_of_ne_zero hcA
  have hcB0 : 0 < cB := Nat.pos_of_ne_zero hcB
  have ha0 := nonzero_words hac hcA
  have hb0 := nonzero_words hbc hcB
  have hEle : (eB + 6176).toNat ≤ (eA + 6176).toNat := by
    have hle : uE b ≤ uE a := by
      rcases hab with ⟨rfl, rfl, hc⟩ | ⟨rfl, rfl, hc⟩
      · exact UInt64.not_lt.1 (by simpa using hc)
      · exact UInt64.le_of_lt (by simpa using hc)
    rw [UInt64.le_iff_toNat_le, hae, hbe] at hle
    omega
  have hle : eB ≤ eA := by omega
  have hsp : ¬ ((x.w1 &&& c_MASK_SPECIAL == c_MASK_SPECIAL) || (y.w1 &&& c_MASK_SPECIAL == c_MASK_SPECIAL)) = true := by
    rcases hab with ⟨rfl, rfl, -⟩ | ⟨rfl, rfl, -⟩
    · exact not_special2 ha1 hb1
    · exact not_special2 hb1 ha1
  have hx0 : ¬ (uH x == 0 && uL x == 0) = true := by
    rcases hab with ⟨rfl, rfl, -⟩ | ⟨rfl, rfl, -⟩
    · exact ha0
    · exact hb0
  have hy0 : ¬ (uH y == 0 && uL y == 0) = true := by
    rcases hab with ⟨rfl, rfl, -⟩ | ⟨rfl, rfl, -⟩
    · exact hb0
    · exact ha0
  obtain ⟨D, D1, THI, TLO, hTa, hqa⟩ := digits_row (uH a) (uL a) (by rw [hac]; exact hcA0) (hi_lt hac haP)
  obtain ⟨D', D1', THI', TLO', hTb, hqb⟩ := digits_row (uH b) (uL b) (by rw [hbc]; exact hcB0) (hi_lt hbc hbP)
  rw [hac] at hqa
  rw [hbc] at hqb
  have hQA1 := ndigits_pos hcA0
  have hQB1 := ndigits_pos hcB0
  have hQA : ndigits cA ≤ 34 := (ndigits_le_iff hcA0).2 (by simpa [P34] using haP)
  have hQB : ndigits cB ≤ 34 := (ndigits_le_iff hcB0).2 (by simpa [P34] using hbP)
  have hEA : (eA + 6176).toNat < 2^14 := by omega
  have hEB : (eB + 6176).toNat < 2^14 := by omega
  have hdl := delta_toInt _ _ (uE a) (uE b) _ _ _ _ hqa hqb hQA hQB hae hbe hEA hEB
  have hsc := scA_toInt _ _ (uE a) (uE b) _ _ _ _ hqa hqb hQA hQB hae hbe hEA hEB
  have h34 : c_P34.toInt = 34 := by decide
  have h33 : (c_P34 - 1 - qOf D' D1' THI' TLO' (uH b) (uL b)).toInt = 33 - (ndigits cB : Int) := by
    rw [Int32.toInt_sub, Int32.toInt_sub, hqb, h34, show (1 : Int32).toInt = 1 from by decide,
      C13GenNoncomp.bmod32 (34 - 1) (by omega) (by omega), C13GenNoncomp.bmod32 _ (by omega) (by omega)]
    omega
  have h34q : (c_P34 - qOf D' D1' THI' TLO' (uH b) (uL b)).toInt = 34 - (ndigits cB : Int) := by
    rw [Int32.toInt_sub, hqb, h34, C13GenNoncomp.bmod32 _ (by omega) (by omega)]
  have hS : (scA (qOf D D1 THI TLO (uH a) (uL a)) (qOf D' D1' THI' TLO' (uH b) (uL b)) (uE a) (uE b)).toInt
      = (((eA - eB).toNat : Nat) : Int) := by rw [hsc]; omega
  obtain ⟨P, hi, lo, hP0, hval, hK⟩ := alignK_ok (β := U128 × UInt32) _ _ (uH a) (uL a) cA (ndigits cA) (eA - eB).toNat
    hac hqa hS rfl hcA0 (by omega)
  have hA34 := pow_lt_of_digits (C := cA) (Q := ndigits cA) (S := (eA - eB).toNat) rfl (by omega)
  have hB34 : cB < 10^34 := by simpa [P34] using hbP
  have hsig : (a.w1 &&& c_MASK_SIGN == b.w1 &&& c_MASK_SIGN) = decide (sA = sB) := by
    rw [word_of_sign _ sA has, word_of_sign _ sB hbs]
    cases sA <;> cases sB <;> rfl
  have hd1 : ¬ decide (deltaOf (qOf D D1 THI TLO (uH a) (uL a)) (qOf D' D1' THI' TLO' (uH b) (uL b)) (uE a) (uE b) ≥ c_P34) = true := by
    rw [i32_ge, hdl, h34]; simp only [decide_eq_true_eq]; omega
  rw [addFin_exact (md m) sA cA eA sB cB eB hle hcA0 _ rfl hA34 hB34 hsum hblo hbhi]
  show _ = Except.ok (_, f ||| UInt32.ofNat 0)
  rw [or_zero32]
  unfold exactDatum
  by_cases hneg : (ndigits cA : Int) + (eA + 6176).toNat - ndigits cB - (eB + 6176).toNat < 0
  · -- delta < 0
    have hd2 : ¬ decide (deltaOf (qOf D D1 THI TLO (uH a) (uL a)) (qOf D' D1' THI' TLO' (uH b) (uL b)) (uE a) (uE b) ≥ 0) = true := by
      rw [i32_ge, hdl, show (0 : Int32).toInt = 0 from by decide]; simp only [decide_eq_true_eq]; omega
    by_cases hs : sA = sB
    · have hsum' := hsum hs
      have hw := sum_words hi lo (uH b) (uL b) (by rw [hval, hbc]; exact lt_trans hsum' (by decide))
      rw [hval, hbc] at hw
      rw [code_eqC_same x y a b m f hsp hx0 hy0 hab D D1 THI TLO D' D1' THI' TLO' hTa hTb hd1 hd2 P hi lo hK
        (by rw [hsig]; exact decide_eq_true hs)
        (by rw [bigTest_eq, hw]; simp only [decide_eq_true_eq]; omega), if_pos hs, or3, encode_at,
        assemble' _ _ _ (uE b) sA _ _ hw (lt113 hsum') has hbe hEB]
    · -- |B| > |A'|
      have hAltB : cA * 10 ^ (eA - eB).toNat < cB := by
        have h1 : cA < 10 ^ ndigits cA := lt_pow_ndigits cA
        have h2 := (ndigits_spec hcB0).1
        calc cA * 10 ^ (eA - eB).toNat < 10 ^ ndigits cA * 10 ^ (eA - eB).toNat :=
              Nat.mul_lt_mul_of_pos_right h1 (Nat.pow_pos (by decide))
          _ = 10 ^ (ndigits cA + (eA - eB).toNat) := (Nat.pow_add _ _ _).symm
          _ ≤ 10 ^ (ndigits cB - 1) := Nat.pow_le_pow_right (by decide) (by omega)
          _ ≤ cB := h2
      have hw := diff_words hi lo (uH b) (uL b)
      rw [hval, hbc] at hw
      have hw' : (diffHi hi lo (uH b) (uL b)).toNat * 2^64 + (uL b - lo).toNat = cB - cA * 10 ^ (eA - eB).toNat := by
        rw [hw]; omega
      have hl := (uL b - lo).toNat_lt
      rw [code_eqC_opp x y a b m f hsp hx0 hy0 hab D D1 THI TLO D' D1' THI' TLO' hTa hTb hd1 hd2 P hi lo hK
        (by rw [hsig]; simpa using hs)
        (by rw [decide_eq_true_eq, ge_iff_le, UInt64.le_iff_toNat_le,
              show (9223372036854775808 : UInt64).toNat = 2^63 from rfl]
            have : cB - cA * 10 ^ (eA - eB).toNat < 2^113 := lt113 (by omega)
            generalize (diffHi hi lo (uH b) (uL b)).toNat = H at hw'
            omega)
        (by rw [zero128', hw']; simp only [decide_eq_true_eq]; omega),
        if_neg hs, if_neg (by omega), if_neg (by omega), or3, encode_at,
        assemble' _ _ _ (uE b) sB _ _ hw' (lt113 (by omega)) hbs hbe hEB]
  · -- delta = 34 − q2
    have hd2 : decide (deltaOf (qOf D D1 THI TLO (uH a) (uL a)) (qOf D' D1' THI' TLO' (uH b) (uL b)) (uE a) (uE b) ≥ 0) = true := by
      rw [i32_ge, hdl, show (0 : Int32).toInt = 0 from by decide]; exact decide_eq_true (by omega)
    have hd3 : ¬ decide (deltaOf (qOf D D1 THI TLO (uH a) (uL a)) (qOf D' D1' THI' TLO' (uH b) (uL b)) (uE a) (uE b)
        ≤ c_P34 - 1 - qOf D' D1' THI' TLO' (uH b) (uL b)) = true := by
      rw [i32_le, hdl, h33]; simp only [decide_eq_true_eq]; omega
    have hd4 : (deltaOf (qOf D D1 THI TLO (uH a) (uL a)) (qOf D' D1' THI' TLO' (uH b) (uL b)) (uE a) (uE b)
        == c_P34 - qOf D' D1' THI' TLO' (uH b) (uL b)) = true := beq_i32 _ _ (by rw [hdl, h34q]; omega)
    by_cases hs : sA = sB
    · have hsum' := hsum hs
      have hw := sum_words hi lo (uH b) (uL b) (by rw [hval, hbc]; exact lt_trans hsum' (by decide))
      rw [hval, hbc] at hw
      rw [code_eqB_same x y a b m f hsp hx0 hy0 hab D D1 THI TLO D' D1' THI' TLO' hTa hTb hd1 hd2 hd3 hd4 P hi lo hK
        (by rw [hsig]; exact decide_eq_true hs)
        (by rw [bigTest_eq, hw]; simp only [decide_eq_true_eq]; omega), if_pos hs, or3, encode_at,
        assemble' _ _ _ (uE b) sA _ _ hw (lt113 hsum') has hbe hEB]
    · rw [code_eqB_opp x y a b m f hsp hx0 hy0 hab D D1 THI TLO D' D1' THI' TLO' hTa hTb hd1 hd2 hd3 hd4 P hi lo hK
        (by rw [hsig]; simpa using hs),
        exactRes_spec m _ _ (uE a) (uE b) hi lo (uH b) (uL b) sA sB _ cB _ _ has hbs hae hbe hEle hEA hval hbc hA34 hB34
          (fun h => absurd h hs)]
      unfold exactDatum
      rfl

/-! ## 15. Two non-zero numbers whose aligned sum fits 34 digits -/

/-- **no rounding needed**, in terms of the decoded operands: with `H` the operand of the larger exponent (`x` on a
tie), `L` the other one and `gap = e_H − e_L`: the aligned coefficient `C_H·10^gap` has at most 34 digits
(`q_H + gap ≤ 34`: the code's `delta ≤ P34 − q2`) and, if the signs agree, `C_H·10^gap + C_L < 10^34` (the code's test on
the two sum words; for opposite signs the difference is below 10^34 anyway). -/
def FitsCond (s1 : Bool) (c1 : Nat) (e1 : Int) (s2 : Bool) (c2 : Nat) (e2 : Int) : Prop :=
  if e2 ≤ e1 then (ndigits c1 : Int) + e1 - e2 ≤ 34 ∧ (s1 = s2 → c1 * 10 ^ (e1 - e2).toNat + c2 < 10^34)
  else (ndigits c2 : Int) + e2 - e1 ≤ 34 ∧ (s2 = s1 → c2 * 10 ^ (e2 - e1).toNat + c1 < 10^34)

instance (s1 : Bool) (c1 : Nat) (e1 : Int) (s2 : Bool) (c2 : Nat) (e2 : Int) : Decidable (FitsCond s1 c1 e1 s2 c2 e2) := by
  unfold FitsCond; infer_instance

/-- **`bid128_add`, two non-zero numbers, no rounding needed** (`FitsCond`; the code's branches `delta < 0`,
`0 ≤ delta ≤ 33 − q2` and `delta = 34 − q2` as far as the sum stays below 10^34): the exact sum / difference at the
smaller exponent — same sign: `C_H·10^gap + C_L`; opposite signs: `|C_H·10^gap − C_L|` with the sign of the larger, or
the zero of the smaller exponent (negative only in `Downward`) — which is `addD`; no flag. -/
theorem add_fits (x y : U128) (m : RoundingMode) (f : UInt32) {s1 s2 : Bool} {c1 c2 : Nat} {e1 e2 : Int}
    (hx : decode (bitsOf x) = .fin s1 c1 e1) (hy : decode (bitsOf y) = .fin s2 c2 e2) (hc1 : c1 ≠ 0) (hc2 : c2 ≠ 0)
    (h : FitsCond s1 c1 e1 s2 c2 e2) :
    bid128_add x y m f =
      .ok (ofBits (encode (addD (md m) (decode (bitsOf x)) (decode (bitsOf y))).1),
           f ||| UInt32.ofNat (addD (md m) (decode (bitsOf x)) (decode (bitsOf y))).2) := by
  obtain ⟨-, -, -, hxe, hxlo, hxhi, -, -⟩ := fin_view x hx
  obtain ⟨-, -, -, hye, hylo, hyhi, -, -⟩ := fin_view y hy
  rw [hx, hy, addD_fin_fin]
  unfold FitsCond at h
  by_cases hle : e2 ≤ e1
  · rw [if_pos hle] at h
    have hab : Ordered x y x y := Or.inl ⟨rfl, rfl, by
      rw [decide_eq_true_eq, UInt64.lt_iff_toNat_lt, hxe, hye]; omega⟩
    exact add_fits_core x y x y m f hab hx hy hc1 hc2 h.1 h.2
  · rw [if_neg hle] at h
    have hab : Ordered x y y x := Or.inr ⟨rfl, rfl, by
      rw [decide_eq_true_eq, UInt64.lt_iff_toNat_lt, hxe, hye]; omega⟩
    rw [addFin_comm]
    exact add_fits_core x y y x m f hab hy hx hc2 hc1 h.1 h.2

/-- the exact branch proper is part of this region -/
theorem fits_of_exact {s1 s2 : Bool} {c1 c2 : Nat} {e1 e2 : Int} (hc1 : c1 ≠ 0) (hc2 : c2 ≠ 0)
    (h : ExactCond c1 e1 c2 e2) : FitsCond s1 c1 e1 s2 c2 e2 := by
  have key : ∀ (cH cL : Nat) (eH eL : Int), cH ≠ 0 → cL ≠ 0 → eL ≤ eH → (ndigits cL : Int) + eL ≤ ndigits cH + eH →
      (ndigits cH : Int) + eH - eL ≤ 33 → cH * 10 ^ (eH - eL).toNat + cL < 10^34 := by
    intro cH cL eH eL hH hL hle h1 h2
    have hH0 : 0 < cH := Nat.pos_of_ne_zero hH
    have hL0 : 0 < cL := Nat.pos_of_ne_zero hL
    have a1 : cH * 10 ^ (eH - eL).toNat < 10^33 := by
      have h1 : cH < 10 ^ ndigits cH := lt_pow_ndigits cH
      calc cH * 10 ^ (eH - eL).toNat < 10 ^ ndigits cH * 10 ^ (eH - eL).toNat :=
            Nat.mul_lt_mul_of_pos_right h1 (Nat.pow_pos (by decide))
        _ = 10 ^ (ndigits cH + (eH - eL).toNat) := (Nat.pow_add _ _ _).symm
        _ ≤ 10 ^ 33 := Nat.pow_le_pow_right (by decide) (by omega)
    have a2 : cL < 10^33 := (ndigits_le_iff hL0).1 (by omega)
    have : (10:Nat)^33 + 10^33 < 10^34 := by decide
    omega
  unfold ExactCond at h
  unfold FitsCond
  by_cases hle : e2 ≤ e1
  · rw [if_pos hle] at h ⊢
    exact ⟨by omega, fun _ => key c1 c2 e1 e2 hc1 hc2 hle h.1 h.2⟩
  · rw [if_neg hle] at h ⊢
    exact ⟨by omega, fun _ => key c2 c1 e2 e1 hc2 hc1 (by omega) h.1 h.2⟩

-- 9999999999999999999999999999999999E0 + (−1E0): delta = 34 − q2, opposite signs
example : bid128_add ⟨0x378d8e63ffffffff, 0x3041ed09bead87c0⟩ ⟨1, 0xb040000000000000⟩ .NearestEven 0
    = .ok (ofBits (encode (.fin false (10^34 - 2) 0)), 0) := by
  rw [add_fits (s1 := false) (c1 := 10^34 - 1) (e1 := 0) (s2 := true) (c2 := 1) (e2 := 0) _ _ _ _ (by decide +kernel)
    (by decide +kernel) (by decide) (by decide) (by decide +kernel)]
  decide +kernel
-- 1E+2 + 5000000000000000000000000000000000E0 (34 digits): delta < 0, same sign, sum below 10^34
example : bid128_add ⟨1, 0x3044000000000000⟩ ⟨0x1bc6c73200000000, 0x3040f684df56c3e0⟩ .Upward 0
    = .ok (ofBits (encode (.fin false (5 * 10^33 + 100) 0)), 0) := by
  rw [add_fits (s1 := false) (c1 := 1) (e1 := 2) (s2 := false) (c2 := 5 * 10^33) (e2 := 0) _ _ _ _ (by decide +kernel)
    (by decide +kernel) (by decide) (by decide) (by decide +kernel)]
  decide +kernel

/-! ## 17. The same-sign sum reaches 10^34 (branches `delta = 34 − q2` and `delta < 0`): one digit is rounded off -/

/-- the rounding tail of these two branches, as in the source (the two copies are identical): `(C1_hi, C1_lo)` holds the
sum `S ≥ 10^34`; `S + 5` is multiplied by `ten2m1 ≈ 2^128/10`, the top half of the product is `⌊(S+5)/10⌋`, the bottom half
tells midpoints and exactness; then the correction by rounding mode, and the overflow exits -/
def rndTail (x_sign y_exp_ C1_hi_ C1_lo_ : UInt64) (rnd_mode : RoundingMode) (pfpsf_ : UInt32) :
    Except String (U128 × UInt32) := do
  let mut res : U128 := (⟨(0xbaddbaddbaddbadd : UInt64), (0xbaddbaddbaddbadd : UInt64)⟩ : U128)
  let mut pfpsf : UInt32 := pfpsf_
  let mut y_exp : UInt64 := y_exp_
  let mut C1_hi : UInt64 := C1_hi_
  let mut C1_lo : UInt64 := C1_lo_
  let mut tmp64 : UInt64 := default
  let mut C1 : U128 := default
  let mut ten2m1 : U128 := default
  let mut P256 : U256 := default
  let mut is_inexact : Bool := false
  let mut is_midpoint_lt_even : Bool := false
  let mut is_midpoint_gt_even : Bool := false
  let mut is_inexact_lt_midpoint : Bool := false
  let mut is_inexact_gt_midpoint : Bool := false
  if (decide (C1_lo ≥ (0xfffffffffffffffb : UInt64))) then
    C1_lo := (C1_lo + 5)
    C1_hi := (C1_hi + 1)
  else
    C1_lo := (C1_lo + 5)
  C1 := { C1 with w1 := C1_hi }
  C1 := { C1 with w0 := C1_lo }
  ten2m1 := { ten2m1 with w1 := (0x1999999999999999 : UInt64) }
  ten2m1 := { ten2m1 with w0 := (0x9999999999999a00 : UInt64) }
  P256 := (← mul_128x128_to_256 C1 ten2m1)
  if ((((P256.w1 != (0 : UInt64)) || (P256.w0 != (0 : UInt64)))) && (((decide (P256.w1 < (0x1999999999999999 : UInt64))) || (((P256.w1 == (0x1999999999999999 : UInt64)) && (decide (P256.w0 ≤ (0x9999999999999999 : UInt64)))))))) then
    if (((P256.w2 &&& (1 : UInt64))) == (1 : UInt64)) then
      is_midpoint_gt_even := true
      P256 := { P256 with w2 := (P256.w2 - 1) }
      if (P256.w2 == (0xffffffffffffffff : UInt64)) then
        P256 := { P256 with w3 := (P256.w3 - 1) }
    else
      is_midpoint_lt_even := true
  y_exp := (y_exp + c_EXP_P1)
  if ((y_exp == c_EXP_MAX_P1) && (((rnd_mode == RoundingMode.NearestEven) || (rnd_mode == RoundingMode.NearestAway)))) then
    res := { res with w1 := (x_sign ||| (0x7800000000000000 : UInt64)) }
    res := { res with w0 := (0 : UInt64) }
    pfpsf := (pfpsf ||| c_StatusFlags_BID_INEXACT_EXCEPTION)
    pfpsf := (pfpsf ||| c_StatusFlags_BID_OVERFLOW_EXCEPTION)
    return (res, pfpsf)
  if ((decide (P256.w1 > (0x8000000000000000 : UInt64))) || (((P256.w1 == (0x8000000000000000 : UInt64)) && (decide (P256.w0 > (0 : UInt64)))))) then
    tmp64 := (P256.w1 - (0x8000000000000000 : UInt64))
    if ((decide (tmp64 > (0x1999999999999999 : UInt64))) || (((tmp64 == (0x1999999999999999 : UInt64)) && (decide (P256.w0 ≥ (0x9999999999999999 : UInt64)))))) then
      pfpsf := (pfpsf ||| c_StatusFlags_BID_INEXACT_EXCEPTION)
      is_inexact := true
  else
    pfpsf := (pfpsf ||| c_StatusFlags_BID_INEXACT_EXCEPTION)
    is_inexact := true
  C1_hi := P256.w3
  C1_lo := P256.w2
  if ((!is_midpoint_gt_even) && (!is_midpoint_lt_even)) then
    is_inexact_lt_midpoint := (is_inexact && (((P256.w1 &&& (0x8000000000000000 : UInt64))) == (0x8000000000000000 : UInt64)))
    is_inexact_gt_midpoint := (is_inexact && (((P256.w1 &&& (0x8000000000000000 : UInt64))) != (0x8000000000000000 : UInt64)))
  if (rnd_mode != RoundingMode.NearestEven) then
    if ((((x_sign == (0 : UInt64)) && (((((rnd_mode == RoundingMode.Upward) && is_inexact_lt_midpoint)) || (((((rnd_mode == RoundingMode.NearestAway) || (rnd_mode == RoundingMode.Upward))) && is_midpoint_gt_even)))))) || (((x_sign != (0 : UInt64)) && (((((rnd_mode == RoundingMode.Downward) && is_inexact_lt_midpoint)) || (((((rnd_mode == RoundingMode.NearestAway) || (rnd_mode == RoundingMode.Downward))) && is_midpoint_gt_even))))))) then
      C1_lo := (C1_lo + 1)
      if (C1_lo == (0 : UInt64)) then
        C1_hi := (C1_hi + 1)
      if ((C1_hi == (0x1ed09bead87c0 : UInt64)) && (C1_lo == (0x378d8e6400000000 : UInt64))) then
        C1_hi := (0x314dc6448d93 : UInt64)
        C1_lo := (0x38c15b0a00000000 : UInt64)
        y_exp := (y_exp + c_EXP_P1)
    else
      if (((is_midpoint_lt_even || is_inexact_gt_midpoint)) && (((((x_sign != (0 : UInt64)) && (((rnd_mode == RoundingMode.Upward) || (rnd_mode == RoundingMode.TowardZero))))) || (((x_sign == (0 : UInt64)) && (((rnd_mode == RoundingMode.Downward) || (rnd_mode == RoundingMode.TowardZero)))))))) then
        C1_lo := (C1_lo - 1)
        if (C1_lo == (0xffffffffffffffff : UInt64)) then
          C1_hi := (C1_hi - 1)
        if ((C1_hi == (0x314dc6448d93 : UInt64)) && (C1_lo == (0x38c15b09ffffffff : UInt64))) then
          C1_hi := (0x1ed09bead87c0 : UInt64)
          C1_lo := (0x378d8e63ffffffff : UInt64)
          y_exp := (y_exp - c_EXP_P1)
      else
        pure ()
    if (y_exp == c_EXP_MAX_P1) then
      if ((((rnd_mode == RoundingMode.Downward) && (x_sign != (0 : UInt64)))) || (((rnd_mode == RoundingMode.Upward) && (x_sign == (0 : UInt64))))) then
        C1_hi := (0x7800000000000000 : UInt64)
        C1_lo := (0 : UInt64)
      else
        C1_hi := (0x5fffed09bead87c0 : UInt64)
        C1_lo := (0x378d8e63ffffffff : UInt64)
      y_exp := (0 : UInt64)
      pfpsf := (pfpsf ||| c_StatusFlags_BID_INEXACT_EXCEPTION)
      pfpsf := (pfpsf ||| c_StatusFlags_BID_OVERFLOW_EXCEPTION)
  res := { res with w1 := ((x_sign ||| y_exp) ||| C1_hi) }
  res := { res with w0 := C1_lo }
  return (res, pfpsf)

theorem code_rndB (x y a b : U128) (m : RoundingMode) (f : UInt32)
    (hsp : ¬ ((x.w1 &&& c_MASK_SPECIAL == c_MASK_SPECIAL) || (y.w1 &&& c_MASK_SPECIAL == c_MASK_SPECIAL)) = true)
    (hx0 : ¬ (uH x == 0 && uL x == 0) = true) (hy0 : ¬ (uH y == 0 && uL y == 0) = true)
    (hab : Ordered x y a b)
    (D D1 : UInt32) (THI TLO : UInt64) (D' D1' : UInt32) (THI' TLO' : UInt64)
    (hTa : tblDD Dec.Gen.BID_NR_DIGITS (UInt64.ofInt (toI (nbOf (uH a) (uL a)))) = .ok ⟨D, THI, TLO, D1⟩)
    (hTb : tblDD Dec.Gen.BID_NR_DIGITS (UInt64.ofInt (toI (nbOf (uH b) (uL b)))) = .ok ⟨D', THI', TLO', D1'⟩)
    (hd1 : ¬ decide (deltaOf (qOf D D1 THI TLO (uH a) (uL a)) (qOf D' D1' THI' TLO' (uH b) (uL b)) (uE a) (uE b) ≥ c_P34) = true)
    (hd2 : decide (deltaOf (qOf D D1 THI TLO (uH a) (uL a)) (qOf D' D1' THI' TLO' (uH b) (uL b)) (uE a) (uE b) ≥ 0) = true)
    (hd3 : ¬ decide (deltaOf (qOf D D1 THI TLO (uH a) (uL a)) (qOf D' D1' THI' TLO' (uH b) (uL b)) (uE a) (uE b)
      ≤ c_P34 - 1 - qOf D' D1' THI' TLO' (uH b) (uL b)) = true)
    (hd4 : (deltaOf (qOf D D1 THI TLO (uH a) (uL a)) (qOf D' D1' THI' TLO' (uH b) (uL b)) (uE a) (uE b)
      == c_P34 - qOf D' D1' THI' TLO' (uH b) (uL b)) = true)
    (P : U128) (hi lo : UInt64)
    (hK : ∀ K : U128 → UInt64 → UInt64 → Except String (U128 × UInt32),
      alignK (qOf D D1 THI TLO (uH a) (uL a))
        (scA (qOf D D1 THI TLO (uH a) (uL a)) (qOf D' D1' THI' TLO' (uH b) (uL b)) (uE a) (uE b)) (uH a) (uL a) K = K P hi lo)
    (hs : (a.w1 &&& c_MASK_SIGN == b.w1 &&& c_MASK_SIGN) = true)
    (hbig : bigTest (sumHi hi lo (uH b) (uL b)) (lo + uL b) = true) :
    bid128_add x y m f =
      rndTail (a.w1 &&& c_MASK_SIGN) (uE b) (sumHi hi lo (uH b) (uL b)) (lo + uL b) m f := by
  add_front
  take_neg
  · rw [hq1, hq2, hea, heb]; exact hd1
  take_pos
  · rw [hq1, hq2, hea, heb]; exact hd2
  take_neg
  · rw [hq1, hq2, hea, heb]; exact hd3
  take_pos
  · rw [hq1, hq2, hea, heb]; exact hd4
  subst hsa hsb hea heb hah hbh hal hbl hq1 hq2
  extract_lets -underBinder +onlyGivenNames scale J
  refine Eq.trans (b := alignK (qOf D D1 THI TLO (uH a) (uL a))
    (scA (qOf D D1 THI TLO (uH a) (uL a)) (qOf D' D1' THI' TLO' (uH b) (uL b)) (uE a) (uE b)) (uH a) (uL a)
    (fun _ hi lo => J () ⟨lo, hi⟩)) ?_ ?_
  · align_block
  rw [hK]
  unfold J
  head_step
  take_pos
  · exact hs
  head_step
  sym_exec
  gen_args _ hi2
  replace hhi2 : hi2 = sumHi hi lo (uH b) (uL b) := hhi2
  head_step
  take_pos
  · rw [hhi2]; exact hbig
  subst hhi2
  head_step
  sym_exec
  head_step
  apply Eq.symm
  unfold rndTail
  head_step
  sym_exec
  head_step
  apply Eq.symm
  refine bind_congr_right _ (fun P => ?_)
  sym_exec!
  apply Eq.symm
  sym_exec!
  rfl


theorem code_rndC (x y a b : U128) (m : RoundingMode) (f : UInt32)
    (hsp : ¬ ((x.w1 &&& c_MASK_SPECIAL == c_MASK_SPECIAL) || (y.w1 &&& c_MASK_SPECIAL == c_MASK_SPECIAL)) = true)
    (hx0 : ¬ (uH x == 0 && uL x == 0) = true) (hy0 : ¬ (uH y == 0 && uL y == 0) = true)
    (hab : Ordered x y a b)
    (D D1 : UInt32) (THI TLO : UInt64) (D' D1' : UInt32) (THI' TLO' : UInt64)
    (hTa : tblDD Dec.Gen.BID_NR_DIGITS (UInt64.ofInt (toI (nbOf (uH a) (uL a)))) = .ok ⟨D, THI, TLO, D1⟩)
    (hTb : tblDD Dec.Gen.BID_NR_DIGITS (UInt64.ofInt (toI (nbOf (uH b) (uL b)))) = .ok ⟨D', THI', TLO', D1'⟩)
    (hd1 : ¬ decide (deltaOf (qOf D D1 THI TLO (uH a) (uL a)) (qOf D' D1' THI' TLO' (uH b) (uL b)) (uE a) (uE b) ≥ c_P34) = true)
    (hd2 : ¬ decide (deltaOf (qOf D D1 THI TLO (uH a) (uL a)) (qOf D' D1' THI' TLO' (uH b) (uL b)) (uE a) (uE b) ≥ 0) = true)
    (P : U128) (hi lo : UInt64)
    (hK : ∀ K : U128 → UInt64 → UInt64 → Except String (U128 × UInt32),
      alignK (qOf D D1 THI TLO (uH a) (uL a))
        (scA (qOf D D1 THI TLO (uH a) (uL a)) (qOf D' D1' THI' TLO' (uH b) (uL b)) (uE a) (uE b)) (uH a) (uL a) K = K P hi lo)
    (hs : (a.w1 &&& c_MASK_SIGN == b.w1 &&& c_MASK_SIGN) = true)
    (hbig : bigTest (sumHi hi lo (uH b) (uL b)) (lo + uL b) = true) :
    bid128_add x y m f =
      rndTail (a.w1 &&& c_MASK_SIGN) (uE b) (sumHi hi lo (uH b) (uL b)) (lo + uL b) m f := by
  add_front
  take_neg
  · rw [hq1, hq2, hea, heb]; exact hd1
  take_neg
  · rw [hq1, hq2, hea, heb]; exact hd2
  subst hsa hsb hea heb hah hbh hal hbl hq1 hq2
  extract_lets -underBinder +onlyGivenNames scale J
  refine Eq.trans (b := alignK (qOf D D1 THI TLO (uH a) (uL a))
    (scA (qOf D D1 THI TLO (uH a) (uL a)) (qOf D' D1' THI' TLO' (uH b) (uL b)) (uE a) (uE b)) (uH a) (uL a)
    (fun _ hi lo => J () ⟨lo, hi⟩)) ?_ ?_
  · align_block
  rw [hK]
  unfold J
  head_step
  take_pos
  · exact hs
  head_step
  sym_exec
  gen_args _ hi2
  replace hhi2 : hi2 = sumHi hi lo (uH b) (uL b) := hhi2
  head_step
  take_pos
  · rw [hhi2]; exact hbig
  subst hhi2
  head_step
  sym_exec
  head_step
  apply Eq.symm
  unfold rndTail
  head_step
  sym_exec
  head_step
  apply Eq.symm
  refine bind_congr_right _ (fun P => ?_)
  sym_exec!
  apply Eq.symm
  sym_exec!
  rfl

/-! ## 18. The rounding tail: what the words hold -/

/-- `ten2m1 = (2^128 + 1024) / 10` -/
def K10 : Nat := 34028236692093846346337460743176821248
/-- the threshold `0x1999999999999999_9999999999999999 = ⌊2^128/10⌋` -/
def Tst : Nat := 34028236692093846346337460743176821145

theorem prod_split (T : Nat) (hT : T < 2^116) :
    T * 34028236692093846346337460743176821248 / 2^128 = T / 10 ∧
    T * 34028236692093846346337460743176821248 % 2^128 = (T / 10) * 1024 + (T % 10) * 34028236692093846346337460743176821248 := by
  omega

theorem le128 (a b c d : UInt64) :
    (decide (a < c) || (a == c && decide (b ≤ d))) = decide (a.toNat * 2^64 + b.toNat ≤ c.toNat * 2^64 + d.toNat) := by
  have := b.toNat_lt; have := d.toNat_lt
  rw [Bool.eq_iff_iff]
  simp only [Bool.or_eq_true, Bool.and_eq_true, decide_eq_true_eq, beq_iff_eq, UInt64.lt_iff_toNat_lt,
    UInt64.le_iff_toNat_le, ← UInt64.toNat_inj]
  omega

theorem ne128 (a b : UInt64) : (a != 0 || b != 0) = decide (a.toNat * 2^64 + b.toNat ≠ 0) := by
  rw [Bool.eq_iff_iff]
  simp only [Bool.or_eq_true, bne_iff_ne, ne_eq, decide_eq_true_eq, ← UInt64.toNat_inj, UInt64.toNat_zero]
  omega

/-- the two halves of the product `(S + 5)·ten2m1`: quotient by ten, and `1024·⌊T/10⌋ + (T mod 10)·ten2m1` -/
theorem prod_words (P : U256) (T : Nat) (hP : P.toNat' = T * K10) (hT : T < 2^116) :
    P.w3.toNat * 2^64 + P.w2.toNat = T / 10 ∧
    P.w1.toNat * 2^64 + P.w0.toNat = (T / 10) * 1024 + (T % 10) * K10 := by
  have h0 := P.w0.toNat_lt; have h1 := P.w1.toNat_lt; have h2 := P.w2.toNat_lt; have h3 := P.w3.toNat_lt
  obtain ⟨e1, e2⟩ := prod_split T hT
  unfold Rs.U256.toNat' at hP
  unfold K10 at hP ⊢
  constructor
  · rw [← e1, ← hP]; omega
  · rw [← e2, ← hP]; omega

/-- `S + 5` in two words -/
theorem plus5_words (hi lo : UInt64) (hfit : hi.toNat * 2^64 + lo.toNat + 5 < 2^128) :
    (if decide (lo ≥ 18446744073709551611) = true then hi + 1 else hi).toNat * 2^64 + (lo + 5).toNat
      = hi.toNat * 2^64 + lo.toNat + 5 := by
  have h1 := lo.toNat_lt; have h3 := hi.toNat_lt
  by_cases c : lo ≥ 18446744073709551611
  · rw [if_pos (by simpa using c), UInt64.toNat_add, UInt64.toNat_add]
    rw [ge_iff_le, UInt64.le_iff_toNat_le] at c
    rw [show (1 : UInt64).toNat = 1 from rfl, show (5 : UInt64).toNat = 5 from rfl]
    rw [show (18446744073709551611 : UInt64).toNat = 18446744073709551611 from rfl] at c
    omega
  · rw [if_neg (by simpa using c), UInt64.toNat_add]
    rw [ge_iff_le, UInt64.le_iff_toNat_le] at c
    rw [show (5 : UInt64).toNat = 5 from rfl]
    rw [show (18446744073709551611 : UInt64).toNat = 18446744073709551611 from rfl] at c
    omega

/-! ### the tests of the rounding tail, in terms of `q' = ⌊(S+5)/10⌋` and `r = (S+5) mod 10` -/

/-- "the fraction is non-zero and at most 1/10": `S + 5` is a multiple of ten, i.e. `S/10` is a midpoint -/
def midT (P : U256) : Bool :=
  ((P.w1 != 0 || P.w0 != 0) &&
    (decide (P.w1 < 1844674407370955161) || P.w1 == 1844674407370955161 && decide (P.w0 ≤ 11068046444225730969)))
/-- the quotient is odd -/
def oddT (P : U256) : Bool := (P.w2 &&& 1 == 1)
/-- the midpoint correction: an odd quotient is decremented -/
def p2Of (P : U256) : U256 :=
  if midT P = true then
    if oddT P = true then
      if ({ w0 := P.w0, w1 := P.w1, w2 := P.w2 - 1, w3 := P.w3 : U256 }.w2 == 18446744073709551615) = true then
        { w0 := { w0 := P.w0, w1 := P.w1, w2 := P.w2 - 1, w3 := P.w3 : U256 }.w0,
          w1 := { w0 := P.w0, w1 := P.w1, w2 := P.w2 - 1, w3 := P.w3 : U256 }.w1,
          w2 := { w0 := P.w0, w1 := P.w1, w2 := P.w2 - 1, w3 := P.w3 : U256 }.w2,
          w3 := { w0 := P.w0, w1 := P.w1, w2 := P.w2 - 1, w3 := P.w3 : U256 }.w3 - 1 }
      else { w0 := P.w0, w1 := P.w1, w2 := P.w2 - 1, w3 := P.w3 }
    else P
  else P
/-- the fraction is above 1/2 -/
def halfT (P : U256) : Bool := (decide (P.w1 > 9223372036854775808) || P.w1 == 9223372036854775808 && decide (P.w0 > 0))
/-- the fraction minus 1/2 is at least 1/10 -/
def tmpT (P : U256) : Bool :=
  (decide (P.w1 - 9223372036854775808 > 1844674407370955161) ||
    P.w1 - 9223372036854775808 == 1844674407370955161 && decide (P.w0 ≥ 11068046444225730969))
/-- the top bit of the fraction -/
def topT (P : U256) : Bool := (P.w1 &&& 9223372036854775808 == 9223372036854775808)

section tests
variable (P : U256) (q r : Nat) (hQ : P.w3.toNat * 2^64 + P.w2.toNat = q)
  (hF : P.w1.toNat * 2^64 + P.w0.toNat = q * 1024 + r * K10) (hr : r < 10) (hq1 : 10^33 ≤ q) (hq2 : q < 2^111)
include hQ hF hr hq1 hq2

theorem midT_eq : midT P = decide (r = 0) := by
  unfold midT
  rw [le128, ne128, hF, show (1844674407370955161 : UInt64).toNat * 2^64 + (11068046444225730969 : UInt64).toNat = Tst from rfl]
  unfold K10 Tst
  rw [Bool.eq_iff_iff]
  simp only [Bool.and_eq_true, decide_eq_true_eq]
  omega

theorem oddT_eq : oddT P = decide (q % 2 = 1) := by
  unfold oddT
  rw [C06GenFromInt.test_field P.w2 1 1 1 0 1 (by rfl) (by rfl), decide_eq_decide]
  have := P.w2.toNat_lt
  omega

theorem halfT_eq : halfT P = decide (5 ≤ r) := by
  unfold halfT
  rw [C13GenNoncomp.gt128, hF, show (9223372036854775808 : UInt64).toNat * 2^64 + (0 : UInt64).toNat = 2^127 from rfl]
  unfold K10
  rw [decide_eq_decide]
  omega

theorem topT_eq : topT P = decide (5 ≤ r) := by
  unfold topT
  rw [C06GenFromInt.test_field P.w1 _ _ 1 63 1 (by rfl) (by rfl), decide_eq_decide]
  have h1 := P.w1.toNat_lt; have h0 := P.w0.toNat_lt
  unfold K10 at hF
  by_cases h : 5 ≤ r
  · have hb : 2^127 ≤ P.w1.toNat * 2^64 + P.w0.toNat := by rw [hF]; omega
    have : 2^63 ≤ P.w1.toNat := by clear hF hQ; omega
    clear hF hQ hb
    constructor
    · intro _; exact h
    · intro _; omega
  · have hb : P.w1.toNat * 2^64 + P.w0.toNat < 2^127 := by rw [hF]; omega
    have : P.w1.toNat < 2^63 := by clear hF hQ; omega
    clear hF hQ hb
    constructor
    · intro h'; omega
    · intro h'; exact absurd h' h

theorem tmpT_eq (h5 : 5 ≤ r) : tmpT P = decide (6 ≤ r) := by
  unfold tmpT
  have := P.w1.toNat_lt; have := P.w0.toNat_lt
  have hge : (9223372036854775808 : UInt64) ≤ P.w1 := by
    rw [UInt64.le_iff_toNat_le, show (9223372036854775808 : UInt64).toNat = 2^63 from rfl]
    unfold K10 at hF; omega
  rw [C06GenFromInt.ge128, UInt64.toNat_sub_of_le _ _ hge, show (9223372036854775808 : UInt64).toNat = 2^63 from rfl,
    show (1844674407370955161 : UInt64).toNat * 2^64 + (11068046444225730969 : UInt64).toNat = Tst from rfl, decide_eq_decide]
  unfold K10 at hF
  unfold Tst
  omega

/-- after the midpoint correction: the fraction words are untouched, the quotient is `q' − 1` at an odd midpoint -/
theorem p2Of_spec : (p2Of P).w0 = P.w0 ∧ (p2Of P).w1 = P.w1 ∧
    (p2Of P).w3.toNat * 2^64 + (p2Of P).w2.toNat = (if r = 0 ∧ q % 2 = 1 then q - 1 else q) := by
  have h2 := P.w2.toNat_lt; have h3 := P.w3.toNat_lt
  unfold p2Of
  dsimp only
  rw [midT_eq P q r hQ hF hr hq1 hq2, oddT_eq P q r hQ hF hr hq1 hq2]
  by_cases c1 : r = 0
  · rw [if_pos (by simpa using c1)]
    by_cases c2 : q % 2 = 1
    · rw [if_pos (by simpa using c2), if_pos (show r = 0 ∧ q % 2 = 1 from ⟨c1, c2⟩)]
      have hw2 : (P.w2 - 1).toNat = P.w2.toNat - 1 := by
        rw [UInt64.toNat_sub_of_le _ _ (by rw [UInt64.le_iff_toNat_le]; show 1 ≤ _; omega)]; rfl
      have hne : ¬ ((P.w2 - 1) == 18446744073709551615) = true := by
        rw [beq_iff_eq, ← UInt64.toNat_inj, hw2]
        show ¬ P.w2.toNat - 1 = 18446744073709551615
        omega
      rw [if_neg hne]
      refine ⟨rfl, rfl, ?_⟩
      show P.w3.toNat * 2^64 + (P.w2 - 1).toNat = _
      rw [hw2]
      clear hF hq1 hq2 hr hne hw2
      omega
    · rw [if_neg (by simpa using c2), if_neg (fun h => c2 h.2)]
      exact ⟨rfl, rfl, hQ⟩
  · rw [if_neg (by simpa using c1), if_neg (fun h => c1 h.1)]
    exact ⟨rfl, rfl, hQ⟩
end tests

/-! ## 19. The universal rounding step on a 35-digit sum -/

theorem ndigits_35 {S : Nat} (h1 : 10^34 ≤ S) (h2 : S < 2 * 10^34) : ndigits S = 35 := by
  rw [ndigits_eq_iff (by omega) (by decide)]
  constructor
  · exact h1
  · exact lt_trans h2 (by decide)

theorem ilog_35 {S : Nat} (h1 : 10^34 ≤ S) (h2 : S < 2 * 10^34) : ilog10Ratio S 1 = 34 := by
  unfold ilog10Ratio
  rw [ndigits_35 h1 h2, show ndigits 1 = 1 from by decide]
  simp only [show ((35 : Nat) : Int) - ((1 : Nat) : Int) = 34 from by decide, show ((34 : Int) ≥ 0) from by decide, if_true,
    show (34 : Int).toNat = 34 from by decide, Nat.one_mul]
  rw [show decide (S ≥ 10^34) = true from decide_eq_true h1]
  rfl

/-- **`finish` on a sum of 35 digits below 2·10^34** at exponent `e` (preferred exponent `e`): one digit is rounded
off, the exponent becomes `e + 1`; overflow if that exceeds `eMax` -/
theorem finish_35 (mode : Mode) (neg : Bool) (S : Nat) (e : Int) (h1 : 10^34 ≤ S) (h2 : S < 2 * 10^34)
    (he1 : -6176 ≤ e) (he2 : e ≤ 6111) :
    finish mode neg S 1 e e =
      if e + 1 > eMax then (overflowResult mode neg, fOverflow ||| fInexact)
      else if S % 10 = 0 then (.fin neg (S / 10) (e + 1), 0)
      else (.fin neg (roundInt mode neg (S / 10) (S % 10) 10) (e + 1), fInexact) := by
  have hlg : ilog10Ratio S 1 + e = 34 + e := by rw [ilog_35 h1 h2]
  have hx0 : fx0 (34 + e) = e + 1 := by
    unfold fx0 eMin; rw [if_neg (by omega)]; omega
  have hnum : fnum S (e - (e + 1)) = S := by
    unfold fnum; rw [if_neg (by omega)]
  have hden : fden 1 (e - (e + 1)) = 10 := by
    unfold fden; rw [if_neg (by omega)]
    rw [show (-(e - (e + 1))).toNat = 1 from by omega]; rfl
  have htiny : decide (34 + e - 33 < eMin) = false := decide_eq_false (by unfold eMin; omega)
  rw [finish_eq, hlg, if_neg (by omega), if_neg (by omega), hx0, hnum, hden, htiny]
  by_cases hov : e + 1 > eMax
  · rw [if_pos hov]
    by_cases hr : S % 10 = 0
    · exact finishAt_exact_ovf _ _ _ _ _ _ _ hr hov
    · have hm : roundInt mode neg (S / 10) (S % 10) 10 ≠ P34 := by
        unfold roundInt P34; split <;> omega
      rw [finishAt_inexact _ _ _ _ _ _ _ hr hm, if_pos hov]
  · rw [if_neg hov]
    by_cases hr : S % 10 = 0
    · rw [if_pos hr, finishAt_exact _ _ _ _ _ _ _ hr (by omega)]
      have hc : clampInt (e + 1) (if e + 1 + ↑(trailingZeros 34 (S / 10)) > eMax then eMax else e + 1 + ↑(trailingZeros 34 (S / 10))) e
          = e + 1 := by
        unfold clampInt; rw [if_pos (by omega)]
      rw [hc, Int.sub_self, Int.toNat_zero, Nat.pow_zero, Nat.div_one]
    · have hm : roundInt mode neg (S / 10) (S % 10) 10 ≠ P34 := by
        unfold roundInt P34; split <;> omega
      rw [if_neg hr, finishAt_inexact _ _ _ _ _ _ _ hr hm, if_neg hov]
      rfl

/-! ## 20. The rounding tail is the model's rounding step -/

/-- the code's "round the magnitude up" condition -/
def upB (z nz : Bool) (m : RoundingMode) (ltm gte : Bool) : Bool :=
  (z && (m == RoundingMode.Upward && ltm || (m == RoundingMode.NearestAway || m == RoundingMode.Upward) && gte) ||
    nz && (m == RoundingMode.Downward && ltm || (m == RoundingMode.NearestAway || m == RoundingMode.Downward) && gte))
/-- the code's "round the magnitude down" condition -/
def dnB (z nz : Bool) (m : RoundingMode) (lte gtm : Bool) : Bool :=
  ((lte || gtm) && (nz && (m == RoundingMode.Upward || m == RoundingMode.TowardZero) ||
    z && (m == RoundingMode.Downward || m == RoundingMode.TowardZero)))

/-- the rounded quotient the model asks for -/
def target (mode : Mode) (sA : Bool) (S : Nat) : Nat :=
  if S % 10 = 0 then S / 10 else roundInt mode sA (S / 10) (S % 10) 10

theorem adjust_ok (m : RoundingMode) (sA : Bool) (S : Nat) (hS : 10 ≤ S)
    (lte gte ltm gtm : Bool) (Q2 : Nat)
    (hlte : lte = decide ((S + 5) % 10 = 0 ∧ (S + 5) / 10 % 2 = 0))
    (hgte : gte = decide ((S + 5) % 10 = 0 ∧ (S + 5) / 10 % 2 = 1))
    (hltm : ltm = decide (6 ≤ (S + 5) % 10)) (hgtm : gtm = decide (1 ≤ (S + 5) % 10 ∧ (S + 5) % 10 ≤ 4))
    (hQ2 : Q2 = if (S + 5) % 10 = 0 ∧ (S + 5) / 10 % 2 = 1 then (S + 5) / 10 - 1 else (S + 5) / 10) :
    (m = .NearestEven → Q2 = target (md m) sA S) ∧
    (m ≠ .NearestEven → upB (!sA) sA m ltm gte = true → Q2 + 1 = target (md m) sA S) ∧
    (m ≠ .NearestEven → upB (!sA) sA m ltm gte = false → dnB (!sA) sA m lte gtm = true → Q2 - 1 = target (md m) sA S ∧ 1 ≤ Q2) ∧
    (m ≠ .NearestEven → upB (!sA) sA m ltm gte = false → dnB (!sA) sA m lte gtm = false → Q2 = target (md m) sA S) := by
  have hdm := Nat.div_add_mod S 10
  have hlt := Nat.mod_lt S (show 10 > 0 by decide)
  generalize hq : S / 10 = q at *
  generalize hs : S % 10 = s0 at *
  have hS' : S = 10 * q + s0 := by omega
  subst hS'
  have e1 : (10 * q + s0 + 5) / 10 = q + (s0 + 5) / 10 := by omega
  have e2 : (10 * q + s0 + 5) % 10 = (s0 + 5) % 10 := by omega
  simp only [e1, e2] at hlte hgte hltm hgtm hQ2
  unfold target roundInt roundUp upB dnB
  rw [hs, hq]
  subst hlte hgte hltm hgtm hQ2
  clear hdm e1 e2 hs hq
  interval_cases s0 <;> cases m <;> cases sA <;> simp [md] <;> (try split_ifs) <;> omega

/-- the end of the rounding tail: the overflow exit of the directed modes, or the assembled result -/
def fin3 (sa ye hi lo : UInt64) (pf : UInt32) (m : RoundingMode) : U128 × UInt32 :=
  if (ye == c_EXP_MAX_P1) = true then
    if (m == RoundingMode.Downward && sa != 0 || m == RoundingMode.Upward && sa == 0) = true then
      (⟨0, sa ||| 0 ||| 8646911284551352320⟩,
        pf ||| c_StatusFlags_BID_INEXACT_EXCEPTION ||| c_StatusFlags_BID_OVERFLOW_EXCEPTION)
    else
      (⟨4003012203950112767, sa ||| 0 ||| 6917508178773903296⟩,
        pf ||| c_StatusFlags_BID_INEXACT_EXCEPTION ||| c_StatusFlags_BID_OVERFLOW_EXCEPTION)
  else (⟨lo, sa ||| ye ||| hi⟩, pf)

theorem inf_word (sa : UInt64) (sA : Bool) (hsa : sa.toNat = if sA then 2^63 else 0) :
    (⟨0, sa ||| 0 ||| 8646911284551352320⟩ : U128) = ofBits (encode (.inf sA)) := by
  rw [word_of_sign sa sA hsa]; cases sA <;> decide +kernel
theorem inf_word' (sa : UInt64) (sA : Bool) (hsa : sa.toNat = if sA then 2^63 else 0) :
    (⟨0, sa ||| 8646911284551352320⟩ : U128) = ofBits (encode (.inf sA)) := by
  rw [word_of_sign sa sA hsa]; cases sA <;> decide +kernel
theorem maxfin_word (sa : UInt64) (sA : Bool) (hsa : sa.toNat = if sA then 2^63 else 0) :
    (⟨4003012203950112767, sa ||| 0 ||| 6917508178773903296⟩ : U128) = ofBits (encode (.fin sA (P34 - 1) eMax)) := by
  rw [word_of_sign sa sA hsa]; cases sA <;> decide +kernel

theorem fin3_spec (m : RoundingMode) (sa ye hi lo : UInt64) (pf : UInt32) (sA : Bool) (M E : Nat)
    (hsa : sa.toNat = if sA then 2^63 else 0) (hye : ye.toNat = E * 2^49) (hE : E ≤ 12288)
    (hM : hi.toNat * 2^64 + lo.toNat = M) (hM34 : M < 10^34)
    (hmode : E = 12288 → m = .Downward ∨ m = .Upward ∨ m = .TowardZero) :
    fin3 sa ye hi lo pf m =
      if E = 12288 then (ofBits (encode (overflowResult (md m) sA)),
        pf ||| c_StatusFlags_BID_INEXACT_EXCEPTION ||| c_StatusFlags_BID_OVERFLOW_EXCEPTION)
      else (ofBits (encode (.fin sA M ((E : Int) - 6176))), pf) := by
  unfold fin3
  by_cases h : E = 12288
  · have hy : ye = c_EXP_MAX_P1 := by
      rw [← UInt64.toNat_inj, hye, h]; rfl
    rw [if_pos (by rw [hy]; rfl), if_pos h]
    have hz : (sa == 0) = !sA := by rw [word_of_sign sa sA hsa]; cases sA <;> rfl
    have hnz : (sa != 0) = sA := by rw [word_of_sign sa sA hsa]; cases sA <;> rfl
    rw [hz, hnz]
    rcases hmode h with rfl | rfl | rfl <;> cases sA <;>
      first
      | (rw [if_pos (by decide)]; exact congrArg (fun r => (r, _)) (inf_word sa _ hsa))
      | (rw [if_neg (by decide)]; exact congrArg (fun r => (r, _)) (maxfin_word sa _ hsa))
  · have hy : ¬ (ye == c_EXP_MAX_P1) = true := by
      rw [beq_iff_eq, ← UInt64.toNat_inj, hye]
      show ¬ E * 2^49 = 12288 * 2^49
      omega
    rw [if_neg hy, if_neg h, or3, encode_at]
    exact congrArg (fun r => (r, pf)) (assemble' lo hi sa ye sA M E hM (lt113 hM34) hsa hye (by omega))

theorem expP1 (eb : UInt64) (EB : Nat) (heb : eb.toNat = EB * 2^49) (hEB : EB ≤ 12287) :
    (eb + c_EXP_P1).toNat = (EB + 1) * 2^49 := by
  rw [UInt64.toNat_add, heb, show c_EXP_P1.toNat = 2^49 from rfl]
  omega

theorem flags_io (f : UInt32) :
    f ||| c_StatusFlags_BID_INEXACT_EXCEPTION ||| c_StatusFlags_BID_OVERFLOW_EXCEPTION = f ||| UInt32.ofNat (fOverflow ||| fInexact) := by
  rw [UInt32.or_assoc]; rfl
theorem flags_iio (f : UInt32) :
    f ||| c_StatusFlags_BID_INEXACT_EXCEPTION ||| c_StatusFlags_BID_INEXACT_EXCEPTION ||| c_StatusFlags_BID_OVERFLOW_EXCEPTION
      = f ||| UInt32.ofNat (fOverflow ||| fInexact) := by
  rw [UInt32.or_assoc f, UInt32.or_self, flags_io]
theorem flags_i (f : UInt32) : f ||| c_StatusFlags_BID_INEXACT_EXCEPTION = f ||| UInt32.ofNat fInexact := rfl

/-- the indicators of the rounding tail, in terms of `r = (S+5) mod 10` and the parity of `q' = ⌊(S+5)/10⌋` -/
theorem ind_ok (r q : Nat) (hr : r < 10) (lte gte inex ltm gtm half tmp top : Bool)
    (hhalf : half = decide (5 ≤ r)) (htop : top = decide (5 ≤ r)) (htmp : 5 ≤ r → tmp = decide (6 ≤ r))
    (hlte : lte = if decide (r = 0) = true then if decide (q % 2 = 1) = true then false else true else false)
    (hgte : gte = if decide (r = 0) = true then if decide (q % 2 = 1) = true then true else false else false)
    (hinex : inex = if half = true then if tmp = true then true else false else true)
    (hltm : ltm = if (!gte && !lte) = true then inex && top else false)
    (hgtm : gtm = if (!gte && !lte) = true then inex && !top else false) :
    lte = decide (r = 0 ∧ q % 2 = 0) ∧ gte = decide (r = 0 ∧ q % 2 = 1) ∧ inex = decide (r ≠ 5) ∧
      ltm = decide (6 ≤ r) ∧ gtm = decide (1 ≤ r ∧ r ≤ 4) := by
  subst hhalf htop
  by_cases h5 : 5 ≤ r
  · have := htmp h5
    subst this
    subst hlte hgte hinex hltm hgtm
    rcases Nat.mod_two_eq_zero_or_one q with hp | hp <;> interval_cases r <;> simp [hp]
  · subst hlte hgte hinex hltm hgtm
    rcases Nat.mod_two_eq_zero_or_one q with hp | hp <;> interval_cases r <;> simp [hp] at h5 ⊢

theorem eq_words (a b : UInt64) (c1 c0 : UInt64) :
    (a == c1 && b == c0) = decide (a.toNat * 2^64 + b.toNat = c1.toNat * 2^64 + c0.toNat) := by
  have := b.toNat_lt; have := c0.toNat_lt
  rw [Bool.eq_iff_iff]
  simp only [Bool.and_eq_true, beq_iff_eq, decide_eq_true_eq, ← UInt64.toNat_inj]
  omega

/-- increment / decrement of a two-word number as the code does it -/
theorem inc_words (h l : UInt64) (hfit : h.toNat * 2^64 + l.toNat + 1 < 2^128) :
    (if (l + 1 == 0) = true then h + 1 else h).toNat * 2^64 + (l + 1).toNat = h.toNat * 2^64 + l.toNat + 1 := by
  have h1 := l.toNat_lt; have h3 := h.toNat_lt
  by_cases c : l + 1 = 0
  · rw [if_pos (by simpa using c), UInt64.toNat_add, UInt64.toNat_add]
    rw [← UInt64.toNat_inj, UInt64.toNat_add] at c
    rw [show (1 : UInt64).toNat = 1 from rfl]
    rw [show (1 : UInt64).toNat = 1 from rfl, show (0 : UInt64).toNat = 0 from rfl] at c
    omega
  · rw [if_neg (by simpa using c), UInt64.toNat_add]
    rw [← UInt64.toNat_inj, UInt64.toNat_add] at c
    rw [show (1 : UInt64).toNat = 1 from rfl]
    rw [show (1 : UInt64).toNat = 1 from rfl, show (0 : UInt64).toNat = 0 from rfl] at c
    omega
theorem dec_words (h l : UInt64) (hpos : 1 ≤ h.toNat * 2^64 + l.toNat) :
    (if (l - 1 == 18446744073709551615) = true then h - 1 else h).toNat * 2^64 + (l - 1).toNat = h.toNat * 2^64 + l.toNat - 1 := by
  have h1 := l.toNat_lt; have h3 := h.toNat_lt
  have el : (l - 1).toNat = (l.toNat + 2^64 - 1) % 2^64 := by
    rw [UInt64.toNat_sub, show (1 : UInt64).toNat = 1 from rfl]; omega
  by_cases c : l - 1 = 18446744073709551615
  · rw [if_pos (by simpa using c), el]
    rw [← UInt64.toNat_inj, el, show (18446744073709551615 : UInt64).toNat = 2^64 - 1 from rfl] at c
    have hh : 1 ≤ h.toNat := by omega
    rw [UInt64.toNat_sub_of_le _ _ (by rw [UInt64.le_iff_toNat_le]; exact hh), show (1 : UInt64).toNat = 1 from rfl]
    omega
  · rw [if_neg (by simpa using c), el]
    rw [← UInt64.toNat_inj, el, show (18446744073709551615 : UInt64).toNat = 2^64 - 1 from rfl] at c
    omega

/-- the last step: the result words hold the model's rounded quotient -/
theorem final_ok (m : RoundingMode) (sa eb hi' lo' : UInt64) (f pf1 : UInt32) (sA : Bool) (S EB : Nat)
    (hsa : sa.toNat = if sA then 2^63 else 0) (hye : (eb + c_EXP_P1).toNat = (EB + 1) * 2^49) (hEB : EB ≤ 12287)
    (hM : hi'.toNat * 2^64 + lo'.toNat = target (md m) sA S) (hS1 : 10^34 ≤ S) (hS2 : S < 2 * 10^34)
    (hpf1 : pf1 = if S % 10 = 0 then f else f ||| c_StatusFlags_BID_INEXACT_EXCEPTION)
    (hmode : EB + 1 = 12288 → m = .Downward ∨ m = .Upward ∨ m = .TowardZero) :
    (Except.ok (fin3 sa (eb + c_EXP_P1) hi' lo' pf1 m) : Except String (U128 × UInt32)) =
      .ok (ofBits (encode (if (EB : Int) - 6176 + 1 > eMax then (overflowResult (md m) sA, fOverflow ||| fInexact)
            else if S % 10 = 0 then (.fin sA (S / 10) ((EB : Int) - 6176 + 1), 0)
            else (.fin sA (roundInt (md m) sA (S / 10) (S % 10) 10) ((EB : Int) - 6176 + 1), fInexact)).1),
        f ||| UInt32.ofNat (if (EB : Int) - 6176 + 1 > eMax then (overflowResult (md m) sA, fOverflow ||| fInexact)
            else if S % 10 = 0 then (.fin sA (S / 10) ((EB : Int) - 6176 + 1), 0)
            else (.fin sA (roundInt (md m) sA (S / 10) (S % 10) 10) ((EB : Int) - 6176 + 1), fInexact)).2) := by
  have hT34 : target (md m) sA S < 10^34 := by
    unfold target roundInt
    split
    · omega
    · split <;> omega
  rw [fin3_spec m sa _ hi' lo' pf1 sA _ (EB + 1) hsa hye (by omega) hM hT34 hmode]
  by_cases h : EB + 1 = 12288
  · rw [if_pos h, if_pos (by unfold eMax; omega), hpf1]
    refine congrArg Except.ok (Prod.ext rfl ?_)
    split
    · exact flags_io f
    · exact flags_iio f
  · rw [if_neg h, if_neg (by unfold eMax; omega), hpf1]
    have he : ((EB + 1 : Nat) : Int) - 6176 = (EB : Int) - 6176 + 1 := by omega
    rw [he]
    unfold target
    by_cases h0 : S % 10 = 0
    · rw [if_pos h0, if_pos h0, if_pos h0]
      exact congrArg Except.ok (Prod.ext rfl (or_zero32 f).symm)
    · rw [if_neg h0, if_neg h0, if_neg h0]
      rfl

/-- **the rounding tail is the model's rounding step**: for a sum `10^34 ≤ S < 2·10^34` in `(hi, lo)`, sign word `sa`,
exponent word `eb`: the code returns `finish`'s datum and flags, for every rounding mode (never panics) -/
theorem rndTail_spec (sa eb hi lo : UInt64) (m : RoundingMode) (f : UInt32) (sA : Bool) (S EB : Nat)
    (hsa : sa.toNat = if sA then 2^63 else 0) (heb : eb.toNat = EB * 2^49) (hEB : EB ≤ 12287)
    (hS : hi.toNat * 2^64 + lo.toNat = S) (hS1 : 10^34 ≤ S) (hS2 : S < 2 * 10^34) :
    rndTail sa eb hi lo m f =
      .ok (ofBits (encode (finish (md m) sA S 1 ((EB : Int) - 6176) ((EB : Int) - 6176)).1),
           f ||| UInt32.ofNat (finish (md m) sA S 1 ((EB : Int) - 6176) ((EB : Int) - 6176)).2) := by
  rw [finish_35 (md m) sA S _ hS1 hS2 (by omega) (by omega)]
  have hye := expP1 eb EB heb hEB
  have hz : (sa == 0) = !sA := by rw [word_of_sign sa sA hsa]; cases sA <;> rfl
  have hnz : (sa != 0) = sA := by rw [word_of_sign sa sA hsa]; cases sA <;> rfl
  unfold rndTail
  head_step
  sym_exec
  gen_args _ hi5 lo5
  have h5 : hi5.toNat * 2^64 + lo5.toNat = S + 5 := by
    rw [hhi5, hlo5, plus5_words hi lo (by rw [hS]; exact lt_trans (by omega : S + 5 < 2 * 10^34 + 5) (by decide)), hS]
  obtain ⟨P, hM, hPv⟩ := C01GenArith.gen_mul_128x128_to_256 ⟨lo5, hi5⟩ ⟨11068046444225731072, 1844674407370955161⟩
  have hPv' : P.toNat' = (S + 5) * K10 := by
    rw [hPv, words_toNat', h5]; rfl
  have hT : S + 5 < 2^116 := lt_trans (by omega : S + 5 < 2 * 10^34 + 5) (by decide)
  obtain ⟨hQ, hF⟩ := prod_words P (S + 5) hPv' hT
  have hr : (S + 5) % 10 < 10 := Nat.mod_lt _ (by decide)
  have hq1 : 10^33 ≤ (S + 5) / 10 := by omega
  have hq2 : (S + 5) / 10 < 2^111 := by
    have : (S + 5) / 10 < 2 * 10^33 + 1 := by omega
    exact lt_trans this (by decide)
  head_step
  sym_exec
  gen_args _ P2 lte gte
  replace hP2 : P2 = p2Of P := hP2
  replace hlte : lte = (if midT P = true then (if oddT P = true then false else true) else false) := hlte
  replace hgte : gte = (if midT P = true then (if oddT P = true then true else false) else false) := hgte
  rw [midT_eq P _ _ hQ hF hr hq1 hq2, oddT_eq P _ _ hQ hF hr hq1 hq2] at hlte hgte
  obtain ⟨hw0, hw1, hQ2⟩ := p2Of_spec P _ _ hQ hF hr hq1 hq2
  rw [← hP2] at hw0 hw1 hQ2
  have hF2 : P2.w1.toNat * 2^64 + P2.w0.toNat = (S + 5) / 10 * 1024 + (S + 5) % 10 * K10 := by rw [hw0, hw1]; exact hF
  head_step
  by_cases hov : (eb + c_EXP_P1 == c_EXP_MAX_P1 && (m == RoundingMode.NearestEven || m == RoundingMode.NearestAway)) = true
  · take_pos
    · exact hov
    head_step
    rw [Bool.and_eq_true, beq_iff_eq] at hov
    have hE : EB + 1 = 12288 := by
      have := congrArg UInt64.toNat hov.1
      rw [hye, show c_EXP_MAX_P1.toNat = 12288 * 2^49 from rfl] at this
      omega
    rw [if_pos (by unfold eMax; omega)]
    have hmode : overflowResult (md m) sA = .inf sA := by
      have h2 := hov.2
      cases m <;> first | rfl | exact absurd h2 (by decide)
    rw [hmode]
    exact congrArg Except.ok (Prod.ext (inf_word' sa sA hsa) (flags_io f))
  take_neg
  · exact hov
  head_step
  sym_exec
  gen_args _ pf1 _ inex
  replace hpf1 : pf1 = (if halfT P2 = true then (if tmpT P2 = true then f ||| c_StatusFlags_BID_INEXACT_EXCEPTION else f)
      else f ||| c_StatusFlags_BID_INEXACT_EXCEPTION) := hpf1
  replace hinex : inex = (if halfT P2 = true then (if tmpT P2 = true then true else false) else true) := hinex
  head_step
  sym_exec
  gen_args _ ltm gtm
  replace hltm : ltm = (if (!gte && !lte) = true then inex && topT P2 else false) := hltm
  replace hgtm : gtm = (if (!gte && !lte) = true then inex && !topT P2 else false) := hgtm
  have ehalf : halfT P2 = halfT P := by unfold halfT; rw [hw0, hw1]
  have etmp : tmpT P2 = tmpT P := by unfold tmpT; rw [hw0, hw1]
  have etop : topT P2 = topT P := by unfold topT; rw [hw1]
  rw [ehalf, etmp] at hpf1 hinex
  rw [etop] at hltm hgtm
  obtain ⟨ilte, igte, iinex, iltm, igtm⟩ := ind_ok _ _ hr lte gte inex ltm gtm (halfT P) (tmpT P) (topT P)
    (halfT_eq P _ _ hQ hF hr hq1 hq2) (topT_eq P _ _ hQ hF hr hq1 hq2) (fun h => tmpT_eq P _ _ hQ hF hr hq1 hq2 h)
    hlte hgte hinex hltm hgtm
  head_step
  have hpf1' : pf1 = if S % 10 = 0 then f else f ||| c_StatusFlags_BID_INEXACT_EXCEPTION := by
    rw [hpf1, halfT_eq P _ _ hQ hF hr hq1 hq2]
    by_cases h5 : 5 ≤ (S + 5) % 10
    · rw [if_pos (by simpa using h5), tmpT_eq P _ _ hQ hF hr hq1 hq2 h5]
      by_cases h6 : 6 ≤ (S + 5) % 10
      · rw [if_pos (by simpa using h6), if_neg (by omega)]
      · rw [if_neg (by simpa using h6), if_pos (by omega)]
    · rw [if_neg (by simpa using h5), if_neg (by omega)]
  have hmode : EB + 1 = 12288 → m = .Downward ∨ m = .Upward ∨ m = .TowardZero := by
    intro hE
    have : (eb + c_EXP_P1 == c_EXP_MAX_P1) = true := by rw [beq_iff_eq, ← UInt64.toNat_inj, hye, hE]; rfl
    rw [this, Bool.true_and] at hov
    cases m <;> first | exact absurd rfl hov | simp
  obtain ⟨aRNE, aUp, aDn, aSame⟩ := adjust_ok m sA S (by omega) lte gte ltm gtm _ ilte igte iltm igtm rfl
  rw [← hQ2] at aRNE aUp aDn aSame
  have hT34 : target (md m) sA S ≤ 2 * 10^33 := by
    unfold target roundInt
    split
    · omega
    · split <;> omega
  by_cases hm : (m != RoundingMode.NearestEven) = true
  · have hmne : m ≠ .NearestEven := by simpa using hm
    take_pos
    · exact hm
    head_step
    by_cases hup : upB (!sA) sA m ltm gte = true
    · take_pos
      · exact (show upB (sa == 0) (sa != 0) m ltm gte = true by rw [hz, hnz]; exact hup)
      have hval := aUp hmne hup
      have hv := inc_words P2.w3 P2.w2 (by rw [hval]; exact lt_of_le_of_lt hT34 (by decide))
      rw [hval] at hv
      head_step
      sym_exec
      gen_args _ hiC
      head_step
      take_neg
      · rw [hhiC, eq_words, hv, show (542101086242752 : UInt64).toNat * 2^64 + (4003012203950112768 : UInt64).toNat = 10^34 from by decide]
        simp only [decide_eq_true_eq]
        omega
      sym_exec!
      refine Eq.trans (show _ = Except.ok (fin3 sa (eb + c_EXP_P1) hiC (P2.w2 + 1) pf1 m) from rfl) ?_
      rw [hhiC]
      exact final_ok m sa eb _ _ f pf1 sA S EB hsa hye hEB hv hS1 hS2 hpf1' hmode
    · take_neg
      · exact (show ¬ upB (sa == 0) (sa != 0) m ltm gte = true by rw [hz, hnz]; exact hup)
      have hup' : upB (!sA) sA m ltm gte = false := by simpa using hup
      head_step
      by_cases hdn : dnB (!sA) sA m lte gtm = true
      · take_pos
        · exact (show dnB (sa == 0) (sa != 0) m lte gtm = true by rw [hz, hnz]; exact hdn)
        obtain ⟨hval, hpos⟩ := aDn hmne hup' hdn
        have hv := dec_words P2.w3 P2.w2 hpos
        rw [hval] at hv
        head_step
        sym_exec
        gen_args _ hiC
        head_step
        take_neg
        · rw [hhiC, eq_words, hv, show (54210108624275 : UInt64).toNat * 2^64 + (4089650035136921599 : UInt64).toNat = 10^33 - 1 from by decide]
          simp only [decide_eq_true_eq]
          have hT33 : 10^33 ≤ target (md m) sA S := by
            unfold target roundInt
            split
            · omega
            · split <;> omega
          omega
        sym_exec!
        refine Eq.trans (show _ = Except.ok (fin3 sa (eb + c_EXP_P1) hiC (P2.w2 - 1) pf1 m) from rfl) ?_
        rw [hhiC]
        exact final_ok m sa eb _ _ f pf1 sA S EB hsa hye hEB hv hS1 hS2 hpf1' hmode
      · take_neg
        · exact (show ¬ dnB (sa == 0) (sa != 0) m lte gtm = true by rw [hz, hnz]; exact hdn)
        have hdn' : dnB (!sA) sA m lte gtm = false := by simpa using hdn
        have hval := aSame hmne hup' hdn'
        sym_exec!
        refine Eq.trans (show _ = Except.ok (fin3 sa (eb + c_EXP_P1) P2.w3 P2.w2 pf1 m) from rfl) ?_
        exact final_ok m sa eb _ _ f pf1 sA S EB hsa hye hEB hval hS1 hS2 hpf1' hmode
  · have hme : m = .NearestEven := by
      cases m <;> first | rfl | exact absurd rfl hm
    take_neg
    · exact hm
    have hval := aRNE hme
    sym_exec!
    have hne : ¬ (eb + c_EXP_P1 == c_EXP_MAX_P1) = true := by
      intro h
      apply hov
      rw [h, hme]; rfl
    refine Eq.trans (show _ = Except.ok (fin3 sa (eb + c_EXP_P1) P2.w3 P2.w2 pf1 m) from by unfold fin3; rw [if_neg hne]; rfl) ?_
    exact final_ok m sa eb _ _ f pf1 sA S EB hsa hye hEB hval hS1 hS2 hpf1' hmode

/-! ## 21. The aligned coefficient fits 34 digits: all of the branches `delta < 0`, `0 ≤ delta ≤ 33 − q2`, `delta = 34 − q2` -/

/-- the model on a same-sign sum: the universal rounding step on `C_H·10^gap + C_L` at the smaller exponent -/
theorem addFin_same (mode : Mode) (sA : Bool) (cA : Nat) (eA : Int) (cB : Nat) (eB : Int) (hle : eB ≤ eA) (hcA : 0 < cA) :
    addFin mode sA cA eA sA cB eB (if eA ≤ eB then eA else eB) =
      finish mode sA (cA * 10 ^ (eA - eB).toNat + cB) 1 eB eB := by
  have hm : (if eA ≤ eB then eA else eB) = eB := by split <;> omega
  have hA0 : 0 < cA * 10 ^ (eA - eB).toNat := Nat.mul_pos hcA (Nat.pow_pos (by decide))
  rw [hm]
  unfold addFin
  simp only [hm, Int.sub_self, Int.toNat_zero, Nat.pow_zero, Nat.mul_one]
  generalize cA * 10 ^ (eA - eB).toNat = A at *
  cases sA <;> simp only [sInt, Bool.false_eq_true, if_false, if_true]
  · rw [if_neg (show ¬ ((A : Int) + cB = 0) by omega), show decide ((A : Int) + cB < 0) = false from decide_eq_false (by omega),
      show ((A : Int) + cB).natAbs = A + cB from by omega]
  · rw [if_neg (show ¬ (-(A : Int) + -cB = 0) by omega), show decide (-(A : Int) + -cB < 0) = true from decide_eq_true (by omega),
      show (-(A : Int) + -cB).natAbs = A + cB from by omega]

/-- **the aligned coefficient of the operand with the larger exponent fits 34 digits** (operands in the code's order):
the code returns the model's sum, rounded if the same-sign sum reaches 10^34 -/
theorem add_aligned_core (x y a b : U128) (m : RoundingMode) (f : UInt32) (hab : Ordered x y a b)
    {sA sB : Bool} {cA cB : Nat} {eA eB : Int}
    (ha : decode (bitsOf a) = .fin sA cA eA) (hb : decode (bitsOf b) = .fin sB cB eB) (hcA : cA ≠ 0) (hcB : cB ≠ 0)
    (hfitA : (ndigits cA : Int) + eA - eB ≤ 34) :
    bid128_add x y m f =
      .ok (ofBits (encode (addFin (md m) sA cA eA sB cB eB (if eA ≤ eB then eA else eB)).1),
           f ||| UInt32.ofNat (addFin (md m) sA cA eA sB cB eB (if eA ≤ eB then eA else eB)).2) := by
  by_cases hsum : sA = sB → cA * 10 ^ (eA - eB).toNat + cB < 10^34
  · exact add_fits_core x y a b m f hab ha hb hcA hcB hfitA hsum
  have hs : sA = sB := by
    by_contra h; exact hsum (fun h' => absurd h' h)
  have hbig' : 10^34 ≤ cA * 10 ^ (eA - eB).toNat + cB := by
    by_contra h; exact hsum (fun _ => by omega)
  subst hs
  obtain ⟨ha1, hac, haP, hae, halo, hahi, has, -⟩ := fin_view a ha
  obtain ⟨hb1, hbc, hbP, hbe, hblo, hbhi, hbs, -⟩ := fin_view b hb
  have hcA0 : 0 < cA := Nat.pos_of_ne_zero hcA
  have hcB0 : 0 < cB := Nat.pos_of_ne_zero hcB
  have ha0 := nonzero_words hac hcA
  have hb0 := nonzero_words hbc hcB
  have hEle : (eB + 6176).toNat ≤ (eA + 6176).toNat := by
    have hle : uE b ≤ uE a := by
      rcases hab with ⟨rfl, rfl, hc⟩ | ⟨rfl, rfl, hc⟩
      · exact UInt64.not_lt.1 (by simpa using hc)
      · exact UInt64.le_of_lt (by simpa using hc)
    rw [UInt64.le_iff_toNat_le, hae, hbe] at hle
    omega
  have hle : eB ≤ eA := by omega
  have hsp : ¬ ((x.w1 &&& c_MASK_SPECIAL == c_MASK_SPECIAL) || (y.w1 &&& c_MASK_SPECIAL == c_MASK_SPECIAL)) = true := by
    rcases hab with ⟨rfl, rfl, -⟩ | ⟨rfl, rfl, -⟩
    · exact not_special2 ha1 hb1
    · exact not_special2 hb1 ha1
  have hx0 : ¬ (uH x == 0 && uL x == 0) = true := by
    rcases hab with ⟨rfl, rfl, -⟩ | ⟨rfl, rfl, -⟩
    · exact ha0
    · exact hb0
  have hy0 : ¬ (uH y == 0 && uL y == 0) = true := by
    rcases hab with ⟨rfl, rfl, -⟩ | ⟨rfl, rfl, -⟩
    · exact hb0
    · exact ha0
  obtain ⟨D, D1, THI, TLO, hTa, hqa⟩ := digits_row (uH a) (uL a) (by rw [hac]; exact hcA0) (hi_lt hac haP)
  obtain ⟨D', D1', THI', TLO', hTb, hqb⟩ := digits_row (uH b) (uL b) (by rw [hbc]; exact hcB0) (hi_lt hbc hbP)
  rw [hac] at hqa
  rw [hbc] at hqb
  have hQA1 := ndigits_pos hcA0
  have hQB1 := ndigits_pos hcB0
  have hQA : ndigits cA ≤ 34 := (ndigits_le_iff hcA0).2 (by simpa [P34] using haP)
  have hQB : ndigits cB ≤ 34 := (ndigits_le_iff hcB0).2 (by simpa [P34] using hbP)
  have hEA : (eA + 6176).toNat < 2^14 := by omega
  have hEB : (eB + 6176).toNat < 2^14 := by omega
  have hdl := delta_toInt _ _ (uE a) (uE b) _ _ _ _ hqa hqb hQA hQB hae hbe hEA hEB
  have hsc := scA_toInt _ _ (uE a) (uE b) _ _ _ _ hqa hqb hQA hQB hae hbe hEA hEB
  have h34 : c_P34.toInt = 34 := by decide
  have h33 : (c_P34 - 1 - qOf D' D1' THI' TLO' (uH b) (uL b)).toInt = 33 - (ndigits cB : Int) := by
    rw [Int32.toInt_sub, Int32.toInt_sub, hqb, h34, show (1 : Int32).toInt = 1 from by decide,
      C13GenNoncomp.bmod32 (34 - 1) (by omega) (by omega), C13GenNoncomp.bmod32 _ (by omega) (by omega)]
    omega
  have h34q : (c_P34 - qOf D' D1' THI' TLO' (uH b) (uL b)).toInt = 34 - (ndigits cB : Int) := by
    rw [Int32.toInt_sub, hqb, h34, C13GenNoncomp.bmod32 _ (by omega) (by omega)]
  have hS : (scA (qOf D D1 THI TLO (uH a) (uL a)) (qOf D' D1' THI' TLO' (uH b) (uL b)) (uE a) (uE b)).toInt
      = (((eA - eB).toNat : Nat) : Int) := by rw [hsc]; omega
  obtain ⟨P, hi, lo, hP0, hval, hK⟩ := alignK_ok (β := U128 × UInt32) _ _ (uH a) (uL a) cA (ndigits cA) (eA - eB).toNat
    hac hqa hS rfl hcA0 (by omega)
  have hA34 := pow_lt_of_digits (C := cA) (Q := ndigits cA) (S := (eA - eB).toNat) rfl (by omega)
  have hB34 : cB < 10^34 := by simpa [P34] using hbP
  have hsig : (a.w1 &&& c_MASK_SIGN == b.w1 &&& c_MASK_SIGN) = decide (sA = sA) := by
    rw [word_of_sign _ sA has, word_of_sign _ sA hbs]
    cases sA <;> rfl
  have hd1 : ¬ decide (deltaOf (qOf D D1 THI TLO (uH a) (uL a)) (qOf D' D1' THI' TLO' (uH b) (uL b)) (uE a) (uE b) ≥ c_P34) = true := by
    rw [i32_ge, hdl, h34]; simp only [decide_eq_true_eq]; omega
  rw [addFin_same (md m) sA cA eA cB eB hle hcA0]
  have hsumlt : cA * 10 ^ (eA - eB).toNat + cB < 2 * 10^34 := by omega
  have hw := sum_words hi lo (uH b) (uL b) (by rw [hval, hbc]; exact lt_trans hsumlt (by decide))
  rw [hval, hbc] at hw
  have hbigT : bigTest (sumHi hi lo (uH b) (uL b)) (lo + uL b) = true := by
    rw [bigTest_eq, hw]; exact decide_eq_true hbig'
  have hEB' : (eB + 6176).toNat ≤ 12287 := by omega
  have heq : (((eB + 6176).toNat : Nat) : Int) - 6176 = eB := by omega
  by_cases hneg : (ndigits cA : Int) + (eA + 6176).toNat - ndigits cB - (eB + 6176).toNat < 0
  · have hd2 : ¬ decide (deltaOf (qOf D D1 THI TLO (uH a) (uL a)) (qOf D' D1' THI' TLO' (uH b) (uL b)) (uE a) (uE b) ≥ 0) = true := by
      rw [i32_ge, hdl, show (0 : Int32).toInt = 0 from by decide]; simp only [decide_eq_true_eq]; omega
    rw [code_rndC x y a b m f hsp hx0 hy0 hab D D1 THI TLO D' D1' THI' TLO' hTa hTb hd1 hd2 P hi lo hK
      (by rw [hsig]; exact decide_eq_true rfl) hbigT,
      rndTail_spec _ (uE b) _ _ m f sA _ _ has hbe hEB' hw hbig' hsumlt, heq]
  · -- the exact branch cannot reach 10^34
    have hnotA : ¬ ((ndigits cA : Int) + (eA + 6176).toNat - ndigits cB - (eB + 6176).toNat ≤ 33 - ndigits cB) := by
      intro hA
      have h1 : cA * 10 ^ (eA - eB).toNat < 10^33 := by
        have h1 : cA < 10 ^ ndigits cA := lt_pow_ndigits cA
        calc cA * 10 ^ (eA - eB).toNat < 10 ^ ndigits cA * 10 ^ (eA - eB).toNat :=
              Nat.mul_lt_mul_of_pos_right h1 (Nat.pow_pos (by decide))
          _ = 10 ^ (ndigits cA + (eA - eB).toNat) := (Nat.pow_add _ _ _).symm
          _ ≤ 10 ^ 33 := Nat.pow_le_pow_right (by decide) (by omega)
      have h2 : cB < 10^33 := (ndigits_le_iff hcB0).1 (by omega)
      have : (10:Nat)^33 + 10^33 < 10^34 := by decide
      omega
    have hd2 : decide (deltaOf (qOf D D1 THI TLO (uH a) (uL a)) (qOf D' D1' THI' TLO' (uH b) (uL b)) (uE a) (uE b) ≥ 0) = true := by
      rw [i32_ge, hdl, show (0 : Int32).toInt = 0 from by decide]; exact decide_eq_true (by omega)
    have hd3 : ¬ decide (deltaOf (qOf D D1 THI TLO (uH a) (uL a)) (qOf D' D1' THI' TLO' (uH b) (uL b)) (uE a) (uE b)
        ≤ c_P34 - 1 - qOf D' D1' THI' TLO' (uH b) (uL b)) = true := by
      rw [i32_le, hdl, h33]; simp only [decide_eq_true_eq]; omega
    have hd4 : (deltaOf (qOf D D1 THI TLO (uH a) (uL a)) (qOf D' D1' THI' TLO' (uH b) (uL b)) (uE a) (uE b)
        == c_P34 - qOf D' D1' THI' TLO' (uH b) (uL b)) = true := beq_i32 _ _ (by rw [hdl, h34q]; omega)
    rw [code_rndB x y a b m f hsp hx0 hy0 hab D D1 THI TLO D' D1' THI' TLO' hTa hTb hd1 hd2 hd3 hd4 P hi lo hK
      (by rw [hsig]; exact decide_eq_true rfl) hbigT,
      rndTail_spec _ (uE b) _ _ m f sA _ _ has hbe hEB' hw hbig' hsumlt, heq]

/-! ## 22. Two non-zero numbers, the aligned coefficient fits 34 digits -/

/-- in terms of the decoded operands: with `H` the operand of the larger exponent (`x` on a tie), `L` the other one and
`gap = e_H − e_L`: `C_H·10^gap` has at most 34 digits, `q_H + gap ≤ 34` — the code's `delta ≤ P34 − q2` (this includes
`delta < 0`).  Then the code works with the exact sum `C_H·10^gap ± C_L` at the exponent `e_L`; it has at most 35 digits. -/
def AlignedCond (c1 : Nat) (e1 : Int) (c2 : Nat) (e2 : Int) : Prop :=
  if e2 ≤ e1 then (ndigits c1 : Int) + e1 - e2 ≤ 34 else (ndigits c2 : Int) + e2 - e1 ≤ 34

instance (c1 : Nat) (e1 : Int) (c2 : Nat) (e2 : Int) : Decidable (AlignedCond c1 e1 c2 e2) := by
  unfold AlignedCond; infer_instance

/-- **`bid128_add`, two non-zero numbers, `AlignedCond`** (the code's branches `delta < 0`, `0 ≤ delta ≤ 33 − q2`,
`delta = 34 − q2`, completely): the exact sum / difference `C_H·10^gap ± C_L` at the smaller exponent if it has at most 34
digits (opposite signs: always; the zero difference gets the sign `−` only in `Downward`), else — a same-sign sum in
`[10^34, 2·10^34)` — rounded to 34 digits in the rounding mode at the next exponent, inexact unless the digit removed is
0, with the overflow exits (infinity or the largest finite number by mode and sign, inexact and overflow) when that
exponent exceeds the maximum: which is `addD`, datum and flags. -/
theorem add_aligned (x y : U128) (m : RoundingMode) (f : UInt32) {s1 s2 : Bool} {c1 c2 : Nat} {e1 e2 : Int}
    (hx : decode (bitsOf x) = .fin s1 c1 e1) (hy : decode (bitsOf y) = .fin s2 c2 e2) (hc1 : c1 ≠ 0) (hc2 : c2 ≠ 0)
    (h : AlignedCond c1 e1 c2 e2) :
    bid128_add x y m f =
      .ok (ofBits (encode (addD (md m) (decode (bitsOf x)) (decode (bitsOf y))).1),
           f ||| UInt32.ofNat (addD (md m) (decode (bitsOf x)) (decode (bitsOf y))).2) := by
  obtain ⟨-, -, -, hxe, hxlo, hxhi, -, -⟩ := fin_view x hx
  obtain ⟨-, -, -, hye, hylo, hyhi, -, -⟩ := fin_view y hy
  rw [hx, hy, addD_fin_fin]
  unfold AlignedCond at h
  by_cases hle : e2 ≤ e1
  · rw [if_pos hle] at h
    have hab : Ordered x y x y := Or.inl ⟨rfl, rfl, by
      rw [decide_eq_true_eq, UInt64.lt_iff_toNat_lt, hxe, hye]; omega⟩
    exact add_aligned_core x y x y m f hab hx hy hc1 hc2 h
  · rw [if_neg hle] at h
    have hab : Ordered x y y x := Or.inr ⟨rfl, rfl, by
      rw [decide_eq_true_eq, UInt64.lt_iff_toNat_lt, hxe, hye]; omega⟩
    rw [addFin_comm]
    exact add_aligned_core x y y x m f hab hy hx hc2 hc1 h

theorem aligned_of_fits {s1 s2 : Bool} {c1 c2 : Nat} {e1 e2 : Int} (h : FitsCond s1 c1 e1 s2 c2 e2) :
    AlignedCond c1 e1 c2 e2 := by
  unfold FitsCond at h
  unfold AlignedCond
  split
  · rename_i hle; rw [if_pos hle] at h; exact h.1
  · rename_i hle; rw [if_neg hle] at h; exact h.1

-- 9999999999999999999999999999999999E0 + 6E0 = 10^34 + 5: a tie, to the even 1000000000000000000000000000000000E+1, inexact
example : bid128_add ⟨0x378d8e63ffffffff, 0x3041ed09bead87c0⟩ ⟨6, 0x3040000000000000⟩ .NearestEven 0
    = .ok (ofBits (encode (.fin false (10^33) 1)), 0x20) := by
  rw [add_aligned (s1 := false) (c1 := 10^34 - 1) (e1 := 0) (s2 := false) (c2 := 6) (e2 := 0) _ _ _ _ (by decide +kernel)
    (by decide +kernel) (by decide) (by decide) (by decide +kernel)]
  decide +kernel
-- the largest finite number plus itself: overflow; TowardZero keeps the largest finite number
example : bid128_add ⟨0x378d8e63ffffffff, 0x5fffed09bead87c0⟩ ⟨0x378d8e63ffffffff, 0x5fffed09bead87c0⟩ .TowardZero 0
    = .ok (⟨0x378d8e63ffffffff, 0x5fffed09bead87c0⟩, 0x28) := by
  rw [add_aligned (s1 := false) (c1 := 10^34 - 1) (e1 := 6111) (s2 := false) (c2 := 10^34 - 1) (e2 := 6111) _ _ _ _
    (by decide +kernel) (by decide +kernel) (by decide) (by decide) (by decide +kernel)]
  decide +kernel

/-! ## 24. `y` far below `x` (`delta ≥ P34 + 1`): the code level -/

/-- the tail of the branch `delta ≥ P34 + 1`, as in the source: `(C1_hi, C1_lo)` is the first coefficient padded to 34
digits, `x_exp` its exponent word; the second operand only decides in which direction the last digit moves -/
def farTail (x_sign y_sign x_exp_ C1_hi_ C1_lo_ C2_hi C2_lo : UInt64) (q2 delta : Int32) (rnd_mode : RoundingMode)
    (pfpsf_ : UInt32) : Except String (U128 × UInt32) := do
  let mut res : U128 := (⟨(0xbaddbaddbaddbadd : UInt64), (0xbaddbaddbaddbadd : UInt64)⟩ : U128)
  let mut pfpsf : UInt32 := pfpsf_
  let mut x_exp : UInt64 := x_exp_
  let mut C1_hi : UInt64 := C1_hi_
  let mut C1_lo : UInt64 := C1_lo_
  if (← (if (((((((rnd_mode == RoundingMode.NearestEven) || (rnd_mode == RoundingMode.NearestAway))) && (delta == ((c_P34 + (1 : Int32))))) && (C1_hi == (0x314dc6448d93 : UInt64))) && (C1_lo == (0x38c15b0a00000000 : UInt64))) && (x_sign != y_sign)) then (do pure ((← (if ((← (if (decide (q2 ≤ (0x13 : Int32))) then (do pure (decide (C2_lo > (← tbl64 Dec.Gen.BID_MIDPOINT64 (UInt64.ofInt (toI ((q2 - (1 : Int32))))))))) else pure false))) then pure true else (do pure ((← (if (decide (q2 ≥ (0x14 : Int32))) then (do pure ((← (if (decide (C2_hi > (← tbl128 Dec.Gen.BID_MIDPOINT128 (UInt64.ofInt (toI ((q2 - (0x14 : Int32)))))).w1)) then pure true else (do pure ((← (if (C2_hi == (← tbl128 Dec.Gen.BID_MIDPOINT128 (UInt64.ofInt (toI ((q2 - (0x14 : Int32)))))).w1) then (do pure (decide (C2_lo > (← tbl128 Dec.Gen.BID_MIDPOINT128 (UInt64.ofInt (toI ((q2 - (0x14 : Int32)))))).w0))) else pure false)))))))) else pure false)))))))) else pure false)) then
    C1_hi := (0x1ed09bead87c0 : UInt64)
    C1_lo := (0x378d8e63ffffffff : UInt64)
    x_exp := (x_exp - c_EXP_P1)
  if (rnd_mode != RoundingMode.NearestEven) then
    if (((((rnd_mode == RoundingMode.Downward) && (x_sign != (0 : UInt64))) && (y_sign != (0 : UInt64)))) || ((((rnd_mode == RoundingMode.Upward) && (x_sign == (0 : UInt64))) && (y_sign == (0 : UInt64))))) then
      C1_lo := (C1_lo + 1)
      if (C1_lo == (0 : UInt64)) then
        C1_hi := (C1_hi + 1)
      if ((C1_hi == (0x1ed09bead87c0 : UInt64)) && (C1_lo == (0x378d8e6400000000 : UInt64))) then
        C1_hi := (0x314dc6448d93 : UInt64)
        C1_lo := (0x38c15b0a00000000 : UInt64)
        x_exp := (x_exp + c_EXP_P1)
        if (x_exp == c_EXP_MAX_P1) then
          C1_hi := (0x7800000000000000 : UInt64)
          C1_lo := (0 : UInt64)
          x_exp := (0 : UInt64)
          pfpsf := (pfpsf ||| c_StatusFlags_BID_OVERFLOW_EXCEPTION)
    else
      if ((((((rnd_mode == RoundingMode.Downward) && (x_sign == (0 : UInt64))) && (y_sign != (0 : UInt64)))) || ((((rnd_mode == RoundingMode.Upward) && (x_sign != (0 : UInt64))) && (y_sign == (0 : UInt64))))) || (((rnd_mode == RoundingMode.TowardZero) && (x_sign != y_sign)))) then
        C1_lo := (C1_lo - 1)
        if (C1_lo == (0xffffffffffffffff : UInt64)) then
          C1_hi := (C1_hi - 1)
        if ((C1_hi == (0x314dc6448d93 : UInt64)) && (C1_lo == (0x38c15b09ffffffff : UInt64))) then
          C1_hi := (0x1ed09bead87c0 : UInt64)
          C1_lo := (0x378d8e63ffffffff : UInt64)
          x_exp := (x_exp - c_EXP_P1)
      else
        pure ()
  pfpsf := (pfpsf ||| c_StatusFlags_BID_INEXACT_EXCEPTION)
  res := { res with w1 := ((x_sign ||| x_exp) ||| C1_hi) }
  res := { res with w0 := C1_lo }
  return (res, pfpsf)

/-- the padding of the first coefficient to 34 digits as the code selects it (`q1` its digit count), followed by
`K x_exp C1_hi C1_lo` -/
def padFarK {β : Type} (q1 : Int32) (ea ah al : UInt64) (K : UInt64 → UInt64 → UInt64 → Except String β) : Except String β :=
  if decide (q1 < c_P34) = true then
    (if decide (q1 ≤ 19) = true then
      (if decide (c_P34 - q1 ≤ 19) = true then (do
          let t ← tbl64 Dec.Gen.BID_TEN2K64 (UInt64.ofInt (toI (c_P34 - q1)))
          let C1 ← mul_64x64_to_128MACH t al
          K (ea - (UInt64.ofInt (toI (c_P34 - q1))) <<< 49) C1.w1 C1.w0)
        else (do
          let t ← tbl64 Dec.Gen.BID_TEN2K64 (UInt64.ofInt (toI (c_P34 - q1 - 19)))
          let t2 ← tbl64 Dec.Gen.BID_TEN2K64 (UInt64.ofInt (toI (19 : Int32)))
          let C1 ← mul_64x64_to_128MACH t2 (al * t)
          K (ea - (UInt64.ofInt (toI (c_P34 - q1))) <<< 49) C1.w1 C1.w0))
      else (do
        let t ← tbl64 Dec.Gen.BID_TEN2K64 (UInt64.ofInt (toI (c_P34 - q1)))
        let C1 ← mul_128x64_to_128 t ⟨al, ah⟩
        K (ea - (UInt64.ofInt (toI (c_P34 - q1))) <<< 49) C1.w1 C1.w0))
  else K ea ah al

theorem code_far (x y a b : U128) (m : RoundingMode) (f : UInt32)
    (hsp : ¬ ((x.w1 &&& c_MASK_SPECIAL == c_MASK_SPECIAL) || (y.w1 &&& c_MASK_SPECIAL == c_MASK_SPECIAL)) = true)
    (hx0 : ¬ (uH x == 0 && uL x == 0) = true) (hy0 : ¬ (uH y == 0 && uL y == 0) = true)
    (hab : Ordered x y a b)
    (D D1 : UInt32) (THI TLO : UInt64) (D' D1' : UInt32) (THI' TLO' : UInt64)
    (hTa : tblDD Dec.Gen.BID_NR_DIGITS (UInt64.ofInt (toI (nbOf (uH a) (uL a)))) = .ok ⟨D, THI, TLO, D1⟩)
    (hTb : tblDD Dec.Gen.BID_NR_DIGITS (UInt64.ofInt (toI (nbOf (uH b) (uL b)))) = .ok ⟨D', THI', TLO', D1'⟩)
    (hd1 : decide (deltaOf (qOf D D1 THI TLO (uH a) (uL a)) (qOf D' D1' THI' TLO' (uH b) (uL b)) (uE a) (uE b) ≥ c_P34) = true)
    (hd2 : decide (deltaOf (qOf D D1 THI TLO (uH a) (uL a)) (qOf D' D1' THI' TLO' (uH b) (uL b)) (uE a) (uE b) ≥ c_P34 + 1) = true)
    (xe hi lo : UInt64)
    (hK : ∀ K : UInt64 → UInt64 → UInt64 → Except String (U128 × UInt32),
      padFarK (qOf D D1 THI TLO (uH a) (uL a)) (uE a) (uH a) (uL a) K = K xe hi lo) :
    bid128_add x y m f =
      farTail (a.w1 &&& c_MASK_SIGN) (b.w1 &&& c_MASK_SIGN) xe hi lo (uH b) (uL b) (qOf D' D1' THI' TLO' (uH b) (uL b))
        (deltaOf (qOf D D1 THI TLO (uH a) (uL a)) (qOf D' D1' THI' TLO' (uH b) (uL b)) (uE a) (uE b)) m f := by
  add_front
  take_pos
  · rw [hq1, hq2, hea, heb]; exact hd1
  take_pos
  · rw [hq1, hq2, hea, heb]; exact hd2
  subst hsa hsb hea heb hah hbh hal hbl hq1 hq2
  extract_lets -underBinder +onlyGivenNames J
  refine Eq.trans (b := padFarK (qOf D D1 THI TLO (uH a) (uL a)) (uE a) (uH a) (uL a)
    (fun xe hi lo => J () xe hi lo default default)) ?_ ?_
  · unfold padFarK; rfl
  rw [hK]
  unfold J
  head_step
  apply Eq.symm
  unfold farTail
  head_step
  apply Eq.symm
  refine bind_congr_right _ (fun bb => ?_)
  sym_exec!
  apply Eq.symm
  sym_exec!
  rfl

/-! ## 25. The universal rounding step on a long integer -/

theorem ilog_one (N : Nat) (hN : 0 < N) : ilog10Ratio N 1 = (ndigits N : Int) - 1 := by
  have h1 := ndigits_pos hN
  have h2 := (ndigits_spec hN).1
  unfold ilog10Ratio
  rw [show ndigits 1 = 1 from by decide]
  simp only [show ((ndigits N : Int) - ((1 : Nat) : Int) ≥ 0) from by omega, if_true, Nat.one_mul]
  rw [show ((ndigits N : Int) - ((1 : Nat) : Int)).toNat = ndigits N - 1 from by omega,
    show decide (N ≥ 10 ^ (ndigits N - 1)) = true from decide_eq_true h2]
  simp

/-- **`finish` on an integer of `34 + k` digits** (`k ≥ 1`) at exponent `e`, not a multiple of `10^k`: rounded at the
exponent `e + k` -/
theorem finish_long (mode : Mode) (neg : Bool) (N : Nat) (e : Int) (k : Nat) (hN1 : 10 ^ (33 + k) ≤ N)
    (hN2 : N < 10 ^ (34 + k)) (hk : 1 ≤ k) (he : -6176 ≤ e) (hx : e + k ≤ 6112) (hr : N % 10 ^ k ≠ 0) :
    finish mode neg N 1 e e =
      if roundInt mode neg (N / 10 ^ k) (N % 10 ^ k) (10 ^ k) = P34 then
        (if e + k + 1 > eMax then (overflowResult mode neg, fOverflow ||| fInexact) else (.fin neg P33 (e + k + 1), fInexact))
      else
        (if e + k > eMax then (overflowResult mode neg, fOverflow ||| fInexact)
          else (.fin neg (roundInt mode neg (N / 10 ^ k) (N % 10 ^ k) (10 ^ k)) (e + k), fInexact)) := by
  have hN0 : 0 < N := lt_of_lt_of_le (Nat.pow_pos (by decide)) hN1
  have hnd : ndigits N = 34 + k := by
    rw [ndigits_eq_iff hN0 (by omega)]
    exact ⟨by rw [show 34 + k - 1 = 33 + k from by omega]; exact hN1, hN2⟩
  have hlg : ilog10Ratio N 1 + e = 33 + k + e := by rw [ilog_one N hN0, hnd]; omega
  have hx0 : fx0 (33 + k + e) = e + k := by
    unfold fx0 eMin; rw [if_neg (by omega)]; omega
  have hnum : fnum N (e - (e + k)) = N := by
    unfold fnum; rw [if_neg (by omega)]
  have hden : fden 1 (e - (e + k)) = 10 ^ k := by
    unfold fden; rw [if_neg (by omega), show (-(e - (e + k))).toNat = k from by omega, Nat.one_mul]
  have htiny : decide (33 + k + e - 33 < eMin) = false := decide_eq_false (by unfold eMin; omega)
  rw [finish_eq, hlg, if_neg (by omega), if_neg (by omega), hx0, hnum, hden, htiny]
  by_cases hm : roundInt mode neg (N / 10 ^ k) (N % 10 ^ k) (10 ^ k) = P34
  · rw [if_pos hm, finishAt_inexact_carry _ _ _ _ _ _ _ hr hm]
    rfl
  · rw [if_neg hm, finishAt_inexact _ _ _ _ _ _ _ hr hm]
    rfl

theorem divmod_add (X k c : Nat) (hc : c < 10 ^ k) : (X * 10 ^ k + c) / 10 ^ k = X ∧ (X * 10 ^ k + c) % 10 ^ k = c := by
  have hp : 0 < 10 ^ k := Nat.pow_pos (by decide)
  constructor
  · rw [Nat.add_comm, Nat.add_mul_div_right _ _ hp, Nat.div_eq_of_lt hc, Nat.zero_add]
  · rw [Nat.add_comm, Nat.add_mul_mod_self_right, Nat.mod_eq_of_lt hc]

theorem divmod_sub (X k c : Nat) (hX : 1 ≤ X) (hc0 : 0 < c) (hc : c < 10 ^ k) :
    (X * 10 ^ k - c) / 10 ^ k = X - 1 ∧ (X * 10 ^ k - c) % 10 ^ k = 10 ^ k - c := by
  have e : X * 10 ^ k - c = (X - 1) * 10 ^ k + (10 ^ k - c) := by
    have : X * 10 ^ k = (X - 1) * 10 ^ k + 10 ^ k := by
      rw [← Nat.succ_mul]; congr 1; omega
    omega
  rw [e]
  exact divmod_add (X - 1) k (10 ^ k - c) (by omega)

/-- the model's result when `y` is far below `x`: `X` the first coefficient padded to 34 digits, `E` its exponent;
`sp`: `y` is above half a unit of the last place BELOW a power of ten (used for `X = 10^33`, opposite signs only) -/
def farOut (mode : Mode) (sA sB : Bool) (X : Nat) (E : Int) (sp : Bool) : Datum × Flags :=
  if sA = sB then
    if (mode = .rdn ∧ sA = true) ∨ (mode = .rup ∧ sA = false) then
      (if X + 1 = 10^34 then
        (if E + 1 > eMax then (overflowResult mode sA, fOverflow ||| fInexact) else (.fin sA (10^33) (E + 1), fInexact))
      else (.fin sA (X + 1) E, fInexact))
    else (.fin sA X E, fInexact)
  else
    if mode = .rtz ∨ (mode = .rdn ∧ sA = false) ∨ (mode = .rup ∧ sA = true) then
      (if X = 10^33 then (.fin sA (10^34 - 1) (E - 1), fInexact) else (.fin sA (X - 1) E, fInexact))
    else if (mode = .rne ∨ mode = .rna) ∧ X = 10^33 ∧ sp = true then (.fin sA (10^34 - 1) (E - 1), fInexact)
    else (.fin sA X E, fInexact)

theorem ri_same_stay (mode : Mode) (sA : Bool) (X c D : Nat) (hc0 : 0 < c) (hck : c * 10 < D)
    (h : ¬ ((mode = .rdn ∧ sA = true) ∨ (mode = .rup ∧ sA = false))) : roundInt mode sA X c D = X := by
  unfold roundInt roundUp
  rw [if_neg (show ¬ c = 0 by omega)]
  cases mode <;> cases sA <;> simp at h ⊢ <;> omega
theorem ri_same_up (mode : Mode) (sA : Bool) (X c D : Nat) (hc0 : 0 < c)
    (h : (mode = .rdn ∧ sA = true) ∨ (mode = .rup ∧ sA = false)) : roundInt mode sA X c D = X + 1 := by
  unfold roundInt roundUp
  rw [if_neg (show ¬ c = 0 by omega)]
  rcases h with ⟨rfl, rfl⟩ | ⟨rfl, rfl⟩ <;> simp
theorem ri_opp_down (mode : Mode) (sA : Bool) (q c D : Nat) (hc : c < D)
    (h : mode = .rtz ∨ (mode = .rdn ∧ sA = false) ∨ (mode = .rup ∧ sA = true)) : roundInt mode sA q (D - c) D = q := by
  unfold roundInt roundUp
  rw [if_neg (show ¬ D - c = 0 by omega)]
  rcases h with rfl | ⟨rfl, rfl⟩ | ⟨rfl, rfl⟩ <;> simp
theorem ri_opp_up (mode : Mode) (sA : Bool) (q c D : Nat) (hc0 : 0 < c) (hck : c * 10 < D)
    (h : ¬ (mode = .rtz ∨ (mode = .rdn ∧ sA = false) ∨ (mode = .rup ∧ sA = true))) :
    roundInt mode sA q (D - c) D = q + 1 := by
  unfold roundInt roundUp
  rw [if_neg (show ¬ D - c = 0 by omega)]
  cases mode <;> cases sA <;> simp at h ⊢ <;> omega
theorem ri_opp10 (mode : Mode) (sA : Bool) (q c D : Nat) (hq : q % 2 = 1) (hc0 : 0 < c) (hc : c < D)
    (h : ¬ (mode = .rtz ∨ (mode = .rdn ∧ sA = false) ∨ (mode = .rup ∧ sA = true))) :
    roundInt mode sA q (D - c) D = if (mode = .rne ∨ mode = .rna) ∧ 2 * c > D then q else q + 1 := by
  unfold roundInt roundUp
  rw [if_neg (show ¬ D - c = 0 by omega)]
  cases mode <;> cases sA <;> simp [hq] at h ⊢ <;> split_ifs <;> omega

theorem finish_far_same (mode : Mode) (sA : Bool) (X c k : Nat) (eB : Int) (hX1 : 10^33 ≤ X) (hX2 : X < 10^34)
    (hc0 : 0 < c) (hck : c * 10 < 10 ^ k) (hk : 2 ≤ k) (he : -6176 ≤ eB) (hE : eB + k ≤ 6111) (sp : Bool) :
    finish mode sA (X * 10 ^ k + c) 1 eB eB = farOut mode sA sA X (eB + k) sp := by
  have hp : 0 < 10 ^ k := Nat.pow_pos (by decide)
  have hc : c < 10 ^ k := by omega
  obtain ⟨hd, hm⟩ := divmod_add X k c hc
  have hN1 : 10 ^ (33 + k) ≤ X * 10 ^ k + c := by
    rw [Nat.pow_add]; exact le_trans (Nat.mul_le_mul_right _ hX1) (Nat.le_add_right _ _)
  have hN2 : X * 10 ^ k + c < 10 ^ (34 + k) := by
    rw [Nat.pow_add]
    have : (X + 1) * 10 ^ k ≤ 10 ^ 34 * 10 ^ k := Nat.mul_le_mul_right _ (by omega)
    rw [Nat.succ_mul] at this
    omega
  rw [finish_long mode sA _ eB k hN1 hN2 (by omega) he (by omega) (by rw [hm]; omega), hd, hm]
  unfold farOut
  rw [if_pos (rfl : sA = sA)]
  by_cases h : (mode = .rdn ∧ sA = true) ∨ (mode = .rup ∧ sA = false)
  · rw [if_pos h, ri_same_up mode sA X c _ hc0 h]
    by_cases hX : X + 1 = 10^34
    · rw [if_pos (show X + 1 = P34 from hX), if_pos hX]; rfl
    · rw [if_neg (show ¬ X + 1 = P34 from hX), if_neg hX, if_neg (show ¬ eB + k > eMax by unfold eMax; omega)]
  · rw [if_neg h, ri_same_stay mode sA X c _ hc0 hck h, if_neg (show ¬ X = P34 by unfold P34; omega),
      if_neg (show ¬ eB + k > eMax by unfold eMax; omega)]

theorem finish_far_opp (mode : Mode) (sA sB : Bool) (hs : ¬ sA = sB) (X c k : Nat) (eB : Int) (hX1 : 10^33 < X)
    (hX2 : X < 10^34) (hc0 : 0 < c) (hck : c * 10 < 10 ^ k) (hk : 2 ≤ k) (he : -6176 ≤ eB) (hE : eB + k ≤ 6111)
    (sp : Bool) :
    finish mode sA (X * 10 ^ k - c) 1 eB eB = farOut mode sA sB X (eB + k) sp := by
  have hp : 0 < 10 ^ k := Nat.pow_pos (by decide)
  have hc : c < 10 ^ k := by omega
  obtain ⟨hd, hm⟩ := divmod_sub X k c (by omega) hc0 hc
  have e : X * 10 ^ k - c = (X - 1) * 10 ^ k + (10 ^ k - c) := by
    have : X * 10 ^ k = (X - 1) * 10 ^ k + 10 ^ k := by
      rw [← Nat.succ_mul]; congr 1; omega
    omega
  have hN1 : 10 ^ (33 + k) ≤ X * 10 ^ k - c := by
    rw [e, Nat.pow_add]; exact le_trans (Nat.mul_le_mul_right _ (by omega)) (Nat.le_add_right _ _)
  have hN2 : X * 10 ^ k - c < 10 ^ (34 + k) := by
    rw [Nat.pow_add]
    have : X * 10 ^ k ≤ 10 ^ 34 * 10 ^ k := Nat.mul_le_mul_right _ (by omega)
    omega
  rw [finish_long mode sA _ eB k hN1 hN2 (by omega) he (by omega) (by rw [hm]; omega), hd, hm]
  unfold farOut
  rw [if_neg hs]
  by_cases h : mode = .rtz ∨ (mode = .rdn ∧ sA = false) ∨ (mode = .rup ∧ sA = true)
  · rw [if_pos h, ri_opp_down mode sA _ c _ hc h, if_neg (show ¬ X - 1 = P34 by unfold P34; omega),
      if_neg (show ¬ eB + k > eMax by unfold eMax; omega), if_neg (show ¬ X = 10^33 by omega)]
  · rw [if_neg h, ri_opp_up mode sA _ c _ hc0 hck h, show X - 1 + 1 = X from by omega,
      if_neg (show ¬ X = P34 by unfold P34; omega), if_neg (show ¬ eB + k > eMax by unfold eMax; omega),
      if_neg (show ¬ ((mode = .rne ∨ mode = .rna) ∧ X = 10^33 ∧ sp = true) from fun h' => by omega)]

theorem finish_far_opp10 (mode : Mode) (sA sB : Bool) (hs : ¬ sA = sB) (c k : Nat) (eB : Int)
    (hc0 : 0 < c) (hck : c * 10 < 10 ^ k) (hk : 2 ≤ k) (he : -6176 ≤ eB) (hE : eB + k ≤ 6111) :
    finish mode sA (10^33 * 10 ^ k - c) 1 eB eB = farOut mode sA sB (10^33) (eB + k) (decide (2 * c > 10 ^ (k - 1))) := by
  obtain ⟨k', rfl⟩ : ∃ k', k = k' + 1 := ⟨k - 1, by omega⟩
  have hp : 0 < 10 ^ k' := Nat.pow_pos (by decide)
  have hc : c < 10 ^ k' := by rw [Nat.pow_succ] at hck; omega
  have eN : 10^33 * 10 ^ (k' + 1) - c = 10^34 * 10 ^ k' - c := by
    have : (10:Nat)^33 * 10 ^ (k' + 1) = 10^34 * 10 ^ k' := by
      rw [← Nat.pow_add, ← Nat.pow_add]; congr 1; omega
    rw [this]
  obtain ⟨hd, hm⟩ := divmod_sub (10^34) k' c (by decide) hc0 hc
  have e : 10^34 * 10 ^ k' - c = (10^34 - 1) * 10 ^ k' + (10 ^ k' - c) := by
    have : 10^34 * 10 ^ k' = (10^34 - 1) * 10 ^ k' + 10 ^ k' := by
      rw [← Nat.succ_mul]; rfl
    omega
  have hN1 : 10 ^ (33 + k') ≤ 10^34 * 10 ^ k' - c := by
    rw [e, Nat.pow_add]; exact le_trans (Nat.mul_le_mul_right _ (by decide)) (Nat.le_add_right _ _)
  have hN2 : 10^34 * 10 ^ k' - c < 10 ^ (34 + k') := by
    rw [Nat.pow_add]; omega
  rw [eN, finish_long mode sA _ eB k' hN1 hN2 (by omega) he (by omega) (by rw [hm]; omega), hd, hm]
  have hcast : eB + ((k' + 1 : Nat) : Int) - 1 = eB + k' := by omega
  have hcast2 : eB + (k' : Int) + 1 = eB + ((k' + 1 : Nat) : Int) := by omega
  unfold farOut
  rw [if_neg hs, show k' + 1 - 1 = k' from rfl]
  by_cases h : mode = .rtz ∨ (mode = .rdn ∧ sA = false) ∨ (mode = .rup ∧ sA = true)
  · rw [if_pos h, ri_opp_down mode sA _ c _ hc h, if_neg (show ¬ 10^34 - 1 = P34 by decide),
      if_neg (show ¬ eB + k' > eMax by unfold eMax; omega), if_pos rfl, hcast]
  · rw [if_neg h, ri_opp10 mode sA _ c _ (by decide) hc0 hc h]
    by_cases hsp : (mode = .rne ∨ mode = .rna) ∧ 2 * c > 10 ^ k'
    · rw [if_pos hsp, if_neg (show ¬ 10^34 - 1 = P34 by decide), if_neg (show ¬ eB + k' > eMax by unfold eMax; omega),
        if_pos ⟨hsp.1, rfl, decide_eq_true hsp.2⟩, hcast]
    · rw [if_neg hsp, if_pos (show 10^34 - 1 + 1 = P34 by decide), if_neg (show ¬ eB + k' + 1 > eMax by unfold eMax; omega),
        if_neg (show ¬ ((mode = .rne ∨ mode = .rna) ∧ (10:Nat)^33 = 10^33 ∧ decide (2 * c > 10 ^ k') = true) from
          fun h' => hsp ⟨h'.1, of_decide_eq_true h'.2.2⟩), hcast2]
      rfl

/-- the model's sum when the first (aligned) magnitude exceeds the second: the sign is the first operand's -/
theorem addFin_big (mode : Mode) (sA : Bool) (cA : Nat) (eA : Int) (sB : Bool) (cB : Nat) (eB : Int) (hle : eB ≤ eA)
    (hgt : cB < cA * 10 ^ (eA - eB).toNat) :
    addFin mode sA cA eA sB cB eB (if eA ≤ eB then eA else eB) =
      finish mode sA (if sA = sB then cA * 10 ^ (eA - eB).toNat + cB else cA * 10 ^ (eA - eB).toNat - cB) 1 eB eB := by
  have hm : (if eA ≤ eB then eA else eB) = eB := by split <;> omega
  rw [hm]
  unfold addFin
  simp only [hm, Int.sub_self, Int.toNat_zero, Nat.pow_zero, Nat.mul_one]
  generalize cA * 10 ^ (eA - eB).toNat = A at *
  cases sA <;> cases sB <;> simp only [sInt, Bool.false_eq_true, if_false, if_true, reduceCtorEq]
  · rw [if_neg (show ¬ ((A : Int) + cB = 0) by omega), show decide ((A : Int) + cB < 0) = false from decide_eq_false (by omega),
      show ((A : Int) + cB).natAbs = A + cB from by omega]
  · rw [if_neg (show ¬ ((A : Int) + -cB = 0) by omega), show decide ((A : Int) + -cB < 0) = false from decide_eq_false (by omega),
      show ((A : Int) + -cB).natAbs = A - cB from by omega]
  · rw [if_neg (show ¬ (-(A : Int) + cB = 0) by omega), show decide (-(A : Int) + cB < 0) = true from decide_eq_true (by omega),
      show (-(A : Int) + cB).natAbs = A - cB from by omega]
  · rw [if_neg (show ¬ (-(A : Int) + -cB = 0) by omega), show decide (-(A : Int) + -cB < 0) = true from decide_eq_true (by omega),
      show (-(A : Int) + -cB).natAbs = A + cB from by omega]

theorem midpoint64_all : (List.range 19).all (fun j =>
    match tbl64 Dec.Gen.BID_MIDPOINT64 (UInt64.ofNat j) with
    | .ok v => decide (v.toNat = 5 * 10^j)
    | .error _ => false) = true := by
  decide +kernel
theorem midpoint128_all : (List.range 19).all (fun j =>
    match tbl128 Dec.Gen.BID_MIDPOINT128 (UInt64.ofNat j) with
    | .ok v => decide (v.w1.toNat * 2^64 + v.w0.toNat = 5 * 10^(j+19))
    | .error _ => false) = true := by
  decide +kernel
theorem midpoint64_get (j : Nat) (hj : j < 19) :
    ∃ v, tbl64 Dec.Gen.BID_MIDPOINT64 (UInt64.ofNat j) = .ok v ∧ v.toNat = 5 * 10^j := by
  have h := List.all_eq_true.1 midpoint64_all j (List.mem_range.2 hj)
  cases ht : tbl64 Dec.Gen.BID_MIDPOINT64 (UInt64.ofNat j) with
  | error e => rw [ht] at h; exact absurd h (by simp)
  | ok v => rw [ht] at h; exact ⟨v, rfl, by simpa using h⟩
theorem midpoint128_get (j : Nat) (hj : j < 19) :
    ∃ v, tbl128 Dec.Gen.BID_MIDPOINT128 (UInt64.ofNat j) = .ok v ∧ v.w1.toNat * 2^64 + v.w0.toNat = 5 * 10^(j+19) := by
  have h := List.all_eq_true.1 midpoint128_all j (List.mem_range.2 hj)
  cases ht : tbl128 Dec.Gen.BID_MIDPOINT128 (UInt64.ofNat j) with
  | error e => rw [ht] at h; exact absurd h (by simp)
  | ok v => rw [ht] at h; exact ⟨v, rfl, by simpa using h⟩

/-! ## 26. The tail of the branch `delta ≥ P34 + 1` is the model's rounding step -/

/-- the code's "away from zero" and "toward zero" conditions of this branch, in terms of the signs and the mode -/
theorem far_conds (m : RoundingMode) (sa sb : UInt64) (sA sB : Bool)
    (hsa : sa.toNat = if sA then 2^63 else 0) (hsb : sb.toNat = if sB then 2^63 else 0) :
    (m == RoundingMode.Downward && sa != 0 && sb != 0 || m == RoundingMode.Upward && sa == 0 && sb == 0)
      = decide (sA = sB ∧ ((md m = .rdn ∧ sA = true) ∨ (md m = .rup ∧ sA = false))) ∧
    (m == RoundingMode.Downward && sa == 0 && sb != 0 || m == RoundingMode.Upward && sa != 0 && sb == 0 ||
        m == RoundingMode.TowardZero && sa != sb)
      = decide (¬ sA = sB ∧ (md m = .rtz ∨ (md m = .rdn ∧ sA = false) ∨ (md m = .rup ∧ sA = true))) ∧
    (sa != sb) = decide (¬ sA = sB) ∧
    (m != RoundingMode.NearestEven) = decide (¬ md m = .rne) ∧
    (m == RoundingMode.NearestEven || m == RoundingMode.NearestAway) = decide (md m = .rne ∨ md m = .rna) := by
  rw [word_of_sign sa sA hsa, word_of_sign sb sB hsb]
  cases m <;> cases sA <;> cases sB <;> decide

theorem beq_i32' (a b : Int32) : (a == b) = decide (a.toInt = b.toInt) := by
  rw [Bool.eq_iff_iff, beq_iff_eq, decide_eq_true_eq, Int32.toInt_inj]

theorem gt_chain (a b c : Bool) :
    (if false = true then true else if a = true then true else if b = true then c else false) = (a || b && c) := by
  cases a <;> cases b <;> cases c <;> rfl

theorem expM1 (xe : UInt64) (XE : Nat) (hxe : xe.toNat = XE * 2^49) (h1 : 1 ≤ XE) :
    (xe - c_EXP_P1).toNat = (XE - 1) * 2^49 := by
  rw [UInt64.toNat_sub_of_le _ _ (by rw [UInt64.le_iff_toNat_le, hxe, show c_EXP_P1.toNat = 2^49 from rfl]; omega), hxe,
    show c_EXP_P1.toNat = 2^49 from rfl]
  omega

theorem flags_oi (f : UInt32) :
    f ||| c_StatusFlags_BID_OVERFLOW_EXCEPTION ||| c_StatusFlags_BID_INEXACT_EXCEPTION = f ||| UInt32.ofNat (fOverflow ||| fInexact) := by
  rw [UInt32.or_assoc]; rfl

theorem farOut_none (mode : Mode) (sA sB : Bool) (X : Nat) (E : Int) (sp : Bool)
    (hup : ¬ (sA = sB ∧ ((mode = .rdn ∧ sA = true) ∨ (mode = .rup ∧ sA = false))))
    (hdn : ¬ (¬ sA = sB ∧ (mode = .rtz ∨ (mode = .rdn ∧ sA = false) ∨ (mode = .rup ∧ sA = true)))) :
    farOut mode sA sB X E sp =
      if ¬ sA = sB ∧ (mode = .rne ∨ mode = .rna) ∧ X = 10^33 ∧ sp = true then (.fin sA (10^34 - 1) (E - 1), fInexact)
      else (.fin sA X E, fInexact) := by
  unfold farOut
  by_cases hs : sA = sB
  · rw [if_pos hs, if_neg (fun h => hup ⟨hs, h⟩), if_neg (fun h => h.1 hs)]
  · rw [if_neg hs, if_neg (fun h => hdn ⟨hs, h⟩)]
    by_cases h : (mode = .rne ∨ mode = .rna) ∧ X = 10^33 ∧ sp = true
    · rw [if_pos h, if_pos ⟨hs, h⟩]
    · rw [if_neg h, if_neg (fun h' => h h'.2)]

theorem far_asm (sa xe' hi' lo' : UInt64) (f : UInt32) (sA : Bool) (M E : Nat)
    (hsa : sa.toNat = if sA then 2^63 else 0) (hxe' : xe'.toNat = E * 2^49) (hE : E < 2^14)
    (hM : hi'.toNat * 2^64 + lo'.toNat = M) (hM34 : M < 10^34) :
    (Except.ok (⟨lo', sa ||| xe' ||| hi'⟩, f ||| c_StatusFlags_BID_INEXACT_EXCEPTION) : Except String (U128 × UInt32))
      = .ok (ofBits (encode (.fin sA M ((E : Int) - 6176))), f ||| UInt32.ofNat fInexact) := by
  rw [or3, encode_at]
  exact congrArg Except.ok (Prod.ext (assemble' lo' hi' sa xe' sA M E hM (lt113 hM34) hsa hxe' hE) rfl)

theorem farTail_spec (sa sb xe hi lo bh bl : UInt64) (q2 dl : Int32) (m : RoundingMode) (f : UInt32) (sA sB : Bool)
    (X cB QB XE : Nat) (Δ : Int)
    (hsa : sa.toNat = if sA then 2^63 else 0) (hsb : sb.toNat = if sB then 2^63 else 0)
    (hxe : xe.toNat = XE * 2^49) (hXE1 : 1 ≤ XE) (hXE2 : XE ≤ 12287)
    (hX : hi.toNat * 2^64 + lo.toNat = X) (hX1 : 10^33 ≤ X) (hX2 : X < 10^34)
    (hB : bh.toNat * 2^64 + bl.toNat = cB) (hq2 : q2.toInt = QB) (hQB : QB = ndigits cB) (hQB1 : 1 ≤ QB) (hQB2 : QB ≤ 34)
    (hdl : dl.toInt = Δ) :
    farTail sa sb xe hi lo bh bl q2 dl m f =
      .ok (ofBits (encode (farOut (md m) sA sB X ((XE : Int) - 6176) (decide (Δ = 35 ∧ 5 * 10 ^ (QB - 1) < cB))).1),
        f ||| UInt32.ofNat (farOut (md m) sA sB X ((XE : Int) - 6176) (decide (Δ = 35 ∧ 5 * 10 ^ (QB - 1) < cB))).2) := by
  obtain ⟨cUp, cDn, cOpp, cNE, cRN⟩ := far_conds m sa sb sA sB hsa hsb
  unfold farTail
  head_step
  -- the special case below a power of ten
  refine Eq.trans (bind_ok_step (v := decide (((md m = .rne ∨ md m = .rna) ∧ Δ = 35 ∧ X = 10^33 ∧ ¬ sA = sB) ∧
    5 * 10 ^ (QB - 1) < cB)) ?_ _) ?_
  · have hpre : ((m == RoundingMode.NearestEven || m == RoundingMode.NearestAway) && dl == c_P34 + 1 && hi == 54210108624275 &&
          lo == 4089650035136921600 && sa != sb)
        = decide ((md m = .rne ∨ md m = .rna) ∧ Δ = 35 ∧ X = 10^33 ∧ ¬ sA = sB) := by
      rw [Bool.and_assoc (_ && _) (hi == _), eq_words, hX, cRN, cOpp, beq_i32', hdl, show (c_P34 + 1).toInt = 35 from by decide,
        show (54210108624275 : UInt64).toNat * 2^64 + (4089650035136921600 : UInt64).toNat = 10^33 from by decide,
        Bool.eq_iff_iff]
      simp only [Bool.and_eq_true, decide_eq_true_eq]
      tauto
    by_cases hp : (md m = .rne ∨ md m = .rna) ∧ Δ = 35 ∧ X = 10^33 ∧ ¬ sA = sB
    · have hpre' := hpre.trans (decide_eq_true hp)
      by_cases hq : QB ≤ 19
      · have hq19 : decide (q2 ≤ 19) = true := by rw [i32_le_lit, hq2]; exact decide_eq_true (by simpa using hq)
        have hq20 : ¬ decide (q2 ≥ 20) = true := by
          rw [i32_ge, hq2, show (20 : Int32).toInt = 20 from by decide]; simp only [decide_eq_true_eq]; omega
        obtain ⟨v, hv, hv5⟩ := midpoint64_get (QB - 1) (by omega)
        have hidx : (q2 - 1).toInt = ((QB - 1 : Nat) : Int) := by
          rw [Int32.toInt_sub, hq2, show (1 : Int32).toInt = 1 from by decide, C13GenNoncomp.bmod32 _ (by omega) (by omega)]
          omega
        rw [← idx_i32 (q2 - 1) (QB - 1) hidx] at hv
        sym_exec
        refine congrArg Except.ok ?_
        have hcs : cB < 10^19 := by
          have h1 : cB < 10 ^ QB := by rw [hQB]; exact lt_pow_ndigits cB
          exact lt_of_lt_of_le h1 (Nat.pow_le_pow_right (by decide) hq)
        have hbl : bl.toNat = cB := by
          have := bl.toNat_lt
          have : (10:Nat)^19 < 2^64 := by decide
          omega
        rw [Bool.eq_iff_iff]
        simp only [decide_eq_true_eq, gt_iff_lt, UInt64.lt_iff_toNat_lt, hv5, hbl, Bool.if_true_left, Bool.or_false]
        tauto
      · have hq19 : ¬ decide (q2 ≤ 19) = true := by rw [i32_le_lit, hq2]; simpa using hq
        have hq20 : decide (q2 ≥ 20) = true := by
          rw [i32_ge, hq2, show (20 : Int32).toInt = 20 from by decide]; exact decide_eq_true (by omega)
        obtain ⟨w, hw, hw5⟩ := midpoint128_get (QB - 20) (by omega)
        have hidx : (q2 - 20).toInt = ((QB - 20 : Nat) : Int) := by
          rw [Int32.toInt_sub, hq2, show (20 : Int32).toInt = 20 from by decide, C13GenNoncomp.bmod32 _ (by omega) (by omega)]
          omega
        rw [← idx_i32 (q2 - 20) (QB - 20) hidx] at hw
        sym_exec
        refine congrArg Except.ok ?_
        have hg := C13GenNoncomp.gt128 bh bl w.w1 w.w0
        rw [hB, hw5, show QB - 20 + 19 = QB - 1 from by omega] at hg
        rw [gt_chain, hg, decide_eq_decide]
        exact ⟨fun h => ⟨hp, h⟩, fun h => h.2⟩
    · have hpre' : ¬ ((m == RoundingMode.NearestEven || m == RoundingMode.NearestAway) && dl == c_P34 + 1 && hi == 54210108624275 &&
          lo == 4089650035136921600 && sa != sb) = true := by rw [hpre]; simpa using hp
      sym_exec
      refine congrArg Except.ok ?_
      exact (decide_eq_false (fun h => hp h.1)).symm
  generalize hspc : decide (((md m = .rne ∨ md m = .rna) ∧ Δ = 35 ∧ X = 10^33 ∧ ¬ sA = sB) ∧ 5 * 10 ^ (QB - 1) < cB) = spc
  head_step
  sym_exec
  gen_args _ xe1 hi1 lo1
  head_step
  -- the words after the special case
  have hM1 : hi1.toNat * 2^64 + lo1.toNat = if spc = true then 10^34 - 1 else X := by
    rw [hhi1, hlo1]; cases spc
    · exact hX
    · show (542101086242752 : UInt64).toNat * 2^64 + (4003012203950112767 : UInt64).toNat = 10^34 - 1
      decide
  have hE1 : xe1.toNat = (if spc = true then XE - 1 else XE) * 2^49 := by
    rw [hxe1]; cases spc
    · exact hxe
    · exact expM1 xe XE hxe hXE1
  have hspcI : spc = true → (md m = .rne ∨ md m = .rna) ∧ Δ = 35 ∧ X = 10^33 ∧ ¬ sA = sB ∧ 5 * 10 ^ (QB - 1) < cB := by
    intro h; rw [← hspc] at h; have := of_decide_eq_true h; tauto
  -- the datum when no unit is added or removed
  have hbase : (Except.ok (⟨lo1, sa ||| xe1 ||| hi1⟩, f ||| c_StatusFlags_BID_INEXACT_EXCEPTION) : Except String (U128 × UInt32))
      = .ok (ofBits (encode (.fin sA (if spc = true then 10^34 - 1 else X) (((if spc = true then XE - 1 else XE : Nat) : Int) - 6176))),
          f ||| UInt32.ofNat fInexact) :=
    far_asm sa xe1 hi1 lo1 f sA _ _ hsa hE1 (by split <;> omega) hM1 (by split <;> omega)
  -- … which is the model's datum whenever the mode does not move the last digit
  have hnone : (Except.ok (ofBits (encode (.fin sA (if spc = true then 10^34 - 1 else X)
        (((if spc = true then XE - 1 else XE : Nat) : Int) - 6176))), f ||| UInt32.ofNat fInexact) : Except String (U128 × UInt32))
      = .ok (ofBits (encode (if ¬ sA = sB ∧ (md m = .rne ∨ md m = .rna) ∧ X = 10^33 ∧
              decide (Δ = 35 ∧ 5 * 10 ^ (QB - 1) < cB) = true then ((.fin sA (10^34 - 1) ((XE : Int) - 6176 - 1), fInexact) : Datum × Flags)
            else (.fin sA X ((XE : Int) - 6176), fInexact)).1),
          f ||| UInt32.ofNat (if ¬ sA = sB ∧ (md m = .rne ∨ md m = .rna) ∧ X = 10^33 ∧
              decide (Δ = 35 ∧ 5 * 10 ^ (QB - 1) < cB) = true then ((.fin sA (10^34 - 1) ((XE : Int) - 6176 - 1), fInexact) : Datum × Flags)
            else (.fin sA X ((XE : Int) - 6176), fInexact)).2) := by
    cases hc : spc
    · have : ¬ (¬ sA = sB ∧ (md m = .rne ∨ md m = .rna) ∧ X = 10^33 ∧ decide (Δ = 35 ∧ 5 * 10 ^ (QB - 1) < cB) = true) := by
        intro h
        rw [← hspc] at hc
        have := of_decide_eq_false hc
        apply this
        have h4 := of_decide_eq_true h.2.2.2
        exact ⟨⟨h.2.1, h4.1, h.2.2.1, h.1⟩, h4.2⟩
      rw [if_neg this]
      rfl
    · obtain ⟨h1, h2, h3, h4, h5⟩ := hspcI hc
      have hcond : ¬ sA = sB ∧ (md m = .rne ∨ md m = .rna) ∧ X = 10^33 ∧ decide (Δ = 35 ∧ 5 * 10 ^ (QB - 1) < cB) = true :=
        ⟨h4, h1, h3, decide_eq_true ⟨h2, h5⟩⟩
      rw [if_pos hcond]
      show Except.ok (ofBits (encode (.fin sA (10^34 - 1) (((XE - 1 : Nat) : Int) - 6176))), _) = _
      rw [show ((XE - 1 : Nat) : Int) - 6176 = (XE : Int) - 6176 - 1 from by omega]
  by_cases hm : (m != RoundingMode.NearestEven) = true
  · take_pos
    · exact hm
    have hnrne : ¬ md m = .rne := by rw [cNE] at hm; simpa using hm
    head_step
    by_cases hup : sA = sB ∧ ((md m = .rdn ∧ sA = true) ∨ (md m = .rup ∧ sA = false))
    · take_pos
      · rw [cUp]; exact decide_eq_true hup
      have hspcF : spc = false := by
        cases hc : spc
        · rfl
        · exact absurd hup.1 (hspcI hc).2.2.2.1
      rw [hspcF] at hhi1 hlo1 hxe1 hM1 hE1
      replace hM1 : hi1.toNat * 2^64 + lo1.toNat = X := hM1
      replace hE1 : xe1.toNat = XE * 2^49 := hE1
      have hv := inc_words hi1 lo1 (by rw [hM1]; exact lt_trans (by omega : X + 1 < 10^34 + 1) (by decide))
      rw [hM1] at hv
      head_step
      sym_exec
      gen_args _ hiC
      head_step
      unfold farOut
      rw [if_pos hup.1, if_pos hup.2]
      by_cases hX34 : X + 1 = 10^34
      · take_pos
        · rw [hhiC, eq_words, hv, show (542101086242752 : UInt64).toNat * 2^64 + (4003012203950112768 : UInt64).toNat = 10^34 from by decide]
          exact decide_eq_true hX34
        rw [if_pos hX34]
        head_step
        have hye := expP1 xe1 XE hE1 hXE2
        by_cases hov : XE + 1 = 12288
        · take_pos
          · rw [beq_iff_eq, ← UInt64.toNat_inj, hye, hov]; rfl
          sym_exec!
          rw [if_pos (show (XE : Int) - 6176 + 1 > eMax by unfold eMax; omega)]
          have hovr : overflowResult (md m) sA = .inf sA := by
            rcases hup.2 with ⟨h1, h2⟩ | ⟨h1, h2⟩ <;> rw [h1, h2] <;> rfl
          rw [hovr]
          exact congrArg Except.ok (Prod.ext (inf_word sa sA hsa) (flags_oi f))
        · take_neg
          · rw [beq_iff_eq, ← UInt64.toNat_inj, hye]
            show ¬ (XE + 1) * 2^49 = 12288 * 2^49
            omega
          sym_exec!
          rw [if_neg (show ¬ (XE : Int) - 6176 + 1 > eMax by unfold eMax; omega)]
          refine Eq.trans (far_asm sa (xe1 + c_EXP_P1) 54210108624275 4089650035136921600 f sA (10^33) (XE + 1) hsa hye (by omega)
            (by decide) (by decide)) ?_
          rw [show ((XE + 1 : Nat) : Int) - 6176 = (XE : Int) - 6176 + 1 from by omega]
      · take_neg
        · rw [hhiC, eq_words, hv, show (542101086242752 : UInt64).toNat * 2^64 + (4003012203950112768 : UInt64).toNat = 10^34 from by decide]
          simpa using hX34
        rw [if_neg hX34]
        sym_exec!
        exact far_asm sa xe1 hiC (lo1 + 1) f sA (X + 1) XE hsa hE1 (by omega) (by rw [hhiC]; exact hv) (by omega)
    · take_neg
      · rw [cUp]; simpa using hup
      head_step
      by_cases hdn : ¬ sA = sB ∧ (md m = .rtz ∨ (md m = .rdn ∧ sA = false) ∨ (md m = .rup ∧ sA = true))
      · take_pos
        · rw [cDn]; exact decide_eq_true hdn
        have hspcF : spc = false := by
          cases hc : spc
          · rfl
          · obtain ⟨h1, -⟩ := hspcI hc
            rcases hdn.2 with h | ⟨h, -⟩ | ⟨h, -⟩ <;> rcases h1 with h1 | h1 <;> rw [h] at h1 <;> exact absurd h1 (by decide)
        rw [hspcF] at hhi1 hlo1 hxe1 hM1 hE1
        replace hM1 : hi1.toNat * 2^64 + lo1.toNat = X := hM1
        replace hE1 : xe1.toNat = XE * 2^49 := hE1
        have hv := dec_words hi1 lo1 (by rw [hM1]; omega)
        rw [hM1] at hv
        head_step
        sym_exec
        gen_args _ hiC
        head_step
        unfold farOut
        rw [if_neg hdn.1, if_pos hdn.2]
        by_cases hX33 : X = 10^33
        · take_pos
          · rw [hhiC, eq_words, hv, show (54210108624275 : UInt64).toNat * 2^64 + (4089650035136921599 : UInt64).toNat = 10^33 - 1 from by decide]
            exact decide_eq_true (by omega)
          rw [if_pos hX33]
          sym_exec!
          refine Eq.trans (far_asm sa (xe1 - c_EXP_P1) 542101086242752 4003012203950112767 f sA (10^34 - 1) (XE - 1) hsa
            (expM1 xe1 XE hE1 hXE1) (by omega) (by decide) (by decide)) ?_
          rw [show ((XE - 1 : Nat) : Int) - 6176 = (XE : Int) - 6176 - 1 from by omega]
        · take_neg
          · rw [hhiC, eq_words, hv, show (54210108624275 : UInt64).toNat * 2^64 + (4089650035136921599 : UInt64).toNat = 10^33 - 1 from by decide]
            simp only [decide_eq_true_eq]; omega
          rw [if_neg hX33]
          sym_exec!
          exact far_asm sa xe1 hiC (lo1 - 1) f sA (X - 1) XE hsa hE1 (by omega) (by rw [hhiC]; exact hv) (by omega)
      · take_neg
        · rw [cDn]; simpa using hdn
        sym_exec!
        refine Eq.trans hbase ?_
        rw [farOut_none (md m) sA sB X _ _ hup hdn]
        exact hnone
  · take_neg
    · exact hm
    sym_exec!
    refine Eq.trans hbase ?_
    have hrne : md m = .rne := by rw [cNE] at hm; simpa using hm
    rw [farOut_none (md m) sA sB X _ _ (by rw [hrne]; simp) (by rw [hrne]; simp)]
    exact hnone

/-! ## 27. `y` far below `x`: the padding, and the branch as a whole -/

open Dec.C13GenNoncomp (u64_ofInt_nat toI_i32 bmod32 ten2k64_get)

theorem i32_lt_lit (a b : Int32) : decide (a < b) = decide (a.toInt < b.toInt) := by
  rw [decide_eq_decide, Int32.lt_iff_toInt_lt]

/-- **the padding to 34 digits**: whichever path the code selects continues with the two words of `C·10^(34−Q)` and the
exponent word lowered by `34 − Q` -/
theorem padFarK_ok {β : Type} (q1 : Int32) (ea ah al : UInt64) (C Q EA : Nat) (hC : ah.toNat * 2^64 + al.toNat = C)
    (hq : q1.toInt = Q) (hQ : Q = ndigits C) (hC0 : 0 < C) (hQ34 : Q ≤ 34) (hea : ea.toNat = EA * 2^49)
    (hEA : EA < 2^14) (hpad : 34 - Q ≤ EA) :
    ∃ (xe hi lo : UInt64), hi.toNat * 2^64 + lo.toNat = C * 10 ^ (34 - Q) ∧ xe.toNat = (EA - (34 - Q)) * 2^49 ∧
      ∀ K : UInt64 → UInt64 → UInt64 → Except String β, padFarK q1 ea ah al K = K xe hi lo := by
  have hl := al.toNat_lt
  have hQ1 : 1 ≤ Q := by rw [hQ]; exact ndigits_pos hC0
  have h34 : c_P34.toInt = 34 := by decide
  have hsc : (c_P34 - q1).toInt = ((34 - Q : Nat) : Int) := by
    rw [Int32.toInt_sub, hq, h34, bmod32 _ (by omega) (by omega)]; omega
  have hlt := pow_lt_of_digits (C := C) (Q := Q) (S := 34 - Q) hQ (by omega)
  by_cases c0 : Q < 34
  · have hq34 : decide (q1 < c_P34) = true := by rw [i32_lt_lit, hq, h34]; exact decide_eq_true (by omega)
    have hxe := exp_after ea (c_P34 - q1) EA (34 - Q) hea hsc hpad hEA
    by_cases c1 : Q ≤ 19
    · have hq19 : decide (q1 ≤ 19) = true := by rw [i32_le_lit, hq]; exact decide_eq_true (by simpa using c1)
      have hCs : C < 10^19 := by
        have : C < 10^Q := by rw [hQ]; exact lt_pow_ndigits C
        exact lt_of_lt_of_le this (Nat.pow_le_pow_right (by decide) c1)
      have hh0 : ah.toNat = 0 := by
        have : (10:Nat)^19 < 2^64 := by decide
        omega
      have hlC : al.toNat = C := by omega
      by_cases c2 : 34 - Q ≤ 19
      · have hs19 : decide (c_P34 - q1 ≤ 19) = true := by
          rw [i32_le_lit, hsc]; exact decide_eq_true (by simpa using c2)
        obtain ⟨v, hv, hv10⟩ := ten2k64_get (34 - Q) (by omega)
        obtain ⟨r, hr, hrv⟩ := C01GenArith.gen_mul_64x64_to_128MACH v al
        refine ⟨_, r.w1, r.w0, words_swap r _ (by rw [hrv, hv10, hlC, Nat.mul_comm]), hxe, fun K => ?_⟩
        unfold padFarK
        rw [if_pos hq34, if_pos hq19, if_pos hs19, idx_i32 _ _ hsc, hv, bind_ok, hr, bind_ok]
      · have hs19 : ¬ decide (c_P34 - q1 ≤ 19) = true := by
          rw [i32_le_lit, hsc]; simpa using c2
        have hsc' : (c_P34 - q1 - 19).toInt = ((34 - Q - 19 : Nat) : Int) := by
          rw [Int32.toInt_sub, hsc, show (19 : Int32).toInt = 19 from by decide, bmod32 _ (by omega) (by omega)]; omega
        obtain ⟨v, hv, hv10⟩ := ten2k64_get (34 - Q - 19) (by omega)
        obtain ⟨v2, hv2, hv210⟩ := ten2k64_get 19 (by omega)
        have hprod : C * 10 ^ (34 - Q - 19) < 10^15 := by
          have h1 : C < 10 ^ Q := by rw [hQ]; exact lt_pow_ndigits C
          calc C * 10 ^ (34 - Q - 19) < 10 ^ Q * 10 ^ (34 - Q - 19) := Nat.mul_lt_mul_of_pos_right h1 (Nat.pow_pos (by decide))
            _ = 10 ^ (Q + (34 - Q - 19)) := (Nat.pow_add _ _ _).symm
            _ = 10 ^ 15 := by congr 1; omega
        have hmul : (al * v).toNat = C * 10 ^ (34 - Q - 19) := by
          rw [UInt64.toNat_mul, hlC, hv10, Nat.mod_eq_of_lt (lt_trans hprod (by decide))]
        obtain ⟨r, hr, hrv⟩ := C01GenArith.gen_mul_64x64_to_128MACH v2 (al * v)
        refine ⟨_, r.w1, r.w0, words_swap r _ (by
          rw [hrv, hv210, hmul, Nat.mul_comm, Nat.mul_assoc, ← Nat.pow_add]; congr 2; omega), hxe, fun K => ?_⟩
        unfold padFarK
        rw [if_pos hq34, if_pos hq19, if_neg hs19, idx_i32 _ _ hsc', hv, bind_ok,
          show UInt64.ofInt (toI (19 : Int32)) = UInt64.ofNat 19 from by decide, hv2, bind_ok, hr, bind_ok]
    · have hq19 : ¬ decide (q1 ≤ 19) = true := by rw [i32_le_lit, hq]; simpa using c1
      obtain ⟨v, hv, hv10⟩ := ten2k64_get (34 - Q) (by omega)
      obtain ⟨r, hr, hrv⟩ := C01GenArith.gen_mul_128x64_to_128_exact v ⟨al, ah⟩ (by
        rw [hv10]
        show 10 ^ (34 - Q) * (al.toNat + 2^64 * ah.toNat) < 2^128
        rw [show al.toNat + 2^64 * ah.toNat = C from by omega, Nat.mul_comm]
        exact lt_trans hlt (by decide))
      refine ⟨_, r.w1, r.w0, words_swap r _ (by
        rw [hrv, hv10]
        show 10 ^ (34 - Q) * (al.toNat + 2^64 * ah.toNat) = _
        rw [show al.toNat + 2^64 * ah.toNat = C from by omega, Nat.mul_comm]), hxe, fun K => ?_⟩
      unfold padFarK
      rw [if_pos hq34, if_neg hq19, idx_i32 _ _ hsc, hv, bind_ok, hr, bind_ok]
  · have hq34 : ¬ decide (q1 < c_P34) = true := by rw [i32_lt_lit, hq, h34]; simpa using c0
    have hQe : Q = 34 := by omega
    refine ⟨ea, ah, al, by rw [hQe, Nat.sub_self, Nat.pow_zero, Nat.mul_one]; exact hC, by rw [hQe, Nat.sub_self, Nat.sub_zero]; exact hea,
      fun K => ?_⟩
    unfold padFarK
    rw [if_neg hq34]

/-- **`y` far below `x`** (operands in the code's order, `delta = q_a + e_a − q_b − e_b ≥ 35`): the first operand padded to
34 digits, its last digit moved by one unit or not according to the rounding mode and the signs; inexact -/
theorem add_far_core (x y a b : U128) (m : RoundingMode) (f : UInt32) (hab : Ordered x y a b)
    {sA sB : Bool} {cA cB : Nat} {eA eB : Int}
    (ha : decode (bitsOf a) = .fin sA cA eA) (hb : decode (bitsOf b) = .fin sB cB eB) (hcA : cA ≠ 0) (hcB : cB ≠ 0)
    (hfar : (ndigits cA : Int) + eA - ndigits cB - eB ≥ 35) :
    bid128_add x y m f =
      .ok (ofBits (encode (addFin (md m) sA cA eA sB cB eB (if eA ≤ eB then eA else eB)).1),
           f ||| UInt32.ofNat (addFin (md m) sA cA eA sB cB eB (if eA ≤ eB then eA else eB)).2) := by
  obtain ⟨ha1, hac, haP, hae, halo, hahi, has, -⟩ := fin_view a ha
  obtain ⟨hb1, hbc, hbP, hbe, hblo, hbhi, hbs, -⟩ := fin_view b hb
  have hcA0 : 0 < cA := Nat.pos_of_ne_zero hcA
  have hcB0 : 0 < cB := Nat.pos_of_ne_zero hcB
  have ha0 := nonzero_words hac hcA
  have hb0 := nonzero_words hbc hcB
  have hEle : (eB + 6176).toNat ≤ (eA + 6176).toNat := by
    have hle : uE b ≤ uE a := by
      rcases hab with ⟨rfl, rfl, hc⟩ | ⟨rfl, rfl, hc⟩
      · exact UInt64.not_lt.1 (by simpa using hc)
      · exact UInt64.le_of_lt (by simpa using hc)
    rw [UInt64.le_iff_toNat_le, hae, hbe] at hle
    omega
  have hle : eB ≤ eA := by omega
  have hsp : ¬ ((x.w1 &&& c_MASK_SPECIAL == c_MASK_SPECIAL) || (y.w1 &&& c_MASK_SPECIAL == c_MASK_SPECIAL)) = true := by
    rcases hab with ⟨rfl, rfl, -⟩ | ⟨rfl, rfl, -⟩
    · exact not_special2 ha1 hb1
    · exact not_special2 hb1 ha1
  have hx0 : ¬ (uH x == 0 && uL x == 0) = true := by
    rcases hab with ⟨rfl, rfl, -⟩ | ⟨rfl, rfl, -⟩
    · exact ha0
    · exact hb0
  have hy0 : ¬ (uH y == 0 && uL y == 0) = true := by
    rcases hab with ⟨rfl, rfl, -⟩ | ⟨rfl, rfl, -⟩
    · exact hb0
    · exact ha0
  obtain ⟨D, D1, THI, TLO, hTa, hqa⟩ := digits_row (uH a) (uL a) (by rw [hac]; exact hcA0) (hi_lt hac haP)
  obtain ⟨D', D1', THI', TLO', hTb, hqb⟩ := digits_row (uH b) (uL b) (by rw [hbc]; exact hcB0) (hi_lt hbc hbP)
  rw [hac] at hqa
  rw [hbc] at hqb
  have hQA1 := ndigits_pos hcA0
  have hQB1 := ndigits_pos hcB0
  have hQA : ndigits cA ≤ 34 := (ndigits_le_iff hcA0).2 (by simpa [P34] using haP)
  have hQB : ndigits cB ≤ 34 := (ndigits_le_iff hcB0).2 (by simpa [P34] using hbP)
  have hEA : (eA + 6176).toNat < 2^14 := by omega
  have hEB : (eB + 6176).toNat < 2^14 := by omega
  have hdl := delta_toInt _ _ (uE a) (uE b) _ _ _ _ hqa hqb hQA hQB hae hbe hEA hEB
  have hsc := scA_toInt _ _ (uE a) (uE b) _ _ _ _ hqa hqb hQA hQB hae hbe hEA hEB
  have h34 : c_P34.toInt = 34 := by decide
  have hd1 : decide (deltaOf (qOf D D1 THI TLO (uH a) (uL a)) (qOf D' D1' THI' TLO' (uH b) (uL b)) (uE a) (uE b) ≥ c_P34) = true := by
    rw [i32_ge, hdl, h34]; exact decide_eq_true (by omega)
  have hd2 : decide (deltaOf (qOf D D1 THI TLO (uH a) (uL a)) (qOf D' D1' THI' TLO' (uH b) (uL b)) (uE a) (uE b) ≥ c_P34 + 1) = true := by
    rw [i32_ge, hdl, show (c_P34 + 1).toInt = 35 from by decide]; exact decide_eq_true (by omega)
  obtain ⟨xe, hi, lo, hval, hxe, hK⟩ := padFarK_ok (β := U128 × UInt32) _ (uE a) (uH a) (uL a) cA (ndigits cA) _ hac hqa rfl hcA0 hQA
    hae hEA (by omega)
  rw [code_far x y a b m f hsp hx0 hy0 hab D D1 THI TLO D' D1' THI' TLO' hTa hTb hd1 hd2 xe hi lo hK]
  -- the padded coefficient
  have hlo' := (ndigits_spec hcA0).1
  have hhi' := lt_pow_ndigits cA
  have hX1 : 10^33 ≤ cA * 10 ^ (34 - ndigits cA) := by
    calc 10^33 = 10 ^ (ndigits cA - 1) * 10 ^ (34 - ndigits cA) := by rw [← Nat.pow_add]; congr 1; omega
      _ ≤ cA * 10 ^ (34 - ndigits cA) := Nat.mul_le_mul_right _ hlo'
  have hX2 : cA * 10 ^ (34 - ndigits cA) < 10^34 := pow_lt_of_digits (C := cA) rfl (by omega)
  -- the exponents
  obtain ⟨k, hk⟩ : ∃ k : Nat, (k : Int) = eA - (34 - ndigits cA) - eB := ⟨(eA - (34 - ndigits cA) - eB).toNat, by omega⟩
  have hXE : (((eA + 6176).toNat - (34 - ndigits cA) : Nat) : Int) - 6176 = eB + k := by omega
  have hgap : (eA - eB).toNat = (34 - ndigits cA) + k := by omega
  have hA : cA * 10 ^ (eA - eB).toNat = cA * 10 ^ (34 - ndigits cA) * 10 ^ k := by
    rw [hgap, Nat.pow_add, Nat.mul_assoc]
  have hcBlt : cB < 10 ^ ndigits cB := lt_pow_ndigits cB
  have hck : cB * 10 < 10 ^ k := by
    calc cB * 10 < 10 ^ ndigits cB * 10 := Nat.mul_lt_mul_of_pos_right hcBlt (by decide)
      _ = 10 ^ (ndigits cB + 1) := (Nat.pow_succ _ _).symm
      _ ≤ 10 ^ k := Nat.pow_le_pow_right (by decide) (by omega)
  have hgt : cB < cA * 10 ^ (eA - eB).toNat := by
    rw [hA]
    have : 10^33 * 10 ^ k ≤ cA * 10 ^ (34 - ndigits cA) * 10 ^ k := Nat.mul_le_mul_right _ hX1
    have : 10 ^ k ≤ 10^33 * 10 ^ k := Nat.le_mul_of_pos_left _ (by decide)
    omega
  rw [farTail_spec _ _ xe hi lo (uH b) (uL b) _ _ m f sA sB _ cB (ndigits cB) _ _ has hbs hxe (by omega) (by omega) hval hX1 hX2 hbc
    hqb rfl hQB1 hQB hdl, addFin_big (md m) sA cA eA sB cB eB hle hgt, hA, hXE]
  generalize cA * 10 ^ (34 - ndigits cA) = X at *
  by_cases hs : sA = sB
  · rw [if_pos hs, ← hs, finish_far_same (md m) sA X cB k eB hX1 hX2 hcB0 hck (by omega) hblo (by omega)]
  · rw [if_neg hs]
    by_cases hX33 : X = 10^33
    · rw [hX33, finish_far_opp10 (md m) sA sB hs cB k eB hcB0 hck (by omega) hblo (by omega)]
      have hsp : decide (2 * cB > 10 ^ (k - 1)) = decide ((ndigits cA : Int) + (eA + 6176).toNat - ndigits cB - (eB + 6176).toNat = 35 ∧
          5 * 10 ^ (ndigits cB - 1) < cB) := by
        rw [decide_eq_decide]
        by_cases h35 : (ndigits cA : Int) + (eA + 6176).toNat - ndigits cB - (eB + 6176).toNat = 35
        · have hk1 : k - 1 = ndigits cB - 1 + 1 := by omega
          rw [hk1, Nat.pow_succ]
          constructor
          · intro h; exact ⟨h35, by omega⟩
          · intro h; omega
        · have : 10 ^ (ndigits cB + 1) ≤ 10 ^ (k - 1) := Nat.pow_le_pow_right (by decide) (by omega)
          rw [Nat.pow_succ] at this
          constructor
          · intro h; omega
          · intro h; exact absurd h.1 h35
      rw [hsp]
    · rw [finish_far_opp (md m) sA sB hs X cB k eB (by omega) hX2 hcB0 hck (by omega) hblo (by omega)]

/-! ## 28. Two non-zero numbers, one far below the other -/

/-- in terms of the decoded operands: with `H` the operand of the larger exponent (`x` on a tie) and `L` the other one,
`q_H + e_H − q_L − e_L ≥ 35` — the code's `delta ≥ P34 + 1`: `L` is below a tenth of a unit in the last place of `H`
padded to 34 digits -/
def FarCond (c1 : Nat) (e1 : Int) (c2 : Nat) (e2 : Int) : Prop :=
  if e2 ≤ e1 then (ndigits c1 : Int) + e1 - ndigits c2 - e2 ≥ 35 else (ndigits c2 : Int) + e2 - ndigits c1 - e1 ≥ 35

instance (c1 : Nat) (e1 : Int) (c2 : Nat) (e2 : Int) : Decidable (FarCond c1 e1 c2 e2) := by
  unfold FarCond; infer_instance

/-- **`bid128_add`, two non-zero numbers, `FarCond`** (the code's branch `delta ≥ P34 + 1`): the operand `H` padded to 34
digits, `X·10^E`, is the result in the nearest modes and whenever the mode rounds toward it; otherwise the last digit
moves by one unit — up in magnitude (`Downward` both negative, `Upward` both positive; `10^34` becomes `10^33` at the
next exponent, or the overflow exit) or down in magnitude (signs differ and the mode rounds toward zero; below `10^33`
that is `10^34 − 1` at the previous exponent) —; below a power of ten with opposite signs the nearest modes also give
`10^34 − 1` at the previous exponent if `L` exceeds half a unit there (only possible for `delta = 35`).  Always inexact.
All of this is `addD`, datum and flags. -/
theorem add_far (x y : U128) (m : RoundingMode) (f : UInt32) {s1 s2 : Bool} {c1 c2 : Nat} {e1 e2 : Int}
    (hx : decode (bitsOf x) = .fin s1 c1 e1) (hy : decode (bitsOf y) = .fin s2 c2 e2) (hc1 : c1 ≠ 0) (hc2 : c2 ≠ 0)
    (h : FarCond c1 e1 c2 e2) :
    bid128_add x y m f =
      .ok (ofBits (encode (addD (md m) (decode (bitsOf x)) (decode (bitsOf y))).1),
           f ||| UInt32.ofNat (addD (md m) (decode (bitsOf x)) (decode (bitsOf y))).2) := by
  obtain ⟨-, -, -, hxe, hxlo, hxhi, -, -⟩ := fin_view x hx
  obtain ⟨-, -, -, hye, hylo, hyhi, -, -⟩ := fin_view y hy
  rw [hx, hy, addD_fin_fin]
  unfold FarCond at h
  by_cases hle : e2 ≤ e1
  · rw [if_pos hle] at h
    have hab : Ordered x y x y := Or.inl ⟨rfl, rfl, by
      rw [decide_eq_true_eq, UInt64.lt_iff_toNat_lt, hxe, hye]; omega⟩
    exact add_far_core x y x y m f hab hx hy hc1 hc2 h
  · rw [if_neg hle] at h
    have hab : Ordered x y y x := Or.inr ⟨rfl, rfl, by
      rw [decide_eq_true_eq, UInt64.lt_iff_toNat_lt, hxe, hye]; omega⟩
    rw [addFin_comm]
    exact add_far_core x y y x m f hab hy hx hc2 hc1 h

-- 1E+40 + 1E0 in Upward: 1000000000000000000000000000000001E+7, inexact; 1E+40 − 1E0 toward zero: 9999999999999999999999999999999999E+6
example : bid128_add ⟨1, 0x3090000000000000⟩ ⟨1, 0x3040000000000000⟩ .Upward 0
    = .ok (ofBits (encode (.fin false (10^33 + 1) 7)), 0x20) := by
  rw [add_far (s1 := false) (c1 := 1) (e1 := 40) (s2 := false) (c2 := 1) (e2 := 0) _ _ _ _ (by decide +kernel)
    (by decide +kernel) (by decide) (by decide) (by decide +kernel)]
  decide +kernel
example : bid128_add ⟨1, 0x3090000000000000⟩ ⟨1, 0xb040000000000000⟩ .TowardZero 0
    = .ok (ofBits (encode (.fin false (10^34 - 1) 6)), 0x20) := by
  rw [add_far (s1 := false) (c1 := 1) (e1 := 40) (s2 := true) (c2 := 1) (e2 := 0) _ _ _ _ (by decide +kernel)
    (by decide +kernel) (by decide) (by decide) (by decide +kernel)]
  decide +kernel

/-! ## 29. What is covered -/

/-- the region of operand pairs (no NaN among them) on which `bid128_add` is proved here to be `addD`: some operand
infinite, or both finite and: some coefficient zero (a canonical zero or a non-canonical encoding), or `AlignedCond` —
the coefficient of the operand with the larger exponent, aligned to the smaller exponent, has at most 34 digits: the
code's branches `delta < 0`, `0 ≤ delta ≤ 33 − q2`, `delta = 34 − q2` (after ordering the operands by exponent) —, or
`FarCond` — the other operand is below a tenth of a unit in the 34th digit: the branch `delta ≥ 35` -/
def Covered : Datum → Datum → Prop
  | .fin s1 c1 e1, .fin s2 c2 e2 => c1 = 0 ∨ c2 = 0 ∨ AlignedCond c1 e1 c2 e2 ∨ FarCond c1 e1 c2 e2
  | .nan _ _ _, _ => False
  | _, .nan _ _ _ => False
  | _, _ => True

/-- **coverage**: for ALL patterns `x`, `y`, every rounding mode and every incoming status word —
* some operand a NaN: the NaN rule (`add_nan`, C12GenNaN): quiet canonical copy of `x`'s NaN if `x` is one, else `y`'s,
  invalid iff some operand is signalling;
* otherwise, on `Covered` (an infinite operand; a zero operand — including the non-canonical encodings, which the code
  replaces by zeros —; two non-zero numbers with `AlignedCond` or `FarCond`): the routine returns (never panics) exactly
  `addD`'s datum, canonically encoded, and ORs `addD`'s flags into the status word.
NOT covered (nothing is claimed): two non-zero finite operands with `¬ AlignedCond ∧ ¬ FarCond` — see
`not_covered_iff`: `34 − q2 < delta ≤ 34`, i.e. the rounding loop with `BID_TEN2MK128` (`34 − q2 < delta < 34`) and the
branch `delta = 34` (the second operand is compared with half a unit of the 34th digit). -/
theorem add_cases_covered (x y : U128) (m : RoundingMode) (f : UInt32) :
    (((decode (bitsOf x)).isNaN || (decode (bitsOf y)).isNaN) = true →
      bid128_add x y m f = .ok (pick2 x y, nanFlags f [decode (bitsOf x), decode (bitsOf y)])) ∧
    (Covered (decode (bitsOf x)) (decode (bitsOf y)) →
      bid128_add x y m f =
        .ok (ofBits (encode (addD (md m) (decode (bitsOf x)) (decode (bitsOf y))).1),
             f ||| UInt32.ofNat (addD (md m) (decode (bitsOf x)) (decode (bitsOf y))).2)) := by
  refine ⟨add_nan x y m f, fun hc => ?_⟩
  cases hx : decode (bitsOf x) with
  | nan s g p => rw [hx] at hc; exact absurd hc (by simp [Covered])
  | inf s =>
    cases hy : decode (bitsOf y) with
    | nan s' g p => rw [hx, hy] at hc; exact absurd hc (by simp [Covered])
    | inf s' =>
      rw [← hx, ← hy]
      exact add_inf x y m f (by rw [hx]; rfl) (by rw [hy]; rfl) (Or.inl (by rw [hx]; rfl))
    | fin s' c e =>
      rw [← hx, ← hy]
      exact add_inf x y m f (by rw [hx]; rfl) (by rw [hy]; rfl) (Or.inl (by rw [hx]; rfl))
  | fin s1 c1 e1 =>
    cases hy : decode (bitsOf y) with
    | nan s' g p => rw [hx, hy] at hc; exact absurd hc (by simp [Covered])
    | inf s' =>
      rw [← hx, ← hy]
      exact add_inf x y m f (by rw [hx]; rfl) (by rw [hy]; rfl) (Or.inr (by rw [hy]; rfl))
    | fin s2 c2 e2 =>
      rw [hx, hy] at hc
      rw [← hx, ← hy]
      by_cases h1 : c1 = 0
      · subst h1
        by_cases h2 : c2 = 0
        · subst h2; exact add_zero_zero x y m f hx hy
        · exact add_zero_left x y m f hx hy h2
      · by_cases h2 : c2 = 0
        · subst h2; exact add_zero_right x y m f hx hy h1
        · rcases hc with h | h | h | h
          · exact absurd h h1
          · exact absurd h h2
          · exact add_aligned x y m f hx hy h1 h2 h
          · exact add_far x y m f hx hy h1 h2 h

/-- the complement of `Covered` among the NaN-free pairs: two non-zero finite operands outside the exact branch -/
theorem not_covered_iff (dx dy : Datum) (hx : dx.isNaN = false) (hy : dy.isNaN = false) :
    ¬ Covered dx dy ↔ ∃ s1 c1 e1 s2 c2 e2, dx = .fin s1 c1 e1 ∧ dy = .fin s2 c2 e2 ∧ c1 ≠ 0 ∧ c2 ≠ 0 ∧ ¬ AlignedCond c1 e1 c2 e2 ∧ ¬ FarCond c1 e1 c2 e2 := by
  cases dx with
  | nan s g p => exact Bool.noConfusion hx
  | inf s =>
    cases dy with
    | nan s g p => exact Bool.noConfusion hy
    | inf s' => simp [Covered]
    | fin s' c e => simp [Covered]
  | fin s1 c1 e1 =>
    cases dy with
    | nan s g p => exact Bool.noConfusion hy
    | inf s => simp [Covered]
    | fin s2 c2 e2 =>
      simp only [Covered, not_or, Datum.fin.injEq]
      constructor
      · rintro ⟨h1, h2, h3, h4⟩
        exact ⟨s1, c1, e1, s2, c2, e2, ⟨rfl, rfl, rfl⟩, ⟨rfl, rfl, rfl⟩, h1, h2, h3, h4⟩
      · rintro ⟨_, _, _, _, _, _, ⟨rfl, rfl, rfl⟩, ⟨rfl, rfl, rfl⟩, h1, h2, h3, h4⟩
        exact ⟨h1, h2, h3, h4⟩

-- a non-canonical operand (coefficient field ≥ 10^34) counts as the zero of its exponent field: here +0E+1 … + 5E0 = 5E0
example : Covered (decode (bitsOf ⟨0xffffffffffffffff, 0x3043ffffffffffff⟩)) (decode (bitsOf ⟨5, 0x3040000000000000⟩)) := by
  rw [show decode (bitsOf ⟨0xffffffffffffffff, 0x3043ffffffffffff⟩) = .fin false 0 1 from by decide +kernel,
    show decode (bitsOf ⟨5, 0x3040000000000000⟩) = .fin false 5 0 from by decide +kernel]
  exact Or.inl rfl
example : bid128_add ⟨0xffffffffffffffff, 0x3043ffffffffffff⟩ ⟨5, 0x3040000000000000⟩ .NearestEven 0
    = .ok (⟨5, 0x3040000000000000⟩, 0) := by decide +kernel

end Dec.C01GenAdd
