/-
  C15Total — every public entry point has a defined expectation.

  `Dec.entryPoints` lists, for every public item of the crate (scraped on each run, `Dec.Static.inventory_covered`),
  the harness operations that drive it.  This file proves that for each of those operation names, applied to a
  well-typed argument list, the dispatch `expect` does not answer `.unknown` — so the judge never replies
  "unknown op" to a well-formed observation of a public entry point, whatever the argument values, the rounding
  mode and the tininess convention: the model is total over the public API.

  Organisation: one fact per operation (`known_<op>`), grouped by signature into lists (`opsD1`, `opsD2`, …) with
  a theorem per list (`total_D1`, …), and `entryPoints_covered`: every harness operation named in
  `Dec.entryPoints` belongs to one of the lists.

  Most facts are definitional unfoldings of the 200-way string match in `expectCore`; the elaborator's
  `rfl` spends 1–2 s on each, so they are closed by `kernel_rfl`, which (exactly like `decide +kernel`) hands
  `Eq.refl _` straight to the kernel: the kernel alone checks the definitional equality.
-/
import Lean.Elab.Tactic
import DecModel.Judge
import DecModel.EntryPoints

namespace Dec.C15Total

/-- the expectation is "not an entry point the model knows" -/
def isUnknown : Expect → Bool
  | .unknown => true
  | _ => false

open Lean Elab Tactic Meta in
/-- closes a goal `a = b` with `Eq.refl a`, leaving the definitional-equality check to the kernel alone (no
extra assumption, nothing trusted: the kernel rejects the declaration if the two sides are not definitionally equal) -/
elab "kernel_rfl" : tactic => do
  let g ← getMainGoal
  let t ← instantiateMVars (← g.getType)
  let some (_, lhs, _) := t.eq? | throwError "kernel_rfl: the goal is not an equality"
  g.assign (← mkEqRefl lhs)

/-- **What "known" buys**: against a known expectation the judge never answers `bad` ("unknown op"): every
well-formed observation gets a verdict `ok` or `viol`. -/
theorem known_not_bad (e : Expect) (o : Obs) (h : isUnknown e = false) (why : String) : judgeWith e o ≠ .bad why := by
  unfold judgeWith
  cases e with
  | unknown => cases h
  | oneOf alts raised => cases o.out <;> simp only [] <;> (try split) <;> (try split) <;> simp
  | pred d p raised => cases o.out <;> simp only [] <;> (try split) <;> (try split) <;> simp
  | rel d p => cases o.out <;> simp only [] <;> (try split) <;> simp
  | noPanic => cases o.out <;> simp only [] <;> (try split) <;> simp

/-- … and conversely `unknown` always gives `bad` -/
theorem unknown_bad (o : Obs) : ∃ why, judgeWith .unknown o = .bad why := by
  unfold judgeWith; exact ⟨_, rfl⟩

/-! ### the shapes an expectation is built from -/

theorem nanRule_known (ds : List Datum) (k : Unit → Expect) (h : ∀ u, isUnknown (k u) = false) :
    isUnknown (nanRule ds k) = false := by
  unfold nanRule
  simp only []
  split
  · exact h ()
  · rfl

theorem un_known (x : Nat) (k : Datum → Expect) (h : ∀ a, isUnknown (k a) = false) : isUnknown (un x k) = false :=
  nanRule_known _ _ fun _ => h _

theorem bin_known (x y : Nat) (k : Datum → Datum → Expect) (h : ∀ a b, isUnknown (k a b) = false) :
    isUnknown (bin x y k) = false :=
  nanRule_known _ _ fun _ => h _ _

theorem dropFlags_known (e : Expect) : isUnknown (expectCore.dropFlags e) = isUnknown e := by
  cases e <;> rfl

theorem minmax_known (isMax mag : Bool) (x y : Nat) : isUnknown (expectCore.minmax isMax mag x y) = false := by
  unfold expectCore.minmax
  simp only []
  repeat' split
  all_goals rfl

theorem binConv_known (m : Mode) (b : BinDatum) : isUnknown (expectCore.binConv m b) = false := by
  cases b <;> rfl

theorem parseE_known (m : Mode) (t : Bytes) : isUnknown (expectCore.parseE m t) = false := by
  unfold expectCore.parseE
  split
  · split <;> rfl
  all_goals rfl

theorem fromStrE_known (t : Bytes) : isUnknown (expectCore.fromStrE t) = false := by
  have h := parseE_known .rne t
  unfold expectCore.fromStrE
  cases hp : expectCore.parseE .rne t with
  | unknown => rw [hp] at h; cases h
  | oneOf alts raised => simp only []; split <;> rfl
  | pred d p raised => rfl
  | rel d p => rfl
  | noPanic => rfl

theorem parseDs_map (xs : List Nat) : expectCore.parseDs (xs.map Val.d) = some xs := by
  induction xs with
  | nil => rfl
  | cons a l ih =>
    unfold expectCore.parseDs at ih ⊢
    rw [List.map_cons, List.foldr_cons, ih]

theorem foldE_known (isSum : Bool) (xs : List Nat) : isUnknown (expectCore.foldE isSum (xs.map Val.d)) = false := by
  unfold expectCore.foldE
  rw [parseDs_map]
  simp only []
  split <;> rfl

/-! ### one fact per harness operation -/

section facts
variable (m : Mode) (x y z : Nat) (n : Int) (t : Bytes) (b : Nat) (args : List Val) (xs : List Nat) (ta : Bool)

theorem known_abs : isUnknown (expect "abs" m [.d x] ta) = false := by kernel_rfl
theorem known_addition : isUnknown (expect "addition" m [.d x, .d y] ta) = false := by
  have h : expect "addition" m [.d x, .d y] ta = bin x y (fun a b => exactD (addD m a b)) := by kernel_rfl
  rw [h]; exact bin_known _ _ _ fun _ _ => rfl
theorem known_class : isUnknown (expect "class" m [.d x] ta) = false := by kernel_rfl
theorem known_compare_quiet_equal : isUnknown (expect "compare_quiet_equal" m [.d x, .d y] ta) = false := by kernel_rfl
theorem known_compare_quiet_greater : isUnknown (expect "compare_quiet_greater" m [.d x, .d y] ta) = false := by kernel_rfl
theorem known_compare_quiet_greater_equal : isUnknown (expect "compare_quiet_greater_equal" m [.d x, .d y] ta) = false := by kernel_rfl
theorem known_compare_quiet_greater_unordered : isUnknown (expect "compare_quiet_greater_unordered" m [.d x, .d y] ta) = false := by kernel_rfl
theorem known_compare_quiet_less : isUnknown (expect "compare_quiet_less" m [.d x, .d y] ta) = false := by kernel_rfl
theorem known_compare_quiet_less_equal : isUnknown (expect "compare_quiet_less_equal" m [.d x, .d y] ta) = false := by kernel_rfl
theorem known_compare_quiet_less_unordered : isUnknown (expect "compare_quiet_less_unordered" m [.d x, .d y] ta) = false := by kernel_rfl
theorem known_compare_quiet_not_equal : isUnknown (expect "compare_quiet_not_equal" m [.d x, .d y] ta) = false := by kernel_rfl
theorem known_compare_quiet_not_greater : isUnknown (expect "compare_quiet_not_greater" m [.d x, .d y] ta) = false := by kernel_rfl
theorem known_compare_quiet_not_less : isUnknown (expect "compare_quiet_not_less" m [.d x, .d y] ta) = false := by kernel_rfl
theorem known_compare_quiet_ordered : isUnknown (expect "compare_quiet_ordered" m [.d x, .d y] ta) = false := by kernel_rfl
theorem known_compare_quiet_unordered : isUnknown (expect "compare_quiet_unordered" m [.d x, .d y] ta) = false := by kernel_rfl
theorem known_compare_signaling_greater : isUnknown (expect "compare_signaling_greater" m [.d x, .d y] ta) = false := by kernel_rfl
theorem known_compare_signaling_greater_equal : isUnknown (expect "compare_signaling_greater_equal" m [.d x, .d y] ta) = false := by kernel_rfl
theorem known_compare_signaling_greater_unordered : isUnknown (expect "compare_signaling_greater_unordered" m [.d x, .d y] ta) = false := by kernel_rfl
theorem known_compare_signaling_less : isUnknown (expect "compare_signaling_less" m [.d x, .d y] ta) = false := by kernel_rfl
theorem known_compare_signaling_less_equal : isUnknown (expect "compare_signaling_less_equal" m [.d x, .d y] ta) = false := by kernel_rfl
theorem known_compare_signaling_less_unordered : isUnknown (expect "compare_signaling_less_unordered" m [.d x, .d y] ta) = false := by kernel_rfl
theorem known_compare_signaling_not_greater : isUnknown (expect "compare_signaling_not_greater" m [.d x, .d y] ta) = false := by kernel_rfl
theorem known_compare_signaling_not_less : isUnknown (expect "compare_signaling_not_less" m [.d x, .d y] ta) = false := by kernel_rfl
theorem known_convert_from_decimal_character : isUnknown (expect "convert_from_decimal_character" m [.s t] ta) = false := by
  have h : expect "convert_from_decimal_character" m [.s t] ta = expectCore.parseE m t := by kernel_rfl
  rw [h]; exact parseE_known m t
theorem known_convert_from_f32 : isUnknown (expect "convert_from_f32" m [.f b] ta) = false := by
  have h : expect "convert_from_f32" m [.f b] ta = expectCore.binConv m (decodeBin 8 23 b) := by kernel_rfl
  rw [h]; exact binConv_known m _
theorem known_convert_from_f64 : isUnknown (expect "convert_from_f64" m [.g b] ta) = false := by
  have h : expect "convert_from_f64" m [.g b] ta = expectCore.binConv m (decodeBin 11 52 b) := by kernel_rfl
  rw [h]; exact binConv_known m _
theorem known_convert_to_i32_exact_ties_to_away : isUnknown (expect "convert_to_i32_exact_ties_to_away" m [.d x] ta) = false := by kernel_rfl
theorem known_convert_to_i32_exact_ties_to_even : isUnknown (expect "convert_to_i32_exact_ties_to_even" m [.d x] ta) = false := by kernel_rfl
theorem known_convert_to_i32_exact_toward_negative : isUnknown (expect "convert_to_i32_exact_toward_negative" m [.d x] ta) = false := by kernel_rfl
theorem known_convert_to_i32_exact_toward_positive : isUnknown (expect "convert_to_i32_exact_toward_positive" m [.d x] ta) = false := by kernel_rfl
theorem known_convert_to_i32_exact_toward_zero : isUnknown (expect "convert_to_i32_exact_toward_zero" m [.d x] ta) = false := by kernel_rfl
theorem known_convert_to_i32_ties_to_away : isUnknown (expect "convert_to_i32_ties_to_away" m [.d x] ta) = false := by kernel_rfl
theorem known_convert_to_i32_ties_to_even : isUnknown (expect "convert_to_i32_ties_to_even" m [.d x] ta) = false := by kernel_rfl
theorem known_convert_to_i32_toward_negative : isUnknown (expect "convert_to_i32_toward_negative" m [.d x] ta) = false := by kernel_rfl
theorem known_convert_to_i32_toward_positive : isUnknown (expect "convert_to_i32_toward_positive" m [.d x] ta) = false := by kernel_rfl
theorem known_convert_to_i32_toward_zero : isUnknown (expect "convert_to_i32_toward_zero" m [.d x] ta) = false := by kernel_rfl
theorem known_convert_to_i64_exact_ties_to_away : isUnknown (expect "convert_to_i64_exact_ties_to_away" m [.d x] ta) = false := by kernel_rfl
theorem known_convert_to_i64_exact_ties_to_even : isUnknown (expect "convert_to_i64_exact_ties_to_even" m [.d x] ta) = false := by kernel_rfl
theorem known_convert_to_i64_exact_toward_negative : isUnknown (expect "convert_to_i64_exact_toward_negative" m [.d x] ta) = false := by kernel_rfl
theorem known_convert_to_i64_exact_toward_positive : isUnknown (expect "convert_to_i64_exact_toward_positive" m [.d x] ta) = false := by kernel_rfl
theorem known_convert_to_i64_exact_toward_zero : isUnknown (expect "convert_to_i64_exact_toward_zero" m [.d x] ta) = false := by kernel_rfl
theorem known_convert_to_i64_ties_to_away : isUnknown (expect "convert_to_i64_ties_to_away" m [.d x] ta) = false := by kernel_rfl
theorem known_convert_to_i64_ties_to_even : isUnknown (expect "convert_to_i64_ties_to_even" m [.d x] ta) = false := by kernel_rfl
theorem known_convert_to_i64_toward_negative : isUnknown (expect "convert_to_i64_toward_negative" m [.d x] ta) = false := by kernel_rfl
theorem known_convert_to_i64_toward_positive : isUnknown (expect "convert_to_i64_toward_positive" m [.d x] ta) = false := by kernel_rfl
theorem known_convert_to_i64_toward_zero : isUnknown (expect "convert_to_i64_toward_zero" m [.d x] ta) = false := by kernel_rfl
theorem known_convert_to_u32_exact_ties_to_away : isUnknown (expect "convert_to_u32_exact_ties_to_away" m [.d x] ta) = false := by kernel_rfl
theorem known_convert_to_u32_exact_ties_to_even : isUnknown (expect "convert_to_u32_exact_ties_to_even" m [.d x] ta) = false := by kernel_rfl
theorem known_convert_to_u32_exact_toward_negative : isUnknown (expect "convert_to_u32_exact_toward_negative" m [.d x] ta) = false := by kernel_rfl
theorem known_convert_to_u32_exact_toward_positive : isUnknown (expect "convert_to_u32_exact_toward_positive" m [.d x] ta) = false := by kernel_rfl
theorem known_convert_to_u32_exact_toward_zero : isUnknown (expect "convert_to_u32_exact_toward_zero" m [.d x] ta) = false := by kernel_rfl
theorem known_convert_to_u32_ties_to_away : isUnknown (expect "convert_to_u32_ties_to_away" m [.d x] ta) = false := by kernel_rfl
theorem known_convert_to_u32_ties_to_even : isUnknown (expect "convert_to_u32_ties_to_even" m [.d x] ta) = false := by kernel_rfl
theorem known_convert_to_u32_toward_negative : isUnknown (expect "convert_to_u32_toward_negative" m [.d x] ta) = false := by kernel_rfl
theorem known_convert_to_u32_toward_positive : isUnknown (expect "convert_to_u32_toward_positive" m [.d x] ta) = false := by kernel_rfl
theorem known_convert_to_u32_toward_zero : isUnknown (expect "convert_to_u32_toward_zero" m [.d x] ta) = false := by kernel_rfl
theorem known_convert_to_u64_exact_ties_to_away : isUnknown (expect "convert_to_u64_exact_ties_to_away" m [.d x] ta) = false := by kernel_rfl
theorem known_convert_to_u64_exact_ties_to_even : isUnknown (expect "convert_to_u64_exact_ties_to_even" m [.d x] ta) = false := by kernel_rfl
theorem known_convert_to_u64_exact_toward_negative : isUnknown (expect "convert_to_u64_exact_toward_negative" m [.d x] ta) = false := by kernel_rfl
theorem known_convert_to_u64_exact_toward_positive : isUnknown (expect "convert_to_u64_exact_toward_positive" m [.d x] ta) = false := by kernel_rfl
theorem known_convert_to_u64_exact_toward_zero : isUnknown (expect "convert_to_u64_exact_toward_zero" m [.d x] ta) = false := by kernel_rfl
theorem known_convert_to_u64_ties_to_away : isUnknown (expect "convert_to_u64_ties_to_away" m [.d x] ta) = false := by kernel_rfl
theorem known_convert_to_u64_ties_to_even : isUnknown (expect "convert_to_u64_ties_to_even" m [.d x] ta) = false := by kernel_rfl
theorem known_convert_to_u64_toward_negative : isUnknown (expect "convert_to_u64_toward_negative" m [.d x] ta) = false := by kernel_rfl
theorem known_convert_to_u64_toward_positive : isUnknown (expect "convert_to_u64_toward_positive" m [.d x] ta) = false := by kernel_rfl
theorem known_convert_to_u64_toward_zero : isUnknown (expect "convert_to_u64_toward_zero" m [.d x] ta) = false := by kernel_rfl
theorem known_copy : isUnknown (expect "copy" m [.d x] ta) = false := by kernel_rfl
theorem known_copy_sign : isUnknown (expect "copy_sign" m [.d x, .d y] ta) = false := by kernel_rfl
theorem known_decode_decimal : isUnknown (expect "decode_decimal" m [.d x] ta) = false := by kernel_rfl
theorem known_division : isUnknown (expect "division" m [.d x, .d y] ta) = false := by
  have h : expect "division" m [.d x, .d y] ta = bin x y (fun a b => exactD (divD m a b)) := by kernel_rfl
  rw [h]; exact bin_known _ _ _ fun _ _ => rfl
theorem known_encode_decimal : isUnknown (expect "encode_decimal" m [.d x] ta) = false := by kernel_rfl
theorem known_fdim : isUnknown (expect "fdim" m [.d x, .d y] ta) = false := by
  have h : expect "fdim" m [.d x, .d y] ta = bin x y (fun _ _ => .rel "a canonical encoding; bits set on entry still set" (fun r fin fout => match r with | [.d b] => isCanonical b && (fout ||| fin == fout) | _ => false)) := by kernel_rfl
  rw [h]; exact bin_known _ _ _ fun _ _ => rfl
theorem known_fmod : isUnknown (expect "fmod" m [.d x, .d y] ta) = false := by
  have h : expect "fmod" m [.d x, .d y] ta = bin x y (fun a b => exactD (fmodD a b)) := by kernel_rfl
  rw [h]; exact bin_known _ _ _ fun _ _ => rfl
theorem known_frexp : isUnknown (expect "frexp" m [.d x] ta) = false := by
  have h : expect "frexp" m [.d x] ta =
      (match decode x with
      | a@(.fin ..) => let r := frexpD a; exactly [.d (encode r.1), .i r.2] 0
      | _ => .noPanic) := by kernel_rfl
  rw [h]; cases decode x <;> rfl
theorem known_fused_multiply_add : isUnknown (expect "fused_multiply_add" m [.d x, .d y, .d z] ta) = false := by
  have h : expect "fused_multiply_add" m [.d x, .d y, .d z] ta = nanRule [decode x, decode y, decode z] (fun _ => exactD (fmaD m ta (decode x) (decode y) (decode z))) := by kernel_rfl
  rw [h]; exact nanRule_known _ _ fun _ => rfl
theorem known_is_canonical : isUnknown (expect "is_canonical" m [.d x] ta) = false := by kernel_rfl
theorem known_is_finite : isUnknown (expect "is_finite" m [.d x] ta) = false := by kernel_rfl
theorem known_is_infinite : isUnknown (expect "is_infinite" m [.d x] ta) = false := by kernel_rfl
theorem known_is_nan : isUnknown (expect "is_nan" m [.d x] ta) = false := by kernel_rfl
theorem known_is_normal : isUnknown (expect "is_normal" m [.d x] ta) = false := by kernel_rfl
theorem known_is_sign_minus : isUnknown (expect "is_sign_minus" m [.d x] ta) = false := by kernel_rfl
theorem known_is_signaling : isUnknown (expect "is_signaling" m [.d x] ta) = false := by kernel_rfl
theorem known_is_subnormal : isUnknown (expect "is_subnormal" m [.d x] ta) = false := by kernel_rfl
theorem known_is_zero : isUnknown (expect "is_zero" m [.d x] ta) = false := by kernel_rfl
theorem known_ldexp : isUnknown (expect "ldexp" m [.d x, .i n] ta) = false := by
  have h : expect "ldexp" m [.d x, .i n] ta = un x (fun a => exactD (scalebD m n a)) := by kernel_rfl
  rw [h]; exact un_known _ _ fun _ => rfl
theorem known_llquantexp : isUnknown (expect "llquantexp" m [.d x] ta) = false := by
  have h : expect "llquantexp" m [.d x] ta =
      (match decode x with
      | .fin _ _ e => exactly [.i e] 0
      | _ => exactly [.i (-9223372036854775808)] fInvalid) := by kernel_rfl
  rw [h]; cases decode x <;> rfl
theorem known_llrint : isUnknown (expect "llrint" m [.d x] ta) = false := by kernel_rfl
theorem known_llround : isUnknown (expect "llround" m [.d x] ta) = false := by kernel_rfl
theorem known_log_b : isUnknown (expect "log_b" m [.d x] ta) = false := by kernel_rfl
theorem known_logb : isUnknown (expect "logb" m [.d x] ta) = false := by
  have h : expect "logb" m [.d x] ta = un x (fun a => exactD (logbD a)) := by kernel_rfl
  rw [h]; exact un_known _ _ fun _ => rfl
theorem known_lrint : isUnknown (expect "lrint" m [.d x] ta) = false := by kernel_rfl
theorem known_lround : isUnknown (expect "lround" m [.d x] ta) = false := by kernel_rfl
theorem known_max_num : isUnknown (expect "max_num" m [.d x, .d y] ta) = false := by
  have h : expect "max_num" m [.d x, .d y] ta = expectCore.minmax true false x y := by kernel_rfl
  rw [h]; exact minmax_known _ _ x y
theorem known_max_num_mag : isUnknown (expect "max_num_mag" m [.d x, .d y] ta) = false := by
  have h : expect "max_num_mag" m [.d x, .d y] ta = expectCore.minmax true true x y := by kernel_rfl
  rw [h]; exact minmax_known _ _ x y
theorem known_min_num : isUnknown (expect "min_num" m [.d x, .d y] ta) = false := by
  have h : expect "min_num" m [.d x, .d y] ta = expectCore.minmax false false x y := by kernel_rfl
  rw [h]; exact minmax_known _ _ x y
theorem known_min_num_mag : isUnknown (expect "min_num_mag" m [.d x, .d y] ta) = false := by
  have h : expect "min_num_mag" m [.d x, .d y] ta = expectCore.minmax false true x y := by kernel_rfl
  rw [h]; exact minmax_known _ _ x y
theorem known_modf : isUnknown (expect "modf" m [.d x] ta) = false := by
  have h : expect "modf" m [.d x] ta =
      (match decode x with
      | n@(.nan ..) =>
        .oneOf [[.d (encode (quietNaN n)), .d (encode (quietNaN n))]] (if n.isSNaN then fInvalid else 0)
      | .inf s =>
        .pred "modf(Inf): integral part Inf, fractional part a zero, both with the sign of x"
          (fun r => match r with
            | [.d i, .d f] => i == encode (.inf s) && (decode f).isZero && (decode f).neg == s && isCanonical f
            | _ => false) 0
      | a => let r := modfD a; exactly [.d (encode r.1), .d (encode r.2)] 0) := by kernel_rfl
  rw [h]; cases decode x <;> rfl
theorem known_multiplication : isUnknown (expect "multiplication" m [.d x, .d y] ta) = false := by
  have h : expect "multiplication" m [.d x, .d y] ta = bin x y (fun a b => exactD (mulD m a b)) := by kernel_rfl
  rw [h]; exact bin_known _ _ _ fun _ _ => rfl
theorem known_nan : isUnknown (expect "nan" m [.s t] ta) = false := by kernel_rfl
theorem known_nearbyint : isUnknown (expect "nearbyint" m [.d x] ta) = false := by
  have h : expect "nearbyint" m [.d x] ta = un x (fun a => exactly [.d (encode (toIntegralD m a).1)] 0) := by kernel_rfl
  rw [h]; exact un_known _ _ fun _ => rfl
theorem known_negate : isUnknown (expect "negate" m [.d x] ta) = false := by kernel_rfl
theorem known_next_after : isUnknown (expect "next_after" m [.d x, .d y] ta) = false := by
  have h : expect "next_after" m [.d x, .d y] ta = bin x y (fun a b => exactD (nextAfterD a b)) := by kernel_rfl
  rw [h]; exact bin_known _ _ _ fun _ _ => rfl
theorem known_next_down : isUnknown (expect "next_down" m [.d x] ta) = false := by
  have h : expect "next_down" m [.d x] ta = un x (fun a => exactly [.d (encode (nextDownD a))] 0) := by kernel_rfl
  rw [h]; exact un_known _ _ fun _ => rfl
theorem known_next_toward : isUnknown (expect "next_toward" m [.d x, .d y] ta) = false := by
  have h : expect "next_toward" m [.d x, .d y] ta = bin x y (fun a b => exactD (nextAfterD a b)) := by kernel_rfl
  rw [h]; exact bin_known _ _ _ fun _ _ => rfl
theorem known_next_up : isUnknown (expect "next_up" m [.d x] ta) = false := by
  have h : expect "next_up" m [.d x] ta = un x (fun a => exactly [.d (encode (nextUpD a))] 0) := by kernel_rfl
  rw [h]; exact un_known _ _ fun _ => rfl
theorem known_quantexp : isUnknown (expect "quantexp" m [.d x] ta) = false := by
  have h : expect "quantexp" m [.d x] ta =
      (match decode x with
      | .fin _ _ e => exactly [.i e] 0
      | _ => exactly [.i (-2147483648)] fInvalid) := by kernel_rfl
  rw [h]; cases decode x <;> rfl
theorem known_quantize : isUnknown (expect "quantize" m [.d x, .d y] ta) = false := by
  have h : expect "quantize" m [.d x, .d y] ta = bin x y (fun a b => exactD (quantizeD m a b)) := by kernel_rfl
  rw [h]; exact bin_known _ _ _ fun _ _ => rfl
theorem known_quantum : isUnknown (expect "quantum" m [.d x] ta) = false := by
  have h : expect "quantum" m [.d x] ta =
      (match decode x with
      | .nan .. => .pred "is a NaN" (fun r => match r with | [.d b] => (decode b).isNaN | _ => false) 0
      | a => exactly [.d (encode (quantumD a))] 0) := by kernel_rfl
  rw [h]; cases decode x <;> rfl
theorem known_remainder : isUnknown (expect "remainder" m [.d x, .d y] ta) = false := by
  have h : expect "remainder" m [.d x, .d y] ta = bin x y (fun a b => exactD (remD a b)) := by kernel_rfl
  rw [h]; exact bin_known _ _ _ fun _ _ => rfl
theorem known_round_to_integral_exact : isUnknown (expect "round_to_integral_exact" m [.d x] ta) = false := by
  have h : expect "round_to_integral_exact" m [.d x] ta = un x (fun a => let r := toIntegralD m a; exactly [.d (encode r.1)] (if r.2 then fInexact else 0)) := by kernel_rfl
  rw [h]; exact un_known _ _ fun _ => rfl
theorem known_round_to_integral_ties_to_away : isUnknown (expect "round_to_integral_ties_to_away" m [.d x] ta) = false := by
  have h : expect "round_to_integral_ties_to_away" m [.d x] ta = un x (fun a => exactly [.d (encode (toIntegralD .rna a).1)] 0) := by kernel_rfl
  rw [h]; exact un_known _ _ fun _ => rfl
theorem known_round_to_integral_ties_to_even : isUnknown (expect "round_to_integral_ties_to_even" m [.d x] ta) = false := by
  have h : expect "round_to_integral_ties_to_even" m [.d x] ta = un x (fun a => exactly [.d (encode (toIntegralD .rne a).1)] 0) := by kernel_rfl
  rw [h]; exact un_known _ _ fun _ => rfl
theorem known_round_to_integral_ties_toward_negative : isUnknown (expect "round_to_integral_ties_toward_negative" m [.d x] ta) = false := by
  have h : expect "round_to_integral_ties_toward_negative" m [.d x] ta = un x (fun a => exactly [.d (encode (toIntegralD .rdn a).1)] 0) := by kernel_rfl
  rw [h]; exact un_known _ _ fun _ => rfl
theorem known_round_to_integral_ties_toward_positive : isUnknown (expect "round_to_integral_ties_toward_positive" m [.d x] ta) = false := by
  have h : expect "round_to_integral_ties_toward_positive" m [.d x] ta = un x (fun a => exactly [.d (encode (toIntegralD .rup a).1)] 0) := by kernel_rfl
  rw [h]; exact un_known _ _ fun _ => rfl
theorem known_round_to_integral_ties_toward_zero : isUnknown (expect "round_to_integral_ties_toward_zero" m [.d x] ta) = false := by
  have h : expect "round_to_integral_ties_toward_zero" m [.d x] ta = un x (fun a => exactly [.d (encode (toIntegralD .rtz a).1)] 0) := by kernel_rfl
  rw [h]; exact un_known _ _ fun _ => rfl
theorem known_same_quantum : isUnknown (expect "same_quantum" m [.d x, .d y] ta) = false := by kernel_rfl
theorem known_scaleb : isUnknown (expect "scaleb" m [.d x, .i n] ta) = false := by
  have h : expect "scaleb" m [.d x, .i n] ta = un x (fun a => exactD (scalebD m n a)) := by kernel_rfl
  rw [h]; exact un_known _ _ fun _ => rfl
theorem known_scalebln : isUnknown (expect "scalebln" m [.d x, .i n] ta) = false := by
  have h : expect "scalebln" m [.d x, .i n] ta = un x (fun a => exactD (scalebD m (clampI32 n) a)) := by kernel_rfl
  rw [h]; exact un_known _ _ fun _ => rfl
theorem known_square_root : isUnknown (expect "square_root" m [.d x] ta) = false := by
  have h : expect "square_root" m [.d x] ta = un x (fun a => exactD (sqrtD m a)) := by kernel_rfl
  rw [h]; exact un_known _ _ fun _ => rfl
theorem known_subtraction : isUnknown (expect "subtraction" m [.d x, .d y] ta) = false := by
  have h : expect "subtraction" m [.d x, .d y] ta = bin x y (fun a b => exactD (subD m a b)) := by kernel_rfl
  rw [h]; exact bin_known _ _ _ fun _ _ => rfl
theorem known_total_order : isUnknown (expect "total_order" m [.d x, .d y] ta) = false := by kernel_rfl
theorem known_total_order_mag : isUnknown (expect "total_order_mag" m [.d x, .d y] ta) = false := by kernel_rfl
theorem known_op_add_assign_ref : isUnknown (expect "op_add_assign_ref" m [.d x, .d y] ta) = false := by
  have h : expect "op_add_assign_ref" m [.d x, .d y] ta = expectCore.dropFlags (bin x y (fun a b => exactly [.d (encode (addD .rne a b).1)] 0)) := by kernel_rfl
  rw [h]; exact (dropFlags_known _).trans (bin_known _ _ _ fun _ _ => rfl)
theorem known_op_div_assign_ref : isUnknown (expect "op_div_assign_ref" m [.d x, .d y] ta) = false := by
  have h : expect "op_div_assign_ref" m [.d x, .d y] ta = expectCore.dropFlags (bin x y (fun a b => exactly [.d (encode (divD .rne a b).1)] 0)) := by kernel_rfl
  rw [h]; exact (dropFlags_known _).trans (bin_known _ _ _ fun _ _ => rfl)
theorem known_op_mul_assign_ref : isUnknown (expect "op_mul_assign_ref" m [.d x, .d y] ta) = false := by
  have h : expect "op_mul_assign_ref" m [.d x, .d y] ta = expectCore.dropFlags (bin x y (fun a b => exactly [.d (encode (mulD .rne a b).1)] 0)) := by kernel_rfl
  rw [h]; exact (dropFlags_known _).trans (bin_known _ _ _ fun _ _ => rfl)
theorem known_op_neg_ref : isUnknown (expect "op_neg_ref" m [.d x] ta) = false := by kernel_rfl
theorem known_op_rem_assign_ref : isUnknown (expect "op_rem_assign_ref" m [.d x, .d y] ta) = false := by
  have h : expect "op_rem_assign_ref" m [.d x, .d y] ta = expectCore.dropFlags (bin x y (fun a b => exactly [.d (encode (remD a b).1)] 0)) := by kernel_rfl
  rw [h]; exact (dropFlags_known _).trans (bin_known _ _ _ fun _ _ => rfl)
theorem known_op_sub_assign_ref : isUnknown (expect "op_sub_assign_ref" m [.d x, .d y] ta) = false := by
  have h : expect "op_sub_assign_ref" m [.d x, .d y] ta = expectCore.dropFlags (bin x y (fun a b => exactly [.d (encode (subD .rne a b).1)] 0)) := by kernel_rfl
  rw [h]; exact (dropFlags_known _).trans (bin_known _ _ _ fun _ _ => rfl)
theorem known_op_add : isUnknown (expect "op_add" m [.d x, .d y] ta) = false := by
  have h : expect "op_add" m [.d x, .d y] ta = expectCore.dropFlags (bin x y (fun a b => exactly [.d (encode (addD .rne a b).1)] 0)) := by kernel_rfl
  rw [h]; exact (dropFlags_known _).trans (bin_known _ _ _ fun _ _ => rfl)
theorem known_op_add_ref : isUnknown (expect "op_add_ref" m [.d x, .d y] ta) = false := by
  have h : expect "op_add_ref" m [.d x, .d y] ta = expectCore.dropFlags (bin x y (fun a b => exactly [.d (encode (addD .rne a b).1)] 0)) := by kernel_rfl
  rw [h]; exact (dropFlags_known _).trans (bin_known _ _ _ fun _ _ => rfl)
theorem known_op_add_assign : isUnknown (expect "op_add_assign" m [.d x, .d y] ta) = false := by
  have h : expect "op_add_assign" m [.d x, .d y] ta = expectCore.dropFlags (bin x y (fun a b => exactly [.d (encode (addD .rne a b).1)] 0)) := by kernel_rfl
  rw [h]; exact (dropFlags_known _).trans (bin_known _ _ _ fun _ _ => rfl)
theorem known_debug : isUnknown (expect "debug" m [.d x] ta) = false := by kernel_rfl
theorem known_default : isUnknown (expect "default" m [] ta) = false := by kernel_rfl
theorem known_display : isUnknown (expect "display" m [.d x] ta) = false := by kernel_rfl
theorem known_roundtrip_display : isUnknown (expect "roundtrip_display" m [.d x] ta) = false := by kernel_rfl
theorem known_op_div : isUnknown (expect "op_div" m [.d x, .d y] ta) = false := by
  have h : expect "op_div" m [.d x, .d y] ta = expectCore.dropFlags (bin x y (fun a b => exactly [.d (encode (divD .rne a b).1)] 0)) := by kernel_rfl
  rw [h]; exact (dropFlags_known _).trans (bin_known _ _ _ fun _ _ => rfl)
theorem known_op_div_ref : isUnknown (expect "op_div_ref" m [.d x, .d y] ta) = false := by
  have h : expect "op_div_ref" m [.d x, .d y] ta = expectCore.dropFlags (bin x y (fun a b => exactly [.d (encode (divD .rne a b).1)] 0)) := by kernel_rfl
  rw [h]; exact (dropFlags_known _).trans (bin_known _ _ _ fun _ _ => rfl)
theorem known_op_div_assign : isUnknown (expect "op_div_assign" m [.d x, .d y] ta) = false := by
  have h : expect "op_div_assign" m [.d x, .d y] ta = expectCore.dropFlags (bin x y (fun a b => exactly [.d (encode (divD .rne a b).1)] 0)) := by kernel_rfl
  rw [h]; exact (dropFlags_known _).trans (bin_known _ _ _ fun _ _ => rfl)
theorem known_eq : isUnknown (expect "eq" m [.d x, .d y] ta) = false := by kernel_rfl
theorem known_ne : isUnknown (expect "ne" m [.d x, .d y] ta) = false := by kernel_rfl
theorem known_from_string_ref : isUnknown (expect "from_string_ref" m [.s t] ta) = false := by
  have h : expect "from_string_ref" m [.s t] ta = expectCore.dropFlags (expectCore.parseE .rne t) := by kernel_rfl
  rw [h]; exact (dropFlags_known _).trans (parseE_known .rne t)
theorem known_from_f32 : isUnknown (expect "from_f32" m [.f b] ta) = false := by
  have h : expect "from_f32" m [.f b] ta = expectCore.dropFlags (expectCore.binConv .rne (decodeBin 8 23 b)) := by kernel_rfl
  rw [h]; exact (dropFlags_known _).trans (binConv_known .rne _)
theorem known_from_f64 : isUnknown (expect "from_f64" m [.g b] ta) = false := by
  have h : expect "from_f64" m [.g b] ta = expectCore.dropFlags (expectCore.binConv .rne (decodeBin 11 52 b)) := by kernel_rfl
  rw [h]; exact (dropFlags_known _).trans (binConv_known .rne _)
theorem known_from_i32 : isUnknown (expect "from_i32" m [.i n] ta) = false := by kernel_rfl
theorem known_from_i64 : isUnknown (expect "from_i64" m [.i n] ta) = false := by kernel_rfl
theorem known_from_u128 : isUnknown (expect "from_u128" m [.i n] ta) = false := by kernel_rfl
theorem known_from_u32 : isUnknown (expect "from_u32" m [.i n] ta) = false := by kernel_rfl
theorem known_from_u64 : isUnknown (expect "from_u64" m [.i n] ta) = false := by kernel_rfl
theorem known_from_str : isUnknown (expect "from_str" m [.s t] ta) = false := by
  have h : expect "from_str" m [.s t] ta = expectCore.fromStrE t := by kernel_rfl
  rw [h]; exact fromStrE_known t
theorem known_roundtrip_serde : isUnknown (expect "roundtrip_serde" m [.d x] ta) = false := by kernel_rfl
theorem known_lowerexp : isUnknown (expect "lowerexp" m [.d x] ta) = false := by kernel_rfl
theorem known_roundtrip_lowerexp : isUnknown (expect "roundtrip_lowerexp" m [.d x] ta) = false := by kernel_rfl
theorem known_op_mul : isUnknown (expect "op_mul" m [.d x, .d y] ta) = false := by
  have h : expect "op_mul" m [.d x, .d y] ta = expectCore.dropFlags (bin x y (fun a b => exactly [.d (encode (mulD .rne a b).1)] 0)) := by kernel_rfl
  rw [h]; exact (dropFlags_known _).trans (bin_known _ _ _ fun _ _ => rfl)
theorem known_op_mul_ref : isUnknown (expect "op_mul_ref" m [.d x, .d y] ta) = false := by
  have h : expect "op_mul_ref" m [.d x, .d y] ta = expectCore.dropFlags (bin x y (fun a b => exactly [.d (encode (mulD .rne a b).1)] 0)) := by kernel_rfl
  rw [h]; exact (dropFlags_known _).trans (bin_known _ _ _ fun _ _ => rfl)
theorem known_op_mul_assign : isUnknown (expect "op_mul_assign" m [.d x, .d y] ta) = false := by
  have h : expect "op_mul_assign" m [.d x, .d y] ta = expectCore.dropFlags (bin x y (fun a b => exactly [.d (encode (mulD .rne a b).1)] 0)) := by kernel_rfl
  rw [h]; exact (dropFlags_known _).trans (bin_known _ _ _ fun _ _ => rfl)
theorem known_op_neg : isUnknown (expect "op_neg" m [.d x] ta) = false := by kernel_rfl
theorem known_partial_cmp : isUnknown (expect "partial_cmp" m [.d x, .d y] ta) = false := by kernel_rfl
theorem known_lt : isUnknown (expect "lt" m [.d x, .d y] ta) = false := by kernel_rfl
theorem known_le : isUnknown (expect "le" m [.d x, .d y] ta) = false := by kernel_rfl
theorem known_gt : isUnknown (expect "gt" m [.d x, .d y] ta) = false := by kernel_rfl
theorem known_ge : isUnknown (expect "ge" m [.d x, .d y] ta) = false := by kernel_rfl
theorem known_op_rem : isUnknown (expect "op_rem" m [.d x, .d y] ta) = false := by
  have h : expect "op_rem" m [.d x, .d y] ta = expectCore.dropFlags (bin x y (fun a b => exactly [.d (encode (remD a b).1)] 0)) := by kernel_rfl
  rw [h]; exact (dropFlags_known _).trans (bin_known _ _ _ fun _ _ => rfl)
theorem known_op_rem_ref : isUnknown (expect "op_rem_ref" m [.d x, .d y] ta) = false := by
  have h : expect "op_rem_ref" m [.d x, .d y] ta = expectCore.dropFlags (bin x y (fun a b => exactly [.d (encode (remD a b).1)] 0)) := by kernel_rfl
  rw [h]; exact (dropFlags_known _).trans (bin_known _ _ _ fun _ _ => rfl)
theorem known_op_rem_assign : isUnknown (expect "op_rem_assign" m [.d x, .d y] ta) = false := by
  have h : expect "op_rem_assign" m [.d x, .d y] ta = expectCore.dropFlags (bin x y (fun a b => exactly [.d (encode (remD a b).1)] 0)) := by kernel_rfl
  rw [h]; exact (dropFlags_known _).trans (bin_known _ _ _ fun _ _ => rfl)
theorem known_op_sub : isUnknown (expect "op_sub" m [.d x, .d y] ta) = false := by
  have h : expect "op_sub" m [.d x, .d y] ta = expectCore.dropFlags (bin x y (fun a b => exactly [.d (encode (subD .rne a b).1)] 0)) := by kernel_rfl
  rw [h]; exact (dropFlags_known _).trans (bin_known _ _ _ fun _ _ => rfl)
theorem known_op_sub_ref : isUnknown (expect "op_sub_ref" m [.d x, .d y] ta) = false := by
  have h : expect "op_sub_ref" m [.d x, .d y] ta = expectCore.dropFlags (bin x y (fun a b => exactly [.d (encode (subD .rne a b).1)] 0)) := by kernel_rfl
  rw [h]; exact (dropFlags_known _).trans (bin_known _ _ _ fun _ _ => rfl)
theorem known_op_sub_assign : isUnknown (expect "op_sub_assign" m [.d x, .d y] ta) = false := by
  have h : expect "op_sub_assign" m [.d x, .d y] ta = expectCore.dropFlags (bin x y (fun a b => exactly [.d (encode (subD .rne a b).1)] 0)) := by kernel_rfl
  rw [h]; exact (dropFlags_known _).trans (bin_known _ _ _ fun _ _ => rfl)
theorem known_upperexp : isUnknown (expect "upperexp" m [.d x] ta) = false := by kernel_rfl
theorem known_hash : isUnknown (expect "hash" m [.d x] ta) = false := by kernel_rfl
theorem known_hash_pair : isUnknown (expect "hash_pair" m [.d x, .d y] ta) = false := by kernel_rfl
theorem known_hash_slice : isUnknown (expect "hash_slice" m args ta) = false := by kernel_rfl
theorem known_product : isUnknown (expect "product" m (xs.map Val.d) ta) = false := by
  have h : expect "product" m (xs.map Val.d) ta = expectCore.foldE false (xs.map Val.d) := by kernel_rfl
  rw [h]; exact foldE_known false xs
theorem known_product_ref : isUnknown (expect "product_ref" m (xs.map Val.d) ta) = false := by
  have h : expect "product_ref" m (xs.map Val.d) ta = expectCore.foldE false (xs.map Val.d) := by kernel_rfl
  rw [h]; exact foldE_known false xs
theorem known_sum : isUnknown (expect "sum" m (xs.map Val.d) ta) = false := by
  have h : expect "sum" m (xs.map Val.d) ta = expectCore.foldE true (xs.map Val.d) := by kernel_rfl
  rw [h]; exact foldE_known true xs
theorem known_sum_ref : isUnknown (expect "sum_ref" m (xs.map Val.d) ta) = false := by
  have h : expect "sum_ref" m (xs.map Val.d) ta = expectCore.foldE true (xs.map Val.d) := by kernel_rfl
  rw [h]; exact foldE_known true xs

/-- `const`: every name of the constant table is known -/
theorem known_const (p : String × Nat) (hp : p ∈ constTable) : isUnknown (expect "const" m [.s (strBytes p.1)] ta) = false := by
  have h : expect "const" m [.s (strBytes p.1)] ta =
      (match constTable.find? (fun q => strBytes q.1 == strBytes p.1) with
       | some q => exactly [.d q.2] 0
       | none => .unknown) := by kernel_rfl
  rw [h]
  cases hf : constTable.find? (fun q => strBytes q.1 == strBytes p.1) with
  | some q => rfl
  | none =>
    rw [List.find?_eq_none] at hf
    exact absurd (beq_self_eq_true _) (hf p hp)

end facts

/-! ### grouped by signature -/

/-- harness operations taking one d128 argument -/
def opsD1 : List String := [
  "abs", "class", "convert_to_i32_exact_ties_to_away", "convert_to_i32_exact_ties_to_even",
  "convert_to_i32_exact_toward_negative", "convert_to_i32_exact_toward_positive", "convert_to_i32_exact_toward_zero", "convert_to_i32_ties_to_away",
  "convert_to_i32_ties_to_even", "convert_to_i32_toward_negative", "convert_to_i32_toward_positive", "convert_to_i32_toward_zero",
  "convert_to_i64_exact_ties_to_away", "convert_to_i64_exact_ties_to_even", "convert_to_i64_exact_toward_negative", "convert_to_i64_exact_toward_positive",
  "convert_to_i64_exact_toward_zero", "convert_to_i64_ties_to_away", "convert_to_i64_ties_to_even", "convert_to_i64_toward_negative",
  "convert_to_i64_toward_positive", "convert_to_i64_toward_zero", "convert_to_u32_exact_ties_to_away", "convert_to_u32_exact_ties_to_even",
  "convert_to_u32_exact_toward_negative", "convert_to_u32_exact_toward_positive", "convert_to_u32_exact_toward_zero", "convert_to_u32_ties_to_away",
  "convert_to_u32_ties_to_even", "convert_to_u32_toward_negative", "convert_to_u32_toward_positive", "convert_to_u32_toward_zero",
  "convert_to_u64_exact_ties_to_away", "convert_to_u64_exact_ties_to_even", "convert_to_u64_exact_toward_negative", "convert_to_u64_exact_toward_positive",
  "convert_to_u64_exact_toward_zero", "convert_to_u64_ties_to_away", "convert_to_u64_ties_to_even", "convert_to_u64_toward_negative",
  "convert_to_u64_toward_positive", "convert_to_u64_toward_zero", "copy", "decode_decimal",
  "encode_decimal", "frexp", "is_canonical", "is_finite",
  "is_infinite", "is_nan", "is_normal", "is_sign_minus",
  "is_signaling", "is_subnormal", "is_zero", "llquantexp",
  "llrint", "llround", "log_b", "logb",
  "lrint", "lround", "modf", "nearbyint",
  "negate", "next_down", "next_up", "quantexp",
  "quantum", "round_to_integral_exact", "round_to_integral_ties_to_away", "round_to_integral_ties_to_even",
  "round_to_integral_ties_toward_negative", "round_to_integral_ties_toward_positive", "round_to_integral_ties_toward_zero", "square_root",
  "op_neg_ref", "debug", "display", "roundtrip_display",
  "roundtrip_serde", "lowerexp", "roundtrip_lowerexp", "op_neg",
  "upperexp", "hash"
]

/-- every operation of `opsD1`, applied to one d128 argument, has a defined expectation — for all argument values, every rounding mode, either tininess convention -/
theorem total_D1 : ∀ op ∈ opsD1, ∀ (m : Mode) (x : Nat) (ta : Bool), isUnknown (expect op m [.d x] ta) = false :=
  List.forall_mem_cons.2 ⟨known_abs,
  List.forall_mem_cons.2 ⟨known_class,
  List.forall_mem_cons.2 ⟨known_convert_to_i32_exact_ties_to_away,
  List.forall_mem_cons.2 ⟨known_convert_to_i32_exact_ties_to_even,
  List.forall_mem_cons.2 ⟨known_convert_to_i32_exact_toward_negative,
  List.forall_mem_cons.2 ⟨known_convert_to_i32_exact_toward_positive,
  List.forall_mem_cons.2 ⟨known_convert_to_i32_exact_toward_zero,
  List.forall_mem_cons.2 ⟨known_convert_to_i32_ties_to_away,
  List.forall_mem_cons.2 ⟨known_convert_to_i32_ties_to_even,
  List.forall_mem_cons.2 ⟨known_convert_to_i32_toward_negative,
  List.forall_mem_cons.2 ⟨known_convert_to_i32_toward_positive,
  List.forall_mem_cons.2 ⟨known_convert_to_i32_toward_zero,
  List.forall_mem_cons.2 ⟨known_convert_to_i64_exact_ties_to_away,
  List.forall_mem_cons.2 ⟨known_convert_to_i64_exact_ties_to_even,
  List.forall_mem_cons.2 ⟨known_convert_to_i64_exact_toward_negative,
  List.forall_mem_cons.2 ⟨known_convert_to_i64_exact_toward_positive,
  List.forall_mem_cons.2 ⟨known_convert_to_i64_exact_toward_zero,
  List.forall_mem_cons.2 ⟨known_convert_to_i64_ties_to_away,
  List.forall_mem_cons.2 ⟨known_convert_to_i64_ties_to_even,
  List.forall_mem_cons.2 ⟨known_convert_to_i64_toward_negative,
  List.forall_mem_cons.2 ⟨known_convert_to_i64_toward_positive,
  List.forall_mem_cons.2 ⟨known_convert_to_i64_toward_zero,
  List.forall_mem_cons.2 ⟨known_convert_to_u32_exact_ties_to_away,
  List.forall_mem_cons.2 ⟨known_convert_to_u32_exact_ties_to_even,
  List.forall_mem_cons.2 ⟨known_convert_to_u32_exact_toward_negative,
  List.forall_mem_cons.2 ⟨known_convert_to_u32_exact_toward_positive,
  List.forall_mem_cons.2 ⟨known_convert_to_u32_exact_toward_zero,
  List.forall_mem_cons.2 ⟨known_convert_to_u32_ties_to_away,
  List.forall_mem_cons.2 ⟨known_convert_to_u32_ties_to_even,
  List.forall_mem_cons.2 ⟨known_convert_to_u32_toward_negative,
  List.forall_mem_cons.2 ⟨known_convert_to_u32_toward_positive,
  List.forall_mem_cons.2 ⟨known_convert_to_u32_toward_zero,
  List.forall_mem_cons.2 ⟨known_convert_to_u64_exact_ties_to_away,
  List.forall_mem_cons.2 ⟨known_convert_to_u64_exact_ties_to_even,
  List.forall_mem_cons.2 ⟨known_convert_to_u64_exact_toward_negative,
  List.forall_mem_cons.2 ⟨known_convert_to_u64_exact_toward_positive,
  List.forall_mem_cons.2 ⟨known_convert_to_u64_exact_toward_zero,
  List.forall_mem_cons.2 ⟨known_convert_to_u64_ties_to_away,
  List.forall_mem_cons.2 ⟨known_convert_to_u64_ties_to_even,
  List.forall_mem_cons.2 ⟨known_convert_to_u64_toward_negative,
  List.forall_mem_cons.2 ⟨known_convert_to_u64_toward_positive,
  List.forall_mem_cons.2 ⟨known_convert_to_u64_toward_zero,
  List.forall_mem_cons.2 ⟨known_copy,
  List.forall_mem_cons.2 ⟨known_decode_decimal,
  List.forall_mem_cons.2 ⟨known_encode_decimal,
  List.forall_mem_cons.2 ⟨known_frexp,
  List.forall_mem_cons.2 ⟨known_is_canonical,
  List.forall_mem_cons.2 ⟨known_is_finite,
  List.forall_mem_cons.2 ⟨known_is_infinite,
  List.forall_mem_cons.2 ⟨known_is_nan,
  List.forall_mem_cons.2 ⟨known_is_normal,
  List.forall_mem_cons.2 ⟨known_is_sign_minus,
  List.forall_mem_cons.2 ⟨known_is_signaling,
  List.forall_mem_cons.2 ⟨known_is_subnormal,
  List.forall_mem_cons.2 ⟨known_is_zero,
  List.forall_mem_cons.2 ⟨known_llquantexp,
  List.forall_mem_cons.2 ⟨known_llrint,
  List.forall_mem_cons.2 ⟨known_llround,
  List.forall_mem_cons.2 ⟨known_log_b,
  List.forall_mem_cons.2 ⟨known_logb,
  List.forall_mem_cons.2 ⟨known_lrint,
  List.forall_mem_cons.2 ⟨known_lround,
  List.forall_mem_cons.2 ⟨known_modf,
  List.forall_mem_cons.2 ⟨known_nearbyint,
  List.forall_mem_cons.2 ⟨known_negate,
  List.forall_mem_cons.2 ⟨known_next_down,
  List.forall_mem_cons.2 ⟨known_next_up,
  List.forall_mem_cons.2 ⟨known_quantexp,
  List.forall_mem_cons.2 ⟨known_quantum,
  List.forall_mem_cons.2 ⟨known_round_to_integral_exact,
  List.forall_mem_cons.2 ⟨known_round_to_integral_ties_to_away,
  List.forall_mem_cons.2 ⟨known_round_to_integral_ties_to_even,
  List.forall_mem_cons.2 ⟨known_round_to_integral_ties_toward_negative,
  List.forall_mem_cons.2 ⟨known_round_to_integral_ties_toward_positive,
  List.forall_mem_cons.2 ⟨known_round_to_integral_ties_toward_zero,
  List.forall_mem_cons.2 ⟨known_square_root,
  List.forall_mem_cons.2 ⟨known_op_neg_ref,
  List.forall_mem_cons.2 ⟨known_debug,
  List.forall_mem_cons.2 ⟨known_display,
  List.forall_mem_cons.2 ⟨known_roundtrip_display,
  List.forall_mem_cons.2 ⟨known_roundtrip_serde,
  List.forall_mem_cons.2 ⟨known_lowerexp,
  List.forall_mem_cons.2 ⟨known_roundtrip_lowerexp,
  List.forall_mem_cons.2 ⟨known_op_neg,
  List.forall_mem_cons.2 ⟨known_upperexp,
  List.forall_mem_cons.2 ⟨known_hash,
  List.forall_mem_nil _⟩⟩⟩⟩⟩⟩⟩⟩⟩⟩⟩⟩⟩⟩⟩⟩⟩⟩⟩⟩⟩⟩⟩⟩⟩⟩⟩⟩⟩⟩⟩⟩⟩⟩⟩⟩⟩⟩⟩⟩⟩⟩⟩⟩⟩⟩⟩⟩⟩⟩⟩⟩⟩⟩⟩⟩⟩⟩⟩⟩⟩⟩⟩⟩⟩⟩⟩⟩⟩⟩⟩⟩⟩⟩⟩⟩⟩⟩⟩⟩⟩⟩⟩⟩⟩⟩

/-- harness operations taking two d128 arguments -/
def opsD2 : List String := [
  "addition", "compare_quiet_equal", "compare_quiet_greater", "compare_quiet_greater_equal",
  "compare_quiet_greater_unordered", "compare_quiet_less", "compare_quiet_less_equal", "compare_quiet_less_unordered",
  "compare_quiet_not_equal", "compare_quiet_not_greater", "compare_quiet_not_less", "compare_quiet_ordered",
  "compare_quiet_unordered", "compare_signaling_greater", "compare_signaling_greater_equal", "compare_signaling_greater_unordered",
  "compare_signaling_less", "compare_signaling_less_equal", "compare_signaling_less_unordered", "compare_signaling_not_greater",
  "compare_signaling_not_less", "copy_sign", "division", "fdim",
  "fmod", "max_num", "max_num_mag", "min_num",
  "min_num_mag", "multiplication", "next_after", "next_toward",
  "quantize", "remainder", "same_quantum", "subtraction",
  "total_order", "total_order_mag", "op_add_assign_ref", "op_div_assign_ref",
  "op_mul_assign_ref", "op_rem_assign_ref", "op_sub_assign_ref", "op_add",
  "op_add_ref", "op_add_assign", "op_div", "op_div_ref",
  "op_div_assign", "eq", "ne", "op_mul",
  "op_mul_ref", "op_mul_assign", "partial_cmp", "lt",
  "le", "gt", "ge", "op_rem",
  "op_rem_ref", "op_rem_assign", "op_sub", "op_sub_ref",
  "op_sub_assign", "hash_pair"
]

/-- every operation of `opsD2`, applied to two d128 arguments, has a defined expectation — for all argument values, every rounding mode, either tininess convention -/
theorem total_D2 : ∀ op ∈ opsD2, ∀ (m : Mode) (x y : Nat) (ta : Bool), isUnknown (expect op m [.d x, .d y] ta) = false :=
  List.forall_mem_cons.2 ⟨known_addition,
  List.forall_mem_cons.2 ⟨known_compare_quiet_equal,
  List.forall_mem_cons.2 ⟨known_compare_quiet_greater,
  List.forall_mem_cons.2 ⟨known_compare_quiet_greater_equal,
  List.forall_mem_cons.2 ⟨known_compare_quiet_greater_unordered,
  List.forall_mem_cons.2 ⟨known_compare_quiet_less,
  List.forall_mem_cons.2 ⟨known_compare_quiet_less_equal,
  List.forall_mem_cons.2 ⟨known_compare_quiet_less_unordered,
  List.forall_mem_cons.2 ⟨known_compare_quiet_not_equal,
  List.forall_mem_cons.2 ⟨known_compare_quiet_not_greater,
  List.forall_mem_cons.2 ⟨known_compare_quiet_not_less,
  List.forall_mem_cons.2 ⟨known_compare_quiet_ordered,
  List.forall_mem_cons.2 ⟨known_compare_quiet_unordered,
  List.forall_mem_cons.2 ⟨known_compare_signaling_greater,
  List.forall_mem_cons.2 ⟨known_compare_signaling_greater_equal,
  List.forall_mem_cons.2 ⟨known_compare_signaling_greater_unordered,
  List.forall_mem_cons.2 ⟨known_compare_signaling_less,
  List.forall_mem_cons.2 ⟨known_compare_signaling_less_equal,
  List.forall_mem_cons.2 ⟨known_compare_signaling_less_unordered,
  List.forall_mem_cons.2 ⟨known_compare_signaling_not_greater,
  List.forall_mem_cons.2 ⟨known_compare_signaling_not_less,
  List.forall_mem_cons.2 ⟨known_copy_sign,
  List.forall_mem_cons.2 ⟨known_division,
  List.forall_mem_cons.2 ⟨known_fdim,
  List.forall_mem_cons.2 ⟨known_fmod,
  List.forall_mem_cons.2 ⟨known_max_num,
  List.forall_mem_cons.2 ⟨known_max_num_mag,
  List.forall_mem_cons.2 ⟨known_min_num,
  List.forall_mem_cons.2 ⟨known_min_num_mag,
  List.forall_mem_cons.2 ⟨known_multiplication,
  List.forall_mem_cons.2 ⟨known_next_after,
  List.forall_mem_cons.2 ⟨known_next_toward,
  List.forall_mem_cons.2 ⟨known_quantize,
  List.forall_mem_cons.2 ⟨known_remainder,
  List.forall_mem_cons.2 ⟨known_same_quantum,
  List.forall_mem_cons.2 ⟨known_subtraction,
  List.forall_mem_cons.2 ⟨known_total_order,
  List.forall_mem_cons.2 ⟨known_total_order_mag,
  List.forall_mem_cons.2 ⟨known_op_add_assign_ref,
  List.forall_mem_cons.2 ⟨known_op_div_assign_ref,
  List.forall_mem_cons.2 ⟨known_op_mul_assign_ref,
  List.forall_mem_cons.2 ⟨known_op_rem_assign_ref,
  List.forall_mem_cons.2 ⟨known_op_sub_assign_ref,
  List.forall_mem_cons.2 ⟨known_op_add,
  List.forall_mem_cons.2 ⟨known_op_add_ref,
  List.forall_mem_cons.2 ⟨known_op_add_assign,
  List.forall_mem_cons.2 ⟨known_op_div,
  List.forall_mem_cons.2 ⟨known_op_div_ref,
  List.forall_mem_cons.2 ⟨known_op_div_assign,
  List.forall_mem_cons.2 ⟨known_eq,
  List.forall_mem_cons.2 ⟨known_ne,
  List.forall_mem_cons.2 ⟨known_op_mul,
  List.forall_mem_cons.2 ⟨known_op_mul_ref,
  List.forall_mem_cons.2 ⟨known_op_mul_assign,
  List.forall_mem_cons.2 ⟨known_partial_cmp,
  List.forall_mem_cons.2 ⟨known_lt,
  List.forall_mem_cons.2 ⟨known_le,
  List.forall_mem_cons.2 ⟨known_gt,
  List.forall_mem_cons.2 ⟨known_ge,
  List.forall_mem_cons.2 ⟨known_op_rem,
  List.forall_mem_cons.2 ⟨known_op_rem_ref,
  List.forall_mem_cons.2 ⟨known_op_rem_assign,
  List.forall_mem_cons.2 ⟨known_op_sub,
  List.forall_mem_cons.2 ⟨known_op_sub_ref,
  List.forall_mem_cons.2 ⟨known_op_sub_assign,
  List.forall_mem_cons.2 ⟨known_hash_pair,
  List.forall_mem_nil _⟩⟩⟩⟩⟩⟩⟩⟩⟩⟩⟩⟩⟩⟩⟩⟩⟩⟩⟩⟩⟩⟩⟩⟩⟩⟩⟩⟩⟩⟩⟩⟩⟩⟩⟩⟩⟩⟩⟩⟩⟩⟩⟩⟩⟩⟩⟩⟩⟩⟩⟩⟩⟩⟩⟩⟩⟩⟩⟩⟩⟩⟩⟩⟩⟩⟩

/-- harness operations taking three d128 arguments -/
def opsD3 : List String := [
  "fused_multiply_add"
]

/-- every operation of `opsD3`, applied to three d128 arguments, has a defined expectation — for all argument values, every rounding mode, either tininess convention -/
theorem total_D3 : ∀ op ∈ opsD3, ∀ (m : Mode) (x y z : Nat) (ta : Bool), isUnknown (expect op m [.d x, .d y, .d z] ta) = false :=
  List.forall_mem_cons.2 ⟨known_fused_multiply_add,
  List.forall_mem_nil _⟩

/-- harness operations taking a d128 and an integer -/
def opsDI : List String := [
  "ldexp", "scaleb", "scalebln"
]

/-- every operation of `opsDI`, applied to a d128 and an integer, has a defined expectation — for all argument values, every rounding mode, either tininess convention -/
theorem total_DI : ∀ op ∈ opsDI, ∀ (m : Mode) (x : Nat) (n : Int) (ta : Bool), isUnknown (expect op m [.d x, .i n] ta) = false :=
  List.forall_mem_cons.2 ⟨known_ldexp,
  List.forall_mem_cons.2 ⟨known_scaleb,
  List.forall_mem_cons.2 ⟨known_scalebln,
  List.forall_mem_nil _⟩⟩⟩

/-- harness operations taking one integer argument -/
def opsI : List String := [
  "from_i32", "from_i64", "from_u128", "from_u32",
  "from_u64"
]

/-- every operation of `opsI`, applied to one integer argument, has a defined expectation — for all argument values, every rounding mode, either tininess convention -/
theorem total_I : ∀ op ∈ opsI, ∀ (m : Mode) (n : Int) (ta : Bool), isUnknown (expect op m [.i n] ta) = false :=
  List.forall_mem_cons.2 ⟨known_from_i32,
  List.forall_mem_cons.2 ⟨known_from_i64,
  List.forall_mem_cons.2 ⟨known_from_u128,
  List.forall_mem_cons.2 ⟨known_from_u32,
  List.forall_mem_cons.2 ⟨known_from_u64,
  List.forall_mem_nil _⟩⟩⟩⟩⟩

/-- harness operations taking one text argument -/
def opsS : List String := [
  "convert_from_decimal_character", "nan", "from_string_ref", "from_str"
]

/-- every operation of `opsS`, applied to one text argument, has a defined expectation — for all argument values, every rounding mode, either tininess convention -/
theorem total_S : ∀ op ∈ opsS, ∀ (m : Mode) (t : Bytes) (ta : Bool), isUnknown (expect op m [.s t] ta) = false :=
  List.forall_mem_cons.2 ⟨known_convert_from_decimal_character,
  List.forall_mem_cons.2 ⟨known_nan,
  List.forall_mem_cons.2 ⟨known_from_string_ref,
  List.forall_mem_cons.2 ⟨known_from_str,
  List.forall_mem_nil _⟩⟩⟩⟩

/-- harness operations taking one f32 argument (by bits) -/
def opsF : List String := [
  "convert_from_f32", "from_f32"
]

/-- every operation of `opsF`, applied to one f32 argument (by bits), has a defined expectation — for all argument values, every rounding mode, either tininess convention -/
theorem total_F : ∀ op ∈ opsF, ∀ (m : Mode) (b : Nat) (ta : Bool), isUnknown (expect op m [.f b] ta) = false :=
  List.forall_mem_cons.2 ⟨known_convert_from_f32,
  List.forall_mem_cons.2 ⟨known_from_f32,
  List.forall_mem_nil _⟩⟩

/-- harness operations taking one f64 argument (by bits) -/
def opsG : List String := [
  "convert_from_f64", "from_f64"
]

/-- every operation of `opsG`, applied to one f64 argument (by bits), has a defined expectation — for all argument values, every rounding mode, either tininess convention -/
theorem total_G : ∀ op ∈ opsG, ∀ (m : Mode) (b : Nat) (ta : Bool), isUnknown (expect op m [.g b] ta) = false :=
  List.forall_mem_cons.2 ⟨known_convert_from_f64,
  List.forall_mem_cons.2 ⟨known_from_f64,
  List.forall_mem_nil _⟩⟩

/-- harness operations taking no argument -/
def opsNil : List String := [
  "default"
]

/-- every operation of `opsNil`, applied to no argument, has a defined expectation — for all argument values, every rounding mode, either tininess convention -/
theorem total_Nil : ∀ op ∈ opsNil, ∀ (m : Mode) (ta : Bool), isUnknown (expect op m [] ta) = false :=
  List.forall_mem_cons.2 ⟨known_default,
  List.forall_mem_nil _⟩

/-- harness operations taking any argument list (the properties only demand "returns normally") -/
def opsAny : List String := [
  "hash_slice"
]

/-- every operation of `opsAny`, applied to any argument list (the properties only demand "returns normally"), has a defined expectation — for all argument values, every rounding mode, either tininess convention -/
theorem total_Any : ∀ op ∈ opsAny, ∀ (m : Mode) (args : List Val) (ta : Bool), isUnknown (expect op m args ta) = false :=
  List.forall_mem_cons.2 ⟨known_hash_slice,
  List.forall_mem_nil _⟩

/-- harness operations taking a list of d128s (iterator folds) -/
def opsFold : List String := [
  "product", "product_ref", "sum", "sum_ref"
]

/-- every operation of `opsFold`, applied to a list of d128s (iterator folds), has a defined expectation — for all argument values, every rounding mode, either tininess convention -/
theorem total_Fold : ∀ op ∈ opsFold, ∀ (m : Mode) (xs : List Nat) (ta : Bool), isUnknown (expect op m (xs.map Val.d) ta) = false :=
  List.forall_mem_cons.2 ⟨known_product,
  List.forall_mem_cons.2 ⟨known_product_ref,
  List.forall_mem_cons.2 ⟨known_sum,
  List.forall_mem_cons.2 ⟨known_sum_ref,
  List.forall_mem_nil _⟩⟩⟩⟩

/-- the names of the constant table (`const` takes the name as text) -/
theorem total_Const (p : String × Nat) (hp : p ∈ constTable) (m : Mode) (ta : Bool) :
    isUnknown (expect "const" m [.s (strBytes p.1)] ta) = false := known_const m ta p hp

/-- the signature classes above -/
def allOps : List String :=
  opsD1 ++ opsD2 ++ opsD3 ++ opsDI ++ opsI ++ opsS ++ opsF ++ opsG ++ opsNil ++ opsAny ++ opsFold ++ ["const"]

/-- **Every harness operation that drives a public entry point is covered**: each operation name occurring in
`Dec.entryPoints` belongs to one of the signature classes for which totality is proved above (`total_D1` …
`total_Fold`, `total_Const`), and conversely every operation of these classes drives some entry point. -/
theorem entryPoints_covered :
    (entryPoints.flatMap (·.2)).all (fun op => allOps.contains op) = true ∧
    allOps.all (fun op => (entryPoints.flatMap (·.2)).contains op) = true := by
  decide +kernel

/-- no operation sits in two classes (so "well-typed argument list" is unambiguous) -/
theorem allOps_nodup : allOps.Nodup := by decide +kernel

/-- the twelve associated constants of the crate are the twelve names of `constTable` -/
theorem const_names : constTable.map (·.1) =
    ["MINUS_ONE", "ZERO", "ONE", "NAN", "NEG_NAN", "SNAN", "NEG_SNAN", "INFINITY", "NEGATIVE_INFINITY", "EPSILON", "MIN", "MAX"] ∧
    constTable.all (fun p => entryPoints.any (fun q => q.1 == "const:" ++ p.1)) = true := by
  decide +kernel

/-- **C15, model side, in one statement**: a well-typed observation of an operation with d128 arguments only
(the bulk of the API) never gets the verdict "unknown op". -/
theorem d128_ops_judged (o : Obs) (ta : Bool) (why : String) :
    (o.op ∈ opsD1 → ∀ x, o.args = [.d x] → accepts ta o ≠ .bad why) ∧
    (o.op ∈ opsD2 → ∀ x y, o.args = [.d x, .d y] → accepts ta o ≠ .bad why) ∧
    (o.op ∈ opsD3 → ∀ x y z, o.args = [.d x, .d y, .d z] → accepts ta o ≠ .bad why) := by
  refine ⟨fun h x ha => ?_, fun h x y ha => ?_, fun h x y z ha => ?_⟩ <;>
    (unfold accepts; rw [ha]; refine known_not_bad _ _ ?_ _)
  · exact total_D1 _ h _ _ _
  · exact total_D2 _ h _ _ _ _
  · exact total_D3 _ h _ _ _ _ _

-- the classes are inhabited by the expected names
example : "addition" ∈ opsD2 ∧ "convert_to_u64_exact_ties_to_away" ∈ opsD1 ∧ "fused_multiply_add" ∈ opsD3 ∧
    "from_str" ∈ opsS ∧ "display" ∈ opsD1 ∧ "sum_ref" ∈ opsFold := by decide +kernel
example : isUnknown (expect "addition" .rne [.d 0, .d 0]) = false := total_D2 _ (by decide +kernel) _ _ _ _
-- an ill-typed argument list, or a name that is not an operation, is unknown
example : isUnknown (expect "addition" .rne [.d 0]) = true := by kernel_rfl
example : isUnknown (expect "no_such_op" .rne [.d 0]) = true := by kernel_rfl

end Dec.C15Total
