/-
  Static obligation (C14): the only places where the code under test reads or overwrites a caller's
  status word (anything other than `*p |= bits`) are the ones classified below.

  * `fdim`, `nextafter`: save the word, call a comparison, restore the word (a save/restore scope: the
    comparison's flags are discarded, the word itself is unchanged);
  * `bid128_ext_fma`: save, clear, compute, OR the saved word back (a save-clear-or-back scope: the read of
    the inexact bit happens on the cleared word, i.e. on bits raised by this call only);
  * the two underflow packers read `is_inexact(*pfpsc)`: after the repair of D4 every caller hands them
    a word that holds only bits raised by the current call.

  A new read — the usual way a result comes to depend on flag history — changes the regenerated list
  and breaks `flag_reads_classified`.
-/
import DecGen.FlagAccess

namespace Dec.Static

def classifiedFlagReads : List (String × String × String) := [
  ("bid128_fdim.rs", "bid128_fdim", "*pfpsf = tmp_fpsf;"),
  ("bid128_fdim.rs", "bid128_fdim", "let tmp_fpsf: _IDEC_flags = *pfpsf;"),
  ("bid128_fma.rs", "bid128_ext_fma", "*pfpsf = 0;"),
  ("bid128_fma.rs", "bid128_ext_fma", "if (*pfpsf & StatusFlags::BID_INEXACT_EXCEPTION) == 0 {"),
  ("bid128_fma.rs", "bid128_ext_fma", "save_fpsf = *pfpsf;"),
  ("bid128_next.rs", "bid128_nextafter", "*pfpsf = tmp_fpsf;"),
  ("bid128_next.rs", "bid128_nextafter", "tmp_fpsf = *pfpsf;"),
  ("bid_internal.rs", "bid_handle_UF_128_rem", "if is_inexact(*pfpsc) {"),
  ("bid_internal.rs", "handle_UF_128", "if is_inexact(*pfpsc) {")
]

theorem flag_reads_classified :
    Dec.Gen.flagReads.all (fun r => classifiedFlagReads.contains r) = true := by
  decide +kernel

end Dec.Static
