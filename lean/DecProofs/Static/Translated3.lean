/-
  Static obligation for the third translated module (`DecGen/Code3.lean`: the trait glue and one-line methods of src/d128.rs —
  operator impls, `*Assign`, `Neg`, integer `From` impls, `From<u128>`, `Default`, `copy`, `copy_sign`, `is_canonical` —
  regenerated from /repo/src on every run by a second run of the translator, which must also reproduce `Code.lean` byte for
  byte) and for the dispatch of the glue entry points (`DecGen/Api3.lean`, incl. the `Sum` / `Product` folds, whose bodies are
  matched literally): nothing fell out of the translator's subset, and no entry point lost its arm.
-/
import DecGen.Code3
import DecGen.Api3

namespace Dec.Static

/-- nothing on the third whitelist was left untranslated -/
theorem all_translated3 : Dec.Gen.Code3.untranslated.isEmpty = true := by
  decide +kernel

/-- the 35 functions of `translate/whitelist3.txt` (20 glue functions of d128.rs, 4 digit-group helpers of bid128_2_str_macros.rs, 6 text wrappers, 4 formatter impls, the tiny-after wrapper of bid128_fma) are all there -/
theorem translated3_count : Dec.Gen.Code3.translated.length = 35 := by
  decide +kernel

/-- 43 glue entry points (35 + the four text entry points over the string routine as a parameter + the four formatter impls over the formatter as a parameter: (operators by value and by reference, compound assignments, `Neg`, integer / `u128` conversions,
`Default`, `copy`, `copy_sign`, `is_canonical`, `Sum`, `Product` by value and by reference) are each dispatched -/
theorem glue_dispatched : Dec.Gen.Api3.covered.length = 43 := by
  decide +kernel

end Dec.Static
