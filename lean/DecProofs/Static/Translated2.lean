/-
  Static obligation for the second translated module (`DecGen/Code2.lean`: the binary-float conversions of
  bid_binarydecimal.rs and their helpers, regenerated from /repo/src on every run) and for the dispatch of the four public
  methods that take a binary float (`DecGen/Api2.lean`, scraped from d128.rs): nothing fell out of the translator's subset.
-/
import DecGen.Code2
import DecGen.Api2

namespace Dec.Static

/-- nothing on the second whitelist was left untranslated -/
theorem all_translated2 : Dec.Gen.Code2.untranslated.isEmpty = true := by
  decide +kernel

/-- the 14 routines of `translate/whitelist2.txt` are all there -/
theorem translated2_count : Dec.Gen.Code2.translated.length = 14 := by
  decide +kernel

/-- `convert_from_f32`, `convert_from_f64`, `From<f32>`, `From<f64>` are each one call of a translated routine -/
theorem float_methods_dispatched : Dec.Gen.Api2.covered.length = 4 := by
  decide +kernel

end Dec.Static
