/-
  Static obligation: every whitelisted helper routine of /repo/src was inside the translator's subset on this run
  (`DecGen/Code.lean` is regenerated from the source every time), and the routines the helper judge
  (`DecModel/HkGen.lean`) runs are among the translated ones.  If a change to /repo takes a routine out of the
  subset, this stops checking — the theorems about the translated code would silently be about nothing.
-/
import DecGen.Code

namespace Dec.Static

/-- nothing on the whitelist was left untranslated -/
theorem all_translated : Dec.Gen.Code.untranslated.isEmpty = true := by
  decide +kernel

/-- the 219 routines of `translate/whitelist.txt` are all there -/
theorem translated_count : Dec.Gen.Code.translated.length = 219 := by
  decide +kernel

end Dec.Static
