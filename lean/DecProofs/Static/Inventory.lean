/-
  Static obligation (C15): every public entry point scraped from /repo/src/d128.rs on this run is
  driven by the harness and has an expectation in the judge.
-/
import DecGen.Inventory
import DecModel.EntryPoints
import DecModel.Ops

namespace Dec.Static

/-- every scraped entry point is listed in `Dec.entryPoints` … -/
theorem inventory_covered :
    Dec.Gen.inventory.all (fun i => Dec.entryPoints.any (fun p => p.1 == i)) = true := by
  decide +kernel

end Dec.Static
