import DecModel.HkJudge

/-- `judgehk`: reads `hk_<name>` observation lines on stdin, writes one verdict line each. -/
partial def loopHk (h : IO.FS.Stream) (out : IO.FS.Stream) : IO Unit := do
  let line ← h.getLine
  if line.isEmpty then return ()
  let t := line.trimAscii.toString
  if t.isEmpty || t.startsWith "#" then
    out.putStrLn "skip"
  else
    out.putStrLn (Dec.judgeHkLine t)
  loopHk h out

def main : IO Unit := do
  loopHk (← IO.getStdin) (← IO.getStdout)
