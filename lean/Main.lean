import DecModel.Judge

/-- `judge [--tiny-after]`: reads observation lines on stdin, writes one verdict line each. -/
partial def loop (h : IO.FS.Stream) (out : IO.FS.Stream) (tinyAfter : Bool) : IO Unit := do
  let line ← h.getLine
  if line.isEmpty then return ()
  let t := line.trimAscii.toString
  if t.isEmpty || t.startsWith "#" then
    out.putStrLn "skip"
  else
    out.putStrLn (Dec.judgeLine tinyAfter t)
  loop h out tinyAfter

def main (args : List String) : IO Unit := do
  let out ← IO.getStdout
  loop (← IO.getStdin) out (args.contains "--tiny-after")
