"""Per-property configuration of bin/check."""

TRUSTED_BASE = [
    "Lean 4.33.0 kernel (theorems are re-checked by `lake build`; leanchecker in the thorough tier)",
    "axioms: propext, Classical.choice, Quot.sound only (audited with #print axioms on every property theorem); no native_decide, no bv_decide, no sorry/admit/axiom (grep on every run)",
    "Lean compiler + C toolchain + GMP for the executable judges (their definitions are the ones the theorems are about; compilation is trusted)",
    "translate/ (the syn-based Rust -> Lean translator regenerating DecGen/Code.lean, Code2.lean, Code3.lean on every run) and DecModel/RustPrelude.lean (machine words, casts, table access, the exact IEEE binary32/64 model): trusted as a reading of Rust semantics, and CHECKED on every run by recomputing every observation with the translated source (`corr translated-code`); conventions worth naming: a Rust panic (index out of range, unwrap of None, exhausted loop fuel, refused cast) is `.error`, so every `.ok` theorem proves it unreachable; wrapping +,-,*,<<,>> as the crate's profile (overflow-checks off) has them; Rust `/` is Lean's total `/` (x / 0 = 0) — the one variable division of the translated source, in bid___div_128_by_128, is covered by a specification with a non-zero divisor",
    "the Rust harness (transport and generation only; it never compares), rustc, this machine",
    "bin/check (classification against known_findings.json), bin/gen_decgen (table dump through the cfg hook; regex scrapers for the dispatch of d128.rs, the entry-point inventory and the status-word reads)",
    "DecModel/* as a reading of IEEE 754-2008 and of the property statements",
]

MODELLED_NOT_VERIFIED = (
    "Three layers, see DESIGN.md section 6 for which clause of this property sits where. (P) theorems about the hand-written "
    "spec-level model DecModel/*: tied to the code only by the differential correspondence counted in this file (real API "
    "in-process -> observation lines -> Lean judge, bit for bit including flags). (H) theorems about hand-written code-shaped "
    "models (text scanner, numeric phase, formatter, binary conversion, helper routines): tied by exact-outcome correspondence "
    "verdicts on every observation. (G) theorems about Dec.Gen.Code.* / Code2.*, the Lean translation of 222 of the 236 "
    "functions of src/bid*.rs plus 11 trait-glue methods of d128.rs, regenerated from /repo/src on every run: there the source "
    "text itself is what is proved about, modulo the translator and the prelude, which are checked by recomputing every observation. "
    "Not translated: bid128_from_string (+ its _clear_status wrapper), bid128_to_string and its six digit-group helpers, bid128_nan "
    "(String / char handling; covered by H models), two unused big-endian variants, a Default impl and the cfg hook. "
    "Constant tables are re-extracted from the compiled crate on every run and checked against closed forms by the kernel."
)

COMMON_ASSUMPTIONS = [
    "correspondence is differential testing: a defect confined to inputs no generator reaches is not detected",
    "little-endian x86-64 build, profile overflow-checks off (as the crate configures it)",
]

import json as _json, os as _os
_HERE = _os.path.dirname(_os.path.abspath(__file__))
_TABLE_MAP = _json.load(open(_os.path.join(_HERE, "table_map.json")))
_FACT_DIR = _os.path.join(_os.path.dirname(_HERE), "lean", "DecProofs", "TableFacts")
_BIN = {"BID_OUTERTABLE_SIG", "BID_OUTERTABLE_EXP", "BID_INNERTABLE_SIG", "BID_INNERTABLE_EXP", "BID_PACKED_10000_ZEROS", "BID_RECIPROCALS10_64", "BID_SHORT_RECIP_SCALE"}
_MECH = {"BID_POWER10_INDEX_BINEXP_128", "BID_TEN2MK128", "BID_SHIFTRIGHT128", "BID_RECIPROCALS10_128", "BID_RECIP_SCALE", "BID_KX64", "BID_KX128", "BID_KX192", "BID_KX256"}

def tables_for(pid):
    """Table-fact modules attached to a property: the tables reachable (crude call graph, bin/table_map.json) from the
    operation files the property is anchored in.  Tables without a closed-form theorem are listed as unverified."""
    mods, unverified = [], []
    ts = _TABLE_MAP.get(pid, [])
    for t in ts:
        if _os.path.exists(_os.path.join(_FACT_DIR, "F_%s.lean" % t)):
            mods.append("DecProofs.TableFacts.F_%s" % t)
        elif t not in _MECH and t not in _BIN:
            unverified.append(t)
    if any(t in _MECH for t in ts):
        mods.append("DecProofs.TableFacts.Mechanisms")
    if any(t in _BIN for t in ts):
        mods.append("DecProofs.TableFacts.BinTables")
    if any(t in ("BID_NR_DIGITS", "BID_ESTIMATE_DECIMAL_DIGITS", "BID_POWER10_INDEX_BINEXP_128") for t in ts):
        mods.append("DecProofs.TableFacts.NrDigits")
    return mods, unverified

def P(families, modules, quick=1000000, thorough=20000000, tables=None, static=None, extra_corpus=None, assumptions=None):
    return {"families": families, "theorem_modules": modules, "quick_count": quick, "thorough_count": thorough,
            "table_modules": tables or [], "static_modules": static or [], "extra_corpus": extra_corpus or [],
            "assumptions": assumptions or []}

PROPS = {
    "C01": P(["C01", "SQRT"], ["DecProofs.Properties.C01", "DecProofs.Core.RoundInt", "DecProofs.Core.Digits", "DecProofs.Core.Finish", "DecProofs.Core.FinishUnique", "DecProofs.Properties.C01Q", "DecProofs.Properties.C01Strict"], quick=1200000),
    "C02": P(["C02"], ["DecProofs.Properties.C02", "DecProofs.Core.Finish", "DecProofs.Core.FinishUnique", "DecProofs.Properties.C02Q"], quick=1200000),
    "C03": P(["C03"], ["DecProofs.Properties.C03", "DecProofs.Core.Cmp", "DecProofs.Properties.C03Order"]),
    "C04": P(["C04"], ["DecProofs.Properties.C04", "DecProofs.Core.DigitStr", "DecProofs.Properties.C04Grammar", "DecProofs.Core.Finish", "DecProofs.Properties.C04Q", "DecProofs.Properties.C04Scan"], quick=1200000),
    "C05": P(["C05"], ["DecProofs.Properties.C05", "DecProofs.Core.DigitStr", "DecProofs.Properties.C05RoundTrip"]),
    "C06": P(["C06"], ["DecProofs.Properties.C06", "DecProofs.Core.RoundInt", "DecProofs.Core.RoundQ", "DecProofs.Properties.C06Q"]),
    "C07": P(["C07"], ["DecProofs.Properties.C07", "DecProofs.Core.Finish", "DecProofs.Properties.C07Q"]),
    "C08": P(["C08"], ["DecProofs.Properties.C08", "DecProofs.Core.RoundInt", "DecProofs.Core.RoundQ", "DecProofs.Properties.C08Q"]),
    "C09": P(["C09"], ["DecProofs.Properties.C09", "DecProofs.Core.RoundInt", "DecProofs.Core.RoundQ", "DecProofs.Properties.C09Q"]),
    "C10": P(["C10"], ["DecProofs.Properties.C10", "DecProofs.Properties.C10Bound"]),
    "C11": P(["C11"], ["DecProofs.Properties.C11", "DecProofs.Core.Finish", "DecProofs.Properties.C11Q"]),
    "C12": P(["C12"], ["DecProofs.Properties.C12", "DecProofs.Properties.C12Ops"]),
    "C13": P(["C13"], ["DecProofs.Properties.C13", "DecProofs.Core.Codec", "DecProofs.Properties.C13Codec"]),
    "C14": P(["C14", "C14T"], ["DecProofs.Properties.C14", "DecProofs.Properties.JudgeSound", "DecProofs.Properties.C14Scopes"], static=["DecProofs.Static.FlagAccess"]),
    "C15": P(["C15"], ["DecProofs.Properties.C15", "DecProofs.Properties.JudgeSound", "DecProofs.Properties.C15Total", "DecProofs.Properties.C04Scan"], quick=1200000, static=["DecProofs.Static.Inventory"],
             extra_corpus=["C01", "C02", "C04"]),
    "C16": P(["C16"], ["DecProofs.Properties.C16", "DecProofs.Core.Cmp", "DecProofs.Properties.C16Order"]),
    "C17": P(["C17"], ["DecProofs.Properties.C17", "DecProofs.Core.Digits", "DecProofs.Properties.C17Adjacent"]),
    "C18": P(["C18"], ["DecProofs.Properties.C18", "DecProofs.Core.Cmp", "DecProofs.Properties.C18Order"]),
    "C19": P(["C19"], ["DecProofs.Properties.C19", "DecProofs.Core.Codec", "DecProofs.Properties.C19RoundTrip"]),
    "C20": P(["C20"], ["DecProofs.Properties.C20", "DecProofs.Core.Cmp", "DecProofs.Properties.C20Order"]),
}

for _pid, _p in PROPS.items():
    _mods, _unv = tables_for(_pid)
    _p["table_modules"] = _mods
    _p["unverified_tables"] = _unv

# crate-internal helper routines exercised directly (hk_* observations, judged against the translated source and the helper models)
for _pid, _fams in {"C01": ["HKARITH", "HKROUND", "HKPACK"], "C02": ["HKROUND", "HKARITH"], "C03": ["HKARITH"], "C04": ["HKPACK"], "C09": ["HKPACK"],
                    "C10": ["HKPACK"], "C11": ["HKPACK"], "C13": ["HKPACK"], "C15": ["HKARITH", "HKROUND", "HKPACK", "HKMIDI"], "C05": ["HKMIDI"]}.items():
    PROPS[_pid]["helper_families"] = _fams
for _pid in PROPS:
    PROPS[_pid]["static_modules"] = PROPS[_pid]["static_modules"] + ["DecProofs.Static.Translated"]
# theorems about the helper routines (hand-written code-shaped models, tied by the hk_* correspondence)
for _pid in ("C01", "C02"):
    PROPS[_pid]["theorem_modules"] = PROPS[_pid]["theorem_modules"] + ["DecProofs.Properties.C02RoundHelpers"]
for _pid in ("C01", "C02", "C03"):
    PROPS[_pid]["theorem_modules"] = PROPS[_pid]["theorem_modules"] + ["DecProofs.Properties.C01ArithHelpers", "DecProofs.Properties.C01GenArith"]
# theorems about the TRANSLATED SOURCE (Dec.Gen.Code.*, regenerated every run)
for _pid in ("C03", "C06", "C09", "C11", "C13"):
    PROPS[_pid]["theorem_modules"] = PROPS[_pid]["theorem_modules"] + ["DecProofs.Properties.C06GenFromInt"]
PROPS["C19"]["theorem_modules"] = PROPS["C19"]["theorem_modules"] + ["DecProofs.Properties.C19GenDpd"]
PROPS["C18"]["theorem_modules"] = PROPS["C18"]["theorem_modules"] + ["DecProofs.Properties.C18GenTotalOrder"]
PROPS["C11"]["theorem_modules"] = PROPS["C11"]["theorem_modules"] + ["DecProofs.Properties.C11GenScale"]
for _pid in ("C01", "C02"):
    PROPS[_pid]["theorem_modules"] = PROPS[_pid]["theorem_modules"] + ["DecProofs.Properties.C02GenRound"]
PROPS["C12"]["theorem_modules"] = PROPS["C12"]["theorem_modules"] + ["DecProofs.Properties.C12GenNaN"]
PROPS["C17"]["theorem_modules"] = PROPS["C17"]["theorem_modules"] + ["DecProofs.Properties.C17GenNext"]
PROPS["C05"]["theorem_modules"] = PROPS["C05"]["theorem_modules"] + ["DecProofs.Properties.C05Format"]
PROPS["C04"]["theorem_modules"] = PROPS["C04"]["theorem_modules"] + ["DecProofs.Properties.C04ScanNum"]
PROPS["C08"]["theorem_modules"] = PROPS["C08"]["theorem_modules"] + ["DecProofs.Properties.C08GenRiBase", "DecProofs.Properties.C08GenRiDirected",
    "DecProofs.Properties.C08GenRiNearest", "DecProofs.Properties.C08GenRiExact", "DecProofs.Properties.C08GenRiNearby", "DecProofs.Properties.C08GenRoundIntegral"]
PROPS["C06"]["theorem_modules"] = PROPS["C06"]["theorem_modules"] + ["DecProofs.Properties.C06GenToInt64"]
for _pid in ("C03", "C06", "C09", "C11", "C12", "C13", "C14", "C15", "C16", "C17", "C18", "C19", "C20"):
    PROPS[_pid]["theorem_modules"] = PROPS[_pid]["theorem_modules"] + ["DecProofs.Properties.SourceLevel"]
PROPS["C14"]["theorem_modules"] = PROPS["C14"]["theorem_modules"] + ["DecProofs.Properties.C14GenFrame", "DecProofs.Properties.C14GenHistory"]
for _pid in ("C01", "C02"):
    PROPS[_pid]["theorem_modules"] = PROPS[_pid]["theorem_modules"] + ["DecProofs.Properties.C01GenMul", "DecProofs.Properties.C02GenCorrection"]
PROPS["C06"]["theorem_modules"] = PROPS["C06"]["theorem_modules"] + ["DecProofs.Properties.C06GenToUInt32", "DecProofs.Properties.C06GenToUInt64"]
PROPS["C11"]["theorem_modules"] = PROPS["C11"]["theorem_modules"] + ["DecProofs.Properties.C11GenLogb", "DecProofs.Properties.C09GenQuantize"]
PROPS["C06"]["theorem_modules"] = PROPS["C06"]["theorem_modules"] + ["DecProofs.Properties.C06GenToInt", "DecProofs.Properties.C06GenToIntRN"]
PROPS["C09"]["theorem_modules"] = PROPS["C09"]["theorem_modules"] + ["DecProofs.Properties.C09GenQuantize"]
PROPS["C20"]["theorem_modules"] = PROPS["C20"]["theorem_modules"] + ["DecProofs.Properties.C20GenGlue"]
PROPS["C16"]["theorem_modules"] = PROPS["C16"]["theorem_modules"] + ["DecProofs.Properties.C16GenMinMax"]
for _pid in ("C13", "C12", "C09"):
    PROPS[_pid]["theorem_modules"] = PROPS[_pid]["theorem_modules"] + ["DecProofs.Properties.C13GenNoncomp"]
for _pid in ("C01", "C04", "C09", "C10", "C11", "C13"):
    PROPS[_pid]["theorem_modules"] = PROPS[_pid]["theorem_modules"] + ["DecProofs.Properties.C13GenPack"]
for _pid in ("C03", "C20"):
    PROPS[_pid]["theorem_modules"] = PROPS[_pid]["theorem_modules"] + ["DecProofs.Properties.C03GenCompare", "DecProofs.Properties.C03GenCompare2"]
for _pid in ("C01", "C04", "C09", "C10", "C11", "C13"):
    PROPS[_pid]["theorem_modules"] = PROPS[_pid]["theorem_modules"] + ["DecProofs.Properties.C13PackHelpers"]

PROPS["C10"]["theorem_modules"] = PROPS["C10"]["theorem_modules"] + ["DecProofs.Properties.C10GenRem", "DecProofs.Properties.C10GenFmodRem"]

for _pid in ("C01", "C02"):
    PROPS[_pid]["theorem_modules"] = PROPS[_pid]["theorem_modules"] + ["DecProofs.Properties.C01GenAdd"]

PROPS["C02"]["theorem_modules"] = PROPS["C02"]["theorem_modules"] + ["DecProofs.Properties.C02GenFmaSwap"]

PROPS["C07"]["static_modules"] = PROPS["C07"]["static_modules"] + ["DecProofs.Static.Translated2"]

PROPS["C07"]["theorem_modules"] = PROPS["C07"]["theorem_modules"] + ["DecProofs.Properties.C07BinConvCode"]

PROPS["C01"]["theorem_modules"] = PROPS["C01"]["theorem_modules"] + ["DecProofs.Properties.C01GenDiv", "DecProofs.Properties.C01GenDiv256"]
PROPS["C02"]["theorem_modules"] = PROPS["C02"]["theorem_modules"] + ["DecProofs.Properties.C02GenFmaWrap", "DecProofs.Properties.C02GenFmaFront"]

PROPS["C01"]["theorem_modules"] = PROPS["C01"]["theorem_modules"] + ["DecProofs.Properties.C01GenDiv256Corner", "DecProofs.Properties.C01GenSqrt", "DecProofs.Properties.C01GenSqrtLong", "DecProofs.Properties.C01GenAddLoop", "DecProofs.Properties.C01GenAddRound", "DecProofs.Properties.C01GenAddRoundBlock", "DecProofs.Properties.C01GenAddRoundClosed", "DecProofs.Properties.C01GenAddLoopShape", "DecProofs.Properties.C01GenAddLoopMath", "DecProofs.Properties.C01GenAddLoop35", "DecProofs.Properties.C01GenAddLoopB", "DecProofs.Properties.C01GenAddLoopB2", "DecProofs.Properties.C01GenAddLoopBClosed", "DecProofs.Properties.C01GenAddSpec"]
for _pid in ("C06", "C08", "C11"):
    PROPS[_pid]["theorem_modules"] = PROPS[_pid]["theorem_modules"] + ["DecProofs.Properties.SourceLevel2"]

PROPS["C01"]["theorem_modules"] = PROPS["C01"]["theorem_modules"] + ["DecProofs.Properties.C01GenDivFinal", "DecProofs.Properties.C01GenDivClosed"]
PROPS["C07"]["theorem_modules"] = PROPS["C07"]["theorem_modules"] + ["DecProofs.Properties.C07GenBinConv"]
for _pid in ("C01", "C08", "C09", "C11"):
    PROPS[_pid]["theorem_modules"] = PROPS[_pid]["theorem_modules"] + ["DecProofs.Properties.SourceLevel3"]

PROPS["C02"]["theorem_modules"] = PROPS["C02"]["theorem_modules"] + ["DecProofs.Properties.C02GenFmaLow", "DecProofs.Properties.C02GenFmaZA", "DecProofs.Properties.C02GenFmaZB", "DecProofs.Properties.C02GenFmaZC", "DecProofs.Properties.C02GenFmaZD", "DecProofs.Properties.C02GenFmaZE", "DecProofs.Properties.C02GenFmaZF", "DecProofs.Properties.C02GenFmaZG", "DecProofs.Properties.C02GenFmaZH", "DecProofs.Properties.C02GenFmaZI", "DecProofs.Properties.C02GenFmaZJ", "DecProofs.Properties.C02GenFmaZK", "DecProofs.Properties.C02GenFmaZL", "DecProofs.Properties.C02GenFmaZM", "DecProofs.Properties.C02GenFmaMid", "DecProofs.Properties.C02GenFmaMidB", "DecProofs.Properties.C02GenFmaAssembly", "DecProofs.Properties.C02GenFmaWrapClosed", "DecProofs.Properties.C02GenFmaMidTop", "DecProofs.Properties.C02GenFmaZN", "DecProofs.Properties.C02GenFmaZO", "DecProofs.Properties.C02GenFmaZP", "DecProofs.Properties.C02GenFmaZQ", "DecProofs.Properties.C02GenFma1112", "DecProofs.Properties.C02GenFmaFrontSpec", "DecProofs.Properties.C02GenFmaZ", "DecProofs.Properties.C02GenFmaMidWideDefs", "DecProofs.Properties.C02GenFmaMidBW", "DecProofs.Properties.C02GenFmaMidWide", "DecProofs.Properties.C02GenFma1112Closed", "DecProofs.Properties.C02GenFma1112Fin", "DecProofs.Properties.C02GenFmaAssembly2", "DecProofs.Properties.C02GenFmaZ0", "DecProofs.Properties.C02GenFmaZ0B", "DecProofs.Properties.C02GenFmaZ0Tiny", "DecProofs.Properties.C02GenFmaZ0Small", "DecProofs.Properties.C02GenFmaAssembly3"]

PROPS["C15"]["theorem_modules"] = PROPS["C15"]["theorem_modules"] + ["DecProofs.Properties.C15GenTotal", "DecProofs.Properties.C15GenTotal2"]

for _pid in ("C01", "C02"):
    PROPS[_pid]["theorem_modules"] = PROPS[_pid]["theorem_modules"] + ["DecProofs.Properties.SourceLevel4"]
PROPS["C01"]["theorem_modules"] = PROPS["C01"]["theorem_modules"] + ["DecProofs.Properties.C02GenFmaAssembly3"]

for _pid in ("C01", "C15"):
    PROPS[_pid]["theorem_modules"] = PROPS[_pid]["theorem_modules"] + ["DecProofs.Properties.AllClosed"]

for _pid in ("C01", "C02", "C13"):
    PROPS[_pid]["theorem_modules"] = PROPS[_pid]["theorem_modules"] + ["DecProofs.Properties.SourceLevel5"]

# the trait glue of d128.rs, translated (DecGen/Code3.lean, Api3.lean) and proved: operators = methods, From impls, folds, totality
for _pid in ("C01", "C06", "C10", "C12", "C13", "C15"):
    PROPS[_pid]["theorem_modules"] = PROPS[_pid]["theorem_modules"] + ["DecProofs.Properties.C15GenGlue", "DecProofs.Properties.C15GenGlue2"]
    PROPS[_pid]["static_modules"] = PROPS[_pid]["static_modules"] + ["DecProofs.Static.Translated3"]

# the text entry points (wrappers around the untranslated string routine, which they take as a parameter): frame, FromStr iff, totality
for _pid in ("C04", "C14", "C15"):
    PROPS[_pid]["theorem_modules"] = PROPS[_pid]["theorem_modules"] + ["DecProofs.Properties.C14GenTextGlue"]
for _pid in ("C04", "C14"):
    PROPS[_pid]["static_modules"] = PROPS[_pid]["static_modules"] + ["DecProofs.Static.Translated3"]
PROPS["C05"]["theorem_modules"] = PROPS["C05"]["theorem_modules"] + ["DecProofs.Properties.C14GenTextGlue"]
PROPS["C05"]["static_modules"] = PROPS["C05"]["static_modules"] + ["DecProofs.Static.Translated3"]

# the composed scanner + numeric-phase model reaches no panic site on ANY text (C04ScanTotal); with the translated wrappers: C15GenTextTotal
for _pid in ("C04", "C15"):
    PROPS[_pid]["theorem_modules"] = PROPS[_pid]["theorem_modules"] + ["DecProofs.Properties.C04ScanTotal", "DecProofs.Properties.C15GenTextTotal"]
# the feature configuration's bid128_fma wrapper, over the feature build's bid128_ext_fma as a parameter: frame + outcome
for _pid in ("C02", "C14"):
    PROPS[_pid]["theorem_modules"] = PROPS[_pid]["theorem_modules"] + ["DecProofs.Properties.C02GenTinyAfter"]
PROPS["C02"]["static_modules"] = PROPS["C02"]["static_modules"] + ["DecProofs.Static.Translated3"]

# the digit-group helpers of bid128_to_string, translated (Code3) and proved: split into groups of three digits, bridges to the formatter model
for _pid in ("C05", "C15"):
    PROPS[_pid]["theorem_modules"] = PROPS[_pid]["theorem_modules"] + ["DecProofs.Properties.C05GenMidi"]

# secondary build configuration of C02 (thorough tier): the tininess-after-rounding cargo feature
PROPS["C02"]["feature_configs"] = [{"feature": "tiny_after", "judge_tiny_after": True}]

# C06: to_int(from_int(n)) = n with no flag for EVERY i32 and u32 n and all ten conversions back (thorough: all 2^32; quick: every 4096th)
PROPS["C06"]["supporting_runs"] = [{"cmd": "int-roundtrip", "quick_stride": 4096,
    "what": "for every n: From<i32>/From<u32> gives coefficient |n| exponent 0, and each of the 10 conversions back returns n raising nothing; failures are handed to the judge"}]

# source file -> harness operations implemented there (for the focused search after a static obligation breaks)
FILE_OPS = {
    "bid128_add.rs": ["addition", "subtraction", "fdim"], "bid128_mul.rs": ["multiplication"], "bid128_fma.rs": ["fused_multiply_add", "multiplication"],
    "bid128_div.rs": ["division"], "bid128_sqrt.rs": ["square_root"], "bid128_rem.rs": ["remainder"], "bid128_fmod.rs": ["fmod"],
    "bid128_quantize.rs": ["quantize"], "bid128_scalbn.rs": ["scaleb", "scalebln"], "bid128_scalbln.rs": ["scalebln"], "bid128_ldexp.rs": ["ldexp"],
    "bid128_next.rs": ["next_up", "next_down", "next_after", "next_toward"], "bid128_nexttoward.rs": ["next_toward"],
    "bid128_round_integral.rs": ["round_to_integral_exact", "round_to_integral_ties_to_even", "round_to_integral_ties_to_away",
                                 "round_to_integral_ties_toward_negative", "round_to_integral_ties_toward_positive", "round_to_integral_ties_toward_zero", "modf"],
    "bid128_nearbyint.rs": ["nearbyint"], "bid128_modf.rs": ["modf"], "bid128_fdim.rs": ["fdim"], "bid128_logb.rs": ["logb"], "bid128_ilogb.rs": ["log_b", "logb"],
    "bid128_minmax.rs": ["min_num", "max_num", "min_num_mag", "max_num_mag"], "bid128_string.rs": ["convert_from_decimal_character"],
    "bid_binarydecimal.rs": ["convert_from_f32", "convert_from_f64"], "bid128_quantexp.rs": ["quantexp"], "bid128_llquantexp.rs": ["llquantexp"],
    "bid128_lrint.rs": ["lrint"], "bid128_llrint.rs": ["llrint"], "bid128_lround.rs": ["lround"], "bid128_llround.rs": ["llround"],
    "bid_internal.rs": ["division", "scaleb", "ldexp", "convert_from_decimal_character", "quantize", "remainder", "fmod", "square_root", "logb"],
    "bid_round.rs": ["fused_multiply_add", "multiplication", "addition"],
}
import families_ops as _fo
FILE_OPS["bid128_compare.rs"] = _fo.CMP_OPS
for _f in ("bid128_to_int32.rs", "bid128_to_int64.rs", "bid128_to_uint32.rs", "bid128_to_uint64.rs"):
    FILE_OPS[_f] = [o for o in _fo.TO_INT_OPS if ("_" + _f[10:-3].replace("uint", "u").replace("int", "i") + "_") in o]
