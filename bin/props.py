"""Per-property configuration of bin/check."""

TRUSTED_BASE = [
    "Lean 4.33.0 kernel (theorems are re-checked by `lake build`; leanchecker in the thorough tier)",
    "axioms: propext, Classical.choice, Quot.sound only (audited with #print axioms on every property theorem); no native_decide, no bv_decide, no sorry/admit/axiom (grep on every run)",
    "Lean compiler + C toolchain + GMP for the executable judge (its definitions are the ones the theorems are about; compilation is trusted)",
    "the Rust harness (transport and generation only; it never compares), rustc, this machine",
    "bin/check (classification against known_findings.json), bin/gen_decgen (table dump through the cfg hook; two regex scrapers)",
    "DecModel/* as a reading of IEEE 754-2008 and of the property statements",
]

MODELLED_NOT_VERIFIED = (
    "The theorems are about the hand-written Lean model (DecModel/*). The control flow and 64-bit word arithmetic of the "
    "bid128_* routines are not translated; their agreement with the model is established by the differential correspondence "
    "counted in this file (real API in-process -> observation lines -> Lean judge, bit for bit including flags), and by nothing else. "
    "Constant tables are re-extracted from the compiled crate on every run and checked against closed forms by the kernel."
)

COMMON_ASSUMPTIONS = [
    "correspondence is differential testing: a defect confined to inputs no generator reaches is not detected",
    "little-endian x86-64 build, profile overflow-checks off (as the crate configures it)",
]

def P(families, modules, quick=300000, thorough=12000000, tables=None, static=None, extra_corpus=None, assumptions=None):
    return {"families": families, "theorem_modules": modules, "quick_count": quick, "thorough_count": thorough,
            "table_modules": tables or [], "static_modules": static or [], "extra_corpus": extra_corpus or [],
            "assumptions": assumptions or []}

PROPS = {
    "C01": P(["C01"], ["DecProofs.Properties.C01"], quick=400000),
    "C02": P(["C02"], ["DecProofs.Properties.C02"], quick=400000),
    "C03": P(["C03"], ["DecProofs.Properties.C03"]),
    "C04": P(["C04"], ["DecProofs.Properties.C04"], quick=400000),
    "C05": P(["C05"], ["DecProofs.Properties.C05"]),
    "C06": P(["C06"], ["DecProofs.Properties.C06"]),
    "C07": P(["C07"], ["DecProofs.Properties.C07"]),
    "C08": P(["C08"], ["DecProofs.Properties.C08"]),
    "C09": P(["C09"], ["DecProofs.Properties.C09"]),
    "C10": P(["C10"], ["DecProofs.Properties.C10"]),
    "C11": P(["C11"], ["DecProofs.Properties.C11"]),
    "C12": P(["C12"], ["DecProofs.Properties.C12"]),
    "C13": P(["C13"], ["DecProofs.Properties.C13"]),
    "C14": P(["C14"], ["DecProofs.Properties.C14"], static=["DecProofs.Static.FlagAccess"]),
    "C15": P(["C15"], ["DecProofs.Properties.C15"], quick=400000, static=["DecProofs.Static.Inventory"],
             extra_corpus=["C01", "C02", "C04"]),
    "C16": P(["C16"], ["DecProofs.Properties.C16"]),
    "C17": P(["C17"], ["DecProofs.Properties.C17"]),
    "C18": P(["C18"], ["DecProofs.Properties.C18"]),
    "C19": P(["C19"], ["DecProofs.Properties.C19"]),
    "C20": P(["C20"], ["DecProofs.Properties.C20"]),
}
