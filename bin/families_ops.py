"""Operation name lists shared by bin/props.py."""
_P = ["equal", "greater", "greater_equal", "greater_unordered", "less", "less_equal", "less_unordered", "not_equal", "not_greater", "not_less", "ordered", "unordered"]
_S = ["greater", "greater_equal", "greater_unordered", "less", "less_equal", "less_unordered", "not_greater", "not_less"]
CMP_OPS = ["compare_quiet_" + p for p in _P] + ["compare_signaling_" + p for p in _S]
_D = ["ties_to_even", "toward_negative", "toward_positive", "toward_zero", "ties_to_away"]
TO_INT_OPS = ["convert_to_%s_%s%s" % (t, x, d) for t in ("i32", "i64", "u32", "u64") for x in ("", "exact_") for d in _D]
