//! Structured, seeded generation of operands and calls.  Every random choice comes from one
//! SplitMix64 stream so that a run is reproducible from its seed.

use crate::ops::{Case, Val};

pub struct Rng(pub u64);
impl Rng {
    pub fn next(&mut self) -> u64 {
        self.0 = self.0.wrapping_add(0x9E3779B97F4A7C15);
        let mut z = self.0;
        z = (z ^ (z >> 30)).wrapping_mul(0xBF58476D1CE4E5B9);
        z = (z ^ (z >> 27)).wrapping_mul(0x94D049BB133111EB);
        z ^ (z >> 31)
    }
    pub fn below(&mut self, n: u64) -> u64 { if n == 0 { 0 } else { self.next() % n } }
    pub fn range(&mut self, lo: i64, hi: i64) -> i64 { lo + self.below((hi - lo + 1) as u64) as i64 }
    pub fn chance(&mut self, num: u64, den: u64) -> bool { self.below(den) < num }
    pub fn u128(&mut self) -> u128 { ((self.next() as u128) << 64) | self.next() as u128 }
    pub fn pick<'a, T>(&mut self, xs: &'a [T]) -> &'a T { &xs[self.below(xs.len() as u64) as usize] }
}

pub const P34: u128 = 10_000_000_000_000_000_000_000_000_000_000_000;
pub const P33: u128 = 1_000_000_000_000_000_000_000_000_000_000_000;
pub const EMIN: i32 = -6176;
pub const EMAX: i32 = 6111;

pub fn pow10(k: u32) -> u128 { 10u128.pow(k) }

pub fn ndigits(mut c: u128) -> u32 { let mut n = 0; while c > 0 { c /= 10; n += 1; } n }

/// Canonical encoding of ±c·10^e (c < 2^113, e in range).
pub fn enc(neg: bool, c: u128, e: i32) -> u128 {
    let e = e.clamp(EMIN, EMAX);
    ((neg as u128) << 127) | (((e + 6176) as u128) << 113) | c
}

/// A coefficient with exactly `q` digits (1..=34), of a randomly chosen shape.
pub fn coeff(r: &mut Rng, q: u32) -> u128 {
    let lo = pow10(q - 1);
    let hi = pow10(q) - 1;
    let span = hi - lo + 1;
    match r.below(20) {
        0 => lo,
        1 => hi,
        2 => (lo + 1).min(hi),
        3 => (5 * lo).min(hi),
        4 => { // k trailing zeros
            let k = r.below(q as u64) as u32;
            let p = pow10(k);
            let v = lo + r.u128() % span;
            ((v / p) * p).max(lo)
        }
        5 => { // leading nines
            let k = 1 + r.below(q as u64) as u32;
            let nines = (pow10(k) - 1) * pow10(q - k);
            nines + if q > k { r.u128() % pow10(q - k) } else { 0 }
        }
        6 => { // near a power of two
            let bits = ((q as f64) * 3.3219) as u32;
            let b = bits.clamp(1, 112);
            let v = (1u128 << b) + (r.below(3) as u128) - 1;
            v.clamp(lo, hi)
        }
        7 => { // low 64-bit word zero
            let v = lo + r.u128() % span;
            let w = v & !0xFFFF_FFFF_FFFF_FFFFu128;
            if w >= lo { w } else { v }
        }
        8 => (lo + r.below(10) as u128).min(hi),
        10 => { // carry boundaries of the code's own multi-word splits: (m·2^(64-k))·10^k + t has a zero low word in its
                // high part for k = 17, 18, 19 (string conversion, formatting, 19-digit packing); t at its extremes
            let k = 17 + r.below(3) as u32;
            let m = 1 + r.below(1 << 12) as u128;
            let hi_part = (m << (64 - k)) * pow10(k);
            let t = match r.below(4) { 0 => 0, 1 => pow10(k) - 1, 2 => 1, _ => r.u128() % pow10(k) };
            let v = hi_part + t;
            if v >= lo && v <= hi { v } else { let v2 = (v % span) + lo; v2 }
        }
        12 | 13 => { // 2-adic shapes m·2^j: after scaling by 10^k = 2^k·5^k the low words of the multi-word product vanish
            let j = r.below(113) as u32;
            let m = 1 + 2 * r.below(1 << 10) as u128;
            let v = m << j;
            if v >= lo && v <= hi { v } else if (1u128 << j) >= lo && (1u128 << j) <= hi { 1u128 << j } else { lo + r.u128() % span }
        }
        11 => { // low word all ones (carry out of the low word on increment)
            let v = lo + r.u128() % span;
            let w = v | 0xFFFF_FFFF_FFFF_FFFFu128;
            if w <= hi { w } else { v }
        }
        9 => hi - (r.below(10) as u128).min(hi - lo),
        _ => lo + r.u128() % span,
    }
}

/// A coefficient with 1..=n digits.
pub fn coeff_upto(r: &mut Rng, n: u32) -> u128 { let q = if n == 34 { qdigits(r) } else { 1 + r.below(n as u64) as u32 }; coeff(r, q) }

pub fn exponent(r: &mut Rng) -> i32 {
    match r.below(10) {
        0 => if r.chance(1, 3) { EMIN + r.below(2) as i32 } else { EMIN + r.below(45) as i32 },
        1 => if r.chance(1, 3) { EMAX - r.below(2) as i32 } else { EMAX - r.below(45) as i32 },
        2 | 3 | 4 => r.range(-45, 45) as i32,
        5 => -6143 + r.range(-40, 40) as i32,
        _ => r.range(EMIN as i64, EMAX as i64) as i32,
    }
}

/// Digit counts: half uniform, half from the boundaries of the code's case analyses (1-2 digits, the 64-bit word
/// boundary at 19/20 digits, the split points 16-18, and 33/34).
pub fn qdigits(r: &mut Rng) -> u32 {
    if r.chance(1, 2) { 1 + r.below(34) as u32 } else { *r.pick(&[1u32, 2, 16, 17, 18, 19, 20, 21, 33, 34]) }
}

/// A canonical finite non-zero value.
pub fn finite(r: &mut Rng) -> u128 {
    let q = qdigits(r);
    enc(r.chance(1, 2), coeff(r, q), exponent(r))
}

pub fn zero(r: &mut Rng) -> u128 { enc(r.chance(1, 2), 0, exponent(r)) }

/// The three non-canonical finite families (all denote zeros).
pub fn noncanonical_finite(r: &mut Rng) -> u128 {
    let sign = (r.chance(1, 2) as u128) << 127;
    match r.below(3) {
        0 => { // coefficient in [10^34, 2^113)
            let c = P34 + r.u128() % ((1u128 << 113) - P34);
            sign | (((exponent(r) + 6176) as u128) << 113) | c
        }
        1 => sign | (((exponent(r) + 6176) as u128) << 113) | match r.below(3) { 0 => P34, 1 => P34 + 1, _ => (1u128 << 113) - 1 },
        _ => { // large-coefficient form: bits 126,125 = 11, bits 124,123 != 11
            let e = (exponent(r) + 6176) as u128;
            sign | (3u128 << 125) | (e << 111) | (r.u128() & ((1u128 << 111) - 1))
        }
    }
}

pub fn infinity(r: &mut Rng) -> u128 {
    let sign = (r.chance(1, 2) as u128) << 127;
    let junk = if r.chance(1, 2) { 0 } else { r.u128() & ((1u128 << 122) - 1) };
    sign | (0x78u128 << 120) | junk
}

pub fn nan(r: &mut Rng) -> u128 {
    let sign = (r.chance(1, 2) as u128) << 127;
    let sig = (r.chance(1, 2) as u128) << 121;
    let payload: u128 = match r.below(7) {
        0 => 0,
        1 => r.below(1000) as u128,
        2 => P33 - 1,
        3 => P33,
        4 => (1u128 << 110) - 1,
        5 => P33 + r.below(1000) as u128,
        _ => r.u128() % P33,
    };
    let reserved = if r.chance(1, 3) { (r.u128() & 0x7FF) << 110 } else { 0 };
    sign | (0x7cu128 << 120) | sig | reserved | payload
}

/// Any operand: mostly canonical finite, with every special / non-canonical class represented.
pub fn operand(r: &mut Rng) -> u128 {
    match r.below(20) {
        0 => zero(r),
        1 => noncanonical_finite(r),
        2 => infinity(r),
        3 => nan(r),
        4 => r.u128(),
        _ => finite(r),
    }
}

/// Operands at the bottom of the exponent range whose scaled coefficient C·10^(e - emin) sits on a 64-bit word
/// boundary (low k words zero, or one less): the normal/subnormal tests compare that product with 10^33.
pub fn scaled_boundary_operand(r: &mut Rng) -> u128 {
    let eb = r.below(41) as u32;
    let k = 1 + r.below(2) as u32;
    let j = (64 * k).saturating_sub(eb);
    let mut m = 1 + r.below(1 << 12) as u128;
    while j < 128 && (m << j) >= P34 && m > 1 { m >>= 1; }
    let c = if j < 113 { m << j } else { 1u128 << 112 };
    let c = match r.below(4) { 0 => c.saturating_sub(1), 1 => c + 1, _ => c }.clamp(1, P34 - 1);
    enc(r.chance(1, 2), c, EMIN + eb as i32)
}

pub fn finite_or_zero(r: &mut Rng) -> u128 { if r.chance(1, 15) { zero(r) } else { finite(r) } }

fn decode_fin(b: u128) -> (bool, u128, i32) {
    ((b >> 127) != 0, b & ((1u128 << 113) - 1), (((b >> 113) & 0x3fff) as i32) - 6176)
}

/// A partner for `x` whose exponent is aligned with x's so that the digits overlap in interesting ways.
pub fn partner(r: &mut Rng, x: u128) -> u128 {
    let (_, c1, e1) = decode_fin(x);
    let q1 = ndigits(c1) as i32;
    let q2 = qdigits(r);
    let c2 = coeff(r, q2);
    let delta: i32 = match r.below(8) {
        0 => 0,
        1 | 2 => r.range(-3, 3) as i32,
        3 | 4 | 5 => r.range(-40, 40) as i32,
        6 => r.range(-80, 80) as i32,
        _ => r.range(-12287, 12287) as i32,
    };
    // align the most significant digits, then shift by delta
    let e2 = e1 + q1 - q2 as i32 + delta;
    enc(r.chance(1, 2), c2, e2.clamp(EMIN, EMAX))
}

/// Operand pairs for comparison-like operations: scaled coefficients equal or differing by one ulp.
pub fn cmp_pair(r: &mut Rng) -> (u128, u128) {
    match r.below(12) {
        10 => { // a zero-valued pattern (zero or non-canonical finite) against an extreme coefficient: each operand's own
                // canonical-range test decides
            let z = if r.chance(1, 2) { zero(r) } else { noncanonical_finite(r) };
            let c = *r.pick(&[P34 - 1, P34 - 1, P34 - 2, P33, 1, (1u128 << 112), (1u128 << 113) - 1, P34]);
            let y = if c >= P34 { ((r.chance(1, 2) as u128) << 127) | (((exponent(r) + 6176) as u128) << 113) | c } else { enc(r.chance(1, 2), c, exponent(r)) };
            if r.chance(1, 2) { (z, y) } else { (y, z) }
        }
        11 => { // exponent gap at / next to the shortcut thresholds (32..35) with a coefficient that just compensates:
                // x = d·10^g + δ at e, y = d at e + g
            let g = 31 + r.below(5) as u32;
            let dd = 1 + r.below(9) as u128;
            let e = exponent(r).clamp(EMIN, EMAX - 40);
            let target = dd.checked_mul(pow10(g.min(37))).unwrap_or(P34);
            let delta: i128 = *r.pick(&[0i128, 1, -1, 1000, -1000]);
            let cx = if target < P34 { ((target as i128 + delta).max(1) as u128).min(P34 - 1) } else { match r.below(3) { 0 => P34 - 1, 1 => P33, _ => coeff(r, 34) } };
            let (s1, s2) = match r.below(4) { 0 | 1 => (false, false), 2 => (true, true), _ => (false, true) };
            let (a, b) = (enc(s1, cx, e), enc(s2, dd, e + g as i32));
            if r.chance(1, 2) { (a, b) } else { (b, a) }
        }
        0 | 1 | 2 => { // same value, different cohort member (or off by one)
            let q = 1 + r.below(34) as u32;
            let c = coeff(r, q);
            let k = r.below((35 - q) as u64) as u32;
            let e = exponent(r).max(EMIN + 34);
            let c2 = c * pow10(k);
            let tweak: i128 = *r.pick(&[0i128, 0, 1, -1]);
            let c2 = ((c2 as i128 + tweak).max(0) as u128).min(P34 - 1);
            let (s1, s2) = match r.below(4) { 0 => (false, false), 1 => (true, true), 2 => (false, true), _ => (true, false) };
            let (a, b) = (enc(s1, c, e), enc(s2, c2, e - k as i32));
            if r.chance(1, 2) { (a, b) } else { (b, a) }
        }
        3 | 4 => { let x = finite(r); (x, partner(r, x)) }
        7 => { // word boundaries of the scaled comparand: y.c·10^g = m·5^g·2^(64k) has k zero low words (k = 1, 2),
               // optionally minus one (all-ones low words); x is a full-width coefficient of comparable size
            let g = 1 + r.below(33) as u32;
            let k = 1 + r.below(2) as u32;
            let j = (64 * k).saturating_sub(g);
            let mut m = 1 + r.below(1 << 14) as u128;
            while (m << j) >= P34 && m > 1 { m >>= 1; }
            let cy = (m << j).min(P34 - 1).max(1);
            let cy = if r.chance(1, 4) { cy.saturating_sub(1).max(1) } else { cy };
            // or: the scaled value lands just above / below the word boundary 2^(64k) (carry into the next word)
            let cy = if r.chance(1, 2) {
                let base = if 64 * k < 128 { (1u128 << (64 * k)) / pow10(g) } else { (u128::MAX / pow10(g)) };
                let mult = 1 + r.below(4) as u128;           // also small multiples of the boundary
                (base * mult + r.below(4) as u128).saturating_sub(r.below(2) as u128).clamp(1, P34 - 1)
            } else { cy };
            let e = exponent(r).clamp(EMIN, EMAX - 34);
            let cx = match r.below(3) { 0 => coeff(r, 34), 1 => P34 - 1, _ => coeff_upto(r, 34) };
            let (s1, s2) = match r.below(4) { 0 => (false, false), 1 => (true, true), 2 => (false, true), _ => (true, false) };
            let (a, b) = (enc(s1, cx, e), enc(s2, cy, e + g as i32));
            if r.chance(1, 2) { (a, b) } else { (b, a) }
        }
        5 => { let x = finite(r); (x, x ^ ((r.chance(1, 2) as u128) << 127)) }
        6 => (zero(r), zero(r)),
        _ => (operand(r), operand(r)),
    }
}

/// Pairs for add/sub where the smaller operand sits at a chosen fraction of the larger one's ulp.
pub fn add_tail_pair(r: &mut Rng) -> (u128, u128) {
    let q1 = if r.chance(2, 3) { 34 } else { 1 + r.below(34) as u32 };
    // a quarter of the pairs: x an exact power of ten and y of the opposite sign, so that the difference borrows across the
    // power of ten into the binade below, where the ulp is ten times finer (y is then placed against THAT ulp)
    let borrow = r.chance(1, 4);
    let c1 = if borrow { pow10(q1 - 1) } else { coeff(r, q1) };
    let e1 = exponent(r);
    // after normalising x to 34 digits its ulp is 10^(e1 + q1 - 34)
    let ulp_e = e1 + q1 as i32 - 34;
    let k = 1 + r.below(34) as u32;            // y has k digits below the ulp
    let half = 5 * pow10(k - 1);
    let c2 = match r.below(8) {
        0 => half,
        1 => half + 1,
        2 => half - 1,
        3 => 1,
        4 => pow10(k) - 1,
        5 => pow10(k - 1),
        _ => coeff(r, k),
    };
    let c2 = c2.max(1);
    let extra = if borrow { if r.chance(3, 4) { 1 } else { 0 } } else if r.chance(1, 4) { r.below(40) as i32 } else { 0 };  // push y further down
    let e2 = ulp_e - k as i32 - extra;
    let s1 = r.chance(1, 2);
    let s2 = if borrow { !s1 } else { r.chance(1, 2) };
    let x = enc(s1, c1, e1);
    let y = enc(s2, c2, e2.clamp(EMIN, EMAX));
    if r.chance(1, 2) { (x, y) } else { (y, x) }
}

/// Pairs whose exponent sum (`sum = true`) or difference sits exactly at / next to the clamp boundaries of the
/// quantum exponent (emin-1, emin, emin+1, emax-1, emax, emax+1, emax+33, emax+34); one operand is often a zero, so the
/// preferred exponent of an exact zero result has to be clamped.
pub fn clamp_boundary_pair(r: &mut Rng, sum: bool) -> (u128, u128) {
    let target = *r.pick(&[EMIN - 2, EMIN - 1, EMIN, EMIN + 1, EMAX - 1, EMAX, EMAX + 1, EMAX + 2, EMAX + 33, EMAX + 34, EMAX + 35]);
    let e1 = r.range(EMIN as i64, EMAX as i64) as i32;
    let e2 = if sum { target - e1 } else { e1 - target };
    if e2 < EMIN || e2 > EMAX { return clamp_boundary_pair(r, sum); }
    let c1 = match r.below(3) { 0 => 0, 1 => coeff_upto(r, 3), _ => coeff_upto(r, 34) };
    let c2 = match r.below(3) { 0 => 0, 1 => coeff_upto(r, 3), _ => coeff_upto(r, 34) };
    let (a, b) = (enc(r.chance(1, 2), c1, e1), enc(r.chance(1, 2), c2, e2));
    if sum && r.chance(1, 2) { (b, a) } else { (a, b) }
}

/// Products that are an exact tie at 34 digits AND, once that tie is resolved, again an exact tie at the final (subnormal)
/// quantum: P = R·10^k + T with k ≥ 2 digits below 10^emin and T = 5·10^(k-1) ± 5·10^i (…495, …505, …4950, …5050, …45, …55):
/// rounding to 34 digits first and to the subnormal quantum afterwards differs from rounding once exactly here (the
/// double-rounding repair of the z = 0 path of the fused multiply-add, which multiplication is).  Added after seeded change
/// C01-5 (one of the saved midpoint indicators swapped in that repair) broke a proof obligation but produced no failing input.
pub fn mul_double_tie_pair(r: &mut Rng) -> (u128, u128) {
    for _ in 0..64 {
        let k = 2 + r.below(5) as u32;                         // digits of the product below 10^emin
        let i = r.below((k - 1) as u64) as u32;
        let t = if r.chance(1, 2) { 5 * pow10(k - 1) + 5 * pow10(i) } else { 5 * pow10(k - 1) - 5 * pow10(i) };
        let yc = *r.pick(&[5u128, 2, 25, 4, 125, 8, 50, 20, 1]);
        if t % yc != 0 || pow10(k) % yc != 0 { continue; }
        // 35 ..= 34 + k digits in the product, so that a first rounding to 34 digits happens and drops fewer than k digits
        let q = 35 + r.below(k as u64) as u32;
        let rd = q - k;                                        // digits of the kept part R (≤ 34)
        if rd == 0 || rd > 34 { continue; }
        let rc = coeff(r, rd);
        if rc == 0 { continue; }
        // P may not fit u128 as a whole (up to 40 digits); x = P / yc = R·(10^k / yc) + T / yc
        let xc = match rc.checked_mul(pow10(k) / yc).and_then(|v| v.checked_add(t / yc)) { Some(v) => v, None => continue };
        if xc >= P34 { continue; }
        let rr = r.below(12) as i32;
        let (ex, ey) = (EMIN + rr, -(k as i32) - rr);
        if ey < EMIN { continue; }
        let (a, b) = (enc(r.chance(1, 2), xc, ex), enc(r.chance(1, 2), yc, ey));
        return if r.chance(1, 2) { (a, b) } else { (b, a) };
    }
    let (x, y, _) = fma_subnormal_product_triple(r); (x, y)
}

pub fn mul_pair(r: &mut Rng) -> (u128, u128) {
    if r.chance(1, 10) { return clamp_boundary_pair(r, true); }
    if r.chance(1, 12) { return mul_double_tie_pair(r); }
    match r.below(8) {
        6 | 7 => { let (x, y, _) = fma_subnormal_product_triple(r); (x, y) }
        0 => { // products that end exactly on a tie
            let c1 = coeff(r, 34) | 1;
            let c2 = *r.pick(&[5u128, 15, 25, 35, 45, 50, 500, 5000, 125, 625, 75]);
            (enc(r.chance(1, 2), c1.min(P34 - 1), exponent(r) / 2), enc(r.chance(1, 2), c2, exponent(r) / 2))
        }
        1 => { // underflow region
            let x = enc(r.chance(1, 2), coeff_upto(r, 34), r.range(-6176, -3000) as i32);
            let q2 = 1 + r.below(34) as u32;
            let (_, c1, e1) = decode_fin(x);
            let target = -6176 - r.range(-5, 40) as i32;
            let e2 = target - e1 - (ndigits(c1) as i32 + q2 as i32 - 34).max(0);
            (x, enc(r.chance(1, 2), coeff(r, q2), e2.clamp(EMIN, EMAX)))
        }
        2 => { // overflow region
            let e1 = r.range(3000, 6111) as i32;
            let x = enc(r.chance(1, 2), coeff_upto(r, 34), e1);
            let e2 = 6111 - e1 + r.range(-70, 10) as i32;
            (x, enc(r.chance(1, 2), coeff_upto(r, 34), e2.clamp(EMIN, EMAX)))
        }
        _ => { let x = finite(r); let y = finite(r);
               let (s, c, e) = decode_fin(y); (x, enc(s, c, (e / 2).clamp(EMIN, EMAX))) }
    }
}

/// Quotients with a 1-3 digit integer part whose remainder CR, scaled by 10^ed2 for the fraction digits, is just above a
/// multiple of 2^192: CR·10^ed2 = m·2^192 + (something far below the divisor·2^51).  The 256-by-128-bit long division then
/// starts with a dividend of more than 192 bits whose three low words are small (its staged quotient estimate looks at
/// three words).  CR = (m·2^W + s')/5^ed2 with W = 192 − ed2 and s' ≡ −m·2^W (mod 5^ed2): with K = ⌊2^W/5^ed2⌋ and
/// R = 2^W mod 5^ed2 that is m·K + ⌊m·R/5^ed2⌋ + 1 + t.
pub fn div_wide_remainder_pair(r: &mut Rng) -> (u128, u128) {
    const K: [u128; 3] = [627710173538668076383578942, 62771017353866807638357894, 6277101735386680763835789];
    const RR: [u128; 3] = [1493686072576025242202, 5403455909365405199226, 49267856685456628380863];
    const F: [u128; 3] = [4656612873077392578125, 23283064365386962890625, 116415321826934814453125];   // 5^31, 5^32, 5^33
    let i = r.below(3) as usize;                                   // ed2 = 31 + i: the integer part of the quotient has 3 − i digits
    let k: u128 = match i { 0 => 100 + r.below(900), 1 => 10 + r.below(90), _ => 1 + r.below(9) } as u128;
    let ymax = (P34 - 1) / (k + 1);                                // x = k·y + CR < (k+1)·y must stay below 10^34
    // CR ≈ m·K must stay below y/9 or so (the quotient of CR·10^ed2 by y stays below 2^100)
    let mmax = (ymax / 10 / K[i]).max(1);
    let m = 1 + (r.next() as u128) % mmax;
    let t = if r.chance(1, 2) { r.below(1 << 20) as u128 } else { (r.next() as u128) % (1u128 << 40) };
    let cr = m * K[i] + (m * RR[i]) / F[i] + 1 + t;
    let ymin = cr * 9 + 1;
    if ymin >= ymax { return div_pair_plain(r); }
    let y = ymin + ((r.next() as u128) << 64 | r.next() as u128) % (ymax - ymin);
    let x = k * y + cr;
    let e = exponent(r) / 2;
    (enc(r.chance(1, 2), x, e), enc(r.chance(1, 2), y, (e + r.range(-20, 20) as i32).clamp(EMIN, EMAX)))
}

fn div_pair_plain(r: &mut Rng) -> (u128, u128) { let x = finite(r); let (s, c, e) = decode_fin(finite(r)); (x, enc(s, c, e / 2)) }

pub fn div_pair(r: &mut Rng) -> (u128, u128) {
    if r.chance(1, 10) { return clamp_boundary_pair(r, false); }
    if r.chance(1, 12) { return div_wide_remainder_pair(r); }
    match r.below(7) {
        0 => { // exact ties and short exact quotients
            let c1 = coeff_upto(r, 34);
            let c2 = *r.pick(&[2u128, 4, 8, 16, 32, 64, 5, 25, 125, 625, 20, 40, 80, 160, 1024, 3125]);
            (enc(r.chance(1, 2), c1, exponent(r) / 2), enc(r.chance(1, 2), c2, exponent(r) / 2))
        }
        1 => { // exact: x = q*y
            let q1 = 1 + r.below(17) as u32; let q2 = 1 + r.below(17) as u32;
            let a = coeff(r, q1); let b = coeff(r, q2);
            (enc(r.chance(1, 2), a * b, exponent(r) / 2), enc(r.chance(1, 2), b, exponent(r) / 2))
        }
        2 => { // divisor with a zero low word (2^64 multiples)
            let hi = 1 + r.below(1 << 40) as u128;
            let y = hi << 64;
            (finite_or_zero(r), enc(r.chance(1, 2), if y < P34 { y } else { 1u128 << 80 }, exponent(r) / 2))
        }
        3 => { // underflow / overflow regions
            let e1 = if r.chance(1, 2) { r.range(-6176, -3000) } else { r.range(3000, 6111) } as i32;
            let x = enc(r.chance(1, 2), coeff_upto(r, 34), e1);
            let e2 = if e1 < 0 { e1 + 6176 + r.range(-40, 40) as i32 } else { e1 - 6111 + r.range(-40, 40) as i32 };
            (x, enc(r.chance(1, 2), coeff_upto(r, 34), e2.clamp(EMIN, EMAX)))
        }
        _ => { let x = finite(r); let (s, c, e) = decode_fin(finite(r)); (x, enc(s, c, e / 2)) }
    }
}

pub fn sqrt_operand(r: &mut Rng) -> u128 {
    match r.below(6) {
        0 => { let q = 1 + r.below(17) as u32; let a = coeff(r, q); enc(false, a * a, exponent(r)) }
        1 => { let q = 1 + r.below(17) as u32; let a = coeff(r, q); enc(false, (a * a + 1).min(P34 - 1), exponent(r)) }
        2 => { let q = 1 + r.below(17) as u32; let a = coeff(r, q); enc(false, (a * a).saturating_sub(1).max(1), exponent(r)) }
        3 => operand(r),
        _ => finite(r) & !(1u128 << 127),
    }
}

/// fma triples whose product has more than 34 digits and lies in the subnormal range (so digits are chopped twice:
/// to 34 digits and then to the subnormal precision), with an addend below the last kept digit.
pub fn fma_subnormal_product_triple(r: &mut Rng) -> (u128, u128, u128) {
    let q1 = qdigits(r); let q2 = qdigits(r);
    let (c1, c2) = (coeff(r, q1), coeff(r, q2));
    let q4 = (q1 + q2) as i32;                         // product digits (or one less)
    // choose the product's exponent so that its most significant digit sits k digits above 10^emin, k in 1..=40
    let k = 1 + r.below(40) as i32;
    let pe = EMIN + k - q4;                            // e1 + e2
    let e1 = (pe / 2).clamp(EMIN, EMAX);
    let e2 = (pe - e1).clamp(EMIN, EMAX);
    // addend: a few digits at or just above emin, or a zero
    let z = match r.below(4) { 0 => zero(r), 1 => enc(r.chance(1, 2), coeff_upto(r, 8), EMIN), 2 => enc(r.chance(1, 2), coeff_upto(r, 34), EMIN + r.below(3) as i32),
                               _ => enc(r.chance(1, 2), coeff_upto(r, 12), EMIN + r.below(20) as i32) };
    (enc(r.chance(1, 2), c1, e1), enc(r.chance(1, 2), c2, e2), z)
}

/// fma triples whose exact result lies within a hair of a tie of the FINAL (subnormal) quantum while the product has 67–68
/// digits: x·y = (t + ½ ± ε)·10^(emin+j)·… built from factorisations of 5·10^66 with small offsets (2·10^33 + a)(25·10^32 − b),
/// placed so that j digits of the sum survive, plus a small addend at emin.  Rounding first to 34 digits and then to the
/// final quantum differs from rounding once exactly here (the double-rounding repairs of the long fma paths).
pub fn fma_half_quantum_triple(r: &mut Rng) -> (u128, u128, u128) {
    let (f1, f2): (u128, u128) = *r.pick(&[(2 * P33, 25 * pow10(32)), (4 * P33, 125 * pow10(31)), (5 * P33, P33), (8 * P33, 625 * pow10(30)), (P33 * 2, 75 * pow10(32)), (6 * P33, 25 * pow10(32))]);
    // (f1 + a)(f2 − b) = f1·f2 + (f2·a − f1·b) − a·b: choose a ≈ b·f1/f2 so that the first-order terms cancel and the
    // product differs from m·10^66 by less than half a unit of its 34th digit (the first rounding is then inexact but
    // returns the round number), or by a little more
    let b = r.below(40) as u128;
    let a0 = (b * (f1 / pow10(30)) + (f2 / pow10(30)) / 2) / (f2 / pow10(30));
    let a = match r.below(4) { 0 => a0 + 1, 1 => a0.saturating_sub(1), _ => a0 };
    let c1 = f1 + a;
    let c2 = f2 - b.min(f2 - 1);
    // product ≈ m·10^66 or so, 67 digits: leading digit at 10^(pe + 66); j digits survive above emin
    let j = if r.chance(1, 2) { 0 } else { r.below(4) as i32 };
    let pe = EMIN - 67 + j;                              // e1 + e2
    let e1 = -3000 - r.below(200) as i32;
    let e2 = pe - e1;
    let zs = r.chance(1, 2);
    let z = match r.below(4) { 0 => enc(zs, 0, EMIN), 1 => enc(zs, 1, EMIN), 2 => enc(zs, r.below(5) as u128, EMIN), _ => enc(zs, r.below(1000) as u128, EMIN) };
    (enc(r.chance(1, 2), c1, e1), enc(r.chance(1, 2), c2, e2.clamp(EMIN, EMAX)), z)
}

/// The top of the range: x·y a power of ten (or next to one) within a decade of the overflow threshold 10^6145, and an addend of
/// either sign a digit or two below the product's 34-digit window — at, just under or just over half a unit of the last place
/// of the largest finite number.  Whether the sum overflows or comes back to (10^34 − 1)·10^emax is decided by that addend.
pub fn fma_overflow_edge_triple(r: &mut Rng) -> (u128, u128, u128) {
    let i = r.below(20) as u32;
    let (a, b) = (r.below(15) as u32, r.below(15) as u32);
    let tw: u128 = if r.chance(1, 6) { 1 } else { 0 };
    let c1 = (1u128 << i) * pow10(a);
    let c2 = 5u128.pow(i) * pow10(b) + tw;                 // c1·c2 = 10^(i+a+b) (+ c1)
    let k = (i + a + b) as i32;
    let top = 6144 + r.below(3) as i32;                    // the product's leading digit stands at 10^top
    let pe = top - k;
    let e1 = (pe / 2 + r.range(-50, 50) as i32).clamp(EMIN, EMAX);
    let e2 = (pe - e1).clamp(EMIN, EMAX);
    // the addend's leading digit stands at 10^(top − delta): mostly just below the product's 34-digit window, else anywhere inside it
    // (the second pass of Cases (2)–(6) after the operand swap, with the product's exponent above emax)
    let delta = if r.chance(1, 2) { 33 + r.below(5) as i32 } else { r.below(41) as i32 };
    let q = 1 + r.below(34) as u32;
    let half = 5 * pow10(q - 1);
    let cz = match r.below(7) { 0 => half, 1 => half + 1, 2 => if q > 1 { half - 1 } else { 4 }, 3 => pow10(q) - 1, 4 => pow10(q - 1), 5 => 9 * pow10(q - 1), _ => coeff(r, q) };
    let ez = (top - delta - (q as i32 - 1)).clamp(EMIN, EMAX);
    (enc(r.chance(1, 2), c1, e1), enc(r.chance(1, 2), c2, e2), enc(r.chance(1, 2), cz, ez))
}

/// The product's exponent e1 + e2 OUTSIDE the format's range while the addend overlaps its digits: the routine swaps the roles and
/// runs its case analysis with an "addend" whose exponent is above emax or below emin (where D19, D21, D22 sat).  A short product
/// (≤ 34 digits) at an exponent a few decades beyond either end, and an addend of either sign whose leading digit stands anywhere from
/// two places above the product's to 36 below.
pub fn fma_out_of_range_product_triple(r: &mut Rng) -> (u128, u128, u128) {
    let q1 = 1 + r.below(17) as u32; let q2 = 1 + r.below(17) as u32;
    let (c1, c2) = match r.below(4) { 0 => (pow10(q1 - 1), pow10(q2 - 1)), 1 => (coeff(r, q1), pow10(q2 - 1)), _ => (coeff(r, q1), coeff(r, q2)) };
    let qp = ndigits(c1 * c2) as i32;
    let high = r.chance(1, 2);
    // exponent of the product
    let pe = if high { EMAX + 1 + r.below(45) as i32 } else { EMIN - 1 - r.below(45) as i32 };
    let e1 = (pe / 2 + r.range(-40, 40) as i32).clamp(EMIN, EMAX);
    let e2 = (pe - e1).clamp(EMIN, EMAX);
    let lead = qp - 1 + e1 + e2;                                  // position of the product's leading digit
    let off = r.range(-2, 36) as i32;
    let q3 = 1 + r.below(34) as u32;
    let c3 = match r.below(5) { 0 => pow10(q3 - 1), 1 => pow10(q3) - 1, 2 => 5 * pow10(q3 - 1), _ => coeff(r, q3) };
    let e3 = (lead - off - (q3 as i32 - 1)).clamp(EMIN, EMAX);
    (enc(r.chance(1, 2), c1, e1), enc(r.chance(1, 2), c2, e2), enc(r.chance(1, 2), c3, e3))
}

pub fn fma_triple(r: &mut Rng) -> (u128, u128, u128) {
    if r.chance(1, 16) { return fma_half_quantum_triple(r); }
    if r.chance(1, 16) { return fma_overflow_edge_triple(r); }
    if r.chance(1, 12) { return fma_out_of_range_product_triple(r); }
    match r.below(15) {
        13 | 14 => fma_subnormal_product_triple(r),
        10 | 11 | 12 => fma_tail_triple(r),
        0 => (operand(r), operand(r), operand(r)),
        1 => { let (x, y) = mul_pair(r); (x, y, zero(r)) }
        2 => { let x = finite(r); (x, enc(false, 1, 0), partner(r, x)) }
        3 => { // product far below the addend
            let z = finite(r);
            let (_, _, ez) = decode_fin(z);
            let ex = ((ez - r.range(0, 120) as i32) / 2).clamp(EMIN, EMAX);
            (enc(r.chance(1, 2), coeff_upto(r, 34), ex), enc(r.chance(1, 2), coeff_upto(r, 34), ex), z)
        }
        4 => { // product exponent below the minimum
            let ex = r.range(-6176, -3100) as i32; let ey = r.range(-6176, -3100) as i32;
            let z = enc(r.chance(1, 2), coeff_upto(r, 34), r.range(-6176, -6100) as i32);
            (enc(r.chance(1, 2), coeff_upto(r, 34), ex), enc(r.chance(1, 2), coeff_upto(r, 34), ey), z)
        }
        5 => { // massive cancellation: z ≈ -(x*y)
            let q1 = 1 + r.below(17) as u32; let q2 = 1 + r.below(17) as u32;
            let (a, b) = (coeff(r, q1), coeff(r, q2));
            let e = exponent(r) / 3;
            let p = a * b;
            let tweak: i128 = r.range(-2, 2) as i128;
            let z = ((p as i128 + tweak).max(0)) as u128;
            let s = r.chance(1, 2);
            (enc(s, a, e), enc(false, b, e), enc(!s, z.min(P34 - 1), 2 * e))
        }
        _ => {
            // aligned: choose the addend relative to the product's magnitude
            let x = finite(r); let (sy, cy, ey) = decode_fin(finite(r));
            let (_, cx, ex) = decode_fin(x);
            let ey = (ey / 2).clamp(EMIN, EMAX); let ex2 = (ex / 2).clamp(EMIN, EMAX);
            let x = enc(r.chance(1, 2), cx, ex2);
            let y = enc(sy, cy, ey);
            let qp = ndigits(cx) as i32 + ndigits(cy) as i32;   // product digits (±1)
            let ep = ex2 + ey;
            let q3 = 1 + r.below(34) as u32;
            let delta = match r.below(4) { 0 => r.range(-3, 3), 1 => r.range(-40, 40), 2 => r.range(-75, 75), _ => r.range(-200, 200) } as i32;
            let e3 = ep + qp - q3 as i32 + delta;
            (x, y, enc(r.chance(1, 2), coeff(r, q3), e3.clamp(EMIN, EMAX)))
        }
    }
}

/// Operands for conversions to integers: values near the type boundaries at every scale.
/// Short prefixes of an integer-type boundary: the first q digits of |b| (±1, or plus a half) scaled back up, so that
/// values with few significant digits and a positive exponent sit right at the range check (q + exp = 20 etc.).
pub fn int_boundary_prefix(r: &mut Rng, b: i128) -> u128 {
    let neg = b < 0;
    let s = b.unsigned_abs().to_string();
    let len = s.len() as u32;
    let q = 1 + r.below(len as u64) as u32;
    let prefix: u128 = s[..q as usize].parse().unwrap();
    let tweak: i128 = *r.pick(&[0i128, 0, 1, -1, 2]);
    let p = ((prefix as i128 + tweak).max(0)) as u128;
    let extra = r.below(4) as u32;                       // trailing zeros written into the coefficient
    let (c, e) = if r.chance(1, 3) && p < P34 / 100 {
        // prefix plus a fraction: p.5, p.49, p.51 …
        let f = *r.pick(&[5u128, 49, 51, 50, 99, 1]);
        let fd = if f < 10 { 1 } else { 2 };
        (p * pow10(fd) + f, (len - q) as i32 - fd as i32)
    } else { (p * pow10(extra), (len - q) as i32 - extra as i32) };
    if c < P34 { enc(neg, c, e) } else { finite(r) }
}

/// A value at a range boundary of one integer type (class 0 = i32, 1 = i64, 2 = u32, 3 = u64 in the order of `TO_INT`), written
/// with a coefficient of q digits for q uniform in 1..=34: for q up to the number of digits of the bound a (tweaked) prefix with
/// a positive exponent (so that every `q + exp = digits(bound)` arm of the range checks is visited, including one- and
/// two-digit coefficients), beyond that the bound ± an integer offset plus a fraction at {0, ±1 unit, ½, ½ ± 1 unit, 1 − unit}.
pub fn int_boundary_for(r: &mut Rng, class: usize) -> u128 {
    let bounds: &[i128] = match class {
        0 => &[i32::MAX as i128, i32::MIN as i128, i32::MAX as i128 + 1, i32::MIN as i128 - 1],
        1 => &[i64::MAX as i128, i64::MIN as i128, i64::MAX as i128 + 1, i64::MIN as i128 - 1],
        2 => &[u32::MAX as i128, u32::MAX as i128 + 1, 0, -1],
        _ => &[u64::MAX as i128, u64::MAX as i128 + 1, 0, -1],
    };
    let b = *r.pick(bounds);
    let neg = if b == 0 { r.chance(1, 2) } else { b < 0 };
    let mag = b.unsigned_abs();
    let s = mag.to_string();
    let len = s.len() as u32;
    let q = 1 + r.below(34) as u32;
    if q <= len && mag != 0 {
        let prefix: u128 = s[..q as usize].parse().unwrap();
        let tweak: i128 = *r.pick(&[0i128, 0, 1, -1, 2, -2]);
        let p = ((prefix as i128 + tweak).max(1)) as u128;
        enc(neg, p, (len - q) as i32)
    } else {
        let k = if mag == 0 { q } else { q - len };                  // fractional digits
        let off: i128 = *r.pick(&[0i128, 0, 0, 1, -1, 2, -2]);
        let int_part = (mag as i128 + off).max(0) as u128;
        if k == 0 { return enc(neg, int_part, 0); }
        let unit = pow10(k);
        let half = 5 * pow10(k - 1);
        let frac = match r.below(9) {
            0 => 0, 1 => 1, 2 => half, 3 => half - 1.min(half), 4 => half + 1, 5 => unit - 1,
            6 => r.u128() % unit, 7 => half + (r.u128() % 1000).min(half - 1), _ => half - (r.u128() % 1000).min(half),
        };
        let c = int_part * unit + frac;
        if c < P34 && c > 0 { enc(neg, c, -(k as i32)) } else { enc(neg, (int_part).max(1), 0) }
    }
}

pub fn int_boundary_operand(r: &mut Rng) -> u128 {
    let bounds: [i128; 12] = [
        i32::MAX as i128, i32::MIN as i128, u32::MAX as i128, i64::MAX as i128, i64::MIN as i128, u64::MAX as i128,
        0, 1, -1, i32::MAX as i128 + 1, u32::MAX as i128 + 1, i64::MAX as i128 + 1,
    ];
    match r.below(6) {
        5 => { let b = *r.pick(&bounds); int_boundary_prefix(r, b) }
        0 | 1 | 2 => {
            let b = *r.pick(&bounds);
            // value = b + off/2 (so halves are reachable), written with k extra fractional digits
            let off2: i128 = r.range(-4, 4) as i128;              // in units of 1/2
            let eps: i128 = *r.pick(&[0i128, 0, 1, -1]);          // in units of 10^-k
            let k = r.below(14) as u32;                           // fractional digits
            let scaled = (2 * b + off2) * 5 * pow10(k) as i128 / 1 + eps * if k > 0 { 1 } else { 0 };
            // scaled is value * 10^(k+1)
            let neg = scaled < 0;
            let mag = scaled.unsigned_abs();
            if mag < P34 { enc(neg, mag, -(k as i32) - 1) } else { finite(r) }
        }
        3 => { // small magnitudes around 0, ±0.5, ±1.5 ...
            let k = 1 + r.below(33) as u32;
            let c = *r.pick(&[5u128, 15, 25, 4, 6, 14, 16, 1, 9, 10, 49, 50, 51]) * pow10(k - 1);
            enc(r.chance(1, 2), c.min(P34 - 1), -(k as i32) - r.below(3) as i32)
        }
        _ => {
            let q = 1 + r.below(34) as u32;
            enc(r.chance(1, 2), coeff(r, q), r.range(-40, 25) as i32)
        }
    }
}

/// A coefficient whose last `k` digits sit at a chosen distance from the half-way point of the digit above them:
/// kept·10^k + 5·10^(k-1) + δ with δ ∈ {0, ±1, ±(small), random}; also exact multiples (δ = -half) and 10^k - 1 tails.
/// Returns (coefficient, k).  This is where rounding decisions (and reciprocal-multiplication residues) live.
pub fn near_tie_coeff(r: &mut Rng) -> (u128, u32) {
    let k = 1 + r.below(33) as u32;                 // digits to be dropped
    let keep_digits = 1 + r.below((34 - k) as u64) as u32;
    let kept = match r.below(5) { 0 => 0, 1 => pow10(keep_digits) - 1, 2 => pow10(keep_digits - 1), _ => coeff(r, keep_digits) };
    let kept = if r.chance(1, 2) { kept | 1 } else { kept & !1u128 };
    let half = 5 * pow10(k - 1);
    let unit = pow10(k);
    let delta: i128 = match r.below(12) {
        10 | 11 => {
            // reciprocal-residue offsets: δ = ⌈j·10^k / 2^a⌉ for small j, i.e. δ·2^a/10^k lies just above an integer.  The
            // code divides by 10^k by multiplying with ⌈2^(a+128)/10^k⌉-like constants; for such δ the low part of that product
            // is smaller than the constant, which is where the exact-tie / exact-quotient tests on the low words decide.
            let lg = 128 - unit.leading_zeros() as i32 - 1;                  // floor(log2(10^k))
            let a = (lg - 1 - r.below(40) as i32).max(0) as u32;
            let j = 1 + r.below(2000) as u128;
            let num = j.checked_mul(unit);
            let d = match num { Some(n) => ((n + (1u128 << a) - 1) >> a) as i128, None => 1 };
            let d = d.min(half as i128 - 1).max(1);
            if r.chance(1, 2) { d } else { -d }
        }
        0 => 0,
        1 => 1, 2 => -1,
        3 => r.range(1, 100_000) as i128,
        4 => -(r.range(1, 100_000) as i128),
        5 => -(half as i128),                       // exact
        6 => half as i128 - 1,                      // ...999
        7 => -(half as i128) + 1,                   // ...001
        8 => (r.u128() % (half.max(2) as u128)) as i128,
        _ => -((r.u128() % (half.max(2) as u128)) as i128),
    };
    let tail = (half as i128 + delta).clamp(0, unit as i128 - 1) as u128;
    ((kept * unit + tail).min(P34 - 1), k)
}

/// fma triples where the product sits at a chosen fraction of the ulp of the (34-digit normalised) addend.
pub fn fma_tail_triple(r: &mut Rng) -> (u128, u128, u128) {
    let q3 = qdigits(r);
    let c3 = coeff(r, q3);
    let e3 = match r.below(4) { 0 => -6143 - q3 as i32 + 1 + r.range(-2, 36) as i32,
                                 1 => if r.chance(1, 2) { EMAX + 34 - q3 as i32 - r.below(3) as i32 } else { EMAX - r.below(40) as i32 },
                                 _ => exponent(r) };
    let e3 = e3.clamp(EMIN, EMAX);
    let u = (e3 + q3 as i32 - 34).max(EMIN);           // exponent of one ulp of the normalised addend
    let k = 1 + r.below(20) as u32;                    // digits of the tail pattern
    let t: u128 = match r.below(9) {
        0 => 5 * pow10(k - 1), 1 => 5 * pow10(k - 1) + 1, 2 => 5 * pow10(k - 1) - 1, 3 => pow10(k) - 1, 4 => 1,
        5 => pow10(k - 1), 6 => 6 * pow10(k - 1), 7 => 15 * pow10(k - 1), _ => coeff(r, k),
    }.max(1);
    // product = t·10^(u-k)·10^j with j ∈ {0, 1, -1}: below, at, or above one ulp
    let pe = u - k as i32 + *r.pick(&[0i32, 0, 0, 1, -1, 2]);
    let (tx, ty) = if t % 5 == 0 && r.chance(1, 2) { (5u128, t / 5) } else if t % 2 == 0 && r.chance(1, 2) { (2u128, t / 2) } else { (t, 1u128) };
    let ex = (pe / 2).clamp(EMIN, EMAX);
    let ey = (pe - ex).clamp(EMIN, EMAX);
    (enc(r.chance(1, 2), tx.min(P34 - 1), ex), enc(r.chance(1, 2), ty.min(P34 - 1).max(1), ey), enc(r.chance(1, 2), c3, e3))
}

pub fn any_int(r: &mut Rng, lo: i128, hi: i128) -> i128 {
    match r.below(6) {
        0 => lo, 1 => hi, 2 => 0,
        3 => (lo + r.below(100) as i128).min(hi),
        4 => (hi - r.below(100) as i128).max(lo),
        _ => { let span = (hi - lo) as u128 + 1; lo + (r.u128() % span) as i128 }
    }
}

pub fn f32_bits(r: &mut Rng) -> u32 {
    if r.chance(1, 4) { if let Some(b) = decimal_exact_bin(r, 23, 8) { return b as u32; } }
    let sign = (r.below(2) as u32) << 31;
    let exp = match r.below(8) { 0 => 0, 1 => 255, 2 => 1, 3 => 254, _ => r.below(256) as u32 };
    let frac = match r.below(6) { 0 => 0, 1 => 0x7FFFFF, 2 => 1, 3 => 0x400000, 4 => 1u32 << r.below(23), _ => r.next() as u32 & 0x7FFFFF };
    sign | (exp << 23) | frac
}
/// A binary value M·2^E given as exact integers (M < 2^53 resp. 2^24), packed into the interchange format when it is a
/// normal number of that format.
fn pack_bin(neg: bool, mut m: u64, mut e: i32, frac_bits: u32, exp_bits: u32) -> Option<u64> {
    if m == 0 { return None; }
    while m < (1u64 << frac_bits) { m <<= 1; e -= 1; }
    while m >= (1u64 << (frac_bits + 1)) { if m & 1 != 0 { return None; } m >>= 1; e += 1; }
    let bias = (1i32 << (exp_bits - 1)) - 1;
    let be = e + frac_bits as i32 + bias;
    if be <= 0 || be >= (1 << exp_bits) - 1 { return None; }
    Some(((neg as u64) << (frac_bits + exp_bits)) | ((be as u64) << frac_bits) | (m & ((1u64 << frac_bits) - 1)))
}

/// Binary values that are exact short decimals: m·10^k·2^t (integers that are multiples of 10^k) and m·5^k·2^-t (fractions
/// with few digits): the conversion must be exact (no flag) and choose the quantum exponent closest to zero; each decade
/// selects its own pair of entries of the bipartite power tables.
pub fn decimal_exact_bin(r: &mut Rng, frac_bits: u32, exp_bits: u32) -> Option<u64> {
    let kmax = if frac_bits == 52 { 22 } else { 10 };
    let k = r.below(kmax + 1) as u32;
    let p5 = 5u64.pow(k);
    let lim = (1u64 << (frac_bits + 1)) / p5;
    let m = match r.below(4) { 0 => 1, 1 => lim.saturating_sub(1).max(1), _ => 1 + r.below(lim.max(1)) };
    let mant = m.checked_mul(p5)?;
    if mant >= (1u64 << (frac_bits + 1)) { return None; }
    let span = if exp_bits == 11 { 900 } else { 100 };
    let e = if r.chance(2, 3) { k as i32 + r.below(span) as i32 } else { -(r.below(if exp_bits == 11 { 130 } else { 60 }) as i32) };
    pack_bin(r.chance(1, 2), mant, e, frac_bits, exp_bits)
}

pub fn f64_bits(r: &mut Rng) -> u64 {
    if r.chance(1, 4) { if let Some(b) = decimal_exact_bin(r, 52, 11) { return b; } }
    let sign = r.below(2) << 63;
    let exp = match r.below(8) { 0 => 0, 1 => 2047, 2 => 1, 3 => 2046, _ => r.below(2048) };
    let m = (1u64 << 52) - 1;
    let frac = match r.below(6) { 0 => 0, 1 => m, 2 => 1, 3 => 1u64 << 51, 4 => 1u64 << r.below(52), _ => r.next() & m };
    sign | (exp << 52) | frac
}

/* ------------------------------------------------------------------------------------------------ */
/* strings                                                                                            */
/* ------------------------------------------------------------------------------------------------ */

fn digits(r: &mut Rng, n: usize) -> String {
    let mut s = String::new();
    let style = r.below(5);
    for i in 0..n {
        let d = match style {
            0 => 9,
            1 => if i == 0 { 1 } else { 0 },
            2 => if i + 1 == n { 1 } else if i == 0 { 1 + r.below(9) } else { 0 },
            _ => r.below(10),
        };
        s.push((b'0' + d as u8) as char);
    }
    s
}

/// A well-formed literal, with the rounding position and exponent at interesting places.
/// A literal of more than 34 digits in the subnormal range whose digits sit at a tie of the FINAL quantum: j digits survive
/// (0 ≤ j ≤ 33), the remaining digits of the 34-digit prefix are 4999…9 / 5000…0, and what follows the 34th digit is a small
/// tail — so that rounding once at the final quantum and rounding first to 34 digits differ (double-rounding hazards, and the
/// sticky-digit logic of the long-literal path).
pub fn subnormal_double_rounding_literal(r: &mut Rng) -> String {
    let j = r.below(34) as usize;
    let mut ds = if j > 0 { let mut d = digits(r, j); if d.starts_with('0') { d.replace_range(0..1, "1"); } d } else { String::new() };
    let fill = 34 - j;
    let pat = match r.below(4) { 0 | 1 => format!("4{}", "9".repeat(fill - 1)), 2 => format!("5{}", "0".repeat(fill - 1)), _ => format!("{}{}", if r.chance(1, 2) { "0" } else { "9" }, "9".repeat(fill - 1)) };
    ds.push_str(&pat);
    ds.push_str(*r.pick(&["1", "5", "9", "0", "01", "50", "49", "0000000001", "99999"]));
    let nd = ds.len() as i64;
    // leading digit at 10^(−6177 + j): adjusted exponent = exp + nd − 1
    let adj = -6177 + j as i64 + *r.pick(&[0i64, 0, 0, -1, 1]);
    let exp = adj - nd + 1;
    format!("{}{}e{}", *r.pick(&["", "-", "+"]), ds, exp)
}

pub fn literal(r: &mut Rng) -> String {
    if r.chance(1, 12) { return subnormal_double_rounding_literal(r); }
    let mut s = String::new();
    match r.below(3) { 0 => s.push('+'), 1 => s.push('-'), _ => {} }
    let total = match r.below(8) {
        0 => 34, 1 => 35, 2 => 36, 3 => 1 + r.below(33) as usize, 4 => 37 + r.below(63) as usize, 5 => 100,
        _ => 1 + r.below(45) as usize,
    };
    let mut ds = digits(r, total);
    if r.chance(1, 3) {
        // digits of a shaped coefficient (carry boundaries, 2-adic shapes, powers of ten …), extended when longer than 34
        let q = total.min(34) as u32;
        let mut t = coeff(r, q).to_string();
        if total > 34 { t.push_str(&digits(r, total - 34)); }
        ds = t;
    }
    if r.chance(1, 3) && total > 34 {
        // put a tie / near-tie pattern after the 34th digit
        let tail = match r.below(4) { 0 => "5", 1 => "50000", 2 => "49999", _ => "50001" };
        ds.truncate(34);
        ds.push_str(tail);
    }
    if r.chance(1, 6) { ds = format!("{}{}", "0".repeat(1 + r.below(5) as usize), ds); }
    let point = if r.chance(1, 2) { Some(r.below(ds.len() as u64 + 1) as usize) } else { None };
    let frac_len = match point { Some(p) => ds.len() - p, None => 0 } as i64;
    match point {
        Some(p) => { s.push_str(&ds[..p]); s.push('.'); s.push_str(&ds[p..]); }
        None => s.push_str(&ds),
    }
    if s.ends_with('.') && ds.is_empty() { s.push('0'); }
    if r.chance(3, 4) {
        // choose the exponent so that the value lands near a threshold
        let nd = ds.trim_start_matches('0').len() as i64;
        let target_adj = match r.below(9) {
            0 => 6144 + r.range(-3, 3), 1 => -6143 + r.range(-3, 3), 2 => -6176 + r.range(-3, 3),
            3 => -6176 - 34 + r.range(-3, 3), 4 => r.range(-30, 30), 5 => 6111 + r.range(-3, 40),
            6 => r.range(-6182, -6138),
            _ => r.range(-6300, 6300),
        };
        // adjusted exponent = exp - frac_len + nd - 1
        let exp = target_adj + frac_len - nd + 1;
        s.push(if r.chance(1, 2) { 'E' } else { 'e' });
        if exp < 0 { s.push('-'); } else if r.chance(1, 2) { s.push('+'); }
        if r.chance(1, 5) { s.push_str(&"0".repeat(1 + r.below(9) as usize)); }
        s.push_str(&exp.abs().to_string());
    }
    s
}

pub fn special_spelling(r: &mut Rng) -> String {
    let base = *r.pick(&["inf", "infinity", "nan", "snan"]);
    let mut s = String::new();
    match r.below(3) { 0 => s.push('+'), 1 => s.push('-'), _ => {} }
    for ch in base.chars() { s.push(if r.chance(1, 2) { ch.to_ascii_uppercase() } else { ch }); }
    s
}

pub fn malformed(r: &mut Rng) -> String {
    match r.below(10) {
        9 => { // a special-value name behind something that is not a sign, or behind two signs
            let base = *r.pick(&["inf", "infinity", "nan", "snan"]);
            let pre = *r.pick(&["0", "1", "9", ".", "++", "--", "+-", "1.", "e", "x", "\u{f1}", "+0", "-."]);
            let mut s = String::from(pre);
            for ch in base.chars() { s.push(if r.chance(1, 2) { ch.to_ascii_uppercase() } else { ch }); }
            if r.chance(1, 3) { s.push(*r.pick(&['x', '1', 'e', ' '])); }
            s
        }
        0 => { // truncation of a valid literal
            let l = literal(r);
            let cut = r.below(l.len() as u64 + 1) as usize;
            l[..cut].to_string()
        }
        1 => { // insert a stray character
            let l = literal(r);
            let pos = r.below(l.len() as u64 + 1) as usize;
            let ch = *r.pick(&['.', '+', '-', 'e', 'E', ' ', 'x', '!', '/', ':', '\u{f1}', '\u{20ac}', '\u{1F600}', '\t', ',', '_']);
            format!("{}{}{}", &l[..pos], ch, &l[pos..])
        }
        2 => { // random short text over a small alphabet
            let n = r.below(8) as usize;
            (0..n).map(|_| *r.pick(&['0', '1', '9', '.', '+', '-', 'e', 'E', 'n', 'a', 'i', 'f', 's', 'N', ' ', '!', '\u{e9}'])).collect()
        }
        3 => { let s = special_spelling(r); let cut = r.below(s.len() as u64 + 1) as usize; s[..cut].to_string() }
        4 => { let mut s = special_spelling(r); s.push(*r.pick(&['x', ' ', '1', '(', '\u{f1}'])); s }
        5 => { // very long digit strings
            let n = 101 + r.below(300) as usize;
            let mut s = digits(r, n);
            if r.chance(1, 2) { let p = r.below(n as u64) as usize; s.insert(p, '.'); }
            s
        }
        6 => { // multi-byte characters around signs and digits
            let pre = *r.pick(&["", "+", "-", "1", "1e", "."]);
            let ch = *r.pick(&['\u{f1}', '\u{20ac}', '\u{1F600}', '\u{7f}', '\u{0}']);
            format!("{}{}{}", pre, "a".repeat(r.below(4) as usize), ch)
        }
        7 => format!("{}{}", " ".repeat(1 + r.below(3) as usize), literal(r)),
        _ => String::new(),
    }
}

pub fn dval(b: u128) -> Val { Val::D(b) }
pub fn sval(s: &str) -> Val { Val::S(s.as_bytes().to_vec()) }

pub fn mode_tok(r: &mut Rng) -> char {
    match r.below(11) { 0 | 1 => '0', 2 | 3 => '1', 4 | 5 => '2', 6 | 7 => '3', 8 | 9 => '4', _ => 'N' }
}

pub fn flags_in(r: &mut Rng) -> u32 {
    if r.chance(3, 4) { 0 } else { r.below(64) as u32 }
}

pub fn case(op: &str, mode: char, fl: u32, args: Vec<Val>) -> Case { Case::new(op, mode, fl, args) }


// ---------------------------------------------------------------------------------------------------------------
// inputs of the crate-internal helper routines (reached through the cfg hook, ops `hk_<name>`)

/// 256-bit unsigned integer, little-endian words (only what the generators need).
#[derive(Clone, Copy, Debug, PartialEq, Eq)]
pub struct U256(pub [u64; 4]);
impl U256 {
    pub fn from_u128(x: u128) -> U256 { U256([x as u64, (x >> 64) as u64, 0, 0]) }
    pub fn mul_u64(self, m: u64) -> U256 {
        let mut out = [0u64; 4];
        let mut carry: u128 = 0;
        for i in 0..4 { let t = self.0[i] as u128 * m as u128 + carry; out[i] = t as u64; carry = t >> 64; }
        U256(out)
    }
    pub fn add(self, o: U256) -> U256 {
        let mut out = [0u64; 4];
        let mut carry = 0u128;
        for i in 0..4 { let t = self.0[i] as u128 + o.0[i] as u128 + carry; out[i] = t as u64; carry = t >> 64; }
        U256(out)
    }
    pub fn sub(self, o: U256) -> U256 {
        let mut out = [0u64; 4];
        let mut borrow = 0i128;
        for i in 0..4 { let t = self.0[i] as i128 - o.0[i] as i128 - borrow; if t < 0 { out[i] = (t + (1i128 << 64)) as u64; borrow = 1; } else { out[i] = t as u64; borrow = 0; } }
        U256(out)
    }
    pub fn pow10(n: u32) -> U256 { let mut x = U256([1, 0, 0, 0]); for _ in 0..n { x = x.mul_u64(10); } x }
    pub fn lt(self, o: U256) -> bool { for i in (0..4).rev() { if self.0[i] != o.0[i] { return self.0[i] < o.0[i]; } } false }
    /// self mod m for m > 0 by shift-subtract (slow; generator use only)
    pub fn rem(self, m: U256) -> U256 {
        let mut r = U256([0; 4]);
        for bit in (0..256).rev() {
            // r = r * 2 + bit
            let mut nr = [0u64; 4];
            for i in (0..4).rev() { nr[i] = (r.0[i] << 1) | if i > 0 { r.0[i - 1] >> 63 } else { 0 }; }
            nr[0] |= (self.0[bit / 64] >> (bit % 64)) & 1;
            r = U256(nr);
            if !r.lt(m) { r = r.sub(m); }
        }
        r
    }
}

/// A random integer with exactly `q` decimal digits (q ≤ 76).
pub fn big_digits(r: &mut Rng, q: u32) -> U256 {
    let lo = U256::pow10(q - 1);
    let span = lo.mul_u64(9);                       // 10^q - 10^(q-1)
    let raw = U256([r.next(), r.next(), r.next(), r.next()]);
    lo.add(raw.rem(span))
}

/// Input of the digit-removal rounding helpers: (width index 0..3, q, x, C) with C = a·10^x + t, a of q−x digits from
/// {random, all nines (carry into the next digit), 10^(q−x−1), forced even, forced odd}, t from
/// {0, 1, ½−1, ½, ½+1, 10^x−1, random}.
pub fn hk_round_input(r: &mut Rng) -> (usize, u32, u32, U256) {
    let w = r.below(4) as usize;
    let (qlo, qhi) = [(2u32, 18u32), (19, 38), (39, 57), (58, 76)][w];
    let q = if r.chance(1, 4) { *r.pick(&[qlo, qhi]) } else { qlo + r.below((qhi - qlo + 1) as u64) as u32 };
    let x = if r.chance(1, 5) { *r.pick(&[1, q - 1]) } else { 1 + r.below((q - 1) as u64) as u32 };
    let keep = q - x;
    let mut a = match r.below(6) {
        0 => U256::pow10(keep).sub(U256([1, 0, 0, 0])),
        1 => U256::pow10(keep - 1),
        _ => big_digits(r, keep),
    };
    match r.below(4) { 0 => a.0[0] |= 1, 1 => { if a.0[0] & 1 == 1 && !(keep == 1 && a.0[0] == 1 && a.0[1] == 0) { a.0[0] &= !1; } } _ => {} }
    if a.lt(U256::pow10(keep - 1)) { a = U256::pow10(keep - 1); }
    let unit = U256::pow10(x);
    let half = U256::pow10(x - 1).mul_u64(5);
    let one = U256([1, 0, 0, 0]);
    let t = match r.below(9) {
        0 => U256([0; 4]),
        1 => one,
        2 => half.sub(one),
        3 => half,
        4 => half.add(one),
        5 => unit.sub(one),
        6 => { let d = U256([r.below(1000), 0, 0, 0]); if d.lt(half) { half.add(d) } else { half } }
        7 => { let d = U256([r.below(1000), 0, 0, 0]); if d.lt(half) { half.sub(d) } else { half } }
        _ => U256([r.next(), r.next(), r.next(), r.next()]).rem(unit),
    };
    let mut c = U256([0; 4]);
    // a * 10^x: multiply step by step
    let mut ax = a; for _ in 0..x { ax = ax.mul_u64(10); }
    c = c.add(ax).add(t);
    (w, q, x, c)
}

/// A 64-bit word with the shapes carry chains care about.
pub fn hk_word(r: &mut Rng) -> u64 {
    match r.below(12) {
        0 => 0, 1 => 1, 2 => u64::MAX, 3 => u64::MAX - 1, 4 => 1 << 63, 5 => (1 << 63) - 1,
        6 => 0xffff_ffff, 7 => 0x1_0000_0000, 8 => 0xffff_ffff_0000_0000, 9 => r.below(1 << 16),
        _ => r.next(),
    }
}


/// An operand of the same class as `x` in another encoding: another infinity (either sign, with or without junk bits), another NaN
/// of the same kind, or — for a finite pattern — the same exponent written in another encoding form (ordinary canonical /
/// coefficient ≥ 10^34 / large-coefficient "steering" form / canonical zero).  Two-operand routines decode each operand with its
/// own copy of the field-extraction code; a slip in one copy shows only when the two operands use different forms.
pub fn sibling(r: &mut Rng, x: u128) -> u128 {
    let top = (x >> 123) & 15;
    let sign = if r.chance(3, 4) { x & (1u128 << 127) } else { (r.chance(1, 2) as u128) << 127 };
    if top == 15 {
        if (x >> 122) & 1 == 0 {
            // infinity
            let junk = match r.below(3) { 0 => 0, 1 => r.u128() & ((1u128 << 64) - 1), _ => r.u128() & ((1u128 << 122) - 1) };
            return sign | (0x78u128 << 120) | junk;
        }
        let n = nan(r);
        return sign | (n & !(1u128 << 127) & !(1u128 << 121)) | (x & (1u128 << 121));
    }
    // exponent of x in whichever form x uses
    let e = if (x >> 125) & 3 == 3 { (x >> 111) & 0x3fff } else { (x >> 113) & 0x3fff };
    let e = if r.chance(1, 4) { (e + r.below(3) as u128).min(12287) } else { e };
    match r.below(4) {
        0 => sign | (e << 113) | (coeff_upto(r, 34) & ((1u128 << 113) - 1)),                          // ordinary
        1 => sign | (e << 113) | (P34 + r.u128() % ((1u128 << 113) - P34)),                           // coefficient >= 10^34
        2 => sign | (3u128 << 125) | (e << 111) | (r.u128() & ((1u128 << 111) - 1)),                  // steering form
        _ => sign | (e << 113),                                                                       // canonical zero
    }
}

/// remainder / fmod pairs with |x| next to |y|/2 (and next to |y|) at a chosen exponent gap g = e_y − e_x, 0 ≤ g ≤ 36, weighted
/// to the gaps 32..36 where the routines stop scaling: y = c_y·10^g·10^e with a small c_y, x = (c_y·10^g)/2 + δ.
pub fn rem_half_pair(r: &mut Rng) -> (u128, u128) {
    let g = if r.chance(1, 2) { 30 + r.below(7) as u32 } else { r.below(37) as u32 };
    let cy: u128 = *r.pick(&[1u128, 1, 2, 3, 5, 7, 9, 10, 11, 99, 101]);
    let e = r.range(EMIN as i64, (EMAX - 40) as i64) as i32;
    let full = cy.checked_mul(pow10(g.min(36)));
    let target = match full { Some(f) => if r.chance(3, 4) { f / 2 } else { f }, None => P34 - 1 };
    let delta: i128 = match r.below(7) { 0 => 0, 1 => 1, 2 => -1, 3 => r.range(2, 100000) as i128, 4 => -(r.range(2, 100000) as i128),
        5 => (target / 10) as i128, _ => -((target / 10) as i128) };
    let cx = ((target as i128 + delta).max(1) as u128).min(P34 - 1);
    (enc(r.chance(1, 2), cx, e), enc(r.chance(1, 2), cy, e + g as i32))
}


/// Pairs (x, y) with e_y − e_x = g where the divisor aligned to x's quantum, c_y·10^g, sits on a 64-bit word boundary of the
/// multi-word product the routines form: just above 2^128 (or 2^64), or with its low 128 (64) bits all zero
/// (c_y = m·2^(64k−g), so that c_y·10^g = m·5^g·2^(64k)).  x is a full-size coefficient, so only the dropped high words decide.
pub fn scaled_word_pair(r: &mut Rng) -> (u128, u128) {
    let k: u32 = if r.chance(3, 4) { 2 } else { 1 };
    let g = 1 + r.below(34) as u32;
    let p = pow10(g);
    let cy: u128 = if r.chance(1, 2) {
        // just above the boundary: ceil(2^(64k) / 10^g) + small
        let base = if k == 2 { (u128::MAX / p) + 1 } else { ((1u128 << 64) / p) + 1 };
        base + *r.pick(&[0u128, 0, 1, 2, 5]) + if r.chance(1, 4) { r.below(1000) as u128 } else { 0 }
    } else {
        let sh = (64 * k).saturating_sub(g);
        let m = 1 + r.below(1 << 10) as u128;
        if sh < 113 { m << sh } else { 1u128 << 112 }
    };
    let cy = cy.clamp(1, P34 - 1);
    let e = r.range(EMIN as i64, (EMAX - 40) as i64) as i32;
    let cx = match r.below(3) { 0 => P34 - 1 - r.below(1000) as u128, 1 => coeff(r, 34), _ => { let q = 33 + r.below(2) as u32; coeff(r, q) } };
    (enc(r.chance(1, 2), cx, e), enc(r.chance(1, 2), cy, e + g as i32))
}


/// Two members of one cohort (equal value, different quantum), the wider one using the full 113-bit coefficient field
/// (coefficient ≥ 2^111 ≈ 2.6·10^33, or ≥ 2^112) — where a mask that is two bits short, or a 64-bit word split, shows.
pub fn cohort_pair_wide(r: &mut Rng) -> (u128, u128) {
    let t = 1 + r.below(33) as u32;                       // trailing zeros of the wide member
    let lo = if r.chance(1, 2) { 1u128 << 111 } else { 1u128 << 112 };
    let unit = pow10(t);
    let m = (lo / unit) + 1 + (r.u128() % (((P34 - 1 - lo) / unit).max(1)));
    let wide = (m * unit).min(P34 - 1);
    let wide = wide - wide % unit;
    let e = r.range(EMIN as i64, (EMAX - 40) as i64) as i32;
    let strip = 1 + r.below(t as u64) as u32;
    let neg = r.chance(1, 2);
    let (a, b) = (enc(neg, wide, e), enc(neg, wide / pow10(strip), e + strip as i32));
    if r.chance(1, 2) { (a, b) } else { (b, a) }
}
