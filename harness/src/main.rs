//! harness — drives the real decmathlib-rs API and prints observation lines for the Lean judge.
//!
//!   harness dump-tables                         constant tables of the compiled crate
//!   harness ops                                 operation names the harness can drive
//!   harness gen <id> <seed> <count> <dir> <threads>   generated observations for property <id> into <dir>/obs.<t>.txt
//!   harness run                                 cases on stdin (lines without the "=> ..." part) → observations on stdout
//!
//! Lines in a `run` input that start with `@thread` switch on status-word threading: the next cases whose
//! incoming word is `ffff` take the previous call's outgoing word.

mod families;
mod gen;
mod ops;

use std::io::{BufRead, Write};
use std::sync::atomic::{AtomicU64, Ordering};
use std::sync::{Arc, Mutex};

/// Seconds without progress after which a call is declared hung (the slowest legitimate call, a 400-character
/// string through the quadratic parser, takes well under a millisecond).
const HANG_SECS: u64 = 20;

/// What a worker is doing right now, for the watchdog.
struct Slot { counter: AtomicU64, current: Mutex<String> }

/// Declares a hang if some slot's counter does not move for HANG_SECS while it has a current case: prints
/// `<case> => HANG` lines on stdout and ends the process with exit code 3.
fn watchdog(slots: Vec<Arc<Slot>>, done: Arc<AtomicU64>) {
    std::thread::spawn(move || {
        let mut last: Vec<(u64, u64)> = slots.iter().map(|_| (u64::MAX, 0)).collect();   // (counter, seconds unchanged)
        loop {
            std::thread::sleep(std::time::Duration::from_secs(1));
            if done.load(Ordering::SeqCst) != 0 { return; }
            let mut hung = Vec::new();
            for (i, sl) in slots.iter().enumerate() {
                let c = sl.counter.load(Ordering::SeqCst);
                if c == last[i].0 { last[i].1 += 1; } else { last[i] = (c, 0); }
                if last[i].1 >= HANG_SECS {
                    let cur = sl.current.lock().map(|g| g.clone()).unwrap_or_default();
                    if !cur.is_empty() { hung.push(cur); }
                }
            }
            if !hung.is_empty() {
                for h in hung { println!("{} => HANG", h); }
                let _ = std::io::stdout().flush();
                std::process::exit(3);
            }
        }
    });
}

fn observe_threaded(c: &mut ops::Case, prev: &mut u32, first: &mut bool, r: &mut gen::Rng, slot: &Slot) -> String {
    if c.flags_in == 0xffff {
        c.flags_in = if *first { *first = false; gen::flags_in(r) } else { *prev };
    }
    if let Ok(mut g) = slot.current.lock() { *g = c.show(); }
    slot.counter.fetch_add(1, Ordering::SeqCst);
    let outcome = ops::run(c);
    if let Ok(mut g) = slot.current.lock() { g.clear(); }
    slot.counter.fetch_add(1, Ordering::SeqCst);
    match outcome {
        ops::Outcome::Ok(res, st) => {
            *prev = st;
            let mut s = c.show();
            s.push_str(" =>");
            for v in &res { s.push(' '); s.push_str(&v.show()); }
            s.push_str(&format!(" {:x}", st));
            s
        }
        ops::Outcome::Panic => format!("{} => PANIC", c.show()),
        ops::Outcome::Unknown => format!("{} => UNKNOWN", c.show()),
    }
}

fn main() {
    std::panic::set_hook(Box::new(|_| {}));
    let args: Vec<String> = std::env::args().collect();
    let cmd = args.get(1).map(|s| s.as_str()).unwrap_or("");
    match cmd {
        "dump-tables" => {
            let out = std::io::stdout();
            let mut out = out.lock();
            for t in decmathlib_rs::verif_hooks::tables() {
                let name = t.name.rsplit("::").next().unwrap_or(t.name);
                write!(out, "{} {} {}", name, t.len, t.words.len()).unwrap();
                for w in &t.words { write!(out, " {:x}", w).unwrap(); }
                writeln!(out).unwrap();
            }
        }
        "ops" => { for o in ops::ALL_OPS { println!("{}", o); } }
        "gen" => {
            let id = args[2].clone();
            let seed: u64 = args[3].parse().expect("seed");
            let count: usize = args[4].parse().expect("count");
            let dir = args[5].clone();
            let threads: usize = args.get(6).map(|s| s.parse().expect("threads")).unwrap_or(1);
            std::fs::create_dir_all(&dir).unwrap();
            let mut hs = Vec::new();
            let slots: Vec<Arc<Slot>> = (0..threads).map(|_| Arc::new(Slot { counter: AtomicU64::new(0), current: Mutex::new(String::new()) })).collect();
            let done = Arc::new(AtomicU64::new(0));
            watchdog(slots.clone(), done.clone());
            for t in 0..threads {
                let id = id.clone();
                let dir = dir.clone();
                let slot = slots[t].clone();
                hs.push(std::thread::Builder::new().stack_size(64 << 20).spawn(move || {
                    let mut r = gen::Rng(seed.wrapping_mul(0x9E3779B97F4A7C15) ^ ((t as u64 + 1).wrapping_mul(0xD1B54A32D192ED03)));
                    let f = std::fs::File::create(format!("{}/obs.{}.txt", dir, t)).unwrap();
                    let mut w = std::io::BufWriter::new(f);
                    let per = count / threads + if t < count % threads { 1 } else { 0 };
                    let mut n = 0usize;
                    let mut buf = Vec::new();
                    while n < per {
                        buf.clear();
                        families::gen(&id, &mut r, &mut buf);
                        let mut prev = 0u32;
                        let mut first = true;
                        for c in buf.iter_mut() {
                            let line = observe_threaded(c, &mut prev, &mut first, &mut r, &slot);
                            writeln!(w, "{}", line).unwrap();
                            n += 1;
                        }
                        if n % 4096 < 8 { let _ = w.flush(); }
                    }
                    w.flush().unwrap();
                }).unwrap());
            }
            for h in hs { h.join().unwrap(); }
            done.store(1, Ordering::SeqCst);
        }
        "int-roundtrip" => {
            // Exhaustive supporting run for C06 (thorough tier): for EVERY i32 and EVERY u32 n, d = From(n) and each of the
            // ten conversions back to the same type must return n and raise nothing.  The harness does not judge: it
            // only filters; any call that does not give back n is printed as an ordinary observation line (together
            // with the From call) for the Lean judge to reject.  Output: `# checked <count>` plus those lines.
            use decmathlib_rs::d128::d128;
            use decmathlib_rs::verif_hooks::to_bits;
            let threads: u64 = args.get(2).map(|s| s.parse().expect("threads")).unwrap_or(8);
            let stride: u64 = args.get(3).map(|s| s.parse().expect("stride")).unwrap_or(1);   // 1 = exhaustive
            let mut hs = Vec::new();
            for t in 0..threads {
                hs.push(std::thread::spawn(move || {
                    let mut bad: Vec<String> = Vec::new();
                    let mut count: u64 = 0;
                    let mut k: u64 = t * stride;
                    while k < (1u64 << 32) {
                        let ni = k as u32 as i32;
                        let nu = k as u32;
                        let di = d128::from(ni);
                        let du = d128::from(nu);
                        macro_rules! back_i { ($($f:ident),*) => { $( { let mut st = 0u32; let r = di.$f(&mut st);
                            if r != ni || st != 0 { bad.push(format!("from_i32 - 0 I{} => D{:x} 0", ni, to_bits(&di)));
                                bad.push(format!("{} - 0 D{:x} => I{} {:x}", stringify!($f), to_bits(&di), r, st)); } } )* } }
                        macro_rules! back_u { ($($f:ident),*) => { $( { let mut st = 0u32; let r = du.$f(&mut st);
                            if r != nu || st != 0 { bad.push(format!("from_u32 - 0 I{} => D{:x} 0", nu, to_bits(&du)));
                                bad.push(format!("{} - 0 D{:x} => I{} {:x}", stringify!($f), to_bits(&du), r, st)); } } )* } }
                        back_i!(convert_to_i32_ties_to_even, convert_to_i32_exact_ties_to_even, convert_to_i32_toward_negative,
                                convert_to_i32_exact_toward_negative, convert_to_i32_toward_positive, convert_to_i32_exact_toward_positive,
                                convert_to_i32_toward_zero, convert_to_i32_exact_toward_zero, convert_to_i32_ties_to_away, convert_to_i32_exact_ties_to_away);
                        back_u!(convert_to_u32_ties_to_even, convert_to_u32_exact_ties_to_even, convert_to_u32_toward_negative,
                                convert_to_u32_exact_toward_negative, convert_to_u32_toward_positive, convert_to_u32_exact_toward_positive,
                                convert_to_u32_toward_zero, convert_to_u32_exact_toward_zero, convert_to_u32_ties_to_away, convert_to_u32_exact_ties_to_away);
                        // the canonical encoding of an integer: exponent 0, coefficient |n|
                        let want_i = ((if ni < 0 { 1u128 } else { 0 }) << 127) | (6176u128 << 113) | (ni as i64).unsigned_abs() as u128;
                        if to_bits(&di) != want_i { bad.push(format!("from_i32 - 0 I{} => D{:x} 0", ni, to_bits(&di))); }
                        let want_u = (6176u128 << 113) | nu as u128;
                        if to_bits(&du) != want_u { bad.push(format!("from_u32 - 0 I{} => D{:x} 0", nu, to_bits(&du))); }
                        count += 1;
                        if bad.len() > 2000 { break; }
                        k += threads * stride;
                    }
                    (count, bad)
                }));
            }
            let mut total = 0u64;
            for h in hs { let (c, bad) = h.join().unwrap(); total += c; for l in bad { println!("{}", l); } }
            println!("# checked {}", total);
        }
        "run" => {
            let stdin = std::io::stdin();
            // stdout is not kept locked here: the watchdog must be able to print its HANG line
            let mut out = std::io::stdout();
            let mut prev = 0u32;
            let mut first = true;
            let mut r = gen::Rng(0);
            let slot = Arc::new(Slot { counter: AtomicU64::new(0), current: Mutex::new(String::new()) });
            let done = Arc::new(AtomicU64::new(0));
            watchdog(vec![slot.clone()], done.clone());
            for line in stdin.lock().lines() {
                let line = line.unwrap();
                let t = line.trim();
                if t.is_empty() || t.starts_with('#') { continue; }
                if t.starts_with("@thread") { first = true; prev = 0; continue; }
                match ops::Case::parse(t) {
                    Some(mut c) => { writeln!(out, "{}", observe_threaded(&mut c, &mut prev, &mut first, &mut r, &slot)).unwrap(); let _ = out.flush(); }
                    None => { writeln!(out, "# unparsable: {}", t).unwrap(); }
                }
            }
        }
        _ => { eprintln!("usage: harness dump-tables | ops | gen <id> <seed> <count> <dir> <threads> | run"); std::process::exit(2); }
    }
}
