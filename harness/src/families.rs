//! Per-property case generators: which entry points a property quantifies over and which operand
//! shapes reach its decision cells.

use crate::gen::*;
use crate::ops::{Case, Val};

pub const QUIET_CMP: [&str; 12] = [
    "compare_quiet_equal", "compare_quiet_greater", "compare_quiet_unordered", "compare_quiet_ordered",
    "compare_quiet_greater_equal", "compare_quiet_greater_unordered", "compare_quiet_less", "compare_quiet_less_equal",
    "compare_quiet_less_unordered", "compare_quiet_not_equal", "compare_quiet_not_greater", "compare_quiet_not_less",
];
pub const SIG_CMP: [&str; 8] = [
    "compare_signaling_greater", "compare_signaling_greater_equal", "compare_signaling_greater_unordered",
    "compare_signaling_less", "compare_signaling_less_equal", "compare_signaling_less_unordered",
    "compare_signaling_not_greater", "compare_signaling_not_less",
];
pub const RUST_CMP: [&str; 7] = ["eq", "ne", "lt", "le", "gt", "ge", "partial_cmp"];
pub const CLASSIFY: [&str; 10] = [
    "class", "is_canonical", "is_finite", "is_infinite", "is_nan", "is_normal", "is_signaling", "is_sign_minus",
    "is_subnormal", "is_zero",
];
pub const RINT: [&str; 5] = [
    "round_to_integral_ties_to_away", "round_to_integral_ties_to_even", "round_to_integral_ties_toward_negative",
    "round_to_integral_ties_toward_positive", "round_to_integral_ties_toward_zero",
];
pub const TO_INT: [&str; 40] = [
    "convert_to_i32_ties_to_even", "convert_to_i32_exact_ties_to_even", "convert_to_i32_toward_negative",
    "convert_to_i32_exact_toward_negative", "convert_to_i32_toward_positive", "convert_to_i32_exact_toward_positive",
    "convert_to_i32_toward_zero", "convert_to_i32_exact_toward_zero", "convert_to_i32_ties_to_away",
    "convert_to_i32_exact_ties_to_away",
    "convert_to_i64_toward_positive", "convert_to_i64_toward_negative", "convert_to_i64_toward_zero",
    "convert_to_i64_ties_to_even", "convert_to_i64_ties_to_away", "convert_to_i64_exact_toward_positive",
    "convert_to_i64_exact_toward_negative", "convert_to_i64_exact_toward_zero", "convert_to_i64_exact_ties_to_even",
    "convert_to_i64_exact_ties_to_away",
    "convert_to_u32_toward_positive", "convert_to_u32_toward_negative", "convert_to_u32_toward_zero",
    "convert_to_u32_ties_to_even", "convert_to_u32_ties_to_away", "convert_to_u32_exact_toward_positive",
    "convert_to_u32_exact_toward_negative", "convert_to_u32_exact_toward_zero", "convert_to_u32_exact_ties_to_even",
    "convert_to_u32_exact_ties_to_away",
    "convert_to_u64_toward_positive", "convert_to_u64_toward_negative", "convert_to_u64_toward_zero",
    "convert_to_u64_ties_to_even", "convert_to_u64_ties_to_away", "convert_to_u64_exact_toward_positive",
    "convert_to_u64_exact_toward_negative", "convert_to_u64_exact_toward_zero", "convert_to_u64_exact_ties_to_even",
    "convert_to_u64_exact_ties_to_away",
];

fn d(b: u128) -> Val { Val::D(b) }

fn arith_pair(r: &mut Rng, op: &str) -> (u128, u128) {
    match r.below(10) {
        0 => (operand(r), operand(r)),
        1 => { let x = finite_or_zero(r); (x, finite_or_zero(r)) }
        _ => match op {
            "addition" | "subtraction" => match r.below(3) { 0 => add_tail_pair(r), _ => { let x = finite(r); (x, partner(r, x)) } },
            "multiplication" => mul_pair(r),
            _ => div_pair(r),
        },
    }
}

/// Cases for property `id` (one or a few related calls per invocation).
pub fn gen(id: &str, r: &mut Rng, out: &mut Vec<Case>) {
    match id {
        "C01" => {
            let k = r.below(12);
            if k < 8 {
                let op = *r.pick(&["addition", "subtraction", "multiplication", "division"]);
                let (x, y) = arith_pair(r, op);
                out.push(case(op, mode_tok(r), flags_in(r), vec![d(x), d(y)]));
            } else if k < 10 {
                out.push(case("square_root", mode_tok(r), flags_in(r), vec![d(sqrt_operand(r))]));
            } else if k == 10 {
                let (base, forms): (&str, &[&str]) = *r.pick(&[
                    ("addition", &["op_add", "op_add_ref", "op_add_assign", "op_add_assign_ref"][..]),
                    ("subtraction", &["op_sub", "op_sub_ref", "op_sub_assign", "op_sub_assign_ref"][..]),
                    ("multiplication", &["op_mul", "op_mul_ref", "op_mul_assign", "op_mul_assign_ref"][..]),
                    ("division", &["op_div", "op_div_ref", "op_div_assign", "op_div_assign_ref"][..]),
                ]);
                let (x, y) = arith_pair(r, base);
                out.push(case(*r.pick(forms), '-', 0, vec![d(x), d(y)]));
            } else {
                let n = r.below(5) as usize;
                let mut v = Vec::new();
                let mut x = finite(r);
                for _ in 0..n { v.push(d(x)); x = if r.chance(1, 10) { operand(r) } else { partner(r, x) }; }
                let op = *r.pick(&["sum", "sum_ref", "product", "product_ref"]);
                if op.starts_with("product") {
                    v = (0..n).map(|_| d(enc(r.chance(1, 2), coeff_upto(r, 20), r.range(-60, 60) as i32))).collect();
                }
                out.push(case(op, '-', 0, v));
            }
        }
        "SQRT" => {
            // square root only (the correction branches of the digit recurrence are rare): every mode
            let x = match r.below(8) {
                0 => sqrt_operand(r),
                1 => { let q = 1 + r.below(17) as u32; let a = coeff(r, q); let k = r.below(35 - 2 * q as u64 + 1) as u32;
                       enc(false, (a * a) * pow10(k & !1u32).min(P34 / (a * a).max(1)), exponent(r)) }
                2 => { // just below / above a perfect square of a 17-digit root
                    let a = coeff(r, 17); let d = r.below(3) as u128;
                    enc(false, (a * a + d).min(P34 - 1).saturating_sub(if r.chance(1, 2) { 1 } else { 0 }), exponent(r)) }
                3 => enc(false, coeff(r, 34), exponent(r)),
                4 => enc(false, coeff(r, 33), exponent(r)),
                _ => enc(false, coeff_upto(r, 34), exponent(r)),
            };
            out.push(case("square_root", *r.pick(&['0', '1', '2', '3', '4']), 0, vec![d(x)]));
        }
        "HKROUND" => {
            let (w, q, x, c) = hk_round_input(r);
            let name = ["hk_round64", "hk_round128", "hk_round192", "hk_round256"][w];
            let mut args = vec![Val::G(q as u64), Val::G(x as u64)];
            for i in 0..=w { args.push(Val::G(c.0[i])); }
            out.push(case(name, '-', 0, args));
        }
        "HKPACK" => {
            let g = |v: u64| Val::G(v);
            let sgn = if r.chance(1, 2) { 0u64 } else { 1u64 << 63 };
            let fl = if r.chance(1, 3) { flags_in(r) } else if r.chance(1, 2) { 0x20 } else { 0 };
            match r.below(8) {
                0 | 1 => {
                    let x = if r.chance(1, 2) { operand(r) } else { match r.below(6) { 0 => noncanonical_finite(r), 1 => nan(r), 2 => infinity(r), 3 => r.u128(), 4 => enc(false, P34 - 1, 0), _ => enc(true, P33, EMAX) } };
                    out.push(case(*r.pick(&["hk_unpack_value", "hk_unpack"]), '-', 0, vec![g(x as u64), g((x >> 64) as u64)]));
                }
                2 => {
                    let c = match r.below(5) { 0 => 0, 1 => P34 - 1, 2 => P33, _ => { let q = qdigits(r); coeff(r, q) } };
                    let e = match r.below(4) { 0 => 0, 1 => 12287, _ => r.below(12288) } as u64;
                    out.push(case("hk_get_very_fast", '-', 0, vec![g(sgn), g(e), g(c as u64), g((c >> 64) as u64)]));
                }
                3 => {
                    let c = match r.below(6) { 0 => 0, 1 => P34 - 1, 2 => P33, 3 => P34, _ => { let q = qdigits(r); coeff(r, q) } };
                    let e = match r.below(4) { 0 => 0, 1 => 12287, 2 => 12286, _ => r.below(12288) } as u64;
                    out.push(case("hk_get_fast", '-', 0, vec![g(sgn), g(e), g(c as u64), g((c >> 64) as u64)]));
                }
                4 | 5 => {
                    let c = match r.below(8) { 0 => 0, 1 => P34 - 1, 2 => P33, 3 => P34, 4 => P33 - 1, 5 => { let (c, _) = near_tie_coeff(r); c } _ => { let q = qdigits(r); coeff(r, q) } };
                    let e: i64 = match r.below(6) { 0 => r.range(-40, -1), 1 => r.range(12287, 12330), 2 => *r.pick(&[0i64, 12287, 12288, -1, -34, -35, 12321, 12322]), 3 => r.range(-3, 3), _ => r.range(-45, 12340) };
                    out.push(case("hk_get", mode_tok(r), fl, vec![g(sgn), g(e as u64), g(c as u64), g((c >> 64) as u64)]));
                }
                _ => {
                    // underflow handlers: the digits that fall off sit at a chosen distance from the tie
                    let (c, k) = if r.chance(2, 3) { near_tie_coeff(r) } else { let q = qdigits(r); (coeff(r, q), 1 + r.below(34) as u32) };
                    let e: i64 = if r.chance(3, 4) { -(k as i64) } else { r.range(-36, -1) };
                    let c = match r.below(12) { 0 => P34 - 1, 1 => P33, 2 => 1, 3 => 5 * pow10((-e - 1).clamp(0, 33) as u32), _ => c };
                    if r.chance(1, 2) {
                        out.push(case("hk_handle_uf", mode_tok(r), fl, vec![g(sgn), g(e as u64), g(c as u64), g((c >> 64) as u64)]));
                    } else {
                        let rem = match r.below(4) { 0 | 1 => 0, 2 => 1, _ => r.next() };
                        out.push(case("hk_handle_uf_rem", mode_tok(r), fl, vec![g(sgn), g(e as u64), g(c as u64), g((c >> 64) as u64), g(rem)]));
                    }
                }
            }
        }
        "HKARITH" => {
            const OPS: [(&str, usize, u32); 40] = [
                ("shr_128", 2, 1), ("shr_256", 4, 1), ("shr_128_long", 2, 1), ("shl_128_long", 2, 1),
                ("add_128_64", 3, 0), ("sub_128_64", 3, 0), ("add_128_128", 4, 0), ("sub_128_128", 4, 0), ("sub_256_128_to_256", 6, 0),
                ("add_carry_out", 2, 0), ("add_carry_in_out", 3, 2), ("sub_borrow_out", 2, 0), ("sub_borrow_in_out", 3, 2),
                ("mul_64x64_to_64", 2, 0), ("mul_64x64_to_128", 2, 0), ("mul_64x64_to_128_fast", 2, 0), ("mul_64x64_to_128_full", 2, 0),
                ("mul_64x64_to_128MACH", 2, 0), ("mul_64x64_to_128HIGH", 2, 0), ("mul_128x128_high", 4, 0), ("mul_128x128_full", 4, 0),
                ("mul_128x128_low", 4, 0), ("mul_64x128_low", 3, 0), ("mul_64x128_full", 3, 0), ("mul_64x128_to_192", 3, 0),
                ("mul_64x128_to_256", 3, 0), ("mul_64x128_to192", 3, 0), ("mul_128x128_to_256", 4, 0), ("mul_64x192_to_256", 4, 0),
                ("mul_64x256_to_256", 5, 0), ("mul_128x64_to_128", 3, 0), ("mul_64x128_to_128", 3, 0), ("mul_64x256_to_320", 5, 0),
                ("mul_192x192_to_384", 6, 0), ("sqr128_to_256", 2, 0), ("mul_256x256_to_512", 8, 0), ("mul_64x128_short", 3, 0),
                ("compare_gt_128", 4, 0), ("compare_ge_128", 4, 0), ("test_equal_128", 4, 0),
            ];
            let (name, nwords, kind) = *r.pick(&OPS);
            let mut args: Vec<Val> = (0..nwords).map(|_| Val::G(hk_word(r))).collect();
            if name.starts_with("compare") || name.starts_with("test_equal") {
                // equal or adjacent operands often
                if r.chance(1, 2) { let (a0, a1) = (args[0].clone(), args[1].clone()); args[2] = a0; args[3] = a1;
                    if r.chance(1, 2) { if let Val::G(v) = args[2] { args[2] = Val::G(v.wrapping_add(*r.pick(&[1u64, u64::MAX]))); } } }
            }
            match kind {
                1 => { let k = match r.below(6) { 0 => 0u64, 1 => 63, 2 => 64, 3 => 1, 4 => 127, _ => r.below(128) }; args.push(Val::G(k)); }
                2 => { let last = args.len() - 1; args[last] = Val::G(r.below(2)); }
                _ => {}
            }
            out.push(case(&format!("hk_{}", name), '-', 0, args));
        }
        "HKMIDI" => {
            // the digit-group helpers of bid128_to_string on their own input space: multiples of 10^3 / 10^6 / 10^9 / 10^18 and their
            // neighbours (where the reciprocal estimates are one too small and the single correction decides), the domain bounds,
            // and arbitrary words (out of the callers' domain the three sides must still agree)
            fn shaped(r: &mut Rng, bound: u64) -> u64 {
                let base = *r.pick(&[1_000u64, 1_000_000, 1_000_000_000, 1_000_000_000_000, 1_000_000_000_000_000, 1_000_000_000_000_000_000]);
                match r.below(8) {
                    0 => r.below(bound.max(1)),
                    1 => { let k = r.below((bound / base).max(1) + 1); (k.wrapping_mul(base)).wrapping_add(*r.pick(&[0u64, 1, 2, 999, 1000, u64::MAX, u64::MAX - 1])) }
                    2 => bound.wrapping_sub(1 + r.below(3)),
                    3 => bound.wrapping_add(r.below(3)),
                    4 => r.below(1000),
                    5 => hk_word(r),
                    6 => { let k = 1 + r.below(999); k * (bound / 1000).max(1) + *r.pick(&[0u64, 1]) * r.below(1000) }
                    _ => r.below(bound.max(1)) / base * base,
                }
            }
            match r.below(5) {
                0 => out.push(case("hk_split_midi_2", '-', 0, vec![Val::G(if r.chance(1, 8) { r.below(1u64 << 32) } else { shaped(r, 1_000_000) & 0xffff_ffff })])),
                1 => out.push(case("hk_split_midi_3", '-', 0, vec![Val::G(if r.chance(1, 8) { r.below(1u64 << 32) } else { shaped(r, 1_000_000_000) & 0xffff_ffff })])),
                2 => out.push(case("hk_split_midi_6", '-', 0, vec![Val::G(shaped(r, 1_000_000_000_000_000_000))])),
                3 => out.push(case("hk_split_midi_6_lead", '-', 0, vec![Val::G(shaped(r, 1_000_000_000_000_000_000))])),
                _ => { let lo = match r.below(4) { 0 => 1_000_000_000_000_000_000u64.wrapping_add(r.below(5)).wrapping_sub(2), 1 => r.below(2_000_000_000_000_000_000), 2 => hk_word(r), _ => 999_999_999_999_999_999 + r.below(3) };
                       out.push(case("hk_normalize_10to18", '-', 0, vec![Val::G(hk_word(r)), Val::G(lo)])); }
            }
        }
        "FMASUB" => {
            let (x, y, z) = fma_subnormal_product_triple(r);
            out.push(case("fused_multiply_add", mode_tok(r), 0, vec![d(x), d(y), d(z)]));
        }
        "C02" => {
            let (x, y, z) = fma_triple(r);
            out.push(case("fused_multiply_add", mode_tok(r), flags_in(r), vec![d(x), d(y), d(z)]));
        }
        "C03" => {
            let (x, y) = cmp_pair(r);
            let fl = flags_in(r);
            match r.below(3) {
                0 => for op in QUIET_CMP.iter() { out.push(case(op, '-', fl, vec![d(x), d(y)])); },
                1 => for op in SIG_CMP.iter() { out.push(case(op, '-', fl, vec![d(x), d(y)])); },
                _ => for op in RUST_CMP.iter() { out.push(case(op, '-', 0, vec![d(x), d(y)])); },
            }
        }
        "C04" => {
            let s = match r.below(10) { 0 | 1 | 2 => malformed(r), 3 => special_spelling(r), _ => literal(r) };
            match r.below(6) {
                0 => out.push(case("from_str", '-', 0, vec![sval(&s)])),
                1 => out.push(case("from_string_ref", '-', 0, vec![sval(&s)])),
                _ => out.push(case("convert_from_decimal_character", mode_tok(r), flags_in(r), vec![sval(&s)])),
            }
        }
        "C05" => {
            let x = match r.below(6) { 0 => operand(r), 1 => zero(r), _ => finite(r) };
            match r.below(8) {
                0 => out.push(case("display", '-', 0, vec![d(x)])),
                1 => out.push(case("debug", '-', 0, vec![d(x)])),
                2 => out.push(case("lowerexp", '-', 0, vec![d(x)])),
                3 => out.push(case("upperexp", '-', 0, vec![d(x)])),
                4 | 5 => out.push(case("roundtrip_display", mode_tok(r), flags_in(r), vec![d(x)])),
                6 => out.push(case("roundtrip_lowerexp", mode_tok(r), flags_in(r), vec![d(x)])),
                _ => out.push(case("roundtrip_serde", '-', 0, vec![d(x)])),
            }
        }
        "C06" => {
            match r.below(10) {
                0 => {
                    let (op, lo, hi) = *r.pick(&[("from_i32", i32::MIN as i128, i32::MAX as i128), ("from_u32", 0, u32::MAX as i128),
                                                 ("from_i64", i64::MIN as i128, i64::MAX as i128), ("from_u64", 0, u64::MAX as i128)]);
                    out.push(case(op, '-', 0, vec![Val::I(any_int(r, lo, hi))]));
                }
                1 => {
                    let x = int_boundary_operand(r);
                    let op = *r.pick(&["lrint", "llrint"]);
                    out.push(case(op, mode_tok(r), flags_in(r), vec![d(x)]));
                    out.push(case(*r.pick(&["lround", "llround"]), '-', flags_in(r), vec![d(x)]));
                }
                _ => {
                    // all variants of one width/signedness on the same operand
                    let class = r.below(4) as usize;
                    let base = 10 * class;
                    let x = if r.chance(1, 12) { operand(r) } else if r.chance(1, 4) { let (c, k) = near_tie_coeff(r); enc(r.chance(1, 2), c, -(k as i32)) }
                            else if r.chance(1, 2) { int_boundary_for(r, class) } else { int_boundary_operand(r) };
                    let fl = flags_in(r);
                    for op in TO_INT[base..base + 10].iter() { out.push(case(op, '-', fl, vec![d(x)])); }
                }
            }
        }
        "C07" => {
            if r.chance(1, 2) {
                let b = f32_bits(r);
                if r.chance(1, 8) { out.push(case("from_f32", '-', 0, vec![Val::F(b)])); }
                else { out.push(case("convert_from_f32", mode_tok(r), flags_in(r), vec![Val::F(b)])); }
            } else {
                let b = f64_bits(r);
                if r.chance(1, 8) { out.push(case("from_f64", '-', 0, vec![Val::G(b)])); }
                else { out.push(case("convert_from_f64", mode_tok(r), flags_in(r), vec![Val::G(b)])); }
            }
        }
        "C08" => {
            let x = match r.below(10) {
                0 => operand(r),
                1 | 2 | 3 => int_boundary_operand(r),
                8 | 9 => { let (c, k) = near_tie_coeff(r); enc(r.chance(1, 2), c, -(k as i32)) }
                _ => { // (q, -e) grid with tails
                    let q = 1 + r.below(34) as u32;
                    let drop = r.below(40) as i32;
                    enc(r.chance(1, 2), coeff(r, q), -drop + r.range(0, 2) as i32)
                }
            };
            match r.below(4) {
                0 => out.push(case("round_to_integral_exact", mode_tok(r), flags_in(r), vec![d(x)])),
                1 => out.push(case("nearbyint", mode_tok(r), flags_in(r), vec![d(x)])),
                2 => { let fl = flags_in(r); for op in RINT.iter() { out.push(case(op, '-', fl, vec![d(x)])); } }
                _ => out.push(case("modf", '-', flags_in(r), vec![d(x)])),
            }
        }
        "C09" => {
            match r.below(8) {
                0 => { let x = operand(r); let fl = flags_in(r);
                       for op in ["quantum", "quantexp", "llquantexp"] { out.push(case(op, '-', if op == "quantum" { 0 } else { fl }, vec![d(x)])); } }
                1 => { let (x, y) = if r.chance(1, 2) { cmp_pair(r) } else { let x = if r.chance(1, 2) { operand(r) } else { noncanonical_finite(r) }; let y = sibling(r, x); if r.chance(1, 2) { (x, y) } else { (y, x) } };
                       out.push(case("same_quantum", '-', 0, vec![d(x), d(y)])); }
                2 => out.push(case("quantize", mode_tok(r), flags_in(r), vec![d(operand(r)), d(operand(r))])),
                3 | 4 => { // near-tie tails at every number of dropped digits
                    let (c, k) = near_tie_coeff(r);
                    let e = exponent(r).clamp(EMIN, EMAX - 34);
                    let y = enc(r.chance(1, 2), coeff_upto(r, 34), e + k as i32);
                    out.push(case("quantize", mode_tok(r), flags_in(r), vec![d(enc(r.chance(1, 2), c, e)), d(y)]));
                }
                _ => {
                    let x = finite_or_zero(r);
                    let (_, c, e) = ((x >> 127) != 0, x & ((1u128 << 113) - 1), (((x >> 113) & 0x3fff) as i32) - 6176);
                    let q = ndigits(c) as i32;
                    // target exponent so that between -3 and 37 digits are dropped / 0..36 added
                    let ey = e + r.range(-(36 - q.min(36)) as i64 - 2, 37) as i32;
                    let y = enc(r.chance(1, 2), coeff_upto(r, 34), ey.clamp(EMIN, EMAX));
                    out.push(case("quantize", mode_tok(r), flags_in(r), vec![d(x), d(y)]));
                }
            }
        }
        "C10" => {
            let (x, y) = match r.below(8) {
                0 => (operand(r), operand(r)),
                1 => { // exact ties: x = (2k+1) * y / 2
                    let q = 1 + r.below(16) as u32;
                    let cy = coeff(r, q) * 2;
                    let k = r.below(1000) as u128;
                    let cx = (2 * k + 1) * (cy / 2);
                    let e = exponent(r);
                    (enc(r.chance(1, 2), cx.min(P34 - 1), e), enc(r.chance(1, 2), cy, e))
                }
                2 => { let x = finite(r); (x, x) }
                3 | 4 => rem_half_pair(r),
                5 => scaled_word_pair(r),
                _ => { let x = finite_or_zero(r); (x, partner(r, x)) }
            };
            let op = *r.pick(&["remainder", "remainder", "fmod", "fmod", "op_rem", "op_rem_ref", "op_rem_assign", "op_rem_assign_ref"]);
            if op.starts_with("op_") { out.push(case(op, '-', 0, vec![d(x), d(y)])); }
            else { out.push(case(op, '-', flags_in(r), vec![d(x), d(y)])); }
        }
        "C11" => {
            let x = match r.below(8) { 0 => operand(r), 1 => zero(r), _ => finite(r) };
            match r.below(8) {
                0 => out.push(case("logb", '-', flags_in(r), vec![d(x)])),
                1 => out.push(case("log_b", '-', flags_in(r), vec![d(x)])),
                2 => out.push(case("frexp", '-', 0, vec![d(x)])),
                _ => {
                    let e = (((x >> 113) & 0x3fff) as i64) - 6176;
                    if r.chance(1, 6) {
                        let (c, k) = near_tie_coeff(r);
                        let e0 = r.range(-6176, 6000) as i32;
                        let n = (-6176 - k as i32) - e0;     // scaled exponent = eMin - k: exactly k digits are rounded away
                        out.push(case(*r.pick(&["scaleb", "ldexp", "scalebln"]), mode_tok(r), flags_in(r), vec![d(enc(r.chance(1, 2), c, e0)), Val::I(n as i128)]));
                        return;
                    }
                    let n: i64 = match r.below(8) {
                        0 => r.range(-50, 50),
                        1 | 2 => 6111 - e + r.range(-45, 45),
                        3 | 4 => -6176 - e + r.range(-45, 45),
                        5 => *r.pick(&[i32::MAX as i64, i32::MIN as i64, i32::MAX as i64 - 1, i32::MIN as i64 + 1]),
                        6 => r.range(-13000, 13000),
                        _ => r.next() as i32 as i64,
                    };
                    match r.below(3) {
                        0 => out.push(case("scaleb", mode_tok(r), flags_in(r), vec![d(x), Val::I(n.clamp(i32::MIN as i64, i32::MAX as i64) as i128)])),
                        1 => out.push(case("ldexp", mode_tok(r), flags_in(r), vec![d(x), Val::I(n.clamp(i32::MIN as i64, i32::MAX as i64) as i128)])),
                        _ => {
                            let n = if r.chance(1, 4) { *r.pick(&[i64::MAX, i64::MIN, i32::MAX as i64 + 1, i32::MIN as i64 - 1, 1i64 << 32, -(1i64 << 32), (1i64 << 32) + 5]) } else { n };
                            out.push(case("scalebln", mode_tok(r), flags_in(r), vec![d(x), Val::I(n as i128)]));
                        }
                    }
                }
            }
        }
        "C12" => {
            // every NaN-capable operation with a NaN in each operand position
            let n = nan(r);
            let other = operand(r);
            let (a, b) = if r.chance(1, 2) { (n, other) } else { (other, n) };
            let fl = flags_in(r);
            match r.below(12) {
                0 => { let op = *r.pick(&["addition", "subtraction", "multiplication", "division", "fdim", "quantize"]);
                       out.push(case(op, mode_tok(r), fl, vec![d(a), d(b)])); }
                1 => { let op = *r.pick(&["remainder", "fmod", "min_num", "max_num", "min_num_mag", "max_num_mag", "next_after", "next_toward"]);
                       out.push(case(op, '-', fl, vec![d(a), d(b)])); }
                2 => { let op = *r.pick(&["square_root", "round_to_integral_exact", "nearbyint"]);
                       out.push(case(op, mode_tok(r), fl, vec![d(n)])); }
                3 => { let op = *r.pick(&["logb", "next_up", "next_down", "round_to_integral_ties_to_away", "round_to_integral_ties_to_even",
                                          "round_to_integral_ties_toward_negative", "round_to_integral_ties_toward_positive",
                                          "round_to_integral_ties_toward_zero", "modf"]);
                       out.push(case(op, '-', fl, vec![d(n)])); }
                4 => { let op = *r.pick(&["scaleb", "ldexp", "scalebln"]);
                       out.push(case(op, mode_tok(r), fl, vec![d(n), Val::I(r.range(-100, 100) as i128)])); }
                5 => { let mut v = vec![operand(r), operand(r), operand(r)]; let p = r.below(3) as usize; v[p] = n;
                       if r.chance(1, 3) { let p2 = r.below(3) as usize; v[p2] = nan(r); }
                       out.push(case("fused_multiply_add", mode_tok(r), fl, v.into_iter().map(d).collect())); }
                6 => { let op = *r.pick(&["copy", "negate", "abs", "op_neg", "op_neg_ref"]); out.push(case(op, '-', 0, vec![d(if r.chance(1, 2) { n } else { r.u128() })])); }
                7 => out.push(case("copy_sign", '-', 0, vec![d(a), d(b)])),
                8 => { // NaN-creating invalid operations
                    let inf = infinity(r); let z = zero(r);
                    match r.below(7) {
                        0 => out.push(case("division", mode_tok(r), fl, vec![d(z), d(zero(r))])),
                        1 => out.push(case("division", mode_tok(r), fl, vec![d(inf), d(infinity(r))])),
                        2 => out.push(case("subtraction", mode_tok(r), fl, vec![d(inf), d(inf)])),
                        3 => out.push(case("multiplication", mode_tok(r), fl, vec![d(z), d(inf)])),
                        4 => out.push(case("square_root", mode_tok(r), fl, vec![d(finite(r) | (1u128 << 127))])),
                        5 => out.push(case(*r.pick(&["remainder", "fmod"]), '-', fl, vec![d(finite(r)), d(z)])),
                        _ => out.push(case("fused_multiply_add", mode_tok(r), fl, vec![d(z), d(inf), d(operand(r))])),
                    }
                }
                9 => { // the operator, compound-assignment and fold forms with a NaN operand (the trait glue of d128.rs; added after
                       // seeded change C12-5 rewrote `-=` as `+= -rhs`, which flips the sign of a NaN right-hand side)
                    if r.chance(1, 5) {
                        let mut v: Vec<u128> = (0..(2 + r.below(3))).map(|_| operand(r)).collect(); let p = r.below(v.len() as u64) as usize; v[p] = n;
                        out.push(case(*r.pick(&["sum", "product", "sum_ref", "product_ref"]), '-', fl, v.into_iter().map(d).collect()));
                    } else {
                        let op = *r.pick(&["op_add", "op_sub", "op_mul", "op_div", "op_rem", "op_add_ref", "op_sub_ref", "op_mul_ref", "op_div_ref", "op_rem_ref",
                                           "op_add_assign", "op_sub_assign", "op_mul_assign", "op_div_assign", "op_rem_assign",
                                           "op_add_assign_ref", "op_sub_assign_ref", "op_mul_assign_ref", "op_div_assign_ref", "op_rem_assign_ref"]);
                        out.push(case(op, '-', fl, vec![d(a), d(b)]));
                    }
                }
                _ => { let (x, y) = (nan(r), nan(r));
                       let op = *r.pick(&["addition", "multiplication", "division", "subtraction"]);
                       out.push(case(op, mode_tok(r), fl, vec![d(x), d(y)])); }
            }
        }
        "C13" => {
            let x = match r.below(8) { 0 => noncanonical_finite(r), 1 => infinity(r), 2 => nan(r), 3 => r.u128(), 4 => zero(r),
                6 => scaled_boundary_operand(r),
                7 => enc(r.chance(1, 2), coeff_upto(r, 34), EMIN + r.below(45) as i32),
                _ => {
                // around the normal/subnormal boundary
                let q = 1 + r.below(34) as u32;
                enc(r.chance(1, 2), coeff(r, q), -6143 - q as i32 + 1 + r.range(-2, 2) as i32)
            } };
            match r.below(3) {
                0 => for op in CLASSIFY.iter() { out.push(case(op, '-', 0, vec![d(x)])); },
                _ => {
                    // a non-canonical pattern as an operand of any operation
                    let y = if r.chance(1, 3) { sibling(r, x) } else { operand(r) };
                    let fl = flags_in(r);
                    let (a, b) = if r.chance(1, 2) { (x, y) } else { (y, x) };
                    match r.below(11) {
                        10 => { // exact zero results whose preferred exponent must be clamped (results must stay canonical)
                            let sum = r.chance(1, 2);
                            let (p, q) = clamp_boundary_pair(r, sum);
                            if sum {
                                if r.chance(1, 3) { out.push(case("fused_multiply_add", mode_tok(r), fl, vec![d(p), d(q), d(zero(r))])); }
                                else { out.push(case("multiplication", mode_tok(r), fl, vec![d(p), d(q)])); }
                            } else { out.push(case("division", mode_tok(r), fl, vec![d(p), d(q)])); }
                        }
                        0 => out.push(case(*r.pick(&["addition", "subtraction", "multiplication", "division", "quantize", "fdim"]), mode_tok(r), fl, vec![d(a), d(b)])),
                        1 => out.push(case(*r.pick(&["remainder", "fmod", "min_num", "max_num", "min_num_mag", "max_num_mag", "next_after", "next_toward"]), '-', fl, vec![d(a), d(b)])),
                        2 => out.push(case(*r.pick(&["square_root", "round_to_integral_exact", "nearbyint"]), mode_tok(r), fl, vec![d(x)])),
                        3 => out.push(case(*r.pick(&["logb", "next_up", "next_down", "modf", "log_b", "quantexp", "llquantexp", "lround"]), '-', fl, vec![d(x)])),
                        4 => out.push(case(*r.pick(&["total_order", "total_order_mag", "same_quantum", "copy_sign"]), '-', 0, vec![d(a), d(b)])),
                        5 => out.push(case(*r.pick(&QUIET_CMP), '-', fl, vec![d(a), d(b)])),
                        6 => out.push(case(*r.pick(&TO_INT), '-', fl, vec![d(x)])),
                        7 => out.push(case(*r.pick(&["display", "lowerexp", "encode_decimal", "copy", "abs", "negate", "quantum", "frexp"]), '-', 0, vec![d(x)])),
                        8 => out.push(case("fused_multiply_add", mode_tok(r), fl, vec![d(a), d(b), d(operand(r))])),
                        _ => out.push(case(*r.pick(&["scaleb", "ldexp", "scalebln"]), mode_tok(r), fl, vec![d(x), Val::I(r.range(-50, 50) as i128)])),
                    }
                }
            }
        }
        "C14" => {
            // a short history sharing one status word: each call's incoming word is the previous outgoing one;
            // the harness fills that in (see main.rs: `thread_flags`).  Here: calls that are sensitive to D4-like reads.
            let n = 2 + r.below(5);
            for _ in 0..n {
                let k = r.below(9);
                match k {
                    0 => { // exact subnormal results
                        let c = coeff_upto(r, 20);
                        let x = enc(r.chance(1, 2), c * 10, -6176 + r.below(3) as i32);
                        out.push(case("division", mode_tok(r), 0xffff, vec![d(x), d(enc(false, 1, 1 + r.below(2) as i32))]));
                    }
                    1 => { let x = enc(r.chance(1, 2), coeff_upto(r, 34), -6176 + r.below(40) as i32);
                           out.push(case(*r.pick(&["scaleb", "ldexp", "scalebln"]), mode_tok(r), 0xffff, vec![d(x), Val::I(-(r.below(40) as i128))])); }
                    2 => { let s = format!("{}E-{}", coeff_upto(r, 34), 6176 + r.below(35));
                           out.push(case("convert_from_decimal_character", mode_tok(r), 0xffff, vec![sval(&s)])); }
                    3 => { let (x, y) = cmp_pair(r); out.push(case("fdim", mode_tok(r), 0xffff, vec![d(x), d(y)])); }
                    4 => { let (x, y) = cmp_pair(r); out.push(case(*r.pick(&["next_after", "next_toward"]), '-', 0xffff, vec![d(x), d(y)])); }
                    5 => { let (x, y, z) = fma_triple(r); out.push(case("fused_multiply_add", mode_tok(r), 0xffff, vec![d(x), d(y), d(z)])); }
                    6 => { let (x, y) = div_pair(r); out.push(case("division", mode_tok(r), 0xffff, vec![d(x), d(y)])); }
                    7 => out.push(case("modf", '-', 0xffff, vec![d(operand(r))])),
                    _ => { let mut tmp = Vec::new(); let id2 = *r.pick(&["C01", "C02", "C06", "C08", "C09", "C10", "C11", "C16", "C17", "C03", "C07"]);
                           gen(id2, r, &mut tmp);
                           if let Some(mut c) = tmp.into_iter().next() { if takes_flags(&c.op) { c.flags_in = 0xffff; } out.push(c); } }
                }
            }
        }
        "C14T" => {
            // model-independent form of C14: any flag-taking call, made from a clear word and from a random word.
            // HARNESS_FOCUS_OPS=op1,op2 restricts it to those operations (used when the static flag-read obligation
            // breaks, to search around the function that changed).
            let focus: Vec<String> = std::env::var("HARNESS_FOCUS_OPS").map(|v| v.split(',').map(|x| x.to_string()).collect()).unwrap_or_default();
            let mut tmp = Vec::new();
            for _attempt in 0..200 {
                tmp.clear();
                let id2 = *r.pick(&["C01", "C02", "C04", "C06", "C07", "C08", "C09", "C10", "C11", "C12", "C13", "C16", "C17", "C03", "C14"]);
                gen(id2, r, &mut tmp);
                if focus.is_empty() || tmp.iter().any(|c| focus.iter().any(|f| f == &c.op)) { break; }
            }
            for c in tmp.into_iter().take(if focus.is_empty() { 3 } else { 40 }) {
                if !focus.is_empty() && !focus.iter().any(|f| f == &c.op) { continue; }
                if !takes_flags(&c.op) || c.op == "twice" { continue; }
                let mut args = vec![sval(&c.op)];
                args.extend(c.args.into_iter());
                let fl = 1 + r.below(63) as u32;
                out.push(case("twice", c.mode, fl, args));
            }
        }
        "C16" => {
            let (x, y) = cmp_pair(r);
            let fl = flags_in(r);
            for op in ["min_num", "max_num", "min_num_mag", "max_num_mag"] { out.push(case(op, '-', fl, vec![d(x), d(y)])); }
        }
        "C17" => {
            let x = match r.below(8) {
                0 => operand(r),
                1 => zero(r),
                2 => { let k = r.below(34) as u32; enc(r.chance(1, 2), pow10(k), exponent(r)) }
                3 => { let k = 1 + r.below(34) as u32; enc(r.chance(1, 2), pow10(k) - 1, exponent(r)) }
                4 => *r.pick(&[enc(false, P34 - 1, EMAX), enc(true, P34 - 1, EMAX), enc(false, 1, EMIN), enc(true, 1, EMIN),
                               enc(false, P33, EMIN), enc(true, P33, EMIN), enc(false, P33 - 1, EMIN)]),
                5 => { let k = r.below(34) as u32; enc(r.chance(1, 2), pow10(k), EMIN + r.below(36) as i32) }
                _ => finite(r),
            };
            match r.below(4) {
                0 => out.push(case("next_up", '-', flags_in(r), vec![d(x)])),
                1 => out.push(case("next_down", '-', flags_in(r), vec![d(x)])),
                _ => {
                    let y = match r.below(5) { 0 => x, 1 => operand(r), 2 => infinity(r), 3 => { let (a, b) = cmp_pair(r); let _ = a; b } , _ => partner(r, x) };
                    let (a, b) = if r.chance(1, 5) { cmp_pair(r) } else { (x, y) };
                    out.push(case(*r.pick(&["next_after", "next_toward"]), '-', flags_in(r), vec![d(a), d(b)]));
                }
            }
        }
        "C18" => {
            let (x, y) = match r.below(6) {
                0 => (nan(r), nan(r)),
                1 => { let n = nan(r); (n, n ^ (1u128 << (r.below(128) as u32))) }
                2 => (operand(r), operand(r)),
                _ => cmp_pair(r),
            };
            out.push(case("total_order", '-', 0, vec![d(x), d(y)]));
            out.push(case("total_order", '-', 0, vec![d(y), d(x)]));
            out.push(case("total_order_mag", '-', 0, vec![d(x), d(y)]));
            out.push(case("total_order_mag", '-', 0, vec![d(y), d(x)]));
        }
        "C19" => {
            let x = match r.below(6) {
                0 => operand(r),
                1 => r.u128(),
                2 => { // every 3-digit group value in a random declet position
                    let g = r.below(1000) as u128; let pos = r.below(11) as u32;
                    let base = coeff(r, 34);
                    let p = pow10(3 * pos);
                    let c = base - ((base / p) % 1000) * p + g * p;
                    enc(r.chance(1, 2), c.min(P34 - 1), exponent(r))
                }
                _ => finite(r),
            };
            match r.below(3) {
                0 => out.push(case("encode_decimal", '-', 0, vec![d(x)])),
                1 => out.push(case("decode_decimal", '-', 0, vec![d(r.u128())])),
                _ => { // a DPD word with chosen declets (including the redundant ones)
                    let mut w = r.u128();
                    if r.chance(1, 2) { let pos = r.below(11) as u32; let dec: u128 = (r.below(4) as u128) << 8 | 0x6E | ((r.below(2) as u128) << 7) | ((r.below(2) as u128) << 4) | (r.below(2) as u128);
                        w = (w & !(0x3ffu128 << (10 * pos))) | (dec << (10 * pos)); }
                    out.push(case("decode_decimal", '-', 0, vec![d(w)]));
                }
            }
        }
        "C20" => {
            let (x, y) = match r.below(6) { 0 => (nan(r), nan(r)), 1 => (nan(r), operand(r)), 2 => (zero(r), zero(r)), 3 => cohort_pair_wide(r), _ => cmp_pair(r) };
            for op in RUST_CMP.iter() { out.push(case(op, '-', 0, vec![d(x), d(y)])); }
            out.push(case("hash_pair", '-', 0, vec![d(x), d(y)]));
            if r.chance(1, 4) { out.push(case("hash", '-', 0, vec![d(if r.chance(1, 2) { x } else { y })])); }
            if r.chance(1, 8) { out.push(case("hash_slice", '-', 0, vec![d(x), d(y), d(operand(r))])); }
        }
        "C15" => {
            // the union of all other generators, plus the remaining entry points
            if r.chance(1, 10) {
                match r.below(6) {
                    0 => out.push(case("nan", '-', flags_in(r), vec![sval(&if r.chance(1, 2) { malformed(r) } else { literal(r) })])),
                    1 => out.push(case("default", '-', 0, vec![])),
                    2 => out.push(case("const", '-', 0, vec![sval(*r.pick(&["MINUS_ONE", "ZERO", "ONE", "NAN", "NEG_NAN", "SNAN", "NEG_SNAN", "INFINITY", "NEGATIVE_INFINITY", "EPSILON", "MIN", "MAX"]))])),
                    3 => out.push(case("from_u128", '-', 0, vec![Val::I(r.u128() as i128 & i128::MAX)])),
                    4 => out.push(case("hash", '-', 0, vec![d(operand(r))])),
                    _ => out.push(case("fdim", mode_tok(r), flags_in(r), vec![d(operand(r)), d(operand(r))])),
                }
            } else {
                let id2 = *r.pick(&["C01", "C02", "C02", "C03", "C04", "C04", "C05", "C06", "C07", "C08", "C09", "C10", "C11", "C12", "C13", "C16", "C17", "C18", "C19", "C20"]);
                gen(id2, r, out);
            }
        }
        _ => {}
    }
}

/// Does the entry point take a status word?
pub fn takes_flags(op: &str) -> bool {
    !(op.starts_with("op_") || op.starts_with("from_") || op.starts_with("is_") || op.starts_with("hash") || op.starts_with("roundtrip_serde")
        || RUST_CMP.contains(&op)
        || ["class", "copy", "negate", "abs", "copy_sign", "same_quantum", "total_order", "total_order_mag", "quantum", "frexp",
            "encode_decimal", "decode_decimal", "display", "debug", "upperexp", "lowerexp", "sum", "product", "sum_ref", "product_ref",
            "default", "const"].contains(&op))
}
