//! Calls the real public API of decmathlib-rs, one operation per observation line.
//! The harness only transports: every comparison with the specification happens in the Lean judge.

use decmathlib_rs::d128::{self as dm, d128, RoundingMode};
use decmathlib_rs::verif_hooks::to_bits;
use std::cmp::Ordering;
use std::fmt::Write as _;
use std::hash::{Hash, Hasher};
use std::panic::{catch_unwind, AssertUnwindSafe};
use std::str::FromStr;

#[derive(Clone, Debug, PartialEq)]
pub enum Val {
    D(u128),
    I(i128),
    S(Vec<u8>),
    F(u32),
    G(u64),
    B(bool),
    O(Option<Ordering>),
    E(u32),
    C(u8),
    H(Vec<u8>),
}

fn hex(bytes: &[u8]) -> String {
    let mut s = String::with_capacity(bytes.len() * 2);
    for b in bytes { let _ = write!(s, "{:02x}", b); }
    s
}
fn unhex(s: &str) -> Option<Vec<u8>> {
    if s.len() % 2 != 0 { return None; }
    (0..s.len() / 2).map(|i| u8::from_str_radix(&s[2 * i..2 * i + 2], 16).ok()).collect()
}

impl Val {
    pub fn show(&self) -> String {
        match self {
            Val::D(b) => format!("D{:x}", b),
            Val::I(v) => format!("I{}", v),
            Val::S(b) => format!("S{}", hex(b)),
            Val::F(b) => format!("F{:x}", b),
            Val::G(b) => format!("G{:x}", b),
            Val::B(v) => format!("B{}", if *v { 1 } else { 0 }),
            Val::O(o) => format!("O{}", match o { Some(Ordering::Less) => "L", Some(Ordering::Equal) => "E", Some(Ordering::Greater) => "G", None => "N" }),
            Val::E(c) => format!("E{:x}", c),
            Val::C(c) => format!("C{}", c),
            Val::H(b) => format!("H{}", hex(b)),
        }
    }
    pub fn parse(t: &str) -> Option<Val> {
        let (k, body) = t.split_at(1);
        Some(match k {
            "D" => Val::D(u128::from_str_radix(body, 16).ok()?),
            "I" => Val::I(body.parse().ok()?),
            "S" => Val::S(unhex(body)?),
            "F" => Val::F(u32::from_str_radix(body, 16).ok()?),
            "G" => Val::G(u64::from_str_radix(body, 16).ok()?),
            "B" => Val::B(body == "1"),
            "E" => Val::E(u32::from_str_radix(body, 16).ok()?),
            "C" => Val::C(body.parse().ok()?),
            "H" => Val::H(unhex(body)?),
            _ => return None,
        })
    }
}

/// One call to make: operation name, rounding-mode token ('-', 'N', '0'..'4'), incoming status word, arguments.
#[derive(Clone, Debug)]
pub struct Case {
    pub op: String,
    pub mode: char,
    pub flags_in: u32,
    pub args: Vec<Val>,
}

impl Case {
    pub fn new(op: &str, mode: char, flags_in: u32, args: Vec<Val>) -> Case {
        Case { op: op.to_string(), mode, flags_in, args }
    }
    pub fn show(&self) -> String {
        let mut s = format!("{} {} {:x}", self.op, self.mode, self.flags_in);
        for a in &self.args { s.push(' '); s.push_str(&a.show()); }
        s
    }
    pub fn parse(line: &str) -> Option<Case> {
        let mut it = line.split_whitespace();
        let op = it.next()?.to_string();
        let mode = it.next()?.chars().next()?;
        let flags_in = u32::from_str_radix(it.next()?, 16).ok()?;
        let mut args = Vec::new();
        for t in it {
            if t == "=>" { break; }
            args.push(Val::parse(t)?);
        }
        Some(Case { op, mode, flags_in, args })
    }
}

pub enum Outcome {
    Ok(Vec<Val>, u32),
    Panic,
    Unknown,
}

struct Rec(Vec<u8>);
impl Hasher for Rec {
    fn finish(&self) -> u64 { 0 }
    fn write(&mut self, bytes: &[u8]) { self.0.extend_from_slice(bytes) }
}

fn dv(x: d128) -> Val { Val::D(to_bits(&x)) }
fn rm(mode: char) -> Option<RoundingMode> {
    match mode {
        '0' => Some(RoundingMode::NearestEven),
        '1' => Some(RoundingMode::Downward),
        '2' => Some(RoundingMode::Upward),
        '3' => Some(RoundingMode::TowardZero),
        '4' => Some(RoundingMode::NearestAway),
        _ => None,
    }
}
fn class_index(c: dm::ClassTypes) -> u8 {
    use dm::ClassTypes::*;
    match c {
        SignalingNaN => 0, QuietNaN => 1, NegativeInfinity => 2, NegativeNormal => 3, NegativeSubnormal => 4,
        NegativeZero => 5, PositiveZero => 6, PositiveSubnormal => 7, PositiveNormal => 8, PositiveInfinity => 9,
    }
}
fn default_hash(x: &d128) -> u64 {
    let mut h = std::collections::hash_map::DefaultHasher::new();
    x.hash(&mut h);
    h.finish()
}

macro_rules! to_int_ops {
    ($op:expr, $x:expr, $st:expr; $( $name:ident ),* ) => {
        match $op {
            $( stringify!($name) => Some(Val::I($x.$name($st) as i128)), )*
            _ => None,
        }
    };
}

fn call(c: &Case) -> Option<(Vec<Val>, u32)> {
    let mut st: u32 = c.flags_in;
    let m = rm(c.mode);
    let a = &c.args;
    let d = |i: usize| -> d128 { match &a[i] { Val::D(b) => d128::from(*b), _ => panic!("harness: bad arg") } };
    let int = |i: usize| -> i128 { match &a[i] { Val::I(v) => *v, _ => panic!("harness: bad arg") } };
    let text = |i: usize| -> String { match &a[i] { Val::S(b) => String::from_utf8(b.clone()).expect("harness: utf8"), _ => panic!("harness: bad arg") } };
    let op = c.op.as_str();
    // crate-internal helper routines through the cfg hook: all arguments and results are 64-bit words (G tokens)
    if let Some(name) = op.strip_prefix("hk_") {
        let words: Vec<u64> = a.iter().map(|v| match v { Val::G(w) => *w, _ => panic!("harness: bad arg") }).collect();
        let mode = c.mode.to_digit(10).unwrap_or(0);
        let r = decmathlib_rs::verif_hooks::helper(name, &words, mode, &mut st)?;
        return Some((r.into_iter().map(Val::G).collect(), st));
    }
    // the 40 decimal -> integer conversions
    if op.starts_with("convert_to_") {
        let x = d(0);
        let r = to_int_ops!(op, x, &mut st;
            convert_to_i32_ties_to_even, convert_to_i32_exact_ties_to_even, convert_to_i32_toward_negative,
            convert_to_i32_exact_toward_negative, convert_to_i32_toward_positive, convert_to_i32_exact_toward_positive,
            convert_to_i32_toward_zero, convert_to_i32_exact_toward_zero, convert_to_i32_ties_to_away,
            convert_to_i32_exact_ties_to_away,
            convert_to_i64_toward_positive, convert_to_i64_toward_negative, convert_to_i64_toward_zero,
            convert_to_i64_ties_to_even, convert_to_i64_ties_to_away, convert_to_i64_exact_toward_positive,
            convert_to_i64_exact_toward_negative, convert_to_i64_exact_toward_zero, convert_to_i64_exact_ties_to_even,
            convert_to_i64_exact_ties_to_away,
            convert_to_u32_toward_positive, convert_to_u32_toward_negative, convert_to_u32_toward_zero,
            convert_to_u32_ties_to_even, convert_to_u32_ties_to_away, convert_to_u32_exact_toward_positive,
            convert_to_u32_exact_toward_negative, convert_to_u32_exact_toward_zero, convert_to_u32_exact_ties_to_even,
            convert_to_u32_exact_ties_to_away,
            convert_to_u64_toward_positive, convert_to_u64_toward_negative, convert_to_u64_toward_zero,
            convert_to_u64_ties_to_even, convert_to_u64_ties_to_away, convert_to_u64_exact_toward_positive,
            convert_to_u64_exact_toward_negative, convert_to_u64_exact_toward_zero, convert_to_u64_exact_ties_to_even,
            convert_to_u64_exact_ties_to_away
        );
        return r.map(|v| (vec![v], st));
    }
    macro_rules! cmp_op { ($f:ident) => {{ let (x, y) = (d(0), d(1)); vec![Val::B(d128::$f(&x, &y, &mut st))] }}; }
    let res: Vec<Val> = match op {
        "addition" => vec![dv(d128::addition(&d(0), &d(1), m, &mut st))],
        "subtraction" => vec![dv(d128::subtraction(&d(0), &d(1), m, &mut st))],
        "multiplication" => vec![dv(d128::multiplication(&d(0), &d(1), m, &mut st))],
        "division" => vec![dv(d128::division(&d(0), &d(1), m, &mut st))],
        "remainder" => vec![dv(d128::remainder(&d(0), &d(1), &mut st))],
        "square_root" => vec![dv(d(0).square_root(m, &mut st))],
        "fused_multiply_add" => vec![dv(d128::fused_multiply_add(&d(0), &d(1), &d(2), m, &mut st))],
        "fdim" => vec![dv(d(0).fdim(&d(1), m, &mut st))],
        "fmod" => vec![dv(d(0).fmod(&d(1), &mut st))],
        "op_add" => vec![dv(d(0) + d(1))],
        "op_sub" => vec![dv(d(0) - d(1))],
        "op_mul" => vec![dv(d(0) * d(1))],
        "op_div" => vec![dv(d(0) / d(1))],
        "op_rem" => vec![dv(d(0) % d(1))],
        "op_add_ref" => vec![dv(&d(0) + &d(1))],
        "op_sub_ref" => vec![dv(&d(0) - &d(1))],
        "op_mul_ref" => vec![dv(&d(0) * &d(1))],
        "op_div_ref" => vec![dv(&d(0) / &d(1))],
        "op_rem_ref" => vec![dv(&d(0) % &d(1))],
        "op_add_assign" => { let mut x = d(0); x += d(1); vec![dv(x)] }
        "op_sub_assign" => { let mut x = d(0); x -= d(1); vec![dv(x)] }
        "op_mul_assign" => { let mut x = d(0); x *= d(1); vec![dv(x)] }
        "op_div_assign" => { let mut x = d(0); x /= d(1); vec![dv(x)] }
        "op_rem_assign" => { let mut x = d(0); x %= d(1); vec![dv(x)] }
        "op_add_assign_ref" => { let mut x = d(0); x += &d(1); vec![dv(x)] }
        "op_sub_assign_ref" => { let mut x = d(0); x -= &d(1); vec![dv(x)] }
        "op_mul_assign_ref" => { let mut x = d(0); x *= &d(1); vec![dv(x)] }
        "op_div_assign_ref" => { let mut x = d(0); x /= &d(1); vec![dv(x)] }
        "op_rem_assign_ref" => { let mut x = d(0); x %= &d(1); vec![dv(x)] }
        "op_neg" => vec![dv(-d(0))],
        "op_neg_ref" => vec![dv(-&d(0))],
        "sum" => vec![dv((0..a.len()).map(|i| d(i)).sum::<d128>())],
        "product" => vec![dv((0..a.len()).map(|i| d(i)).product::<d128>())],
        "sum_ref" => { let v: Vec<d128> = (0..a.len()).map(|i| d(i)).collect(); vec![dv(v.iter().sum::<d128>())] }
        "product_ref" => { let v: Vec<d128> = (0..a.len()).map(|i| d(i)).collect(); vec![dv(v.iter().product::<d128>())] }
        "eq" => vec![Val::B(d(0) == d(1))],
        "ne" => vec![Val::B(d(0) != d(1))],
        "lt" => vec![Val::B(d(0) < d(1))],
        "le" => vec![Val::B(d(0) <= d(1))],
        "gt" => vec![Val::B(d(0) > d(1))],
        "ge" => vec![Val::B(d(0) >= d(1))],
        "partial_cmp" => vec![Val::O(d(0).partial_cmp(&d(1)))],
        "compare_quiet_equal" => cmp_op!(compare_quiet_equal),
        "compare_quiet_greater" => cmp_op!(compare_quiet_greater),
        "compare_quiet_unordered" => cmp_op!(compare_quiet_unordered),
        "compare_quiet_ordered" => cmp_op!(compare_quiet_ordered),
        "compare_quiet_greater_equal" => cmp_op!(compare_quiet_greater_equal),
        "compare_quiet_greater_unordered" => cmp_op!(compare_quiet_greater_unordered),
        "compare_quiet_less" => cmp_op!(compare_quiet_less),
        "compare_quiet_less_equal" => cmp_op!(compare_quiet_less_equal),
        "compare_quiet_less_unordered" => cmp_op!(compare_quiet_less_unordered),
        "compare_quiet_not_equal" => cmp_op!(compare_quiet_not_equal),
        "compare_quiet_not_greater" => cmp_op!(compare_quiet_not_greater),
        "compare_quiet_not_less" => cmp_op!(compare_quiet_not_less),
        "compare_signaling_greater" => cmp_op!(compare_signaling_greater),
        "compare_signaling_greater_equal" => cmp_op!(compare_signaling_greater_equal),
        "compare_signaling_greater_unordered" => cmp_op!(compare_signaling_greater_unordered),
        "compare_signaling_less" => cmp_op!(compare_signaling_less),
        "compare_signaling_less_equal" => cmp_op!(compare_signaling_less_equal),
        "compare_signaling_less_unordered" => cmp_op!(compare_signaling_less_unordered),
        "compare_signaling_not_greater" => cmp_op!(compare_signaling_not_greater),
        "compare_signaling_not_less" => cmp_op!(compare_signaling_not_less),
        "class" => vec![Val::C(class_index(d(0).class()))],
        "is_canonical" => vec![Val::B(d(0).is_canonical())],
        "is_finite" => vec![Val::B(d(0).is_finite())],
        "is_infinite" => vec![Val::B(d(0).is_infinite())],
        "is_nan" => vec![Val::B(d(0).is_nan())],
        "is_normal" => vec![Val::B(d(0).is_normal())],
        "is_signaling" => vec![Val::B(d(0).is_signaling())],
        "is_sign_minus" => vec![Val::B(d(0).is_sign_minus())],
        "is_subnormal" => vec![Val::B(d(0).is_subnormal())],
        "is_zero" => vec![Val::B(d(0).is_zero())],
        "copy" => vec![dv(d(0).copy())],
        "negate" => vec![dv(d128::negate(&d(0)))],
        "abs" => vec![dv(d(0).abs())],
        "copy_sign" => vec![dv(d(0).copy_sign(&d(1)))],
        "same_quantum" => vec![Val::B(d128::same_quantum(&d(0), &d(1)))],
        "total_order" => vec![Val::B(d128::total_order(&d(0), &d(1)))],
        "total_order_mag" => vec![Val::B(d128::total_order_mag(&d(0), &d(1)))],
        "quantize" => vec![dv(d128::quantize(&d(0), &d(1), m, &mut st))],
        "quantum" => vec![dv(d(0).quantum())],
        "quantexp" => vec![Val::I(d(0).quantexp(&mut st) as i128)],
        "llquantexp" => vec![Val::I(d(0).llquantexp(&mut st) as i128)],
        "round_to_integral_exact" => vec![dv(d128::round_to_integral_exact(&d(0), m, &mut st))],
        "nearbyint" => vec![dv(d(0).nearbyint(m, &mut st))],
        "round_to_integral_ties_to_away" => vec![dv(d128::round_to_integral_ties_to_away(&d(0), &mut st))],
        "round_to_integral_ties_to_even" => vec![dv(d128::round_to_integral_ties_to_even(&d(0), &mut st))],
        "round_to_integral_ties_toward_negative" => vec![dv(d128::round_to_integral_ties_toward_negative(&d(0), &mut st))],
        "round_to_integral_ties_toward_positive" => vec![dv(d128::round_to_integral_ties_toward_positive(&d(0), &mut st))],
        "round_to_integral_ties_toward_zero" => vec![dv(d128::round_to_integral_ties_toward_zero(&d(0), &mut st))],
        "modf" => { let (i, f) = d(0).modf(&mut st); vec![dv(i), dv(f)] }
        "lrint" => vec![Val::I(d(0).lrint(m, &mut st) as i128)],
        "llrint" => vec![Val::I(d(0).llrint(m, &mut st) as i128)],
        "lround" => vec![Val::I(d(0).lround(&mut st) as i128)],
        "llround" => vec![Val::I(d(0).llround(&mut st) as i128)],
        "from_i32" => vec![dv(d128::from(int(0) as i32))],
        "from_u32" => vec![dv(d128::from(int(0) as u32))],
        "from_i64" => vec![dv(d128::from(int(0) as i64))],
        "from_u64" => vec![dv(d128::from(int(0) as u64))],
        "from_u128" => vec![dv(d128::from(int(0) as u128))],
        "scaleb" => vec![dv(d(0).scaleb(int(1) as i32, m, &mut st))],
        "ldexp" => vec![dv(d(0).ldexp(int(1) as i32, m, &mut st))],
        "scalebln" => vec![dv(d(0).scalebln(int(1) as i64, m, &mut st))],
        "logb" => vec![dv(d(0).logb(&mut st))],
        "log_b" => vec![Val::I(d(0).log_b(&mut st) as i128)],
        "frexp" => { let (f, e) = d(0).frexp(); vec![dv(f), Val::I(e as i128)] }
        "min_num" => vec![dv(d128::min_num(&d(0), &d(1), &mut st))],
        "max_num" => vec![dv(d128::max_num(&d(0), &d(1), &mut st))],
        "min_num_mag" => vec![dv(d128::min_num_mag(&d(0), &d(1), &mut st))],
        "max_num_mag" => vec![dv(d128::max_num_mag(&d(0), &d(1), &mut st))],
        "next_up" => vec![dv(d(0).next_up(&mut st))],
        "next_down" => vec![dv(d(0).next_down(&mut st))],
        "next_after" => vec![dv(d128::next_after(&d(0), &d(1), &mut st))],
        "next_toward" => vec![dv(d128::next_toward(&d(0), &d(1), &mut st))],
        "convert_from_f32" => match &a[0] { Val::F(b) => vec![dv(d128::convert_from_f32(f32::from_bits(*b), m, &mut st))], _ => return None },
        "convert_from_f64" => match &a[0] { Val::G(b) => vec![dv(d128::convert_from_f64(f64::from_bits(*b), m, &mut st))], _ => return None },
        "from_f32" => match &a[0] { Val::F(b) => vec![dv(d128::from(f32::from_bits(*b)))], _ => return None },
        "from_f64" => match &a[0] { Val::G(b) => vec![dv(d128::from(f64::from_bits(*b)))], _ => return None },
        "encode_decimal" => vec![dv(d(0).encode_decimal())],
        "decode_decimal" => vec![dv(d(0).decode_decimal())],
        "display" => vec![Val::S(format!("{}", d(0)).into_bytes())],
        "debug" => vec![Val::S(format!("{:?}", d(0)).into_bytes())],
        "upperexp" => vec![Val::S(format!("{:E}", d(0)).into_bytes())],
        "lowerexp" => vec![Val::S(format!("{:e}", d(0)).into_bytes())],
        "convert_from_decimal_character" => vec![dv(d128::convert_from_decimal_character(&text(0), m, &mut st))],
        "from_string_ref" => vec![dv(d128::from(text(0).as_str()))],
        "from_str" => match d128::from_str(&text(0)) { Ok(x) => vec![dv(x)], Err(e) => vec![Val::E(e)] },
        "nan" => vec![dv(d128::nan(&text(0), &mut st))],
        "default" => vec![dv(d128::default())],
        // format, then parse the text back under the given mode (round trip, C05)
        "roundtrip_display" => {
            let x = d(0);
            let s = format!("{}", x);
            let y = d128::convert_from_decimal_character(&s, m, &mut st);
            vec![Val::S(s.into_bytes()), dv(y)]
        }
        "roundtrip_lowerexp" => {
            let x = d(0);
            let s = format!("{:e}", x);
            let y = d128::convert_from_decimal_character(&s, m, &mut st);
            vec![Val::S(s.into_bytes()), dv(y)]
        }
        "roundtrip_serde" => {
            let x = d(0);
            let s = serde_json::to_string(&x).expect("harness: serialize");
            let back: Result<d128, _> = serde_json::from_str(&s);
            match back { Ok(y) => vec![Val::S(s.into_bytes()), dv(y)], Err(_) => vec![Val::S(s.into_bytes()), Val::E(0)] }
        }
        // Eq / Ord / Hash consistency observations (C20)
        "hash" => { let mut h = Rec(Vec::new()); d(0).hash(&mut h); vec![Val::H(h.0)] }
        "hash_pair" => {
            let (x, y) = (d(0), d(1));
            let (mut hx, mut hy) = (Rec(Vec::new()), Rec(Vec::new()));
            x.hash(&mut hx); y.hash(&mut hy);
            let mut set = std::collections::HashSet::new();
            set.insert(x);
            vec![Val::B(x == y), Val::B(hx.0 == hy.0), Val::B(default_hash(&x) == default_hash(&y)), Val::B(set.contains(&y))]
        }
        "hash_slice" => {
            let v: Vec<d128> = (0..a.len()).map(|i| d(i)).collect();
            let mut h1 = Rec(Vec::new());
            Hash::hash_slice(&v, &mut h1);
            let mut h2 = Rec(Vec::new());
            for x in &v { x.hash(&mut h2); }
            vec![Val::B(h1.0 == h2.0)]
        }
        "const" => {
            let name = text(0);
            vec![dv(match name.as_str() {
                "MINUS_ONE" => dm::MINUS_ONE, "ZERO" => dm::ZERO, "ONE" => dm::ONE, "NAN" => dm::NAN, "NEG_NAN" => dm::NEG_NAN,
                "SNAN" => dm::SNAN, "NEG_SNAN" => dm::NEG_SNAN, "INFINITY" => dm::INFINITY,
                "NEGATIVE_INFINITY" => dm::NEGATIVE_INFINITY, "EPSILON" => dm::EPSILON, "MIN" => dm::MIN, "MAX" => dm::MAX,
                _ => return None,
            })]
        }
        _ => return None,
    };
    Some((res, st))
}

/// `twice <mode> <flags_in> S<op> args…`: the same call from a clear status word and from `flags_in`.
/// Results: res0…, I<out0>, res1…, I<out1>.  (The judge compares; see `expect "twice"`.)
fn call_twice(c: &Case) -> Option<(Vec<Val>, u32)> {
    let name = match c.args.first() { Some(Val::S(b)) => String::from_utf8(b.clone()).ok()?, _ => return None };
    let inner0 = Case { op: name.clone(), mode: c.mode, flags_in: 0, args: c.args[1..].to_vec() };
    let inner1 = Case { op: name, mode: c.mode, flags_in: c.flags_in, args: c.args[1..].to_vec() };
    let (r0, o0) = call(&inner0)?;
    let (r1, o1) = call(&inner1)?;
    let mut out = r0;
    out.push(Val::I(o0 as i128));
    out.extend(r1);
    out.push(Val::I(o1 as i128));
    Some((out, o1))
}

pub fn run(c: &Case) -> Outcome {
    if c.op == "twice" {
        return match catch_unwind(AssertUnwindSafe(|| call_twice(c))) {
            Ok(Some((r, st))) => Outcome::Ok(r, st),
            Ok(None) => Outcome::Unknown,
            Err(_) => Outcome::Panic,
        };
    }
    match catch_unwind(AssertUnwindSafe(|| call(c))) {
        Ok(Some((r, st))) => Outcome::Ok(r, st),
        Ok(None) => Outcome::Unknown,
        Err(_) => Outcome::Panic,
    }
}

/// The observation line for a case.
pub fn observe(c: &Case) -> String {
    let mut s = c.show();
    s.push_str(" =>");
    match run(c) {
        Outcome::Ok(r, st) => {
            for v in &r { s.push(' '); s.push_str(&v.show()); }
            let _ = write!(s, " {:x}", st);
        }
        Outcome::Panic => s.push_str(" PANIC"),
        Outcome::Unknown => s.push_str(" UNKNOWN"),
    }
    s
}

/// Every operation name the harness can drive (checked against the scraped inventory of src/d128.rs).
pub const ALL_OPS: &[&str] = &[
    "addition", "subtraction", "multiplication", "division", "remainder", "square_root", "fused_multiply_add", "fdim", "fmod",
    "op_add", "op_sub", "op_mul", "op_div", "op_rem", "op_add_ref", "op_sub_ref", "op_mul_ref", "op_div_ref", "op_rem_ref",
    "op_add_assign", "op_sub_assign", "op_mul_assign", "op_div_assign", "op_rem_assign",
    "op_add_assign_ref", "op_sub_assign_ref", "op_mul_assign_ref", "op_div_assign_ref", "op_rem_assign_ref",
    "op_neg", "op_neg_ref", "sum", "product", "sum_ref", "product_ref",
    "eq", "ne", "lt", "le", "gt", "ge", "partial_cmp",
    "compare_quiet_equal", "compare_quiet_greater", "compare_quiet_unordered", "compare_quiet_ordered",
    "compare_quiet_greater_equal", "compare_quiet_greater_unordered", "compare_quiet_less", "compare_quiet_less_equal",
    "compare_quiet_less_unordered", "compare_quiet_not_equal", "compare_quiet_not_greater", "compare_quiet_not_less",
    "compare_signaling_greater", "compare_signaling_greater_equal", "compare_signaling_greater_unordered",
    "compare_signaling_less", "compare_signaling_less_equal", "compare_signaling_less_unordered",
    "compare_signaling_not_greater", "compare_signaling_not_less",
    "class", "is_canonical", "is_finite", "is_infinite", "is_nan", "is_normal", "is_signaling", "is_sign_minus",
    "is_subnormal", "is_zero", "copy", "negate", "abs", "copy_sign", "same_quantum", "total_order", "total_order_mag",
    "quantize", "quantum", "quantexp", "llquantexp",
    "round_to_integral_exact", "nearbyint", "round_to_integral_ties_to_away", "round_to_integral_ties_to_even",
    "round_to_integral_ties_toward_negative", "round_to_integral_ties_toward_positive", "round_to_integral_ties_toward_zero",
    "modf", "lrint", "llrint", "lround", "llround",
    "from_i32", "from_u32", "from_i64", "from_u64", "from_u128",
    "scaleb", "ldexp", "scalebln", "logb", "log_b", "frexp",
    "min_num", "max_num", "min_num_mag", "max_num_mag",
    "next_up", "next_down", "next_after", "next_toward",
    "convert_from_f32", "convert_from_f64", "from_f32", "from_f64",
    "encode_decimal", "decode_decimal",
    "display", "debug", "upperexp", "lowerexp",
    "convert_from_decimal_character", "from_string_ref", "from_str", "nan", "default",
    "roundtrip_display", "roundtrip_lowerexp", "roundtrip_serde",
    "hash", "hash_pair", "hash_slice", "const",
    "convert_to_i32_ties_to_even", "convert_to_i32_exact_ties_to_even", "convert_to_i32_toward_negative",
    "convert_to_i32_exact_toward_negative", "convert_to_i32_toward_positive", "convert_to_i32_exact_toward_positive",
    "convert_to_i32_toward_zero", "convert_to_i32_exact_toward_zero", "convert_to_i32_ties_to_away",
    "convert_to_i32_exact_ties_to_away",
    "convert_to_i64_toward_positive", "convert_to_i64_toward_negative", "convert_to_i64_toward_zero",
    "convert_to_i64_ties_to_even", "convert_to_i64_ties_to_away", "convert_to_i64_exact_toward_positive",
    "convert_to_i64_exact_toward_negative", "convert_to_i64_exact_toward_zero", "convert_to_i64_exact_ties_to_even",
    "convert_to_i64_exact_ties_to_away",
    "convert_to_u32_toward_positive", "convert_to_u32_toward_negative", "convert_to_u32_toward_zero",
    "convert_to_u32_ties_to_even", "convert_to_u32_ties_to_away", "convert_to_u32_exact_toward_positive",
    "convert_to_u32_exact_toward_negative", "convert_to_u32_exact_toward_zero", "convert_to_u32_exact_ties_to_even",
    "convert_to_u32_exact_ties_to_away",
    "convert_to_u64_toward_positive", "convert_to_u64_toward_negative", "convert_to_u64_toward_zero",
    "convert_to_u64_ties_to_even", "convert_to_u64_ties_to_away", "convert_to_u64_exact_toward_positive",
    "convert_to_u64_exact_toward_negative", "convert_to_u64_exact_toward_zero", "convert_to_u64_exact_ties_to_even",
    "convert_to_u64_exact_ties_to_away",
];
