//! translate <repo-src-dir> <whitelist-file> <out.lean>
//!
//! A small Rust -> Lean 4 translator for the C-style subset the decimal library's helper routines are written in.
//! Every whitelisted function becomes one Lean `def` in `do` notation over `Except String` (an `Err` is a Rust panic),
//! statement by statement: `let` / assignment / compound assignment / `if` / `match` (turned into an if-chain) /
//! `while` (a fuel-bounded `for` with `break`) / `return`; `&mut` parameters become extra results.  Integers keep
//! their width (`UInt64`, `UInt32`, `Int32`, ...), so wrapping and shift-amount masking are Lean's own and coincide
//! with Rust's when overflow checks are off.  Anything outside the subset is a hard error (the function is then
//! reported as untranslatable; nothing is guessed).

use std::collections::{BTreeMap, HashMap, HashSet};
use std::fmt::Write as _;
use syn::*;

#[derive(Clone, Debug, PartialEq)]
enum Ty { U8, U32, U64, I32, I64, Bool, W(usize), RMode, Class, F64U, F32U, DecDigits, N, Ord, OptOrd, Hasher, Arr(Box<Ty>, usize), Generic(String), Tuple(Vec<Ty>), Func(Vec<Ty>, Box<Ty>), Opt128, VecU32, Str, OptRMode, ResD128, Fmt, FmtRes, Unit, Unknown }

impl Ty {
    fn lean(&self) -> String {
        match self {
            Ty::U8 => "UInt8".into(), Ty::U32 => "UInt32".into(), Ty::U64 => "UInt64".into(), Ty::I32 => "Int32".into(),
            Ty::I64 => "Int64".into(), Ty::Bool => "Bool".into(), Ty::W(n) => format!("U{}", n), Ty::RMode => "RoundingMode".into(), Ty::Class => "ClassTypes".into(),
            Ty::F64U => "F64U".into(), Ty::F32U => "F32U".into(), Ty::DecDigits => "DecDigits".into(), Ty::N => "Nat".into(), Ty::Ord => "Ordering".into(), Ty::OptOrd => "(Option Ordering)".into(),
            Ty::Hasher => "(List UInt8)".into(), Ty::VecU32 => "(List UInt32)".into(), Ty::Str => "String".into(), Ty::OptRMode => "(Option RoundingMode)".into(), Ty::ResD128 => "(Except UInt32 U128)".into(), Ty::Fmt => "(List UInt8)".into(), Ty::FmtRes => "Bool".into(), Ty::Arr(t, _) => format!("(Array {})", t.lean()), Ty::Generic(g) => format!("{}'", g),
            Ty::Tuple(v) => format!("({})", v.iter().map(|t| t.lean()).collect::<Vec<_>>().join(" × ")),
            Ty::Func(a, r) => format!("({} → Except String {})", a.iter().map(|t| t.lean()).collect::<Vec<_>>().join(" → "), r.lean()),
            Ty::Opt128 => "(Option U128)".into(),
            Ty::Unit => "Unit".into(), Ty::Unknown => "_".into(),
        }
    }
    fn is_int(&self) -> bool { matches!(self, Ty::U8 | Ty::U32 | Ty::U64 | Ty::I32 | Ty::I64 | Ty::N) }
    fn of_int(&self) -> Option<&'static str> {
        match self { Ty::U8 => Some("UInt8.ofInt"), Ty::U32 => Some("UInt32.ofInt"), Ty::U64 => Some("UInt64.ofInt"),
                     Ty::I32 => Some("Int32.ofInt"), Ty::I64 => Some("Int64.ofInt"), _ => None }
    }
}

struct FnSig { params: Vec<(String, Ty, bool)>, ret: Ty }   // (name, type, is &mut)
struct Table { elem: Ty, dims: Vec<usize> }

struct Ctx {
    fns: HashMap<String, ItemFn>,
    sigs: HashMap<String, FnSig>,
    consts: HashMap<String, (Ty, Expr)>,
    tables: HashMap<String, Table>,
    used_consts: Vec<String>,
    used_tables: HashSet<String>,
    errors: Vec<String>,
    new_is_lh: bool,
    /// per translated function: the untranslated (`extern`) functions it needs as leading parameters, in order
    ext_needs: HashMap<String, Vec<String>>,
}

/// variables in scope: Rust name -> type, and the Lean name when it had to be renamed (an inner `let` that shadows a
/// variable of another type: Lean's `let mut` cannot be shadowed)
#[derive(Clone, Default)]
struct Env { tys: HashMap<String, Ty>, names: HashMap<String, String> }
impl Env {
    fn get(&self, k: &str) -> Option<&Ty> { self.tys.get(k) }
    fn contains_key(&self, k: &str) -> bool { self.tys.contains_key(k) }
    fn insert(&mut self, k: String, t: Ty) { self.names.remove(&k); self.tys.insert(k, t); }
    fn insert_renamed(&mut self, k: String, t: Ty, lean: String) { self.names.insert(k.clone(), lean); self.tys.insert(k, t); }
    fn lean(&self, k: &str) -> String { match self.names.get(k) { Some(n) => n.clone(), None => id(k) } }
}

const KEYWORDS: &[&str] = &["at", "by", "do", "end", "from", "fun", "have", "in", "let", "match", "open", "show", "then", "else", "if",
    "with", "where", "local", "section", "namespace", "instance", "def", "theorem", "example", "macro", "syntax", "import", "export",
    "prefix", "variable", "universe", "mutual", "structure", "class", "deriving", "extends", "inductive", "abbrev", "attribute", "private",
    "protected", "noncomputable", "partial", "unsafe", "return", "for", "unless", "try", "catch", "finally", "mut", "break", "continue",
    "nomatch", "suffices", "calc", "Type", "Prop", "Sort", "using", "obtain", "exact", "set_option", "default", "infix", "notation", "opaque"];

fn id(s: &str) -> String { if KEYWORDS.contains(&s) { format!("«{}»", s) } else { s.to_string() } }
fn fn_name(s: &str) -> String { let t = s.trim_start_matches('_').replace("::", "_"); id(&t) }

fn path_str(p: &Path) -> String { p.segments.iter().map(|s| s.ident.to_string()).collect::<Vec<_>>().join("::") }

fn ty_of_type(t: &Type) -> (Ty, bool) {
    match t {
        Type::Reference(r) => { let (ty, _) = ty_of_type(&r.elem); (ty, r.mutability.is_some()) }
        Type::Paren(p) => ty_of_type(&p.elem),
        Type::TraitObject(to) => {
            // `dyn Fn(A, B) -> R`: a function passed as an argument
            for b in to.bounds.iter() {
                if let TypeParamBound::Trait(tb) = b {
                    let seg = tb.path.segments.last().unwrap();
                    if seg.ident == "Fn" {
                        if let PathArguments::Parenthesized(pa) = &seg.arguments {
                            let args: Vec<Ty> = pa.inputs.iter().map(|t| ty_of_type(t).0).collect();
                            let ret = match &pa.output { ReturnType::Default => Ty::Unit, ReturnType::Type(_, t) => ty_of_type(t).0 };
                            if args.iter().all(|t| *t != Ty::Unknown) && ret != Ty::Unknown { return (Ty::Func(args, Box::new(ret)), false); }
                        }
                    }
                }
            }
            (Ty::Unknown, false)
        }
        Type::Array(a) => { let (t, _) = ty_of_type(&a.elem); match (t.is_int(), lit_usize(&a.len)) { (true, Some(n)) => (Ty::Arr(Box::new(t), n), false), _ => (Ty::Unknown, false) } }
        Type::Tuple(t) => { if t.elems.is_empty() { (Ty::Unit, false) } else { (Ty::Tuple(t.elems.iter().map(|e| ty_of_type(e).0).collect()), false) } }
        Type::Path(p) => {
            let s = p.path.segments.last().unwrap().ident.to_string();
            let ty = match s.as_str() {
                "u64" | "BID_UINT64" | "usize" => Ty::U64, "u32" | "BID_UINT32" | "_IDEC_flags" => Ty::U32, "u8" => Ty::U8,
                "i32" => Ty::I32, "i64" | "BID_SINT64" => Ty::I64, "bool" => Ty::Bool, "u128" => Ty::N,
                "BID_UINT128" | "d128" | "Self" | "Output" => Ty::W(128), "Ordering" => Ty::Ord, "H" => Ty::Hasher,
                "Option" => {
                    let inner = match &p.path.segments.last().unwrap().arguments { PathArguments::AngleBracketed(a) => a.args.first().and_then(|g| if let GenericArgument::Type(t) = g { Some(ty_of_type(t).0) } else { None }), _ => None };
                    if inner == Some(Ty::Ord) { Ty::OptOrd } else if inner == Some(Ty::W(128)) { Ty::Opt128 } else if inner == Some(Ty::RMode) { Ty::OptRMode } else { Ty::Unknown }
                }
                "str" => Ty::Str,
                "Formatter" => Ty::Fmt,   // the text written so far, as bytes
                "Result" => {
                    // `Result<Self, Self::Err>` of `impl FromStr for d128` (`type Err = u32`)
                    let a: Vec<String> = match &p.path.segments.last().unwrap().arguments { PathArguments::AngleBracketed(a) => a.args.iter().map(|g| quote::quote!(#g).to_string().replace(' ', "")).collect(), _ => vec![] };
                    // `std::fmt::Result` (no arguments): `true` = `Ok(())`
                    if a == vec!["Self".to_string(), "Self::Err".to_string()] { Ty::ResD128 } else if a.is_empty() { Ty::FmtRes } else { Ty::Unknown }
                }
                "Vec" => {
                    let inner = match &p.path.segments.last().unwrap().arguments { PathArguments::AngleBracketed(a) => a.args.first().and_then(|g| if let GenericArgument::Type(t) = g { Some(ty_of_type(t).0) } else { None }), _ => None };
                    if inner == Some(Ty::U32) { Ty::VecU32 } else { Ty::Unknown }
                } "BID_UINT192" => Ty::W(192), "BID_UINT256" => Ty::W(256),
                "BID_UINT384" => Ty::W(384), "BID_UINT512" => Ty::W(512), "RoundingMode" => Ty::RMode, "ClassTypes" => Ty::Class,
                "BID_UI64DOUBLE" | "f64" => Ty::F64U, "BID_UI32FLOAT" | "f32" => Ty::F32U, "DEC_DIGITS" => Ty::DecDigits,
                g if g.len() == 1 && g.chars().all(|c| c.is_ascii_uppercase()) => Ty::Generic(g.to_string()),
                _ => Ty::Unknown,
            };
            (ty, false)
        }
        _ => (Ty::Unknown, false),
    }
}

/// value of an expression built from untyped integer literals only
fn const_eval(e: &Expr) -> Option<i128> {
    match e {
        Expr::Lit(ExprLit { lit: Lit::Int(i), .. }) => if i.suffix().is_empty() { i.base10_digits().parse::<i128>().ok() } else { None },
        Expr::Paren(p) => const_eval(&p.expr),
        Expr::Binary(b) => {
            let (l, r) = (const_eval(&b.left)?, const_eval(&b.right)?);
            match b.op { BinOp::Add(_) => l.checked_add(r), BinOp::Sub(_) => l.checked_sub(r), BinOp::Mul(_) => l.checked_mul(r),
                BinOp::Shl(_) => if (0..100).contains(&r) { l.checked_shl(r as u32) } else { None }, BinOp::Shr(_) => if (0..127).contains(&r) { Some(l >> r) } else { None }, _ => None }
        }
        _ => None,
    }
}

fn lit_usize(e: &Expr) -> Option<usize> {
    match e { Expr::Lit(ExprLit { lit: Lit::Int(i), .. }) => i.base10_parse::<usize>().ok(), Expr::Paren(p) => lit_usize(&p.expr), _ => None }
}

fn has_be_cfg(attrs: &[Attribute]) -> bool {
    attrs.iter().any(|a| { let s = quote::quote!(#a).to_string(); s.contains("target_endian") && s.contains("big") })
}

struct Out { lines: Vec<String> }

#[derive(Clone)]
enum Tail { No, Ret, Into(Expr) }

struct FnCtx<'a> { cx: &'a mut Ctx, name: String, outs: Vec<String>, ret: Ty, tmp: usize, pre: Vec<String>, loops: Vec<(Option<String>, Option<String>, Tail)>, ext: bool }

macro_rules! bail { ($($t:tt)*) => { return Err(format!($($t)*)) } }
type R<T> = std::result::Result<T, String>;

struct Ex { s: String, ty: Ty, m: bool, untyped_lit: bool }
fn ex(s: String, ty: Ty, m: bool) -> Ex { Ex { s, ty, m, untyped_lit: false } }
/// type ascription of an untyped literal expression; `⟪T⟫` marks inner literals that take the same type
fn ann(s: &str, ty: &Ty) -> String { format!("({} : {})", s.replace("⟪T⟫", &ty.lean()), ty.lean()) }

impl<'a> FnCtx<'a> {
    /// the Lean head of a call of `f`: its name followed by the extern parameters it takes
    fn callee_name(&self, f: &str) -> String {
        match self.cx.ext_needs.get(f) { Some(v) if !v.is_empty() => format!("{} {}", fn_name(f), v.iter().map(|e| fn_name(e)).collect::<Vec<_>>().join(" ")), _ => fn_name(f) }
    }
    fn fresh(&mut self) -> String { self.tmp += 1; format!("t__{}", self.tmp) }

    fn cast(&self, e: &Ex, to: &Ty) -> R<String> {
        if &e.ty == to && !e.untyped_lit { return Ok(e.s.clone()); }
        if let Ty::RMode = to { bail!("cast to RoundingMode") }
        if matches!(to, Ty::F64U | Ty::F32U) {
            if !matches!(e.ty, Ty::U64 | Ty::U32 | Ty::U8) { bail!("float conversion from {:?}", e.ty) }
            return Ok(format!("({}.ofU64 (UInt64.ofInt (toI {})))", to.lean(), paren(&e.s)));
        }
        if matches!(e.ty, Ty::F64U | Ty::F32U) {
            if *to != Ty::U64 { bail!("float cast to {:?}", to) }
            return Ok(format!("(← {}.toU64 {})", e.ty.lean(), paren(&e.s)));
        }
        // `u128` is only ever an intermediate for sums/products of 64-bit words: unbounded Nat (cannot wrap there)
        if let Ty::N = to { return Ok(format!("(Int.toNat (toI {}))", paren(&e.s))); }
        match to.of_int() { Some(f) => Ok(format!("({} (toI {}))", f, paren(&e.s))), None => bail!("cast to {:?} of {}", to, e.s) }
    }

    fn field_index(&self, e: &Expr) -> Option<(Expr, usize)> {
        // base.w[k]  ->  (base, k)
        if let Expr::Index(ix) = e {
            if let Expr::Field(f) = &*ix.expr {
                if let Member::Named(n) = &f.member { if n == "w" {
                    if let Some(k) = lit_usize(&ix.index) { return Some(((*f.base).clone(), k)); }
                    if let Expr::Path(p) = &*ix.index { if let Some((_, ce)) = self.cx.consts.get(&path_str(&p.path)) { if let Some(k) = lit_usize(ce) { return Some(((*f.base).clone(), k)); } } }
                } }
            }
        }
        None
    }

    fn expr(&mut self, e: &Expr, env: &Env) -> R<Ex> {
        match e {
            Expr::Paren(p) => { let x = self.expr(&p.expr, env)?; Ok(Ex { s: format!("({})", x.s), ..x }) }
            Expr::Group(p) => self.expr(&p.expr, env),
            Expr::Lit(l) => match &l.lit {
                Lit::Int(i) => {
                    let digits = i.base10_digits();
                    let v: u128 = digits.parse().map_err(|_| "literal".to_string())?;
                    let txt = if v > 9 { format!("0x{:x}", v) } else { format!("{}", v) };
                    let ty = match i.suffix() { "u64" | "usize" => Ty::U64, "u32" => Ty::U32, "i32" => Ty::I32, "i64" => Ty::I64, "u8" => Ty::U8, "" => Ty::Unknown, s => bail!("literal suffix {}", s) };
                    if ty == Ty::Unknown { Ok(Ex { s: txt, ty, m: false, untyped_lit: true }) } else { Ok(ex(format!("({} : {})", txt, ty.lean()), ty, false)) }
                }
                Lit::Bool(b) => Ok(ex(format!("{}", b.value), Ty::Bool, false)),
                Lit::Float(f) => {
                    // only integer-valued literals (1.0, 2.0): the value as an exactly converted integer
                    let txt = f.base10_digits();
                    let v: f64 = txt.parse().map_err(|_| "float literal".to_string())?;
                    if v.fract() != 0.0 || v < 0.0 || v > 1e15 { bail!("float literal {}", txt) }
                    let ty = match f.suffix() { "f32" => Ty::F32U, _ => Ty::F64U };
                    Ok(Ex { s: format!("({}.ofU64 {})", ty.lean(), v as u64), ty, m: false, untyped_lit: false })
                }
                _ => bail!("literal kind"),
            },
            Expr::Path(p) => {
                let s = path_str(&p.path);
                if let Some(t) = env.get(&s) { return Ok(ex(env.lean(&s), t.clone(), false)); }
                if let Some(v) = s.strip_prefix("RoundingMode::") { return Ok(ex(format!("RoundingMode.{}", v), Ty::RMode, false)); }
                if let Some(v) = s.strip_prefix("Ordering::") { let l = match v { "Less" => "lt", "Equal" => "eq", "Greater" => "gt", _ => bail!("Ordering variant") }; return Ok(ex(format!("Ordering.{}", l), Ty::Ord, false)); }
                if s == "None" && self.ret == Ty::Opt128 { return Ok(ex("(none : Option U128)".into(), Ty::Opt128, false)); }
                if s == "None" { return Ok(ex("(none : Option Ordering)".into(), Ty::OptOrd, false)); }
                if let Some(v) = s.strip_prefix("ClassTypes::") { return Ok(ex(format!("ClassTypes.{}", v), Ty::Class, false)); }
                match s.as_str() {
                    "i64::MIN" => return Ok(ex("(Int64.ofInt (-9223372036854775808))".into(), Ty::I64, false)),
                    "i64::MAX" => return Ok(ex("(Int64.ofInt 9223372036854775807)".into(), Ty::I64, false)),
                    "i32::MIN" => return Ok(ex("(Int32.ofInt (-2147483648))".into(), Ty::I32, false)),
                    "i32::MAX" => return Ok(ex("(Int32.ofInt 2147483647)".into(), Ty::I32, false)),
                    "u32::MAX" => return Ok(ex("(0xffffffff : UInt32)".into(), Ty::U32, false)),
                    "u64::MAX" => return Ok(ex("(0xffffffffffffffff : UInt64)".into(), Ty::U64, false)),
                    _ => {}
                }
                let cname = s.replace("::", "_");
                if let Some((ty, _)) = self.cx.consts.get(&s).cloned() {
                    if !self.cx.used_consts.contains(&s) { self.cx.used_consts.push(s.clone()); }
                    return Ok(ex(format!("c_{}", cname), ty, false));
                }
                // a whitelisted function passed as a value (`&return_bid128_zero` for a `&dyn Fn` parameter)
                if let Some(sig) = self.cx.sigs.get(&s) {
                    if sig.params.iter().all(|p| !p.2) && sig.ret != Ty::Unit {
                        return Ok(ex(fn_name(&s), Ty::Func(sig.params.iter().map(|p| p.1.clone()).collect(), Box::new(sig.ret.clone())), false));
                    }
                }
                bail!("unknown name {}", s)
            }
            Expr::Reference(r) => self.expr(&r.expr, env),
            Expr::Unary(u) => {
                let x = self.expr(&u.expr, env)?;
                match u.op {
                    UnOp::Deref(_) => Ok(x),
                    UnOp::Not(_) => if x.ty == Ty::Bool { Ok(ex(format!("(!{})", paren(&x.s)), Ty::Bool, x.m)) } else if x.ty.is_int() { Ok(ex(format!("(~~~{})", paren(&x.s)), x.ty, x.m)) } else { bail!("! on {:?}", x.ty) },
                    UnOp::Neg(_) => Ok(Ex { s: format!("(-{})", paren(&x.s)), ty: x.ty, m: x.m, untyped_lit: false }),
                    _ => bail!("unary op"),
                }
            }
            Expr::Cast(c) => {
                let x = self.expr(&c.expr, env)?;
                let (to, _) = ty_of_type(&c.ty);
                let s = self.cast(&Ex { untyped_lit: false, s: x.s.clone(), ty: if x.untyped_lit { Ty::Unknown } else { x.ty.clone() }, m: x.m }, &to)?;
                let mon = x.m || s.contains("←");
                Ok(ex(s, to, mon))
            }
            Expr::Index(ix) => {
                if let Some((base, k)) = self.field_index(e) {
                    let b = self.expr(&base, env)?;
                    let n = match b.ty { Ty::W(n) => n / 64, _ => bail!(".w[] on {:?}", b.ty) };
                    if k >= n { bail!("word index {} out of range", k) }
                    return Ok(ex(format!("{}.w{}", paren(&b.s), k), Ty::U64, b.m));
                }
                // table lookups
                if let Expr::Path(p) = &*ix.expr {
                    let t = path_str(&p.path);
                    if let Some(tb) = self.cx.tables.get(&t) {
                        if tb.dims.len() != 1 { bail!("table {} needs {} indices", t, tb.dims.len()) }
                        let elem = tb.elem.clone();
                        let i = self.expr(&ix.index, env)?;
                        let i_s = self.cast(&i, &Ty::U64)?;
                        let acc = match elem { Ty::U64 => "tbl64", Ty::U32 => "tbl32", Ty::U8 => "tbl8", Ty::I32 => "tblI32", Ty::W(128) => "tbl128", Ty::W(192) => "tbl192", Ty::W(256) => "tbl256", Ty::DecDigits => "tblDD", _ => bail!("table element type of {}", t) };
                        self.cx.used_tables.insert(t.clone());
                        return Ok(ex(format!("(← {} Dec.Gen.{} {})", acc, t, paren(&i_s)), elem, true));
                    }
                }
                if let Expr::Index(inner) = &*ix.expr {
                    if let Expr::Path(p) = &*inner.expr {
                        let t = path_str(&p.path);
                        if let Some(tb) = self.cx.tables.get(&t) {
                            if tb.dims.len() == 2 && tb.elem == Ty::W(128) {
                            let inner_len = tb.dims[1];
                            let i = self.expr(&inner.index, env)?; let j = self.expr(&ix.index, env)?;
                            let (i_s, j_s) = (self.cast(&i, &Ty::U64)?, self.cast(&j, &Ty::U64)?);
                            self.cx.used_tables.insert(t.clone());
                            return Ok(ex(format!("(← tbl128_2 Dec.Gen.{} {} {} {})", t, inner_len, paren(&i_s), paren(&j_s)), Ty::W(128), true));
                            }
                        }
                    }
                }
                // local fixed-size array with a literal index
                if let Expr::Path(p) = &*ix.expr {
                    let nme = path_str(&p.path);
                    if let Some(Ty::Arr(t, n)) = env.get(&nme).cloned() {
                        let k = lit_usize(&ix.index).ok_or("array index must be a literal")?;
                        if k >= n { bail!("array index out of range") }
                        return Ok(ex(format!("{}[{}]!", env.lean(&nme), k), *t, false));
                    }
                }
                // N-dimensional table of scalars: T[i][j]...[k]
                {
                    let mut idxs: Vec<&Expr> = Vec::new(); let mut cur: &Expr = e;
                    while let Expr::Index(x) = cur { idxs.push(&x.index); cur = &x.expr; }
                    idxs.reverse();
                    if let Expr::Path(p) = cur {
                        let t = path_str(&p.path);
                        if let Some(tb) = self.cx.tables.get(&t) {
                            if tb.dims.len() == idxs.len() && tb.dims.len() >= 2 && matches!(tb.elem, Ty::U64 | Ty::U32 | Ty::I32 | Ty::U8) {
                                let (dims, elem) = (tb.dims.clone(), tb.elem.clone());
                                let mut parts = Vec::new(); let mut m = false;
                                for i in idxs { let x = self.expr(i, env)?; m |= x.m; parts.push(format!("(UInt64.toNat {})", paren(&self.cast(&x, &Ty::U64)?))); }
                                let acc = match elem { Ty::U64 => "tbl64", Ty::U32 => "tbl32", Ty::U8 => "tbl8", _ => "tblI32" };
                                self.cx.used_tables.insert(t.clone());
                                let _ = m;
                                return Ok(ex(format!("(← {} Dec.Gen.{} (← flatIdx [{}] [{}]))", acc, t, dims.iter().map(|d| d.to_string()).collect::<Vec<_>>().join(", "), parts.join(", ")), elem, true));
                            }
                        }
                    }
                }
                bail!("index expression {}", quote::quote!(#e))
            }
            Expr::Field(f) => {
                let b = self.expr(&f.base, env)?;
                match (&f.member, &b.ty) {
                    (Member::Unnamed(i), Ty::Tuple(ts)) => {
                        let k = i.index as usize; let n = ts.len();
                        let mut s = paren(&b.s);
                        for _ in 0..k { s = format!("{}.2", s); }
                        if k + 1 < n { s = format!("{}.1", s); }
                        Ok(ex(s, ts[k].clone(), b.m))
                    }
                    (Member::Named(n), Ty::DecDigits) => { let (f, t) = match n.to_string().as_str() { "digits" => ("digits", Ty::U32), "digits1" => ("digits1", Ty::U32), "threshold_hi" => ("threshold_hi", Ty::U64), "threshold_lo" => ("threshold_lo", Ty::U64), o => bail!("DEC_DIGITS field {}", o) }; Ok(ex(format!("{}.{}", paren(&b.s), f), t, b.m)) }
                    (Member::Named(n), Ty::F64U) if n == "d" => Ok(ex(paren(&b.s), Ty::F64U, b.m)),
                    (Member::Named(n), Ty::F32U) if n == "d" => Ok(ex(paren(&b.s), Ty::F32U, b.m)),
                    (Member::Named(n), Ty::F64U) if n == "ui64" => Ok(ex(format!("{}.bits", paren(&b.s)), Ty::U64, b.m)),
                    (Member::Named(n), Ty::F32U) if n == "ui32" => Ok(ex(format!("{}.bits", paren(&b.s)), Ty::U32, b.m)),
                    _ => bail!("field access {}", quote::quote!(#e)),
                }
            }
            Expr::Binary(b) => {
                if let Some(v) = const_eval(e) { if v >= 0 { let txt = if v > 9 { format!("0x{:x}", v) } else { format!("{}", v) }; return Ok(Ex { s: txt, ty: Ty::Unknown, m: false, untyped_lit: true }); } }
                let l = self.expr(&b.left, env)?; let r = self.expr(&b.right, env)?;
                let m = l.m || r.m;
                // give an untyped literal the type of the other operand (no reliance on Lean's unification through parentheses)
                let (l, r) = {
                    let (mut l, mut r) = (l, r);
                    let shiftop = matches!(b.op, BinOp::Shl(_) | BinOp::Shr(_));
                    if !shiftop {
                        if l.untyped_lit && !r.untyped_lit && r.ty.is_int() { l = Ex { s: ann(&l.s, &r.ty), ty: r.ty.clone(), m: false, untyped_lit: false }; }
                        if r.untyped_lit && !l.untyped_lit && l.ty.is_int() { r = Ex { s: ann(&r.s, &l.ty), ty: l.ty.clone(), m: false, untyped_lit: false }; }
                    }
                    (l, r)
                };
                if matches!(l.ty, Ty::F64U | Ty::F32U) || matches!(r.ty, Ty::F64U | Ty::F32U) {
                    if l.ty != r.ty { bail!("mixed float operands {:?} {:?}", l.ty, r.ty) }
                    let f = match b.op { BinOp::Add(_) => "add", BinOp::Mul(_) => "mul", BinOp::Div(_) => "div", _ => bail!("float operator") };
                    return Ok(ex(format!("(← {}.{} {} {})", l.ty.lean(), f, paren(&l.s), paren(&r.s)), l.ty.clone(), true));
                }
                let int_ty = if !l.untyped_lit && l.ty != Ty::Unknown { l.ty.clone() } else { r.ty.clone() };
                let both_lit = l.untyped_lit && r.untyped_lit;
                let arith = |op: &str| -> R<Ex> { Ok(Ex { s: format!("({} {} {})", l.s, op, r.s), ty: int_ty.clone(), m, untyped_lit: both_lit }) };
                let cmp = |op: &str| -> R<Ex> { Ok(ex(format!("(decide ({} {} {}))", l.s, op, r.s), Ty::Bool, m)) };
                match b.op {
                    BinOp::Add(_) => arith("+"), BinOp::Sub(_) => arith("-"), BinOp::Mul(_) => arith("*"), BinOp::Div(_) => arith("/"), BinOp::Rem(_) => arith("%"),
                    BinOp::BitAnd(_) => if l.ty == Ty::Bool { Ok(ex(format!("({} && {})", l.s, r.s), Ty::Bool, m)) } else { arith("&&&") },
                    BinOp::BitOr(_) => if l.ty == Ty::Bool { Ok(ex(format!("({} || {})", l.s, r.s), Ty::Bool, m)) } else { arith("|||") },
                    BinOp::BitXor(_) => if l.ty == Ty::Bool { Ok(ex(format!("({} != {})", l.s, r.s), Ty::Bool, m)) } else { arith("^^^") },
                    BinOp::Shl(_) | BinOp::Shr(_) => {
                        let op = if matches!(b.op, BinOp::Shl(_)) { "<<<" } else { ">>>" };
                        if self.ext && l.untyped_lit && r.untyped_lit { return Ok(Ex { s: format!("({} {} ({} : ⟪T⟫))", l.s, op, r.s), ty: Ty::Unknown, m, untyped_lit: true }); }
                        if !l.ty.is_int() { bail!("shift of {:?}", l.ty) }
                        let amt = if r.untyped_lit { r.s.clone() } else { self.cast(&r, &l.ty)? };
                        Ok(ex(format!("({} {} {})", l.s, op, amt), l.ty.clone(), m))
                    }
                    BinOp::Lt(_) => cmp("<"), BinOp::Le(_) => cmp("≤"), BinOp::Gt(_) => cmp(">"), BinOp::Ge(_) => cmp("≥"),
                    BinOp::Eq(_) => Ok(ex(format!("({} == {})", l.s, r.s), Ty::Bool, m)),
                    BinOp::Ne(_) => Ok(ex(format!("({} != {})", l.s, r.s), Ty::Bool, m)),
                    BinOp::And(_) => if r.m { Ok(ex(format!("(← (if {} then (do pure {}) else pure false))", l.s, r.s), Ty::Bool, true)) } else { Ok(ex(format!("({} && {})", l.s, r.s), Ty::Bool, m)) },
                    BinOp::Or(_) => if r.m { Ok(ex(format!("(← (if {} then pure true else (do pure {})))", l.s, r.s), Ty::Bool, true)) } else { Ok(ex(format!("({} || {})", l.s, r.s), Ty::Bool, m)) },
                    _ => bail!("binary operator in expression {}", quote::quote!(#e)),
                }
            }
            Expr::Call(c) => {
                let f = match &*c.func { Expr::Path(p) => path_str(&p.path), _ => bail!("call target") };
                if f == "Default::default" || f.ends_with("::default") { return Ok(ex("default".into(), Ty::Unknown, false)); }
                if f == "BID_UINT128::new" || f == "d128::new" || (f == "Self::new" && self.ext) {
                    if !self.cx.new_is_lh { bail!("d128::new is not `Self {{ w: [l, h] }}`") }
                    let h = self.expr(&c.args[0], env)?; let l = self.expr(&c.args[1], env)?;
                    let hs = if h.untyped_lit { format!("({} : UInt64)", h.s) } else { h.s }; let ls = if l.untyped_lit { format!("({} : UInt64)", l.s) } else { l.s };
                    return Ok(ex(format!("(⟨{}, {}⟩ : U128)", ls, hs), Ty::W(128), h.m || l.m));
                }
                if f == "Some" {
                    let a = self.expr(&c.args[0], env)?;
                    if a.ty == Ty::W(128) { return Ok(ex(format!("(some {})", paren(&a.s)), Ty::Opt128, a.m)); }
                    if a.ty != Ty::Ord { bail!("Some of {:?}", a.ty) }
                    return Ok(ex(format!("(some {})", a.s), Ty::OptOrd, a.m));
                }
                if (f == "Ok" || f == "Err") && self.ext && self.ret == Ty::ResD128 {
                    let a = self.expr(&c.args[0], env)?;
                    if f == "Ok" { if a.ty != Ty::W(128) { bail!("Ok of {:?}", a.ty) } return Ok(ex(format!("(Except.ok {} : Except UInt32 U128)", paren(&a.s)), Ty::ResD128, a.m)); }
                    let a_s = self.cast(&a, &Ty::U32)?;
                    return Ok(ex(format!("(Except.error {} : Except UInt32 U128)", paren(&a_s)), Ty::ResD128, a.m));
                }
                if f == "RoundingMode::from" {
                    let a = self.expr(&c.args[0], env)?; let a_s = self.cast(&a, &Ty::U32)?;
                    return Ok(ex(format!("(← RoundingMode.fromU32 {})", paren(&a_s)), Ty::RMode, true));
                }
                if let Some(Ty::Func(ptys, ret)) = env.get(&f).cloned() {
                    if ptys.len() != c.args.len() { bail!("arity of {}", f) }
                    let mut args = Vec::new();
                    for (a, pt) in c.args.iter().zip(ptys.iter()) {
                        let x = self.expr(a, env)?;
                        args.push(if x.untyped_lit { ann(&x.s, &pt) } else { paren(&x.s) });
                    }
                    return Ok(ex(format!("(← {} {})", env.lean(&f), args.join(" ")), *ret, true));
                }
                let sig = match self.cx.sigs.get(&f) { Some(s) => s, None => bail!("call of {} (not whitelisted)", f) };
                if sig.params.iter().any(|p| p.2) {
                    let mut tmp_out = Out { lines: Vec::new() };
                    let (v, t) = self.call_stmt(c, env, "", &mut tmp_out)?;
                    self.pre.extend(tmp_out.lines);
                    return Ok(ex(v, t, false));
                }
                let ret = sig.ret.clone();
                let ptys: Vec<Ty> = sig.params.iter().map(|p| p.1.clone()).collect();
                if ptys.len() != c.args.len() { bail!("arity of {}", f) }
                let mut args = Vec::new();
                for (a, pt) in c.args.iter().zip(ptys.iter()) {
                    let x = self.expr(a, env)?;
                    args.push(if x.untyped_lit { ann(&x.s, &pt) } else { paren(&x.s) });
                }
                Ok(ex(format!("(← {} {})", self.callee_name(&f), args.join(" ")), ret, true))
            }
            Expr::MethodCall(mc) => {
                let m = mc.method.to_string();
                if m == "clone" && mc.args.is_empty() { return self.expr(&mc.receiver, env); }
                if m == "count" { return self.count_while(mc, env); }
                if (m == "is_some" || m == "is_none" || m == "unwrap") && mc.args.is_empty() {
                    let save = self.pre.len();
                    if let Ok(x) = self.expr(&mc.receiver, env) {
                        if x.ty == Ty::Opt128 {
                            return Ok(match m.as_str() {
                                "is_some" => ex(format!("{}.isSome", paren(&x.s)), Ty::Bool, x.m),
                                "is_none" => ex(format!("{}.isNone", paren(&x.s)), Ty::Bool, x.m),
                                _ => ex(format!("(← (match {} with | some v__ => pure v__ | none => throw \"unwrap of None\"))", x.s), Ty::W(128), true),
                            });
                        }
                    }
                    self.pre.truncate(save);
                }
                if self.ext && (m == "is_empty" || m == "unwrap_or") {
                    let save = self.pre.len();
                    if let Ok(x) = self.expr(&mc.receiver, env) {
                        if m == "is_empty" && mc.args.is_empty() && x.ty == Ty::Str { return Ok(ex(format!("{}.isEmpty", paren(&x.s)), Ty::Bool, x.m)); }
                        if m == "unwrap_or" && mc.args.len() == 1 && x.ty == Ty::OptRMode {
                            let d = self.expr(&mc.args[0], env)?;
                            if d.ty != Ty::RMode { bail!("unwrap_or default of {:?}", d.ty) }
                            return Ok(ex(format!("({}.getD {})", paren(&x.s), paren(&d.s)), Ty::RMode, x.m || d.m));
                        }
                    }
                    self.pre.truncate(save);
                }
                if m == "sqrt" && mc.args.is_empty() { let x = self.expr(&mc.receiver, env)?; if x.ty != Ty::F64U { bail!("sqrt of {:?}", x.ty) } return Ok(ex(format!("(← F64U.sqrt {})", paren(&x.s)), Ty::F64U, true)); }
                {
                    let save = self.pre.len();
                    if let Ok(recv) = self.expr(&mc.receiver, env) {
                        if recv.ty == Ty::W(128) {
                            let key = format!("d128::{}", m);
                            if let Some(sig) = self.cx.sigs.get(&key) {
                                if sig.params.iter().any(|p| p.2) { bail!("method {} with &mut arguments in expression position", key) }
                                let ret = sig.ret.clone();
                                let ptys: Vec<Ty> = sig.params.iter().skip(1).map(|p| p.1.clone()).collect();
                                if ptys.len() != mc.args.len() { bail!("arity of {}", key) }
                                let mut args = vec![paren(&recv.s)];
                                for (a, pt) in mc.args.iter().zip(ptys.iter()) { let x = self.expr(a, env)?; args.push(if x.untyped_lit { ann(&x.s, &pt) } else { paren(&x.s) }); }
                                return Ok(ex(format!("(← {} {})", fn_name(&key), args.join(" ")), ret, true));
                            }
                            bail!("method d128::{} (not whitelisted)", m)
                        }
                    }
                    self.pre.truncate(save);
                }
                if m == "contains" {
                    if let Expr::Paren(p) = &*mc.receiver { if let Expr::Range(rg) = &*p.expr {
                        let x = self.expr(&mc.args[0], env)?;
                        let lo = self.expr(rg.start.as_ref().ok_or("range start")?, env)?; let hi = self.expr(rg.end.as_ref().ok_or("range end")?, env)?;
                        let op = if matches!(rg.limits, RangeLimits::Closed(_)) { "≤" } else { "<" };
                        return Ok(ex(format!("(decide ({} ≤ {}) && decide ({} {} {}))", lo.s, x.s, x.s, op, hi.s), Ty::Bool, x.m || lo.m || hi.m));
                    } }
                }
                bail!("method call .{}()", m)
            }
            Expr::Tuple(t) => {
                let mut parts = Vec::new(); let mut tys = Vec::new(); let mut m = false;
                for e in t.elems.iter() { let x = self.expr(e, env)?; m |= x.m; tys.push(x.ty); parts.push(x.s); }
                Ok(ex(format!("({})", parts.join(", ")), Ty::Tuple(tys), m))
            }
            Expr::Struct(s) => {
                let name = path_str(&s.path);
                let (ty, _) = ty_of_type(&parse_str::<Type>(&name).map_err(|e| e.to_string())?);
                let n = match ty { Ty::W(n) => n / 64, _ => bail!("struct literal {}", name) };
                if s.fields.len() != 1 { bail!("struct literal fields") }
                let arr = match &s.fields[0].expr { Expr::Array(a) => a, _ => bail!("struct literal w") };
                if arr.elems.len() != n { bail!("struct literal word count") }
                let mut parts = Vec::new(); let mut m = false;
                for e in arr.elems.iter() { let x = self.expr(e, env)?; m |= x.m; parts.push(if x.untyped_lit { format!("({} : UInt64)", x.s) } else { x.s }); }
                Ok(ex(format!("(⟨{}⟩ : {})", parts.join(", "), ty.lean()), ty, m))
            }
            Expr::Repeat(rp) => {
                let v = self.expr(&rp.expr, env)?; let n = lit_usize(&rp.len).ok_or("array length")?;
                if !v.ty.is_int() || v.m { bail!("array element") }
                Ok(ex(format!("#[{}]", vec![v.s.clone(); n].join(", ")), Ty::Arr(Box::new(v.ty.clone()), n), false))
            }
            Expr::If(i) => {
                // value-producing if: both branches must be single expressions
                let c = self.expr(&i.cond, env)?;
                let t = self.block_value(&i.then_branch, env)?;
                let els = match &i.else_branch { Some((_, e)) => e, None => bail!("if-expression without else") };
                let f = match &**els { Expr::Block(b) => self.block_value(&b.block, env)?, other => self.expr(other, env)? };
                let ty = if t.ty != Ty::Unknown && !t.untyped_lit { t.ty.clone() } else { f.ty.clone() };
                if t.m || f.m {
                    Ok(ex(format!("(← (if {} then (do pure {}) else (do pure {})))", c.s, t.s, f.s), ty, true))
                } else {
                    let lit = self.ext && t.untyped_lit && f.untyped_lit;
                    if lit { Ok(Ex { s: format!("(if {} then ({} : ⟪T⟫) else ({} : ⟪T⟫))", c.s, t.s, f.s), ty: Ty::Unknown, m: c.m, untyped_lit: true }) }
                    else { Ok(Ex { s: format!("(if {} then {} else {})", c.s, t.s, f.s), ty, m: c.m, untyped_lit: false }) }
                }
            }
            Expr::Block(b) => self.block_value(&b.block, env),
            Expr::Macro(m) => {
                let n = path_str(&m.mac.path);
                if n == "panic" || n == "unreachable" { Ok(ex("(← throw \"panic\")".into(), Ty::Unknown, true)) }
                else if n == "matches" {
                    struct MA(Expr, Pat);
                    impl syn::parse::Parse for MA { fn parse(i: syn::parse::ParseStream) -> syn::Result<Self> { let e: Expr = i.parse()?; let _: Token![,] = i.parse()?; let p = Pat::parse_multi_with_leading_vert(i)?; Ok(MA(e, p)) } }
                    let ma: MA = syn::parse2(m.mac.tokens.clone()).map_err(|e| e.to_string())?;
                    let sc = self.expr(&ma.0, env)?;
                    let c = self.arm_cond(&ma.1, None, &sc, env)?.unwrap_or_else(|| "true".into());
                    Ok(ex(c, Ty::Bool, sc.m))
                } else { bail!("macro {}", n) }
            }
            _ => bail!("expression form {}", quote::quote!(#e)),
        }
    }

    /// `TABLE[lo..=hi].iter().enumerate().take_while(|&(_, v)| COND).count()`
    fn count_while(&mut self, mc: &ExprMethodCall, env: &Env) -> R<Ex> {
        let tw = match &*mc.receiver { Expr::MethodCall(m) if m.method == "take_while" => m, _ => bail!(".count() of something else") };
        let en = match &*tw.receiver { Expr::MethodCall(m) if m.method == "enumerate" => m, _ => bail!("take_while without enumerate") };
        let it = match &*en.receiver { Expr::MethodCall(m) if m.method == "iter" => m, _ => bail!("enumerate without iter") };
        let ix = match &*it.receiver { Expr::Index(ix) => ix, _ => bail!("iter of a non-slice") };
        let tname = match &*ix.expr { Expr::Path(p) => path_str(&p.path), _ => bail!("slice of a non-table") };
        let (elem, ndims) = match self.cx.tables.get(&tname) { Some(t) => (t.elem.clone(), t.dims.len()), None => bail!("slice of unknown table {}", tname) };
        if ndims != 1 { bail!("slice of a nested table") }
        let rg = match &*ix.index { Expr::Range(r) => r, _ => bail!("slice index") };
        if !matches!(rg.limits, RangeLimits::Closed(_)) { bail!("half-open slice") }
        let lo = lit_usize(rg.start.as_ref().ok_or("slice start")?).ok_or("slice start")?; let hi = lit_usize(rg.end.as_ref().ok_or("slice end")?).ok_or("slice end")?;
        let cl = match &tw.args[0] { Expr::Closure(c) => c, _ => bail!("take_while argument") };
        // pattern |&(_, v)|
        let var = { let t = { let p = &cl.inputs[0]; quote::quote!(#p).to_string().replace(' ', "") };
            let inner = t.trim_start_matches('&').trim_start_matches('(').trim_end_matches(')'); let parts: Vec<&str> = inner.split(',').collect();
            if parts.len() != 2 || parts[0] != "_" { bail!("take_while closure pattern {}", t) } parts[1].to_string() };
        let mut env2 = env.clone(); env2.insert(var.clone(), elem.clone());
        let body = self.expr(&cl.body, &env2)?;
        if body.m || body.ty != Ty::Bool { bail!("take_while closure body") }
        let acc = match elem { Ty::U64 => "countWhile64", Ty::W(128) => "countWhile128", Ty::W(256) => "countWhile256", _ => bail!("take_while element type") };
        self.cx.used_tables.insert(tname.clone());
        Ok(ex(format!("(← {} Dec.Gen.{} {} {} (fun {} => {}))", acc, tname, lo, hi, id(&var), body.s), Ty::U64, true))
    }

    fn block_value(&mut self, b: &Block, env: &Env) -> R<Ex> {
        if b.stmts.len() != 1 { bail!("block used as a value has {} statements", b.stmts.len()) }
        match &b.stmts[0] { Stmt::Expr(e, None) => self.expr(e, env), _ => bail!("block used as a value") }
    }

    /// assignment target -> Lean statement assigning `rhs` (a Lean term) to it
    fn assign_to(&mut self, lhs: &Expr, rhs: &str, env: &Env) -> R<String> {
        match lhs {
            Expr::Paren(p) => self.assign_to(&p.expr, rhs, env),
            Expr::Unary(u) if matches!(u.op, UnOp::Deref(_)) => self.assign_to(&u.expr, rhs, env),
            Expr::Path(p) => { let s = path_str(&p.path); if env.contains_key(&s) { Ok(format!("{} := {}", env.lean(&s), rhs)) } else { bail!("assignment to unknown {}", s) } }
            Expr::Index(ixa) if matches!(&*ixa.expr, Expr::Path(p) if matches!(env.get(&path_str(&p.path)), Some(Ty::Arr(_, _)))) => {
                let nme = if let Expr::Path(p) = &*ixa.expr { path_str(&p.path) } else { unreachable!() };
                let k = lit_usize(&ixa.index).ok_or("array index must be a literal")?;
                Ok(format!("{n} := {n}.set! {k} {rhs}", n = env.lean(&nme), k = k, rhs = paren(rhs)))
            }
            Expr::Index(_) => {
                if let Some((base, k)) = self.field_index(lhs) {
                    let name = match strip_deref(&base) { Expr::Path(p) => path_str(&p.path), _ => bail!("assignment to nested field") };
                    if !env.contains_key(&name) { bail!("assignment to field of unknown {}", name) }
                    Ok(format!("{n} := {{ {n} with w{k} := {rhs} }}", n = env.lean(&name), k = k, rhs = rhs))
                } else { bail!("assignment to indexed place {}", quote::quote!(#lhs)) }
            }
            _ => bail!("assignment target {}", quote::quote!(#lhs)),
        }
    }

    fn target_ty(&mut self, lhs: &Expr, env: &Env) -> Ty { self.expr(lhs, env).map(|x| x.ty).unwrap_or(Ty::Unknown) }

    fn ret_tuple(&self, val: Option<String>) -> String {
        let mut parts: Vec<String> = Vec::new();
        if let Some(v) = val { parts.push(v); }
        for o in &self.outs { parts.push(id(o)); }
        match parts.len() { 0 => "()".into(), 1 => parts[0].clone(), _ => format!("({})", parts.join(", ")) }
    }

    /// a call whose callee has &mut parameters (or any call at statement level): returns (setup lines, value term)
    fn call_stmt(&mut self, c: &ExprCall, env: &Env, ind: &str, out: &mut Out) -> R<(String, Ty)> {
        let f = match &*c.func { Expr::Path(p) => path_str(&p.path), _ => bail!("call target") };
        let (ptys, ret): (Vec<(Ty, bool)>, Ty) = match self.cx.sigs.get(&f) { Some(s) => (s.params.iter().map(|p| (p.1.clone(), p.2)).collect(), s.ret.clone()), None => bail!("call of {} (not whitelisted)", f) };
        if ptys.len() != c.args.len() { bail!("arity of {}", f) }
        let mut args = Vec::new(); let mut backs: Vec<Expr> = Vec::new();
        for (a, (pt, is_mut)) in c.args.iter().zip(ptys.iter()) {
            let x = self.expr(a, env)?;
            args.push(if x.untyped_lit { ann(&x.s, &pt) } else { paren(&x.s) });
            if *is_mut { backs.push(strip_ref(a).clone()); }
        }
        let t = self.fresh();
        out.lines.push(format!("{}let {} ← {} {}", ind, t, self.callee_name(&f), args.join(" ")));
        // result layout: (ret, outs...) or outs only
        let mut comps: Vec<String> = Vec::new();
        let total = (if ret != Ty::Unit { 1 } else { 0 }) + backs.len();
        for k in 0..total {
            let mut s = t.clone();
            for _ in 0..k { s = format!("{}.2", s); }
            if k + 1 < total { s = format!("{}.1", s); }
            comps.push(s);
        }
        let mut k = if ret != Ty::Unit { 1 } else { 0 };
        for b in backs { let st = self.assign_to(&b, &comps[k], env)?; out.lines.push(format!("{}{}", ind, st)); k += 1; }
        Ok((if ret != Ty::Unit { comps[0].clone() } else { "()".into() }, ret))
    }

    fn callee_has_mut(&self, e: &Expr) -> bool {
        if let Expr::Call(c) = e { if let Expr::Path(p) = &*c.func { if let Some(s) = self.cx.sigs.get(&path_str(&p.path)) { return s.params.iter().any(|p| p.2); } } }
        false
    }

    fn flush(&mut self, ind: &str, out: &mut Out) { for l in self.pre.drain(..) { out.lines.push(format!("{}{}", ind, l)); } }

    /// deliver the value `v` of a tail expression to where it goes
    fn deliver(&mut self, v: &Ex, tail: &Tail, env: &Env, ind: &str, out: &mut Out) -> R<()> {
        match tail {
            Tail::No => { self.flush(ind, out); Ok(()) }           // value of an expression statement is dropped
            Tail::Ret => {
                let vs = if v.untyped_lit { ann(&v.s, &self.ret) } else { v.s.clone() };
                let rt = self.ret_tuple(if self.ret == Ty::Unit { None } else { Some(vs) });
                self.flush(ind, out);
                out.lines.push(format!("{}return {}", ind, rt));
                Ok(())
            }
            Tail::Into(lhs) => {
                let tty = self.target_ty(lhs, env);
                let vs = if v.untyped_lit && tty != Ty::Unknown { ann(&v.s, &tty) } else { v.s.clone() };
                let st = self.assign_to(lhs, &vs, env)?;
                self.flush(ind, out);
                out.lines.push(format!("{}{}", ind, st));
                Ok(())
            }
        }
    }

    fn stmts(&mut self, b: &[Stmt], env: &mut Env, ind: &str, out: &mut Out, tail: &Tail) -> R<()> {
        let n = b.len();
        for (i, s) in b.iter().enumerate() {
            let last = i + 1 == n;
            // statements compiled only for big-endian targets do not exist in the build under test
            let attrs: &[Attribute] = match s {
                Stmt::Local(l) => &l.attrs,
                Stmt::Expr(e, _) => match e { Expr::Call(c) => &c.attrs, Expr::Assign(a) => &a.attrs, Expr::MethodCall(m) => &m.attrs, Expr::Return(r) => &r.attrs, Expr::If(i) => &i.attrs, Expr::Block(b) => &b.attrs, Expr::Binary(b) => &b.attrs, Expr::Macro(m) => &m.attrs, Expr::Unsafe(u) => &u.attrs, _ => &[] },
                Stmt::Macro(m) => &m.attrs,
                _ => &[],
            };
            if has_be_cfg(attrs) { continue; }
            // cargo features are off in the build under test: `cfg(feature = ..)` statements do not exist, `cfg(not(feature = ..))` do
            let mut skip = false;
            for a in attrs.iter() {
                let t = quote::quote!(#a).to_string().replace(' ', "");
                if !t.contains("cfg") || t.contains("target_endian") { continue; }
                if t.contains("cfg(feature=") { skip = true; }
                else if t.contains("cfg(not(feature=") { }
                else { bail!("statement under an unknown cfg {}", t) }
            }
            if skip { continue; }
            match s {
                Stmt::Local(l) => self.local(l, env, ind, out)?,
                Stmt::Expr(e, semi) => {
                    let t = if last && semi.is_none() { tail.clone() } else if last && matches!(tail, Tail::Ret) && is_control(e) { Tail::Ret } else { Tail::No };
                    if is_control(e) || matches!(e, Expr::Assign(_)) || matches!(e, Expr::Binary(b) if is_assign_op(&b.op)) || matches!(e, Expr::Macro(_)) {
                        self.stmt_expr(e, env, ind, out, &t)?;
                    } else if matches!(t, Tail::No) {
                        // expression statement: only calls make sense
                        self.stmt_expr(e, env, ind, out, &t)?;
                    } else {
                        let v = self.expr(e, env)?;
                        self.deliver(&v, &t, env, ind, out)?;
                    }
                }
                Stmt::Item(Item::Const(c)) if self.ext => {
                    // a local `const NAME: T = <literal expression>;`: an immutable `let`
                    let (t, _) = ty_of_type(&c.ty);
                    if t == Ty::Unknown { bail!("nested const of unknown type") }
                    let v = self.expr(&c.expr, env)?;
                    let vs = if v.untyped_lit { ann(&v.s, &t) } else { self.cast(&v, &t)? };
                    self.flush(ind, out);
                    out.lines.push(format!("{}let {} : {} := {}", ind, id(&c.ident.to_string()), t.lean(), vs));
                    env.insert(c.ident.to_string(), t);
                }
                Stmt::Item(_) => bail!("nested item"),
                Stmt::Macro(m) => {
                    let nme = path_str(&m.mac.path);
                    if nme == "panic" || nme == "unreachable" { out.lines.push(format!("{}throw \"panic\"", ind)); }
                    else if nme == "matches" && last && m.semi_token.is_none() {
                        let e = Expr::Macro(ExprMacro { attrs: vec![], mac: m.mac.clone() });
                        let v = self.expr(&e, env)?;
                        self.deliver(&v, tail, env, ind, out)?;
                    } else { bail!("macro {}", nme) }
                }
            }
        }
        Ok(())
    }

    fn local(&mut self, l: &Local, env: &mut Env, ind: &str, out: &mut Out) -> R<()> {
        let (pat, mut ty) = match &l.pat { Pat::Type(pt) => ((*pt.pat).clone(), ty_of_type(&pt.ty).0), p => (p.clone(), Ty::Unknown) };
        match pat {
            Pat::Ident(pi) => {
                let name = pi.ident.to_string();
                // `let x = if .. { stmts; v } else { .. }` / match: declare first, then assign in the branches
                if let Some(li) = &l.init {
                    if is_control(&li.expr) && !self.simple_value(&li.expr) {
                        if ty == Ty::Unknown { ty = self.guess_control_ty(&li.expr, env); }
                        if ty == Ty::Unknown { bail!("cannot type local {}", name) }
                        if env.contains_key(&name) { bail!("control-valued let shadows {}", name) }
                        out.lines.push(format!("{}let mut {} : {} := default", ind, id(&name), ty.lean()));
                        env.insert(name.clone(), ty);
                        let lhs: Expr = parse_str(&name).map_err(|e| e.to_string())?;
                        return self.stmt_expr(&li.expr, env, ind, out, &Tail::Into(lhs));
                    }
                }
                let mut init = match &l.init {
                    Some(li) => { let x = self.expr(&li.expr, env)?; if ty == Ty::Unknown && !x.untyped_lit { ty = x.ty.clone(); } if x.untyped_lit && ty != Ty::Unknown { ann(&x.s, &ty) } else { x.s } }
                    None => "default".into(),
                };
                if ty == Ty::Unknown && self.ext && self.ret.is_int() {
                    // `let x1 = if c { 16 } else { 0 }; … x1 + x2 + x3`: an untyped local that only feeds the returned sum
                    let tail_uses = match self.cx.fns.get(&self.name).and_then(|f| f.block.stmts.last().cloned()) {
                        Some(Stmt::Expr(te, None)) => quote::quote!(#te).to_string().split(|c: char| !(c.is_alphanumeric() || c == '_')).any(|w| w == name),
                        _ => false };
                    if tail_uses { ty = self.ret.clone(); init = ann(&init, &ty); }
                }
                if ty == Ty::Unknown { bail!("cannot type local {}", name) }
                self.flush(ind, out);
                if let Some(prev) = env.get(&name) {
                    // Rust shadowing (`let mut C: T = C;`): Lean's `let mut` variables cannot be shadowed, and need not be
                    if *prev != ty {
                        // shadowing with another type: a fresh Lean variable for the rest of this scope
                        self.tmp += 1;
                        let lean = format!("{}_{}", name, self.tmp);
                        out.lines.push(format!("{}let mut {} : {} := {}", ind, lean, ty.lean(), init));
                        env.insert_renamed(name, ty, lean);
                        return Ok(());
                    }
                    out.lines.push(format!("{}{} := {}", ind, env.lean(&name), init));
                    return Ok(());
                }
                out.lines.push(format!("{}let mut {} : {} := {}", ind, id(&name), ty.lean(), init));
                env.insert(name, ty);
                Ok(())
            }
            Pat::Tuple(pt) => {
                let li = l.init.as_ref().ok_or("tuple let without init")?;
                let x = self.expr(&li.expr, env)?;
                let tys = match x.ty { Ty::Tuple(ts) => ts, _ => bail!("tuple let of non-tuple") };
                let tmp = self.fresh();
                self.flush(ind, out);
                out.lines.push(format!("{}let {} := {}", ind, tmp, x.s));
                let nn = pt.elems.len();
                for (k, p) in pt.elems.iter().enumerate() {
                    let name = match p { Pat::Ident(pi) => pi.ident.to_string(), Pat::Wild(_) => continue, _ => bail!("tuple let pattern") };
                    let mut s = tmp.clone(); for _ in 0..k { s = format!("{}.2", s); } if k + 1 < nn { s = format!("{}.1", s); }
                    if env.contains_key(&name) { out.lines.push(format!("{}{} := {}", ind, env.lean(&name), s)); }
                    else { out.lines.push(format!("{}let mut {} : {} := {}", ind, id(&name), tys[k].lean(), s)); env.insert(name, tys[k].clone()); }
                }
                Ok(())
            }
            _ => bail!("let pattern"),
        }
    }

    /// an if / block whose branches are single expressions (can stay an expression)
    fn simple_value(&self, e: &Expr) -> bool {
        match e {
            Expr::If(i) => i.then_branch.stmts.len() == 1 && matches!(i.then_branch.stmts[0], Stmt::Expr(ref x, None) if !is_control(x))
                && match &i.else_branch { Some((_, el)) => match &**el { Expr::Block(b) => b.block.stmts.len() == 1 && matches!(b.block.stmts[0], Stmt::Expr(ref x, None) if !is_control(x)), Expr::If(_) => self.simple_value(el), _ => false }, None => false },
            _ => false,
        }
    }

    /// type of the value of an if / match / block, from the first branch tail that can be typed
    fn guess_control_ty(&mut self, e: &Expr, env: &Env) -> Ty {
        fn tails<'x>(e: &'x Expr, out: &mut Vec<&'x Expr>) {
            match e {
                Expr::If(i) => { if let Some(Stmt::Expr(x, None)) = i.then_branch.stmts.last() { tails(x, out); } if let Some((_, el)) = &i.else_branch { tails(el, out); } }
                Expr::Block(b) => { if let Some(Stmt::Expr(x, None)) = b.block.stmts.last() { tails(x, out); } }
                Expr::Match(m) => { for a in m.arms.iter() { tails(&a.body, out); } }
                other => out.push(other),
            }
        }
        let mut ts = Vec::new(); tails(e, &mut ts);
        for t in ts { let save = self.pre.len(); if let Ok(x) = self.expr(t, env) { self.pre.truncate(save); if !x.untyped_lit && x.ty != Ty::Unknown { return x.ty; } } else { self.pre.truncate(save); } }
        Ty::Unknown
    }

    fn cond(&mut self, e: &Expr, env: &Env) -> R<String> { let c = self.expr(e, env)?; if c.ty != Ty::Bool { bail!("condition of type {:?}", c.ty) } Ok(c.s) }

    fn stmt_expr(&mut self, e: &Expr, env: &mut Env, ind: &str, out: &mut Out, tail: &Tail) -> R<()> {
        let ind2 = format!("{}  ", ind);
        match e {
            Expr::Assign(a) => {
                // union store: `t.d = x as f64`
                if let Expr::Field(f) = &*a.left {
                    if let Member::Named(n) = &f.member {
                        let base = self.expr(&f.base, env)?;
                        if (base.ty == Ty::F64U && n == "ui64") || (base.ty == Ty::F32U && n == "ui32") {
                            let want = if base.ty == Ty::F64U { Ty::U64 } else { Ty::U32 };
                            let x = self.expr(&a.right, env)?;
                            let v = if x.untyped_lit { ann(&x.s, &want) } else { if x.ty != want { bail!("union store of {:?}", x.ty) } x.s };
                            let st = self.assign_to(&f.base, &format!("(⟨{}⟩ : {})", v, base.ty.lean()), env)?;
                            self.flush(ind, out);
                            out.lines.push(format!("{}{}", ind, st));
                            return Ok(());
                        }
                        if (base.ty == Ty::F64U && n == "d") || (base.ty == Ty::F32U && n == "d") {
                            {
                                let save = self.pre.len();
                                if let Ok(v) = self.expr(&a.right, env) {
                                    if v.ty == base.ty {
                                        let st = self.assign_to(&f.base, &v.s, env)?;
                                        self.flush(ind, out);
                                        out.lines.push(format!("{}{}", ind, st));
                                        return Ok(());
                                    }
                                }
                                self.pre.truncate(save);
                            }
                            let src = match &*a.right { Expr::Cast(c) => self.expr(&c.expr, env)?, Expr::Paren(p) => match &*p.expr { Expr::Cast(c) => self.expr(&c.expr, env)?, _ => bail!("float store of a non-cast") }, _ => bail!("float store of a non-cast") };
                            if !matches!(src.ty, Ty::U64 | Ty::U32 | Ty::U8) { bail!("float conversion from {:?}", src.ty) }
                            let v = format!("(UInt64.ofInt (toI {}))", paren(&src.s));
                            let conv = if base.ty == Ty::F64U { format!("(F64U.ofU64 {})", v) } else { format!("(F32U.ofU64 {})", v) };
                            let st = self.assign_to(&f.base, &conv, env)?;
                            self.flush(ind, out);
                            out.lines.push(format!("{}{}", ind, st));
                            return Ok(());
                        }
                    }
                }
                // tuple destructuring assignment
                if let Expr::Tuple(t) = &*a.left {
                    let x = self.expr(&a.right, env)?;
                    if !matches!(x.ty, Ty::Tuple(_)) { bail!("tuple assignment of non-tuple") }
                    let tmp = self.fresh();
                    self.flush(ind, out);
                    out.lines.push(format!("{}let {} := {}", ind, tmp, x.s));
                    let nn = t.elems.len();
                    for (k, p) in t.elems.iter().enumerate() {
                        if matches!(p, Expr::Infer(_)) { continue; }
                        let mut s = tmp.clone(); for _ in 0..k { s = format!("{}.2", s); } if k + 1 < nn { s = format!("{}.1", s); }
                        let st = self.assign_to(p, &s, env)?; out.lines.push(format!("{}{}", ind, st));
                    }
                    return Ok(());
                }
                if is_control(&a.right) && !self.simple_value(&a.right) {
                    return self.stmt_expr(&a.right, env, ind, out, &Tail::Into((*a.left).clone()));
                }
                let x = self.expr(&a.right, env)?;
                self.deliver(&x, &Tail::Into((*a.left).clone()), env, ind, out)
            }
            Expr::Binary(b) if is_assign_op(&b.op) => {
                let l = self.expr(&b.left, env)?; let r = self.expr(&b.right, env)?;
                if matches!(l.ty, Ty::F64U | Ty::F32U) {
                    if l.ty != r.ty { bail!("mixed float operands") }
                    let f = match b.op { BinOp::AddAssign(_) => "add", BinOp::MulAssign(_) => "mul", BinOp::DivAssign(_) => "div", _ => bail!("float compound operator") };
                    let st = self.assign_to(&b.left, &format!("(← {}.{} {} {})", l.ty.lean(), f, paren(&l.s), paren(&r.s)), env)?;
                    self.flush(ind, out);
                    out.lines.push(format!("{}{}", ind, st));
                    return Ok(());
                }
                let v = match b.op {
                    BinOp::AddAssign(_) => format!("({} + {})", l.s, r.s), BinOp::SubAssign(_) => format!("({} - {})", l.s, r.s),
                    BinOp::MulAssign(_) => format!("({} * {})", l.s, r.s), BinOp::DivAssign(_) => format!("({} / {})", l.s, if r.untyped_lit { ann(&r.s, &l.ty) } else { r.s.clone() }),
                    BinOp::RemAssign(_) => format!("({} % {})", l.s, if r.untyped_lit { ann(&r.s, &l.ty) } else { r.s.clone() }), BinOp::BitAndAssign(_) => if l.ty == Ty::Bool { format!("({} && {})", l.s, r.s) } else { format!("({} &&& {})", l.s, r.s) },
                    BinOp::BitOrAssign(_) => if l.ty == Ty::Bool { format!("({} || {})", l.s, r.s) } else { format!("({} ||| {})", l.s, r.s) },
                    BinOp::BitXorAssign(_) => if l.ty == Ty::Bool { format!("({} != {})", l.s, r.s) } else { format!("({} ^^^ {})", l.s, r.s) },
                    BinOp::ShlAssign(_) | BinOp::ShrAssign(_) => { let op = if matches!(b.op, BinOp::ShlAssign(_)) { "<<<" } else { ">>>" }; let amt = if r.untyped_lit { r.s.clone() } else { self.cast(&r, &l.ty)? }; format!("({} {} {})", l.s, op, amt) }
                    _ => bail!("compound assignment operator"),
                };
                let st = self.assign_to(&b.left, &v, env)?;
                self.flush(ind, out);
                out.lines.push(format!("{}{}", ind, st));
                Ok(())
            }
            Expr::If(i) => {
                let c = self.cond(&i.cond, env)?;
                self.flush(ind, out);
                out.lines.push(format!("{}if {} then", ind, c));
                let mut env_t = env.clone();
                let before = out.lines.len();
                self.stmts(&i.then_branch.stmts, &mut env_t, &ind2, out, tail)?;
                if out.lines.len() == before { out.lines.push(format!("{}pure ()", ind2)); }
                if let Some((_, els)) = &i.else_branch {
                    match &**els {
                        Expr::If(_) => { out.lines.push(format!("{}else", ind)); let mut env_e = env.clone(); self.stmt_expr(els, &mut env_e, &ind2, out, tail)?; }
                        Expr::Block(bl) => { out.lines.push(format!("{}else", ind)); let mut env_e = env.clone(); let before = out.lines.len(); self.stmts(&bl.block.stmts, &mut env_e, &ind2, out, tail)?; if out.lines.len() == before { out.lines.push(format!("{}pure ()", ind2)); } }
                        _ => bail!("else form"),
                    }
                } else if !matches!(tail, Tail::No | Tail::Ret) { bail!("value-producing if without else") }
                Ok(())
            }
            Expr::Match(m) => self.match_stmt(m, env, ind, out, tail),
            Expr::While(w) => {
                let c = self.cond(&w.cond, env)?;
                if !self.pre.is_empty() { bail!("call with &mut arguments in a loop condition") }
                out.lines.push(format!("{}for _ in [0:4096] do", ind));
                out.lines.push(format!("{}if !{} then break", ind2, paren(&c)));
                let wlabel = w.label.as_ref().map(|x| x.name.ident.to_string());
                let mut env_b = env.clone();
                self.loops.push((None, wlabel, Tail::No));
                let r = self.stmts(&w.body.stmts, &mut env_b, &ind2, out, &Tail::No);
                self.loops.pop();
                r?;
                let c2 = self.cond(&w.cond, env)?;
                out.lines.push(format!("{}if {} then throw \"loop fuel exhausted\"", ind, c2));
                Ok(())
            }
            Expr::Unsafe(u) => { let mut env_b = env.clone(); self.stmts(&u.block.stmts, &mut env_b, ind, out, tail) }
            Expr::Loop(l) => {
                let label = l.label.as_ref().map(|x| x.name.ident.to_string());
                let marker = format!("brk__{}", { self.tmp += 1; self.tmp });
                out.lines.push(format!("{}let mut {} : Bool := false", ind, marker));
                out.lines.push(format!("{}for _ in [0:4096] do", ind));
                self.loops.push((Some(marker.clone()), label, tail.clone()));
                let mut env_b = env.clone();
                let r = self.stmts(&l.body.stmts, &mut env_b, &ind2, out, &Tail::No);
                self.loops.pop();
                r?;
                out.lines.push(format!("{}if !{} then throw \"loop fuel exhausted\"", ind, marker));
                Ok(())
            }
            Expr::Break(b) => {
                // a label is fine as long as it names the innermost loop
                if let Some(lb) = &b.label { match self.loops.last() { Some((_, Some(l), _)) if *l == lb.ident.to_string() => {}, _ => bail!("break to an outer loop") } }
                let (marker, ltail) = match self.loops.last() { Some((m, _, t)) => (m.clone(), t.clone()), None => bail!("break outside a loop") };
                if let Some(v) = &b.expr {
                    // `break 'l value`: the loop is an expression; its value goes where the loop's value goes
                    if matches!(ltail, Tail::No) { bail!("break with a value out of a loop whose value is not used") }
                    let x = self.expr(v, env)?;
                    self.deliver(&x, &ltail, env, ind, out)?;
                    if matches!(ltail, Tail::Ret) { return Ok(()); }
                }
                if let Some(m) = marker { out.lines.push(format!("{}{} := true", ind, m)); }
                out.lines.push(format!("{}break", ind));
                Ok(())
            }
            Expr::Continue(c) => {
                if let Some(lb) = &c.label { match self.loops.last() { Some((_, Some(l), _)) if *l == lb.ident.to_string() => {}, _ => bail!("continue of an outer loop") } }
                out.lines.push(format!("{}continue", ind)); Ok(())
            }
            Expr::Return(r) => {
                match &r.expr {
                    Some(x) => { if is_control(x) && !self.simple_value(x) { return self.stmt_expr(x, env, ind, out, &Tail::Ret); } let v = self.expr(x, env)?; self.deliver(&v, &Tail::Ret, env, ind, out) }
                    None => { self.flush(ind, out); out.lines.push(format!("{}return {}", ind, self.ret_tuple(None))); Ok(()) }
                }
            }
            Expr::Block(b) => { let mut env_b = env.clone(); self.stmts(&b.block.stmts, &mut env_b, ind, out, tail) }
            Expr::MethodCall(mc) if matches!(tail, Tail::No) && self.expr(&mc.receiver, env).map(|r| r.ty == Ty::Hasher).unwrap_or(false) => {
                let m = mc.method.to_string();
                let a = self.expr(&mc.args[0], env)?;
                let a = if a.untyped_lit { let t = match m.as_str() { "write_u8" => Ty::U8, "write_u32" => Ty::U32, "write_i32" => Ty::I32, "write_u64" => Ty::U64, "write_u128" => Ty::N, _ => Ty::Unknown }; Ex { s: ann(&a.s, &t), ty: t, m: false, untyped_lit: false } } else { a };
                let bytes = match (m.as_str(), &a.ty) {
                    ("write_u8", Ty::U8) => format!("[{}]", a.s),
                    ("write_u32", Ty::U32) => format!("(leBytes {}.toNat 4)", paren(&a.s)),
                    ("write_i32", Ty::I32) => format!("(leBytes (UInt32.ofInt (toI {})).toNat 4)", paren(&a.s)),
                    ("write_u64", Ty::U64) => format!("(leBytes {}.toNat 8)", paren(&a.s)),
                    ("write_u128", Ty::N) => format!("(leBytes {} 16)", paren(&a.s)),
                    _ => bail!("hasher method {} on {:?}", m, a.ty),
                };
                let rs = self.expr(&mc.receiver, env)?.s;
                let st = self.assign_to(&mc.receiver, &format!("({} ++ {})", rs, bytes), env)?;
                self.flush(ind, out);
                out.lines.push(format!("{}{}", ind, st));
                Ok(())
            }
            Expr::MethodCall(mc) if matches!(tail, Tail::No) && self.ext && mc.method == "push" && self.expr(&mc.receiver, env).map(|r| r.ty == Ty::VecU32).unwrap_or(false) => {
                // `vec.push(x)` on a `Vec<BID_UINT32>` (a `List UInt32`): append
                let a = self.expr(&mc.args[0], env)?;
                let a_s = self.cast(&a, &Ty::U32)?;
                let rs = self.expr(&mc.receiver, env)?.s;
                let st = self.assign_to(&mc.receiver, &format!("({} ++ [{}])", rs, a_s), env)?;
                self.flush(ind, out);
                out.lines.push(format!("{}{}", ind, st));
                Ok(())
            }
            Expr::Call(c) => {
                if self.callee_has_mut(e) || matches!(tail, Tail::No) {
                    let (v, t) = self.call_stmt(c, env, ind, out)?;
                    if !matches!(tail, Tail::No) { self.deliver(&ex(v, t, false), tail, env, ind, out)?; }
                    Ok(())
                } else { let v = self.expr(e, env)?; self.deliver(&v, tail, env, ind, out) }
            }
            Expr::Paren(p) => self.stmt_expr(&p.expr, env, ind, out, tail),
            Expr::Macro(m) => {
                let n = path_str(&m.mac.path);
                if n == "panic" || n == "unreachable" { out.lines.push(format!("{}throw \"panic\"", ind)); Ok(()) }
                else if n == "matches" && !matches!(tail, Tail::No) { let v = self.expr(e, env)?; self.deliver(&v, tail, env, ind, out) }
                else { bail!("macro {}", n) }
            }
            _ => { if matches!(tail, Tail::No) { bail!("statement form {}", quote::quote!(#e)) } let v = self.expr(e, env)?; self.deliver(&v, tail, env, ind, out) }
        }
    }

    /// condition under which a match arm is taken (None = always)
    fn arm_cond(&mut self, pat: &Pat, guard: Option<&Expr>, sc: &Ex, env: &Env) -> R<Option<String>> {
        let base: Option<String> = match pat {
            Pat::Wild(_) => None,
            Pat::Ident(pi) => {
                // binding: the guard refers to the bound name; substitute by extending env
                let name = pi.ident.to_string();
                if let Some(g) = guard { let mut env2 = env.clone(); env2.insert(name.clone(), sc.ty.clone());
                    let gs = self.cond(g, &env2)?;
                    return Ok(Some(format!("(let {} := {}; {})", id(&name), sc.s, gs))); }
                None
            }
            Pat::Or(po) => { let mut parts = Vec::new(); for c in po.cases.iter() { match self.arm_cond(c, None, sc, env)? { Some(s) => parts.push(s), None => return Ok(None) } } Some(format!("({})", parts.join(" || "))) }
            Pat::TupleStruct(ts) if path_str(&ts.path) == "Some" && sc.ty == Ty::OptOrd && ts.elems.len() == 1 => {
                let inner_sc = ex("o__".into(), Ty::Ord, false);
                let ic = self.arm_cond(&ts.elems[0], None, &inner_sc, env)?.unwrap_or_else(|| "true".into());
                Some(format!("(match {} with | some o__ => {} | none => false)", sc.s, ic))
            }
            Pat::Path(pp) if path_str(&pp.path) == "None" && sc.ty == Ty::OptOrd => Some(format!("({}).isNone", sc.s)),
            Pat::Path(pp) => { let v = self.expr(&Expr::Path(ExprPath { attrs: vec![], qself: None, path: pp.path.clone() }), env)?; Some(format!("({} == {})", sc.s, v.s)) }
            Pat::Lit(pl) => { let v = self.expr(&Expr::Lit(ExprLit { attrs: vec![], lit: pl.lit.clone() }), env)?; Some(format!("({} == {})", sc.s, v.s)) }
            Pat::Range(pr) => {
                let lo = self.expr(pr.start.as_ref().ok_or("range pattern")?, env)?; let hi = self.expr(pr.end.as_ref().ok_or("range pattern")?, env)?;
                let op = if matches!(pr.limits, RangeLimits::Closed(_)) { "≤" } else { "<" };
                Some(format!("(decide ({} ≤ {}) && decide ({} {} {}))", lo.s, sc.s, sc.s, op, hi.s))
            }
            _ => bail!("match pattern {}", quote::quote!(#pat)),
        };
        match (base, guard) {
            (b, None) => Ok(b),
            (None, Some(g)) => Ok(Some(self.cond(g, env)?)),
            (Some(b), Some(g)) => { let gs = self.cond(g, env)?; Ok(Some(format!("({} && {})", b, gs))) }
        }
    }

    fn match_stmt(&mut self, m: &ExprMatch, env: &mut Env, ind: &str, out: &mut Out, tail: &Tail) -> R<()> {
        let sc0 = self.expr(&m.expr, env)?;
        // evaluate the scrutinee once
        let t = self.fresh();
        let sty = if sc0.ty == Ty::Unknown { bail!("match scrutinee type") } else { sc0.ty.clone() };
        self.flush(ind, out);
        out.lines.push(format!("{}let {} : {} := {}", ind, t, sty.lean(), sc0.s));
        let sc = ex(t, sty, false);
        let mut cur_ind = ind.to_string();
        let n = m.arms.len();
        for (k, arm) in m.arms.iter().enumerate() {
            let c = self.arm_cond(&arm.pat, arm.guard.as_ref().map(|g| &*g.1), &sc, env)?;
            if !self.pre.is_empty() { bail!("call with &mut arguments in a match guard") }
            let body_ind = format!("{}  ", cur_ind);
            let mut env_a = env.clone();
            let bound = if let Pat::Ident(pi) = &arm.pat {
                let nme = pi.ident.to_string();
                if env_a.contains_key(&nme) { self.tmp += 1; let lean = format!("{}_{}", nme, self.tmp); env_a.insert_renamed(nme.clone(), sc.ty.clone(), lean.clone()); Some(lean) }
                else { env_a.insert(nme.clone(), sc.ty.clone()); Some(id(&nme)) }
            } else { None };
            let emit_body = |this: &mut Self, out: &mut Out, env_a: &mut Env, bi: &str| -> R<()> {
                if let Some(nme) = &bound { out.lines.push(format!("{}let mut {} : {} := {}", bi, nme, sc.ty.lean(), sc.s)); }
                let before = out.lines.len();
                match &*arm.body { Expr::Block(b) => this.stmts(&b.block.stmts, env_a, bi, out, tail)?, other => this.stmt_expr(other, env_a, bi, out, tail)? }
                if out.lines.len() == before { out.lines.push(format!("{}pure ()", bi)); }
                Ok(())
            };
            match c {
                Some(c) if k + 1 < n => {
                    out.lines.push(format!("{}if {} then", cur_ind, c));
                    emit_body(self, out, &mut env_a, &body_ind)?;
                    out.lines.push(format!("{}else", cur_ind));
                    cur_ind = body_ind;
                }
                Some(c) => {
                    // last arm with a condition: not exhaustive for us -> panic otherwise
                    out.lines.push(format!("{}if {} then", cur_ind, c));
                    emit_body(self, out, &mut env_a, &body_ind)?;
                    out.lines.push(format!("{}else", cur_ind));
                    out.lines.push(format!("{}throw \"non-exhaustive match\"", body_ind));
                }
                None => { emit_body(self, out, &mut env_a, &cur_ind)?; break; }
            }
        }
        Ok(())
    }
}

fn is_assign_op(op: &BinOp) -> bool {
    matches!(op, BinOp::AddAssign(_) | BinOp::SubAssign(_) | BinOp::MulAssign(_) | BinOp::DivAssign(_) | BinOp::RemAssign(_) | BinOp::BitXorAssign(_)
        | BinOp::BitAndAssign(_) | BinOp::BitOrAssign(_) | BinOp::ShlAssign(_) | BinOp::ShrAssign(_))
}
fn is_control(e: &Expr) -> bool { matches!(e, Expr::If(_) | Expr::Match(_) | Expr::While(_) | Expr::Loop(_) | Expr::Break(_) | Expr::Continue(_) | Expr::Unsafe(_) | Expr::Block(_) | Expr::Return(_)) }
fn strip_ref(e: &Expr) -> &Expr { match e { Expr::Reference(r) => strip_ref(&r.expr), Expr::Paren(p) => strip_ref(&p.expr), Expr::Unary(u) if matches!(u.op, UnOp::Deref(_)) => strip_ref(&u.expr), _ => e } }
fn strip_deref(e: &Expr) -> &Expr { strip_ref(e) }
fn paren(s: &str) -> String {
    let simple = s.chars().all(|c| c.is_alphanumeric() || c == '_' || c == '.' || c == '«' || c == '»');
    if simple || (s.starts_with('(') && matching_close(s) == s.len() - 1) { s.to_string() } else { format!("({})", s) }
}
fn matching_close(s: &str) -> usize {
    let mut depth = 0i32;
    for (i, c) in s.char_indices() { if c == '(' { depth += 1; } else if c == ')' { depth -= 1; if depth == 0 { return i; } } }
    usize::MAX
}

fn collect_calls(b: &Block, out: &mut Vec<String>) {
    struct V<'a>(&'a mut Vec<String>);
    impl<'ast, 'a> syn::visit::Visit<'ast> for V<'a> {
        fn visit_expr_call(&mut self, c: &'ast ExprCall) { if let Expr::Path(p) = &*c.func { self.0.push(path_str(&p.path)); } syn::visit::visit_expr_call(self, c); }
    }
    syn::visit::Visit::visit_block(&mut V(out), b);
}

fn main() {
    let args: Vec<String> = std::env::args().collect();
    let (srcdir, wl, outp) = (&args[1], &args[2], &args[3]);
    let read_wl = |p: &String| -> Vec<String> { std::fs::read_to_string(p).unwrap().lines().map(|l| l.split('#').next().unwrap().trim().to_string()).filter(|l| !l.is_empty()).collect() };
    let first: Vec<String> = read_wl(wl);
    // optional second whitelist: its routines go to a second module that imports the first (which stays byte-identical)
    let second_all: Vec<String> = if args.len() >= 6 { read_wl(&args[4]) } else { vec![] };
    // `extern NAME` lines: NAME is not translated; the second module takes it as a section variable (a function parameter of
    // every definition that calls it, directly or through another definition of the module)
    let externs: Vec<String> = second_all.iter().filter_map(|l| l.strip_prefix("extern ").map(|x| x.trim().to_string())).collect();
    let second: Vec<String> = second_all.iter().filter(|l| !l.starts_with("extern ")).cloned().collect();
    let ext_set: HashSet<String> = second.iter().cloned().collect();
    let mut whitelist: Vec<String> = first.clone(); whitelist.extend(second.iter().cloned());
    let mut cx = Ctx { fns: HashMap::new(), sigs: HashMap::new(), consts: HashMap::new(), tables: HashMap::new(), used_consts: vec![], used_tables: HashSet::new(), errors: vec![], new_is_lh: false, ext_needs: HashMap::new() };
    let mut files: Vec<_> = std::fs::read_dir(srcdir).unwrap().map(|e| e.unwrap().path()).filter(|p| p.extension().map(|e| e == "rs").unwrap_or(false)).collect();
    files.sort();
    let mut fn_src: HashMap<String, String> = HashMap::new();
    let mut ambiguous: HashSet<String> = HashSet::new();
    for p in files {
        let name = p.file_name().unwrap().to_string_lossy().to_string();
        if ["verif_hooks.rs", "sqlx_postgres.rs", "serde.rs", "lib.rs"].contains(&name.as_str()) { continue; }
        let src = std::fs::read_to_string(&p).unwrap();
        let file = match syn::parse_file(&src) { Ok(f) => f, Err(e) => { eprintln!("translate: cannot parse {}: {}", name, e); std::process::exit(2); } };
        for it in file.items {
            match it {
                Item::Fn(f) => { let n = f.sig.ident.to_string(); fn_src.insert(n.clone(), name.clone()); cx.fns.insert(n, f); }
                Item::Const(c) => {
                    if has_be_cfg(&c.attrs) { continue; }
                    let n = c.ident.to_string();
                    register_const_or_table(&mut cx, n, &c.ty, Some(*c.expr));
                }
                Item::Static(s) => { let n = s.ident.to_string(); register_const_or_table(&mut cx, n, &s.ty, Some(*s.expr)); }
                Item::Impl(im) => {
                    let tyname = match &*im.self_ty { Type::Path(p) => path_str(&p.path), _ => continue };
                    if im.trait_.is_some() && tyname != "d128" { continue; }
                    for ii in im.items.iter() {
                        if let ImplItem::Fn(f) = ii {
                            if tyname == "d128" && f.sig.ident == "new" {
                                // `new(h, l)` must end in `Self { w: [l, h] }` (little-endian word order)
                                if let Some(Stmt::Expr(e, None)) = f.block.stmts.last() {
                                    let t = quote::quote!(#e).to_string().replace(' ', "");
                                    let ps: Vec<String> = f.sig.inputs.iter().filter_map(|a| if let FnArg::Typed(pt) = a { if let Pat::Ident(pi) = &*pt.pat { Some(pi.ident.to_string()) } else { None } } else { None }).collect();
                                    if ps.len() == 2 && t == format!("Self{{w:[{},{}]}}", ps[1], ps[0]) { cx.new_is_lh = true; }
                                }
                            }
                        }
                    }
                    if tyname == "d128" {
                        for ii in im.items.iter() {
                            if let ImplItem::Fn(f) = ii {
                                let key = format!("d128::{}", f.sig.ident);
                                if cx.fns.contains_key(&key) { ambiguous.insert(key.clone()); }
                                fn_src.insert(key.clone(), name.clone());
                                cx.fns.insert(key, ItemFn { attrs: f.attrs.clone(), vis: Visibility::Inherited, sig: f.sig.clone(), block: Box::new(f.block.clone()) });
                                // trait impls also get a trait-qualified key (`d128::Add::add`, `d128::From_i32::from`, `d128::SumRef::sum`):
                                // several impls define a method of the same name, and the third whitelist names them this way
                                if let Some((_, tp, _)) = &im.trait_ {
                                    let seg = tp.segments.last().unwrap();
                                    let mut tn = seg.ident.to_string();
                                    if let PathArguments::AngleBracketed(a) = &seg.arguments {
                                        if let Some(GenericArgument::Type(t)) = a.args.first() {
                                            match t {
                                                Type::Reference(r) => { if let Type::Path(pp) = &*r.elem { let e = path_str(&pp.path); if e == "str" { tn.push_str("_str"); } else { tn.push_str("Ref"); } } }
                                                Type::Path(pp) => { tn.push('_'); tn.push_str(&path_str(&pp.path)); }
                                                _ => {}
                                            }
                                        }
                                    }
                                    let tkey = format!("d128::{}::{}", tn, f.sig.ident);
                                    fn_src.insert(tkey.clone(), name.clone());
                                    cx.fns.insert(tkey, ItemFn { attrs: f.attrs.clone(), vis: Visibility::Inherited, sig: f.sig.clone(), block: Box::new(f.block.clone()) });
                                }
                            }
                        }
                    }
                    for ii in im.items { if let ImplItem::Const(c) = ii { let n = format!("{}::{}", tyname, c.ident); register_const_or_table(&mut cx, n, &c.ty, Some(c.expr)); } }
                }
                _ => {}
            }
        }
    }
    // signatures of the whitelisted functions
    for w in whitelist.iter().chain(externs.iter()) {
        let f = match cx.fns.get(w) { Some(f) => f, None => { eprintln!("translate: whitelisted function {} not found", w); std::process::exit(2); } };
        let mut params = Vec::new();
        for a in f.sig.inputs.iter() {
            if let FnArg::Typed(pt) = a {
                let n = match &*pt.pat { Pat::Ident(pi) => pi.ident.to_string(), _ => "_".into() };
                let (t, m) = ty_of_type(&pt.ty);
                params.push((n, t, m));
            } else if let FnArg::Receiver(rc) = a {
                if rc.mutability.is_some() && !ext_set.contains(w) { eprintln!("translate: &mut self in {}", w); std::process::exit(2); }
                params.push(("self".to_string(), Ty::W(128), rc.mutability.is_some()));
            }
        }
        if ambiguous.contains(w) { eprintln!("translate: method name {} is defined by several impls", w); std::process::exit(2); }
        let ret = match &f.sig.output { ReturnType::Default => Ty::Unit, ReturnType::Type(_, t) => ty_of_type(t).0 };
        cx.sigs.insert(w.clone(), FnSig { params, ret });
    }
    // dependency order
    let mut order: Vec<String> = Vec::new();
    fn visit(n: &str, cx: &Ctx, wl: &[String], ext: &HashSet<String>, seen: &mut HashSet<String>, order: &mut Vec<String>) {
        if seen.contains(n) { return; } seen.insert(n.to_string());
        let mut calls = Vec::new(); collect_calls(&cx.fns[n].block, &mut calls);
        // a first-whitelist function never depends on the extension list: such a call can only sit in a statement the build
        // under test drops (`#[cfg(feature = …)] return bid128_fma_tiny_after(..)`); were it live, the emitted call would
        // precede its definition and the module would not compile
        for c in calls { if wl.contains(&c) && c != n && !(ext.contains(&c) && !ext.contains(n)) { visit(&c, cx, wl, ext, seen, order); } }
        order.push(n.to_string());
    }
    let mut seen = HashSet::new();
    for w in &whitelist { visit(w, &cx, &whitelist, &ext_set, &mut seen, &mut order); }

    let mut bodies: [Vec<String>; 2] = [Vec::new(), Vec::new()];
    let mut translated: [BTreeMap<String, String>; 2] = [BTreeMap::new(), BTreeMap::new()];
    let mut failed: [BTreeMap<String, String>; 2] = [BTreeMap::new(), BTreeMap::new()];
    let mut n1_consts: Option<usize> = None;
    let mut tables1: HashSet<String> = HashSet::new();
    for name in &order {
        let part = if ext_set.contains(name) { 1 } else { 0 };
        if part == 1 && n1_consts.is_none() { n1_consts = Some(cx.used_consts.len()); tables1 = cx.used_tables.clone(); }
        if part == 0 && n1_consts.is_some() { eprintln!("translate: {} (first whitelist) depends on the second whitelist", name); std::process::exit(2); }
        let f = cx.fns[name].clone();
        let sig = &cx.sigs[name];
        let outs: Vec<String> = sig.params.iter().filter(|p| p.2).map(|p| p.0.clone()).collect();
        let ret = sig.ret.clone();
        let mut env: Env = Env::default();
        let mut header_params = Vec::new();
        let mut prologue = Vec::new();
        for (n, t, _m) in sig.params.iter() {
            header_params.push(format!("({}_ : {})", n, t.lean()));
            prologue.push(format!("  let mut {} : {} := {}_", id(n), t.lean(), n));
            env.insert(n.clone(), t.clone());
        }
        let mut rtys: Vec<String> = Vec::new();
        if ret != Ty::Unit { rtys.push(ret.lean()); }
        for (_, t, m) in sig.params.iter() { if *m { rtys.push(t.lean()); } }
        let rty = match rtys.len() { 0 => "Unit".to_string(), 1 => rtys[0].clone(), _ => format!("({})", rtys.join(" × ")) };
        // untranslated functions this one reaches (directly, or through a callee that takes them): leading parameters
        let mut needs: Vec<String> = Vec::new();
        if ext_set.contains(name) && !externs.is_empty() {
            let mut calls = Vec::new(); collect_calls(&f.block, &mut calls);
            // method calls `x.m(..)` on d128 and `Self::m(..)` are not collected by path; the glue calls free functions only
            for c in calls {
                if externs.contains(&c) { if !needs.contains(&c) { needs.push(c.clone()); } }
                if let Some(v) = cx.ext_needs.get(&c) { for e in v.clone() { if !needs.contains(&e) { needs.push(e); } } }
            }
            let mut ext_params = Vec::new();
            for e in &needs {
                let sg = &cx.sigs[e];
                let mut rtys: Vec<String> = Vec::new();
                if sg.ret != Ty::Unit { rtys.push(sg.ret.lean()); }
                for (_, t, m) in sg.params.iter() { if *m { rtys.push(t.lean()); } }
                let rty = match rtys.len() { 0 => "Unit".to_string(), 1 => rtys[0].clone(), _ => format!("({})", rtys.join(" × ")) };
                let ptys: Vec<String> = sg.params.iter().map(|p| p.1.lean()).collect();
                ext_params.push(format!("({} : {} → Except String {})", fn_name(e), ptys.join(" → "), rty));
            }
            ext_params.extend(header_params.drain(..));
            header_params = ext_params;
        }
        cx.ext_needs.insert(name.clone(), needs);
        let mut fc = FnCtx { cx: &mut cx, name: name.clone(), outs, ret: ret.clone(), tmp: 0, pre: vec![], loops: vec![], ext: ext_set.contains(name) };
        let mut out = Out { lines: Vec::new() };
        let res = fc.stmts(&f.block.stmts, &mut env, "  ", &mut out, &Tail::Ret);
        let needs_final = ret == Ty::Unit;
        let final_ret = fc.ret_tuple(None);
        let _ = &fc.name;
        match res {
            Ok(()) => {
                let mut s = String::new();
                let _ = writeln!(s, "/-- `{}` ({}) -/", name, fn_src.get(name).cloned().unwrap_or_default());
                let gens: Vec<String> = f.sig.generics.type_params().filter(|tp| tp.ident != "H").map(|tp| format!("{{{}' : Type}} [Inhabited {}']", tp.ident, tp.ident)).collect();
                let _ = writeln!(s, "def {} {} {} : Except String {} := do", fn_name(name), gens.join(" "), header_params.join(" "), rty);
                for l in &prologue { let _ = writeln!(s, "{}", l); }
                for l in &out.lines { let _ = writeln!(s, "{}", l); }
                if needs_final { let _ = writeln!(s, "  return {}", final_ret); }
                translated[part].insert(name.clone(), fn_src.get(name).cloned().unwrap_or_default());
                bodies[part].push(s);
            }
            Err(e) => {
                failed[part].insert(name.clone(), e.clone());
                // callers of an untranslatable function cannot be translated either
                cx.sigs.remove(name);
                cx.errors.push(format!("{}: {}", name, e));
            }
        }
    }
    let n1 = n1_consts.unwrap_or(cx.used_consts.len());
    if n1_consts.is_none() { tables1 = cx.used_tables.clone(); }
    // constants (transitively), first for the first module, then what only the second needs
    let mut done: HashSet<String> = HashSet::new();
    let mut const_defs: [Vec<String>; 2] = [Vec::new(), Vec::new()];
    for part in 0..2 {
        let mut queue: Vec<String> = if part == 0 { cx.used_consts[..n1].to_vec() } else { cx.used_consts[n1..].iter().filter(|c| !done.contains(*c)).cloned().collect() };
        let mut ordered: Vec<(String, String)> = Vec::new();
        while let Some(c) = queue.pop() {
            if done.contains(&c) { continue; }
            let (ty, e) = cx.consts[&c].clone();
            let before = cx.used_consts.len();
            let mut fc = FnCtx { cx: &mut cx, name: c.clone(), outs: vec![], ret: Ty::Unit, tmp: 0, pre: vec![], loops: vec![], ext: false };
            let env = Env::default();
            match fc.expr(&e, &env) {
                Ok(x) => {
                    let deps: Vec<String> = fc.cx.used_consts[before..].to_vec();
                    let undone: Vec<String> = deps.iter().filter(|d| !done.contains(*d)).cloned().collect();
                    if !undone.is_empty() { queue.push(c.clone()); for d in undone { queue.push(d); } continue; }
                    done.insert(c.clone());
                    ordered.push((c.clone(), format!("def c_{} : {} := {}", c.replace("::", "_"), ty.lean(), x.s)));
                }
                Err(er) => { done.insert(c.clone()); cx.errors.push(format!("const {}: {}", c, er)); }
            }
        }
        for (_, d) in ordered { const_defs[part].push(d); }
    }

    for part in 0..2 {
        if part == 1 && args.len() < 6 { break; }
        let mut s = String::new();
        if part == 0 {
            s.push_str("/- GENERATED by bin/gen_decgen (translate/) from /repo/src/*.rs; do not edit.\n   One def per whitelisted Rust function, statement by statement; see DecModel/RustPrelude.lean. -/\nimport DecModel.RustPrelude\n");
        } else {
            if args.len() >= 7 {
                let _ = write!(s, "/- GENERATED by bin/gen_decgen (translate/) from /repo/src/*.rs; do not edit.\n   The routines of translate/{}, on top of DecGen/Code.lean. -/\nimport DecGen.Code\n", std::path::Path::new(&args[4]).file_name().unwrap().to_string_lossy());
            } else {
            s.push_str("/- GENERATED by bin/gen_decgen (translate/) from /repo/src/*.rs; do not edit.\n   The routines of the second whitelist (translate/whitelist2.txt), on top of DecGen/Code.lean. -/\nimport DecGen.Code\n");
            }
        }
        let mut tabs: Vec<&String> = if part == 0 { tables1.iter().collect() } else { cx.used_tables.iter().filter(|t| !tables1.contains(*t)).collect() }; tabs.sort();
        for t in tabs { let _ = writeln!(s, "import DecGen.T_{}", t); }
        let ns2 = if args.len() >= 7 { format!("Dec.Gen.{}", args[6]) } else { "Dec.Gen.Code2".to_string() };
        let ns = if part == 0 { "Dec.Gen.Code" } else { ns2.as_str() };
        let _ = write!(s, "\nset_option linter.unusedVariables false\nset_option maxRecDepth 4096\n\nnamespace {}\nopen Dec.Rs{}\n\n", ns, if part == 0 { "" } else { " Dec.Gen.Code" });
        for d in &const_defs[part] { s.push_str(d); s.push('\n'); }
        s.push('\n');
        for b in &bodies[part] { s.push_str(b); s.push('\n'); }
        s.push_str("/-- the Rust functions translated in this module, with the source file each came from -/\ndef translated : List (String × String) := [\n");
        s.push_str(&translated[part].iter().map(|(k, v)| format!("  (\"{}\", \"{}\")", k, v)).collect::<Vec<_>>().join(",\n"));
        s.push_str("\n]\n\n/-- whitelisted functions the translator could NOT translate (outside its subset), with the reason -/\ndef untranslated : List (String × String) := [\n");
        s.push_str(&failed[part].iter().map(|(k, v)| format!("  (\"{}\", \"{}\")", k, v.replace('\\', "\\\\").replace('"', "'").replace('\n', " "))).collect::<Vec<_>>().join(",\n"));
        let _ = write!(s, "\n]\n\nend {}\n", ns);
        let outp = if part == 0 { outp } else { &args[5] };
        let old = std::fs::read_to_string(outp).unwrap_or_default();
        if old != s { std::fs::write(outp, s).unwrap(); }
    }
    println!("translate: {} functions translated, {} not translatable, {} constants, {} tables", translated[0].len() + translated[1].len(), failed[0].len() + failed[1].len(), const_defs[0].len() + const_defs[1].len(), cx.used_tables.len());
    for e in &cx.errors { println!("translate: NOT TRANSLATED {}", e); }
}

fn register_const_or_table(cx: &mut Ctx, n: String, ty: &Type, e: Option<Expr>) {
    if let Type::Array(_) = ty {
        let mut dims = Vec::new(); let mut t = ty;
        while let Type::Array(a) = t { dims.push(lit_usize(&a.len).unwrap_or(0)); t = &a.elem; }
        let (elem, _) = ty_of_type(t);
        cx.tables.insert(n, Table { elem, dims });
    } else if let Some(e) = e {
        let (t, _) = ty_of_type(ty);
        if t != Ty::Unknown { cx.consts.insert(n, (t, e)); }
    }
}
